import ParryModel.Field
import ParryModel.C12.Lemmas6
import ParryModel.C12.Lemmas7
/-!
# C12 theorems, eighth pass: the 3-D quickhull (`Hull3.lean`, tied index-for-index to `try_convex_hull`), for **every** `Num`
instance (`Float` included): the statements are about facet links and indices, never about arithmetic.

`Twin ts` is exactly what the maintainers' `check_facet_links` asserts, for every valid facet of `ts`: each of the three
half-edges of a valid facet is glued to a half-edge of a VALID facet, which is glued back to it, and the two glued half-edges
join the same two points in opposite directions.  A facet array with `Twin` is a closed, consistently oriented combinatorial
surface (`output_edges_twinned`).

* `initial_facets_closed` — the two initial facets built by `try_get_initial_mesh` satisfy `Twin`.
* `silhouette_entries_sound` — from a `Twin` state, `compute_silhouette` (three root calls) changes nothing but `valid` flags
  (never back to `true`), invalidates the root facet, and every silhouette entry `(f, e)` is an in-range half-edge of a facet
  that is still valid, that the point does not see, and whose neighbour across `e` has been removed.
* `attach_links_closed_form` — the linking loop of `attach_and_push_facets` in closed form; under the silhouette precondition its
  `assert!(!triangles[triangles[middle].adj[id]].valid)` / index panics do not fire.
* `attach_recloses_surface` — THE INVARIANT STEP: if the silhouette is one closed loop listing each boundary half-edge once
  (`PreAttach`), the facet array after `attach_and_push_facets` satisfies `Twin` again.
* `step_recloses_surface` — the same for a whole main-loop pass from a `Twin` state, the only hypothesis left being `ClosedLoop`
  (no half-edge twice, every boundary half-edge listed, cyclic end-point matching) — the part that rounding can break and that
  `fix_silhouette_topology` exists for; it is NOT proved in general.
* `mainLoop_closed_surface` — for all runs: if every attaching pass of the run emits its silhouette in cyclic order and needs no repair,
  the final facet array satisfies `Twin`.
* `output_edges_twinned` — `Twin` implies: every directed edge of every output triangle has its reverse in an output triangle.
-/
namespace C12
open Model Model.H3 C12.H3

variable {K : Type} [Num K]

/-- **the two initial facets form a closed surface** (a two-sided triangle). -/
theorem initial_facets_closed (negMax : K) (orig : Array (V3 K)) (evec : List (V3 K)) (eval : List K) (ini : Init K)
    (h : initialMesh negMax orig evec eval = .ok ini) : Twin ini.ts := by
  unfold initialMesh at h
  simp only at h
  split at h
  · exact absurd h (by simp)
  · split at h
    · split at h
      · exact absurd h (by simp)
      · split at h
        · exact absurd h (by simp)
        · rename_i hfold
          simp only [Res.ok.injEq] at h
          subst h
          have key : ∀ (np : Array (V3 K)) (p1 p2 p3 : Nat) (l : List Nat) (st st' : Array (Facet K) × Array Nat),
              l.foldlM (initAssign np p1 p2 p3) st = some st' → SameLinks st'.1 st.1 := by
            intro np p1 p2 p3 l
            induction l with
            | nil => intro st st' h; simp at h; subst h; exact SameLinks.refl _
            | cons a l ih =>
              intro st st' h
              simp only [List.foldlM_cons] at h
              cases hr : initAssign np p1 p2 p3 st a with
              | none => simp [hr] at h
              | some st1 =>
                simp only [hr] at h
                refine (ih st1 st' h).trans ?_
                unfold initAssign at hr
                split at hr
                · simp at hr; subst hr; exact SameLinks.refl _
                · split at hr
                  · split at hr
                    · rename_i f hf
                      simp at hr; subst hr
                      exact sameLinks_addVis _ _ _ _ _ hf
                    · exact absurd hr (by simp)
                  · simp at hr; subst hr; exact SameLinks.refl _
          exact twin_of_sameLinks (key _ _ _ _ _ _ _ hfold)
            (twin_initial _ _ _ _ _ rfl rfl rfl rfl rfl rfl rfl rfl)
    · exact absurd h (by simp)

/-- **soundness of the silhouette entries** (see the header). -/
theorem silhouette_entries_sound (ts : Array (Facet K)) (pts : Array (V3 K)) (point i : Nat) (hT : Twin ts)
    (hi : i < ts.size) (hv : (tAt ts i).valid = true) :
    let s := silhouetteStep pts point i ts
    Shrunk s.ts ts ∧ (tAt s.ts i).valid = false ∧
    ∀ (q a j : Nat), s.out[q]? = some (a, j) → a < ts.size ∧ j < 3 ∧ (tAt s.ts a).valid = true ∧
      (tAt ts a).seenBy point pts = false ∧ (tAt s.ts ((tAt ts a).adj.get j)).valid = false := by
  obtain ⟨h1, h2⟩ := silhouetteStep_inv ts pts point i hT hi hv
  exact ⟨h1.shr, h2, h1.out⟩

/-- **completeness of the silhouette**: from a `Twin` state, after `compute_silhouette` every half-edge `(a, j)` of a facet that is
still valid whose neighbour across `j` has been removed IS listed in the silhouette (the recursion's fuel `triangles.len() + 1`
is never exhausted: its depth is bounded by the number of valid facets). Together with `silhouette_entries_sound` the silhouette
is, as a set, exactly the boundary of the removed region. -/
theorem silhouette_complete (ts : Array (Facet K)) (pts : Array (V3 K)) (point i : Nat) (hT : Twin ts) (hi : i < ts.size)
    (hv : (tAt ts i).valid = true) :
    ∀ a, a < (silhouetteStep pts point i ts).ts.size → (tAt (silhouetteStep pts point i ts).ts a).valid = true → ∀ j, j < 3 →
      (tAt (silhouetteStep pts point i ts).ts ((tAt (silhouetteStep pts point i ts).ts a).adj.get j)).valid = false →
      ∃ q : Nat, (silhouetteStep pts point i ts).out[q]? = some (a, j) :=
  silhouetteStep_complete ts pts point i hT hi hv

/-- **closed form of the linking loop of `attach_and_push_facets`**: the old facets keep everything but the links of the silhouette
half-edges, which now point to the new facet `ts.size + q` (edge 1); new facet `q` is valid, is `(point, second, first)` of
silhouette entry `q` and is linked to (previous new facet, edge 2), (the silhouette facet, its edge), (next new facet, edge 0). -/
theorem attach_links_closed_form (pts : Array (V3 K)) (point : Nat) (sil : Array (Nat × Nat)) (removed : Array Nat)
    (ts : Array (Facet K)) (und : Array Nat) (ts' : Array (Facet K)) (und' : Array Nat) (hp : SilPre ts sil)
    (h : attachAndPush pts point sil removed ts und = some (ts', und')) :
    ∃ (ts1 nf : Array (Facet K)), ts' = ts1 ++ nf ∧ ts1.size = ts.size ∧ nf.size = sil.size ∧
      (∀ a, (tAt ts1 a).valid = (tAt ts a).valid ∧ (tAt ts1 a).pts = (tAt ts a).pts ∧
        ∀ j, j < 3 →
          ((∀ i : Nat, sil[i]? ≠ some (a, j)) →
            (tAt ts1 a).adj.get j = (tAt ts a).adj.get j ∧ (tAt ts1 a).ind.get j = (tAt ts a).ind.get j) ∧
          (∀ i : Nat, sil[i]? = some (a, j) → (tAt ts1 a).adj.get j = ts.size + i ∧ (tAt ts1 a).ind.get j = 1)) ∧
      (∀ (q : Nat) (e : Nat × Nat), sil[q]? = some e →
        (tAt nf q).valid = true ∧ (tAt nf q).pts = ⟨point, secondOf ts e, firstOf ts e⟩ ∧
        (tAt nf q).adj = ⟨prevOf ts.size sil.size q, e.1, nextOf ts.size sil.size q⟩ ∧ (tAt nf q).ind = ⟨2, e.2, 0⟩) :=
  attach_closed_form pts point sil removed ts und ts' und' hp h

/-- the linking loop does not panic under the silhouette precondition -/
theorem attach_link_asserts_hold (pts : Array (V3 K)) (point : Nat) (sil : Array (Nat × Nat)) (ts : Array (Facet K))
    (hp : SilPre ts sil) :
    ((List.range sil.size).foldl (linkStep ts.size sil.size sil) ⟨ts, newFacets pts point ts sil, false⟩).panic = false :=
  (linkFold_inv ts (newFacets pts point ts sil) sil hp (by simp [newFacets]) sil.size (Nat.le_refl _)).1

/-- **attaching the cone over a closed silhouette loop re-closes the surface.** -/
theorem attach_recloses_surface (pts : Array (V3 K)) (point : Nat) (sil : Array (Nat × Nat)) (removed : Array Nat)
    (ts : Array (Facet K)) (und : Array Nat) (ts' : Array (Facet K)) (und' : Array Nat) (hp : PreAttach ts sil)
    (h : attachAndPush pts point sil removed ts und = some (ts', und')) : Twin ts' :=
  attach_twin pts point sil removed ts und ts' und' hp h

/-- non-vacuity: the two-sided triangle `(0,1,2)` / `(1,0,2)` after facet 0 has been removed by the silhouette search -/
def exTs : Array (Facet Rat) :=
  #[⟨false, false, V3.zero, ⟨1, 1, 1⟩, ⟨0, 2, 1⟩, ⟨0, 1, 2⟩, #[]⟩, ⟨true, false, V3.zero, ⟨0, 0, 0⟩, ⟨0, 2, 1⟩, ⟨1, 0, 2⟩, #[]⟩]
def exSil : Array (Nat × Nat) := #[(1, 0), (1, 2), (1, 1)]

private theorem exT0 : tAt exTs 0 = ⟨false, false, V3.zero, ⟨1, 1, 1⟩, ⟨0, 2, 1⟩, ⟨0, 1, 2⟩, #[]⟩ := rfl
private theorem exT1 : tAt exTs 1 = ⟨true, false, V3.zero, ⟨0, 0, 0⟩, ⟨0, 2, 1⟩, ⟨1, 0, 2⟩, #[]⟩ := rfl

private theorem exSz : exTs.size = 2 := rfl

private theorem exSil_cases (i : Nat) (e : Nat × Nat) (h : exSil[i]? = some e) :
    (i = 0 ∧ e = (1, 0)) ∨ (i = 1 ∧ e = (1, 2)) ∨ (i = 2 ∧ e = (1, 1)) := by
  rcases i with _ | _ | _ | i
  · left; simp [exSil] at h; exact ⟨rfl, h.symm⟩
  · right; left; simp [exSil] at h; exact ⟨rfl, h.symm⟩
  · right; right; simp [exSil] at h; exact ⟨rfl, h.symm⟩
  · simp [exSil] at h

/-- **non-vacuity** of `PreAttach` (hypothesis of `attach_recloses_surface`): facet 0 of the initial two-sided triangle removed,
silhouette = the three half-edges of facet 1 in the order `compute_silhouette` emits them -/
example : PreAttach exTs exSil := by
  refine ⟨⟨fun i a j h => ?_, fun i i' e h h' => ?_⟩, fun i a j h => ?_, fun a ha hv j hj hn => ?_, fun i e e' h h' => ?_,
    fun a ha hv j hj => ?_⟩
  · rcases exSil_cases i _ h with ⟨_, he⟩ | ⟨_, he⟩ | ⟨_, he⟩ <;> (cases he; simp [exT1, exT0, T3.get, exSz])
  · rcases exSil_cases i _ h with ⟨rfl, he⟩ | ⟨rfl, he⟩ | ⟨rfl, he⟩ <;>
      rcases exSil_cases i' _ h' with ⟨rfl, he'⟩ | ⟨rfl, he'⟩ | ⟨rfl, he'⟩ <;> first | rfl | (rw [he] at he'; simp at he')
  · rcases exSil_cases i _ h with ⟨_, he⟩ | ⟨_, he⟩ | ⟨_, he⟩ <;> (cases he; simp [exT1])
  · have ha' : a = 0 ∨ a = 1 := by rw [exSz] at ha; omega
    rcases ha' with rfl | rfl
    · simp [exT0] at hv
    · rcases lt3 hj with rfl | rfl | rfl
      · exact ⟨0, rfl⟩
      · exact ⟨2, rfl⟩
      · exact ⟨1, rfl⟩
  · have hsz : exSil.size = 3 := rfl
    rw [hsz] at h'
    rcases exSil_cases i _ h with ⟨rfl, he⟩ | ⟨rfl, he⟩ | ⟨rfl, he⟩ <;>
      rcases exSil_cases _ _ h' with ⟨hi, he'⟩ | ⟨hi, he'⟩ | ⟨hi, he'⟩ <;> simp at hi <;>
      (subst he; subst he'; simp [secondOf, firstOf, second, first, exT1, T3.get])
  · have ha' : a = 0 ∨ a = 1 := by rw [exSz] at ha; omega
    rcases ha' with rfl | rfl
    · simp [exT0] at hv
    · rcases lt3 hj with rfl | rfl | rfl <;> simp [exT1, exT0, T3.get, exSz]

/-- **non-vacuity** of `Twin` (hypothesis of the step theorems): the initial two-sided triangle -/
example : Twin (#[⟨true, false, V3.zero, ⟨1, 1, 1⟩, ⟨0, 2, 1⟩, ⟨0, 1, 2⟩, #[]⟩, ⟨true, false, V3.zero, ⟨0, 0, 0⟩, ⟨0, 2, 1⟩, ⟨1, 0, 2⟩, #[]⟩] : Array (Facet Rat)) :=
  twin_initial _ _ 0 1 2 rfl rfl rfl rfl rfl rfl rfl rfl

/-- **one main-loop pass keeps the surface closed and consistently oriented**, given a `ClosedLoop` silhouette. -/
theorem step_recloses_surface (ts : Array (Facet K)) (pts : Array (V3 K)) (point i : Nat) (und : Array Nat)
    (ts' : Array (Facet K)) (und' : Array Nat) (hT : Twin ts) (hi : i < ts.size) (hv : (tAt ts i).valid = true)
    (hc : ClosedLoop (silhouetteStep pts point i ts).ts (silhouetteStep pts point i ts).out)
    (h : attachAndPush pts point (silhouetteStep pts point i ts).out (silhouetteStep pts point i ts).removed
      (silhouetteStep pts point i ts).ts und = some (ts', und')) : Twin ts' :=
  attach_twin _ _ _ _ _ _ _ _
    (preAttach_of_silInv ts pts point _ hT (silhouetteStep_inv ts pts point i hT hi hv).1 hc) h

/-- **no half-edge is listed twice in the silhouette** (from a `Twin` state). -/
theorem silhouette_no_duplicates (ts : Array (Facet K)) (pts : Array (V3 K)) (point i : Nat) (hT : Twin ts) (hi : i < ts.size)
    (hv : (tAt ts i).valid = true) (q q' : Nat) (e : Nat × Nat)
    (h : (silhouetteStep pts point i ts).out[q]? = some e) (h' : (silhouetteStep pts point i ts).out[q']? = some e) : q = q' :=
  silhouetteStep_nodup ts pts point i hT hi hv q q' e h h'

/-- the ONE clause about the silhouette that is not proved in general: consecutive entries (cyclically) share an end point, i.e.
the ORDER in which `compute_silhouette` emits the boundary half-edges is one closed loop.  It fails when the removed region is not
a topological disc (rounding: a facet "seen" in the middle of unseen ones, a pinched region) — the case `fix_silhouette_topology`
exists for. -/
def CyclicLoop (ts : Array (Facet K)) (sil : Array (Nat × Nat)) : Prop :=
  ∀ (i : Nat) (e e' : Nat × Nat), sil[i]? = some e → sil[(i + 1) % sil.size]? = some e' → secondOf ts e' = firstOf ts e

/-- **the silhouette of the visible region is a closed loop when adjacency is symmetric**, up to the emission order:
from a `Twin` state the silhouette lists each boundary half-edge of the removed region exactly once (`silhouette_complete`,
`silhouette_no_duplicates`, `silhouette_entries_sound`); if in addition its order is cyclic it is a `ClosedLoop`. -/
theorem closedLoop_of_cyclic (ts : Array (Facet K)) (pts : Array (V3 K)) (point i : Nat) (hT : Twin ts) (hi : i < ts.size)
    (hv : (tAt ts i).valid = true)
    (hc : CyclicLoop (silhouetteStep pts point i ts).ts (silhouetteStep pts point i ts).out) :
    ClosedLoop (silhouetteStep pts point i ts).ts (silhouetteStep pts point i ts).out :=
  ⟨silhouetteStep_nodup ts pts point i hT hi hv, silhouetteStep_complete ts pts point i hT hi hv, hc⟩

/-- hypothesis of the all-runs theorem at pass `i`: when the pass attaches a point, the silhouette needs no repair
(`needs_fixing == false`), is not empty and is emitted in cyclic order (`CyclicLoop`) -/
def StepClosed (negMax : K) (pts : Array (V3 K)) (i : Nat) (ts : Array (Facet K)) : Prop :=
  ∀ point, (tAt ts i).valid = true →
    H3.indexedSupportPointId negMax (tAt ts i).normal pts (tAt ts i).vis.toList = some point →
    (countSeconds pts.size (silhouetteStep pts point i ts).ts (silhouetteStep pts point i ts).out).2 = false ∧
    (silhouetteStep pts point i ts).out.isEmpty = false ∧
    CyclicLoop (silhouetteStep pts point i ts).ts (silhouetteStep pts point i ts).out

/-- the facet array never shrinks in a pass -/
theorem mainStep_size (negMax : K) (pts : Array (V3 K)) (i : Nat) (ts : Array (Facet K)) (und : Array Nat)
    (brk : Bool) (ts' : Array (Facet K)) (und' : Array Nat) (hT : Twin ts) (hi : i < ts.size)
    (hc : StepClosed negMax pts i ts) (h : mainStep negMax pts i ts und = .ok (brk, ts', und')) :
    ts.size ≤ ts'.size := by
  unfold mainStep at h
  simp only at h
  split at h
  · simp only [Res.ok.injEq, Prod.mk.injEq] at h
    obtain ⟨_, rfl, _⟩ := h; exact Nat.le_refl _
  · rename_i hva
    split at h
    · simp only [Res.ok.injEq, Prod.mk.injEq] at h
      obtain ⟨_, rfl, _⟩ := h; exact Nat.le_refl _
    · rename_i point hsupp
      have hv : (tAt ts i).valid = true := by
        cases hcv : (tAt ts i).valid with
        | true => rfl
        | false => simp [hcv] at hva
      obtain ⟨hnf, hne, hcy⟩ := hc point hv hsupp
      have hcl := closedLoop_of_cyclic ts pts point i hT hi hv hcy
      have hfix : fixSilhouetteTopology negMax pts (silhouetteStep pts point i ts) = some (silhouetteStep pts point i ts) := by
        unfold fixSilhouetteTopology
        generalize hcs : countSeconds pts.size (silhouetteStep pts point i ts).ts (silhouetteStep pts point i ts).out = cs at hnf
        obtain ⟨ws, nf⟩ := cs
        simp only at hnf
        simp [hnf]
      rw [hfix] at h
      simp only [hne, Bool.false_eq_true, if_false] at h
      split at h
      · exact absurd h (by simp)
      · rename_i ts2 und2 hatt
        simp only [Res.ok.injEq, Prod.mk.injEq] at h
        obtain ⟨_, rfl, _⟩ := h
        have hpa := preAttach_of_silInv ts pts point _ hT (silhouetteStep_inv ts pts point i hT hi hv).1 hcl
        obtain ⟨ts1, nf, rfl, hs1, _, _, _⟩ := attach_closed_form _ _ _ _ _ _ _ _ hpa.pre hatt
        have := (silhouetteStep_inv ts pts point i hT hi hv).1.shr.1
        simp; omega

/-- one pass of the main loop under `StepClosed`: no early `break`, and `Twin` is kept -/
theorem mainStep_closed_surface (negMax : K) (pts : Array (V3 K)) (i : Nat) (ts : Array (Facet K)) (und : Array Nat)
    (brk : Bool) (ts' : Array (Facet K)) (und' : Array Nat) (hT : Twin ts) (hi : i < ts.size)
    (hc : StepClosed negMax pts i ts) (h : mainStep negMax pts i ts und = .ok (brk, ts', und')) :
    brk = false ∧ Twin ts' := by
  unfold mainStep at h
  simp only at h
  split at h
  · simp only [Res.ok.injEq, Prod.mk.injEq] at h
    obtain ⟨rfl, rfl, _⟩ := h; exact ⟨rfl, hT⟩
  · rename_i hva
    split at h
    · simp only [Res.ok.injEq, Prod.mk.injEq] at h
      obtain ⟨rfl, rfl, _⟩ := h; exact ⟨rfl, hT⟩
    · rename_i point hsupp
      have hv : (tAt ts i).valid = true := by
        cases hcv : (tAt ts i).valid with
        | true => rfl
        | false => simp [hcv] at hva
      obtain ⟨hnf, hne, hcy⟩ := hc point hv hsupp
      have hcl := closedLoop_of_cyclic ts pts point i hT hi hv hcy
      have hfix : fixSilhouetteTopology negMax pts (silhouetteStep pts point i ts) = some (silhouetteStep pts point i ts) := by
        unfold fixSilhouetteTopology
        generalize hcs : countSeconds pts.size (silhouetteStep pts point i ts).ts (silhouetteStep pts point i ts).out = cs at hnf
        obtain ⟨ws, nf⟩ := cs
        simp only at hnf
        simp [hnf]
      rw [hfix] at h
      simp only [hne, Bool.false_eq_true, if_false] at h
      split at h
      · exact absurd h (by simp)
      · rename_i ts2 und2 hatt
        simp only [Res.ok.injEq, Prod.mk.injEq] at h
        obtain ⟨rfl, rfl, rfl⟩ := h
        exact ⟨rfl, step_recloses_surface ts pts point i und _ _ hT hi hv hcl hatt⟩

/-- `StepClosed` along the whole run of the main loop -/
def RunClosed (negMax : K) (pts : Array (V3 K)) : Nat → Nat → Array (Facet K) → Array Nat → Prop
  | 0, _, _, _ => True
  | fuel + 1, i, ts, und =>
    i = ts.size ∨ (StepClosed negMax pts i ts ∧
      ∀ brk ts' und', mainStep negMax pts i ts und = .ok (brk, ts', und') → RunClosed negMax pts fuel (i + 1) ts' und')

/-- **INVARIANT THEOREM FOR ALL RUNS**: starting from a closed consistently oriented surface (the two initial facets,
`initial_facets_closed`), if every attaching pass of the run emits its silhouette in cyclic order and needs no repair, then the facet
array the main loop ends with is again a closed consistently oriented surface — `check_facet_links` holds for every valid facet. -/
theorem mainLoop_closed_surface (negMax : K) (pts : Array (V3 K)) : ∀ (fuel i : Nat) (ts : Array (Facet K)) (und : Array Nat)
    (tsF : Array (Facet K)), Twin ts → i ≤ ts.size → RunClosed negMax pts fuel i ts und →
    mainLoop negMax pts fuel i ts und = .ok tsF → Twin tsF := by
  intro fuel
  induction fuel with
  | zero => intro i ts und tsF _ _ _ h; simp [mainLoop] at h
  | succ fuel ih =>
    intro i ts und tsF hT hi hr h
    unfold mainLoop at h
    by_cases hend : i = ts.size
    · simp only [hend, if_true, Res.ok.injEq] at h; subst h; exact hT
    · simp only [hend, if_false] at h
      unfold RunClosed at hr
      rcases hr with hr | ⟨hs, hrest⟩
      · exact absurd hr hend
      · split at h
        · rename_i brk ts' und' hstep
          obtain ⟨hb, hT'⟩ := mainStep_closed_surface negMax pts i ts und brk ts' und' hT (by omega) hs hstep
          subst hb
          simp only [Bool.false_eq_true, if_false] at h
          have hsz : i + 1 ≤ ts'.size := by
            -- the facet array never shrinks
            have := mainStep_size negMax pts i ts und false ts' und' hT (by omega) hs hstep
            omega
          exact ih (i + 1) ts' und' tsF hT' hsz (hrest _ _ _ hstep) h
        all_goals exact absurd h (by simp)

/-- index safety of the facet array: every stored point index is a valid point index, every stored facet link a valid facet index,
every stored edge number `< 3` — for ALL facets, valid or not (the code reads removed facets too) -/
def WF (npts : Nat) (ts : Array (Facet K)) : Prop :=
  ∀ a, a < ts.size → ∀ j, j < 3 →
    (tAt ts a).pts.get j < npts ∧ (tAt ts a).adj.get j < ts.size ∧ (tAt ts a).ind.get j < 3

/-- invalidating facets keeps index safety -/
theorem wf_of_shrunk (npts : Nat) (a b : Array (Facet K)) (h : Shrunk a b) (hb : WF npts b) : WF npts a := by
  intro x hx j hj
  obtain ⟨e1, e2, e3, _⟩ := h.2 x
  rw [e1, e2, e3, h.1]
  exact hb x (by rw [← h.1]; exact hx) j hj

/-- **index safety and vertex provenance through `attach_and_push_facets`**: the new facets' vertices are the attached point
and end points of silhouette edges (existing vertices); every link of the enlarged array is in range. -/
theorem attach_index_safe (npts : Nat) (pts : Array (V3 K)) (point : Nat) (sil : Array (Nat × Nat)) (removed : Array Nat)
    (ts : Array (Facet K)) (und : Array Nat) (ts' : Array (Facet K)) (und' : Array Nat) (hp : SilPre ts sil)
    (hw : WF npts ts) (hpt : point < npts) (h : attachAndPush pts point sil removed ts und = some (ts', und')) :
    WF npts ts' ∧ ts'.size = ts.size + sil.size ∧
    ∀ a, ts.size ≤ a → a < ts'.size → ∀ j, j < 3 →
      (tAt ts' a).pts.get j = point ∨ ∃ b k, b < ts.size ∧ k < 3 ∧ (tAt ts' a).pts.get j = (tAt ts b).pts.get k := by
  obtain ⟨ts1, nf, rfl, hs1, hs2, hA, hB⟩ := attach_closed_form pts point sil removed ts und ts' und' hp h
  have hsz : (ts1 ++ nf).size = ts.size + sil.size := by simp [hs1, hs2]
  have hnew : ∀ q, tAt (ts1 ++ nf) (ts.size + q) = tAt nf q := fun q => by
    rw [tAt_append, if_neg (by omega)]; congr 1; omega
  have hnewf : ∀ q, q < sil.size → ∃ e : Nat × Nat, sil[q]? = some e ∧ e.1 < ts.size ∧ e.2 < 3 ∧
      (tAt nf q).pts = ⟨point, secondOf ts e, firstOf ts e⟩ ∧
      (tAt nf q).adj = ⟨prevOf ts.size sil.size q, e.1, nextOf ts.size sil.size q⟩ ∧ (tAt nf q).ind = ⟨2, e.2, 0⟩ := by
    intro q hq
    have hsq : sil[q]? = some ((sil[q]?).getD (0, 0)) := by simp [hq]
    generalize (sil[q]?).getD (0, 0) = e at hsq
    obtain ⟨_, b2, b3, b4⟩ := hB q e hsq
    obtain ⟨ea, ej⟩ := e
    obtain ⟨r1, r2, _, _⟩ := hp.rng q ea ej hsq
    exact ⟨(ea, ej), hsq, r1, r2, b2, b3, b4⟩
  refine ⟨?_, hsz, ?_⟩
  · intro a ha j hj
    rw [hsz] at ha ⊢
    by_cases hin : a < ts.size
    · rw [tAt_append, if_pos (by omega)]
      obtain ⟨_, a2, a3⟩ := hA a
      obtain ⟨w1, w2, w3⟩ := hw a hin j hj
      rw [a2]
      refine ⟨w1, ?_⟩
      by_cases hex : ∃ q : Nat, sil[q]? = some (a, j)
      · obtain ⟨q, hq⟩ := hex
        obtain ⟨c1, c2⟩ := (a3 j hj).2 q hq
        have := getElem?_lt_of_some _ _ _ hq
        rw [c1, c2]; omega
      · obtain ⟨c1, c2⟩ := (a3 j hj).1 (fun q hq => hex ⟨q, hq⟩)
        rw [c1, c2]; omega
    · obtain ⟨q, rfl⟩ : ∃ q, a = ts.size + q := ⟨a - ts.size, by omega⟩
      have hq : q < sil.size := by omega
      have hm : 0 < sil.size := by omega
      obtain ⟨e, _, e1, e2, f2, f3, f4⟩ := hnewf q hq
      rw [hnew q, f2, f3, f4]
      have hsec : secondOf ts e < npts := (hw e.1 e1 _ (Nat.mod_lt _ (by omega))).1
      have hfst : firstOf ts e < npts := (hw e.1 e1 _ e2).1
      have hprev : prevOf ts.size sil.size q < ts.size + sil.size := by unfold prevOf; split <;> omega
      have hnext : nextOf ts.size sil.size q < ts.size + sil.size := by
        unfold nextOf; have := Nat.mod_lt (q + 1) hm; omega
      rcases lt3 hj with rfl | rfl | rfl
      · exact ⟨hpt, hprev, by show (2 : Nat) < 3; omega⟩
      · exact ⟨hsec, by show e.1 < _; omega, e2⟩
      · exact ⟨hfst, hnext, by show (0 : Nat) < 3; omega⟩
  · intro a hlo hhi j hj
    rw [hsz] at hhi
    obtain ⟨q, rfl⟩ : ∃ q, a = ts.size + q := ⟨a - ts.size, by omega⟩
    obtain ⟨e, _, e1, e2, f2, _, _⟩ := hnewf q (by omega)
    rw [hnew q, f2]
    rcases lt3 hj with rfl | rfl | rfl
    · exact Or.inl rfl
    · exact Or.inr ⟨e.1, (e.2 + 1) % 3, e1, Nat.mod_lt _ (by omega), rfl⟩
    · exact Or.inr ⟨e.1, e.2, e1, e2, rfl⟩

/-- a closed surface in link form is closed in edge form: every directed edge of a valid facet has its reverse in a valid facet -/
theorem output_edges_twinned (ts : Array (Facet K)) (hT : Twin ts) (i j : Nat) (hi : i < ts.size)
    (hv : (tAt ts i).valid = true) (hj : j < 3) :
    ∃ i' j', i' < ts.size ∧ j' < 3 ∧ (tAt ts i').valid = true ∧
      first (tAt ts i') j' = second (tAt ts i) j ∧ second (tAt ts i') j' = first (tAt ts i) j := by
  obtain ⟨t1, t2, t3, _, _, t6, t7⟩ := hT i hi hv j hj
  exact ⟨_, _, t1, t2, t3, t6, t7⟩

end C12
