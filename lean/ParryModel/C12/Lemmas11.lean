import ParryModel.C12.Validate
/-!
# C12 lemmas (fu5): the edge map of `check_convex_hull` counts, for every undirected side, how many triangle sides carry it.
Core Lean only; every `Num` instance (the statements are about indices).
-/
namespace C12.H3
open Model Model.H3

/-- the three undirected sides of a triangle, in the order the validator enters them -/
def sidesOf (t : T3) : List (Nat × Nat) := [sortedPair t.a t.b, sortedPair t.b t.c, sortedPair t.c t.a]

def NonDeg (t : T3) : Prop := ¬ (t.a = t.b ∨ t.a = t.c ∨ t.c = t.b)

/-- number of filled slots of the entry of `k` -/
def slots (e : EdgeTab) (k : Nat × Nat) : Nat :=
  match e.find? (fun x => x.1 == k) with
  | none => 0
  | some (_, _, none) => 1
  | some (_, _, some _) => 2

/-- the edge map after the sides `pre` have been entered -/
structure TabInv (pre : List (Nat × Nat)) (e : EdgeTab) : Prop where
  nodup : (e.map (·.1)).Nodup
  cnt : ∀ k, slots e k = pre.count k

theorem slots_le (e : EdgeTab) (k : Nat × Nat) : slots e k ≤ 2 := by
  unfold slots; split <;> omega

theorem slots_zero_iff (e : EdgeTab) (k : Nat × Nat) : slots e k = 0 ↔ k ∉ e.map (·.1) := by
  unfold slots
  split
  · rename_i h
    simp only [true_iff]
    intro hm
    obtain ⟨x, hx, rfl⟩ := List.mem_map.mp hm
    have := List.find?_eq_none.mp h x hx
    simp at this
  · rename_i h
    have h1 := List.find?_some h
    have h2 := List.mem_of_find?_eq_some h
    simp only [beq_iff_eq] at h1
    constructor
    · intro h0; omega
    · intro hn; exact absurd (List.mem_map.mpr ⟨_, h2, h1⟩) hn
  · rename_i h
    have h1 := List.find?_some h
    have h2 := List.mem_of_find?_eq_some h
    simp only [beq_iff_eq] at h1
    constructor
    · intro h0; omega
    · intro hn; exact absurd (List.mem_map.mpr ⟨_, h2, h1⟩) hn

theorem tabInv_nil : TabInv [] [] := ⟨by simp, fun k => by simp [slots]⟩

/-- `edges.entry(key)` on a key with fewer than two sides so far: the side is recorded -/
theorem addSide_some (pre : List (Nat × Nat)) (e : EdgeTab) (i : Nat) (k : Nat × Nat) (h : TabInv pre e)
    (hc : pre.count k < 2) : ∃ e', addSide e i k = some e' ∧ TabInv (pre ++ [k]) e' := by
  have hs := h.cnt k
  unfold addSide
  unfold slots at hs
  split at hs
  · -- vacant
    rename_i hf
    rw [hf]
    refine ⟨_, rfl, ?_, fun k' => ?_⟩
    · have hk : k ∉ e.map (·.1) := (slots_zero_iff e k).mp (by unfold slots; rw [hf])
      simp only [List.map_append, List.map_cons, List.map_nil]
      exact List.nodup_append.mpr ⟨h.nodup, by simp, fun a ha b hb => by
        simp only [List.mem_singleton] at hb; subst hb; intro hab; subst hab; exact hk ha⟩
    · rw [List.count_append, ← h.cnt k']
      unfold slots
      rw [List.find?_append]
      by_cases hkk : k = k'
      · subst hkk
        rw [hf]; simp
      · cases hf' : e.find? (fun x => x.1 == k') with
        | none => simp [hkk]
        | some x => obtain ⟨x1, x2, x3⟩ := x; cases x3 <;> simp [hkk]
  · -- one side so far
    rename_i k0 t0 hf
    rw [hf]
    have hk0 : k0 = k := by have := List.find?_some hf; simpa using this
    subst hk0
    refine ⟨_, rfl, ?_, fun k' => ?_⟩
    · have : (e.map fun x => if x.1 == k0 then (x.1, t0, some i) else x).map (·.1) = e.map (·.1) := by
        rw [List.map_map]; apply List.map_congr_left; intro x _; simp only [Function.comp]; split <;> rfl
      rw [this]; exact h.nodup
    · rw [List.count_append, ← h.cnt k']
      unfold slots
      rw [List.find?_map]
      have hp : ((fun x : (Nat × Nat) × Nat × Option Nat => x.1 == k') ∘
          fun x => if x.1 == k0 then (x.1, t0, some i) else x) = fun x => x.1 == k' := by
        funext x; simp only [Function.comp]; split <;> rfl
      rw [hp]
      by_cases hkk : k0 = k'
      · subst hkk
        rw [hf]; simp
      · cases hf' : e.find? (fun x => x.1 == k') with
        | none => simp [hkk]
        | some x =>
          have hx1 : x.1 = k' := by have := List.find?_some hf'; simpa using this
          obtain ⟨x1, x2, x3⟩ := x
          simp only at hx1; subst hx1
          have hne : ¬ (x1 = k0) := fun hc => hkk hc.symm
          cases x3 <;> simp [hkk, hne]
  · -- two sides already: excluded by `hc`
    omega

/-- `edges.entry(key)` on a key that already has two sides: panic -/
theorem addSide_none (pre : List (Nat × Nat)) (e : EdgeTab) (i : Nat) (k : Nat × Nat) (h : TabInv pre e)
    (hc : 2 ≤ pre.count k) : addSide e i k = none := by
  have hs := h.cnt k
  unfold addSide
  unfold slots at hs
  split at hs
  · omega
  · omega
  · rename_i hf; rw [hf]

theorem addSide_inv (pre : List (Nat × Nat)) (e e' : EdgeTab) (i : Nat) (k : Nat × Nat) (h : TabInv pre e)
    (hs : addSide e i k = some e') : TabInv (pre ++ [k]) e' := by
  by_cases hc : pre.count k < 2
  · obtain ⟨e'', h1, h2⟩ := addSide_some pre e i k h hc
    rw [h1] at hs; simp only [Option.some.injEq] at hs; subst hs; exact h2
  · rw [addSide_none pre e i k h (by omega)] at hs; exact absurd hs (by simp)

def sidesAll (l : List (Nat × T3)) : List (Nat × Nat) := (l.map (·.2)).flatMap sidesOf

theorem checkTri_inv (pre : List (Nat × Nat)) (e e' : EdgeTab) (i : Nat) (t : T3) (h : TabInv pre e)
    (hs : checkTri e i t = some e') : NonDeg t ∧ TabInv (pre ++ sidesOf t) e' := by
  unfold checkTri at hs
  split at hs
  · exact absurd hs (by simp)
  · rename_i hnd
    cases h1 : addSide e i (sortedPair t.a t.b) with
    | none => simp [h1] at hs
    | some e1 =>
      simp only [h1, Option.bind_some] at hs
      cases h2 : addSide e1 i (sortedPair t.b t.c) with
      | none => simp [h2] at hs
      | some e2 =>
        simp only [h2, Option.bind_some] at hs
        have i1 := addSide_inv pre e e1 i _ h h1
        have i2 := addSide_inv _ e1 e2 i _ i1 h2
        have i3 := addSide_inv _ e2 e' i _ i2 hs
        refine ⟨hnd, ?_⟩
        simpa [sidesOf, List.append_assoc] using i3

theorem checkTris_inv : ∀ (l : List (Nat × T3)) (pre : List (Nat × Nat)) (e e' : EdgeTab), TabInv pre e →
    checkTris l e = some e' → (∀ x, x ∈ l → NonDeg x.2) ∧ TabInv (pre ++ sidesAll l) e' := by
  intro l
  induction l with
  | nil =>
    intro pre e e' h hs
    simp only [checkTris, Option.some.injEq] at hs; subst hs
    exact ⟨fun x hx => by simp at hx, by simpa [sidesAll] using h⟩
  | cons a l ih =>
    intro pre e e' h hs
    obtain ⟨i, t⟩ := a
    simp only [checkTris] at hs
    cases h1 : checkTri e i t with
    | none => simp [h1] at hs
    | some e1 =>
      simp only [h1, Option.bind_some] at hs
      obtain ⟨g1, g2⟩ := checkTri_inv pre e e1 i t h h1
      obtain ⟨g3, g4⟩ := ih _ e1 e' g2 hs
      refine ⟨fun x hx => ?_, ?_⟩
      · rcases List.mem_cons.mp hx with rfl | hx
        · exact g1
        · exact g3 x hx
      · simpa [sidesAll, List.append_assoc] using g4

theorem checkTri_complete (pre rest : List (Nat × Nat)) (e : EdgeTab) (i : Nat) (t : T3) (h : TabInv pre e) (hnd : NonDeg t)
    (hc : ∀ k, (pre ++ sidesOf t ++ rest).count k ≤ 2) : ∃ e', checkTri e i t = some e' := by
  unfold checkTri
  rw [if_neg hnd]
  have c1 : pre.count (sortedPair t.a t.b) < 2 := by
    have := hc (sortedPair t.a t.b)
    simp only [sidesOf, List.count_append, List.count_cons_self] at this; omega
  obtain ⟨e1, h1, i1⟩ := addSide_some pre e i _ h c1
  have c2 : (pre ++ [sortedPair t.a t.b]).count (sortedPair t.b t.c) < 2 := by
    have := hc (sortedPair t.b t.c)
    simp only [sidesOf, List.count_append, List.count_cons, List.count_nil, beq_self_eq_true, if_true] at this ⊢
    omega
  obtain ⟨e2, h2, i2⟩ := addSide_some _ e1 i _ i1 c2
  have c3 : (pre ++ [sortedPair t.a t.b] ++ [sortedPair t.b t.c]).count (sortedPair t.c t.a) < 2 := by
    have := hc (sortedPair t.c t.a)
    simp only [sidesOf, List.count_append, List.count_cons, List.count_nil, beq_self_eq_true, if_true] at this ⊢
    omega
  obtain ⟨e3, h3, _⟩ := addSide_some _ e2 i _ i2 c3
  exact ⟨e3, by simp [h1, h2, h3]⟩

theorem checkTris_complete : ∀ (l : List (Nat × T3)) (pre : List (Nat × Nat)) (e : EdgeTab), TabInv pre e →
    (∀ x, x ∈ l → NonDeg x.2) → (∀ k, (pre ++ sidesAll l).count k ≤ 2) → ∃ e', checkTris l e = some e' := by
  intro l
  induction l with
  | nil => intro pre e _ _ _; exact ⟨e, rfl⟩
  | cons a l ih =>
    intro pre e h hnd hc
    obtain ⟨i, t⟩ := a
    have hc' : ∀ k, (pre ++ sidesOf t ++ sidesAll l).count k ≤ 2 := by
      intro k; have := hc k; simpa [sidesAll, List.append_assoc] using this
    obtain ⟨e1, h1⟩ := checkTri_complete pre (sidesAll l) e i t h (hnd (i, t) (by simp)) hc'
    obtain ⟨g1, g2⟩ := checkTri_inv pre e e1 i t h h1
    obtain ⟨e2, h2⟩ := ih _ e1 g2 (fun x hx => hnd x (by simp [hx])) hc'
    exact ⟨e2, by simp [checkTris, h1, h2]⟩

/-- with distinct keys, looking up the key of a stored entry returns that entry -/
theorem find_of_mem (e : EdgeTab) (hn : (e.map (·.1)).Nodup) (x : (Nat × Nat) × Nat × Option Nat) (hx : x ∈ e) :
    e.find? (fun y => y.1 == x.1) = some x := by
  induction e with
  | nil => simp at hx
  | cons a e ih =>
    simp only [List.map_cons, List.nodup_cons] at hn
    rcases List.mem_cons.mp hx with rfl | hx
    · simp
    · have hne : a.1 ≠ x.1 := fun hc => hn.1 (hc ▸ List.mem_map.mpr ⟨x, hx, rfl⟩)
      rw [List.find?_cons]
      have hb : (a.1 == x.1) = false := by simpa using hne
      rw [hb]
      exact ih hn.2 hx

/-- an entry with a free second slot exists iff some side occurs exactly once -/
theorem anyNone_iff (pre : List (Nat × Nat)) (e : EdgeTab) (h : TabInv pre e) :
    e.any (fun x => x.2.2.isNone) = true ↔ ∃ k, pre.count k = 1 := by
  constructor
  · intro ha
    obtain ⟨x, hx, hnone⟩ := List.any_eq_true.mp ha
    refine ⟨x.1, ?_⟩
    rw [← h.cnt x.1]
    unfold slots
    rw [find_of_mem e h.nodup x hx]
    obtain ⟨x1, x2, x3⟩ := x
    cases x3 with
    | none => rfl
    | some _ => simp at hnone
  · rintro ⟨k, hk⟩
    have hs := h.cnt k
    rw [hk] at hs
    unfold slots at hs
    split at hs
    · omega
    · rename_i hf
      exact List.any_eq_true.mpr ⟨_, List.mem_of_find?_eq_some hf, rfl⟩
    · omega

theorem keys_mem_iff (pre : List (Nat × Nat)) (e : EdgeTab) (h : TabInv pre e) (k : Nat × Nat) :
    k ∈ e.map (·.1) ↔ k ∈ pre := by
  have h1 := slots_zero_iff e k
  rw [h.cnt k] at h1
  constructor
  · intro hm
    by_cases hc : pre.count k = 0
    · exact absurd hm (h1.mp hc)
    · exact List.count_pos_iff.mp (by omega)
  · intro hm
    have : 0 < pre.count k := List.count_pos_iff.mpr hm
    by_cases hk : k ∈ e.map (·.1)
    · exact hk
    · have := h1.mpr hk; omega

end C12.H3
