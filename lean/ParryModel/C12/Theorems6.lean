import ParryModel.Field
import ParryModel.C12.ModelPoly
/-!
# C12 theorems, sixth pass: `ConvexPolyhedron` normals in closed form, and scale freedom of the hull certificate.

* `Unit::try_new`, `feature_normal(Edge)`, `feature_normal(Vertex)` (model `ModelPoly.lean`) over any ordered field with a lawful
  square root: what is returned is a unit vector, positively proportional to the sum of the adjacent face normals, and for an
  edge it makes the same strictly positive dot product with both adjacent face normals (outward for both faces).
  `None` is returned exactly when the summed normal is not longer than `DEFAULT_EPSILON` — in particular for a point that has
  no adjacent face (corrected behaviour B).
* the half-space test of the 3-D hull certificate (`hull3Oracle`, `polyOracle`: "point `p` is farther than `tol` outside the
  plane of the counter-clockwise triangle `a b c`") is invariant under every similarity `x ↦ s·x + t`, `s > 0`, when the
  tolerance is a fixed fraction of the cloud's bounding-box diagonal: a hull that passes at unit scale and fails after rescaling
  (or conversely) has changed, the certificate has not.
-/
namespace C12
open Model

variable {K : Type} [Field K] [LinearOrder K] [IsStrictOrderedRing K] (sq : K → K)

private theorem normSq_eq (v : V3 K) : @V3.normSq K (fieldNum K sq) v = v.x * v.x + v.y * v.y + v.z * v.z := rfl

/-- `Unit::try_new(v, m)` is `None` exactly when `|v|² ≤ m²`. -/
theorem tryNew_eq_none_iff (v : V3 K) (m : K) :
    letI := fieldNum K sq
    tryNew v m = none ↔ v.x * v.x + v.y * v.y + v.z * v.z ≤ m * m := by
  unfold tryNew
  by_cases h : m * m < @V3.normSq K (fieldNum K sq) v
  · simp only [if_pos h, reduceCtorEq, false_iff, not_le]; rw [normSq_eq] at h; exact h
  · simp only [if_neg h, true_iff]; rw [normSq_eq] at h; exact not_lt.mp h

/-- `Unit::try_new(v, m) = Some(u)`: `u` is a unit vector and `v = r·u` with `r = |v| > 0` (and `|v| > |m|`). -/
theorem tryNew_some_unit (hs : LawfulSqrt sq) (v u : V3 K) (m : K) :
    letI := fieldNum K sq
    tryNew v m = some u →
      u.x * u.x + u.y * u.y + u.z * u.z = 1 ∧
      ∃ r : K, 0 < r ∧ r * r = v.x * v.x + v.y * v.y + v.z * v.z ∧ m * m < r * r ∧
        v.x = u.x * r ∧ v.y = u.y * r ∧ v.z = u.z * r := by
  intro h
  unfold tryNew at h
  by_cases hlt : m * m < @V3.normSq K (fieldNum K sq) v
  swap
  · simp only [if_neg hlt, reduceCtorEq] at h
  simp only [if_pos hlt, Option.some.injEq] at h
  rw [normSq_eq] at hlt h
  have hpos : 0 < v.x * v.x + v.y * v.y + v.z * v.z := lt_of_le_of_lt (mul_self_nonneg m) hlt
  have hr0 := hs.nonneg _ hpos.le
  have hrr := hs.sq_mul _ hpos.le
  simp only [fieldNum_sqrt] at h
  set r := sq (v.x * v.x + v.y * v.y + v.z * v.z) with hr
  have hrpos : 0 < r := by
    rcases lt_or_eq_of_le hr0 with h' | h'
    · exact h'
    · rw [← h'] at hrr; simp at hrr; linarith
  have hne : r ≠ 0 := ne_of_gt hrpos
  subst h
  simp only [V3.sdiv]
  refine ⟨?_, r, hrpos, hrr, by rw [hrr]; exact hlt, ?_, ?_, ?_⟩
  · field_simp; nlinarith [hrr]
  · field_simp
  · field_simp
  · field_simp

/-- **edge feature normal.**  For unit face normals `n0`, `n1` that are not opposite, `feature_normal(Edge)` =
`normalize(n0 + n1)` is a unit vector, makes the *same* dot product with both face normals, and that dot product is strictly
positive: the edge normal is outward for both adjacent faces.  (This needs `n0`, `n1` to be the normals of the two faces
the edge really borders — the table `Edge::faces` judged by `polyOracle`.) -/
theorem edgeNormalOf_unit_between (hs : LawfulSqrt sq) (n0 n1 : V3 K)
    (h0 : n0.x * n0.x + n0.y * n0.y + n0.z * n0.z = 1) (h1 : n1.x * n1.x + n1.y * n1.y + n1.z * n1.z = 1)
    (hne : ¬ (n0.x + n1.x = 0 ∧ n0.y + n1.y = 0 ∧ n0.z + n1.z = 0)) :
    letI := fieldNum K sq
    let e := edgeNormalOf n0 n1
    e.x * e.x + e.y * e.y + e.z * e.z = 1 ∧
    e.x * n0.x + e.y * n0.y + e.z * n0.z = e.x * n1.x + e.y * n1.y + e.z * n1.z ∧
    0 < e.x * n0.x + e.y * n0.y + e.z * n0.z := by
  simp only [edgeNormalOf, newNormalize, V3.sdiv, V3.norm, V3.add, normSq_eq, fieldNum_sqrt]
  set S := (n0.x + n1.x) * (n0.x + n1.x) + (n0.y + n1.y) * (n0.y + n1.y) + (n0.z + n1.z) * (n0.z + n1.z) with hS
  have hSpos : 0 < S := by
    rcases lt_or_eq_of_le (by rw [hS]; nlinarith [mul_self_nonneg (n0.x + n1.x), mul_self_nonneg (n0.y + n1.y), mul_self_nonneg (n0.z + n1.z)] : 0 ≤ S) with h | h
    · exact h
    · exfalso; apply hne
      have hx : (n0.x + n1.x) * (n0.x + n1.x) = 0 := by nlinarith [mul_self_nonneg (n0.x + n1.x), mul_self_nonneg (n0.y + n1.y), mul_self_nonneg (n0.z + n1.z)]
      have hy : (n0.y + n1.y) * (n0.y + n1.y) = 0 := by nlinarith [mul_self_nonneg (n0.x + n1.x), mul_self_nonneg (n0.y + n1.y), mul_self_nonneg (n0.z + n1.z)]
      have hz : (n0.z + n1.z) * (n0.z + n1.z) = 0 := by nlinarith [mul_self_nonneg (n0.x + n1.x), mul_self_nonneg (n0.y + n1.y), mul_self_nonneg (n0.z + n1.z)]
      exact ⟨mul_self_eq_zero.mp hx, mul_self_eq_zero.mp hy, mul_self_eq_zero.mp hz⟩
  have hr0 := hs.nonneg _ hSpos.le
  have hrr := hs.sq_mul _ hSpos.le
  set r := sq S with hr
  have hrpos : 0 < r := by
    rcases lt_or_eq_of_le hr0 with h' | h'
    · exact h'
    · rw [← h'] at hrr; simp at hrr; linarith
  have hne' : r ≠ 0 := ne_of_gt hrpos
  -- 1 + n0·n1 = S / 2
  have hdot : (n0.x + n1.x) * n0.x + (n0.y + n1.y) * n0.y + (n0.z + n1.z) * n0.z = S / 2 := by rw [hS]; linarith
  have hdot' : (n0.x + n1.x) * n1.x + (n0.y + n1.y) * n1.y + (n0.z + n1.z) * n1.z = S / 2 := by rw [hS]; linarith
  refine ⟨?_, ?_, ?_⟩
  · field_simp; nlinarith [hrr, hS]
  · have e1 : (n0.x + n1.x) / r * n0.x + (n0.y + n1.y) / r * n0.y + (n0.z + n1.z) / r * n0.z = (S / 2) / r := by
      rw [← hdot]; field_simp
    have e2 : (n0.x + n1.x) / r * n1.x + (n0.y + n1.y) / r * n1.y + (n0.z + n1.z) / r * n1.z = (S / 2) / r := by
      rw [← hdot']; field_simp
    rw [e1, e2]
  · have e1 : (n0.x + n1.x) / r * n0.x + (n0.y + n1.y) / r * n0.y + (n0.z + n1.z) / r * n0.z = (S / 2) / r := by
      rw [← hdot]; field_simp
    rw [e1]; positivity

/-- the running sum of `feature_normal(Vertex)`: `normal = 0; for f in adjacent faces { normal += faces[f].normal }` -/
def normalSum (ns : List (V3 K)) : V3 K := letI := fieldNum K sq; ns.foldl V3.add V3.zero

/-- **vertex feature normal** (corrected behaviour B): `None` exactly when the summed normal `Σ n_f` has `|Σ|² ≤ EPSILON²`;
otherwise a unit vector `u` with `Σ n_f = |Σ|·u`. -/
theorem vertexNormalOf_spec (hs : LawfulSqrt sq) (ns : List (V3 K)) :
    letI := fieldNum K sq
    let s := normalSum sq ns
    let eps : K := epsD
    (vertexNormalOf ns = none ↔ s.x * s.x + s.y * s.y + s.z * s.z ≤ eps * eps) ∧
    ∀ u, vertexNormalOf ns = some u →
      u.x * u.x + u.y * u.y + u.z * u.z = 1 ∧ ∃ r : K, 0 < r ∧ s.x = u.x * r ∧ s.y = u.y * r ∧ s.z = u.z * r := by
  intro s eps
  refine ⟨tryNew_eq_none_iff sq _ _, ?_⟩
  intro u hu
  obtain ⟨h1, r, hr, _, _, hx, hy, hz⟩ := tryNew_some_unit sq hs _ u _ hu
  exact ⟨h1, r, hr, hx, hy, hz⟩

/-- a point with no adjacent face (a point of the mesh that lies inside a merged face, on no face contour) has no vertex
normal: `None`, not a NaN vector. -/
theorem vertexNormalOf_nil : @vertexNormalOf K (fieldNum K sq) ([] : List (V3 K)) = none := by
  have h := (tryNew_eq_none_iff sq (⟨0, 0, 0⟩ : V3 K) (@epsD K (fieldNum K sq))).mpr
    (by simp only [mul_zero, add_zero]; exact mul_self_nonneg _)
  exact h

/-! ## the hull certificate is scale free -/

/-- the similarity `x ↦ s·x + t` -/
def simil (s : K) (t p : V3 K) : V3 K := ⟨s * p.x + t.x, s * p.y + t.y, s * p.z + t.z⟩

/-- the half-space test of `hull3Oracle` / `polyOracle`: with `n = (b − a) × (c − a)` (exact) and `d = n·(p − a)`,
point `p` is *outside* face `a b c` beyond the tolerance when `d > 0 ∧ d² > tol² · |n|²` (i.e. `d / |n| > tol`). -/
def OutsideFace (tol2 : K) (a b c p : V3 K) : Prop :=
  letI := fieldNum K sq
  let n := (b.sub a).cross (c.sub a)
  let d := n.dot (p.sub a)
  0 < d ∧ tol2 * n.normSq < d * d

/-- the sliver rule of `hull3Oracle`: `|n|² ≤ tol² · (longest edge)²`, i.e. the triangle's height is at most `tol` -/
def SliverFace (tol2 : K) (a b c : V3 K) : Prop :=
  letI := fieldNum K sq
  let n := (b.sub a).cross (c.sub a)
  n.normSq ≤ tol2 * max ((b.sub a).normSq) (max ((c.sub b).normSq) ((a.sub c).normSq))

/-- **scale freedom of the certificate.** Under `x ↦ s·x + t` (`s > 0`) with the squared tolerance scaled by `s²` (the oracle
takes `tol² = 1e-14 · diag²` and `diag` scales by `s`, `diag_similarity`), the verdict "`p` is outside face `a b c`" does not
change. -/
theorem outsideFace_similarity (s : K) (hs : 0 < s) (t : V3 K) (tol2 : K) (a b c p : V3 K) :
    OutsideFace sq (s * s * tol2) (simil s t a) (simil s t b) (simil s t c) (simil s t p) ↔ OutsideFace sq tol2 a b c p := by
  let _ := fieldNum K sq
  have hD : (((simil s t b).sub (simil s t a)).cross ((simil s t c).sub (simil s t a))).dot ((simil s t p).sub (simil s t a))
      = s * s * s * (((b.sub a).cross (c.sub a)).dot (p.sub a)) := by
    simp only [simil, V3.sub, V3.cross, V3.dot]; ring
  have hN : (((simil s t b).sub (simil s t a)).cross ((simil s t c).sub (simil s t a))).normSq
      = (s * s) * (s * s) * ((b.sub a).cross (c.sub a)).normSq := by
    simp only [simil, V3.sub, V3.cross, V3.normSq, V3.dot]; ring
  unfold OutsideFace
  simp only [hD, hN]
  generalize ((b.sub a).cross (c.sub a)).dot (p.sub a) = D
  generalize ((b.sub a).cross (c.sub a)).normSq = N
  have h3 : 0 < s * s * s := by positivity
  have h6 : 0 < s * s * s * (s * s * s) := by positivity
  have e1 : s * s * tol2 * (s * s * (s * s) * N) = s * s * s * (s * s * s) * (tol2 * N) := by ring
  have e2 : s * s * s * D * (s * s * s * D) = s * s * s * (s * s * s) * (D * D) := by ring
  rw [e1, e2]
  constructor
  · rintro ⟨h1, h2⟩
    refine ⟨?_, lt_of_mul_lt_mul_left h2 h6.le⟩
    by_contra hD0
    push Not at hD0
    nlinarith [mul_nonneg h3.le (neg_nonneg.mpr hD0)]
  · rintro ⟨h1, h2⟩
    exact ⟨mul_pos h3 h1, mul_lt_mul_of_pos_left h2 h6⟩

/-- the bounding-box diagonal (squared) of two corner points scales by `s²` -/
theorem diag_similarity (s : K) (t lo hi : V3 K) :
    letI := fieldNum K sq
    ((simil s t hi).sub (simil s t lo)).normSq = s * s * (hi.sub lo).normSq := by
  simp only [simil, V3.sub, V3.normSq, V3.dot]
  ring

/-- coordinate-wise minimum / maximum (the bounding box) commute with `x ↦ s·x + t` for `s > 0` -/
theorem box_similarity (s : K) (hs : 0 < s) (t x y : K) :
    min (s * x + t) (s * y + t) = s * min x y + t ∧ max (s * x + t) (s * y + t) = s * max x y + t := by
  rcases le_total x y with h | h
  · have : s * x + t ≤ s * y + t := by nlinarith
    rw [min_eq_left this, min_eq_left h, max_eq_right this, max_eq_right h]; exact ⟨rfl, rfl⟩
  · have : s * y + t ≤ s * x + t := by nlinarith
    rw [min_eq_right this, min_eq_right h, max_eq_left this, max_eq_left h]; exact ⟨rfl, rfl⟩

/-- the sliver rule is scale free as well -/
theorem sliverFace_similarity (s : K) (hs : 0 < s) (t : V3 K) (tol2 : K) (a b c : V3 K) :
    SliverFace sq (s * s * tol2) (simil s t a) (simil s t b) (simil s t c) ↔ SliverFace sq tol2 a b c := by
  let _ := fieldNum K sq
  have hn : ∀ u v : V3 K, ((simil s t u).sub (simil s t v)).normSq = s * s * (u.sub v).normSq :=
    fun u v => diag_similarity sq s t v u
  have hc : (((simil s t b).sub (simil s t a)).cross ((simil s t c).sub (simil s t a))).normSq
        = (s * s) * (s * s) * ((b.sub a).cross (c.sub a)).normSq := by
    simp only [simil, V3.sub, V3.cross, V3.normSq, V3.dot]; ring
  unfold SliverFace
  simp only [hn, hc]
  have h2 : 0 < s * s := by positivity
  rw [← mul_max_of_nonneg _ _ h2.le, ← mul_max_of_nonneg _ _ h2.le]
  generalize ((b.sub a).cross (c.sub a)).normSq = N
  generalize max ((b.sub a).normSq) (max ((c.sub b).normSq) ((a.sub c).normSq)) = M
  have e : s * s * tol2 * (s * s * M) = (s * s) * (s * s) * (tol2 * M) := by ring
  rw [e]
  have h4 : 0 < (s * s) * (s * s) := by positivity
  constructor
  · intro h; exact le_of_mul_le_mul_left h h4
  · intro h; exact mul_le_mul_of_nonneg_left h h4.le

/-! non-vacuity -/

example : OutsideFace (fun x : ℚ => x) (1 / 100) ⟨0, 0, 0⟩ ⟨1, 0, 0⟩ ⟨0, 1, 0⟩ ⟨0, 0, 1⟩ := by
  unfold OutsideFace; simp only [V3.sub, V3.cross, V3.dot, V3.normSq]; norm_num

example : ¬ OutsideFace (fun x : ℚ => x) (1 / 100) ⟨0, 0, 0⟩ ⟨1, 0, 0⟩ ⟨0, 1, 0⟩ ⟨1 / 2, 1 / 2, -1⟩ := by
  unfold OutsideFace; simp only [V3.sub, V3.cross, V3.dot, V3.normSq]; norm_num

end C12
