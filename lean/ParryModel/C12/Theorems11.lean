import ParryModel.Field
import ParryModel.C12.Lemmas8
import ParryModel.C12.Lemmas9
import ParryModel.C12.Lemmas10
import ParryModel.C12.Theorems2
import ParryModel.C12.Theorems8
/-!
# C12 theorems, eleventh pass (fu5): `fix_silhouette_topology` and `remove_unused_points`, for **every** `Num` instance
(`Float` included): statements about indices, flags and lists, never about arithmetic.

* `countSeconds_counts` — the `workspace` of `fix_silhouette_topology` holds, for every point id, the number of silhouette
  half-edges whose `second` end point it is.
* `needsFixing_iff_repeated_vertex` — `needs_fixing` is true exactly when some point is the `second` end point of two silhouette
  half-edges; `noRepair_iff_nodup`: the "no repair" hypothesis of `mainLoop_closed_surface` (`StepClosed`) IS "the second end
  points of the silhouette are pairwise distinct" (true for every simple closed loop).
* `fixSilhouette_noop` — without a repeated vertex the function returns its input unchanged.
* `fixSilhouette_spec` — in all cases the repair (i) changes nothing in the facet array but `valid` flags, only `true → false`;
  (ii) returns a SUBSEQUENCE of the silhouette read cyclically from `loop_start` (no half-edge is invented, reordered or duplicated);
  (iii) keeps every removed facet; every facet it adds to `removed_facets` owned a silhouette half-edge, was valid and is now
  invalid; (iv) every facet it invalidates is recorded in `removed_facets` (so its visible points are redistributed by
  `attach_and_push_facets`, none is lost).
* `removeUnused_spec` — `utils::remove_unused_points` (the `swap_remove` compaction with its `remap` table): every output vertex
  is an input point that some triangle uses (no unused vertex survives); every output index is in range; the three corners
  of every output triangle are THE SAME POINTS as the corners of the corresponding input triangle (geometry unchanged).
* `hull3_run_point_indices_valid` — UNCONDITIONALLY (no `Twin`, no `CyclicLoop`, whatever the silhouette looks like, repaired or
  not): after the initial mesh and after the whole main loop every point index stored in a facet (corners, visible points) is a
  valid index of the cloud, so no facet ever reads a point out of range.
* `hull3_vertices_are_input_points` — consequently, for the full-dimensional branch of `try_convex_hull`: every vertex of the returned mesh
  is one of the input points (of the ORIGINAL, un-normalised cloud), every triangle index is a valid vertex index and every vertex is used.
* `hull3_lowdim_vertices_are_input_points` — the same provenance / index validity for the point, segment and planar (two-sided fan over
  the modelled 2-D hull) branches: with `hull3_vertices_are_input_points` this covers EVERY `Ok` result of `try_convex_hull`.
* `hull3_output_edges_twinned` — the conditional closed-surface theorem (`mainLoop_closed_surface`) carried through
  `remove_unused_points` to the returned index buffer (the remap is one map, injective on used indices: `removeUnused_remap`).
-/
namespace C12
open Model Model.H3 C12.H3

variable {K : Type} [Num K]

/-- the `workspace` array counts, for each point id, the silhouette half-edges ending (`second`) at it -/
theorem countSeconds_counts (npts : Nat) (ts : Array (Facet K)) (out : Array (Nat × Nat)) (p : Nat) (hp : p < npts) :
    ((countSeconds npts ts out).1[p]?).getD 0 = (out.toList.map (secondOf ts)).count p :=
  (countSeconds_inv npts ts out).2.1 p hp

/-- `needs_fixing` ⇔ some in-range point is the `second` end point of at least two silhouette half-edges -/
theorem needsFixing_iff_repeated_vertex (npts : Nat) (ts : Array (Facet K)) (out : Array (Nat × Nat)) :
    (countSeconds npts ts out).2 = true ↔ ∃ p, p < npts ∧ 2 ≤ (out.toList.map (secondOf ts)).count p :=
  (countSeconds_inv npts ts out).2.2

/-- **the "no repair" hypothesis is "the silhouette passes through no vertex twice"** (stored point ids are in range by `attach_index_safe`) -/
theorem noRepair_iff_nodup (npts : Nat) (ts : Array (Facet K)) (out : Array (Nat × Nat))
    (hr : ∀ e, e ∈ out.toList → secondOf ts e < npts) :
    (countSeconds npts ts out).2 = false ↔ (out.toList.map (secondOf ts)).Nodup := by
  rw [List.nodup_iff_count_le_one]
  constructor
  · intro h p
    by_contra hc
    have h2 : 2 ≤ (out.toList.map (secondOf ts)).count p := by omega
    have hmem : p ∈ out.toList.map (secondOf ts) := List.count_pos_iff.mp (by omega)
    obtain ⟨e, he, rfl⟩ := List.mem_map.mp hmem
    have := (needsFixing_iff_repeated_vertex npts ts out).mpr ⟨_, hr e he, h2⟩
    rw [h] at this; exact absurd this (by simp)
  · intro h
    cases hc : (countSeconds npts ts out).2 with
    | false => rfl
    | true =>
      obtain ⟨p, _, h2⟩ := (needsFixing_iff_repeated_vertex npts ts out).mp hc
      have := h p; omega

/-- without a repeated vertex `fix_silhouette_topology` is the identity -/
theorem fixSilhouette_noop (negMax : K) (pts : Array (V3 K)) (s : Sil K)
    (h : (countSeconds pts.size s.ts s.out).2 = false) : fixSilhouetteTopology negMax pts s = some s := by
  unfold fixSilhouetteTopology
  generalize countSeconds pts.size s.ts s.out = cs at h
  obtain ⟨ws, nf⟩ := cs
  simp only at h
  simp [h]

/-- **what the repair can and cannot do** (see the file header) -/
theorem fixSilhouette_spec (negMax : K) (pts : Array (V3 K)) (s s' : Sil K)
    (h : fixSilhouetteTopology negMax pts s = some s') :
    Shrunk s'.ts s.ts ∧
    (s' = s ∨ ∃ start, s'.out.toList.Sublist
      ((List.range s.out.size).map fun i => (s.out[(start + i) % s.out.size]?).getD (0, 0))) ∧
    (∀ e, e ∈ s'.out.toList → e ∈ s.out.toList) ∧
    (∀ r, r ∈ s.removed.toList → r ∈ s'.removed.toList) ∧
    (∀ r, r ∈ s'.removed.toList → r ∈ s.removed.toList ∨
      ((∃ j, (r, j) ∈ s.out.toList) ∧ (tAt s.ts r).valid = true ∧ (tAt s'.ts r).valid = false)) ∧
    (∀ a, (tAt s.ts a).valid = true → (tAt s'.ts a).valid = false → a ∈ s'.removed.toList) := by
  unfold fixSilhouetteTopology at h
  generalize countSeconds pts.size s.ts s.out = cs at h
  obtain ⟨ws, nf⟩ := cs
  simp only at h
  split at h
  · simp only [Option.some.injEq] at h; subst h
    exact ⟨Shrunk.refl _, Or.inl rfl, fun _ h => h, fun _ h => h, fun _ h => Or.inl h,
      fun a h1 h2 => by rw [h1] at h2; exact absurd h2 (by simp)⟩
  · split at h
    · exact absurd h (by simp)
    · rename_i start _
      simp only [Option.some.injEq] at h; subst h
      have h0 : FixInv s (⟨none, #[], s.removed, s.ts⟩ : FixSt K) :=
        ⟨Shrunk.refl _, fun _ h => h, fun _ h => Or.inl h, fun a h1 h2 => by rw [h1] at h2; exact absurd h2 (by simp)⟩
      obtain ⟨g, l', hl1, hl2⟩ := fixFold_inv ws s start (List.range s.out.size) _ (fun i hi => List.mem_range.mp hi) h0
      simp only [Array.toList_empty, List.nil_append] at hl2
      refine ⟨g.shr, Or.inr ⟨start, by simpa [hl2] using hl1⟩, ?_, g.remSup, g.remNew, g.inval⟩
      intro e he
      simp only at he
      rw [hl2] at he
      obtain ⟨i, hi, rfl⟩ := List.mem_map.mp (hl1.subset he)
      have hlt : (start + i) % s.out.size < s.out.size := Nat.mod_lt _ (by have := List.mem_range.mp hi; omega)
      rw [Array.getElem?_eq_getElem hlt]; simp

/-- **`remove_unused_points` is a faithful compaction**: for an index buffer whose entries are valid point indices,
(1) every output vertex is an input point that some triangle uses; (2) the index buffer keeps its length, every output index is a
valid output-vertex index and designates THE SAME POINT as the input index it replaces (so every triangle keeps its geometry);
(3) every output vertex is a corner of some output triangle (no unused vertex survives); (4) distinct output vertices come from
distinct input indices (no input point is duplicated by the compaction). -/
theorem removeUnused_spec (pts : Array (V3 K)) (idx : Array T3)
    (hidx : ∀ t, t ∈ idx.toList → t.a < pts.size ∧ t.b < pts.size ∧ t.c < pts.size) :
    (∀ k, k < (removeUnused pts idx).1.size → ∃ j, j < pts.size ∧ (removeUnused pts idx).1[k]? = pts[j]? ∧
      ∃ t, t ∈ idx.toList ∧ T3.Has t j) ∧
    (removeUnused pts idx).2.size = idx.size ∧
    (∀ (q : Nat) (t : T3), idx[q]? = some t → ∃ t' : T3, (removeUnused pts idx).2[q]? = some t' ∧
      t'.a < (removeUnused pts idx).1.size ∧ t'.b < (removeUnused pts idx).1.size ∧ t'.c < (removeUnused pts idx).1.size ∧
      (removeUnused pts idx).1[t'.a]? = pts[t.a]? ∧ (removeUnused pts idx).1[t'.b]? = pts[t.b]? ∧
      (removeUnused pts idx).1[t'.c]? = pts[t.c]?) ∧
    (∀ k, k < (removeUnused pts idx).1.size → ∃ t' : T3, t' ∈ (removeUnused pts idx).2.toList ∧ T3.Has t' k) ∧
    (∃ org : Nat → Nat, (∀ k, k < (removeUnused pts idx).1.size → (removeUnused pts idx).1[k]? = pts[org k]?) ∧
      ∀ k k', k < (removeUnused pts idx).1.size → k' < (removeUnused pts idx).1.size → org k = org k' → k = k') := by
  obtain ⟨P, R, ⟨org, hP, hR, hA, hD, hF⟩, heq⟩ := removeUnused_final pts idx
  rw [heq]
  simp only
  have hU : ∀ j, bAt (idx.toList.foldl markUsed (Array.replicate pts.size false)) j = true ↔
      j < pts.size ∧ ∃ t, t ∈ idx.toList ∧ T3.Has t j := by
    intro j
    rw [(markFold idx.toList (Array.replicate pts.size false)).2 j]
    have h0 : bAt (Array.replicate pts.size false) j = false := by
      unfold bAt; rw [Array.getElem?_replicate]; split <;> rfl
    rw [h0]; simp
  have hcorner : ∀ t, t ∈ idx.toList → ∀ j, T3.Has t j → (R[j]?).getD 0 < P.size ∧ P[(R[j]?).getD 0]? = pts[j]? := by
    intro t ht j hj
    have hjl : j < pts.size := by
      obtain ⟨h1, h2, h3⟩ := hidx t ht
      rcases hj with rfl | rfl | rfl <;> assumption
    obtain ⟨d1, d2⟩ := hD j hjl ((hU j).mpr ⟨hjl, t, ht, hj⟩)
    exact ⟨d1, by rw [(hA _ d1).2.1, d2]⟩
  refine ⟨?_, by simp, ?_, ?_, ⟨org, fun k hk => (hA k hk).2.1, hF⟩⟩
  · intro k hk
    obtain ⟨a1, a2, a3⟩ := hA k hk
    obtain ⟨_, t, ht, hh⟩ := (hU _).mp a3
    exact ⟨org k, a1, a2, t, ht, hh⟩
  · intro q t hq
    have ht : t ∈ idx.toList := by
      have := Array.mem_of_getElem? hq; simpa using this
    refine ⟨⟨(R[t.a]?).getD 0, (R[t.b]?).getD 0, (R[t.c]?).getD 0⟩, by simp [hq], ?_⟩
    obtain ⟨ca1, ca2⟩ := hcorner t ht t.a (Or.inl rfl)
    obtain ⟨cb1, cb2⟩ := hcorner t ht t.b (Or.inr (Or.inl rfl))
    obtain ⟨cc1, cc2⟩ := hcorner t ht t.c (Or.inr (Or.inr rfl))
    exact ⟨ca1, cb1, cc1, ca2, cb2, cc2⟩
  · intro k hk
    obtain ⟨a1, a2, a3⟩ := hA k hk
    obtain ⟨_, t, ht, hh⟩ := (hU _).mp a3
    obtain ⟨d1, d2⟩ := hD (org k) a1 a3
    have hk' : (R[org k]?).getD 0 = k := hF _ _ d1 hk d2
    refine ⟨⟨(R[t.a]?).getD 0, (R[t.b]?).getD 0, (R[t.c]?).getD 0⟩, ?_, ?_⟩
    · simp only [Array.toList_map, List.mem_map]
      exact ⟨t, ht, rfl⟩
    · rcases hh with h | h | h
      · exact Or.inl (by rw [← h]; exact hk'.symm)
      · exact Or.inr (Or.inl (by rw [← h]; exact hk'.symm))
      · exact Or.inr (Or.inr (by rw [← h]; exact hk'.symm))

/-- **index safety of the whole run, without any hypothesis**: the facets of the initial mesh and of the state the main loop ends
with store only valid point indices (`AllOk n ts`: for every facet, `pts[j] < n` and every visible point `< n`), `n` = size of the
input cloud = size of the normalised working cloud. -/
theorem hull3_run_point_indices_valid (negMax : K) (orig : Array (V3 K)) (evec : List (V3 K)) (eval : List K) (ini : Init K)
    (fuel : Nat) (ts : Array (Facet K)) (hi : initialMesh negMax orig evec eval = .ok ini)
    (hl : mainLoop negMax ini.npts fuel 0 ini.ts ini.und = .ok ts) :
    ini.npts.size = orig.size ∧ AllOk orig.size ini.ts ∧ AllOk orig.size ts := by
  obtain ⟨hn, hsz, h1, h2⟩ := initialMesh_ok negMax orig evec eval ini hi
  exact ⟨hsz, h1, mainLoop_ok orig.size hn negMax ini.npts fuel 0 ini.ts ini.und ts hl h1 h2⟩

/-- **3-D hull vertices are input points** (full-dimensional branch of `try_convex_hull`, every run, every `Num` instance): every
vertex of the returned mesh is a point of the ORIGINAL input cloud, distinct vertices come from distinct input indices, every
triangle index is a valid vertex index, and every returned vertex is a corner of a returned triangle. -/
theorem hull3_vertices_are_input_points (negMax : K) (orig : Array (V3 K)) (evec : List (V3 K)) (eval : List K) (ini : Init K)
    (V : Array (V3 K)) (T : Array T3) (hi : initialMesh negMax orig evec eval = .ok ini)
    (h : tryConvexHull negMax orig evec eval = .ok (V, T)) :
    (∃ org : Nat → Nat, (∀ k, k < V.size → org k < orig.size ∧ V[k]? = orig[org k]?) ∧
      ∀ k k', k < V.size → k' < V.size → org k = org k' → k = k') ∧
    (∀ t : T3, t ∈ T.toList → t.a < V.size ∧ t.b < V.size ∧ t.c < V.size) ∧
    (∀ k, k < V.size → ∃ t : T3, t ∈ T.toList ∧ T3.Has t k) := by
  unfold tryConvexHull at h
  rw [hi] at h
  simp only at h
  split at h
  · rename_i ts hl
    simp only [Res.ok.injEq] at h
    obtain ⟨_, _, hts⟩ := hull3_run_point_indices_valid negMax orig evec eval ini _ ts hi hl
    obtain ⟨s1, s2, s3, s4, org, s5, s6⟩ := removeUnused_spec orig (validTriangles ts)
      (fun t ht => validTriangles_ok orig.size ts hts t ht)
    rw [h] at s1 s2 s3 s4 s5 s6
    simp only at s1 s2 s3 s4 s5 s6
    refine ⟨?_, ?_, s4⟩
    · -- a single provenance map that is injective: `org`; its values are in range because `V[k]` exists
      refine ⟨org, fun k hk => ⟨?_, s5 k hk⟩, s6⟩
      have := s5 k hk
      rw [Array.getElem?_eq_getElem hk] at this
      by_contra hc
      rw [Array.getElem?_eq_none (by omega)] at this
      exact absurd this (by simp)
    · intro t ht
      obtain ⟨q, hq, rfl⟩ := List.getElem_of_mem ht
      have hq' : q < (validTriangles ts).size := by rw [← s2]; simpa using hq
      obtain ⟨t', e1, b1, b2, b3, _⟩ := s3 q _ (Array.getElem?_eq_getElem hq')
      have : T.toList[q] = t' := by
        have hq2 : q < T.size := by simpa using hq
        rw [Array.getElem?_eq_getElem hq2] at e1
        simp only [Option.some.injEq] at e1
        rw [← e1]; simp
      rw [this]; exact ⟨b1, b2, b3⟩
  all_goals exact absurd h (by simp)

/-- **the low-dimensional branches of `try_convex_hull`** (`InitialMesh::ResultMesh`: a point, a segment, or the two-sided fan over
the modelled 2-D hull of the projected cloud) return only input points, and every triangle index is a valid vertex index.
In the planar branch distinct vertices come from distinct input indices. -/
theorem hull3_lowdim_vertices_are_input_points (negMax : K) (orig : Array (V3 K)) (evec : List (V3 K)) (eval : List K)
    (V : Array (V3 K)) (T : Array T3) (hn : 0 < orig.size)
    (h : lowDimMesh negMax orig evec eval = some (.ok (V, T))) :
    (∃ org : Nat → Nat, ∀ k, k < V.size → org k < orig.size ∧ V[k]? = orig[org k]?) ∧
    (∀ t : T3, t ∈ T.toList → t.a < V.size ∧ t.b < V.size ∧ t.c < V.size) := by
  unfold lowDimMesh at h
  simp only at h
  split at h
  · -- a single point
    simp only [Option.some.injEq, Res.ok.injEq, Prod.mk.injEq] at h
    obtain ⟨rfl, rfl⟩ := h
    refine ⟨⟨fun _ => 0, fun k hk => ⟨hn, ?_⟩⟩, fun t ht => ?_⟩
    · have : k = 0 := by simpa using hk
      subst this; simpa using pAt_lt orig 0 hn
    · simp at ht; subst ht; simp
  · -- a segment between two support points
    simp only [Option.some.injEq, Res.ok.injEq, Prod.mk.injEq] at h
    obtain ⟨rfl, rfl⟩ := h
    refine ⟨⟨fun k => if k = 0 then cloudSupportId (sortPairs (evec.zip eval) |>.headD (V3.zero, 0)).1 orig
      else cloudSupportId (sortPairs (evec.zip eval) |>.headD (V3.zero, 0)).1.neg orig, fun k hk => ?_⟩, fun t ht => ?_⟩
    · have hk' : k = 0 ∨ k = 1 := by simp at hk; omega
      rcases hk' with rfl | rfl
      · exact ⟨by simpa using cloudSupportId_lt _ orig hn, by simpa using pAt_lt orig _ (cloudSupportId_lt _ orig hn)⟩
      · exact ⟨by simpa using cloudSupportId_lt _ orig hn, by simpa using pAt_lt orig _ (cloudSupportId_lt _ orig hn)⟩
    · simp at ht; rcases ht with rfl | rfl <;> simp
  · -- planar: two-sided fan over the 2-D hull
    split at h
    · exact absurd h (by simp)
    · rename_i idx hidx
      simp only [Option.some.injEq, Res.ok.injEq, Prod.mk.injEq] at h
      obtain ⟨rfl, rfl⟩ := h
      have hval := convexHull2Idx_indices_valid _ _ _ idx hidx
      have hsz : ∀ j, j ∈ idx → j < orig.size := by
        intro j hj
        have := hval j hj
        simpa [normalizeCloud_size] using this
      refine ⟨⟨fun k => idx.getD k 0, fun k hk => ?_⟩, fun t ht => ?_⟩
      · have hk' : k < idx.length := by simpa using hk
        have hm : idx[k] ∈ idx := List.getElem_mem hk'
        have hg : idx.getD k 0 = idx[k] := by simp [List.getD, hk']
        show idx.getD k 0 < orig.size ∧ (List.map (pAt orig) idx).toArray[k]? = orig[idx.getD k 0]?
        rw [hg]
        refine ⟨hsz _ hm, ?_⟩
        simp only [List.getElem?_toArray, List.getElem?_map, List.getElem?_eq_getElem hk', Option.map_some]
        exact pAt_lt orig _ (hsz _ hm)
      · simp only [List.toList_toArray, List.mem_append, List.mem_map, List.size_toArray, List.length_map] at ht ⊢
        rcases ht with ⟨id, hid, rfl⟩ | ⟨id, hid, rfl⟩
        · have h1 := List.mem_range.mp (List.mem_of_mem_drop hid)
          simp only; omega
        · have h1 := List.mem_range.mp hid
          simp only; omega
  · exact absurd h (by simp)

/-- **the closed-surface invariant reaches the OUTPUT of `try_convex_hull`**: under the hypothesis of `mainLoop_closed_surface`
(every attaching pass emits a cyclic silhouette needing no repair) every directed edge of every returned triangle — in the
returned, compacted index space — has its reverse in a returned triangle. -/
theorem hull3_output_edges_twinned (negMax : K) (orig : Array (V3 K)) (evec : List (V3 K)) (eval : List K) (ini : Init K)
    (V : Array (V3 K)) (T : Array T3) (hi : initialMesh negMax orig evec eval = .ok ini)
    (hrun : RunClosed negMax ini.npts (16 * orig.size * orig.size + 64) 0 ini.ts ini.und)
    (h : tryConvexHull negMax orig evec eval = .ok (V, T)) :
    ∀ t : T3, t ∈ T.toList → ∀ j, j < 3 → ∃ t' : T3, t' ∈ T.toList ∧ ∃ j', j' < 3 ∧
      t'.get j' = t.get ((j + 1) % 3) ∧ t'.get ((j' + 1) % 3) = t.get j := by
  unfold tryConvexHull at h
  rw [hi] at h
  simp only at h
  split at h
  · rename_i ts hl
    simp only [Res.ok.injEq] at h
    have hT : Twin ts := mainLoop_closed_surface negMax ini.npts _ 0 ini.ts ini.und ts
      (initial_facets_closed negMax orig evec eval ini hi) (Nat.zero_le _) hrun hl
    obtain ⟨_, _, hts⟩ := hull3_run_point_indices_valid negMax orig evec eval ini _ ts hi hl
    obtain ⟨R, hR, _⟩ := removeUnused_remap orig (validTriangles ts) (fun t ht => validTriangles_ok orig.size ts hts t ht)
    rw [h] at hR
    simp only at hR
    have hget : ∀ (t : T3) (j : Nat), (⟨R t.a, R t.b, R t.c⟩ : T3).get j = R (t.get j) := by
      intro t j; unfold T3.get; split
      · rfl
      · split <;> rfl
    intro t ht j hj
    rw [hR] at ht ⊢
    simp only [Array.toList_map, List.mem_map] at ht ⊢
    obtain ⟨t0, ht0, rfl⟩ := ht
    obtain ⟨a, ha, hv, rfl⟩ := (mem_validTriangles ts t0).mp ht0
    obtain ⟨a', j', ha', hj', hv', e1, e2⟩ := output_edges_twinned ts hT a j ha hv hj
    refine ⟨_, ⟨(tAt ts a').pts, (mem_validTriangles ts _).mpr ⟨a', ha', hv', rfl⟩, rfl⟩, j', hj', ?_, ?_⟩
    · rw [hget, hget]; exact congrArg R e1
    · rw [hget, hget]; exact congrArg R e2
  all_goals exact absurd h (by simp)

/-- the public `remove_unused_points` panics (index out of bounds in its marking pass) exactly when the buffer names a point that does
not exist; otherwise it is `removeUnused`, to which `removeUnused_spec` applies -/
theorem removeUnusedPub_eq_none_iff (pts : Array (V3 K)) (idx : Array T3) :
    removeUnusedPub pts idx = none ↔ ∃ t, t ∈ idx.toList ∧ ¬ (t.a < pts.size ∧ t.b < pts.size ∧ t.c < pts.size) := by
  unfold removeUnusedPub
  split
  · rename_i hall
    simp only [reduceCtorEq, false_iff, not_exists, not_and, not_not]
    intro t ht
    have := (Array.all_eq_true'.mp hall) t (by simpa using ht)
    simpa [and_assoc] using this
  · rename_i hall
    simp only [true_iff]
    by_contra hc
    apply hall
    apply Array.all_eq_true'.mpr
    intro t ht
    have : t.a < pts.size ∧ t.b < pts.size ∧ t.c < pts.size := by
      by_contra hn
      exact hc ⟨t, by simpa using ht, hn⟩
    simpa [and_assoc] using this

/-! ## non-vacuity -/

/-- two facets sharing the vertex 1 as `second` end point of their half-edge 0: a pinched silhouette -/
def exPinched : Array (Facet Rat) :=
  #[⟨true, false, V3.zero, ⟨0, 0, 0⟩, ⟨0, 0, 0⟩, ⟨0, 1, 2⟩, #[]⟩, ⟨true, false, V3.zero, ⟨0, 0, 0⟩, ⟨0, 0, 0⟩, ⟨3, 1, 4⟩, #[]⟩]

/-- `needs_fixing` is reachable: the repair branch of `fixSilhouette_spec` is not vacuous -/
example : (countSeconds 5 exPinched #[(0, 0), (1, 0)]).2 = true :=
  (needsFixing_iff_repeated_vertex 5 exPinched #[(0, 0), (1, 0)]).mpr ⟨1, by decide, by decide⟩

/-- ... and the no-repair side (`noRepair_iff_nodup`, hypothesis and right-hand side) holds on a simple loop -/
example : (∀ e, e ∈ (#[(0, 0), (1, 2)] : Array (Nat × Nat)).toList → secondOf exPinched e < 5) ∧
    ((#[(0, 0), (1, 2)] : Array (Nat × Nat)).toList.map (secondOf exPinched)).Nodup := by decide

/-- the hypothesis of `removeUnused_spec` on a buffer that leaves points 1 and 4 unused -/
example : ∀ t : T3, t ∈ (#[⟨0, 2, 3⟩, ⟨3, 2, 5⟩] : Array T3).toList → t.a < 6 ∧ t.b < 6 ∧ t.c < 6 := by decide

end C12
