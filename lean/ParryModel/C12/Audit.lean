import ParryModel.C12.Theorems
#print axioms C12.halfplane_convex_combination
#print axioms C12.halfspace_convex_combination
#print axioms C12.support_point_id_max
