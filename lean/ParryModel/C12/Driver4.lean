import ParryModel.Proto
import ParryModel.C12.Hull3
import ParryModel.C12.Driver3
/-! C12 protocol handler (fu5): `utils::remove_unused_points` as a public function (`remove_unused`). -/
namespace C12
open Proto
open Model Model.H3

def removeUnusedModel (pts : List (V3 Float)) (tris : List (Nat × Nat × Nat)) : String :=
  match removeUnusedPub pts.toArray (tris.map fun (a, b, c) => (⟨a, b, c⟩ : T3)).toArray with
  | none => "panic"
  | some (v, t) => String.intercalate " " (
      [toString v.size] ++ v.toList.map fv3 ++ [toString t.size] ++ t.toList.map (fun t => s!"{t.a} {t.b} {t.c}"))

/-- independent judgement (no compaction loop, no remap table): same number of triangles; every output index is a valid output
vertex; every corner of every output triangle is THE SAME POINT (bit pattern) as the corner it replaces; every output vertex is a
corner of some output triangle; there are exactly as many output vertices as distinct input indices in the buffer (nothing
duplicated, nothing lost) -/
def removeUnusedOracle (pin : List (V3 Float)) (tin : List (Nat × Nat × Nat)) (pout : List (V3 Float))
    (tout : List (Nat × Nat × Nat)) : String :=
  let pa := pin.toArray; let po := pout.toArray
  let same (a b : V3 Float) : Bool := ff a.x == ff b.x && ff a.y == ff b.y && ff a.z == ff b.z
  if tout.length != tin.length then "fail triangle-count-changed" else
  let flat (l : List (Nat × Nat × Nat)) : List Nat := l.flatMap fun (a, b, c) => [a, b, c]
  let fi := flat tin; let fo := flat tout
  if !(fo.all fun i => i < po.size) then "fail output-index-out-of-range" else
  if !((fi.zip fo).all fun (i, o) => match pa[i]?, po[o]? with | some x, some y => same x y | _, _ => false) then
    "fail triangle-corner-moved-to-another-point" else
  if !((List.range po.size).all fun k => fo.contains k) then "fail unused-vertex-kept" else
  if po.size != fi.eraseDups.length then s!"fail vertex-count {po.size} distinct-used-indices {fi.eraseDups.length}" else "pass"

def handler4 (fn : String) : Option Handler :=
  match fn with
  | "remove_unused" => some {
      model := fun a => run (do let pts ← plist pv3; let tris ← ptris; pure (removeUnusedModel pts tris)) a
      oracle := fun a o => match run (do let pts ← plist pv3; let tris ← ptris; pure (pts, tris)) a with
        | some (pin, tin) =>
          let inRange := tin.all fun (a, b, c) => a < pin.length && b < pin.length && c < pin.length
          (match o with
          | "panic" :: _ => if inRange then "fail panic" else "skip index-out-of-range-(outside-the-domain)"
          | _ => if !inRange then "skip index-out-of-range-(outside-the-domain)" else
            match run (do let p ← plist pv3o; let t ← ptris; pure (p, t)) o with
            | some (pout, tout) => removeUnusedOracle pin tin pout tout
            | none => "fail unparsable-output")
        | none => "skip bad-args" }
  | _ => none

end C12
