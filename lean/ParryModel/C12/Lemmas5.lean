import ParryModel.C12.ModelPoly
/-!
# C12 lemmas for `ConvexPolyhedron::from_convex_mesh` (model `ModelPoly.lean`): the edge table built by the first pass.
Core Lean only; every `Num` instance.
-/
theorem List.mapM_option_some {α β} (f : α → Option β) : ∀ (l : List α) (r : List β), l.mapM f = some r →
    r.length = l.length ∧ ∀ (i : Nat) (x : α), l[i]? = some x → ∃ y, f x = some y ∧ r[i]? = some y := by
  intro l
  induction l with
  | nil => intro r h; simp at h; subst h; simp
  | cons a l ih =>
    intro r h
    simp only [List.mapM_cons] at h
    cases hfa : f a with
    | none => simp [hfa] at h
    | some y =>
      cases hl : l.mapM f with
      | none => simp [hfa, hl] at h
      | some r' =>
        simp [hfa, hl] at h
        subst h
        obtain ⟨h1, h2⟩ := ih r' hl
        refine ⟨by simp [h1], ?_⟩
        intro i x hx
        cases i with
        | zero => simp at hx; subst hx; exact ⟨y, hfa, by simp⟩
        | succ i => simp at hx; obtain ⟨y', hy1, hy2⟩ := h2 i x hx; exact ⟨y', hy1, by simp [hy2]⟩

theorem Array.mapM_option_some {α β} (f : α → Option β) (a : Array α) (b : Array β) (h : a.mapM f = some b) :
    b.size = a.size ∧ ∀ (i : Nat) (x : α), a[i]? = some x → ∃ y, f x = some y ∧ b[i]? = some y := by
  rw [Array.mapM_eq_mapM_toList] at h
  cases hl : a.toList.mapM f with
  | none => simp [hl] at h
  | some r =>
    simp [hl] at h
    subst h
    obtain ⟨h1, h2⟩ := List.mapM_option_some f a.toList r hl
    refine ⟨by simpa using h1, ?_⟩
    intro i x hx
    have : a.toList[i]? = some x := by simpa using hx
    obtain ⟨y, hy1, hy2⟩ := h2 i x this
    exact ⟨y, hy1, by simpa using hy2⟩

namespace C12
open Model
variable {K : Type} [Num K]

theorem Res.bind_ok {α β} (r : Res α) (f : α → Res β) (b : β) (h : r.bind f = .ok b) :
    ∃ a, r = .ok a ∧ f a = .ok b := by
  cases r with
  | ok a => exact ⟨a, rfl, h⟩
  | none => simp [Res.bind] at h
  | panic => simp [Res.bind] at h
  | hang => simp [Res.bind] at h

theorem emapFind_cons (key : Nat × Nat) (v : Nat) (m : List ((Nat × Nat) × Nat)) (k : Nat × Nat) :
    emapFind ((key, v) :: m) k = if key.1 = k.1 ∧ key.2 = k.2 then some v else emapFind m k := by
  unfold emapFind
  by_cases h : key.1 = k.1 ∧ key.2 = k.2
  · simp [h]
  · simp [h]

theorem get3_set3_same (t : Nat × Nat × Nat) (i x : Nat) : get3 (set3 t i x) i = x := by
  unfold get3 set3
  by_cases h0 : i = 0
  · simp [h0]
  · by_cases h1 : i = 1
    · simp [h1]
    · simp [h0, h1]

theorem get3_set3_ne (t : Nat × Nat × Nat) (i j x : Nat) (hi : i < 3) (hj : j < 3) (h : j ≠ i) :
    get3 (set3 t i x) j = get3 t j := by
  have hi' : i = 0 ∨ i = 1 ∨ i = 2 := by omega
  have hj' : j = 0 ∨ j = 1 ∨ j = 2 := by omega
  rcases hi' with rfl | rfl | rfl <;> rcases hj' with rfl | rfl | rfl <;> simp_all [get3, set3]

end C12

namespace C12
open Model
variable {K : Type} [Num K]

theorem sortedPair_comm (a b : Nat) : sortedPair a b = sortedPair b a := by
  unfold sortedPair
  by_cases h1 : a ≤ b <;> by_cases h2 : b ≤ a <;> simp [h1, h2]
  · have : a = b := by omega
    subst this; exact ⟨rfl, rfl⟩
  · omega

/-- the edge table while the three slots of triangle number `tris.size` (vertices `idx`) are being filled: `done` slots are
filled, `eids` holds their edge ids -/
structure SlotInv (tris : Array (PTri K)) (idx : Nat × Nat × Nat) (edges : Array (PEdge K))
    (emap : List ((Nat × Nat) × Nat)) (eids : Nat × Nat × Nat) (done : Nat) : Prop where
  sound : ∀ (key : Nat × Nat) (eid : Nat), emapFind emap key = some eid → ∃ e, edges[eid]? = some e ∧ sortedPair e.v0 e.v1 = key
  complete : ∀ (i : Nat) (e : PEdge K), edges[i]? = some e → emapFind emap (sortedPair e.v0 e.v1) = some i
  f0_le : ∀ (i : Nat) (e : PEdge K), edges[i]? = some e → e.f0 ≤ tris.size
  f1_ok : ∀ (i : Nat) (e : PEdge K), edges[i]? = some e → e.f1 = u32Max ∨ e.f1 ≤ tris.size
  ne : ∀ (i : Nat) (e : PEdge K), edges[i]? = some e → e.v0 ≠ e.v1
  old : ∀ (k : Nat) (t : PTri K), tris[k]? = some t → ∀ j : Nat, j < 3 → ∃ e, edges[get3 t.e j]? = some e ∧
    sortedPair e.v0 e.v1 = sortedPair (get3 t.v j) (get3 t.v ((j + 1) % 3)) ∧ (e.f0 = k ∨ e.f1 = k)
  cur : ∀ j : Nat, j < done → ∃ e, edges[get3 eids j]? = some e ∧
    sortedPair e.v0 e.v1 = sortedPair (get3 idx j) (get3 idx ((j + 1) % 3)) ∧ (e.f0 = tris.size ∨ e.f1 = tris.size)

theorem slot_step (pts : Array (V3 K)) (tris : Array (PTri K)) (idx : Nat × Nat × Nat)
    (edges : Array (PEdge K)) (emap : List ((Nat × Nat) × Nat)) (eids : Nat × Nat × Nat) (done : Nat)
    (hd : done < 3) (hsz : tris.size < u32Max)
    (hdist : get3 idx done ≠ get3 idx ((done + 1) % 3))
    (inv : SlotInv tris idx edges emap eids done)
    (edges' : Array (PEdge K)) (emap' : List ((Nat × Nat) × Nat)) (eids' : Nat × Nat × Nat)
    (h : edgeSlot pts idx tris.size (edges, emap, eids) done = .ok (edges', emap', eids')) :
    SlotInv tris idx edges' emap' eids' (done + 1) := by
  unfold edgeSlot at h
  simp only at h
  cases hf : emapFind emap (sortedPair (get3 idx done) (get3 idx ((done + 1) % 3))) with
  | some eid =>
    rw [hf] at h
    simp only at h
    obtain ⟨e0, he0, hk0⟩ := inv.sound _ _ hf
    rw [he0] at h
    simp only at h
    by_cases hmax : e0.f1 = u32Max
    · rw [if_pos hmax] at h
      simp only [Res.ok.injEq, Prod.mk.injEq] at h
      obtain ⟨h1, h2, h3⟩ := h
      subst h1 h2 h3
      have hlt : eid < edges.size := by
        rcases Nat.lt_or_ge eid edges.size with h | h
        · exact h
        · rw [Array.getElem?_eq_none h] at he0; cases he0
      have hget : ∀ i, (edges.set! eid { e0 with f1 := tris.size })[i]? =
          if eid = i then some { e0 with f1 := tris.size } else edges[i]? := by
        intro i
        rw [Array.set!_eq_setIfInBounds, Array.getElem?_setIfInBounds]
        simp [hlt]
      refine ⟨?_, ?_, ?_, ?_, ?_, ?_, ?_⟩
      · intro key eid' hk
        obtain ⟨e, he, hke⟩ := inv.sound key eid' hk
        rw [hget]
        by_cases hi : eid = eid'
        · subst hi
          rw [he0] at he; cases he
          exact ⟨{ e0 with f1 := tris.size }, by simp, hke⟩
        · exact ⟨e, by simp [hi, he], hke⟩
      · intro i e he
        rw [hget] at he
        by_cases hi : eid = i
        · subst hi
          simp at he; subst he
          have h' := inv.complete _ _ he0
          exact h'
        · simp [hi] at he
          exact inv.complete _ _ he
      · intro i e he
        rw [hget] at he
        by_cases hi : eid = i
        · subst hi; simp at he; subst he; have h' := inv.f0_le _ _ he0; exact h'
        · simp [hi] at he; exact inv.f0_le _ _ he
      · intro i e he
        rw [hget] at he
        by_cases hi : eid = i
        · subst hi; simp at he; subst he; exact Or.inr (Nat.le_refl _)
        · simp [hi] at he; exact inv.f1_ok _ _ he
      · intro i e he
        rw [hget] at he
        by_cases hi : eid = i
        · subst hi; simp at he; subst he; have h' := inv.ne _ _ he0; exact h'
        · simp [hi] at he; exact inv.ne _ _ he
      · intro k t ht j hj
        obtain ⟨e, he, hke, hf01⟩ := inv.old k t ht j hj
        rw [hget]
        by_cases hi : eid = get3 t.e j
        · rw [← hi] at he
          rw [he0] at he; cases he
          refine ⟨{ e0 with f1 := tris.size }, by simp [hi], hke, ?_⟩
          have hk : k < tris.size := by
            rcases Nat.lt_or_ge k tris.size with h | h
            · exact h
            · rw [Array.getElem?_eq_none h] at ht; cases ht
          rcases hf01 with h | h
          · exact Or.inl h
          · exfalso; rw [hmax] at h; omega
        · exact ⟨e, by simp [hi, he], hke, hf01⟩
      · intro j hj
        by_cases hjd : j = done
        · subst hjd
          rw [get3_set3_same, hget]
          exact ⟨{ e0 with f1 := tris.size }, by simp, hk0, Or.inr rfl⟩
        · have hj' : j < done := by omega
          obtain ⟨e, he, hke, hf01⟩ := inv.cur j hj'
          rw [get3_set3_ne _ _ _ _ hd (by omega) hjd, hget]
          by_cases hi : eid = get3 eids j
          · rw [← hi] at he
            rw [he0] at he; cases he
            exact ⟨{ e0 with f1 := tris.size }, by simp [hi], hke, Or.inr rfl⟩
          · exact ⟨e, by simp [hi, he], hke, hf01⟩
    · rw [if_neg hmax] at h; cases h
  | none =>
    rw [hf] at h
    simp only at h
    cases hb : pts[get3 idx ((done + 1) % 3)]? with
    | none => rw [hb] at h; simp at h
    | some pb =>
      cases ha : pts[get3 idx done]? with
      | none => rw [hb, ha] at h; simp at h
      | some pa =>
        rw [hb, ha] at h
        simp only [Res.ok.injEq, Prod.mk.injEq] at h
        obtain ⟨h1, h2, h3⟩ := h
        subst h1 h2 h3
        have hget : ∀ (x : PEdge K) i, (edges.push x)[i]? = if i = edges.size then some x else edges[i]? :=
          fun x i => Array.getElem?_push
        have hold : ∀ i e, edges[i]? = some e → i ≠ edges.size := by
          intro i e he hi
          subst hi
          rw [Array.getElem?_eq_none (Nat.le_refl _)] at he; cases he
        refine ⟨?_, ?_, ?_, ?_, ?_, ?_, ?_⟩
        · intro key eid' hk
          rw [emapFind_cons] at hk
          rw [hget]
          by_cases hkk : (sortedPair (get3 idx done) (get3 idx ((done + 1) % 3))).1 = key.1 ∧
              (sortedPair (get3 idx done) (get3 idx ((done + 1) % 3))).2 = key.2
          · rw [if_pos hkk] at hk
            cases hk
            refine ⟨_, if_pos rfl, ?_⟩
            exact Prod.ext hkk.1 hkk.2
          · rw [if_neg hkk] at hk
            obtain ⟨e, he, hke⟩ := inv.sound key eid' hk
            exact ⟨e, by rw [if_neg (hold _ _ he)]; exact he, hke⟩
        · intro i e he
          rw [hget] at he
          rw [emapFind_cons]
          by_cases hi : i = edges.size
          · rw [if_pos hi] at he; cases he
            subst hi
            simp
          · rw [if_neg hi] at he
            have hc := inv.complete i e he
            by_cases hkk : (sortedPair (get3 idx done) (get3 idx ((done + 1) % 3))).1 = (sortedPair e.v0 e.v1).1 ∧
                (sortedPair (get3 idx done) (get3 idx ((done + 1) % 3))).2 = (sortedPair e.v0 e.v1).2
            · exfalso
              have : sortedPair (get3 idx done) (get3 idx ((done + 1) % 3)) = sortedPair e.v0 e.v1 := Prod.ext hkk.1 hkk.2
              rw [this, hc] at hf; cases hf
            · rw [if_neg hkk]; exact hc
        · intro i e he
          rw [hget] at he
          by_cases hi : i = edges.size
          · rw [if_pos hi] at he; cases he; exact Nat.le_refl _
          · rw [if_neg hi] at he; exact inv.f0_le _ _ he
        · intro i e he
          rw [hget] at he
          by_cases hi : i = edges.size
          · rw [if_pos hi] at he; cases he; exact Or.inl rfl
          · rw [if_neg hi] at he; exact inv.f1_ok _ _ he
        · intro i e he
          rw [hget] at he
          by_cases hi : i = edges.size
          · rw [if_pos hi] at he; cases he; exact hdist
          · rw [if_neg hi] at he; exact inv.ne _ _ he
        · intro k t ht j hj
          obtain ⟨e, he, hke, hf01⟩ := inv.old k t ht j hj
          exact ⟨e, by rw [hget, if_neg (hold _ _ he)]; exact he, hke, hf01⟩
        · intro j hj
          by_cases hjd : j = done
          · subst hjd
            rw [get3_set3_same, hget]
            exact ⟨_, if_pos rfl, rfl, Or.inl rfl⟩
          · have hj' : j < done := by omega
            obtain ⟨e, he, hke, hf01⟩ := inv.cur j hj'
            rw [get3_set3_ne _ _ _ _ hd (by omega) hjd, hget]
            exact ⟨e, by rw [if_neg (hold _ _ he)]; exact he, hke, hf01⟩


/-- **edge ↔ triangle incidence** of the tables built by the first pass of `from_convex_mesh`, between two triangles -/
structure EdgeInv (st : P1State K) : Prop where
  /-- `edge_map` only knows real edges, under the key of their own end points -/
  sound : ∀ (key : Nat × Nat) (eid : Nat), emapFind st.emap key = some eid →
    ∃ e, st.edges[eid]? = some e ∧ sortedPair e.v0 e.v1 = key
  /-- every edge is registered under its key: two edges never join the same pair of vertices -/
  complete : ∀ (i : Nat) (e : PEdge K), st.edges[i]? = some e → emapFind st.emap (sortedPair e.v0 e.v1) = some i
  f0_lt : ∀ (i : Nat) (e : PEdge K), st.edges[i]? = some e → e.f0 < st.tris.size
  f1_ok : ∀ (i : Nat) (e : PEdge K), st.edges[i]? = some e → e.f1 = u32Max ∨ e.f1 < st.tris.size
  ne : ∀ (i : Nat) (e : PEdge K), st.edges[i]? = some e → e.v0 ≠ e.v1
  /-- slot `j` of triangle `k` holds the id of an existing edge that joins vertices `j` and `j+1` of the triangle and lists
  the triangle as one of its two faces -/
  tri_edges : ∀ (k : Nat) (t : PTri K), st.tris[k]? = some t → ∀ j : Nat, j < 3 → ∃ e, st.edges[get3 t.e j]? = some e ∧
    sortedPair e.v0 e.v1 = sortedPair (get3 t.v j) (get3 t.v ((j + 1) % 3)) ∧ (e.f0 = k ∨ e.f1 = k)

omit [Num K] in
theorem edgeInv_empty : EdgeInv ({ edges := #[], tris := #[], emap := [] } : P1State K) := by
  refine ⟨?_, ?_, ?_, ?_, ?_, ?_⟩
  · intro key eid h; simp [emapFind] at h
  all_goals intro i e h; simp at h

theorem triStep_inv (pts : Array (V3 K)) (st st' : P1State K) (idx : Nat × Nat × Nat) (hsz : st.tris.size < u32Max)
    (inv : EdgeInv st) (h : triStep pts st idx = .ok st') :
    EdgeInv st' ∧ ∃ t : PTri K, st'.tris = st.tris.push t ∧ t.v = idx := by
  unfold triStep at h
  simp only at h
  by_cases hdeg : idx.1 = idx.2.1 ∨ idx.1 = idx.2.2 ∨ idx.2.1 = idx.2.2
  · rw [if_pos hdeg] at h; cases h
  rw [if_neg hdeg] at h
  have hd0 : get3 idx 0 ≠ get3 idx ((0 + 1) % 3) := by simp [get3]; intro h'; exact hdeg (Or.inl h')
  have hd1 : get3 idx 1 ≠ get3 idx ((1 + 1) % 3) := by simp [get3]; intro h'; exact hdeg (Or.inr (Or.inr h'))
  have hd2 : get3 idx 2 ≠ get3 idx ((2 + 1) % 3) := by simp [get3]; intro h'; exact hdeg (Or.inr (Or.inl h'.symm))
  obtain ⟨⟨e0, m0, i0⟩, hs0, h⟩ := Res.bind_ok _ _ _ h
  obtain ⟨⟨e1, m1, i1⟩, hs1, h⟩ := Res.bind_ok _ _ _ h
  obtain ⟨⟨e2, m2, i2⟩, hs2, h⟩ := Res.bind_ok _ _ _ h
  have inv0 : SlotInv st.tris idx st.edges st.emap (u32Max, u32Max, u32Max) 0 :=
    ⟨inv.sound, inv.complete, fun i e he => Nat.le_of_lt (inv.f0_lt i e he),
     fun i e he => (inv.f1_ok i e he).imp id Nat.le_of_lt, inv.ne, inv.tri_edges, fun j hj => absurd hj (Nat.not_lt_zero _)⟩
  have inv1 := slot_step pts st.tris idx _ _ _ 0 (by omega) hsz hd0 inv0 _ _ _ hs0
  have inv2 := slot_step pts st.tris idx _ _ _ 1 (by omega) hsz hd1 inv1 _ _ _ hs1
  have inv3 := slot_step pts st.tris idx _ _ _ 2 (by omega) hsz hd2 inv2 _ _ _ hs2
  simp only at h
  cases hp0 : pts[idx.1]? with
  | none => rw [hp0] at h; simp at h
  | some p0 =>
    cases hp1 : pts[idx.2.1]? with
    | none => rw [hp0, hp1] at h; simp at h
    | some p1 =>
      cases hp2 : pts[idx.2.2]? with
      | none => rw [hp0, hp1, hp2] at h; simp at h
      | some p2 =>
        rw [hp0, hp1, hp2] at h
        simp only [Res.ok.injEq] at h
        subst h
        refine ⟨⟨inv3.sound, inv3.complete, ?_, ?_, inv3.ne, ?_⟩, _, rfl, rfl⟩
        · intro i e he
          have := inv3.f0_le i e he
          simp only [Array.size_push]; omega
        · intro i e he
          rcases inv3.f1_ok i e he with h' | h'
          · exact Or.inl h'
          · right; simp only [Array.size_push]; omega
        · intro k t ht j hj
          simp only at ht
          rw [Array.getElem?_push] at ht
          by_cases hk : k = st.tris.size
          · rw [if_pos hk] at ht
            cases ht
            subst hk
            exact inv3.cur j hj
          · rw [if_neg hk] at ht
            exact inv3.old k t ht j hj

/-- the whole first pass keeps the incidence invariant, appends one triangle per index triple, in order -/
theorem pass1_inv (pts : Array (V3 K)) : ∀ (idxs : List (Nat × Nat × Nat)) (st st' : P1State K),
    st.tris.size + idxs.length ≤ u32Max → EdgeInv st → pass1 pts idxs st = .ok st' →
    EdgeInv st' ∧ st'.tris.size = st.tris.size + idxs.length ∧
      (∀ k, k < st.tris.size → st'.tris[k]? = st.tris[k]?) ∧
      (∀ k, k < idxs.length → (st'.tris[st.tris.size + k]?).map (·.v) = idxs[k]?) := by
  intro idxs
  induction idxs with
  | nil =>
    intro st st' _ inv h
    simp only [pass1, Res.ok.injEq] at h
    subst h
    exact ⟨inv, by simp, fun _ _ => rfl, fun k hk => absurd hk (Nat.not_lt_zero _)⟩
  | cons idx rest ih =>
    intro st st' hsz inv h
    simp only [pass1] at h
    obtain ⟨st1, h1, h2⟩ := Res.bind_ok _ _ _ h
    simp only [List.length_cons] at hsz
    obtain ⟨inv1, t, ht, htv⟩ := triStep_inv pts st st1 idx (by omega) inv h1
    have hsz1 : st1.tris.size = st.tris.size + 1 := by rw [ht, Array.size_push]
    obtain ⟨inv', hs', hold, hnew⟩ := ih st1 st' (by omega) inv1 h2
    refine ⟨inv', by simp only [List.length_cons]; omega, ?_, ?_⟩
    · intro k hk
      rw [hold k (by omega), ht, Array.getElem?_push, if_neg (by omega)]
    · intro k hk
      cases k with
      | zero =>
        rw [Nat.add_zero, hold _ (by omega), ht, Array.getElem?_push, if_pos rfl]
        simp [htv]
      | succ k =>
        simp only [List.length_cons] at hk
        have := hnew k (by omega)
        rw [hsz1] at this
        rw [show st.tris.size + (k + 1) = st.tris.size + 1 + k by omega, this]
        simp


theorem markDeleted_keeps (tris : Array (PTri K)) (e e' : PEdge K) (h : markDeleted tris e = some e') :
    e'.v0 = e.v0 ∧ e'.v1 = e.v1 ∧ e'.f0 = e.f0 ∧ e'.f1 = e.f1 := by
  unfold markDeleted at h
  split at h
  · simp only [Option.some.injEq] at h
    subst h
    split <;> exact ⟨rfl, rfl, rfl, rfl⟩
  · cases h

omit [Num K] in
theorem rewriteFaces_keeps (tris : Array (PTri K)) (e e' : PEdge K) (h : rewriteFaces tris e = some e') :
    e'.v0 = e.v0 ∧ e'.v1 = e.v1 := by
  unfold rewriteFaces at h
  cases h0 : tris[e.f0]? with
  | none => rw [h0] at h; cases h
  | some t0 =>
    cases h1 : tris[e.f1]? with
    | none => rw [h0, h1] at h; cases h
    | some t1 =>
      rw [h0, h1] at h
      simp only [Option.some.injEq] at h
      subst h
      exact ⟨rfl, rfl⟩

/-- what `fromConvexMesh … = ok p` gives about the passes -/
theorem fromConvexMesh_ok (pts : Array (V3 K)) (idxs : List (Nat × Nat × Nat)) (p : Poly K)
    (h : fromConvexMesh pts idxs = .ok p) :
    ∃ (s1 : P1State K) (edges2 : Array (PEdge K)) (s3 : P3State K),
      pass1 pts idxs { edges := #[], tris := #[], emap := [] } = .ok s1 ∧
      pass2 s1.tris s1.edges = some edges2 ∧
      pass3 edges2 (List.range s1.tris.size) { tris := s1.tris, faces := #[], eaf := #[], vaf := #[] } = .ok s3 ∧
      edges2.mapM (rewriteFaces s3.tris) = some p.edges ∧ p.pts = pts ∧ p.faces = s3.faces ∧
      p.edgesAdjToFace = s3.eaf ∧ p.verticesAdjToFace = s3.vaf := by
  unfold fromConvexMesh at h
  split at h
  · cases h
  · obtain ⟨s1, h1, h⟩ := Res.bind_ok _ _ _ h
    split at h
    · cases h
    · rename_i edges2 h2
      obtain ⟨s3, h3, h⟩ := Res.bind_ok _ _ _ h
      split at h
      · cases h
      · rename_i edges4 h4
        simp only at h
        split at h
        · cases h
        · split at h
          · cases h
          · simp only [Res.ok.injEq] at h
            subst h
            exact ⟨s1, edges2, s3, h1, h2, h3, h4, rfl, rfl, rfl, rfl⟩


/-- edges of the result and edges of the first pass correspond index by index and join the same vertices -/
theorem edges_corr (s1e e2 e4 : Array (PEdge K)) (tris2 tris4 : Array (PTri K))
    (h2 : pass2 tris2 s1e = some e2) (h4 : e2.mapM (rewriteFaces tris4) = some e4) :
    (∀ (i : Nat) (e : PEdge K), e4[i]? = some e → ∃ e1, s1e[i]? = some e1 ∧ e.v0 = e1.v0 ∧ e.v1 = e1.v1) ∧
    (∀ (i : Nat) (e1 : PEdge K), s1e[i]? = some e1 → ∃ e, e4[i]? = some e ∧ e.v0 = e1.v0 ∧ e.v1 = e1.v1) := by
  unfold pass2 at h2
  obtain ⟨hs2, hf2⟩ := Array.mapM_option_some _ _ _ h2
  obtain ⟨hs4, hf4⟩ := Array.mapM_option_some _ _ _ h4
  have fwd : ∀ (i : Nat) (e1 : PEdge K), s1e[i]? = some e1 → ∃ e, e4[i]? = some e ∧ e.v0 = e1.v0 ∧ e.v1 = e1.v1 := by
    intro i e1 he1
    obtain ⟨y, hy1, hy2⟩ := hf2 i e1 he1
    obtain ⟨z, hz1, hz2⟩ := hf4 i y hy2
    obtain ⟨a1, a2, _, _⟩ := markDeleted_keeps _ _ _ hy1
    obtain ⟨b1, b2⟩ := rewriteFaces_keeps _ _ _ hz1
    exact ⟨z, hz2, by rw [b1, a1], by rw [b2, a2]⟩
  refine ⟨?_, fwd⟩
  intro i e he
  have hi : i < s1e.size := by
    rcases Nat.lt_or_ge i e4.size with h | h
    · omega
    · rw [Array.getElem?_eq_none h] at he; cases he
  have hsome : s1e[i]? = some s1e[i] := Array.getElem?_eq_getElem hi
  obtain ⟨e', he', h0, h1⟩ := fwd i _ hsome
  rw [he] at he'; cases he'
  exact ⟨_, hsome, h0, h1⟩

end C12
