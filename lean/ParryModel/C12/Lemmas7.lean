import ParryModel.Field
import ParryModel.C12.Lemmas6
/-!
# C12 lemmas: completeness of `compute_silhouette` (every half-edge between a surviving facet and a removed facet is listed).
Uses `Finset.card` for the fuel argument (the recursion depth is bounded by the number of valid facets).
-/
namespace C12.H3
open Model Model.H3
variable {K : Type} [Num K]

def validSet (ts : Array (Facet K)) : Finset Nat :=
  (Finset.range ts.size).filter (fun a => (tAt ts a).valid = true)

theorem validSet_mono {a b : Array (Facet K)} (h : Shrunk a b) : validSet a ⊆ validSet b := by
  intro x hx
  simp only [validSet, Finset.mem_filter, Finset.mem_range] at hx ⊢
  exact ⟨by rw [← h.1]; exact hx.1, (h.2 x).2.2.2.2.2.2 hx.2⟩

theorem validSet_invalidate_lt (ts : Array (Facet K)) (i : Nat) (hi : i < ts.size) (hv : (tAt ts i).valid = true) :
    (validSet (invalidate ts i)).card < (validSet ts).card := by
  apply Finset.card_lt_card
  refine ⟨validSet_mono (shrunk_invalidate ts i), fun hsub => ?_⟩
  have hmem : i ∈ validSet ts := by simp [validSet, hi, hv]
  have := hsub hmem
  simp only [validSet, Finset.mem_filter] at this
  rw [invalidate_valid] at this
  exact absurd this.2 (by simp)

/-- every valid neighbour of `r` is listed in `out` through the half-edge facing `r` -/
def Done (ts0 : Array (Facet K)) (s : Sil K) (r : Nat) : Prop :=
  ∀ j, j < 3 → (tAt s.ts ((tAt ts0 r).adj.get j)).valid = true →
    ∃ q : Nat, s.out[q]? = some ((tAt ts0 r).adj.get j, (tAt ts0 r).ind.get j)

def OutGrows (s s' : Sil K) : Prop := ∀ (q : Nat) (e : Nat × Nat), s.out[q]? = some e → s'.out[q]? = some e

theorem done_mono (ts0 : Array (Facet K)) (s s' : Sil K) (r : Nat) (hg : OutGrows s s') (hs : Shrunk s'.ts s.ts)
    (h : Done ts0 s r) : Done ts0 s' r := by
  intro j hj hv
  obtain ⟨q, hq⟩ := h j hj ((hs.2 _).2.2.2.2.2.2 hv)
  exact ⟨q, hg q _ hq⟩

theorem edge_cases {iid j : Nat} (hi : iid < 3) (hj : j < 3) : j = iid ∨ j = (iid + 1) % 3 ∨ j = (iid + 2) % 3 := by
  omega

theorem computeSilhouette_complete (ts0 : Array (Facet K)) (pts : Array (V3 K)) (point : Nat) (hT : Twin ts0) :
    ∀ (fuel facet iid : Nat) (s s' : Sil K), computeSilhouette pts point fuel facet iid s = s' →
      SilInv ts0 pts point s → facet < ts0.size → iid < 3 →
      (tAt s.ts ((tAt ts0 facet).adj.get iid)).valid = false → (validSet s.ts).card < fuel →
      OutGrows s s' ∧
      ((tAt s'.ts facet).valid = true → ∃ q : Nat, s'.out[q]? = some (facet, iid)) ∧
      (∀ r, (tAt s'.ts r).valid = false → ((tAt s.ts r).valid = true ∨ Done ts0 s r) → Done ts0 s' r) := by
  intro fuel
  induction fuel with
  | zero => intro facet iid s s' _ _ _ _ _ hc; exact absurd hc (by omega)
  | succ fuel ih =>
    intro facet iid s s' h hs hf hi hcaller hcard
    have hinv := computeSilhouette_inv ts0 pts point hT (fuel + 1) facet iid s hs hf hi hcaller
    rw [h] at hinv
    obtain ⟨hs', hshr'⟩ := hinv
    unfold computeSilhouette at h
    obtain ⟨e1, e2, e3, e4, e5, e6, e7⟩ := hs.shr.2 facet
    by_cases hv : (tAt s.ts facet).valid = true
    · simp only [hv, if_true] at h
      by_cases hsb : (tAt s.ts facet).seenBy point pts = true
      · simp only [hsb, Bool.not_true, Bool.false_eq_true, if_false] at h
        have hv0 : (tAt ts0 facet).valid = true := e7 hv
        have hfs : facet < s.ts.size := by rw [hs.shr.1]; exact hf
        have hj1 : (iid + 1) % 3 < 3 := Nat.mod_lt _ (by omega)
        have hj2 : (iid + 2) % 3 < 3 := Nat.mod_lt _ (by omega)
        obtain ⟨t1, t2, _, t4, _, _, _⟩ := hT facet hf hv0 _ hj1
        obtain ⟨u1, u2, _, u4, _, _, _⟩ := hT facet hf hv0 _ hj2
        rw [e1, e2] at h
        -- names for the intermediate states
        generalize hs1def : ({ s with ts := invalidate s.ts facet, removed := s.removed.push facet } : Sil K) = s1 at h
        have hs1ts : s1.ts = invalidate s.ts facet := by rw [← hs1def]
        have hs1out : s1.out = s.out := by rw [← hs1def]
        have hshr1 : Shrunk s1.ts s.ts := by rw [hs1ts]; exact shrunk_invalidate _ _
        have hinvf : (tAt s1.ts facet).valid = false := by rw [hs1ts]; exact invalidate_valid _ _
        have hsil1 : SilInv ts0 pts point s1 := by
          refine ⟨hshr1.trans hs.shr, fun q a j hq => ?_⟩
          rw [hs1out] at hq
          obtain ⟨o1, o2, o3, o4, o5⟩ := hs.out q a j hq
          have hseen : (tAt s.ts facet).seenBy point pts = (tAt ts0 facet).seenBy point pts := seenBy_congr _ _ _ _ e4 e3 e5
          have hne : facet ≠ a := fun hh => by subst hh; rw [← hseen, hsb] at o4; exact absurd o4 (by simp)
          refine ⟨o1, o2, ?_, o4, valid_false_of_shrunk hshr1 _ o5⟩
          rw [hs1ts, tAt_invalidate, if_neg (fun h => hne h.1)]; exact o3
        have hcard1 : (validSet s1.ts).card < fuel := by
          have := validSet_invalidate_lt s.ts facet hfs hv
          rw [← hs1ts] at this; omega
        generalize hs2def : computeSilhouette pts point fuel ((tAt ts0 facet).adj.get ((iid + 1) % 3))
          ((tAt ts0 facet).ind.get ((iid + 1) % 3)) s1 = s2 at h
        have hc1 : (tAt s1.ts ((tAt ts0 ((tAt ts0 facet).adj.get ((iid + 1) % 3))).adj.get
            ((tAt ts0 facet).ind.get ((iid + 1) % 3)))).valid = false := by rw [t4]; exact hinvf
        obtain ⟨g1, p1, d1⟩ := ih _ _ s1 s2 hs2def hsil1 t1 t2 hc1 hcard1
        obtain ⟨hsil2, hshr2⟩ := computeSilhouette_inv ts0 pts point hT fuel _ _ s1 hsil1 t1 t2 hc1
        rw [hs2def] at hsil2 hshr2
        have hinvf2 : (tAt s2.ts facet).valid = false := valid_false_of_shrunk hshr2 _ hinvf
        have hc2 : (tAt s2.ts ((tAt ts0 ((tAt ts0 facet).adj.get ((iid + 2) % 3))).adj.get
            ((tAt ts0 facet).ind.get ((iid + 2) % 3)))).valid = false := by rw [u4]; exact hinvf2
        have hcard2 : (validSet s2.ts).card < fuel :=
          lt_of_le_of_lt (Finset.card_le_card (validSet_mono hshr2)) hcard1
        obtain ⟨g2, p2, d2⟩ := ih _ _ s2 s' h hsil2 u1 u2 hc2 hcard2
        obtain ⟨_, hshr3⟩ := computeSilhouette_inv ts0 pts point hT fuel _ _ s2 hsil2 u1 u2 hc2
        rw [h] at hshr3
        have hinvf3 : (tAt s'.ts facet).valid = false := valid_false_of_shrunk hshr3 _ hinvf2
        have hg01 : OutGrows s s1 := fun q e hq => by rw [hs1out]; exact hq
        refine ⟨fun q e hq => g2 q e (g1 q e (hg01 q e hq)), fun hvv => by rw [hinvf3] at hvv; exact absurd hvv (by simp), ?_⟩
        intro r hr3 hor
        by_cases hrf : r = facet
        · subst hrf
          intro j hj hvj
          rcases edge_cases hi hj with rfl | rfl | rfl
          · have := valid_false_of_shrunk (hshr3.trans (hshr2.trans hshr1)) _ hcaller
            rw [this] at hvj; exact absurd hvj (by simp)
          · obtain ⟨q, hq⟩ := p1 ((hshr3.2 _).2.2.2.2.2.2 hvj)
            exact ⟨q, g2 q _ hq⟩
          · exact p2 hvj
        · have hP1 : (tAt s1.ts r).valid = true ∨ Done ts0 s1 r := by
            rcases hor with hvr | hdr
            · left; rw [hs1ts, tAt_invalidate, if_neg (fun h => hrf h.1.symm)]; exact hvr
            · right; exact done_mono ts0 s s1 r hg01 hshr1 hdr
          by_cases hr2 : (tAt s2.ts r).valid = true
          · exact d2 r hr3 (Or.inl hr2)
          · have hr2' : (tAt s2.ts r).valid = false := by
              cases hc : (tAt s2.ts r).valid with
              | false => rfl
              | true => exact absurd hc hr2
            exact d2 r hr3 (Or.inr (d1 r hr2' hP1))
      · have hsb' : (tAt s.ts facet).seenBy point pts = false := by
          cases hc : (tAt s.ts facet).seenBy point pts with
          | false => rfl
          | true => exact absurd hc hsb
        simp only [hsb', Bool.not_false, if_true] at h
        subst h
        have hg : OutGrows s { s with out := s.out.push (facet, iid) } := fun q e hq => by
          have hql := getElem?_lt_of_some _ _ _ hq
          show (s.out.push (facet, iid))[q]? = some e
          rw [Array.getElem?_push_lt hql]; rw [← hq]; simp [hql]
        refine ⟨hg, fun _ => ⟨s.out.size, by simp⟩, fun r _ hor => ?_⟩
        rcases hor with hvr | hdr
        · rename_i hr; rw [hvr] at hr; exact absurd hr (by simp)
        · exact done_mono ts0 s _ r hg (Shrunk.refl _) hdr
    · have hv' : (tAt s.ts facet).valid = false := by
        cases hc : (tAt s.ts facet).valid with
        | false => rfl
        | true => exact absurd hc hv
      simp only [hv', Bool.false_eq_true, if_false] at h
      subst h
      refine ⟨fun q e hq => hq, fun hvv => by rw [hv'] at hvv; exact absurd hvv (by simp), fun r hr hor => ?_⟩
      rcases hor with hvr | hdr
      · rw [hvr] at hr; exact absurd hr (by simp)
      · exact hdr


theorem bool_false_of_not_true {b : Bool} (h : ¬ b = true) : b = false := by
  cases b with
  | false => rfl
  | true => exact absurd rfl h

theorem validSet_card_le (ts : Array (Facet K)) : (validSet ts).card ≤ ts.size := by
  unfold validSet
  exact le_trans (Finset.card_filter_le _ _) (by simp)

/-- **completeness of the silhouette**: after the three root calls, every half-edge of a surviving facet whose neighbour was removed
is listed -/
theorem silhouetteStep_complete (ts : Array (Facet K)) (pts : Array (V3 K)) (point i : Nat) (hT : Twin ts) (hi : i < ts.size)
    (hv : (tAt ts i).valid = true) :
    ∀ a, a < (silhouetteStep pts point i ts).ts.size → (tAt (silhouetteStep pts point i ts).ts a).valid = true → ∀ j, j < 3 →
      (tAt (silhouetteStep pts point i ts).ts ((tAt (silhouetteStep pts point i ts).ts a).adj.get j)).valid = false →
      ∃ q : Nat, (silhouetteStep pts point i ts).out[q]? = some (a, j) := by
  unfold silhouetteStep
  simp only
  generalize hs0def : (⟨#[], #[i], invalidate ts i⟩ : Sil K) = s0
  have hs0ts : s0.ts = invalidate ts i := by rw [← hs0def]
  have h0 : SilInv ts pts point s0 := by
    rw [← hs0def]; exact ⟨shrunk_invalidate _ _, fun q a j hq => absurd hq (by simp)⟩
  have hi0 : (tAt s0.ts i).valid = false := by rw [hs0ts]; exact invalidate_valid _ _
  have hcard0 : (validSet s0.ts).card < ts.size + 1 := by
    have := validSet_card_le s0.ts
    have hsz : s0.ts.size = ts.size := h0.shr.1
    omega
  obtain ⟨a1, a2, _, a4, _, _, _⟩ := hT i hi hv 0 (by omega)
  obtain ⟨b1, b2, _, b4, _, _, _⟩ := hT i hi hv 1 (by omega)
  obtain ⟨c1, c2, _, c4, _, _, _⟩ := hT i hi hv 2 (by omega)
  generalize hs1def : computeSilhouette pts point (ts.size + 1) ((tAt ts i).adj.get 0) ((tAt ts i).ind.get 0) s0 = s1
  have hc1 : (tAt s0.ts ((tAt ts ((tAt ts i).adj.get 0)).adj.get ((tAt ts i).ind.get 0))).valid = false := by rw [a4]; exact hi0
  obtain ⟨g1, p1, d1⟩ := computeSilhouette_complete ts pts point hT _ _ _ s0 s1 hs1def h0 a1 a2 hc1 hcard0
  obtain ⟨r1, r2⟩ := computeSilhouette_inv ts pts point hT (ts.size + 1) _ _ s0 h0 a1 a2 hc1
  rw [hs1def] at r1 r2
  have hi1 := valid_false_of_shrunk r2 i hi0
  have hcard1 : (validSet s1.ts).card < ts.size + 1 := lt_of_le_of_lt (Finset.card_le_card (validSet_mono r2)) hcard0
  generalize hs2def : computeSilhouette pts point (ts.size + 1) ((tAt ts i).adj.get 1) ((tAt ts i).ind.get 1) s1 = s2
  have hc2 : (tAt s1.ts ((tAt ts ((tAt ts i).adj.get 1)).adj.get ((tAt ts i).ind.get 1))).valid = false := by rw [b4]; exact hi1
  obtain ⟨g2, p2, d2⟩ := computeSilhouette_complete ts pts point hT _ _ _ s1 s2 hs2def r1 b1 b2 hc2 hcard1
  obtain ⟨t1, t2⟩ := computeSilhouette_inv ts pts point hT (ts.size + 1) _ _ s1 r1 b1 b2 hc2
  rw [hs2def] at t1 t2
  have hi2 := valid_false_of_shrunk t2 i hi1
  have hcard2 : (validSet s2.ts).card < ts.size + 1 := lt_of_le_of_lt (Finset.card_le_card (validSet_mono t2)) hcard1
  generalize hs3def : computeSilhouette pts point (ts.size + 1) ((tAt ts i).adj.get 2) ((tAt ts i).ind.get 2) s2 = s3
  have hc3 : (tAt s2.ts ((tAt ts ((tAt ts i).adj.get 2)).adj.get ((tAt ts i).ind.get 2))).valid = false := by rw [c4]; exact hi2
  obtain ⟨g3, p3, d3⟩ := computeSilhouette_complete ts pts point hT _ _ _ s2 s3 hs3def t1 c1 c2 hc3 hcard2
  obtain ⟨u1, u2⟩ := computeSilhouette_inv ts pts point hT (ts.size + 1) _ _ s2 t1 c1 c2 hc3
  rw [hs3def] at u1 u2
  -- every facet removed in this pass is `Done`
  have hdone : ∀ r, (tAt ts r).valid = true → (tAt s3.ts r).valid = false → Done ts s3 r := by
    intro r hr0 hr3
    by_cases hri : r = i
    · subst hri
      intro j hj hvj
      rcases lt3 hj with rfl | rfl | rfl
      · obtain ⟨q, hq⟩ := p1 ((t2.2 _).2.2.2.2.2.2 ((u2.2 _).2.2.2.2.2.2 hvj))
        exact ⟨q, g3 q _ (g2 q _ hq)⟩
      · obtain ⟨q, hq⟩ := p2 ((u2.2 _).2.2.2.2.2.2 hvj)
        exact ⟨q, g3 q _ hq⟩
      · exact p3 hvj
    · have hr00 : (tAt s0.ts r).valid = true := by
        rw [hs0ts, tAt_invalidate, if_neg (fun h => hri h.1.symm)]; exact hr0
      have hP1 : (tAt s1.ts r).valid = true ∨ Done ts s1 r := by
        by_cases h1 : (tAt s1.ts r).valid = true
        · exact Or.inl h1
        · exact Or.inr (d1 r (bool_false_of_not_true h1) (Or.inl hr00))
      have hP2 : (tAt s2.ts r).valid = true ∨ Done ts s2 r := by
        by_cases h2 : (tAt s2.ts r).valid = true
        · exact Or.inl h2
        · exact Or.inr (d2 r (bool_false_of_not_true h2) hP1)
      exact d3 r hr3 hP2
  intro a ha hva j hj hnb
  obtain ⟨e1, e2, _, _, _, _, e7⟩ := u1.shr.2 a
  have hsz : s3.ts.size = ts.size := u1.shr.1
  obtain ⟨w1, w2, w3, w4, w5, _, _⟩ := hT a (by omega) (e7 hva) j hj
  rw [e1] at hnb
  obtain ⟨q, hq⟩ := hdone _ w3 hnb _ w2 (by rw [w4]; exact hva)
  rw [w4, w5] at hq
  exact ⟨q, hq⟩


/-! ## no half-edge is listed twice -/

def NodupIdx (out : Array (Nat × Nat)) : Prop :=
  ∀ (q q' : Nat) (e : Nat × Nat), out[q]? = some e → out[q']? = some e → q = q'

/-- an entry of `s'` is an entry of `s`, or the target of the call, or faces a facet that was still valid in `s` -/
def NewFrom (ts0 : Array (Facet K)) (s s' : Sil K) (facet iid : Nat) : Prop :=
  ∀ (q : Nat) (e : Nat × Nat), s'.out[q]? = some e →
    (∃ q' : Nat, s.out[q']? = some e) ∨ e = (facet, iid) ∨ (tAt s.ts ((tAt ts0 e.1).adj.get e.2)).valid = true

theorem computeSilhouette_nodup (ts0 : Array (Facet K)) (pts : Array (V3 K)) (point : Nat) (hT : Twin ts0) :
    ∀ (fuel facet iid : Nat) (s s' : Sil K), computeSilhouette pts point fuel facet iid s = s' →
      SilInv ts0 pts point s → facet < ts0.size → iid < 3 →
      (tAt s.ts ((tAt ts0 facet).adj.get iid)).valid = false →
      NodupIdx s.out → (∀ q : Nat, s.out[q]? ≠ some (facet, iid)) →
      NodupIdx s'.out ∧ NewFrom ts0 s s' facet iid := by
  intro fuel
  induction fuel with
  | zero =>
    intro facet iid s s' h _ _ _ _ hnd _
    simp only [computeSilhouette] at h; subst h
    exact ⟨hnd, fun q e hq => Or.inl ⟨q, hq⟩⟩
  | succ fuel ih =>
    intro facet iid s s' h hs hf hi hcaller hnd hnot
    unfold computeSilhouette at h
    obtain ⟨e1, e2, e3, e4, e5, e6, e7⟩ := hs.shr.2 facet
    by_cases hv : (tAt s.ts facet).valid = true
    · simp only [hv, if_true] at h
      by_cases hsb : (tAt s.ts facet).seenBy point pts = true
      · simp only [hsb, Bool.not_true, Bool.false_eq_true, if_false] at h
        have hv0 : (tAt ts0 facet).valid = true := e7 hv
        have hj1 : (iid + 1) % 3 < 3 := Nat.mod_lt _ (by omega)
        have hj2 : (iid + 2) % 3 < 3 := Nat.mod_lt _ (by omega)
        obtain ⟨t1, t2, _, t4, t5, _, _⟩ := hT facet hf hv0 _ hj1
        obtain ⟨u1, u2, _, u4, u5, _, _⟩ := hT facet hf hv0 _ hj2
        rw [e1, e2] at h
        generalize hs1def : ({ s with ts := invalidate s.ts facet, removed := s.removed.push facet } : Sil K) = s1 at h
        have hs1ts : s1.ts = invalidate s.ts facet := by rw [← hs1def]
        have hs1out : s1.out = s.out := by rw [← hs1def]
        have hshr1 : Shrunk s1.ts s.ts := by rw [hs1ts]; exact shrunk_invalidate _ _
        have hinvf : (tAt s1.ts facet).valid = false := by rw [hs1ts]; exact invalidate_valid _ _
        have hsil1 : SilInv ts0 pts point s1 := by
          refine ⟨hshr1.trans hs.shr, fun q a j hq => ?_⟩
          rw [hs1out] at hq
          obtain ⟨o1, o2, o3, o4, o5⟩ := hs.out q a j hq
          have hseen : (tAt s.ts facet).seenBy point pts = (tAt ts0 facet).seenBy point pts := seenBy_congr _ _ _ _ e4 e3 e5
          have hne : facet ≠ a := fun hh => by subst hh; rw [← hseen, hsb] at o4; exact absurd o4 (by simp)
          refine ⟨o1, o2, ?_, o4, valid_false_of_shrunk hshr1 _ o5⟩
          rw [hs1ts, tAt_invalidate, if_neg (fun h => hne h.1)]; exact o3
        -- entries already in `s.out` face a facet that is invalid in `s`; the two targets face `facet`, valid in `s`
        have hold : ∀ (q : Nat) (a j : Nat), s.out[q]? = some (a, j) → (tAt ts0 a).adj.get j ≠ facet := fun q a j hq hh => by
          have := (hs.out q a j hq).2.2.2.2
          rw [hh, hv] at this; exact absurd this (by simp)
        generalize hs2def : computeSilhouette pts point fuel ((tAt ts0 facet).adj.get ((iid + 1) % 3))
          ((tAt ts0 facet).ind.get ((iid + 1) % 3)) s1 = s2 at h
        have hc1 : (tAt s1.ts ((tAt ts0 ((tAt ts0 facet).adj.get ((iid + 1) % 3))).adj.get
            ((tAt ts0 facet).ind.get ((iid + 1) % 3)))).valid = false := by rw [t4]; exact hinvf
        have hnot1 : ∀ q : Nat, s1.out[q]? ≠ some ((tAt ts0 facet).adj.get ((iid + 1) % 3), (tAt ts0 facet).ind.get ((iid + 1) % 3)) := by
          intro q hq; rw [hs1out] at hq; exact hold q _ _ hq t4
        obtain ⟨n1, w1⟩ := ih _ _ s1 s2 hs2def hsil1 t1 t2 hc1 (by rw [hs1out]; exact hnd) hnot1
        obtain ⟨hsil2, hshr2⟩ := computeSilhouette_inv ts0 pts point hT fuel _ _ s1 hsil1 t1 t2 hc1
        rw [hs2def] at hsil2 hshr2
        have hinvf2 : (tAt s2.ts facet).valid = false := valid_false_of_shrunk hshr2 _ hinvf
        have hc2 : (tAt s2.ts ((tAt ts0 ((tAt ts0 facet).adj.get ((iid + 2) % 3))).adj.get
            ((tAt ts0 facet).ind.get ((iid + 2) % 3)))).valid = false := by rw [u4]; exact hinvf2
        have hnot2 : ∀ q : Nat, s2.out[q]? ≠ some ((tAt ts0 facet).adj.get ((iid + 2) % 3), (tAt ts0 facet).ind.get ((iid + 2) % 3)) := by
          intro q hq
          rcases w1 q _ hq with ⟨q', hq'⟩ | heq | hval
          · rw [hs1out] at hq'; exact hold q' _ _ hq' u4
          · -- the two targets are different half-edges: their twins are edges (iid+1)%3 and (iid+2)%3 of `facet`
            have h1 := congrArg Prod.fst heq
            have h2 := congrArg Prod.snd heq
            simp only at h1 h2
            have : (iid + 2) % 3 = (iid + 1) % 3 := by rw [← u5, ← t5, h1, h2]
            omega
          · simp only at hval
            rw [u4, hinvf] at hval; exact absurd hval (by simp)
        obtain ⟨n2, w2⟩ := ih _ _ s2 s' h hsil2 u1 u2 hc2 n1 hnot2
        refine ⟨n2, fun q e hq => ?_⟩
        rcases w2 q e hq with ⟨q', hq'⟩ | heq | hval
        · rcases w1 q' e hq' with ⟨q'', hq''⟩ | heq | hval
          · left; rw [hs1out] at hq''; exact ⟨q'', hq''⟩
          · right; right; rw [heq]; simp only; rw [t4]; exact hv
          · right; right; exact (hshr1.2 _).2.2.2.2.2.2 hval
        · right; right; rw [heq]; simp only; rw [u4]; exact hv
        · right; right; exact (hshr1.2 _).2.2.2.2.2.2 ((hshr2.2 _).2.2.2.2.2.2 hval)
      · have hsb' : (tAt s.ts facet).seenBy point pts = false := bool_false_of_not_true hsb
        simp only [hsb', Bool.not_false, if_true] at h
        subst h
        refine ⟨fun q q' e hq hq' => ?_, fun q e hq => ?_⟩
        · show q = q'
          have hq1 : (s.out.push (facet, iid))[q]? = some e := hq
          have hq2 : (s.out.push (facet, iid))[q']? = some e := hq'
          have l1 := getElem?_lt_of_some _ _ _ hq1
          have l2 := getElem?_lt_of_some _ _ _ hq2
          simp only [Array.size_push] at l1 l2
          by_cases c1 : q < s.out.size <;> by_cases c2 : q' < s.out.size
          · rw [Array.getElem?_push_lt c1] at hq1; rw [Array.getElem?_push_lt c2] at hq2
            exact hnd q q' e (by rw [← hq1]; simp [c1]) (by rw [← hq2]; simp [c2])
          · have : q' = s.out.size := by omega
            subst this
            rw [Array.getElem?_push_size] at hq2
            rw [Array.getElem?_push_lt c1] at hq1
            simp only [Option.some.injEq] at hq2; subst hq2
            exact absurd (by rw [← hq1]; simp [c1]) (hnot q)
          · have : q = s.out.size := by omega
            subst this
            rw [Array.getElem?_push_size] at hq1
            rw [Array.getElem?_push_lt c2] at hq2
            simp only [Option.some.injEq] at hq1; subst hq1
            exact absurd (by rw [← hq2]; simp [c2]) (hnot q')
          · omega
        · have hq1 : (s.out.push (facet, iid))[q]? = some e := hq
          have l1 := getElem?_lt_of_some _ _ _ hq1
          simp only [Array.size_push] at l1
          by_cases c1 : q < s.out.size
          · rw [Array.getElem?_push_lt c1] at hq1
            exact Or.inl ⟨q, by rw [← hq1]; simp [c1]⟩
          · have : q = s.out.size := by omega
            subst this
            rw [Array.getElem?_push_size] at hq1
            simp only [Option.some.injEq] at hq1
            exact Or.inr (Or.inl hq1.symm)
    · have hv' : (tAt s.ts facet).valid = false := bool_false_of_not_true hv
      simp only [hv', Bool.false_eq_true, if_false] at h
      subst h
      exact ⟨hnd, fun q e hq => Or.inl ⟨q, hq⟩⟩


theorem silhouetteStep_nodup (ts : Array (Facet K)) (pts : Array (V3 K)) (point i : Nat) (hT : Twin ts) (hi : i < ts.size)
    (hv : (tAt ts i).valid = true) : NodupIdx (silhouetteStep pts point i ts).out := by
  unfold silhouetteStep
  simp only
  generalize hs0def : (⟨#[], #[i], invalidate ts i⟩ : Sil K) = s0
  have hs0ts : s0.ts = invalidate ts i := by rw [← hs0def]
  have hs0out : s0.out = #[] := by rw [← hs0def]
  have h0 : SilInv ts pts point s0 := by
    rw [← hs0def]; exact ⟨shrunk_invalidate _ _, fun q a j hq => absurd hq (by simp)⟩
  have hi0 : (tAt s0.ts i).valid = false := by rw [hs0ts]; exact invalidate_valid _ _
  obtain ⟨a1, a2, _, a4, a5, _, _⟩ := hT i hi hv 0 (by omega)
  obtain ⟨b1, b2, _, b4, b5, _, _⟩ := hT i hi hv 1 (by omega)
  obtain ⟨c1, c2, _, c4, c5, _, _⟩ := hT i hi hv 2 (by omega)
  generalize hs1def : computeSilhouette pts point (ts.size + 1) ((tAt ts i).adj.get 0) ((tAt ts i).ind.get 0) s0 = s1
  have hc1 : (tAt s0.ts ((tAt ts ((tAt ts i).adj.get 0)).adj.get ((tAt ts i).ind.get 0))).valid = false := by rw [a4]; exact hi0
  obtain ⟨n1, w1⟩ := computeSilhouette_nodup ts pts point hT _ _ _ s0 s1 hs1def h0 a1 a2 hc1
    (by rw [hs0out]; intro q q' e hq; exact absurd hq (by simp)) (by rw [hs0out]; intro q hq; exact absurd hq (by simp))
  obtain ⟨r1, r2⟩ := computeSilhouette_inv ts pts point hT (ts.size + 1) _ _ s0 h0 a1 a2 hc1
  rw [hs1def] at r1 r2
  have hi1 := valid_false_of_shrunk r2 i hi0
  generalize hs2def : computeSilhouette pts point (ts.size + 1) ((tAt ts i).adj.get 1) ((tAt ts i).ind.get 1) s1 = s2
  have hc2 : (tAt s1.ts ((tAt ts ((tAt ts i).adj.get 1)).adj.get ((tAt ts i).ind.get 1))).valid = false := by rw [b4]; exact hi1
  have hnot2 : ∀ q : Nat, s1.out[q]? ≠ some ((tAt ts i).adj.get 1, (tAt ts i).ind.get 1) := by
    intro q hq
    rcases w1 q _ hq with ⟨q', hq'⟩ | heq | hval
    · rw [hs0out] at hq'; exact absurd hq' (by simp)
    · have h1 := congrArg Prod.fst heq
      have h2 := congrArg Prod.snd heq
      simp only at h1 h2
      have : (1 : Nat) = 0 := by rw [← b5, ← a5, h1, h2]
      omega
    · simp only at hval
      rw [b4, hi0] at hval; exact absurd hval (by simp)
  obtain ⟨n2, w2⟩ := computeSilhouette_nodup ts pts point hT _ _ _ s1 s2 hs2def r1 b1 b2 hc2 n1 hnot2
  obtain ⟨t1, t2⟩ := computeSilhouette_inv ts pts point hT (ts.size + 1) _ _ s1 r1 b1 b2 hc2
  rw [hs2def] at t1 t2
  have hi2 := valid_false_of_shrunk t2 i hi1
  generalize hs3def : computeSilhouette pts point (ts.size + 1) ((tAt ts i).adj.get 2) ((tAt ts i).ind.get 2) s2 = s3
  have hc3 : (tAt s2.ts ((tAt ts ((tAt ts i).adj.get 2)).adj.get ((tAt ts i).ind.get 2))).valid = false := by rw [c4]; exact hi2
  have hnot3 : ∀ q : Nat, s2.out[q]? ≠ some ((tAt ts i).adj.get 2, (tAt ts i).ind.get 2) := by
    intro q hq
    rcases w2 q _ hq with ⟨q', hq'⟩ | heq | hval
    · rcases w1 q' _ hq' with ⟨q'', hq''⟩ | heq | hval
      · rw [hs0out] at hq''; exact absurd hq'' (by simp)
      · have h1 := congrArg Prod.fst heq
        have h2 := congrArg Prod.snd heq
        simp only at h1 h2
        have : (2 : Nat) = 0 := by rw [← c5, ← a5, h1, h2]
        omega
      · simp only at hval
        rw [c4, hi0] at hval; exact absurd hval (by simp)
    · have h1 := congrArg Prod.fst heq
      have h2 := congrArg Prod.snd heq
      simp only at h1 h2
      have : (2 : Nat) = 1 := by rw [← c5, ← b5, h1, h2]
      omega
    · simp only at hval
      rw [c4, hi1] at hval; exact absurd hval (by simp)
  exact (computeSilhouette_nodup ts pts point hT _ _ _ s2 s3 hs3def t1 c1 c2 hc3 n2 hnot3).1

end C12.H3
