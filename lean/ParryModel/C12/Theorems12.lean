import ParryModel.Field
import ParryModel.C12.Lemmas11
import Mathlib.Data.Finset.Card
import Mathlib.Data.List.Nodup
/-!
# C12 theorems, twelfth pass (fu5): what the maintainers' validator `check_convex_hull` accepts, for **every** `Num` instance.

`checkConvexHull` (`Validate.lean`) is tied bit-exactly to `transformation::check_convex_hull` (protocol function `validate3`:
returns / panics).  `sidesOf t` are the three undirected sides (`SortedPair`) of a triangle.

* `hasDuplicate_iff` — the quadratic scan finds a duplicate iff two different indices carry `==` coordinates.
* `checkConvexHull_iff` — **the validator returns normally IFF** no two points are equal, every triangle has three different
  indices, every undirected side that occurs at all occurs in exactly TWO triangle sides (closed surface without t-junction),
  and `V + F - E = 2` where `E` is the number of distinct undirected sides (Euler characteristic): the edge hash map, its two-slot
  entries, the "t-junction" / "unfinished triangle" panics and the final `assert_eq!` compute exactly this.
* `checkConvexHull_accepts_orientation_blind` — consequence worth knowing: the verdict depends on the triangles only through their
  undirected sides, so flipping the orientation of any triangle does not change it (orientation is NOT validated).
-/
namespace C12
open Model Model.H3 C12.H3

variable {K : Type} [Num K]

theorem hasDuplicate_iff (pts : Array (V3 K)) :
    hasDuplicate pts = true ↔ ∃ i j, i < j ∧ j < pts.size ∧ ptEq (pAt pts i) (pAt pts j) = true := by
  unfold hasDuplicate
  simp only [List.any_eq_true, List.mem_range]
  constructor
  · rintro ⟨i, _, d, hd, h⟩
    exact ⟨i, i + 1 + d, by omega, by omega, h⟩
  · rintro ⟨i, j, hij, hj, h⟩
    refine ⟨i, by omega, j - (i + 1), by omega, ?_⟩
    have : i + 1 + (j - (i + 1)) = j := by omega
    rw [this]; exact h

private theorem zip_facts (tris : Array T3) :
    ((List.range tris.size).zip tris.toList).map (·.2) = tris.toList := by
  apply List.map_snd_zip
  simp

/-- **what `check_convex_hull` accepts** (see the file header) -/
theorem checkConvexHull_iff (pts : Array (V3 K)) (tris : Array T3) :
    checkConvexHull pts tris = true ↔
      hasDuplicate pts = false ∧ (∀ t, t ∈ tris.toList → NonDeg t) ∧
      (∀ k, (tris.toList.flatMap sidesOf).count k = 0 ∨ (tris.toList.flatMap sidesOf).count k = 2) ∧
      pts.size + tris.size - (tris.toList.flatMap sidesOf).toFinset.card = 2 := by
  have hS : sidesAll ((List.range tris.size).zip tris.toList) = tris.toList.flatMap sidesOf := by
    unfold sidesAll; rw [zip_facts]
  have hmem : (∀ x, x ∈ (List.range tris.size).zip tris.toList → NonDeg x.2) ↔ ∀ t, t ∈ tris.toList → NonDeg t := by
    constructor
    · intro h t ht
      rw [← zip_facts tris] at ht
      obtain ⟨x, hx, rfl⟩ := List.mem_map.mp ht
      exact h x hx
    · intro h x hx
      exact h x.2 (by rw [← zip_facts tris]; exact List.mem_map.mpr ⟨x, hx, rfl⟩)
  have hcard : ∀ e : EdgeTab, TabInv (tris.toList.flatMap sidesOf) e →
      e.length = (tris.toList.flatMap sidesOf).toFinset.card := by
    intro e he
    have h1 : (e.map (·.1)).toFinset = (tris.toList.flatMap sidesOf).toFinset := by
      ext k; simp only [List.mem_toFinset]; exact keys_mem_iff _ e he k
    rw [← h1, List.toFinset_card_of_nodup he.nodup, List.length_map]
  unfold checkConvexHull
  constructor
  · intro h
    split at h
    · exact absurd h (by simp)
    · rename_i hd
      split at h
      · exact absurd h (by simp)
      · rename_i edges hch
        obtain ⟨g1, g2⟩ := checkTris_inv _ [] [] edges tabInv_nil hch
        rw [List.nil_append, hS] at g2
        split at h
        · exact absurd h (by simp)
        · rename_i hany
          refine ⟨by simpa using hd, hmem.mp g1, fun k => ?_, ?_⟩
          · have hle : (tris.toList.flatMap sidesOf).count k ≤ 2 := by rw [← g2.cnt k]; exact slots_le _ _
            have hne : (tris.toList.flatMap sidesOf).count k ≠ 1 := fun hc =>
              hany ((anyNone_iff _ edges g2).mpr ⟨k, hc⟩)
            omega
          · rw [← hcard edges g2]; simpa using h
  · rintro ⟨hd, hnd, hcnt, heul⟩
    rw [hd]
    simp only [Bool.false_eq_true, if_false]
    obtain ⟨edges, hch⟩ := checkTris_complete _ [] [] tabInv_nil (hmem.mpr hnd)
      (fun k => by rw [List.nil_append, hS]; rcases hcnt k with h | h <;> omega)
    obtain ⟨_, g2⟩ := checkTris_inv _ [] [] edges tabInv_nil hch
    rw [List.nil_append, hS] at g2
    rw [hch]
    simp only
    have hany : ¬ (edges.any (fun x => x.2.2.isNone) = true) := by
      intro ha
      obtain ⟨k, hk⟩ := (anyNone_iff _ edges g2).mp ha
      rcases hcnt k with h | h <;> omega
    rw [if_neg hany, hcard edges g2]
    simpa using heul

/-- the validator does not look at orientation: two index buffers with the same triangles up to the order of the three indices in
each triangle (same multiset of undirected sides, triangle by triangle) get the same verdict -/
theorem checkConvexHull_accepts_orientation_blind (pts : Array (V3 K)) (tris tris' : Array T3)
    (hsz : tris.size = tris'.size) (hnd : (∀ t, t ∈ tris.toList → NonDeg t) ↔ (∀ t, t ∈ tris'.toList → NonDeg t))
    (hs : ∀ k, (tris.toList.flatMap sidesOf).count k = (tris'.toList.flatMap sidesOf).count k) :
    checkConvexHull pts tris = checkConvexHull pts tris' := by
  have hfin : (tris.toList.flatMap sidesOf).toFinset = (tris'.toList.flatMap sidesOf).toFinset := by
    ext k
    simp only [List.mem_toFinset]
    rw [← List.count_pos_iff, ← List.count_pos_iff, hs k]
  have key : checkConvexHull pts tris = true ↔ checkConvexHull pts tris' = true := by
    rw [checkConvexHull_iff, checkConvexHull_iff, hnd, hsz, hfin]
    simp only [hs]
  cases h1 : checkConvexHull pts tris <;> cases h2 : checkConvexHull pts tris' <;> simp_all

/-! ## non-vacuity: the tetrahedron is accepted (both sides of `checkConvexHull_iff` are satisfiable) -/
example : checkConvexHull (#[⟨0, 0, 0⟩, ⟨1, 0, 0⟩, ⟨0, 1, 0⟩, ⟨0, 0, 1⟩] : Array (V3 Rat))
    #[⟨0, 2, 1⟩, ⟨0, 1, 3⟩, ⟨1, 2, 3⟩, ⟨2, 0, 3⟩] = true := by decide

end C12
