import ParryModel.C12.Lemmas8
/-!
# C12 lemmas (fu5): UNCONDITIONAL provenance invariant of the 3-D quickhull run: every point index stored anywhere (facet corners,
visible lists, undecidable list) is a valid index into the point array, through every function of `Hull3.lean`, without any
hypothesis on the facet links (no `Twin`, no `CyclicLoop`).  Core Lean only; every `Num` instance.
-/
namespace C12.H3
open Model Model.H3
variable {K : Type} [Num K]

/-- all point indices stored in a facet are `< n` -/
def FOk (n : Nat) (f : Facet K) : Prop := (∀ j, f.pts.get j < n) ∧ ∀ v, v ∈ f.vis.toList → v < n

/-- all point indices stored in a facet array are `< n` (the default facet read out of range stores index 0) -/
def AllOk (n : Nat) (ts : Array (Facet K)) : Prop := ∀ a, FOk n (tAt ts a)

def UndOk (n : Nat) (und : Array Nat) : Prop := ∀ k : Nat, (und[k]?).getD 0 < n

theorem T3_get_cases (t : T3) (j : Nat) : t.get j = t.a ∨ t.get j = t.b ∨ t.get j = t.c := by
  unfold T3.get; split
  · exact Or.inl rfl
  · split
    · exact Or.inr (Or.inl rfl)
    · exact Or.inr (Or.inr rfl)

theorem fok_dflt (n : Nat) (hn : 0 < n) : FOk n (Facet.dflt : Facet K) := by
  refine ⟨fun j => ?_, fun v hv => ?_⟩
  · rcases T3_get_cases (Facet.dflt : Facet K).pts j with h | h | h <;> rw [h] <;> exact hn
  · simp [Facet.dflt] at hv

theorem allOk_empty (n : Nat) (hn : 0 < n) : AllOk n (#[] : Array (Facet K)) := by
  intro a; unfold tAt; simp; exact fok_dflt n hn

theorem allOk_set (n : Nat) (ts : Array (Facet K)) (i : Nat) (v : Facet K) (h : AllOk n ts) (hv : FOk n v) :
    AllOk n (ts.setIfInBounds i v) := by
  intro a; rw [tAt_set]; split
  · exact hv
  · exact h a

theorem allOk_of_shrunk (n : Nat) {a b : Array (Facet K)} (h : Shrunk a b) (hb : AllOk n b) : AllOk n a := by
  intro x
  obtain ⟨_, _, e3, _, _, e6, _⟩ := h.2 x
  unfold FOk; rw [e3, e6]; exact hb x

theorem allOk_append (n : Nat) (a b : Array (Facet K)) (ha : AllOk n a) (hb : AllOk n b) : AllOk n (a ++ b) := by
  intro x; rw [tAt_append]; split
  · exact ha x
  · exact hb _

theorem secondOf_lt (n : Nat) (ts : Array (Facet K)) (e : Nat × Nat) (h : AllOk n ts) : secondOf ts e < n := (h e.1).1 _
theorem firstOf_lt (n : Nat) (ts : Array (Facet K)) (e : Nat × Nat) (h : AllOk n ts) : firstOf ts e < n := (h e.1).1 _

/-! ## silhouette -/

theorem computeSilhouette_shrunk (pts : Array (V3 K)) (point : Nat) : ∀ (fuel facet iid : Nat) (s : Sil K),
    Shrunk (computeSilhouette pts point fuel facet iid s).ts s.ts := by
  intro fuel
  induction fuel with
  | zero => intro _ _ s; exact Shrunk.refl _
  | succ fuel ih =>
    intro facet iid s
    unfold computeSilhouette
    simp only
    split
    · split
      · exact Shrunk.refl _
      · refine (ih _ _ _).trans ((ih _ _ _).trans ?_)
        exact shrunk_invalidate _ _
    · exact Shrunk.refl _

theorem silhouetteStep_shrunk (pts : Array (V3 K)) (point i : Nat) (ts : Array (Facet K)) :
    Shrunk (silhouetteStep pts point i ts).ts ts := by
  unfold silhouetteStep
  exact (computeSilhouette_shrunk _ _ _ _ _ _).trans ((computeSilhouette_shrunk _ _ _ _ _ _).trans
    ((computeSilhouette_shrunk _ _ _ _ _ _).trans (shrunk_invalidate _ _)))

/-! ## attach -/

theorem fok_new (n : Nat) (p1 p2 p3 : Nat) (pts : Array (V3 K)) (h1 : p1 < n) (h2 : p2 < n) (h3 : p3 < n) :
    FOk n (Facet.new p1 p2 p3 pts) := by
  refine ⟨fun j => ?_, fun v hv => ?_⟩
  · rcases T3_get_cases (Facet.new p1 p2 p3 pts).pts j with h | h | h <;> rw [h] <;> assumption
  · simp [Facet.new] at hv

theorem allOk_newFacets (n : Nat) (hn : 0 < n) (pts : Array (V3 K)) (point : Nat) (ts : Array (Facet K))
    (sil : Array (Nat × Nat)) (h : AllOk n ts) (hp : point < n) : AllOk n (newFacets pts point ts sil) := by
  intro a
  unfold newFacets tAt
  rw [Array.getElem?_map]
  cases hs : sil[a]? with
  | none => simp; exact fok_dflt n hn
  | some e => simp; exact fok_new n _ _ _ pts hp (secondOf_lt n ts e h) (firstOf_lt n ts e h)

theorem linkStep_ok (n m' m : Nat) (sil : Array (Nat × Nat)) (st : LinkSt K) (i : Nat)
    (h : AllOk n st.ts ∧ AllOk n st.nf) : AllOk n (linkStep m' m sil st i).ts ∧ AllOk n (linkStep m' m sil st i).nf := by
  unfold linkStep
  split
  · exact h
  · simp only
    split
    · exact h
    · split
      · exact h
      · exact ⟨allOk_set n _ _ _ h.1 (h.1 _), allOk_set n _ _ _ h.2 (h.2 _)⟩

theorem linkFold_ok (n m' m : Nat) (sil : Array (Nat × Nat)) : ∀ (l : List Nat) (st : LinkSt K),
    AllOk n st.ts ∧ AllOk n st.nf → AllOk n (l.foldl (linkStep m' m sil) st).ts ∧ AllOk n (l.foldl (linkStep m' m sil) st).nf := by
  intro l
  induction l with
  | nil => intro st h; exact h
  | cons a l ih => intro st h; exact ih _ (linkStep_ok n m' m sil st a h)

theorem fok_addVis (n : Nat) (f g : Facet K) (p : Nat) (pts : Array (V3 K)) (h : f.addVis p pts = some g) (hf : FOk n f)
    (hp : p < n) : FOk n g := by
  unfold Facet.addVis at h
  split at h
  · simp only [Option.some.injEq] at h; subst h
    refine ⟨hf.1, fun v hv => ?_⟩
    simp only [Array.toList_push, List.mem_append, List.mem_singleton] at hv
    rcases hv with hv | rfl
    · exact hf.2 v hv
    · exact hp
  · exact absurd h (by simp)

theorem redistribute_ok (n : Nat) (pts : Array (V3 K)) (point : Nat) (nf nf' : Array (Facet K)) (vp : Nat)
    (h : redistribute pts point nf vp = some nf') (hnf : AllOk n nf) (hvp : vp < n) : AllOk n nf' := by
  unfold redistribute at h
  split at h
  · simp only [Option.some.injEq] at h; subst h; exact hnf
  · split at h
    · simp only [Option.some.injEq] at h; subst h; exact hnf
    · split at h
      · split at h
        · rename_i f hf
          simp only [Option.some.injEq] at h; subst h
          exact allOk_set n _ _ _ hnf (fok_addVis n _ _ _ _ hf (hnf _) hvp)
        · exact absurd h (by simp)
      · simp only [Option.some.injEq] at h; subst h; exact hnf

theorem redistFold_ok (n : Nat) (pts : Array (V3 K)) (point : Nat) : ∀ (l : List Nat) (nf nf' : Array (Facet K)),
    l.foldlM (fun nf vp => redistribute pts point nf vp) nf = some nf' → AllOk n nf → (∀ v, v ∈ l → v < n) → AllOk n nf' := by
  intro l
  induction l with
  | nil => intro nf nf' h hnf _; simp at h; subst h; exact hnf
  | cons a l ih =>
    intro nf nf' h hnf hl
    simp only [List.foldlM_cons] at h
    cases hr : redistribute pts point nf a with
    | none => simp [hr] at h
    | some nf1 =>
      simp only [hr] at h
      exact ih nf1 nf' h (redistribute_ok n pts point nf nf1 a hr hnf (hl a (by simp))) (fun v hv => hl v (by simp [hv]))

theorem undOk_swapRemove (n : Nat) (und : Array Nat) (i : Nat) (h : UndOk n und) :
    UndOk n ((und.setIfInBounds i ((und.back?).getD 0)).pop) := by
  intro k
  rw [Array.getElem?_pop]
  split
  · rw [Array.getElem?_setIfInBounds]
    split
    · split
      · simp only [Option.getD_some]
        rw [Array.back?_eq_getElem?]; exact h _
      · have := h k; simp only [Option.getD_none]; rw [Array.getElem?_eq_none (by omega)] at this; simpa using this
    · exact h k
  · have := h und.size
    rw [Array.getElem?_eq_none (by omega)] at this; simpa using this

theorem assignUndecidable_ok (n : Nat) (pts : Array (V3 K)) : ∀ (fuel i : Nat) (und : Array Nat) (nf : Array (Facet K))
    (und' : Array Nat) (nf' : Array (Facet K)),
    H3.assignUndecidable pts fuel i und nf = some (und', nf') → AllOk n nf → UndOk n und → AllOk n nf' ∧ UndOk n und' := by
  intro fuel
  induction fuel with
  | zero =>
    intro i und nf und' nf' h hnf hu
    simp [H3.assignUndecidable] at h; obtain ⟨rfl, rfl⟩ := h; exact ⟨hnf, hu⟩
  | succ fuel ih =>
    intro i und nf und' nf' h hnf hu
    unfold H3.assignUndecidable at h
    split at h
    · simp at h; obtain ⟨rfl, rfl⟩ := h; exact ⟨hnf, hu⟩
    · simp only at h
      split at h
      · split at h
        · rename_i f hf
          exact ih _ _ _ _ _ h (allOk_set n _ _ _ hnf (fok_addVis n _ _ _ _ hf (hnf _) (hu i))) (undOk_swapRemove n und i hu)
        · exact absurd h (by simp)
      · exact ih _ _ _ _ _ h hnf hu

/-- **`attach_and_push_facets` stores only valid point indices** (no hypothesis on the silhouette) -/
theorem attachAndPush_ok (n : Nat) (hn : 0 < n) (pts : Array (V3 K)) (point : Nat) (sil : Array (Nat × Nat)) (removed : Array Nat)
    (ts : Array (Facet K)) (und : Array Nat) (ts' : Array (Facet K)) (und' : Array Nat)
    (h : attachAndPush pts point sil removed ts und = some (ts', und')) (hts : AllOk n ts) (hu : UndOk n und) (hp : point < n) :
    AllOk n ts' ∧ UndOk n und' := by
  unfold attachAndPush at h
  simp only at h
  obtain ⟨l1, l2⟩ := linkFold_ok n ts.size sil.size sil (List.range sil.size) ⟨ts, newFacets pts point ts sil, false⟩
    ⟨hts, allOk_newFacets n hn pts point ts sil hts hp⟩
  generalize (List.range sil.size).foldl (linkStep ts.size sil.size sil) ⟨ts, newFacets pts point ts sil, false⟩ = st at h l1 l2
  split at h
  · exact absurd h (by simp)
  · split at h
    · exact absurd h (by simp)
    · rename_i nf1 hfold
      have hnf1 : AllOk n nf1 := by
        refine redistFold_ok n pts point _ _ _ hfold l2 ?_
        intro v hv
        simp only [List.mem_flatMap] at hv
        obtain ⟨r, _, hv⟩ := hv
        exact (l1 r).2 v hv
      split at h
      · exact absurd h (by simp)
      · rename_i und1 nf2 hass
        simp only [Option.some.injEq, Prod.mk.injEq] at h
        obtain ⟨rfl, rfl⟩ := h
        obtain ⟨g1, g2⟩ := assignUndecidable_ok n pts _ _ _ _ _ _ hass hnf1 hu
        exact ⟨allOk_append n _ _ l1 g1, g2⟩

/-! ## support points are listed indices -/

theorem argFold_mem {β : Type} (f : Option Nat × β → Nat → Option Nat × β)
    (hf : ∀ acc i, (f acc i).1 = acc.1 ∨ (f acc i).1 = some i) : ∀ (l : List Nat) (acc : Option Nat × β) (r : Nat),
    (l.foldl f acc).1 = some r → acc.1 = some r ∨ r ∈ l := by
  intro l
  induction l with
  | nil => intro acc r h; exact Or.inl h
  | cons a l ih =>
    intro acc r h
    rcases ih (f acc a) r h with h1 | h1
    · rcases hf acc a with h2 | h2
      · exact Or.inl (h2 ▸ h1)
      · rw [h2] at h1; simp only [Option.some.injEq] at h1; subst h1; exact Or.inr (by simp)
    · exact Or.inr (by simp [h1])

theorem indexedSupportPointId_mem (negMax : K) (dir : V3 K) (pts : Array (V3 K)) (idx : List Nat) (r : Nat)
    (h : H3.indexedSupportPointId negMax dir pts idx = some r) : r ∈ idx := by
  unfold H3.indexedSupportPointId at h
  rcases argFold_mem _ (fun acc i => by simp only; split <;> simp) idx _ r h with h1 | h1
  · simp at h1
  · exact h1

theorem supportPointId_lt (negMax : K) (dir : V3 K) (pts : Array (V3 K)) (r : Nat)
    (h : supportPointId negMax dir pts = some r) : r < pts.size := by
  unfold supportPointId at h
  rcases argFold_mem _ (fun acc i => by simp only; split <;> simp) _ _ r h with h1 | h1
  · simp at h1
  · exact List.mem_range.mp h1

/-! ## main loop -/

theorem mainStep_ok (n : Nat) (hn : 0 < n) (negMax : K) (pts : Array (V3 K)) (i : Nat) (ts : Array (Facet K)) (und : Array Nat)
    (brk : Bool) (ts' : Array (Facet K)) (und' : Array Nat) (h : mainStep negMax pts i ts und = .ok (brk, ts', und'))
    (hts : AllOk n ts) (hu : UndOk n und) : AllOk n ts' ∧ UndOk n und' := by
  unfold mainStep at h
  simp only at h
  split at h
  · simp only [Res.ok.injEq, Prod.mk.injEq] at h
    obtain ⟨_, rfl, rfl⟩ := h; exact ⟨hts, hu⟩
  · split at h
    · simp only [Res.ok.injEq, Prod.mk.injEq] at h
      obtain ⟨_, rfl, rfl⟩ := h; exact ⟨hts, hu⟩
    · rename_i point hsupp
      have hp : point < n := (hts i).2 point (indexedSupportPointId_mem _ _ _ _ _ hsupp)
      have h1 : AllOk n (silhouetteStep pts point i ts).ts := allOk_of_shrunk n (silhouetteStep_shrunk pts point i ts) hts
      split at h
      · exact absurd h (by simp)
      · rename_i s2 hfix
        have hs2 : Shrunk s2.ts (silhouetteStep pts point i ts).ts := by
          unfold fixSilhouetteTopology at hfix
          generalize countSeconds pts.size (silhouetteStep pts point i ts).ts (silhouetteStep pts point i ts).out = cs at hfix
          obtain ⟨ws, nf⟩ := cs
          simp only at hfix
          split at hfix
          · simp only [Option.some.injEq] at hfix; subst hfix; exact Shrunk.refl _
          · split at hfix
            · exact absurd hfix (by simp)
            · rename_i start _
              simp only [Option.some.injEq] at hfix; subst hfix
              have h0 : FixInv (silhouetteStep pts point i ts)
                  (⟨none, #[], (silhouetteStep pts point i ts).removed, (silhouetteStep pts point i ts).ts⟩ : FixSt K) :=
                ⟨Shrunk.refl _, fun _ h => h, fun _ h => Or.inl h,
                  fun a h1 h2 => by rw [h1] at h2; exact absurd h2 (by simp)⟩
              exact (fixFold_inv ws _ start (List.range _) _ (fun i hi => List.mem_range.mp hi) h0).1.shr
        have h2 : AllOk n s2.ts := allOk_of_shrunk n hs2 h1
        split at h
        · split at h
          · exact absurd h (by simp)
          · simp only [Res.ok.injEq, Prod.mk.injEq] at h
            obtain ⟨_, rfl, rfl⟩ := h
            exact ⟨allOk_set n _ _ _ h2 (h2 i), hu⟩
        · split at h
          · exact absurd h (by simp)
          · rename_i ts2 und2 hatt
            simp only [Res.ok.injEq, Prod.mk.injEq] at h
            obtain ⟨_, rfl, rfl⟩ := h
            exact attachAndPush_ok n hn pts point _ _ _ _ _ _ hatt h2 hu hp

theorem mainLoop_ok (n : Nat) (hn : 0 < n) (negMax : K) (pts : Array (V3 K)) : ∀ (fuel i : Nat) (ts : Array (Facet K))
    (und : Array Nat) (tsF : Array (Facet K)), mainLoop negMax pts fuel i ts und = .ok tsF → AllOk n ts → UndOk n und →
    AllOk n tsF := by
  intro fuel
  induction fuel with
  | zero => intro i ts und tsF h; simp [mainLoop] at h
  | succ fuel ih =>
    intro i ts und tsF h hts hu
    unfold mainLoop at h
    split at h
    · simp only [Res.ok.injEq] at h; subst h; exact hts
    · split at h
      · rename_i brk ts' und' hstep
        obtain ⟨g1, g2⟩ := mainStep_ok n hn negMax pts i ts und brk ts' und' hstep hts hu
        split at h
        · simp only [Res.ok.injEq] at h; subst h; exact g1
        · exact ih _ _ _ _ h g1 g2
      all_goals exact absurd h (by simp)

/-! ## initial mesh -/

theorem undOk_push (n : Nat) (und : Array Nat) (p : Nat) (h : UndOk n und) (hp : p < n) : UndOk n (und.push p) := by
  intro k
  rw [Array.getElem?_push]
  split
  · exact hp
  · exact h k

theorem initAssign_ok (n : Nat) (pts : Array (V3 K)) (p1 p2 p3 : Nat) (st st' : Array (Facet K) × Array Nat) (p : Nat)
    (h : initAssign pts p1 p2 p3 st p = some st') (hs : AllOk n st.1 ∧ UndOk n st.2) (hp : p < n) :
    AllOk n st'.1 ∧ UndOk n st'.2 := by
  unfold initAssign at h
  split at h
  · simp only [Option.some.injEq] at h; subst h; exact hs
  · split at h
    · split at h
      · rename_i f hf
        simp only [Option.some.injEq] at h; subst h
        exact ⟨allOk_set n _ _ _ hs.1 (fok_addVis n _ _ _ _ hf (hs.1 _) hp), hs.2⟩
      · exact absurd h (by simp)
    · simp only [Option.some.injEq] at h; subst h
      exact ⟨hs.1, undOk_push n _ _ hs.2 hp⟩

theorem initFold_ok (n : Nat) (pts : Array (V3 K)) (p1 p2 p3 : Nat) : ∀ (l : List Nat) (st st' : Array (Facet K) × Array Nat),
    l.foldlM (initAssign pts p1 p2 p3) st = some st' → AllOk n st.1 ∧ UndOk n st.2 → (∀ v, v ∈ l → v < n) →
    AllOk n st'.1 ∧ UndOk n st'.2 := by
  intro l
  induction l with
  | nil => intro st st' h hs _; simp at h; subst h; exact hs
  | cons a l ih =>
    intro st st' h hs hl
    simp only [List.foldlM_cons] at h
    cases hr : initAssign pts p1 p2 p3 st a with
    | none => simp [hr] at h
    | some st1 =>
      simp only [hr] at h
      exact ih st1 st' h (initAssign_ok n pts p1 p2 p3 st st1 a hr hs (hl a (by simp))) (fun v hv => hl v (by simp [hv]))

theorem normalizeCloud_size (pts : Array (V3 K)) : (normalizeCloud pts).size = pts.size := by
  unfold normalizeCloud; simp

theorem allOk_pair (n : Nat) (hn : 0 < n) (f1 f2 : Facet K) (h1 : FOk n f1) (h2 : FOk n f2) : AllOk n #[f1, f2] := by
  intro a
  match a with
  | 0 => exact h1
  | 1 => exact h2
  | a + 2 =>
    have : tAt #[f1, f2] (a + 2) = Facet.dflt := by unfold tAt; simp
    rw [this]; exact fok_dflt n hn

/-- the initial state of the full-dimensional branch stores only valid point indices; the working cloud has the size of the input -/
theorem initialMesh_ok (negMax : K) (orig : Array (V3 K)) (evec : List (V3 K)) (eval : List K) (ini : Init K)
    (h : initialMesh negMax orig evec eval = .ok ini) :
    0 < orig.size ∧ ini.npts.size = orig.size ∧ AllOk orig.size ini.ts ∧ UndOk orig.size ini.und := by
  unfold initialMesh at h
  simp only at h
  generalize hnp : (Array.map (fun p => (p.sub (cloudCenter (normalizeCloud orig))).sdiv
      ((eval.drop 1).foldl (fun a b => nmax a (nabs b)) (nabs (eval.headD 0)))) (normalizeCloud orig)) = np at h
  have hsz : np.size = orig.size := by rw [← hnp, Array.size_map, normalizeCloud_size]
  split at h
  · exact absurd h (by simp)
  · split at h
    · rename_i p1 p2 hp1 hp2
      have h1 := supportPointId_lt _ _ _ _ hp1
      have h2 := supportPointId_lt _ _ _ _ hp2
      rw [hsz] at h1 h2
      split at h
      · exact absurd h (by simp)
      · rename_i p3 hp3
        have h3 : p3 < orig.size := by
          rcases argFold_mem _ (fun acc i => by (try simp only); split <;> simp) _ _ p3 hp3 with g | g
          · simp at g
          · have := List.mem_range.mp g; rw [hsz] at this; exact this
        split at h
        · exact absurd h (by simp)
        · rename_i ts und hfold
          simp only [Res.ok.injEq] at h
          subst h
          have hn : 0 < orig.size := by omega
          have f1 : FOk orig.size ({ Facet.new p1 p2 p3 np with adj := ⟨1, 1, 1⟩, ind := ⟨0, 2, 1⟩ } : Facet K) :=
            ⟨(fok_new orig.size p1 p2 p3 np h1 h2 h3).1, (fok_new orig.size p1 p2 p3 np h1 h2 h3).2⟩
          have f2 : FOk orig.size ({ Facet.new p2 p1 p3 np with adj := ⟨0, 0, 0⟩, ind := ⟨0, 2, 1⟩ } : Facet K) :=
            ⟨(fok_new orig.size p2 p1 p3 np h2 h1 h3).1, (fok_new orig.size p2 p1 p3 np h2 h1 h3).2⟩
          have h0 := initFold_ok orig.size _ p1 p2 p3 _ _ _ hfold
            ⟨allOk_pair orig.size hn _ _ f1 f2, fun k => by simpa using hn⟩
            (fun v hv => by have := List.mem_range.mp hv; rw [hsz] at this; exact this)
          exact ⟨hn, hsz, h0.1, h0.2⟩
    · exact absurd h (by simp)

theorem cloudSupportId_lt (dir : V3 K) (pts : Array (V3 K)) (hn : 0 < pts.size) : cloudSupportId dir pts < pts.size := by
  unfold cloudSupportId
  have key : ∀ (l : List Nat) (acc : Nat × K), (∀ i, i ∈ l → i < pts.size) → acc.1 < pts.size →
      (l.foldl (fun (acc : Nat × K) i => let d := (pAt pts i).dot dir; if acc.2 < d then (i, d) else acc) acc).1 < pts.size := by
    intro l
    induction l with
    | nil => intro acc _ h; exact h
    | cons a l ih =>
      intro acc hl h
      rw [List.foldl_cons]
      apply ih _ (fun i hi => hl i (by simp [hi]))
      simp only
      split
      · exact hl a (by simp)
      · exact h
  exact key _ _ (fun i hi => List.mem_range.mp (List.mem_of_mem_drop hi)) hn

theorem pAt_lt (pts : Array (V3 K)) (i : Nat) (h : i < pts.size) : some (pAt pts i) = pts[i]? := by
  unfold pAt; simp [h]

/-! ## output -/

theorem validTriangles_ok (n : Nat) (ts : Array (Facet K)) (h : AllOk n ts) (t : T3) (ht : t ∈ (validTriangles ts).toList) :
    t.a < n ∧ t.b < n ∧ t.c < n := by
  unfold validTriangles at ht
  simp only [Array.toList_map, List.mem_map, Array.toList_filter, List.mem_filter] at ht
  obtain ⟨f, ⟨hf, _⟩, rfl⟩ := ht
  obtain ⟨a, ha, rfl⟩ := List.getElem_of_mem hf
  have hta : tAt ts a = ts.toList[a] := by
    unfold tAt
    have : a < ts.size := by simpa using ha
    simp [this]
  have := (h a).1
  rw [hta] at this
  exact ⟨this 0, this 1, this 2⟩

theorem mem_validTriangles (ts : Array (Facet K)) (t : T3) :
    t ∈ (validTriangles ts).toList ↔ ∃ a, a < ts.size ∧ (tAt ts a).valid = true ∧ t = (tAt ts a).pts := by
  unfold validTriangles
  simp only [Array.toList_map, List.mem_map, Array.toList_filter, List.mem_filter]
  constructor
  · rintro ⟨f, ⟨hf, hv⟩, rfl⟩
    obtain ⟨a, ha, rfl⟩ := List.getElem_of_mem hf
    have ha' : a < ts.size := by simpa using ha
    have hta : tAt ts a = ts.toList[a] := by unfold tAt; simp [ha']
    exact ⟨a, ha', by rw [hta]; exact hv, by rw [hta]⟩
  · rintro ⟨a, ha, hv, rfl⟩
    have hta : tAt ts a = ts[a] := by unfold tAt; simp [ha]
    exact ⟨ts[a], ⟨by simp, by rw [← hta]; exact hv⟩, by rw [hta]⟩

end C12.H3
