import ParryModel.Vec
/-!
# C12 model: `ConvexPolyhedron::from_convex_mesh` and `ConvexPolyhedron::feature_normal`
(`src/shape/convex_polyhedron.rs`), transliterated pass by pass.

The model is the *corrected* behaviour for two defects of the pinned tree (fixes/C12-polyhedron-*.diff):

* **A** the contour walk gives a `parent_face` only to the triangles it passes through; a triangle of a merged face that has
  no contour vertex (all three edges deleted) kept `parent_face = None`, so the pass that rewrites `Edge::faces` from
  triangle ids to face ids left stale triangle ids in the edges around it.  Corrected: after the walk every triangle
  reachable through deleted edges from a triangle of the walk is given the new face (`flood`).
* **B** `feature_normal(FeatureId::Vertex(v))` normalised the zero vector (NaN) for a point that lies on no face contour
  (a point of the mesh inside a merged face).  Corrected: `Unit::try_new(sum, DEFAULT_EPSILON)`, i.e. `None`.

`Res.panic` = the Rust code panics (index out of bounds, `unreachable!()`, `assert!`); `Res.none` = it returns `None`;
`Res.hang` = the `while` loop of the contour walk does not terminate within `3·T + 3` iterations.
-/
namespace Model
variable {K : Type} [Num K]

/-- `u32::MAX`, the "no second face yet" mark of `Edge::faces[1]` -/
def u32Max : Nat := 4294967295

/-- `f64::EPSILON` (`crate::math::DEFAULT_EPSILON`) -/
def epsD : K := lit 1 4503599627370496

inductive Res (α : Type) where
  | ok (a : α)
  | none
  | panic
  | hang
deriving Repr

@[inline] def Res.bind {α β} (r : Res α) (f : α → Res β) : Res β :=
  match r with
  | .ok a => f a
  | .none => .none
  | .panic => .panic
  | .hang => .hang

/-- `Unit::try_new(v, min_norm)`: `sq = v.norm_squared(); if sq > min_norm * min_norm { Some(v / sq.sqrt()) } else { None }` -/
def tryNew (v : V3 K) (minNorm : K) : Option (V3 K) :=
  let sq := v.normSq
  if minNorm * minNorm < sq then some (v.sdiv (Num.sqrt sq)) else none

/-- `utils::ccw_face_normal` (3-D) -/
def ccwFaceNormal (a b c : V3 K) : Option (V3 K) := tryNew ((b.sub a).cross (c.sub a)) epsD

structure PEdge (K : Type) where
  v0 : Nat
  v1 : Nat
  f0 : Nat
  f1 : Nat
  dir : V3 K
  deleted : Bool

structure PTri (K : Type) where
  v : Nat × Nat × Nat
  e : Nat × Nat × Nat
  normal : V3 K
  parent : Option Nat
  degenerate : Bool

structure PFace (K : Type) where
  first : Nat
  num : Nat
  normal : V3 K

structure PVertex where
  first : Nat
  num : Nat

structure Poly (K : Type) where
  pts : Array (V3 K)
  vertices : Array PVertex
  faces : Array (PFace K)
  edges : Array (PEdge K)
  facesAdjToVertex : Array Nat
  edgesAdjToVertex : Array Nat
  edgesAdjToFace : Array Nat
  verticesAdjToFace : Array Nat

@[inline] def get3 (t : Nat × Nat × Nat) (i : Nat) : Nat := if i = 0 then t.1 else if i = 1 then t.2.1 else t.2.2
@[inline] def set3 (t : Nat × Nat × Nat) (i : Nat) (x : Nat) : Nat × Nat × Nat :=
  if i = 0 then (x, t.2.1, t.2.2) else if i = 1 then (t.1, x, t.2.2) else (t.1, t.2.1, x)

/-- `SortedPair::new` -/
@[inline] def sortedPair (a b : Nat) : Nat × Nat := if a ≤ b then (a, b) else (b, a)

/-- `Edge::other_triangle` -/
@[inline] def PEdge.otherTriangle (e : PEdge K) (id : Nat) : Nat := if id = e.f0 then e.f1 else e.f0

/-- `Triangle::next_edge_id`; `none` = `unreachable!()` -/
def PTri.nextEdgeId (t : PTri K) (id : Nat) : Option Nat :=
  if t.e.1 = id then some 1 else if t.e.2.1 = id then some 2 else if t.e.2.2 = id then some 0 else none

/-! ## pass 1: triangles and edges -/

structure P1State (K : Type) where
  edges : Array (PEdge K)
  tris : Array (PTri K)
  /-- `edge_map`: sorted vertex pair → edge id (only `entry` look-ups, never iterated) -/
  emap : List ((Nat × Nat) × Nat)

def emapFind (m : List ((Nat × Nat) × Nat)) (k : Nat × Nat) : Option Nat :=
  match m.find? (fun kv => kv.1.1 = k.1 ∧ kv.1.2 = k.2) with
  | some kv => some kv.2
  | none => none

/-- one iteration of `for i1 in 0..3` for the triangle `idx` with id `faceId`; the accumulator carries `edges_id` -/
def edgeSlot (pts : Array (V3 K)) (idx : Nat × Nat × Nat) (faceId : Nat)
    (acc : Array (PEdge K) × List ((Nat × Nat) × Nat) × (Nat × Nat × Nat)) (i1 : Nat) :
    Res (Array (PEdge K) × List ((Nat × Nat) × Nat) × (Nat × Nat × Nat)) :=
  let i2 := (i1 + 1) % 3
  let a := get3 idx i1
  let b := get3 idx i2
  let key := sortedPair a b
  match emapFind acc.2.1 key with
  | some eid =>
    match acc.1[eid]? with
    | Option.none => .panic
    | some edge =>
      if edge.f1 = u32Max then .ok (acc.1.set! eid { edge with f1 := faceId }, acc.2.1, set3 acc.2.2 i1 eid)
      else .none                      -- t-junction
  | Option.none =>
    match pts[b]?, pts[a]? with
    | some pb, some pa =>
      let dir := tryNew (pb.sub pa) epsD
      let e : PEdge K := { v0 := a, v1 := b, f0 := faceId, f1 := u32Max, dir := dir.getD ⟨1, 0, 0⟩, deleted := dir.isNone }
      .ok (acc.1.push e, (key, acc.1.size) :: acc.2.1, set3 acc.2.2 i1 acc.1.size)
    | _, _ => .panic

/-- body of `for idx in indices` -/
def triStep (pts : Array (V3 K)) (st : P1State K) (idx : Nat × Nat × Nat) : Res (P1State K) :=
  let faceId := st.tris.size
  if idx.1 = idx.2.1 ∨ idx.1 = idx.2.2 ∨ idx.2.1 = idx.2.2 then .none else
  (edgeSlot pts idx faceId (st.edges, st.emap, (u32Max, u32Max, u32Max)) 0).bind fun s0 =>
  (edgeSlot pts idx faceId s0 1).bind fun s1 =>
  (edgeSlot pts idx faceId s1 2).bind fun s2 =>
  match pts[idx.1]?, pts[idx.2.1]?, pts[idx.2.2]? with
  | some p0, some p1, some p2 =>
    let n := ccwFaceNormal p0 p1 p2
    let t : PTri K := { v := idx, e := s2.2.2, normal := n.getD V3.zero, parent := Option.none, degenerate := n.isNone }
    .ok { edges := s2.1, tris := st.tris.push t, emap := s2.2.1 }
  | _, _, _ => .panic

def pass1 (pts : Array (V3 K)) : List (Nat × Nat × Nat) → P1State K → Res (P1State K)
  | [], st => .ok st
  | idx :: rest, st => (triStep pts st idx).bind (pass1 pts rest)

/-! ## pass 2: edges between coplanar triangles are deleted -/

def markDeleted (tris : Array (PTri K)) (e : PEdge K) : Option (PEdge K) :=
  match tris[e.f0]?, tris[e.f1]? with
  | some t1, some t2 =>
    let eps : K := Num.sqrt epsD
    some (if (1 : K) - eps < t1.normal.dot t2.normal then { e with deleted := true } else e)
  | _, _ => none

def pass2 (tris : Array (PTri K)) (edges : Array (PEdge K)) : Option (Array (PEdge K)) :=
  edges.mapM (markDeleted tris)

/-! ## pass 3: faces by following contours -/

structure WalkState (K : Type) where
  tris : Array (PTri K)
  eaf : Array Nat
  vaf : Array Nat
  num : Nat
  cur : Nat
  ceid : Nat
  /-- corrected behaviour A: the triangles the walk passed through (a stack, last visited first) -/
  visited : List Nat

/-- the `while triangles[curr_triangle].vertices[curr_edge_id] != start_vertex` loop -/
def walk (edges : Array (PEdge K)) (startVertex newFaceId : Nat) : Nat → WalkState K → Res (WalkState K)
  | 0, _ => .hang
  | fuel + 1, s =>
    match s.tris[s.cur]? with
    | Option.none => .panic
    | some t =>
      if get3 t.v s.ceid = startVertex then .ok s else
      let currEdge := get3 t.e s.ceid
      let currVertex := get3 t.v s.ceid
      let tris := s.tris.set! s.cur { t with parent := some newFaceId }
      match edges[currEdge]? with
      | Option.none => .panic
      | some e =>
        if !e.deleted then
          walk edges startVertex newFaceId fuel
            { s with tris := tris, eaf := s.eaf.push currEdge, vaf := s.vaf.push currVertex, num := s.num + 1, ceid := (s.ceid + 1) % 3,
                     visited := s.cur :: s.visited }
        else
          let nxt := e.otherTriangle s.cur
          match tris[nxt]? with
          | Option.none => .panic
          | some t2 =>
            match t2.nextEdgeId currEdge with
            | Option.none => .panic                                   -- unreachable!()
            | some ne =>
              if get3 t2.v ne = currVertex then walk edges startVertex newFaceId fuel { s with tris := tris, cur := nxt, ceid := ne, visited := s.cur :: s.visited }
              else .panic                                             -- assert!

/-- corrected behaviour A: every triangle reachable from the stack through deleted edges and not yet assigned gets the face -/
def flood (edges : Array (PEdge K)) (newFaceId : Nat) : Nat → List Nat → Array (PTri K) → Array (PTri K)
  | 0, _, tris => tris
  | _, [], tris => tris
  | fuel + 1, t :: stack, tris =>
    match tris[t]? with
    | Option.none => flood edges newFaceId fuel stack tris
    | some tr =>
      let step (acc : List Nat × Array (PTri K)) (k : Nat) : List Nat × Array (PTri K) :=
        match edges[get3 tr.e k]? with
        | some e =>
          if e.deleted then
            let o := e.otherTriangle t
            match acc.2[o]? with
            | some ot => if ot.parent.isNone then (o :: acc.1, acc.2.set! o { ot with parent := some newFaceId }) else acc
            | Option.none => acc
          else acc
        | Option.none => acc
      let r := [0, 1, 2].foldl step (stack, tris)
      flood edges newFaceId fuel r.1 r.2

structure P3State (K : Type) where
  tris : Array (PTri K)
  faces : Array (PFace K)
  eaf : Array Nat
  vaf : Array Nat

/-- body of `for i in 0..triangles.len()`: the first non-deleted edge `j1` of an unassigned triangle starts a new face -/
def faceStep (edges : Array (PEdge K)) (st : P3State K) (i : Nat) : Res (P3State K) :=
  match st.tris[i]? with
  | Option.none => .panic
  | some t =>
    if t.parent.isSome then .ok st else
    -- `for j1 in 0..3 { if !edges[..].deleted { …; break } }`
    let firstLive : Res (Option Nat) :=
      match edges[t.e.1]?, edges[t.e.2.1]?, edges[t.e.2.2]? with
      | some e0, some e1, some e2 =>
        .ok (if !e0.deleted then some 0 else if !e1.deleted then some 1 else if !e2.deleted then some 2 else Option.none)
      | some e0, some e1, Option.none => if !e0.deleted then .ok (some 0) else if !e1.deleted then .ok (some 1) else .panic
      | some e0, Option.none, _ => if !e0.deleted then .ok (some 0) else .panic
      | Option.none, _, _ => .panic
    firstLive.bind fun fl =>
    match fl with
    | Option.none => .ok st
    | some j1 =>
      let newFaceId := st.faces.size
      let first := st.eaf.size
      let j2 := (j1 + 1) % 3
      let startVertex := get3 t.v j1
      let s0 : WalkState K := { tris := st.tris, eaf := st.eaf.push (get3 t.e j1), vaf := st.vaf.push startVertex, num := 1, cur := i, ceid := j2, visited := [] }
      (walk edges startVertex newFaceId (3 * st.tris.size + 3) s0).bind fun s =>
      if 2 < s.num then
        let tris := flood edges newFaceId (4 * st.tris.size + 4) s.visited s.tris
        .ok { tris := tris, faces := st.faces.push { first := first, num := s.num, normal := t.normal }, eaf := s.eaf, vaf := s.vaf }
      else
        .ok { tris := s.tris, faces := st.faces, eaf := s.eaf, vaf := s.vaf }

def pass3 (edges : Array (PEdge K)) : List Nat → P3State K → Res (P3State K)
  | [], st => .ok st
  | i :: rest, st => (faceStep edges st i).bind (pass3 edges rest)

/-! ## pass 4: edge → face ids -/

/-- `if let Some(fid) = triangles.get(e.faces[k])?.parent_face { e.faces[k] = fid }` -/
def rewriteFaces (tris : Array (PTri K)) (e : PEdge K) : Option (PEdge K) :=
  match tris[e.f0]? with
  | Option.none => Option.none
  | some t0 =>
    let f0 := match t0.parent with | some f => f | Option.none => e.f0
    match tris[e.f1]? with
    | Option.none => Option.none
    | some t1 =>
      let f1 := match t1.parent with | some f => f | Option.none => e.f1
      some { e with f0 := f0, f1 := f1 }

/-! ## pass 5: vertex → faces / edges (compressed rows) -/

/-- the slice `vertices_adj_to_face[first .. first + num]` (a Rust slice panics when it is out of range) -/
def faceSlice (a : Array Nat) (f : PFace K) : Option (List Nat) :=
  if f.first + f.num ≤ a.size then some ((a.extract f.first (f.first + f.num)).toList) else Option.none

/-- first loop: multiplicities -/
def countStep (vaf : Array Nat) (acc : Option (Array PVertex)) (f : PFace K) : Option (Array PVertex) :=
  acc.bind fun vs =>
  (faceSlice vaf f).bind fun sl =>
  sl.foldl (fun (acc : Option (Array PVertex)) i => acc.bind fun vs =>
    match vs[i]? with
    | some v => some (vs.set! i { v with num := v.num + 1 })
    | Option.none => Option.none) (some vs)

/-- second loop: starting offsets (prefix sums) -/
def offsets (vs : Array PVertex) : Array PVertex × Nat :=
  vs.foldl (fun (acc : Array PVertex × Nat) v => (acc.1.push { first := acc.2, num := v.num }, acc.2 + v.num)) (#[], 0)

structure FillState where
  vs : Array PVertex
  fav : Array Nat
  eav : Array Nat

/-- last loop: fill the rows -/
def fillStep (vaf eaf : Array Nat) (acc : Option FillState × Nat) (f : PFace K) : Option FillState × Nat :=
  let faceId := acc.2
  (acc.1.bind fun st =>
    if f.first + f.num ≤ vaf.size ∧ f.first + f.num ≤ eaf.size then
      (List.range f.num).foldl (fun (acc : Option FillState) k => acc.bind fun st =>
        let vid := f.first + k
        match vaf[vid]?, eaf[vid]? with
        | some vi, some ei =>
          match st.vs[vi]? with
          | some v =>
            let pos := v.first + v.num
            if pos < st.fav.size then
              some { vs := st.vs.set! vi { v with num := v.num + 1 }, fav := st.fav.set! pos faceId, eav := st.eav.set! pos ei }
            else Option.none
          | Option.none => Option.none
        | _, _ => Option.none) (some st)
    else Option.none, faceId + 1)

/-- `ConvexPolyhedron::from_convex_mesh` -/
def fromConvexMesh (pts : Array (V3 K)) (indices : List (Nat × Nat × Nat)) : Res (Poly K) :=
  if pts.size + indices.length ≤ 2 then .none else
  (pass1 pts indices { edges := #[], tris := #[], emap := [] }).bind fun s1 =>
  match pass2 s1.tris s1.edges with
  | Option.none => .none
  | some edges =>
    (pass3 edges (List.range s1.tris.size) { tris := s1.tris, faces := #[], eaf := #[], vaf := #[] }).bind fun s3 =>
    match edges.mapM (rewriteFaces s3.tris) with
    | Option.none => .none
    | some edges4 =>
      let vs0 : Array PVertex := Array.replicate pts.size { first := 0, num := 0 }
      match s3.faces.foldl (countStep s3.vaf) (some vs0) with
      | Option.none => .panic
      | some counted =>
        let (withOff, total) := offsets counted
        let st0 : FillState := { vs := withOff.map (fun v => { v with num := 0 }), fav := Array.replicate total 0, eav := Array.replicate total 0 }
        match (s3.faces.foldl (fillStep s3.vaf s3.eaf) (some st0, 0)).1 with
        | Option.none => .panic
        | some fin =>
          .ok { pts := pts, vertices := fin.vs, faces := s3.faces, edges := edges4, facesAdjToVertex := fin.fav,
                edgesAdjToVertex := fin.eav, edgesAdjToFace := s3.eaf, verticesAdjToFace := s3.vaf }

/-! ## `feature_normal` -/

/-- `Unit::new_normalize(v)` = `v / v.norm()` -/
def newNormalize (v : V3 K) : V3 K := v.sdiv v.norm

/-- `feature_normal(FeatureId::Face(id))`; `none` = index panic -/
def faceNormal (p : Poly K) (id : Nat) : Option (V3 K) := (p.faces[id]?).map (·.normal)

/-- closed form of the edge normal: the normalised sum of the two face normals -/
def edgeNormalOf (n0 n1 : V3 K) : V3 K := newNormalize (n0.add n1)

/-- `feature_normal(FeatureId::Edge(id))`; `none` = index panic -/
def edgeNormal (p : Poly K) (id : Nat) : Option (V3 K) :=
  match p.edges[id]? with
  | Option.none => Option.none
  | some e =>
    match p.faces[e.f0]?, p.faces[e.f1]? with
    | some a, some b => some (edgeNormalOf a.normal b.normal)
    | _, _ => Option.none

/-- closed form of the vertex normal (corrected behaviour B): `Unit::try_new(Σ normals, DEFAULT_EPSILON)` -/
def vertexNormalOf (ns : List (V3 K)) : Option (V3 K) := tryNew (ns.foldl V3.add V3.zero) epsD

/-- `feature_normal(FeatureId::Vertex(id))`; outer `none` = index panic, inner `none` = `None` -/
def vertexNormal (p : Poly K) (id : Nat) : Option (Option (V3 K)) :=
  match p.vertices[id]? with
  | Option.none => Option.none
  | some v =>
    if v.first + v.num ≤ p.facesAdjToVertex.size then
      let fs := (p.facesAdjToVertex.extract v.first (v.first + v.num)).toList
      match fs.mapM (fun f => (p.faces[f]?).map (·.normal)) with
      | Option.none => Option.none
      | some ns => some (vertexNormalOf ns)
    else Option.none

end Model
