import ParryModel.Field
import ParryModel.C12.Lemmas2
import Mathlib.Data.Fintype.Pigeonhole
/-! # C12 helper lemmas, part 3: the orbit of the `next` pointer and the final walk of `convex_hull2_idx`. -/
namespace C12
open Model
variable {K : Type}

/-- `segments[x].next` (0 if out of range) -/
def nxt (segs : Array (SegFacet K)) (x : Nat) : Nat := (segs[x]?.map (·.next)).getD 0
/-- `t`-fold `next` -/
def nxtIter (segs : Array (SegFacet K)) : Nat → Nat → Nat
  | 0, x => x
  | t + 1, x => nxt segs (nxtIter segs t x)

theorem nxt_live {st : HullState K} {live : Nat → Prop} (h : ChainOK st live) (x : Nat) (hx : live x) :
    live (nxt st.segs x) ∧ (st.segs[nxt st.segs x]?.map (·.prev)) = some x := by
  obtain ⟨g, hg⟩ : ∃ g, st.segs[x]? = some g := ⟨_, Array.getElem?_eq_getElem (h.lt x hx)⟩
  obtain ⟨hn, _, _, ⟨gn, hgn, hp, _⟩, _⟩ := h.link x g hx hg
  simp only [nxt, hg, Option.map_some, Option.getD_some]
  exact ⟨hn, by rw [hgn]; simp [hp]⟩

theorem nxt_inj {st : HullState K} {live : Nat → Prop} (h : ChainOK st live) (a b : Nat) (ha : live a) (hb : live b)
    (e : nxt st.segs a = nxt st.segs b) : a = b := by
  have h1 := (nxt_live h a ha).2
  have h2 := (nxt_live h b hb).2
  rw [e, h2] at h1
  exact (Option.some.inj h1).symm

theorem nxtIter_live {st : HullState K} {live : Nat → Prop} (h : ChainOK st live) (x : Nat) (hx : live x) (t : Nat) :
    live (nxtIter st.segs t x) := by
  induction t with
  | zero => exact hx
  | succ t ih => exact (nxt_live h _ ih).1

theorem nxtIter_cancel {st : HullState K} {live : Nat → Prop} (h : ChainOK st live) (x : Nat) (hx : live x) (a d : Nat)
    (e : nxtIter st.segs a x = nxtIter st.segs (a + d) x) : x = nxtIter st.segs d x := by
  induction a with
  | zero => rw [Nat.zero_add] at e; exact e
  | succ a ih =>
    apply ih
    have : a + 1 + d = (a + d) + 1 := by omega
    rw [this] at e
    exact nxt_inj h _ _ (nxtIter_live h x hx a) (nxtIter_live h x hx (a + d)) e

/-- following `next` from a live facet comes back to it within `segs.size` steps -/
theorem nxtIter_period {st : HullState K} {live : Nat → Prop} (h : ChainOK st live) (x : Nat) (hx : live x) :
    ∃ m, 0 < m ∧ m ≤ st.segs.size ∧ nxtIter st.segs m x = x := by
  let f : Fin (st.segs.size + 1) → Fin st.segs.size := fun t => ⟨nxtIter st.segs t.1 x, h.lt _ (nxtIter_live h x hx t.1)⟩
  obtain ⟨a, b, hab, e⟩ := Fintype.exists_ne_map_eq_of_card_lt f (by simp)
  have e' : nxtIter st.segs a.1 x = nxtIter st.segs b.1 x := congrArg Fin.val e
  rcases Nat.lt_or_gt_of_ne (fun hh => hab (Fin.ext hh)) with hlt | hlt
  · refine ⟨b.1 - a.1, by omega, by omega, ?_⟩
    have := nxtIter_cancel h x hx a.1 (b.1 - a.1) (by rw [e']; congr 1; omega)
    exact this.symm
  · refine ⟨a.1 - b.1, by omega, by omega, ?_⟩
    have := nxtIter_cancel h x hx b.1 (a.1 - b.1) (by rw [← e']; congr 1; omega)
    exact this.symm

/-- what the final `loop` of `convex_hull2_idx` pushes during `c` iterations starting at facet `x` -/
def walkList (segs : Array (SegFacet K)) : Nat → Nat → List Nat
  | 0, _ => []
  | c + 1, x => (match segs[x]? with
      | some g => if g.valid then [g.p0] else []
      | none => []) ++ walkList segs c (nxt segs x)

theorem hullWalk_eq_walkList (segs : Array (SegFacet K)) (first m : Nat)
    (hm : nxtIter segs m first = first) (hmin : ∀ j, 0 < j → j < m → nxtIter segs j first ≠ first)
    (hin : ∀ t, ∃ g, segs[nxtIter segs t first]? = some g) (d : Nat) (hd : d < m) (fuel : Nat) (hfuel : d < fuel)
    (acc : List Nat) :
    hullWalk segs first fuel (nxtIter segs (m - (d + 1)) first) acc =
      acc ++ walkList segs (d + 1) (nxtIter segs (m - (d + 1)) first) := by
  induction d generalizing fuel acc with
  | zero =>
    obtain ⟨fuel, rfl⟩ : ∃ f', fuel = f' + 1 := ⟨fuel - 1, by omega⟩
    obtain ⟨g, hg⟩ := hin (m - 1)
    have hnext : g.next = first := by
      have : nxtIter segs (m - 1 + 1) first = first := by rw [show m - 1 + 1 = m by omega]; exact hm
      simpa [nxtIter, nxt, hg] using this
    simp only [hullWalk, walkList, hg, hnext, if_true, List.append_nil, Nat.zero_add]
    split <;> simp
  | succ d ih =>
    obtain ⟨fuel, rfl⟩ : ∃ f', fuel = f' + 1 := ⟨fuel - 1, by omega⟩
    obtain ⟨g, hg⟩ := hin (m - (d + 1 + 1))
    have hstep : nxtIter segs (m - (d + 1)) first = g.next := by
      rw [show m - (d + 1) = (m - (d + 1 + 1)) + 1 by omega]
      simp [nxtIter, nxt, hg]
    have hne : g.next ≠ first := by
      rw [← hstep]; exact hmin _ (by omega) (by omega)
    rw [hullWalk, walkList]
    simp only [hg, hne, if_false]
    have hn : nxt segs (nxtIter segs (m - (d + 1 + 1)) first) = g.next := by simp [nxt, hg]
    rw [hn, ← hstep, ih (by omega) fuel (by omega)]
    split <;> simp

theorem nxtIter_succ' (segs : Array (SegFacet K)) (t x : Nat) : nxtIter segs (t + 1) x = nxtIter segs t (nxt segs x) := by
  induction t with
  | zero => rfl
  | succ t ih => rw [nxtIter, ih]; rfl

/-- the vertex pushed when the walk visits facet `x`, if any -/
def pushed (segs : Array (SegFacet K)) (x : Nat) : Option Nat := (segs[x]?).bind (fun g => if g.valid then some g.p0 else none)

theorem walkList_eq (segs : Array (SegFacet K)) (c x : Nat) :
    walkList segs c x = (List.range c).filterMap (fun t => pushed segs (nxtIter segs t x)) := by
  induction c generalizing x with
  | zero => rfl
  | succ c ih =>
    rw [walkList, ih, List.range_succ_eq_map, List.filterMap_cons, List.filterMap_map]
    have : (fun t => pushed segs (nxtIter segs t (nxt segs x))) = (fun t => pushed segs (nxtIter segs t x)) ∘ Nat.succ := by
      funext t; simp [nxtIter_succ']
    rw [this]
    simp only [nxtIter, pushed]
    cases segs[x]? with
    | none => simp
    | some g => by_cases hv : g.valid = true <;> simp [hv]

/-- **the final walk returns to its starting facet**: from a live facet `first`, there is a minimal `m` with `1 ≤ m ≤ segs.size`
and `next^m first = first`; the walk with fuel `segs.size + 1` stops after exactly `m` iterations because
`curr_facet == first_facet`, visits `m` pairwise distinct live facets and pushes `p0` of the valid ones, in order. -/
theorem hullWalk_returns {st : HullState K} {live : Nat → Prop} (h : ChainOK st live) (first : Nat) (hf : live first) :
    ∃ m, 0 < m ∧ m ≤ st.segs.size ∧ nxtIter st.segs m first = first ∧
      (∀ j, 0 < j → j < m → nxtIter st.segs j first ≠ first) ∧
      (∀ a b, a < m → b < m → nxtIter st.segs a first = nxtIter st.segs b first → a = b) ∧
      hullWalk st.segs first (st.segs.size + 1) first [] =
        (List.range m).filterMap (fun t => pushed st.segs (nxtIter st.segs t first)) := by
  have hex := nxtIter_period h first hf
  have hex' : ∃ m, 0 < m ∧ nxtIter st.segs m first = first := by
    obtain ⟨m, a, _, c⟩ := hex; exact ⟨m, a, c⟩
  obtain ⟨m1, hm1, hm1s, hm1e⟩ := hex
  let m := Nat.find hex'
  have hspec : 0 < m ∧ nxtIter st.segs m first = first := Nat.find_spec hex'
  have hle : m ≤ m1 := Nat.find_min' hex' ⟨hm1, hm1e⟩
  have hmin : ∀ j, 0 < j → j < m → nxtIter st.segs j first ≠ first := by
    intro j hj hjm e
    exact Nat.find_min hex' hjm ⟨hj, e⟩
  have hin : ∀ t, ∃ g, st.segs[nxtIter st.segs t first]? = some g :=
    fun t => ⟨_, Array.getElem?_eq_getElem (h.lt _ (nxtIter_live h first hf t))⟩
  refine ⟨m, hspec.1, by omega, hspec.2, hmin, ?_, ?_⟩
  · intro a b ha hb e
    by_contra hne
    rcases Nat.lt_or_gt_of_ne hne with hlt | hlt
    · have := nxtIter_cancel h first hf a (b - a) (by rw [e]; congr 1; omega)
      exact hmin (b - a) (by omega) (by omega) this.symm
    · have := nxtIter_cancel h first hf b (a - b) (by rw [← e]; congr 1; omega)
      exact hmin (a - b) (by omega) (by omega) this.symm
  · have := hullWalk_eq_walkList st.segs first m hspec.2 hmin hin (m - 1) (by omega) (st.segs.size + 1) (by omega) []
    rw [show m - (m - 1 + 1) = 0 by omega, show m - 1 + 1 = m by omega] at this
    simp only [nxtIter, List.nil_append] at this
    rw [this, walkList_eq]
end C12
