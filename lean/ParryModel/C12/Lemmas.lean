import ParryModel.C12.Model
/-! # C12 helper lemmas (core Lean only): loop bodies of the 2-D quickhull in closed / invariant form. -/
namespace C12
open Model
variable {K : Type} [Num K]
set_option linter.unusedSectionVars false

theorem support_fold_mem (dir : V2 K) (pts : Array (V2 K)) (idx : List Nat) (acc : Option Nat × K) (j : Nat)
    (h : (idx.foldl (supportStep dir pts) acc).1 = some j) : (j ∈ idx ∧ j < pts.size) ∨ acc.1 = some j := by
  induction idx generalizing acc with
  | nil => exact Or.inr h
  | cons i is ih =>
    simp only [List.foldl_cons] at h
    rcases ih _ h with ⟨hm, hl⟩ | h'
    · exact Or.inl ⟨List.mem_cons_of_mem _ hm, hl⟩
    · unfold supportStep at h'
      split at h'
      · exact Or.inr h'
      · rename_i p hp
        simp only at h'
        split at h'
        · cases h'; exact Or.inl ⟨List.mem_cons_self, (Array.getElem?_eq_some_iff.mp hp).1⟩
        · exact Or.inr h'

def swapRemove (a : Array Nat) (i : Nat) : Array Nat := (a.set! i (a.back?.getD 0)).pop

theorem swapRemove_size (a : Array Nat) (i : Nat) : (swapRemove a i).size = a.size - 1 := by
  simp [swapRemove]

theorem swapRemove_getElem? (a : Array Nat) (i k : Nat) (hi : i < a.size) :
    (swapRemove a i)[k]? = if k < a.size - 1 then (if k = i then a[a.size - 1]? else a[k]?) else none := by
  simp [swapRemove, Array.getElem?_pop, Array.getElem?_setIfInBounds, Array.back?]
  have : a[a.size - 1]? = some a[a.size - 1] := Array.getElem?_eq_getElem (by omega)
  grind

theorem swapRemove_sub (a : Array Nat) (i : Nat) (hi : i < a.size) : ∀ x ∈ swapRemove a i, x ∈ a := by
  intro x hx
  obtain ⟨k, hk, rfl⟩ := Array.mem_iff_getElem.mp hx
  have h := swapRemove_getElem? a i k hi
  rw [Array.getElem?_eq_getElem hk] at h
  rw [swapRemove_size] at hk
  simp only [hk, if_true] at h
  split at h
  · exact Array.mem_of_getElem? h.symm
  · exact Array.mem_of_getElem? h.symm

theorem swapRemove_sup (a : Array Nat) (i : Nat) (hi : i < a.size) : ∀ x ∈ a, x = a[i] ∨ x ∈ swapRemove a i := by
  intro x hx
  obtain ⟨k, hk, rfl⟩ := Array.mem_iff_getElem.mp hx
  by_cases hki : k = i
  · subst hki; exact Or.inl rfl
  · right
    by_cases hl : k < a.size - 1
    · have h := swapRemove_getElem? a i k hi
      simp only [hl, hki, if_true, if_false] at h
      rw [Array.getElem?_eq_getElem hk] at h
      exact Array.mem_of_getElem? h
    · have hk' : k = a.size - 1 := by omega
      have h := swapRemove_getElem? a i i hi
      have : i < a.size - 1 := by omega
      simp only [this, if_true] at h
      subst hk'
      rw [Array.getElem?_eq_getElem hk] at h
      exact Array.mem_of_getElem? h

/-- `f` with the points `ext` pushed (in order) onto its `visible_points`; nothing else changes -/
def withVis (f : SegFacet K) (ext : List Nat) : SegFacet K := { f with visible := f.visible ++ ext }

theorem withVis_nil (f : SegFacet K) : withVis f [] = f := by simp [withVis]
theorem withVis_withVis (f : SegFacet K) (a b : List Nat) : withVis (withVis f a) b = withVis f (a ++ b) := by
  simp [withVis, List.append_assoc]
theorem pushVis_eq (f : SegFacet K) (v : Nat) : f.pushVis v = withVis f [v] := rfl
theorem withVis_seen (f : SegFacet K) (e : List Nat) (eps100 : K) (v : Nat) (pts : Array (V2 K)) :
    (withVis f e).canBeSeenBy eps100 v pts = f.canBeSeenBy eps100 v pts := rfl


/-- what the undecidable-point loop (started at position `i`) guarantees about its result `r = (und', f1', f2')` -/
def UndSpec (eps100 : K) (pts : Array (V2 K)) (i : Nat) (enough : Prop) (und : Array Nat) (f1 f2 : SegFacet K)
    (r : Array Nat × SegFacet K × SegFacet K) : Prop :=
  ∃ e1 e2 : List Nat,
    r.2.1 = withVis f1 e1 ∧ r.2.2 = withVis f2 e2 ∧
    (∀ v ∈ e1, v ∈ und ∧ f1.canBeSeenBy eps100 v pts = true) ∧
    (∀ v ∈ e2, v ∈ und ∧ f2.canBeSeenBy eps100 v pts = true ∧ f1.canBeSeenBy eps100 v pts = false) ∧
    (∀ v ∈ r.1, v ∈ und) ∧
    (∀ v ∈ und, v ∈ e1 ∨ v ∈ e2 ∨ v ∈ r.1) ∧
    e1.length + e2.length + r.1.size = und.size ∧
    (∀ k, k < i → r.1[k]? = und[k]?) ∧
    (enough → ∀ k u, i ≤ k → r.1[k]? = some u →
      f1.canBeSeenBy eps100 u pts = false ∧ f2.canBeSeenBy eps100 u pts = false)

theorem undSpec_exit (eps100 : K) (pts : Array (V2 K)) (i : Nat) (enough : Prop) (und : Array Nat) (f1 f2 : SegFacet K)
    (h : enough → und.size ≤ i) : UndSpec eps100 pts i enough und f1 f2 (und, f1, f2) := by
  refine ⟨[], [], by simp [withVis_nil], by simp [withVis_nil], by simp, by simp, fun v h => h,
    fun v h => Or.inr (Or.inr h), by simp, fun _ _ => rfl, ?_⟩
  intro he k u hk hu
  have := (Array.getElem?_eq_some_iff.mp hu).1
  have := h he
  simp only at *
  omega

theorem assignUndecidable_spec (eps100 : K) (pts : Array (V2 K)) (fuel i : Nat) (und : Array Nat) (f1 f2 : SegFacet K) :
    UndSpec eps100 pts i (und.size < fuel + i) und f1 f2 (assignUndecidable eps100 pts fuel i und f1 f2) := by
  induction fuel generalizing i und f1 f2 with
  | zero =>
    simp only [assignUndecidable]
    exact undSpec_exit _ _ _ _ _ _ _ (by omega)
  | succ fuel ih =>
    unfold assignUndecidable
    by_cases hi : i ≥ und.size
    · simp only [hi, if_true]
      exact undSpec_exit _ _ _ _ _ _ _ (fun _ => hi)
    · simp only [hi, if_false]
      have hi' : i < und.size := by omega
      have hu : und[i]?.getD 0 = und[i] := by simp [Array.getElem?_eq_getElem hi']
      rw [hu]
      have hsr : (und.set! i (und.back?.getD 0)).pop = swapRemove und i := rfl
      rw [hsr]
      have hmem : und[i] ∈ und := Array.getElem_mem hi'
      have hsz := swapRemove_size und i
      by_cases h1 : f1.canBeSeenBy eps100 und[i] pts = true
      · simp only [h1, if_true]
        obtain ⟨e1, e2, a1, a2, a3, a4, a5, a6, a7, a8, a9⟩ := ih i (swapRemove und i) (f1.pushVis und[i]) f2
        refine ⟨und[i] :: e1, e2, ?_, a2, ?_, ?_, ?_, ?_, ?_, ?_, ?_⟩
        · rw [a1, pushVis_eq, withVis_withVis]; rfl
        · intro v hv
          rcases List.mem_cons.mp hv with rfl | hv
          · exact ⟨hmem, h1⟩
          · exact ⟨swapRemove_sub und i hi' v (a3 v hv).1, (a3 v hv).2⟩
        · intro v hv
          exact ⟨swapRemove_sub und i hi' v (a4 v hv).1, (a4 v hv).2⟩
        · intro v hv; exact swapRemove_sub und i hi' v (a5 v hv)
        · intro v hv
          rcases swapRemove_sup und i hi' v hv with rfl | hv
          · exact Or.inl List.mem_cons_self
          · rcases a6 v hv with h | h | h
            · exact Or.inl (List.mem_cons_of_mem _ h)
            · exact Or.inr (Or.inl h)
            · exact Or.inr (Or.inr h)
        · simp only [List.length_cons]; omega
        · intro k hk
          rw [a8 k hk, swapRemove_getElem? und i k hi']
          have : k < und.size - 1 := by omega
          have : k ≠ i := by omega
          simp [*]
        · intro he k u hk hu
          exact a9 (by omega) k u hk hu
      · have h1f : f1.canBeSeenBy eps100 und[i] pts = false := by simpa using h1
        simp only [h1f, Bool.false_eq_true, if_false]
        by_cases h2 : f2.canBeSeenBy eps100 und[i] pts = true
        · simp only [h2, if_true]
          obtain ⟨e1, e2, a1, a2, a3, a4, a5, a6, a7, a8, a9⟩ := ih i (swapRemove und i) f1 (f2.pushVis und[i])
          refine ⟨e1, und[i] :: e2, a1, ?_, ?_, ?_, ?_, ?_, ?_, ?_, ?_⟩
          · rw [a2, pushVis_eq, withVis_withVis]; rfl
          · intro v hv
            exact ⟨swapRemove_sub und i hi' v (a3 v hv).1, (a3 v hv).2⟩
          · intro v hv
            rcases List.mem_cons.mp hv with rfl | hv
            · exact ⟨hmem, h2, h1f⟩
            · exact ⟨swapRemove_sub und i hi' v (a4 v hv).1, (a4 v hv).2⟩
          · intro v hv; exact swapRemove_sub und i hi' v (a5 v hv)
          · intro v hv
            rcases swapRemove_sup und i hi' v hv with rfl | hv
            · exact Or.inr (Or.inl List.mem_cons_self)
            · rcases a6 v hv with h | h | h
              · exact Or.inl h
              · exact Or.inr (Or.inl (List.mem_cons_of_mem _ h))
              · exact Or.inr (Or.inr h)
          · simp only [List.length_cons]; omega
          · intro k hk
            rw [a8 k hk, swapRemove_getElem? und i k hi']
            have : k < und.size - 1 := by omega
            have : k ≠ i := by omega
            simp [*]
          · intro he k u hk hu
            exact a9 (by omega) k u hk hu
        · have h2f : f2.canBeSeenBy eps100 und[i] pts = false := by simpa using h2
          simp only [h2f, Bool.false_eq_true, if_false]
          obtain ⟨e1, e2, a1, a2, a3, a4, a5, a6, a7, a8, a9⟩ := ih (i + 1) und f1 f2
          refine ⟨e1, e2, a1, a2, a3, a4, a5, a6, a7, fun k hk => a8 k (by omega), ?_⟩
          intro he k u hk hu
          by_cases hki : k = i
          · subst hki
            rw [a8 k (by omega), Array.getElem?_eq_getElem hi'] at hu
            cases hu
            exact ⟨h1f, h2f⟩
          · exact a9 (by omega) k u (by omega) hu
/-- points of the removed facet that go to the first new facet -/
def sel1 (eps100 : K) (pts : Array (V2 K)) (point : Nat) (f1 : SegFacet K) (v : Nat) : Bool :=
  v != point && f1.canBeSeenBy eps100 v pts
/-- points of the removed facet that go to the second new facet -/
def sel2 (eps100 : K) (pts : Array (V2 K)) (point : Nat) (f1 f2 : SegFacet K) (v : Nat) : Bool :=
  v != point && !f1.canBeSeenBy eps100 v pts && f2.canBeSeenBy eps100 v pts

theorem assign_fold (eps100 : K) (pts : Array (V2 K)) (point : Nat) (vis : List Nat) (f1 f2 : SegFacet K) :
    vis.foldl (assignStep eps100 pts point) (f1, f2) =
      (withVis f1 (vis.filter (sel1 eps100 pts point f1)), withVis f2 (vis.filter (sel2 eps100 pts point f1 f2))) := by
  induction vis generalizing f1 f2 with
  | nil => simp [withVis_nil]
  | cons v vs ih =>
    simp only [List.foldl_cons]
    by_cases hv : v = point
    · rw [show assignStep eps100 pts point (f1, f2) v = (f1, f2) by simp [assignStep, hv]]
      subst hv
      rw [ih]
      simp [sel1, sel2]
    · by_cases h1 : f1.canBeSeenBy eps100 v pts = true
      · rw [show assignStep eps100 pts point (f1, f2) v = (f1.pushVis v, f2) by simp [assignStep, hv, h1]]
        rw [ih, pushVis_eq, withVis_withVis]
        have e1 : sel1 eps100 pts point (withVis f1 [v]) = sel1 eps100 pts point f1 := rfl
        have e2 : sel2 eps100 pts point (withVis f1 [v]) f2 = sel2 eps100 pts point f1 f2 := rfl
        rw [e1, e2]
        simp [sel1, sel2, hv, h1]
      · have h1f : f1.canBeSeenBy eps100 v pts = false := by simpa using h1
        by_cases h2 : f2.canBeSeenBy eps100 v pts = true
        · rw [show assignStep eps100 pts point (f1, f2) v = (f1, f2.pushVis v) by simp [assignStep, hv, h1f, h2]]
          rw [ih, pushVis_eq, withVis_withVis]
          have e2 : sel2 eps100 pts point f1 (withVis f2 [v]) = sel2 eps100 pts point f1 f2 := rfl
          rw [e2]
          simp [sel1, sel2, hv, h1f, h2]
        · have h2f : f2.canBeSeenBy eps100 v pts = false := by simpa using h2
          rw [show assignStep eps100 pts point (f1, f2) v = (f1, f2) by simp [assignStep, hv, h1f, h2f]]
          rw [ih]
          simp [sel1, sel2, h1f, h2f]

def isel1 (eps100 : K) (pts : Array (V2 K)) (p1 p2 : Nat) (f1 : SegFacet K) (v : Nat) : Bool :=
  v != p1 && v != p2 && f1.canBeSeenBy eps100 v pts
def isel2 (eps100 : K) (pts : Array (V2 K)) (p1 p2 : Nat) (f1 f2 : SegFacet K) (v : Nat) : Bool :=
  v != p1 && v != p2 && !f1.canBeSeenBy eps100 v pts && f2.canBeSeenBy eps100 v pts
def isel3 (eps100 : K) (pts : Array (V2 K)) (p1 p2 : Nat) (f1 f2 : SegFacet K) (v : Nat) : Bool :=
  v != p1 && v != p2 && !f1.canBeSeenBy eps100 v pts && !f2.canBeSeenBy eps100 v pts

theorem init_fold (eps100 : K) (pts : Array (V2 K)) (p1 p2 : Nat) (l : List Nat) (f1 f2 : SegFacet K) (und : Array Nat) :
    l.foldl (initStep eps100 pts p1 p2) (f1, f2, und) =
      (withVis f1 (l.filter (isel1 eps100 pts p1 p2 f1)), withVis f2 (l.filter (isel2 eps100 pts p1 p2 f1 f2)),
       und ++ (l.filter (isel3 eps100 pts p1 p2 f1 f2)).toArray) := by
  induction l generalizing f1 f2 und with
  | nil => simp [withVis_nil]
  | cons v vs ih =>
    simp only [List.foldl_cons]
    by_cases hv : v = p1 ∨ v = p2
    · rw [show initStep eps100 pts p1 p2 (f1, f2, und) v = (f1, f2, und) by simp [initStep, hv]]
      rw [ih]
      have : (v != p1 && v != p2) = false := by rcases hv with h | h <;> simp [h]
      simp [isel1, isel2, isel3, this]
    · have hv' : (v != p1 && v != p2) = true := by simp at hv ⊢; exact hv
      by_cases h1 : f1.canBeSeenBy eps100 v pts = true
      · rw [show initStep eps100 pts p1 p2 (f1, f2, und) v = (f1.pushVis v, f2, und) by simp [initStep, hv, h1]]
        rw [ih, pushVis_eq, withVis_withVis]
        have e1 : isel1 eps100 pts p1 p2 (withVis f1 [v]) = isel1 eps100 pts p1 p2 f1 := rfl
        have e2 : isel2 eps100 pts p1 p2 (withVis f1 [v]) f2 = isel2 eps100 pts p1 p2 f1 f2 := rfl
        have e3 : isel3 eps100 pts p1 p2 (withVis f1 [v]) f2 = isel3 eps100 pts p1 p2 f1 f2 := rfl
        rw [e1, e2, e3]
        simp [isel1, isel2, isel3, hv', h1]
      · have h1f : f1.canBeSeenBy eps100 v pts = false := by simpa using h1
        by_cases h2 : f2.canBeSeenBy eps100 v pts = true
        · rw [show initStep eps100 pts p1 p2 (f1, f2, und) v = (f1, f2.pushVis v, und) by simp [initStep, hv, h1f, h2]]
          rw [ih, pushVis_eq, withVis_withVis]
          have e2 : isel2 eps100 pts p1 p2 f1 (withVis f2 [v]) = isel2 eps100 pts p1 p2 f1 f2 := rfl
          have e3 : isel3 eps100 pts p1 p2 f1 (withVis f2 [v]) = isel3 eps100 pts p1 p2 f1 f2 := rfl
          rw [e2, e3]
          simp [isel1, isel2, isel3, hv', h1f, h2]
        · have h2f : f2.canBeSeenBy eps100 v pts = false := by simpa using h2
          rw [show initStep eps100 pts p1 p2 (f1, f2, und) v = (f1, f2, und.push v) by simp [initStep, hv, h1f, h2f]]
          rw [ih]
          simp [isel1, isel2, isel3, hv', h1f, h2f]
/-- the two link updates of `attach_and_push_facets2`: `segments[prev].next = id1; segments[next].prev = id2` -/
def relink (S : Array (SegFacet K)) (prevF nextF : Nat) : Array (SegFacet K) :=
  (S.modify prevF (fun f => { f with next := S.size })).modify nextF (fun f => { f with prev := S.size + 1 })

theorem relink_size (S : Array (SegFacet K)) (a b : Nat) : (relink S a b).size = S.size := by simp [relink]

theorem relink_get (S : Array (SegFacet K)) (a b k : Nat) :
    (relink S a b)[k]? = (S[k]?).map (fun g =>
      { g with next := if k = a then S.size else g.next, prev := if k = b then S.size + 1 else g.prev }) := by
  simp only [relink, Array.getElem?_modify]
  cases S[k]? <;> by_cases h1 : a = k <;> by_cases h2 : b = k <;> simp [h1, h2, eq_comm]

/-- first new facet of `attach_and_push_facets2` as built by `SegmentFacet::new` (no visible points yet) -/
def newF1 (pts : Array (V2 K)) (st : HullState K) (prevF point : Nat) : SegFacet K :=
  SegFacet.new ((st.segs[prevF]?.map (·.p1)).getD 0) point prevF (st.segs.size + 1) pts
/-- second new facet -/
def newF2 (pts : Array (V2 K)) (st : HullState K) (nextF point : Nat) : SegFacet K :=
  SegFacet.new point ((st.segs[nextF]?.map (·.p0)).getD 0) st.segs.size nextF pts
/-- `segments[k].visible_points` (empty if out of range) -/
def visOf (st : HullState K) (k : Nat) : List Nat := (st.segs[k]?.map (·.visible)).getD []

theorem filter_disjoint_length {α : Type} (l : List α) (p q r : α → Bool)
    (hp : ∀ x, p x = true → r x = true) (hq : ∀ x, q x = true → r x = true) (hpq : ∀ x, p x = true → q x = false) :
    (l.filter p).length + (l.filter q).length ≤ (l.filter r).length := by
  induction l with
  | nil => simp
  | cons a l ih =>
    simp only [List.filter_cons]
    have h1 := hp a; have h2 := hq a; have h3 := hpq a
    cases hpa : p a <;> cases hqa : q a <;> cases hra : r a <;> simp_all <;> omega

/-- everything `attach_and_push_facets2` guarantees about the points `e1`, `e2` it gives to the two new facets and about the
new undecidable list `und'` -/
def AttachProps (eps100 : K) (pts : Array (V2 K)) (st : HullState K) (prevF nextF point removed : Nat)
    (e1 e2 : List Nat) (und' : Array Nat) : Prop :=
  (∀ v ∈ e1, ((v ∈ visOf st removed ∧ v ≠ point) ∨ v ∈ st.und) ∧ (newF1 pts st prevF point).canBeSeenBy eps100 v pts = true) ∧
  (∀ v ∈ e2, ((v ∈ visOf st removed ∧ v ≠ point) ∨ v ∈ st.und) ∧ (newF2 pts st nextF point).canBeSeenBy eps100 v pts = true ∧
      (newF1 pts st prevF point).canBeSeenBy eps100 v pts = false) ∧
  (∀ u ∈ und', u ∈ st.und ∧ (newF1 pts st prevF point).canBeSeenBy eps100 u pts = false ∧
      (newF2 pts st nextF point).canBeSeenBy eps100 u pts = false) ∧
  (∀ u ∈ st.und, u ∈ e1 ∨ u ∈ e2 ∨ u ∈ und') ∧
  (∀ v ∈ visOf st removed, v ≠ point → v ∈ e1 ∨ v ∈ e2 ∨
      ((newF1 pts st prevF point).canBeSeenBy eps100 v pts = false ∧ (newF2 pts st nextF point).canBeSeenBy eps100 v pts = false)) ∧
  e1.length + e2.length + und'.size ≤ ((visOf st removed).filter (· != point)).length + st.und.size

theorem attach_spec (eps100 : K) (pts : Array (V2 K)) (st : HullState K) (prevF nextF point removed : Nat) :
    ∃ (e1 e2 : List Nat) (und' : Array Nat),
      attach eps100 pts st prevF nextF point removed =
        { segs := ((relink st.segs prevF nextF).push (withVis (newF1 pts st prevF point) e1)).push
                    (withVis (newF2 pts st nextF point) e2), und := und' } ∧
      AttachProps eps100 pts st prevF nextF point removed e1 e2 und' := by
  have hvis : (((relink st.segs prevF nextF)[removed]?).map (·.visible)).getD [] = visOf st removed := by
    rw [relink_get, visOf]; cases st.segs[removed]? <;> rfl
  have h0 : attach eps100 pts st prevF nextF point removed =
      { segs := ((relink st.segs prevF nextF).push (assignUndecidable eps100 pts (st.und.size + 1) 0 st.und
            ((visOf st removed).foldl (assignStep eps100 pts point) (newF1 pts st prevF point, newF2 pts st nextF point)).1
            ((visOf st removed).foldl (assignStep eps100 pts point) (newF1 pts st prevF point, newF2 pts st nextF point)).2).2.1).push
            (assignUndecidable eps100 pts (st.und.size + 1) 0 st.und
            ((visOf st removed).foldl (assignStep eps100 pts point) (newF1 pts st prevF point, newF2 pts st nextF point)).1
            ((visOf st removed).foldl (assignStep eps100 pts point) (newF1 pts st prevF point, newF2 pts st nextF point)).2).2.2,
        und := (assignUndecidable eps100 pts (st.und.size + 1) 0 st.und
            ((visOf st removed).foldl (assignStep eps100 pts point) (newF1 pts st prevF point, newF2 pts st nextF point)).1
            ((visOf st removed).foldl (assignStep eps100 pts point) (newF1 pts st prevF point, newF2 pts st nextF point)).2).1 } := by
    simp only [attach, ← hvis]; rfl
  rw [h0, assign_fold]
  unfold AttachProps
  generalize newF1 pts st prevF point = N1
  generalize newF2 pts st nextF point = N2
  generalize visOf st removed = vis
  obtain ⟨b1, b2, c1, c2, c3, c4, c5, c6, c7, c8, c9⟩ :=
    assignUndecidable_spec eps100 pts (st.und.size + 1) 0 st.und (withVis N1 (vis.filter (sel1 eps100 pts point N1)))
      (withVis N2 (vis.filter (sel2 eps100 pts point N1 N2)))
  refine ⟨vis.filter (sel1 eps100 pts point N1) ++ b1, vis.filter (sel2 eps100 pts point N1 N2) ++ b2,
    (assignUndecidable eps100 pts (st.und.size + 1) 0 st.und (withVis N1 (vis.filter (sel1 eps100 pts point N1)))
      (withVis N2 (vis.filter (sel2 eps100 pts point N1 N2)))).1, ?_, ?_⟩
  · simp only [c1, c2, withVis_withVis]
  · simp only [withVis_seen] at c3 c4 c9
    refine ⟨?_, ?_, ?_, ?_, ?_, ?_⟩
    · intro v hv
      rcases List.mem_append.mp hv with h | h
      · have := List.mem_filter.mp h
        simp only [sel1, Bool.and_eq_true, bne_iff_ne, ne_eq] at this
        exact ⟨Or.inl ⟨this.1, this.2.1⟩, this.2.2⟩
      · exact ⟨Or.inr (c3 v h).1, (c3 v h).2⟩
    · intro v hv
      rcases List.mem_append.mp hv with h | h
      · have := List.mem_filter.mp h
        simp only [sel2, Bool.and_eq_true, bne_iff_ne, ne_eq, Bool.not_eq_true'] at this
        exact ⟨Or.inl ⟨this.1, this.2.1.1⟩, this.2.2, this.2.1.2⟩
      · exact ⟨Or.inr (c4 v h).1, (c4 v h).2⟩
    · intro u hu
      obtain ⟨k, hk, rfl⟩ := Array.mem_iff_getElem.mp hu
      exact ⟨c5 _ hu, c9 (by omega) k _ (by omega) (Array.getElem?_eq_getElem hk)⟩
    · intro u hu
      rcases c6 u hu with h | h | h
      · exact Or.inl (List.mem_append_right _ h)
      · exact Or.inr (Or.inl (List.mem_append_right _ h))
      · exact Or.inr (Or.inr h)
    · intro v hv hne
      by_cases h1 : N1.canBeSeenBy eps100 v pts = true
      · exact Or.inl (List.mem_append_left _ (List.mem_filter.mpr ⟨hv, by simp [sel1, hne, h1]⟩))
      · have h1f : N1.canBeSeenBy eps100 v pts = false := by simpa using h1
        by_cases h2 : N2.canBeSeenBy eps100 v pts = true
        · exact Or.inr (Or.inl (List.mem_append_left _ (List.mem_filter.mpr ⟨hv, by simp [sel2, hne, h1f, h2]⟩)))
        · exact Or.inr (Or.inr ⟨h1f, by simpa using h2⟩)
    · have := filter_disjoint_length vis (sel1 eps100 pts point N1) (sel2 eps100 pts point N1 N2) (· != point)
        (by intro x hx; simp only [sel1, Bool.and_eq_true] at hx; exact hx.1)
        (by intro x hx; simp only [sel2, Bool.and_eq_true] at hx; exact hx.1.1)
        (by intro x hx; simp only [sel1, Bool.and_eq_true] at hx; simp [sel2, hx.2])
      simp only [List.length_append]
      omega
theorem attach_get (S : Array (SegFacet K)) (a b : Nat) (F1 F2 : SegFacet K) (k : Nat) (f : SegFacet K)
    (h : (((relink S a b).push F1).push F2)[k]? = some f) :
    (∃ g, S[k]? = some g ∧ f = { g with next := if k = a then S.size else g.next,
                                        prev := if k = b then S.size + 1 else g.prev }) ∨
    (k = S.size ∧ f = F1) ∨ (k = S.size + 1 ∧ f = F2) := by
  rw [Array.getElem?_push, Array.size_push, relink_size] at h
  split at h
  · right; right; exact ⟨by assumption, by cases h; rfl⟩
  · rw [Array.getElem?_push, relink_size] at h
    split at h
    · right; left; exact ⟨by assumption, by cases h; rfl⟩
    · left
      rw [relink_get] at h
      cases hs : S[k]? with
      | none => rw [hs] at h; cases h
      | some g => rw [hs] at h; exact ⟨g, rfl, by cases h; rfl⟩

/-- `segments[i].valid = false` -/
def invalidate (st : HullState K) (i : Nat) : HullState K :=
  { st with segs := st.segs.modify i (fun g => { g with valid := false }) }

theorem invalidate_size (st : HullState K) (i : Nat) : (invalidate st i).segs.size = st.segs.size := by simp [invalidate]
theorem invalidate_und (st : HullState K) (i : Nat) : (invalidate st i).und = st.und := rfl
theorem invalidate_get (st : HullState K) (i k : Nat) :
    (invalidate st i).segs[k]? = (st.segs[k]?).map (fun g => if k = i then { g with valid := false } else g) := by
  simp only [invalidate, Array.getElem?_modify]
  cases st.segs[k]? <;> by_cases h : i = k <;> simp [h, eq_comm]
theorem invalidate_visOf (st : HullState K) (i k : Nat) : visOf (invalidate st i) k = visOf st k := by
  simp only [visOf, invalidate_get]
  cases st.segs[k]? <;> simp
  split <;> rfl

/-- all point indices stored in a facet are `< n` -/
def FacetIdxOK (n : Nat) (f : SegFacet K) : Prop := f.p0 < n ∧ f.p1 < n ∧ ∀ v ∈ f.visible, v < n

/-- **structural safety invariant**: every point index stored anywhere in the quickhull state (facet end points, visible
lists, undecidable list) is `< n`, and every facet link `next`/`prev` is a valid facet index. -/
def StateOK (n : Nat) (st : HullState K) : Prop :=
  (∀ (k : Nat) (f : SegFacet K), st.segs[k]? = some f → FacetIdxOK n f ∧ f.next < st.segs.size ∧ f.prev < st.segs.size) ∧
  (∀ u ∈ st.und, u < n)

theorem visOf_lt {n : Nat} {st : HullState K} (h : StateOK n st) (k : Nat) : ∀ v ∈ visOf st k, v < n := by
  intro v hv
  unfold visOf at hv
  cases hs : st.segs[k]? with
  | none => rw [hs] at hv; simp at hv
  | some g => rw [hs] at hv; exact (h.1 k g hs).1.2.2 v hv

theorem invalidate_ok {n : Nat} {st : HullState K} (h : StateOK n st) (i : Nat) : StateOK n (invalidate st i) := by
  refine ⟨?_, h.2⟩
  intro k f hf
  rw [invalidate_get] at hf
  rw [invalidate_size]
  cases hs : st.segs[k]? with
  | none => rw [hs] at hf; cases hf
  | some g =>
    rw [hs] at hf
    have := h.1 k g hs
    simp only [Option.map_some, Option.some.injEq] at hf
    subst hf
    split <;> exact this

theorem attach_ok {n : Nat} (eps100 : K) (pts : Array (V2 K)) (st : HullState K) (prevF nextF point removed : Nat)
    (h : StateOK n st) (hp : prevF < st.segs.size) (hn : nextF < st.segs.size) (hpt : point < n) :
    StateOK n (attach eps100 pts st prevF nextF point removed) := by
  obtain ⟨e1, e2, und', heq, p1, p2, p3, p4, p5, p6⟩ := attach_spec eps100 pts st prevF nextF point removed
  rw [heq]
  have hvis := visOf_lt h removed
  refine ⟨?_, fun u hu => h.2 u (p3 u hu).1⟩
  intro k f hf
  simp only [Array.size_push, relink_size]
  rcases attach_get _ _ _ _ _ _ _ hf with ⟨g, hg, rfl⟩ | ⟨rfl, rfl⟩ | ⟨rfl, rfl⟩
  · obtain ⟨a, b, c⟩ := h.1 k g hg
    refine ⟨a, ?_, ?_⟩
    · simp only; split <;> omega
    · simp only; split <;> omega
  · refine ⟨⟨?_, hpt, ?_⟩, by simp [withVis, newF1, SegFacet.new], by simp [withVis, newF1, SegFacet.new]; omega⟩
    · obtain ⟨g, hg⟩ : ∃ g, st.segs[prevF]? = some g := ⟨_, Array.getElem?_eq_getElem hp⟩
      simp only [withVis, newF1, SegFacet.new, hg, Option.map_some, Option.getD_some]
      exact (h.1 prevF g hg).1.2.1
    · intro v hv
      simp only [withVis, newF1, SegFacet.new, List.nil_append] at hv
      rcases (p1 v hv).1 with ⟨hv', _⟩ | hv'
      · exact hvis v hv'
      · exact h.2 v hv'
  · refine ⟨⟨hpt, ?_, ?_⟩, by simp [withVis, newF2, SegFacet.new]; omega, by simp [withVis, newF2, SegFacet.new]; omega⟩
    · obtain ⟨g, hg⟩ : ∃ g, st.segs[nextF]? = some g := ⟨_, Array.getElem?_eq_getElem hn⟩
      simp only [withVis, newF2, SegFacet.new, hg, Option.map_some, Option.getD_some]
      exact (h.1 nextF g hg).1.1
    · intro v hv
      simp only [withVis, newF2, SegFacet.new, List.nil_append] at hv
      rcases (p2 v hv).1 with ⟨hv', _⟩ | hv'
      · exact hvis v hv'
      · exact h.2 v hv'
theorem support_mem (negMax : K) (dir : V2 K) (pts : Array (V2 K)) (idx : List Nat) (j : Nat)
    (h : indexedSupportPointId negMax dir pts idx = some j) : j ∈ idx ∧ j < pts.size := by
  rcases support_fold_mem dir pts idx (none, negMax) j h with h | h
  · exact h
  · cases h

/-- induction principle for the main loop: a state property that survives every "invalidate facet `i`, attach its support
point" step holds for the final state -/
theorem hullLoop_induct (negMax eps100 : K) (pts : Array (V2 K)) (P : HullState K → Prop)
    (hstep : ∀ (st : HullState K) (i : Nat) (f : SegFacet K) (point : Nat), P st → st.segs[i]? = some f → f.valid = true →
       indexedSupportPointId negMax f.normal pts f.visible = some point →
       P (attach eps100 pts (invalidate st i) f.prev f.next point i))
    (fuel i : Nat) (st : HullState K) (h : P st) : P (hullLoop negMax eps100 pts fuel i st) := by
  induction fuel generalizing i st with
  | zero => exact h
  | succ fuel ih =>
    unfold hullLoop
    split
    · exact h
    · split
      · exact h
      · rename_i f hf
        split
        · exact ih _ _ h
        · rename_i hv
          split
          · rename_i point hp
            exact ih _ _ (hstep st i f point h hf (by simpa using hv) hp)
          · exact ih _ _ h

theorem hullLoop_ok {n : Nat} (negMax eps100 : K) (pts : Array (V2 K)) (fuel i : Nat) (st : HullState K)
    (h : StateOK n st) : StateOK n (hullLoop negMax eps100 pts fuel i st) := by
  refine hullLoop_induct negMax eps100 pts (StateOK n) ?_ fuel i st h
  intro st i f point hst hf _ hp
  have hf' := hst.1 i f hf
  refine attach_ok eps100 pts _ _ _ _ _ (invalidate_ok hst i) (by rw [invalidate_size]; exact hf'.2.2)
    (by rw [invalidate_size]; exact hf'.2.1) (hf'.1.2.2 point (support_mem negMax f.normal pts f.visible point hp).1)

theorem pickP2_lt (negMax : K) (pts : Array (V2 K)) (p1 : Nat) (dirs : List (V2 K)) (acc : Nat × Bool)
    (h0 : 0 < pts.size) (hacc : acc.1 < pts.size) : (dirs.foldl (pickP2Step negMax pts p1) acc).1 < pts.size := by
  induction dirs generalizing acc with
  | nil => exact hacc
  | cons d ds ih =>
    simp only [List.foldl_cons]
    apply ih
    unfold pickP2Step
    split
    · exact hacc
    · simp only
      cases hs : indexedSupportPointId negMax d pts (List.range pts.size) with
      | none => simpa using h0
      | some j => simpa using (support_mem negMax d pts _ j hs).2

/-- explicit form of the initial polyline when the `assert!`s pass -/
theorem initialPolyline_eq_some (negMax eps100 : K) (pts : Array (V2 K)) (st : HullState K)
    (h : initialPolyline negMax eps100 pts = some st) :
    ∃ p1 p2 : Nat, 2 ≤ pts.size ∧ indexedSupportPointId negMax ⟨1, 0⟩ pts (List.range pts.size) = some p1 ∧
      p2 = (initDirs.foldl (pickP2Step negMax pts p1) (p1, false)).1 ∧ p1 ≠ p2 ∧
      st = { segs := #[withVis (SegFacet.new p1 p2 1 1 pts)
                        ((List.range pts.size).filter (isel1 eps100 pts p1 p2 (SegFacet.new p1 p2 1 1 pts))),
                      withVis (SegFacet.new p2 p1 0 0 pts)
                        ((List.range pts.size).filter (isel2 eps100 pts p1 p2 (SegFacet.new p1 p2 1 1 pts) (SegFacet.new p2 p1 0 0 pts)))],
             und := ((List.range pts.size).filter
                        (isel3 eps100 pts p1 p2 (SegFacet.new p1 p2 1 1 pts) (SegFacet.new p2 p1 0 0 pts))).toArray } := by
  unfold initialPolyline at h
  split at h
  · cases h
  · rename_i hsz
    split at h
    · cases h
    · rename_i p1 hp1
      simp only at h
      split at h
      · cases h
      · rename_i hne
        refine ⟨p1, _, by omega, hp1, rfl, hne, ?_⟩
        rw [init_fold] at h
        simp only [Option.some.injEq] at h
        rw [← h]
        simp
theorem two_get {α : Type} (a b : α) (k : Nat) (f : α) (h : (#[a, b] : Array α)[k]? = some f) :
    (k = 0 ∧ f = a) ∨ (k = 1 ∧ f = b) := by
  match k with
  | 0 => left; simp at h; exact ⟨rfl, h.symm⟩
  | 1 => right; simp at h; exact ⟨rfl, h.symm⟩
  | k + 2 => simp at h

theorem initialPolyline_ok (negMax eps100 : K) (pts : Array (V2 K)) (st : HullState K)
    (h : initialPolyline negMax eps100 pts = some st) : StateOK pts.size st := by
  obtain ⟨p1, p2, hsz, hp1, hp2, hne, rfl⟩ := initialPolyline_eq_some negMax eps100 pts st h
  have h1 : p1 < pts.size := (support_mem negMax _ pts _ p1 hp1).2
  have h2 : p2 < pts.size := by rw [hp2]; exact pickP2_lt negMax pts p1 _ _ (by omega) h1
  refine ⟨?_, ?_⟩
  · intro k f hf
    rcases two_get _ _ k f hf with ⟨rfl, rfl⟩ | ⟨rfl, rfl⟩
    · refine ⟨⟨h1, h2, ?_⟩, by simp [withVis, SegFacet.new], by simp [withVis, SegFacet.new]⟩
      intro v hv
      simp only [withVis, SegFacet.new, List.nil_append] at hv
      exact List.mem_range.mp (List.mem_filter.mp hv).1
    · refine ⟨⟨h2, h1, ?_⟩, by simp [withVis, SegFacet.new], by simp [withVis, SegFacet.new]⟩
      intro v hv
      simp only [withVis, SegFacet.new, List.nil_append] at hv
      exact List.mem_range.mp (List.mem_filter.mp hv).1
  · intro u hu
    simp only [List.mem_toArray] at hu
    exact List.mem_range.mp (List.mem_filter.mp hu).1

theorem hullWalk_mem (segs : Array (SegFacet K)) (first fuel cur : Nat) (acc : List Nat) :
    ∀ j ∈ hullWalk segs first fuel cur acc, j ∈ acc ∨ ∃ (k : Nat) (f : SegFacet K), segs[k]? = some f ∧ f.valid = true ∧ j = f.p0 := by
  induction fuel generalizing cur acc with
  | zero => intro j hj; exact Or.inl hj
  | succ fuel ih =>
    intro j hj
    unfold hullWalk at hj
    split at hj
    · exact Or.inl hj
    · rename_i f hf
      have key : ∀ j ∈ (if f.valid = true then acc ++ [f.p0] else acc),
          j ∈ acc ∨ ∃ (k : Nat) (f : SegFacet K), segs[k]? = some f ∧ f.valid = true ∧ j = f.p0 := by
        intro j hj
        split at hj
        · rename_i hv
          rcases List.mem_append.mp hj with h | h
          · exact Or.inl h
          · exact Or.inr ⟨cur, f, hf, hv, by simpa using h⟩
        · exact Or.inl hj
      simp only at hj
      split at hj
      · exact key j hj
      · rcases ih _ _ j hj with h | h
        · exact key j h
        · exact Or.inr h

theorem convexHull2Idx_final (negMax eps100 : K) (pts : Array (V2 K)) (idx : List Nat)
    (h : convexHull2Idx negMax eps100 pts = some idx) :
    ∃ st0, initialPolyline negMax eps100 pts = some st0 ∧
      ∀ j ∈ idx, ∃ (k : Nat) (f : SegFacet K),
        (hullLoop negMax eps100 pts (2 * pts.size + 8) 0 st0).segs[k]? = some f ∧ f.valid = true ∧ j = f.p0 := by
  unfold convexHull2Idx at h
  split at h
  · cases h
  · rename_i st0 h0
    refine ⟨st0, h0, ?_⟩
    simp only at h
    split at h
    · cases h
    · simp only [Option.some.injEq] at h
      subst h
      intro j hj
      rcases hullWalk_mem _ _ _ _ _ j hj with h | h
      · cases h
      · exact h
theorem sum_map_modify {α : Type} (w : α → Nat) (h : α → α) (l : List α) (i : Nat) (a : α) (ha : l[i]? = some a) :
    ((l.modify i h).map w).sum + w a = (l.map w).sum + w (h a) := by
  induction l generalizing i with
  | nil => simp at ha
  | cons x xs ih =>
    cases i with
    | zero => simp at ha; subst ha; simp; omega
    | succ i =>
      simp at ha
      have := ih i ha
      simp only [List.modify_succ_cons, List.map_cons, List.sum_cons]
      omega

theorem sum_map_modify_same {α : Type} (w : α → Nat) (h : α → α) (hw : ∀ a, w (h a) = w a) (l : List α) (i : Nat) :
    ((l.modify i h).map w).sum = (l.map w).sum := by
  cases ha : l[i]? with
  | none =>
    have : l.modify i h = l := by
      apply List.ext_getElem?
      intro j
      rw [List.getElem?_modify]
      split
      · rename_i hij; subst hij; rw [ha]; rfl
      · simp
    rw [this]
  | some a => have := sum_map_modify w h l i a ha; rw [hw] at this; omega

/-- weight of a facet in the termination measure: the number of its visible points if it is still valid -/
def fw (g : SegFacet K) : Nat := if g.valid then g.visible.length else 0

/-- **termination measure**: total number of points still waiting in the visible lists of valid facets, plus the
undecidable points -/
def pot (st : HullState K) : Nat := (st.segs.toList.map fw).sum + st.und.size

theorem pot_invalidate (st : HullState K) (i : Nat) (f : SegFacet K) (hf : st.segs[i]? = some f) (hv : f.valid = true) :
    pot (invalidate st i) + f.visible.length = pot st := by
  have := sum_map_modify (fw (K := K)) (fun g => { g with valid := false }) st.segs.toList i f (by simpa using hf)
  simp only [pot, invalidate, Array.toList_modify]
  simp only [fw, hv, if_true] at this ⊢
  simp only [Bool.false_eq_true, if_false] at this
  omega

theorem sum_relink (S : Array (SegFacet K)) (a b : Nat) : ((relink S a b).toList.map fw).sum = (S.toList.map fw).sum := by
  simp only [relink, Array.toList_modify]
  rw [sum_map_modify_same fw (fun f => { f with prev := S.size + 1 }) (fun _ => rfl),
    sum_map_modify_same fw (fun f => { f with next := S.size }) (fun _ => rfl)]

theorem fw_withVis_new_le (f : SegFacet K) (e : List Nat) (h : f.visible = []) : fw (withVis f e) ≤ e.length := by
  simp only [fw, withVis, h, List.nil_append]; split <;> omega

theorem pot_attach (eps100 : K) (pts : Array (V2 K)) (st : HullState K) (prevF nextF point removed : Nat) :
    pot (attach eps100 pts st prevF nextF point removed) ≤
      (st.segs.toList.map fw).sum + ((visOf st removed).filter (· != point)).length + st.und.size := by
  obtain ⟨e1, e2, und', heq, p1, p2, p3, p4, p5, p6⟩ := attach_spec eps100 pts st prevF nextF point removed
  rw [heq]
  simp only [pot, Array.toList_push, List.map_append, List.sum_append, sum_relink, List.map_cons, List.map_nil, List.sum_cons,
    List.sum_nil]
  have h1 := fw_withVis_new_le (newF1 pts st prevF point) e1 rfl
  have h2 := fw_withVis_new_le (newF2 pts st nextF point) e2 rfl
  omega

/-- one attach step strictly decreases the measure -/
theorem pot_step (negMax eps100 : K) (pts : Array (V2 K)) (st : HullState K) (i : Nat) (f : SegFacet K) (point : Nat)
    (hf : st.segs[i]? = some f) (hv : f.valid = true)
    (hp : indexedSupportPointId negMax f.normal pts f.visible = some point) :
    pot (attach eps100 pts (invalidate st i) f.prev f.next point i) + 1 ≤ pot st := by
  have h1 := pot_attach eps100 pts (invalidate st i) f.prev f.next point i
  have h2 := pot_invalidate st i f hf hv
  have hvis : visOf (invalidate st i) i = f.visible := by rw [invalidate_visOf, visOf, hf]; rfl
  rw [hvis, invalidate_und] at h1
  have hmem := (support_mem negMax f.normal pts f.visible point hp).1
  have hlt : (f.visible.filter (· != point)).length < f.visible.length :=
    List.length_filter_lt_length_iff_exists.mpr ⟨point, hmem, by simp⟩
  simp only [pot, invalidate_und] at h1 h2 ⊢
  omega
theorem attach_size (eps100 : K) (pts : Array (V2 K)) (st : HullState K) (prevF nextF point removed : Nat) :
    (attach eps100 pts st prevF nextF point removed).segs.size = st.segs.size + 2 := by
  obtain ⟨e1, e2, und', heq, _⟩ := attach_spec eps100 pts st prevF nextF point removed
  rw [heq]; simp [relink_size]

/-- `hullLoop` instrumented with the value of the loop counter `i` at which it stops (same recursion, same state) -/
def hullLoopIdx (negMax eps100 : K) (pts : Array (V2 K)) : Nat → Nat → HullState K → Nat × HullState K
  | 0, i, st => (i, st)
  | fuel+1, i, st =>
    if i ≥ st.segs.size then (i, st) else
    match st.segs[i]? with
    | none => (i, st)
    | some f =>
      if !f.valid then hullLoopIdx negMax eps100 pts fuel (i + 1) st else
      match indexedSupportPointId negMax f.normal pts f.visible with
      | some point => hullLoopIdx negMax eps100 pts fuel (i + 1) (attach eps100 pts (invalidate st i) f.prev f.next point i)
      | none => hullLoopIdx negMax eps100 pts fuel (i + 1) st

theorem hullLoopIdx_snd (negMax eps100 : K) (pts : Array (V2 K)) (fuel i : Nat) (st : HullState K) :
    (hullLoopIdx negMax eps100 pts fuel i st).2 = hullLoop negMax eps100 pts fuel i st := by
  induction fuel generalizing i st with
  | zero => rfl
  | succ fuel ih =>
    unfold hullLoopIdx hullLoop
    by_cases h : i ≥ st.segs.size
    · simp only [h, if_true]
    · simp only [h, if_false]
      cases st.segs[i]? with
      | none => rfl
      | some f =>
        simp only
        by_cases hv : (!f.valid) = true
        · simp only [hv, if_true]; exact ih _ _
        · simp only [hv]
          cases indexedSupportPointId negMax f.normal pts f.visible with
          | none => exact ih _ _
          | some point => exact ih _ _

theorem hullLoopIdx_exit (negMax eps100 : K) (pts : Array (V2 K)) (fuel i : Nat) (st : HullState K)
    (hi : i ≤ st.segs.size) (hfuel : (st.segs.size - i) + 2 * pot st ≤ fuel) :
    (hullLoopIdx negMax eps100 pts fuel i st).1 = (hullLoopIdx negMax eps100 pts fuel i st).2.segs.size := by
  induction fuel generalizing i st with
  | zero => simp only [hullLoopIdx]; omega
  | succ fuel ih =>
    unfold hullLoopIdx
    split
    · simp only; omega
    · rename_i hlt
      have hlt' : i < st.segs.size := by omega
      split
      · rename_i hnone
        rw [Array.getElem?_eq_getElem hlt'] at hnone; cases hnone
      · rename_i f hf
        split
        · exact ih _ _ (by omega) (by omega)
        · rename_i hv
          split
          · rename_i point hp
            have h1 := pot_step negMax eps100 pts st i f point hf (by simpa using hv) hp
            have h2 := attach_size eps100 pts (invalidate st i) f.prev f.next point i
            rw [invalidate_size] at h2
            exact ih _ _ (by omega) (by omega)
          · exact ih _ _ (by omega) (by omega)

theorem hullLoop_size_pot (negMax eps100 : K) (pts : Array (V2 K)) (fuel i : Nat) (st : HullState K) :
    (hullLoop negMax eps100 pts fuel i st).segs.size + 2 * pot (hullLoop negMax eps100 pts fuel i st) ≤
      st.segs.size + 2 * pot st := by
  refine hullLoop_induct negMax eps100 pts (fun s => s.segs.size + 2 * pot s ≤ st.segs.size + 2 * pot st) ?_ fuel i st (Nat.le_refl _)
  intro s i f point hs hf hv hp
  have h1 := pot_step negMax eps100 pts s i f point hf hv hp
  have h2 := attach_size eps100 pts (invalidate s i) f.prev f.next point i
  rw [invalidate_size] at h2
  omega

theorem filter_two_out (l : List Nat) (a b : Nat) (hab : a ≠ b) (nd : l.Nodup) :
    (l.filter (fun v => v != a && v != b)).length + (if a ∈ l then 1 else 0) + (if b ∈ l then 1 else 0) = l.length := by
  induction l with
  | nil => simp
  | cons x xs ih =>
    have hx : x ∉ xs := (List.nodup_cons.mp nd).1
    have := ih (List.nodup_cons.mp nd).2
    by_cases hxa : x = a
    · subst hxa
      have hb : (b ∈ x :: xs) = (b ∈ xs) := by simp [Ne.symm hab]
      simp only [List.filter_cons, List.mem_cons, true_or, if_true, hx, if_false] at this ⊢
      simp [Ne.symm hab] at this ⊢
      omega
    · by_cases hxb : x = b
      · subst hxb
        simp only [List.filter_cons, List.mem_cons, true_or, if_true, hx, if_false] at this ⊢
        simp [hab] at this ⊢
        omega
      · simp only [List.filter_cons, List.mem_cons] at this ⊢
        simp [hxa, hxb, Ne.symm hxa, Ne.symm hxb] at this ⊢
        omega

theorem pot_initial (negMax eps100 : K) (pts : Array (V2 K)) (st : HullState K)
    (h : initialPolyline negMax eps100 pts = some st) : st.segs.size = 2 ∧ pot st + 2 ≤ pts.size := by
  obtain ⟨p1, p2, hsz, hp1, hp2, hne, rfl⟩ := initialPolyline_eq_some negMax eps100 pts st h
  have h1 : p1 < pts.size := (support_mem negMax _ pts _ p1 hp1).2
  have h2 : p2 < pts.size := by rw [hp2]; exact pickP2_lt negMax pts p1 _ _ (by omega) h1
  refine ⟨rfl, ?_⟩
  have hN1 : (SegFacet.new p1 p2 1 1 pts).visible = [] := rfl
  have hN2 : (SegFacet.new p2 p1 0 0 pts).visible = [] := rfl
  generalize SegFacet.new p1 p2 1 1 pts = N1 at hN1 ⊢
  generalize SegFacet.new p2 p1 0 0 pts = N2 at hN2 ⊢
  have a1 := fw_withVis_new_le N1 ((List.range pts.size).filter (isel1 eps100 pts p1 p2 N1)) hN1
  have a2 := fw_withVis_new_le N2 ((List.range pts.size).filter (isel2 eps100 pts p1 p2 N1 N2)) hN2
  have b1 := filter_disjoint_length (List.range pts.size) (isel1 eps100 pts p1 p2 N1) (isel2 eps100 pts p1 p2 N1 N2)
    (fun v => isel1 eps100 pts p1 p2 N1 v || isel2 eps100 pts p1 p2 N1 N2 v)
    (by intro x hx; simp [hx]) (by intro x hx; simp [hx])
    (by intro x hx; simp only [isel1, Bool.and_eq_true] at hx; simp [isel2, hx.2])
  have b2 := filter_disjoint_length (List.range pts.size) (fun v => isel1 eps100 pts p1 p2 N1 v || isel2 eps100 pts p1 p2 N1 N2 v)
    (isel3 eps100 pts p1 p2 N1 N2) (fun v => v != p1 && v != p2)
    (by intro x hx
        simp only [Bool.or_eq_true, isel1, isel2, Bool.and_eq_true] at hx
        rcases hx with hx | hx
        · simp [hx.1.1, hx.1.2]
        · simp [hx.1.1.1, hx.1.1.2])
    (by intro x hx; simp only [isel3, Bool.and_eq_true] at hx; simp [hx.1.1.1, hx.1.1.2])
    (by intro x hx
        simp only [Bool.or_eq_true, isel1, isel2, Bool.and_eq_true] at hx
        rcases hx with hx | hx
        · simp [isel3, hx.2]
        · simp [isel3, hx.2])
  have b3 := filter_two_out (List.range pts.size) p1 p2 hne List.nodup_range
  simp only [List.mem_range, h1, h2, if_true, List.length_range] at b3
  simp only [pot, List.map_cons, List.map_nil, List.sum_cons, List.sum_nil, List.size_toArray]
  omega
theorem attach_get_old (S : Array (SegFacet K)) (a b : Nat) (F1 F2 : SegFacet K) (k : Nat) (g : SegFacet K)
    (h : S[k]? = some g) :
    (((relink S a b).push F1).push F2)[k]? =
      some { g with next := if k = a then S.size else g.next, prev := if k = b then S.size + 1 else g.prev } := by
  have hk : k < S.size := (Array.getElem?_eq_some_iff.mp h).1
  rw [Array.getElem?_push, Array.size_push, relink_size, if_neg (by omega), Array.getElem?_push, relink_size,
    if_neg (by omega), relink_get, h]
  rfl

/-- **visibility invariant**: every point stored in a facet's visible list satisfies that facet's `can_be_seen_by` -/
def VisOK (eps100 : K) (pts : Array (V2 K)) (st : HullState K) : Prop :=
  ∀ (k : Nat) (f : SegFacet K), st.segs[k]? = some f → ∀ v ∈ f.visible, f.canBeSeenBy eps100 v pts = true

theorem initialPolyline_vis (negMax eps100 : K) (pts : Array (V2 K)) (st : HullState K)
    (h : initialPolyline negMax eps100 pts = some st) : VisOK eps100 pts st := by
  obtain ⟨p1, p2, hsz, hp1, hp2, hne, rfl⟩ := initialPolyline_eq_some negMax eps100 pts st h
  intro k f hf v hv
  rcases two_get _ _ k f hf with ⟨rfl, rfl⟩ | ⟨rfl, rfl⟩
  · simp only [withVis, SegFacet.new, List.nil_append] at hv
    have := (List.mem_filter.mp hv).2
    simp only [isel1, Bool.and_eq_true] at this
    exact this.2
  · simp only [withVis, SegFacet.new, List.nil_append] at hv
    have := (List.mem_filter.mp hv).2
    simp only [isel2, Bool.and_eq_true] at this
    exact this.2

theorem invalidate_vis {eps100 : K} {pts : Array (V2 K)} {st : HullState K} (h : VisOK eps100 pts st) (i : Nat) :
    VisOK eps100 pts (invalidate st i) := by
  intro k f hf v hv
  rw [invalidate_get] at hf
  cases hs : st.segs[k]? with
  | none => rw [hs] at hf; cases hf
  | some g =>
    rw [hs] at hf
    simp only [Option.map_some, Option.some.injEq] at hf
    subst hf
    by_cases hk : k = i
    · rw [if_pos hk] at hv ⊢; exact h k g hs v hv
    · rw [if_neg hk] at hv ⊢; exact h k g hs v hv

theorem attach_vis (eps100 : K) (pts : Array (V2 K)) (st : HullState K) (prevF nextF point removed : Nat)
    (h : VisOK eps100 pts st) : VisOK eps100 pts (attach eps100 pts st prevF nextF point removed) := by
  obtain ⟨e1, e2, und', heq, p1, p2, p3, p4, p5, p6⟩ := attach_spec eps100 pts st prevF nextF point removed
  rw [heq]
  intro k f hf v hv
  rcases attach_get _ _ _ _ _ _ _ hf with ⟨g, hg, rfl⟩ | ⟨rfl, rfl⟩ | ⟨rfl, rfl⟩
  · exact h k g hg v hv
  · simp only [withVis, newF1, SegFacet.new, List.nil_append] at hv
    exact (p1 v hv).2
  · simp only [withVis, newF2, SegFacet.new, List.nil_append] at hv
    exact (p2 v hv).2.1

theorem hullLoop_vis (negMax eps100 : K) (pts : Array (V2 K)) (fuel i : Nat) (st : HullState K)
    (h : VisOK eps100 pts st) : VisOK eps100 pts (hullLoop negMax eps100 pts fuel i st) :=
  hullLoop_induct negMax eps100 pts (VisOK eps100 pts)
    (fun _ i _ _ hs _ _ _ => attach_vis eps100 pts _ _ _ _ _ (invalidate_vis hs i)) fuel i st h

/-- `e` was chosen as the support point of the (now removed) facet `f`: it is the result of `indexed_support_point_id` in
direction `f.normal` over `f.visible_points` -/
def SplitOf (negMax : K) (pts : Array (V2 K)) (f : SegFacet K) (e : Nat) : Prop :=
  f.valid = false ∧ indexedSupportPointId negMax f.normal pts f.visible = some e

/-- **vertex-provenance invariant**: each end point of each facet is one of the two initial points `a`, `b`, or the support
point of some removed facet that is still stored (with its normal and visible list) in `segs` -/
def VertsOK (negMax : K) (pts : Array (V2 K)) (a b : Nat) (st : HullState K) : Prop :=
  ∀ (k : Nat) (g : SegFacet K), st.segs[k]? = some g → ∀ e, (e = g.p0 ∨ e = g.p1) →
    e = a ∨ e = b ∨ ∃ (k' : Nat) (f' : SegFacet K), st.segs[k']? = some f' ∧ SplitOf negMax pts f' e

theorem step_verts {n : Nat} (negMax eps100 : K) (pts : Array (V2 K)) (a b : Nat) (st : HullState K) (i : Nat)
    (f : SegFacet K) (point : Nat) (hok : StateOK n st) (h : VertsOK negMax pts a b st) (hf : st.segs[i]? = some f)
    (hp : indexedSupportPointId negMax f.normal pts f.visible = some point) :
    VertsOK negMax pts a b (attach eps100 pts (invalidate st i) f.prev f.next point i) := by
  obtain ⟨e1, e2, und', heq, _⟩ := attach_spec eps100 pts (invalidate st i) f.prev f.next point i
  rw [heq]
  -- witnesses survive the step
  have surv : ∀ (k' : Nat) (f' : SegFacet K) (e : Nat), st.segs[k']? = some f' → SplitOf negMax pts f' e →
      ∃ (k' : Nat) (f' : SegFacet K), (((relink (invalidate st i).segs f.prev f.next).push
        (withVis (newF1 pts (invalidate st i) f.prev point) e1)).push
        (withVis (newF2 pts (invalidate st i) f.next point) e2))[k']? = some f' ∧ SplitOf negMax pts f' e := by
    intro k' f' e hk' hs
    have h1 : (invalidate st i).segs[k']? = some (if k' = i then { f' with valid := false } else f') := by
      rw [invalidate_get, hk']; rfl
    refine ⟨k', _, attach_get_old _ _ _ _ _ k' _ h1, ?_⟩
    split
    · exact ⟨rfl, hs.2⟩
    · exact hs
  have wpoint : ∃ (k' : Nat) (f' : SegFacet K), (((relink (invalidate st i).segs f.prev f.next).push
        (withVis (newF1 pts (invalidate st i) f.prev point) e1)).push
        (withVis (newF2 pts (invalidate st i) f.next point) e2))[k']? = some f' ∧ SplitOf negMax pts f' point := by
    have h1 : (invalidate st i).segs[i]? = some (if i = i then { f with valid := false } else f) := by
      rw [invalidate_get, hf]; rfl
    rw [if_pos rfl] at h1
    exact ⟨i, _, attach_get_old _ _ _ _ _ i _ h1, rfl, hp⟩
  have old : ∀ (k : Nat) (g : SegFacet K) (e : Nat), st.segs[k]? = some g → (e = g.p0 ∨ e = g.p1) →
      e = a ∨ e = b ∨ ∃ (k' : Nat) (f' : SegFacet K), (((relink (invalidate st i).segs f.prev f.next).push
        (withVis (newF1 pts (invalidate st i) f.prev point) e1)).push
        (withVis (newF2 pts (invalidate st i) f.next point) e2))[k']? = some f' ∧ SplitOf negMax pts f' e := by
    intro k g e hg he
    rcases h k g hg e he with r | r | ⟨k', f', hk', hs⟩
    · exact Or.inl r
    · exact Or.inr (Or.inl r)
    · exact Or.inr (Or.inr (surv k' f' e hk' hs))
  have hfl := hok.1 i f hf
  intro k g hg e he
  rcases attach_get _ _ _ _ _ _ _ hg with ⟨g0, hg0, rfl⟩ | ⟨rfl, rfl⟩ | ⟨rfl, rfl⟩
  · rw [invalidate_get] at hg0
    cases hs : st.segs[k]? with
    | none => rw [hs] at hg0; cases hg0
    | some g1 =>
      rw [hs] at hg0
      simp only [Option.map_some, Option.some.injEq] at hg0
      subst hg0
      refine old k g1 e hs ?_
      split at he <;> exact he
  · rcases he with rfl | rfl
    · -- p0 of the first new facet = p1 of the previous facet
      obtain ⟨gp, hgp⟩ : ∃ gp, st.segs[f.prev]? = some gp := ⟨_, Array.getElem?_eq_getElem hfl.2.2⟩
      have : (withVis (newF1 pts (invalidate st i) f.prev point) e1).p0 = gp.p1 := by
        simp only [withVis, newF1, SegFacet.new, invalidate_get, hgp, Option.map_some, Option.getD_some]
        split <;> rfl
      rw [this]
      exact old f.prev gp gp.p1 hgp (Or.inr rfl)
    · exact Or.inr (Or.inr wpoint)
  · rcases he with rfl | rfl
    · exact Or.inr (Or.inr wpoint)
    · obtain ⟨gn, hgn⟩ : ∃ gn, st.segs[f.next]? = some gn := ⟨_, Array.getElem?_eq_getElem hfl.2.1⟩
      have : (withVis (newF2 pts (invalidate st i) f.next point) e2).p1 = gn.p0 := by
        simp only [withVis, newF2, SegFacet.new, invalidate_get, hgn, Option.map_some, Option.getD_some]
        split <;> rfl
      rw [this]
      exact old f.next gn gn.p0 hgn (Or.inl rfl)

theorem initialPolyline_verts (negMax eps100 : K) (pts : Array (V2 K)) (st : HullState K)
    (h : initialPolyline negMax eps100 pts = some st) :
    ∃ (a b : Nat) (f0 : SegFacet K), st.segs[0]? = some f0 ∧ f0.p0 = a ∧ f0.p1 = b ∧ VertsOK negMax pts a b st := by
  obtain ⟨p1, p2, hsz, hp1, hp2, hne, rfl⟩ := initialPolyline_eq_some negMax eps100 pts st h
  refine ⟨p1, p2, _, rfl, rfl, rfl, ?_⟩
  intro k g hg e he
  rcases two_get _ _ k g hg with ⟨rfl, rfl⟩ | ⟨rfl, rfl⟩
  · rcases he with rfl | rfl
    · exact Or.inl rfl
    · exact Or.inr (Or.inl rfl)
  · rcases he with rfl | rfl
    · exact Or.inr (Or.inl rfl)
    · exact Or.inl rfl

theorem hullLoop_verts {n : Nat} (negMax eps100 : K) (pts : Array (V2 K)) (a b : Nat) (fuel i : Nat) (st : HullState K)
    (hok : StateOK n st) (h : VertsOK negMax pts a b st) : VertsOK negMax pts a b (hullLoop negMax eps100 pts fuel i st) := by
  have := hullLoop_induct negMax eps100 pts (fun s => StateOK n s ∧ VertsOK negMax pts a b s) ?_ fuel i st ⟨hok, h⟩
  · exact this.2
  · intro s i f point hs hf _ hp
    have hf' := hs.1.1 i f hf
    refine ⟨?_, step_verts negMax eps100 pts a b s i f point hs.1 hs.2 hf hp⟩
    exact attach_ok eps100 pts _ _ _ _ _ (invalidate_ok hs.1 i) (by rw [invalidate_size]; exact hf'.2.2)
      (by rw [invalidate_size]; exact hf'.2.1) (hf'.1.2.2 point (support_mem negMax f.normal pts f.visible point hp).1)

/-- all facets before the loop counter have been dealt with: a valid one has no support point left -/
def DoneBelow (negMax : K) (pts : Array (V2 K)) (i : Nat) (st : HullState K) : Prop :=
  ∀ (k : Nat) (g : SegFacet K), k < i → st.segs[k]? = some g → g.valid = true →
    indexedSupportPointId negMax g.normal pts g.visible = none

theorem hullLoopIdx_done (negMax eps100 : K) (pts : Array (V2 K)) (fuel i : Nat) (st : HullState K)
    (h : DoneBelow negMax pts i st) :
    DoneBelow negMax pts (hullLoopIdx negMax eps100 pts fuel i st).1 (hullLoopIdx negMax eps100 pts fuel i st).2 := by
  induction fuel generalizing i st with
  | zero => exact h
  | succ fuel ih =>
    unfold hullLoopIdx
    split
    · exact h
    · split
      · exact h
      · rename_i f hf
        have ext : (f.valid = true → indexedSupportPointId negMax f.normal pts f.visible = none) →
            DoneBelow negMax pts (i + 1) st := by
          intro hh k g hk hg hv
          by_cases hki : k = i
          · subst hki; rw [hf] at hg; cases hg; exact hh hv
          · exact h k g (by omega) hg hv
        split
        · rename_i hv
          exact ih _ _ (ext (fun hv' => by simp [hv'] at hv))
        · split
          · rename_i point hp
            apply ih
            obtain ⟨e1, e2, und', heq, _⟩ := attach_spec eps100 pts (invalidate st i) f.prev f.next point i
            rw [heq]
            intro k g hk hg hv
            have hilt : i < st.segs.size := (Array.getElem?_eq_some_iff.mp hf).1
            rcases attach_get _ _ _ _ _ _ _ hg with ⟨g0, hg0, rfl⟩ | ⟨rfl, rfl⟩ | ⟨rfl, rfl⟩
            · rw [invalidate_get] at hg0
              cases hs : st.segs[k]? with
              | none => rw [hs] at hg0; cases hg0
              | some g1 =>
                rw [hs] at hg0
                simp only [Option.map_some, Option.some.injEq] at hg0
                subst hg0
                by_cases hki : k = i
                · rw [if_pos hki] at hv; cases hv
                · rw [if_neg hki] at hv ⊢
                  exact h k g1 (by omega) hs hv
            · rw [invalidate_size] at hk; omega
            · rw [invalidate_size] at hk; omega
          · rename_i hnone
            exact ih _ _ (ext (fun _ => hnone))
/-- `support_point_id(dir, points)` with the `unwrap` replaced by the model's default -/
def supAll (negMax : K) (pts : Array (V2 K)) (d : V2 K) : Nat :=
  (indexedSupportPointId negMax d pts (List.range pts.size)).getD 0
/-- the `!p1p2.norm_squared().is_zero()` test of `get_initial_polyline` for direction `d` -/
def differs (negMax : K) (pts : Array (V2 K)) (p1 : Nat) (d : V2 K) : Bool :=
  !(neq ((ptAt pts (supAll negMax pts d)).sub (ptAt pts p1)).normSq 0)

theorem pickP2Step_eq (negMax : K) (pts : Array (V2 K)) (p1 : Nat) (acc : Nat × Bool) (d : V2 K) :
    pickP2Step negMax pts p1 acc d = if acc.2 then acc else (supAll negMax pts d, differs negMax pts p1 d) := rfl

theorem pickP2_three (negMax : K) (pts : Array (V2 K)) (p1 : Nat) (d1 d2 d3 : V2 K) :
    ([d1, d2, d3].foldl (pickP2Step negMax pts p1) (p1, false)).1 =
      if differs negMax pts p1 d1 then supAll negMax pts d1
      else if differs negMax pts p1 d2 then supAll negMax pts d2 else supAll negMax pts d3 := by
  simp only [List.foldl_cons, List.foldl_nil, pickP2Step_eq]
  generalize differs negMax pts p1 d1 = b1
  generalize differs negMax pts p1 d2 = b2
  cases b1 <;> cases b2 <;> simp

/-- the point index `p2` chosen by the three-direction loop of `get_initial_polyline` -/
def pickP2 (negMax : K) (pts : Array (V2 K)) (p1 : Nat) : Nat :=
  if differs negMax pts p1 ⟨-1, -0⟩ then supAll negMax pts ⟨-1, -0⟩
  else if differs negMax pts p1 ⟨-0, -1⟩ then supAll negMax pts ⟨-0, -1⟩ else supAll negMax pts ⟨0, 1⟩

theorem pickP2_eq (negMax : K) (pts : Array (V2 K)) (p1 : Nat) :
    (initDirs.foldl (pickP2Step negMax pts p1) (p1, false)).1 = pickP2 negMax pts p1 :=
  pickP2_three negMax pts p1 _ _ _

theorem initialPolyline_none_unfold (negMax eps100 : K) (pts : Array (V2 K)) :
    initialPolyline negMax eps100 pts = none ↔
      pts.size < 2 ∨ indexedSupportPointId negMax ⟨1, 0⟩ pts (List.range pts.size) = none ∨
      ∃ p1, indexedSupportPointId negMax ⟨1, 0⟩ pts (List.range pts.size) = some p1 ∧ pickP2 negMax pts p1 = p1 := by
  unfold initialPolyline
  by_cases hsz : pts.size < 2
  · simp [hsz]
  · simp only [hsz, if_false, false_or]
    cases hs : indexedSupportPointId negMax ⟨1, 0⟩ pts (List.range pts.size) with
    | none => simp
    | some p1 =>
      simp only [pickP2_eq]
      by_cases he : p1 = pickP2 negMax pts p1
      · simp [← he]
      · simp [he, Ne.symm he]
end C12
