import ParryModel.Field
import ParryModel.C12.Lemmas6
/-!
# C12 theorems, ninth pass: the arithmetic side of the 3-D quickhull model at the lawful ordered-field instance.

* `addVis_assert_holds` — `add_visible_point`'s `assert!(distance > DEFAULT_EPSILON)` cannot fire for a point that passed
  `can_see_point` (its margin is `100 * DEFAULT_EPSILON` on the same dot product): every call site of `add_visible_point`
  (initial attribution, redistribution of a removed facet's points, undecidable points) is guarded by `can_see_point`.
* `canSee_implies_seenBy` — a point that can see a facet (`can_see_point`, margin `100 eps` from vertex 0) also passes the
  order-independent test used by `compute_silhouette` (`>= 0` from some vertex): the facet a support point is taken from, and every
  facet the point is stored in, would be removed by the silhouette search — the two visibility tests are consistent.
* `redistribute_never_panics`, `assignUndecidable_never_panics`, `initAssign_never_panics` — consequently the three attribution
  loops of the model never take their panic branch: `attach_and_push_facets` can only panic in its linking loop (excluded by
  `attach_link_asserts_hold` under the silhouette precondition).
* `attach_never_panics` — the two combined: under `SilPre` (silhouette entries are distinct in-range half-edges facing removed
  facets — proved for `compute_silhouette`'s output except distinctness) `attach_and_push_facets` returns normally.
-/
namespace C12
open Model Model.H3

variable {K : Type} [Field K] [LinearOrder K] [IsStrictOrderedRing K] (sq : K → K)

theorem addVis_assert_holds (f : Facet K) (p : Nat) (pts : Array (V3 K)) :
    letI := fieldNum K sq
    f.canSee p pts = true → (f.addVis p pts).isSome = true := by
  letI := fieldNum K sq
  intro h
  unfold Facet.canSee at h
  unfold Facet.addVis Facet.dist
  split at h
  · exact absurd h (by simp)
  · split at h
    · exact absurd h (by simp)
    · rename_i _ hlt
      have hcomm : f.normal.dot ((pAt pts p).sub (pAt pts f.pts.a)) = ((pAt pts p).sub (pAt pts f.pts.a)).dot f.normal := by
        simp only [V3.dot]; ring
      have heps : (eps : K) < eps100 := by
        simp only [eps, eps100, fieldNum_lit]
        have h1 : ((mkRat 1 4503599627370496 : Rat) : K) = 1 / 4503599627370496 := by norm_num
        have h2 : ((mkRat 100 4503599627370496 : Rat) : K) = 100 / 4503599627370496 := by norm_num
        rw [h1, h2]
        apply div_lt_div_of_pos_right <;> norm_num
      have : (eps : K) < f.normal.dot ((pAt pts p).sub (pAt pts f.pts.a)) := by
        rw [hcomm]; exact lt_of_lt_of_le heps (not_lt.mp hlt)
      simp [this]

theorem canSee_implies_seenBy (f : Facet K) (p : Nat) (pts : Array (V3 K)) :
    letI := fieldNum K sq
    f.canSee p pts = true → f.seenBy p pts = true := by
  letI := fieldNum K sq
  intro h
  unfold Facet.canSee at h
  unfold Facet.seenBy
  split at h
  · exact absurd h (by simp)
  · rename_i haff
    split at h
    · exact absurd h (by simp)
    · rename_i hlt
      simp only [haff, Bool.false_eq_true, if_false]
      have h100 : (0 : K) ≤ eps100 := by
        simp only [eps100, fieldNum_lit]
        have h2 : ((mkRat 100 4503599627370496 : Rat) : K) = 100 / 4503599627370496 := by norm_num
        rw [h2]; positivity
      rw [List.any_eq_true]
      refine ⟨0, by simp, ?_⟩
      have : f.pts.get 0 = f.pts.a := rfl
      rw [this]
      exact decide_eq_true (le_trans h100 (not_lt.mp hlt))


theorem redistribute_never_panics (pts : Array (V3 K)) (point : Nat) (nf : Array (Facet K)) (vp : Nat) :
    letI := fieldNum K sq
    (redistribute pts point nf vp).isSome = true := by
  letI := fieldNum K sq
  unfold redistribute
  split
  · rfl
  · split
    · rfl
    · rename_i j _
      split
      · rename_i hc
        have := addVis_assert_holds sq (tAt nf j) vp pts hc
        cases hh : (tAt nf j).addVis vp pts with
        | none => rw [hh] at this; exact absurd this (by simp)
        | some f => rfl
      · rfl

theorem assignUndecidable_never_panics (pts : Array (V3 K)) :
    letI := fieldNum K sq
    ∀ (fuel i : Nat) (und : Array Nat) (nf : Array (Facet K)), (H3.assignUndecidable pts fuel i und nf).isSome = true := by
  letI := fieldNum K sq
  intro fuel
  induction fuel with
  | zero => intro i und nf; rfl
  | succ fuel ih =>
    intro i und nf
    unfold H3.assignUndecidable
    split
    · rfl
    · simp only
      split
      · rename_i j hj
        have hc := C12.H3.furthestB_canSee pts nf _ j hj
        have := addVis_assert_holds sq (tAt nf j) _ pts hc
        cases hh : (tAt nf j).addVis ((und[i]?).getD 0) pts with
        | none => rw [hh] at this; exact absurd this (by simp)
        | some f => simp only; exact ih _ _ _
      · exact ih _ _ _

theorem initAssign_never_panics (pts : Array (V3 K)) (p1 p2 p3 : Nat) (st : Array (Facet K) × Array Nat) (p : Nat) :
    letI := fieldNum K sq
    (initAssign pts p1 p2 p3 st p).isSome = true := by
  letI := fieldNum K sq
  unfold initAssign
  split
  · rfl
  · split
    · rename_i j hj
      have hc := C12.H3.furthestB_canSee pts st.1 p j hj
      have := addVis_assert_holds sq (tAt st.1 j) p pts hc
      cases hh : (tAt st.1 j).addVis p pts with
      | none => rw [hh] at this; exact absurd this (by simp)
      | some f => rfl
    · rfl


theorem attach_never_panics (pts : Array (V3 K)) (point : Nat) (sil : Array (Nat × Nat)) (removed : Array Nat)
    (ts : Array (Facet K)) (und : Array Nat) :
    letI := fieldNum K sq
    C12.H3.SilPre ts sil → (attachAndPush pts point sil removed ts und).isSome = true := by
  letI := fieldNum K sq
  intro hp
  have hpan := (C12.H3.linkFold_inv ts (newFacets pts point ts sil) sil hp (by simp [newFacets]) sil.size (Nat.le_refl _)).1
  have hfold : ∀ (l : List Nat) (nf : Array (Facet K)),
      (l.foldlM (fun nf vp => redistribute pts point nf vp) nf).isSome = true := by
    intro l
    induction l with
    | nil => intro nf; rfl
    | cons a l ih =>
      intro nf
      simp only [List.foldlM_cons]
      have := redistribute_never_panics sq pts point nf a
      cases hr : redistribute pts point nf a with
      | none => rw [hr] at this; exact absurd this (by simp)
      | some nf1 => exact ih nf1
  have hne : ∀ (l : List Nat) (nf : Array (Facet K)),
      l.foldlM (fun nf vp => redistribute pts point nf vp) nf ≠ none := fun l nf h => by
    have := hfold l nf; rw [h] at this; exact absurd this (by simp)
  have hne2 : ∀ (nf : Array (Facet K)), H3.assignUndecidable pts (und.size + 1) 0 und nf ≠ none := fun nf h => by
    have := assignUndecidable_never_panics sq pts (und.size + 1) 0 und nf; rw [h] at this; exact absurd this (by simp)
  unfold attachAndPush
  simp only [hpan, Bool.false_eq_true, if_false]
  split
  · rename_i hnone
    exact absurd hnone (hne _ _)
  · rename_i nf1 _
    split
    · rename_i hnone
      exact absurd hnone (hne2 _)
    · rfl

end C12
