import ParryModel.Field
import ParryModel.C12.Lemmas2
/-!
# C12 theorems, third pass: the facet list is a closed polygonal chain; every split creates a strictly convex
counter-clockwise corner between two non-degenerate facets

`ChainOK`, `GeoOK`, `stepState` are defined (with docstrings) in `Lemmas2.lean`.
-/
namespace C12
open Model

section Structural
variable {K : Type} [Num K]

/-- **the facet list is a closed polygonal chain at every step** (every `Num` instance): there is a set `live` of facet
indices, containing every valid facet, on which `next` and `prev` are inverse bijections without fixed point (a cyclic doubly
linked list) and along which consecutive facets share an end point: `segs[g.next].p0 = g.p1`, `segs[g.prev].p1 = g.p0`. -/
theorem hullLoop_closed_chain (negMax eps100 : K) (pts : Array (V2 K)) (st0 : HullState K) (fuel i : Nat)
    (h : initialPolyline negMax eps100 pts = some st0) :
    ∃ live : Nat → Prop, ChainOK (hullLoop negMax eps100 pts fuel i st0) live :=
  hullLoop_chain negMax eps100 pts fuel i st0 ⟨_, initialPolyline_chain negMax eps100 pts st0 h⟩

/-- **one attaching step on the chain**: replacing live facet `i = (a → b)` by its support point `c` yields the chain in which
`i` is replaced by the two new facets `(a → c)`, `(c → b)` stored at `segs.size`, `segs.size + 1`. -/
theorem step_closed_chain (eps100 : K) (pts : Array (V2 K)) (st : HullState K) (live : Nat → Prop) (i : Nat)
    (f : SegFacet K) (point : Nat) (h : ChainOK st live) (hf : st.segs[i]? = some f) (hli : live i) :
    ChainOK (stepState eps100 pts st i f point) (fun k => (live k ∧ k ≠ i) ∨ k = st.segs.size ∨ k = st.segs.size + 1) ∧
    ∃ F1 F2 : SegFacet K,
      (stepState eps100 pts st i f point).segs[st.segs.size]? = some F1 ∧
      (stepState eps100 pts st i f point).segs[st.segs.size + 1]? = some F2 ∧
      F1.p0 = f.p0 ∧ F1.p1 = point ∧ F2.p0 = point ∧ F2.p1 = f.p1 :=
  step_chain eps100 pts st live i f point h hf hli

/-- **stored normals are the normals of the stored edges** at every step: `normal = SegmentFacet::new(p0, p1).normal`, and a
valid facet has a non-zero edge length according to `SegmentFacet::new`. -/
theorem hullLoop_normals_consistent (negMax eps100 : K) (pts : Array (V2 K)) (st0 : HullState K) (fuel i : Nat)
    (h : initialPolyline negMax eps100 pts = some st0) : GeoOK pts (hullLoop negMax eps100 pts fuel i st0) :=
  hullLoop_geo negMax eps100 pts fuel i st0 (initialPolyline_geo negMax eps100 pts st0 h)

end Structural

section Geometry
variable {K : Type} [Field K] [LinearOrder K] [IsStrictOrderedRing K] (sq : K → K)

private theorem new_fields (pts : Array (V2 K)) (a b : Nat) (pa pb : V2 K) (ha : pts[a]? = some pa) (hb : pts[b]? = some pb) :
    (@SegFacet.new K (fieldNum K sq) a b 0 0 pts).normal =
      ⟨(pb.y - pa.y) / sq ((pb.y - pa.y) * (pb.y - pa.y) + -(pb.x - pa.x) * -(pb.x - pa.x)),
       -(pb.x - pa.x) / sq ((pb.y - pa.y) * (pb.y - pa.y) + -(pb.x - pa.x) * -(pb.x - pa.x))⟩ ∧
    ((@SegFacet.new K (fieldNum K sq) a b 0 0 pts).valid = true ↔
      sq ((pb.y - pa.y) * (pb.y - pa.y) + -(pb.x - pa.x) * -(pb.x - pa.x)) ≠ 0) := by
  constructor
  · simp only [SegFacet.new, ptAt, ha, hb, Option.getD_some, V2.sub, V2.sdiv, V2.norm, V2.normSq, V2.dot, fieldNum_sqrt]
  · simp only [SegFacet.new, ptAt, ha, hb, Option.getD_some, V2.sub, V2.norm, V2.normSq, V2.dot, Bool.not_eq_true', neq, fieldNum_sqrt]
    rw [Bool.and_eq_false_iff, decide_eq_false_iff_not, decide_eq_false_iff_not]
    constructor
    · rintro (h | h) e <;> rw [e] at h <;> exact h (le_refl _)
    · intro hne
      by_contra hc
      push Not at hc
      exact hne (le_antisymm hc.1 hc.2)

/-- **a visible point is strictly to the right of its facet** (outside of a counter-clockwise polygon): if facet `g` carries
the normal that `SegmentFacet::new` computes for `a = pts[g.p0] → b = pts[g.p1]`, has non-zero length, and `v` passes
`can_be_seen_by` with a tolerance `eps100 ≥ 0`, then `cross(v - a, b - a) > 0` — whatever the (lawful) square root. -/
theorem visible_point_strictly_right (hsq : LawfulSqrt sq) (eps100 : K) (h0 : 0 ≤ eps100) (pts : Array (V2 K))
    (g : SegFacet K) (v : Nat) (pa pb pv : V2 K) (ha : pts[g.p0]? = some pa) (hb : pts[g.p1]? = some pb)
    (hv : pts[v]? = some pv)
    (hn : g.normal = (@SegFacet.new K (fieldNum K sq) g.p0 g.p1 0 0 pts).normal)
    (hval : (@SegFacet.new K (fieldNum K sq) g.p0 g.p1 0 0 pts).valid = true)
    (hs : @SegFacet.canBeSeenBy K (fieldNum K sq) g eps100 v pts = true) :
    0 < (pv.x - pa.x) * (pb.y - pa.y) - (pv.y - pa.y) * (pb.x - pa.x) := by
  obtain ⟨e1, e2⟩ := new_fields sq pts g.p0 g.p1 pa pb ha hb
  have hs0 := e2.mp hval
  set S := (pb.y - pa.y) * (pb.y - pa.y) + -(pb.x - pa.x) * -(pb.x - pa.x) with hS
  have hSnn : 0 ≤ S := by rw [hS]; nlinarith [mul_self_nonneg (pb.y - pa.y), mul_self_nonneg (pb.x - pa.x)]
  have hspos : 0 < sq S := lt_of_le_of_ne (hsq.nonneg S hSnn) (Ne.symm hs0)
  simp only [SegFacet.canBeSeenBy, ptAt, hv, ha, Option.getD_some, V2.sub, V2.dot, decide_eq_true_eq] at hs
  rw [hn, e1] at hs
  simp only at hs
  have : (pv.x - pa.x) * ((pb.y - pa.y) / sq S) + (pv.y - pa.y) * (-(pb.x - pa.x) / sq S) =
      ((pv.x - pa.x) * (pb.y - pa.y) - (pv.y - pa.y) * (pb.x - pa.x)) / sq S := by
    field_simp; ring
  rw [this] at hs
  have h1 : 0 < ((pv.x - pa.x) * (pb.y - pa.y) - (pv.y - pa.y) * (pb.x - pa.x)) / sq S := lt_of_le_of_lt h0 hs
  exact (div_pos_iff_of_pos_right hspos).mp h1

/-- `SegmentFacet::new` between two in-range points at different positions is valid (lawful square root) -/
theorem new_valid_of_ne (hsq : LawfulSqrt sq) (pts : Array (V2 K)) (a b : Nat) (pa pb : V2 K) (ha : pts[a]? = some pa)
    (hb : pts[b]? = some pb) (hne : pa.x ≠ pb.x ∨ pa.y ≠ pb.y) :
    (@SegFacet.new K (fieldNum K sq) a b 0 0 pts).valid = true := by
  rw [(new_fields sq pts a b pa pb ha hb).2]
  intro h
  have hS : 0 ≤ (pb.y - pa.y) * (pb.y - pa.y) + -(pb.x - pa.x) * -(pb.x - pa.x) := by
    nlinarith [mul_self_nonneg (pb.y - pa.y), mul_self_nonneg (pb.x - pa.x)]
  have := hsq.sq_mul _ hS
  rw [h] at this
  have hx : pb.x - pa.x = 0 := by nlinarith [mul_self_nonneg (pb.y - pa.y), mul_self_nonneg (pb.x - pa.x)]
  have hy : pb.y - pa.y = 0 := by nlinarith [mul_self_nonneg (pb.y - pa.y), mul_self_nonneg (pb.x - pa.x)]
  rcases hne with h | h
  · exact h (by linarith)
  · exact h (by linarith)

/-- the invariants of the main loop taken together (lawful instance): index safety, visibility, facet geometry, closed chain -/
def LoopInv (eps100 : K) (pts : Array (V2 K)) (st : HullState K) : Prop :=
  @StateOK K pts.size st ∧ @VisOK K (fieldNum K sq) eps100 pts st ∧ @GeoOK K (fieldNum K sq) pts st ∧
    ∃ live : Nat → Prop, @ChainOK K st live

theorem initialPolyline_loopInv (negMax eps100 : K) (pts : Array (V2 K)) (st0 : HullState K)
    (h : @initialPolyline K (fieldNum K sq) negMax eps100 pts = some st0) : LoopInv sq eps100 pts st0 :=
  ⟨@initialPolyline_ok K (fieldNum K sq) negMax eps100 pts st0 h, @initialPolyline_vis K (fieldNum K sq) negMax eps100 pts st0 h,
   @initialPolyline_geo K (fieldNum K sq) negMax eps100 pts st0 h, _, @initialPolyline_chain K (fieldNum K sq) negMax eps100 pts st0 h⟩

/-- **every split creates a strictly convex counter-clockwise corner between two non-degenerate facets**: when the main loop
replaces the valid facet `f = (a → b)` by `(a → c)`, `(c → b)` with `c` its support point, then (lawful `sqrt`, `eps100 ≥ 0`)
`cross(c - a, b - c) > 0` — a strict left turn at the new vertex `c` — hence `c` differs from `a` and `b` as a point and
both new facets are valid; and all loop invariants are preserved. -/
theorem step_convex_corner (hsq : LawfulSqrt sq) (negMax eps100 : K) (h0 : 0 ≤ eps100) (pts : Array (V2 K))
    (st : HullState K) (i : Nat) (f : SegFacet K) (point : Nat) (hinv : LoopInv sq eps100 pts st)
    (hf : st.segs[i]? = some f) (hv : f.valid = true)
    (hp : @indexedSupportPointId K (fieldNum K sq) negMax f.normal pts f.visible = some point) :
    LoopInv sq eps100 pts (@stepState K (fieldNum K sq) eps100 pts st i f point) ∧
    ∃ (F1 F2 : SegFacet K) (pa pb pc : V2 K),
      (@stepState K (fieldNum K sq) eps100 pts st i f point).segs[st.segs.size]? = some F1 ∧
      (@stepState K (fieldNum K sq) eps100 pts st i f point).segs[st.segs.size + 1]? = some F2 ∧
      F1.valid = true ∧ F2.valid = true ∧ F1.p0 = f.p0 ∧ F1.p1 = point ∧ F2.p0 = point ∧ F2.p1 = f.p1 ∧
      pts[f.p0]? = some pa ∧ pts[f.p1]? = some pb ∧ pts[point]? = some pc ∧
      0 < (pc.x - pa.x) * (pb.y - pc.y) - (pc.y - pa.y) * (pb.x - pc.x) := by
  obtain ⟨hok, hvis, hgeo, live, hch⟩ := hinv
  have hfo := hok.1 i f hf
  have hmem := (@support_mem K (fieldNum K sq) negMax f.normal pts f.visible point hp).1
  have hpl : point < pts.size := hfo.1.2.2 point hmem
  have hli := hch.valid_live i f hf hv
  obtain ⟨hch', F1, F2, g1, g2, a1, a2, b1, b2⟩ := @step_chain K (fieldNum K sq) eps100 pts st live i f point hch hf hli
  have hok' : @StateOK K pts.size (@stepState K (fieldNum K sq) eps100 pts st i f point) :=
    @attach_ok K (fieldNum K sq) pts.size eps100 pts _ _ _ _ _ (@invalidate_ok K (fieldNum K sq) _ _ hok i)
      (by rw [@invalidate_size K (fieldNum K sq)]; exact hfo.2.2) (by rw [@invalidate_size K (fieldNum K sq)]; exact hfo.2.1) hpl
  have hvis' : @VisOK K (fieldNum K sq) eps100 pts (@stepState K (fieldNum K sq) eps100 pts st i f point) :=
    @attach_vis K (fieldNum K sq) eps100 pts _ _ _ _ _ (@invalidate_vis K (fieldNum K sq) _ _ _ hvis i)
  have hgeo' := @step_geo K (fieldNum K sq) eps100 pts st i f point hgeo
  refine ⟨⟨hok', hvis', hgeo', _, hch'⟩, ?_⟩
  -- the geometry of the split
  have ia := hfo.1.1
  have ib := hfo.1.2.1
  have hleft := visible_point_strictly_right sq hsq eps100 h0 pts f point (pts[f.p0]'ia) (pts[f.p1]'ib) (pts[point]'hpl)
    (Array.getElem?_eq_getElem _) (Array.getElem?_eq_getElem _) (Array.getElem?_eq_getElem _)
    (hgeo i f hf).1 ((hgeo i f hf).2 hv) (hvis i f hf point hmem)
  generalize hpa : pts[f.p0]'ia = pa at hleft
  generalize hpb : pts[f.p1]'ib = pb at hleft
  generalize hpc : pts[point]'hpl = pc at hleft
  have ea : pts[f.p0]? = some pa := by rw [← hpa]; exact Array.getElem?_eq_getElem _
  have eb : pts[f.p1]? = some pb := by rw [← hpb]; exact Array.getElem?_eq_getElem _
  have ec : pts[point]? = some pc := by rw [← hpc]; exact Array.getElem?_eq_getElem _
  have v1 : F1.valid = true := by
    obtain ⟨_, hvv⟩ := hgeo' _ F1 g1
    obtain ⟨G1, G2, q1, _, _, _, _, _, _, _, _, _, _, c2, _, _⟩ := @stepState_get_new K (fieldNum K sq) eps100 pts st i f point
    rw [g1] at q1; cases q1
    rw [c2, a1, a2]
    refine new_valid_of_ne sq hsq pts _ _ pa pc ea ec ?_
    by_contra hc
    push Not at hc
    rw [hc.1, hc.2] at hleft
    nlinarith
  have v2 : F2.valid = true := by
    obtain ⟨G1, G2, _, q2, _, _, _, _, _, _, _, _, _, _, _, c4⟩ := @stepState_get_new K (fieldNum K sq) eps100 pts st i f point
    rw [g2] at q2; cases q2
    rw [c4, b1, b2]
    refine new_valid_of_ne sq hsq pts _ _ pc pb ec eb ?_
    by_contra hc
    push Not at hc
    rw [hc.1, hc.2] at hleft
    nlinarith
  refine ⟨F1, F2, pa, pb, pc, g1, g2, v1, v2, a1, a2, b1, b2, ea, eb, ec, ?_⟩
  nlinarith

/-- **the loop invariants hold in every state reached by the main loop** and, if the initial polyline has a valid facet, so
does every later state (each removed valid facet is replaced by two valid ones). -/
theorem hullLoop_loopInv (hsq : LawfulSqrt sq) (negMax eps100 : K) (h0 : 0 ≤ eps100) (pts : Array (V2 K))
    (st0 : HullState K) (fuel i : Nat) (h : @initialPolyline K (fieldNum K sq) negMax eps100 pts = some st0)
    (hval : ∃ (k : Nat) (g : SegFacet K), st0.segs[k]? = some g ∧ g.valid = true) :
    LoopInv sq eps100 pts (@hullLoop K (fieldNum K sq) negMax eps100 pts fuel i st0) ∧
    ∃ (k : Nat) (g : SegFacet K), (@hullLoop K (fieldNum K sq) negMax eps100 pts fuel i st0).segs[k]? = some g ∧ g.valid = true := by
  refine @hullLoop_induct' K (fieldNum K sq) negMax eps100 pts
    (fun s => LoopInv sq eps100 pts s ∧ ∃ (k : Nat) (g : SegFacet K), s.segs[k]? = some g ∧ g.valid = true) ?_ fuel i st0
    ⟨initialPolyline_loopInv sq negMax eps100 pts st0 h, hval⟩
  rintro s i f point ⟨hinv, _⟩ hf hv hp
  obtain ⟨hinv', F1, _, _, _, _, g1, _, v1, _⟩ := step_convex_corner sq hsq negMax eps100 h0 pts s i f point hinv hf hv hp
  exact ⟨hinv', _, F1, g1, v1⟩

/-- **the walk always finds a starting facet**: under the same hypotheses `convex_hull2_idx` does not run off the end of
`segments` in `while !segments[curr_facet].valid` (the model's second `none`). -/
theorem convexHull2Idx_some_of_valid_start (hsq : LawfulSqrt sq) (negMax eps100 : K) (h0 : 0 ≤ eps100) (pts : Array (V2 K))
    (st0 : HullState K) (h : @initialPolyline K (fieldNum K sq) negMax eps100 pts = some st0)
    (hval : ∃ (k : Nat) (g : SegFacet K), st0.segs[k]? = some g ∧ g.valid = true) :
    ∃ idx, @convexHull2Idx K (fieldNum K sq) negMax eps100 pts = some idx := by
  obtain ⟨_, k, g, hg, hv⟩ := hullLoop_loopInv sq hsq negMax eps100 h0 pts st0 (2 * pts.size + 8) 0 h hval
  unfold convexHull2Idx
  rw [h]
  simp only
  cases hfind : (List.range (@hullLoop K (fieldNum K sq) negMax eps100 pts (2 * pts.size + 8) 0 st0).segs.size).find?
      (fun i => ((@hullLoop K (fieldNum K sq) negMax eps100 pts (2 * pts.size + 8) 0 st0).segs[i]?.map (·.valid)).getD false) with
  | some first => exact ⟨_, rfl⟩
  | none =>
    exfalso
    rw [List.find?_eq_none] at hfind
    have := hfind k (List.mem_range.mpr (Array.getElem?_eq_some_iff.mp hg).1)
    simp [hg, hv] at this

end Geometry
end C12
