import ParryModel.C12.Hull3
/-!
# C12 lemmas for the 3-D quickhull model (`Hull3.lean`): facet links.  Core Lean only; every `Num` instance.
-/
namespace C12.H3
open Model Model.H3
variable {K : Type} [Num K]

theorem lt3 {j : Nat} (h : j < 3) : j = 0 ∨ j = 1 ∨ j = 2 := by omega

theorem T3_get_set (t : T3) (j v k : Nat) (hj : j < 3) (hk : k < 3) :
    (t.set j v).get k = if k = j then v else t.get k := by
  rcases lt3 hj with rfl | rfl | rfl <;> rcases lt3 hk with rfl | rfl | rfl <;> simp [T3.get, T3.set]

theorem tAt_set (ts : Array (Facet K)) (i j : Nat) (v : Facet K) :
    tAt (ts.setIfInBounds i v) j = if i = j ∧ i < ts.size then v else tAt ts j := by
  unfold tAt
  rw [Array.getElem?_setIfInBounds]
  by_cases h : i = j
  · subst h
    by_cases h2 : i < ts.size
    · simp [h2]
    · simp [h2]
  · simp [h]

theorem tAt_lt (ts : Array (Facet K)) (i : Nat) (h : i < ts.size) : ts[i]? = some (tAt ts i) := by
  unfold tAt; simp [h]

theorem tAt_append (a b : Array (Facet K)) (i : Nat) :
    tAt (a ++ b) i = if i < a.size then tAt a i else tAt b (i - a.size) := by
  unfold tAt
  by_cases h : i < a.size
  · simp [h, Array.getElem?_append_left]
  · simp only [h, if_false]
    rw [Array.getElem?_append_right (by omega)]

/-- the links-relevant fields -/
def SameLinks (a b : Array (Facet K)) : Prop :=
  a.size = b.size ∧ ∀ i, (tAt a i).valid = (tAt b i).valid ∧ (tAt a i).adj = (tAt b i).adj ∧
    (tAt a i).ind = (tAt b i).ind ∧ (tAt a i).pts = (tAt b i).pts

theorem SameLinks.refl (a : Array (Facet K)) : SameLinks a a := ⟨rfl, fun _ => ⟨rfl, rfl, rfl, rfl⟩⟩

theorem SameLinks.trans {a b c : Array (Facet K)} (h1 : SameLinks a b) (h2 : SameLinks b c) : SameLinks a c := by
  refine ⟨h1.1.trans h2.1, fun i => ?_⟩
  obtain ⟨a1, a2, a3, a4⟩ := h1.2 i
  obtain ⟨b1, b2, b3, b4⟩ := h2.2 i
  exact ⟨a1.trans b1, a2.trans b2, a3.trans b3, a4.trans b4⟩

theorem sameLinks_addVis (nf : Array (Facet K)) (j p : Nat) (pts : Array (V3 K)) (f : Facet K)
    (h : (tAt nf j).addVis p pts = some f) : SameLinks (nf.setIfInBounds j f) nf := by
  unfold Facet.addVis at h
  split at h
  · simp only [Option.some.injEq] at h
    subst h
    refine ⟨by simp, fun i => ?_⟩
    rw [tAt_set]
    by_cases hc : j = i ∧ j < nf.size
    · rw [if_pos hc]; obtain ⟨rfl, _⟩ := hc; exact ⟨rfl, rfl, rfl, rfl⟩
    · rw [if_neg hc]; exact ⟨rfl, rfl, rfl, rfl⟩
  · exact absurd h (by simp)

theorem sameLinks_redistribute (pts : Array (V3 K)) (point : Nat) (nf nf' : Array (Facet K)) (vp : Nat)
    (h : redistribute pts point nf vp = some nf') : SameLinks nf' nf := by
  unfold redistribute at h
  split at h
  · simp only [Option.some.injEq] at h; subst h; exact SameLinks.refl _
  · split at h
    · simp only [Option.some.injEq] at h; subst h; exact SameLinks.refl _
    · split at h
      · split at h
        · rename_i f hf
          simp only [Option.some.injEq] at h; subst h
          exact sameLinks_addVis _ _ _ _ _ hf
        · exact absurd h (by simp)
      · simp only [Option.some.injEq] at h; subst h; exact SameLinks.refl _

theorem sameLinks_foldlM (pts : Array (V3 K)) (point : Nat) : ∀ (l : List Nat) (nf nf' : Array (Facet K)),
    l.foldlM (fun nf vp => redistribute pts point nf vp) nf = some nf' → SameLinks nf' nf := by
  intro l
  induction l with
  | nil => intro nf nf' h; simp at h; subst h; exact SameLinks.refl _
  | cons a l ih =>
    intro nf nf' h
    simp only [List.foldlM_cons] at h
    cases hr : redistribute pts point nf a with
    | none => simp [hr] at h
    | some nf1 =>
      simp only [hr] at h
      exact (ih nf1 nf' h).trans (sameLinks_redistribute _ _ _ _ _ hr)

theorem sameLinks_assignUndecidable (pts : Array (V3 K)) : ∀ (fuel i : Nat) (und : Array Nat) (nf : Array (Facet K))
    (und' : Array Nat) (nf' : Array (Facet K)),
    H3.assignUndecidable pts fuel i und nf = some (und', nf') → SameLinks nf' nf := by
  intro fuel
  induction fuel with
  | zero => intro i und nf und' nf' h; simp [H3.assignUndecidable] at h; obtain ⟨_, rfl⟩ := h; exact SameLinks.refl _
  | succ fuel ih =>
    intro i und nf und' nf' h
    unfold H3.assignUndecidable at h
    split at h
    · simp at h; obtain ⟨_, rfl⟩ := h; exact SameLinks.refl _
    · simp only at h
      split at h
      · split at h
        · rename_i f hf
          exact (ih _ _ _ _ _ h).trans (sameLinks_addVis _ _ _ _ _ hf)
        · exact absurd h (by simp)
      · exact ih _ _ _ _ _ h


/-! ## the linking loop of `attach_and_push_facets` -/

def prevOf (n m i : Nat) : Nat := if i = 0 then n + m - 1 else n + i - 1
def nextOf (n m i : Nat) : Nat := n + (i + 1) % m

/-- what the linking loop needs from the silhouette: entries are half-edges `(facet, edge)` in range whose current neighbour across
that edge is an existing facet that is not valid (it was removed), and no half-edge is listed twice -/
structure SilPre (ts : Array (Facet K)) (sil : Array (Nat × Nat)) : Prop where
  rng : ∀ (i a j : Nat), sil[i]? = some (a, j) → a < ts.size ∧ j < 3 ∧ (tAt ts a).adj.get j < ts.size ∧
    (tAt ts ((tAt ts a).adj.get j)).valid = false
  nd : ∀ (i i' : Nat) (e : Nat × Nat), sil[i]? = some e → sil[i']? = some e → i = i'

def LinkInv (ts0 nf0 : Array (Facet K)) (sil : Array (Nat × Nat)) (k : Nat) (st : LinkSt K) : Prop :=
  st.panic = false ∧ st.ts.size = ts0.size ∧ st.nf.size = nf0.size ∧
  (∀ a, (tAt st.ts a).valid = (tAt ts0 a).valid ∧ (tAt st.ts a).pts = (tAt ts0 a).pts ∧
     ∀ j, j < 3 →
       ((∀ i, i < k → sil[i]? ≠ some (a, j)) →
          (tAt st.ts a).adj.get j = (tAt ts0 a).adj.get j ∧ (tAt st.ts a).ind.get j = (tAt ts0 a).ind.get j) ∧
       (∀ i, i < k → sil[i]? = some (a, j) → (tAt st.ts a).adj.get j = ts0.size + i ∧ (tAt st.ts a).ind.get j = 1)) ∧
  (∀ i, i < k → ∀ e, sil[i]? = some e →
      (tAt st.nf i).valid = (tAt nf0 i).valid ∧ (tAt st.nf i).pts = (tAt nf0 i).pts ∧
      (tAt st.nf i).adj = ⟨prevOf ts0.size sil.size i, e.1, nextOf ts0.size sil.size i⟩ ∧ (tAt st.nf i).ind = ⟨2, e.2, 0⟩) ∧
  (∀ i, k ≤ i → tAt st.nf i = tAt nf0 i)

theorem linkStep_inv (ts0 nf0 : Array (Facet K)) (sil : Array (Nat × Nat)) (hp : SilPre ts0 sil)
    (hnf : nf0.size = sil.size) (k : Nat) (hk : k < sil.size) (st : LinkSt K) (h : LinkInv ts0 nf0 sil k st) :
    LinkInv ts0 nf0 sil (k + 1) (linkStep ts0.size sil.size sil st k) := by
  obtain ⟨hpan, hts, hnfs, hA, hB, hC⟩ := h
  have he : sil[k]? = some ((sil[k]?).getD (0, 0)) := by simp [hk]
  generalize hedef : (sil[k]?).getD (0, 0) = e at he
  obtain ⟨ea, ej⟩ := e
  obtain ⟨ha, hj, hadj, hinv⟩ := hp.rng k ea ej he
  have hne : ∀ i, i < k → sil[i]? ≠ some (ea, ej) := fun i hi hc => by
    have := hp.nd i k _ hc he; omega
  obtain ⟨hv, hpts, hJ⟩ := hA ea
  obtain ⟨hadj0, hind0⟩ := (hJ ej hj).1 hne
  have hlook : st.ts[(tAt st.ts ea).adj.get ej]? = some (tAt st.ts ((tAt ts0 ea).adj.get ej)) := by
    rw [hadj0]; exact tAt_lt _ _ (by omega)
  have hgv : (tAt st.ts ((tAt ts0 ea).adj.get ej)).valid = false := by rw [(hA _).1]; exact hinv
  unfold linkStep
  simp only [hpan, Bool.false_eq_true, if_false, hedef]
  split
  · rename_i hnone; rw [hlook] at hnone; exact absurd hnone (by simp)
  · rename_i g hsome
    rw [hlook] at hsome
    simp only [Option.some.injEq] at hsome
    subst hsome
    simp only [hgv, Bool.false_eq_true, if_false]
    refine ⟨rfl, by simp [hts], by simp [hnfs], ?_, ?_, ?_⟩
    · intro a
      simp only [tAt_set]
      by_cases hc : ea = a ∧ ea < st.ts.size
      · obtain ⟨rfl, hlt⟩ := hc
        rw [if_pos ⟨rfl, hlt⟩]
        refine ⟨hv, hpts, fun j hj' => ?_⟩
        dsimp only
        rw [T3_get_set _ _ _ _ hj hj', T3_get_set _ _ _ _ hj hj']
        by_cases hjj : j = ej
        · subst hjj
          simp only [if_true]
          refine ⟨fun hall => absurd he (hall k (by omega)), fun i hi hs => ?_⟩
          have := hp.nd i k _ hs he
          subst this; simp
        · simp only [hjj, if_false]
          have hnk : sil[k]? ≠ some (ea, j) := by rw [he]; simp; omega
          refine ⟨fun hall => (hJ j hj').1 (fun i hi => hall i (by omega)), fun i hi hs => ?_⟩
          have hik : i ≠ k := fun hh => hnk (hh ▸ hs)
          exact (hJ j hj').2 i (by omega) hs
      · rw [if_neg hc]
        have hae : ea ≠ a := fun hh => hc ⟨hh, by omega⟩
        obtain ⟨hv', hpts', hJ'⟩ := hA a
        refine ⟨hv', hpts', fun j hj' => ?_⟩
        have hnk : sil[k]? ≠ some (a, j) := by rw [he]; simp; omega
        refine ⟨fun hall => (hJ' j hj').1 (fun i hi => hall i (by omega)), fun i hi hs => ?_⟩
        have hik : i ≠ k := fun hh => hnk (hh ▸ hs)
        exact (hJ' j hj').2 i (by omega) hs
    · intro i hi e' he'
      simp only [tAt_set]
      by_cases hik : i = k
      · subst hik
        rw [he] at he'
        simp only [Option.some.injEq] at he'
        subst he'
        have : i < st.nf.size := by omega
        rw [if_pos ⟨rfl, this⟩]
        have hci := hC i (Nat.le_refl _)
        refine ⟨?_, ?_, rfl, rfl⟩
        · show (tAt st.nf i).valid = (tAt nf0 i).valid
          rw [hci]
        · show (tAt st.nf i).pts = (tAt nf0 i).pts
          rw [hci]
      · have : ¬ (k = i ∧ k < st.nf.size) := fun hh => hik hh.1.symm
        rw [if_neg this]
        exact hB i (by omega) e' he'
    · intro i hi
      simp only [tAt_set]
      have : ¬ (k = i ∧ k < st.nf.size) := fun hh => by omega
      rw [if_neg this]
      exact hC i (by omega)

theorem linkFold_inv (ts0 nf0 : Array (Facet K)) (sil : Array (Nat × Nat)) (hp : SilPre ts0 sil)
    (hnf : nf0.size = sil.size) : ∀ k, k ≤ sil.size →
    LinkInv ts0 nf0 sil k ((List.range k).foldl (linkStep ts0.size sil.size sil) ⟨ts0, nf0, false⟩) := by
  intro k
  induction k with
  | zero =>
    intro _
    refine ⟨rfl, rfl, rfl, fun a => ⟨rfl, rfl, fun j _ => ⟨fun _ => ⟨rfl, rfl⟩, fun i hi => absurd hi (by omega)⟩⟩,
      fun i hi => absurd hi (by omega), fun i _ => rfl⟩
  | succ k ih =>
    intro hk
    rw [List.range_succ, List.foldl_append]
    exact linkStep_inv ts0 nf0 sil hp hnf k (by omega) _ (ih (by omega))


/-! ## `attach_and_push_facets` keeps the facet links consistent -/

/-- what `check_facet_links` asserts, for every valid facet: each of its three half-edges is glued to a half-edge of a valid facet,
glued back to it, with the two end points in the opposite order -/
def Twin (ts : Array (Facet K)) : Prop :=
  ∀ i, i < ts.size → (tAt ts i).valid = true → ∀ j, j < 3 →
    (tAt ts i).adj.get j < ts.size ∧ (tAt ts i).ind.get j < 3 ∧
    (tAt ts ((tAt ts i).adj.get j)).valid = true ∧
    (tAt ts ((tAt ts i).adj.get j)).adj.get ((tAt ts i).ind.get j) = i ∧
    (tAt ts ((tAt ts i).adj.get j)).ind.get ((tAt ts i).ind.get j) = j ∧
    first (tAt ts ((tAt ts i).adj.get j)) ((tAt ts i).ind.get j) = second (tAt ts i) j ∧
    second (tAt ts ((tAt ts i).adj.get j)) ((tAt ts i).ind.get j) = first (tAt ts i) j

/-- the state handed to `attach_and_push_facets`: some facets have been invalidated; `sil` lists exactly the half-edges of valid
facets whose neighbour was invalidated, each once, in an order that forms ONE closed loop; links between valid facets are consistent -/
structure PreAttach (ts : Array (Facet K)) (sil : Array (Nat × Nat)) : Prop where
  pre : SilPre ts sil
  vld : ∀ (i a j : Nat), sil[i]? = some (a, j) → (tAt ts a).valid = true
  complete : ∀ a, a < ts.size → (tAt ts a).valid = true → ∀ j, j < 3 →
    (tAt ts ((tAt ts a).adj.get j)).valid = false → ∃ i : Nat, sil[i]? = some (a, j)
  loop : ∀ (i : Nat) (e e' : Nat × Nat), sil[i]? = some e → sil[(i + 1) % sil.size]? = some e' → secondOf ts e' = firstOf ts e
  twinV : ∀ a, a < ts.size → (tAt ts a).valid = true → ∀ j, j < 3 →
    (tAt ts a).adj.get j < ts.size ∧ (tAt ts a).ind.get j < 3 ∧
    ((tAt ts ((tAt ts a).adj.get j)).valid = true →
      (tAt ts ((tAt ts a).adj.get j)).adj.get ((tAt ts a).ind.get j) = a ∧
      (tAt ts ((tAt ts a).adj.get j)).ind.get ((tAt ts a).ind.get j) = j ∧
      first (tAt ts ((tAt ts a).adj.get j)) ((tAt ts a).ind.get j) = second (tAt ts a) j ∧
      second (tAt ts ((tAt ts a).adj.get j)) ((tAt ts a).ind.get j) = first (tAt ts a) j)

/-- closed form of the result of `attach_and_push_facets` (it never panics under `SilPre`) -/
theorem attach_closed_form (pts : Array (V3 K)) (point : Nat) (sil : Array (Nat × Nat)) (removed : Array Nat)
    (ts : Array (Facet K)) (und : Array Nat) (ts' : Array (Facet K)) (und' : Array Nat) (hp : SilPre ts sil)
    (h : attachAndPush pts point sil removed ts und = some (ts', und')) :
    ∃ (ts1 nf : Array (Facet K)), ts' = ts1 ++ nf ∧ ts1.size = ts.size ∧ nf.size = sil.size ∧
      (∀ a, (tAt ts1 a).valid = (tAt ts a).valid ∧ (tAt ts1 a).pts = (tAt ts a).pts ∧
        ∀ j, j < 3 →
          ((∀ i : Nat, sil[i]? ≠ some (a, j)) →
            (tAt ts1 a).adj.get j = (tAt ts a).adj.get j ∧ (tAt ts1 a).ind.get j = (tAt ts a).ind.get j) ∧
          (∀ i : Nat, sil[i]? = some (a, j) → (tAt ts1 a).adj.get j = ts.size + i ∧ (tAt ts1 a).ind.get j = 1)) ∧
      (∀ (q : Nat) (e : Nat × Nat), sil[q]? = some e →
        (tAt nf q).valid = true ∧ (tAt nf q).pts = ⟨point, secondOf ts e, firstOf ts e⟩ ∧
        (tAt nf q).adj = ⟨prevOf ts.size sil.size q, e.1, nextOf ts.size sil.size q⟩ ∧ (tAt nf q).ind = ⟨2, e.2, 0⟩) := by
  have hnf0 : (newFacets pts point ts sil).size = sil.size := by simp [newFacets]
  have hinv := linkFold_inv ts (newFacets pts point ts sil) sil hp hnf0 sil.size (Nat.le_refl _)
  unfold attachAndPush at h
  simp only at h
  generalize hst : (List.range sil.size).foldl (linkStep ts.size sil.size sil) ⟨ts, newFacets pts point ts sil, false⟩ = st at h hinv
  obtain ⟨hpan, hts, hnfs, hA, hB, hC⟩ := hinv
  simp only [hpan, Bool.false_eq_true, if_false] at h
  split at h
  · exact absurd h (by simp)
  · rename_i nf1 hnf1
    split at h
    · exact absurd h (by simp)
    · rename_i und2 nf2 hnf2
      simp only [Option.some.injEq, Prod.mk.injEq] at h
      obtain ⟨rfl, _⟩ := h
      have hsl : SameLinks nf2 st.nf :=
        (sameLinks_assignUndecidable _ _ _ _ _ _ _ hnf2).trans (sameLinks_foldlM _ _ _ _ _ hnf1)
      refine ⟨st.ts, nf2, rfl, hts, by rw [hsl.1, hnfs, hnf0], ?_, ?_⟩
      · intro a
        obtain ⟨h1, h2, h3⟩ := hA a
        refine ⟨h1, h2, fun j hj => ⟨fun hall => (h3 j hj).1 (fun i _ => hall i), fun i hs => ?_⟩⟩
        have hi : i < sil.size := by
          rcases Nat.lt_or_ge i sil.size with hlt | hge
          · exact hlt
          · rw [Array.getElem?_eq_none hge] at hs; exact absurd hs (by simp)
        exact (h3 j hj).2 i hi hs
      · intro q e hs
        have hq : q < sil.size := by
          rcases Nat.lt_or_ge q sil.size with hlt | hge
          · exact hlt
          · rw [Array.getElem?_eq_none hge] at hs; exact absurd hs (by simp)
        obtain ⟨b1, b2, b3, b4⟩ := hB q hq e hs
        obtain ⟨s1, s2, s3, s4⟩ := hsl.2 q
        have hnew : tAt (newFacets pts point ts sil) q = Facet.new point (secondOf ts e) (firstOf ts e) pts := by
          unfold tAt newFacets
          rw [Array.getElem?_map, hs]; rfl
        refine ⟨?_, ?_, s2.trans b3, s3.trans b4⟩
        · rw [s1, b1, hnew]; rfl
        · rw [s4, b2, hnew]; rfl


theorem getElem?_lt_of_some {α} (a : Array α) (i : Nat) (x : α) (h : a[i]? = some x) : i < a.size := by
  rcases Nat.lt_or_ge i a.size with hlt | hge
  · exact hlt
  · rw [Array.getElem?_eq_none hge] at h; exact absurd h (by simp)

theorem T3_get0 (a b c : Nat) : (⟨a, b, c⟩ : T3).get 0 = a := rfl
theorem T3_get1 (a b c : Nat) : (⟨a, b, c⟩ : T3).get 1 = b := rfl
theorem T3_get2 (a b c : Nat) : (⟨a, b, c⟩ : T3).get 2 = c := rfl

/-- **the cone over a closed silhouette loop re-closes the surface** -/
theorem attach_twin (pts : Array (V3 K)) (point : Nat) (sil : Array (Nat × Nat)) (removed : Array Nat)
    (ts : Array (Facet K)) (und : Array Nat) (ts' : Array (Facet K)) (und' : Array Nat) (hp : PreAttach ts sil)
    (h : attachAndPush pts point sil removed ts und = some (ts', und')) : Twin ts' := by
  obtain ⟨ts1, nf, rfl, hs1, hs2, hA, hB⟩ := attach_closed_form pts point sil removed ts und ts' und' hp.pre h
  have hsz : (ts1 ++ nf).size = ts.size + sil.size := by simp [hs1, hs2]
  have hold : ∀ a, a < ts.size → tAt (ts1 ++ nf) a = tAt ts1 a := fun a ha => by
    rw [tAt_append, if_pos (by omega)]
  have hnew : ∀ q, tAt (ts1 ++ nf) (ts.size + q) = tAt nf q := fun q => by
    rw [tAt_append, if_neg (by omega)]; congr 1; omega
  intro i hi hv j hj
  rw [hsz] at hi
  by_cases hin : i < ts.size
  · -- an old facet
    rw [hold i hin] at hv ⊢
    obtain ⟨a1, a2, a3⟩ := hA i
    have hv0 : (tAt ts i).valid = true := by rw [← a1]; exact hv
    obtain ⟨t1, t2, t3⟩ := hp.twinV i hin hv0 j hj
    by_cases hex : ∃ q : Nat, sil[q]? = some (i, j)
    · obtain ⟨q, hq⟩ := hex
      obtain ⟨c1, c2⟩ := (a3 j hj).2 q hq
      have hql := getElem?_lt_of_some _ _ _ hq
      obtain ⟨b1, b2, b3, b4⟩ := hB q (i, j) hq
      rw [c1, c2, hnew q, hsz]
      refine ⟨by omega, by omega, b1, ?_, ?_, ?_, ?_⟩
      · rw [b3]; rfl
      · rw [b4]; rfl
      · unfold first second; rw [b2, a2]; rfl
      · unfold first second; rw [b2, a2]; rfl
    · have hall : ∀ q : Nat, sil[q]? ≠ some (i, j) := fun q hq => hex ⟨q, hq⟩
      obtain ⟨c1, c2⟩ := (a3 j hj).1 hall
      have hgv : (tAt ts ((tAt ts i).adj.get j)).valid = true := by
        cases hc : (tAt ts ((tAt ts i).adj.get j)).valid with
        | true => rfl
        | false => obtain ⟨q, hq⟩ := hp.complete i hin hv0 j hj hc; exact absurd hq (hall q)
      obtain ⟨u1, u2, u3, u4⟩ := t3 hgv
      rw [c1, c2, hold _ t1, hsz]
      obtain ⟨g1, g2, g3⟩ := hA ((tAt ts i).adj.get j)
      have hall2 : ∀ q : Nat, sil[q]? ≠ some ((tAt ts i).adj.get j, (tAt ts i).ind.get j) := fun q hq => by
        have := (hp.pre.rng q _ _ hq).2.2.2
        rw [u1, hv0] at this
        exact absurd this (by simp)
      obtain ⟨d1, d2⟩ := (g3 _ t2).1 hall2
      refine ⟨by omega, t2, by rw [g1]; exact hgv, by rw [d1]; exact u1, by rw [d2]; exact u2, ?_, ?_⟩
      · unfold first second at u3 ⊢; rw [g2, a2]; exact u3
      · unfold first second at u4 ⊢; rw [g2, a2]; exact u4
  · -- a new facet
    obtain ⟨q, rfl⟩ : ∃ q, i = ts.size + q := ⟨i - ts.size, by omega⟩
    have hq : q < sil.size := by omega
    have hm : 0 < sil.size := by omega
    rw [hnew q] at hv ⊢
    have hsq : sil[q]? = some ((sil[q]?).getD (0, 0)) := by simp [hq]
    generalize (sil[q]?).getD (0, 0) = e at hsq
    obtain ⟨b1, b2, b3, b4⟩ := hB q e hsq
    rcases lt3 hj with rfl | rfl | rfl
    · -- edge 0: the previous facet of the fan
      rw [b3, b4, T3_get0, T3_get0]
      obtain ⟨p, hp1, hp2, hp3⟩ : ∃ p, prevOf ts.size sil.size q = ts.size + p ∧ p < sil.size ∧ (p + 1) % sil.size = q := by
        unfold prevOf
        by_cases h0 : q = 0
        · subst h0
          refine ⟨sil.size - 1, by rw [if_pos rfl]; omega, by omega, ?_⟩
          have : sil.size - 1 + 1 = sil.size := by omega
          rw [this, Nat.mod_self]
        · refine ⟨q - 1, by rw [if_neg h0]; omega, by omega, ?_⟩
          have : q - 1 + 1 = q := by omega
          rw [this, Nat.mod_eq_of_lt hq]
      have hsp : sil[p]? = some ((sil[p]?).getD (0, 0)) := by simp [hp2]
      generalize (sil[p]?).getD (0, 0) = e' at hsp
      obtain ⟨e1, e2, e3, e4⟩ := hB p e' hsp
      rw [hp1, hnew p, hsz]
      refine ⟨by omega, by omega, e1, ?_, ?_, ?_, ?_⟩
      · rw [e3, T3_get2]; unfold nextOf; rw [hp3]
      · rw [e4]; rfl
      · unfold first second; rw [e2, b2]
        show firstOf ts e' = secondOf ts e
        exact (hp.loop p e' e hsp (by rw [hp3]; exact hsq)).symm
      · unfold first second; rw [e2, b2]; rfl
    · -- edge 1: the facet on the other side of the silhouette edge
      obtain ⟨ea, ej⟩ := e
      obtain ⟨r1, r2, r3, r4⟩ := hp.pre.rng q ea ej hsq
      rw [b3, b4, T3_get1, T3_get1, hold ea r1, hsz]
      obtain ⟨g1, g2, g3⟩ := hA ea
      obtain ⟨d1, d2⟩ := (g3 ej r2).2 q hsq
      refine ⟨by omega, r2, by rw [g1]; exact hp.vld q ea ej hsq, d1, d2, ?_, ?_⟩
      · unfold first second; rw [g2, b2]; rfl
      · unfold first second; rw [g2, b2]; rfl
    · -- edge 2: the next facet of the fan
      rw [b3, b4, T3_get2, T3_get2]
      have hq' : (q + 1) % sil.size < sil.size := Nat.mod_lt _ hm
      have hsn : sil[(q + 1) % sil.size]? = some ((sil[(q + 1) % sil.size]?).getD (0, 0)) := by simp [hq']
      generalize (sil[(q + 1) % sil.size]?).getD (0, 0) = e' at hsn
      obtain ⟨e1, e2, e3, e4⟩ := hB _ e' hsn
      unfold nextOf
      rw [hnew _, hsz]
      refine ⟨by omega, by omega, e1, ?_, ?_, ?_, ?_⟩
      · rw [e3, T3_get0]; unfold prevOf
        by_cases hlt : q + 1 < sil.size
        · rw [Nat.mod_eq_of_lt hlt, if_neg (by omega)]; omega
        · have : q + 1 = sil.size := by omega
          rw [this, Nat.mod_self, if_pos rfl]; omega
      · rw [e4]; rfl
      · unfold first second; rw [e2, b2]; rfl
      · unfold first second; rw [e2, b2]
        show secondOf ts e' = firstOf ts e
        exact hp.loop q e e' hsq hsn


/-! ## `compute_silhouette` -/

/-- `a` is `b` with some facets invalidated (nothing else changes) -/
def Shrunk (a b : Array (Facet K)) : Prop :=
  a.size = b.size ∧ ∀ i, (tAt a i).adj = (tAt b i).adj ∧ (tAt a i).ind = (tAt b i).ind ∧ (tAt a i).pts = (tAt b i).pts ∧
    (tAt a i).affDep = (tAt b i).affDep ∧ (tAt a i).normal = (tAt b i).normal ∧ (tAt a i).vis = (tAt b i).vis ∧
    ((tAt a i).valid = true → (tAt b i).valid = true)

theorem Shrunk.refl (a : Array (Facet K)) : Shrunk a a := ⟨rfl, fun _ => ⟨rfl, rfl, rfl, rfl, rfl, rfl, id⟩⟩

theorem Shrunk.trans {a b c : Array (Facet K)} (h1 : Shrunk a b) (h2 : Shrunk b c) : Shrunk a c := by
  refine ⟨h1.1.trans h2.1, fun i => ?_⟩
  obtain ⟨a1, a2, a3, a4, a5, a6, a7⟩ := h1.2 i
  obtain ⟨b1, b2, b3, b4, b5, b6, b7⟩ := h2.2 i
  exact ⟨a1.trans b1, a2.trans b2, a3.trans b3, a4.trans b4, a5.trans b5, a6.trans b6, fun h => b7 (a7 h)⟩

theorem tAt_invalidate (ts : Array (Facet K)) (i a : Nat) :
    tAt (invalidate ts i) a = if i = a ∧ i < ts.size then { tAt ts i with valid := false } else tAt ts a := by
  unfold invalidate; rw [tAt_set]

theorem shrunk_invalidate (ts : Array (Facet K)) (i : Nat) : Shrunk (invalidate ts i) ts := by
  refine ⟨by simp [invalidate], fun a => ?_⟩
  rw [tAt_invalidate]
  by_cases hc : i = a ∧ i < ts.size
  · rw [if_pos hc]; obtain ⟨rfl, _⟩ := hc
    exact ⟨rfl, rfl, rfl, rfl, rfl, rfl, fun h => absurd h (by simp)⟩
  · rw [if_neg hc]; exact ⟨rfl, rfl, rfl, rfl, rfl, rfl, id⟩

theorem invalidate_valid (ts : Array (Facet K)) (i : Nat) : (tAt (invalidate ts i) i).valid = false := by
  rw [tAt_invalidate]
  by_cases hc : i < ts.size
  · rw [if_pos ⟨rfl, hc⟩]
  · rw [if_neg (fun h => hc h.2)]
    unfold tAt; rw [Array.getElem?_eq_none (by omega)]; rfl

theorem seenBy_congr (f g : Facet K) (p : Nat) (pts : Array (V3 K)) (h1 : f.affDep = g.affDep) (h2 : f.pts = g.pts)
    (h3 : f.normal = g.normal) : f.seenBy p pts = g.seenBy p pts := by
  unfold Facet.seenBy; rw [h1, h2, h3]

/-- invariant of the silhouette search around `point`, relative to the facet array `ts0` at the start of the step -/
structure SilInv (ts0 : Array (Facet K)) (pts : Array (V3 K)) (point : Nat) (s : Sil K) : Prop where
  shr : Shrunk s.ts ts0
  out : ∀ (q a j : Nat), s.out[q]? = some (a, j) → a < ts0.size ∧ j < 3 ∧ (tAt s.ts a).valid = true ∧
    (tAt ts0 a).seenBy point pts = false ∧ (tAt s.ts ((tAt ts0 a).adj.get j)).valid = false

theorem computeSilhouette_inv (ts0 : Array (Facet K)) (pts : Array (V3 K)) (point : Nat) (hT : Twin ts0) :
    ∀ (fuel facet iid : Nat) (s : Sil K), SilInv ts0 pts point s → facet < ts0.size → iid < 3 →
      (tAt s.ts ((tAt ts0 facet).adj.get iid)).valid = false →
      SilInv ts0 pts point (computeSilhouette pts point fuel facet iid s) ∧
      Shrunk (computeSilhouette pts point fuel facet iid s).ts s.ts := by
  intro fuel
  induction fuel with
  | zero => intro facet iid s hs _ _ _; exact ⟨hs, Shrunk.refl _⟩
  | succ fuel ih =>
    intro facet iid s hs hf hi hcaller
    unfold computeSilhouette
    obtain ⟨e1, e2, e3, e4, e5, e6, e7⟩ := hs.shr.2 facet
    by_cases hv : (tAt s.ts facet).valid = true
    · simp only [hv, if_true]
      have hseen : (tAt s.ts facet).seenBy point pts = (tAt ts0 facet).seenBy point pts := seenBy_congr _ _ _ _ e4 e3 e5
      by_cases hsb : (tAt s.ts facet).seenBy point pts = true
      · simp only [hsb, Bool.not_true, Bool.false_eq_true, if_false]
        -- the facet is removed; two nested searches
        have hv0 : (tAt ts0 facet).valid = true := e7 hv
        have hshr1 : Shrunk (invalidate s.ts facet) s.ts := shrunk_invalidate _ _
        have hs1 : SilInv ts0 pts point { s with ts := invalidate s.ts facet, removed := s.removed.push facet } := by
          refine ⟨hshr1.trans hs.shr, fun q a j hq => ?_⟩
          obtain ⟨o1, o2, o3, o4, o5⟩ := hs.out q a j hq
          have hne : facet ≠ a := fun hh => by subst hh; rw [← hseen, hsb] at o4; exact absurd o4 (by simp)
          refine ⟨o1, o2, ?_, o4, ?_⟩
          · show (tAt (invalidate s.ts facet) a).valid = true
            rw [tAt_invalidate, if_neg (fun h => hne h.1)]; exact o3
          · show (tAt (invalidate s.ts facet) _).valid = false
            cases hc : (tAt (invalidate s.ts facet) ((tAt ts0 a).adj.get j)).valid with
            | false => rfl
            | true => have := (hshr1.2 _).2.2.2.2.2.2 hc; rw [o5] at this; exact absurd this (by simp)
        have hinvf : (tAt (invalidate s.ts facet) facet).valid = false := invalidate_valid _ _
        have hj1 : (iid + 1) % 3 < 3 := Nat.mod_lt _ (by omega)
        have hj2 : (iid + 2) % 3 < 3 := Nat.mod_lt _ (by omega)
        obtain ⟨t1, t2, _, t4, _, _, _⟩ := hT facet hf hv0 _ hj1
        obtain ⟨u1, u2, _, u4, _, _, _⟩ := hT facet hf hv0 _ hj2
        rw [e1, e2]
        obtain ⟨r1, r2⟩ := ih _ _ _ hs1 t1 t2 (by show (tAt (invalidate s.ts facet) _).valid = false; rw [t4]; exact hinvf)
        have hinvf2 : (tAt (computeSilhouette pts point fuel ((tAt ts0 facet).adj.get ((iid + 1) % 3))
            ((tAt ts0 facet).ind.get ((iid + 1) % 3))
            { s with ts := invalidate s.ts facet, removed := s.removed.push facet }).ts facet).valid = false := by
          cases hc : (tAt (computeSilhouette pts point fuel ((tAt ts0 facet).adj.get ((iid + 1) % 3))
            ((tAt ts0 facet).ind.get ((iid + 1) % 3))
            { s with ts := invalidate s.ts facet, removed := s.removed.push facet }).ts facet).valid with
          | false => rfl
          | true => have := (r2.2 facet).2.2.2.2.2.2 hc; rw [hinvf] at this; exact absurd this (by simp)
        obtain ⟨q1, q2⟩ := ih _ _ _ r1 u1 u2 (by rw [u4]; exact hinvf2)
        exact ⟨q1, q2.trans (r2.trans hshr1)⟩
      · have hsb' : (tAt s.ts facet).seenBy point pts = false := by
          cases hc : (tAt s.ts facet).seenBy point pts with
          | false => rfl
          | true => exact absurd hc hsb
        simp only [hsb', Bool.not_false, if_true]
        refine ⟨⟨hs.shr, fun q a j hq => ?_⟩, Shrunk.refl _⟩
        by_cases hql : q < s.out.size
        · rw [Array.getElem?_push_lt hql] at hq
          exact hs.out q a j (by rw [← hq]; simp [hql])
        · have hqe : q = s.out.size := by
            have := getElem?_lt_of_some _ _ _ hq
            simp at this; omega
          subst hqe
          simp only [Array.getElem?_push_size, Option.some.injEq, Prod.mk.injEq] at hq
          obtain ⟨rfl, rfl⟩ := hq
          exact ⟨hf, hi, hv, by rw [← hseen]; exact hsb', hcaller⟩
    · have hv' : (tAt s.ts facet).valid = false := by
        cases hc : (tAt s.ts facet).valid with
        | false => rfl
        | true => exact absurd hc hv
      simp only [hv', Bool.false_eq_true, if_false]
      exact ⟨hs, Shrunk.refl _⟩


theorem valid_false_of_shrunk {a b : Array (Facet K)} (h : Shrunk a b) (i : Nat) (hb : (tAt b i).valid = false) :
    (tAt a i).valid = false := by
  cases hc : (tAt a i).valid with
  | false => rfl
  | true => have := (h.2 i).2.2.2.2.2.2 hc; rw [hb] at this; exact absurd this (by simp)

theorem silhouetteStep_inv (ts : Array (Facet K)) (pts : Array (V3 K)) (point i : Nat) (hT : Twin ts) (hi : i < ts.size)
    (hv : (tAt ts i).valid = true) :
    SilInv ts pts point (silhouetteStep pts point i ts) ∧ (tAt (silhouetteStep pts point i ts).ts i).valid = false := by
  unfold silhouetteStep
  simp only
  have h0 : SilInv ts pts point ⟨#[], #[i], invalidate ts i⟩ :=
    ⟨shrunk_invalidate _ _, fun q a j hq => absurd hq (by simp)⟩
  have hi0 : (tAt (invalidate ts i) i).valid = false := invalidate_valid _ _
  obtain ⟨a1, a2, _, a4, _, _, _⟩ := hT i hi hv 0 (by omega)
  obtain ⟨b1, b2, _, b4, _, _, _⟩ := hT i hi hv 1 (by omega)
  obtain ⟨c1, c2, _, c4, _, _, _⟩ := hT i hi hv 2 (by omega)
  obtain ⟨r1, r2⟩ := computeSilhouette_inv ts pts point hT (ts.size + 1) _ _ _ h0 a1 a2 (by rw [a4]; exact hi0)
  have hi1 := valid_false_of_shrunk r2 i hi0
  obtain ⟨s1, s2⟩ := computeSilhouette_inv ts pts point hT (ts.size + 1) _ _ _ r1 b1 b2 (by rw [b4]; exact hi1)
  have hi2 := valid_false_of_shrunk s2 i hi1
  obtain ⟨t1, t2⟩ := computeSilhouette_inv ts pts point hT (ts.size + 1) _ _ _ s1 c1 c2 (by rw [c4]; exact hi2)
  exact ⟨t1, valid_false_of_shrunk t2 i hi2⟩

/-- the three combinatorial facts about the silhouette that are NOT proved in general (they are what `fix_silhouette_topology`
tries to restore when rounding breaks them): no half-edge listed twice, every half-edge facing a removed facet listed, one closed loop -/
structure ClosedLoop (ts : Array (Facet K)) (sil : Array (Nat × Nat)) : Prop where
  nd : ∀ (i i' : Nat) (e : Nat × Nat), sil[i]? = some e → sil[i']? = some e → i = i'
  complete : ∀ a, a < ts.size → (tAt ts a).valid = true → ∀ j, j < 3 →
    (tAt ts ((tAt ts a).adj.get j)).valid = false → ∃ i : Nat, sil[i]? = some (a, j)
  loop : ∀ (i : Nat) (e e' : Nat × Nat), sil[i]? = some e → sil[(i + 1) % sil.size]? = some e' → secondOf ts e' = firstOf ts e

theorem preAttach_of_silInv (ts0 : Array (Facet K)) (pts : Array (V3 K)) (point : Nat) (s : Sil K) (hT : Twin ts0)
    (hs : SilInv ts0 pts point s) (hc : ClosedLoop s.ts s.out) : PreAttach s.ts s.out := by
  have hsz := hs.shr.1
  refine ⟨⟨fun q a j hq => ?_, hc.nd⟩, fun q a j hq => (hs.out q a j hq).2.2.1, hc.complete, hc.loop, fun a ha hv j hj => ?_⟩
  · obtain ⟨o1, o2, o3, _, o5⟩ := hs.out q a j hq
    obtain ⟨e1, _, _, _, _, _, e7⟩ := hs.shr.2 a
    obtain ⟨t1, _⟩ := hT a o1 (e7 o3) j o2
    rw [e1, hsz]
    exact ⟨o1, o2, t1, o5⟩
  · obtain ⟨e1, e2, e3, _, _, _, e7⟩ := hs.shr.2 a
    obtain ⟨t1, t2, _, t4, t5, t6, t7⟩ := hT a (by omega) (e7 hv) j hj
    obtain ⟨g1, g2, g3, _⟩ := hs.shr.2 ((tAt ts0 a).adj.get j)
    rw [e1, e2, hsz]
    refine ⟨t1, t2, fun _ => ?_⟩
    unfold first second at t6 t7 ⊢
    rw [g1, g2, g3, e3]
    exact ⟨t4, t5, t6, t7⟩

theorem twin_of_sameLinks {a b : Array (Facet K)} (h : SameLinks a b) (hb : Twin b) : Twin a := by
  intro i hi hv j hj
  obtain ⟨e1, e2, e3, e4⟩ := h.2 i
  obtain ⟨t1, t2, t3, t4, t5, t6, t7⟩ := hb i (by rw [← h.1]; exact hi) (by rw [← e1]; exact hv) j hj
  obtain ⟨g1, g2, g3, g4⟩ := h.2 ((tAt b i).adj.get j)
  unfold first second at t6 t7 ⊢
  rw [e2, e3, e4, g1, g2, g3, g4, h.1]
  exact ⟨t1, t2, t3, t4, t5, t6, t7⟩

/-- the two initial facets `(p1,p2,p3)` / `(p2,p1,p3)` with the links set by `try_get_initial_mesh` -/
theorem twin_initial (f1 f2 : Facet K) (p1 p2 p3 : Nat) (h1 : f1.valid = true) (h2 : f2.valid = true)
    (a1 : f1.adj = ⟨1, 1, 1⟩) (i1 : f1.ind = ⟨0, 2, 1⟩) (q1 : f1.pts = ⟨p1, p2, p3⟩)
    (a2 : f2.adj = ⟨0, 0, 0⟩) (i2 : f2.ind = ⟨0, 2, 1⟩) (q2 : f2.pts = ⟨p2, p1, p3⟩) : Twin #[f1, f2] := by
  intro i hi _ j hj
  have hi' : i = 0 ∨ i = 1 := by simp at hi; omega
  have t0 : tAt #[f1, f2] 0 = f1 := rfl
  have t1 : tAt #[f1, f2] 1 = f2 := rfl
  rcases hi' with rfl | rfl <;> rcases lt3 hj with rfl | rfl | rfl <;>
    simp [t0, t1, a1, a2, i1, i2, q1, q2, h1, h2, T3.get, first, second]


/-- the facet selected by the "furthest among the facets that can see the point" loops can see the point -/
theorem furthestB_canSee (pts : Array (V3 K)) (nf : Array (Facet K)) (vp j : Nat)
    (h : (furthestB pts nf vp).1 = some j) : (tAt nf j).canSee vp pts = true := by
  unfold furthestB at h
  have hinit : ∀ j, ((none : Option Nat), (0 : K)).1 = some j → (tAt nf j).canSee vp pts = true :=
    fun j hj => absurd hj (by simp)
  revert h hinit
  generalize ((none : Option Nat), (0 : K)) = acc
  generalize List.range nf.size = l
  induction l generalizing acc with
  | nil => intro h hinit; exact hinit j h
  | cons a l ih =>
    intro h hinit
    simp only [List.foldl_cons] at h
    refine ih _ h ?_
    intro j' hj'
    by_cases hc : (tAt nf a).canSee vp pts = true
    · simp only [hc, if_true] at hj'
      by_cases hlt : acc.2 < (tAt nf a).dist vp pts
      · simp only [hlt, if_true, Option.some.injEq] at hj'; subst hj'; exact hc
      · simp only [hlt, if_false] at hj'; exact hinit j' hj'
    · simp only [hc, Bool.false_eq_true, if_false] at hj'; exact hinit j' hj'

end C12.H3
