import ParryModel.C12.Hull3
/-!
# C12 lemmas for the 3-D quickhull model (`Hull3.lean`): facet links.  Core Lean only; every `Num` instance.
-/
namespace C12.H3
open Model Model.H3
variable {K : Type} [Num K]

theorem lt3 {j : Nat} (h : j < 3) : j = 0 ∨ j = 1 ∨ j = 2 := by omega

theorem T3_get_set (t : T3) (j v k : Nat) (hj : j < 3) (hk : k < 3) :
    (t.set j v).get k = if k = j then v else t.get k := by
  rcases lt3 hj with rfl | rfl | rfl <;> rcases lt3 hk with rfl | rfl | rfl <;> simp [T3.get, T3.set]

theorem tAt_set (ts : Array (Facet K)) (i j : Nat) (v : Facet K) :
    tAt (ts.setIfInBounds i v) j = if i = j ∧ i < ts.size then v else tAt ts j := by
  unfold tAt
  rw [Array.getElem?_setIfInBounds]
  by_cases h : i = j
  · subst h
    by_cases h2 : i < ts.size
    · simp [h2]
    · simp [h2]
  · simp [h]

theorem tAt_lt (ts : Array (Facet K)) (i : Nat) (h : i < ts.size) : ts[i]? = some (tAt ts i) := by
  unfold tAt; simp [h]

theorem tAt_append (a b : Array (Facet K)) (i : Nat) :
    tAt (a ++ b) i = if i < a.size then tAt a i else tAt b (i - a.size) := by
  unfold tAt
  by_cases h : i < a.size
  · simp [h, Array.getElem?_append_left]
  · simp only [h, if_false]
    rw [Array.getElem?_append_right (by omega)]

/-- the links-relevant fields -/
def SameLinks (a b : Array (Facet K)) : Prop :=
  a.size = b.size ∧ ∀ i, (tAt a i).valid = (tAt b i).valid ∧ (tAt a i).adj = (tAt b i).adj ∧
    (tAt a i).ind = (tAt b i).ind ∧ (tAt a i).pts = (tAt b i).pts

theorem SameLinks.refl (a : Array (Facet K)) : SameLinks a a := ⟨rfl, fun _ => ⟨rfl, rfl, rfl, rfl⟩⟩

theorem SameLinks.trans {a b c : Array (Facet K)} (h1 : SameLinks a b) (h2 : SameLinks b c) : SameLinks a c := by
  refine ⟨h1.1.trans h2.1, fun i => ?_⟩
  obtain ⟨a1, a2, a3, a4⟩ := h1.2 i
  obtain ⟨b1, b2, b3, b4⟩ := h2.2 i
  exact ⟨a1.trans b1, a2.trans b2, a3.trans b3, a4.trans b4⟩

theorem sameLinks_addVis (nf : Array (Facet K)) (j p : Nat) (pts : Array (V3 K)) (f : Facet K)
    (h : (tAt nf j).addVis p pts = some f) : SameLinks (nf.setIfInBounds j f) nf := by
  unfold Facet.addVis at h
  split at h
  · simp only [Option.some.injEq] at h
    subst h
    refine ⟨by simp, fun i => ?_⟩
    rw [tAt_set]
    by_cases hc : j = i ∧ j < nf.size
    · rw [if_pos hc]; obtain ⟨rfl, _⟩ := hc; exact ⟨rfl, rfl, rfl, rfl⟩
    · rw [if_neg hc]; exact ⟨rfl, rfl, rfl, rfl⟩
  · exact absurd h (by simp)

theorem sameLinks_redistribute (pts : Array (V3 K)) (point : Nat) (nf nf' : Array (Facet K)) (vp : Nat)
    (h : redistribute pts point nf vp = some nf') : SameLinks nf' nf := by
  unfold redistribute at h
  split at h
  · simp only [Option.some.injEq] at h; subst h; exact SameLinks.refl _
  · split at h
    · simp only [Option.some.injEq] at h; subst h; exact SameLinks.refl _
    · split at h
      · split at h
        · rename_i f hf
          simp only [Option.some.injEq] at h; subst h
          exact sameLinks_addVis _ _ _ _ _ hf
        · exact absurd h (by simp)
      · simp only [Option.some.injEq] at h; subst h; exact SameLinks.refl _

theorem sameLinks_foldlM (pts : Array (V3 K)) (point : Nat) : ∀ (l : List Nat) (nf nf' : Array (Facet K)),
    l.foldlM (fun nf vp => redistribute pts point nf vp) nf = some nf' → SameLinks nf' nf := by
  intro l
  induction l with
  | nil => intro nf nf' h; simp at h; subst h; exact SameLinks.refl _
  | cons a l ih =>
    intro nf nf' h
    simp only [List.foldlM_cons] at h
    cases hr : redistribute pts point nf a with
    | none => simp [hr] at h
    | some nf1 =>
      simp only [hr] at h
      exact (ih nf1 nf' h).trans (sameLinks_redistribute _ _ _ _ _ hr)

theorem sameLinks_assignUndecidable (pts : Array (V3 K)) : ∀ (fuel i : Nat) (und : Array Nat) (nf : Array (Facet K))
    (und' : Array Nat) (nf' : Array (Facet K)),
    assignUndecidable pts fuel i und nf = some (und', nf') → SameLinks nf' nf := by
  intro fuel
  induction fuel with
  | zero => intro i und nf und' nf' h; simp [assignUndecidable] at h; obtain ⟨_, rfl⟩ := h; exact SameLinks.refl _
  | succ fuel ih =>
    intro i und nf und' nf' h
    unfold assignUndecidable at h
    split at h
    · simp at h; obtain ⟨_, rfl⟩ := h; exact SameLinks.refl _
    · simp only at h
      split at h
      · split at h
        · rename_i f hf
          exact (ih _ _ _ _ _ h).trans (sameLinks_addVis _ _ _ _ _ hf)
        · exact absurd h (by simp)
      · exact ih _ _ _ _ _ h


/-! ## the linking loop of `attach_and_push_facets` -/

def prevOf (n m i : Nat) : Nat := if i = 0 then n + m - 1 else n + i - 1
def nextOf (n m i : Nat) : Nat := n + (i + 1) % m

/-- what the linking loop needs from the silhouette: entries are half-edges `(facet, edge)` in range whose current neighbour across
that edge is an existing facet that is not valid (it was removed), and no half-edge is listed twice -/
structure SilPre (ts : Array (Facet K)) (sil : Array (Nat × Nat)) : Prop where
  rng : ∀ (i a j : Nat), sil[i]? = some (a, j) → a < ts.size ∧ j < 3 ∧ (tAt ts a).adj.get j < ts.size ∧
    (tAt ts ((tAt ts a).adj.get j)).valid = false
  nd : ∀ (i i' : Nat) (e : Nat × Nat), sil[i]? = some e → sil[i']? = some e → i = i'

def LinkInv (ts0 nf0 : Array (Facet K)) (sil : Array (Nat × Nat)) (k : Nat) (st : LinkSt K) : Prop :=
  st.panic = false ∧ st.ts.size = ts0.size ∧ st.nf.size = nf0.size ∧
  (∀ a, (tAt st.ts a).valid = (tAt ts0 a).valid ∧ (tAt st.ts a).pts = (tAt ts0 a).pts ∧
     ∀ j, j < 3 →
       ((∀ i, i < k → sil[i]? ≠ some (a, j)) →
          (tAt st.ts a).adj.get j = (tAt ts0 a).adj.get j ∧ (tAt st.ts a).ind.get j = (tAt ts0 a).ind.get j) ∧
       (∀ i, i < k → sil[i]? = some (a, j) → (tAt st.ts a).adj.get j = ts0.size + i ∧ (tAt st.ts a).ind.get j = 1)) ∧
  (∀ i, i < k → ∀ e, sil[i]? = some e →
      (tAt st.nf i).valid = (tAt nf0 i).valid ∧ (tAt st.nf i).pts = (tAt nf0 i).pts ∧
      (tAt st.nf i).adj = ⟨prevOf ts0.size sil.size i, e.1, nextOf ts0.size sil.size i⟩ ∧ (tAt st.nf i).ind = ⟨2, e.2, 0⟩) ∧
  (∀ i, k ≤ i → tAt st.nf i = tAt nf0 i)

theorem linkStep_inv (ts0 nf0 : Array (Facet K)) (sil : Array (Nat × Nat)) (hp : SilPre ts0 sil)
    (hnf : nf0.size = sil.size) (k : Nat) (hk : k < sil.size) (st : LinkSt K) (h : LinkInv ts0 nf0 sil k st) :
    LinkInv ts0 nf0 sil (k + 1) (linkStep ts0.size sil.size sil st k) := by
  obtain ⟨hpan, hts, hnfs, hA, hB, hC⟩ := h
  have he : sil[k]? = some ((sil[k]?).getD (0, 0)) := by simp [hk]
  generalize hedef : (sil[k]?).getD (0, 0) = e at he
  obtain ⟨ea, ej⟩ := e
  obtain ⟨ha, hj, hadj, hinv⟩ := hp.rng k ea ej he
  have hne : ∀ i, i < k → sil[i]? ≠ some (ea, ej) := fun i hi hc => by
    have := hp.nd i k _ hc he; omega
  obtain ⟨hv, hpts, hJ⟩ := hA ea
  obtain ⟨hadj0, hind0⟩ := (hJ ej hj).1 hne
  have hlook : st.ts[(tAt st.ts ea).adj.get ej]? = some (tAt st.ts ((tAt ts0 ea).adj.get ej)) := by
    rw [hadj0]; exact tAt_lt _ _ (by omega)
  have hgv : (tAt st.ts ((tAt ts0 ea).adj.get ej)).valid = false := by rw [(hA _).1]; exact hinv
  unfold linkStep
  simp only [hpan, Bool.false_eq_true, if_false, hedef]
  split
  · rename_i hnone; rw [hlook] at hnone; exact absurd hnone (by simp)
  · rename_i g hsome
    rw [hlook] at hsome
    simp only [Option.some.injEq] at hsome
    subst hsome
    simp only [hgv, Bool.false_eq_true, if_false]
    refine ⟨rfl, by simp [hts], by simp [hnfs], ?_, ?_, ?_⟩
    · intro a
      simp only [tAt_set]
      by_cases hc : ea = a ∧ ea < st.ts.size
      · obtain ⟨rfl, hlt⟩ := hc
        rw [if_pos ⟨rfl, hlt⟩]
        refine ⟨hv, hpts, fun j hj' => ?_⟩
        dsimp only
        rw [T3_get_set _ _ _ _ hj hj', T3_get_set _ _ _ _ hj hj']
        by_cases hjj : j = ej
        · subst hjj
          simp only [if_true]
          refine ⟨fun hall => absurd he (hall k (by omega)), fun i hi hs => ?_⟩
          have := hp.nd i k _ hs he
          subst this; simp
        · simp only [hjj, if_false]
          have hnk : sil[k]? ≠ some (ea, j) := by rw [he]; simp; omega
          refine ⟨fun hall => (hJ j hj').1 (fun i hi => hall i (by omega)), fun i hi hs => ?_⟩
          have hik : i ≠ k := fun hh => hnk (hh ▸ hs)
          exact (hJ j hj').2 i (by omega) hs
      · rw [if_neg hc]
        have hae : ea ≠ a := fun hh => hc ⟨hh, by omega⟩
        obtain ⟨hv', hpts', hJ'⟩ := hA a
        refine ⟨hv', hpts', fun j hj' => ?_⟩
        have hnk : sil[k]? ≠ some (a, j) := by rw [he]; simp; omega
        refine ⟨fun hall => (hJ' j hj').1 (fun i hi => hall i (by omega)), fun i hi hs => ?_⟩
        have hik : i ≠ k := fun hh => hnk (hh ▸ hs)
        exact (hJ' j hj').2 i (by omega) hs
    · intro i hi e' he'
      simp only [tAt_set]
      by_cases hik : i = k
      · subst hik
        rw [he] at he'
        simp only [Option.some.injEq] at he'
        subst he'
        have : i < st.nf.size := by omega
        rw [if_pos ⟨rfl, this⟩]
        have hci := hC i (Nat.le_refl _)
        refine ⟨?_, ?_, rfl, rfl⟩
        · show (tAt st.nf i).valid = (tAt nf0 i).valid
          rw [hci]
        · show (tAt st.nf i).pts = (tAt nf0 i).pts
          rw [hci]
      · have : ¬ (k = i ∧ k < st.nf.size) := fun hh => hik hh.1.symm
        rw [if_neg this]
        exact hB i (by omega) e' he'
    · intro i hi
      simp only [tAt_set]
      have : ¬ (k = i ∧ k < st.nf.size) := fun hh => by omega
      rw [if_neg this]
      exact hC i (by omega)

theorem linkFold_inv (ts0 nf0 : Array (Facet K)) (sil : Array (Nat × Nat)) (hp : SilPre ts0 sil)
    (hnf : nf0.size = sil.size) : ∀ k, k ≤ sil.size →
    LinkInv ts0 nf0 sil k ((List.range k).foldl (linkStep ts0.size sil.size sil) ⟨ts0, nf0, false⟩) := by
  intro k
  induction k with
  | zero =>
    intro _
    refine ⟨rfl, rfl, rfl, fun a => ⟨rfl, rfl, fun j _ => ⟨fun _ => ⟨rfl, rfl⟩, fun i hi => absurd hi (by omega)⟩⟩,
      fun i hi => absurd hi (by omega), fun i _ => rfl⟩
  | succ k ih =>
    intro hk
    rw [List.range_succ, List.foldl_append]
    exact linkStep_inv ts0 nf0 sil hp hnf k (by omega) _ (ih (by omega))


/-! ## `attach_and_push_facets` keeps the facet links consistent -/

/-- what `check_facet_links` asserts, for every valid facet: each of its three half-edges is glued to a half-edge of a valid facet,
glued back to it, with the two end points in the opposite order -/
def Twin (ts : Array (Facet K)) : Prop :=
  ∀ i, i < ts.size → (tAt ts i).valid = true → ∀ j, j < 3 →
    (tAt ts i).adj.get j < ts.size ∧ (tAt ts i).ind.get j < 3 ∧
    (tAt ts ((tAt ts i).adj.get j)).valid = true ∧
    (tAt ts ((tAt ts i).adj.get j)).adj.get ((tAt ts i).ind.get j) = i ∧
    (tAt ts ((tAt ts i).adj.get j)).ind.get ((tAt ts i).ind.get j) = j ∧
    first (tAt ts ((tAt ts i).adj.get j)) ((tAt ts i).ind.get j) = second (tAt ts i) j ∧
    second (tAt ts ((tAt ts i).adj.get j)) ((tAt ts i).ind.get j) = first (tAt ts i) j

/-- the state handed to `attach_and_push_facets`: some facets have been invalidated; `sil` lists exactly the half-edges of valid
facets whose neighbour was invalidated, each once, in an order that forms ONE closed loop; links between valid facets are consistent -/
structure PreAttach (ts : Array (Facet K)) (sil : Array (Nat × Nat)) : Prop where
  pre : SilPre ts sil
  vld : ∀ (i a j : Nat), sil[i]? = some (a, j) → (tAt ts a).valid = true
  complete : ∀ a, a < ts.size → (tAt ts a).valid = true → ∀ j, j < 3 →
    (tAt ts ((tAt ts a).adj.get j)).valid = false → ∃ i : Nat, sil[i]? = some (a, j)
  loop : ∀ (i : Nat) (e e' : Nat × Nat), sil[i]? = some e → sil[(i + 1) % sil.size]? = some e' → secondOf ts e' = firstOf ts e
  twinV : ∀ a, a < ts.size → (tAt ts a).valid = true → ∀ j, j < 3 →
    (tAt ts a).adj.get j < ts.size ∧ (tAt ts a).ind.get j < 3 ∧
    ((tAt ts ((tAt ts a).adj.get j)).valid = true →
      (tAt ts ((tAt ts a).adj.get j)).adj.get ((tAt ts a).ind.get j) = a ∧
      (tAt ts ((tAt ts a).adj.get j)).ind.get ((tAt ts a).ind.get j) = j ∧
      first (tAt ts ((tAt ts a).adj.get j)) ((tAt ts a).ind.get j) = second (tAt ts a) j ∧
      second (tAt ts ((tAt ts a).adj.get j)) ((tAt ts a).ind.get j) = first (tAt ts a) j)

/-- closed form of the result of `attach_and_push_facets` (it never panics under `SilPre`) -/
theorem attach_closed_form (pts : Array (V3 K)) (point : Nat) (sil : Array (Nat × Nat)) (removed : Array Nat)
    (ts : Array (Facet K)) (und : Array Nat) (ts' : Array (Facet K)) (und' : Array Nat) (hp : SilPre ts sil)
    (h : attachAndPush pts point sil removed ts und = some (ts', und')) :
    ∃ (ts1 nf : Array (Facet K)), ts' = ts1 ++ nf ∧ ts1.size = ts.size ∧ nf.size = sil.size ∧
      (∀ a, (tAt ts1 a).valid = (tAt ts a).valid ∧ (tAt ts1 a).pts = (tAt ts a).pts ∧
        ∀ j, j < 3 →
          ((∀ i : Nat, sil[i]? ≠ some (a, j)) →
            (tAt ts1 a).adj.get j = (tAt ts a).adj.get j ∧ (tAt ts1 a).ind.get j = (tAt ts a).ind.get j) ∧
          (∀ i : Nat, sil[i]? = some (a, j) → (tAt ts1 a).adj.get j = ts.size + i ∧ (tAt ts1 a).ind.get j = 1)) ∧
      (∀ (q : Nat) (e : Nat × Nat), sil[q]? = some e →
        (tAt nf q).valid = true ∧ (tAt nf q).pts = ⟨point, secondOf ts e, firstOf ts e⟩ ∧
        (tAt nf q).adj = ⟨prevOf ts.size sil.size q, e.1, nextOf ts.size sil.size q⟩ ∧ (tAt nf q).ind = ⟨2, e.2, 0⟩) := by
  have hnf0 : (newFacets pts point ts sil).size = sil.size := by simp [newFacets]
  have hinv := linkFold_inv ts (newFacets pts point ts sil) sil hp hnf0 sil.size (Nat.le_refl _)
  unfold attachAndPush at h
  simp only at h
  generalize hst : (List.range sil.size).foldl (linkStep ts.size sil.size sil) ⟨ts, newFacets pts point ts sil, false⟩ = st at h hinv
  obtain ⟨hpan, hts, hnfs, hA, hB, hC⟩ := hinv
  simp only [hpan, Bool.false_eq_true, if_false] at h
  split at h
  · exact absurd h (by simp)
  · rename_i nf1 hnf1
    split at h
    · exact absurd h (by simp)
    · rename_i und2 nf2 hnf2
      simp only [Option.some.injEq, Prod.mk.injEq] at h
      obtain ⟨rfl, _⟩ := h
      have hsl : SameLinks nf2 st.nf :=
        (sameLinks_assignUndecidable _ _ _ _ _ _ _ hnf2).trans (sameLinks_foldlM _ _ _ _ _ hnf1)
      refine ⟨st.ts, nf2, rfl, hts, by rw [hsl.1, hnfs, hnf0], ?_, ?_⟩
      · intro a
        obtain ⟨h1, h2, h3⟩ := hA a
        refine ⟨h1, h2, fun j hj => ⟨fun hall => (h3 j hj).1 (fun i _ => hall i), fun i hs => ?_⟩⟩
        have hi : i < sil.size := by
          rcases Nat.lt_or_ge i sil.size with hlt | hge
          · exact hlt
          · rw [Array.getElem?_eq_none hge] at hs; exact absurd hs (by simp)
        exact (h3 j hj).2 i hi hs
      · intro q e hs
        have hq : q < sil.size := by
          rcases Nat.lt_or_ge q sil.size with hlt | hge
          · exact hlt
          · rw [Array.getElem?_eq_none hge] at hs; exact absurd hs (by simp)
        obtain ⟨b1, b2, b3, b4⟩ := hB q hq e hs
        obtain ⟨s1, s2, s3, s4⟩ := hsl.2 q
        have hnew : tAt (newFacets pts point ts sil) q = Facet.new point (secondOf ts e) (firstOf ts e) pts := by
          unfold tAt newFacets
          rw [Array.getElem?_map, hs]; rfl
        refine ⟨?_, ?_, s2.trans b3, s3.trans b4⟩
        · rw [s1, b1, hnew]; rfl
        · rw [s4, b2, hnew]; rfl

end C12.H3
