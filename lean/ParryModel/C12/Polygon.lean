import ParryModel.C12.Model
/-!
# C12 model: `ConvexPolygon::from_convex_polyline` / `from_convex_hull` (2-D), `utils::ccw_face_normal`, `Unit::try_new`.
Literal transliteration of `src/shape/convex_polygon.rs` (in-place compaction loop included).
-/
namespace Model.Pg
variable {K : Type} [Num K]

/-- `Unit::try_new(v, min_norm)`: `None` unless `|v|² > min_norm²`, else `v / sqrt(|v|²)` -/
def unitTryNew (v : V2 K) (minNorm : K) : Option (V2 K) :=
  let sq := v.normSq
  if minNorm * minNorm < sq then some (v.sdiv (Num.sqrt sq)) else none

/-- `utils::ccw_face_normal([a, b])` (2-D): the unit vector along `(ab.y, -ab.x)` -/
def ccwFaceNormal (a b : V2 K) : Option (V2 K) :=
  let ab := b.sub a
  unitTryNew ⟨ab.y, -ab.x⟩ (lit 1 4503599627370496)

def pA (pts : Array (V2 K)) (i : Nat) : V2 K := (pts[i]?).getD V2.zero

structure Polygon (K : Type) where
  points : Array (V2 K)
  normals : Array (V2 K)

structure CompSt (K : Type) where
  points : Array (V2 K)
  normals : Array (V2 K)
  nremoved : Nat

/-- one iteration `i2` of the compaction loop -/
def compStep (thr : K) (st : CompSt K) (i2 : Nat) : CompSt K :=
  if thr < (pA st.normals (i2 - 1)).dot (pA st.normals i2) then { st with nremoved := st.nremoved + 1 }
  else { st with points := st.points.setIfInBounds (i2 - st.nremoved) (pA st.points i2),
                 normals := st.normals.setIfInBounds (i2 - st.nremoved) (pA st.normals i2) }

/-- "see if the first vertex must be removed" -/
def firstRemoved (thr : K) (normals : Array (V2 K)) : Nat :=
  if thr < (pA normals 0).dot (pA normals (normals.size - 1)) then 1 else 0

/-- the loop `for i2 in 1..points.len()` -/
def compactAll (thr : K) (points normals : Array (V2 K)) (nrem0 : Nat) : CompSt K :=
  ((List.range points.size).drop 1).foldl (compStep thr) ⟨points, normals, nrem0⟩

/-- the two `truncate`s and the final `points.len() > 2` test (`n` = the original `points.len()`) -/
def finishPolygon (n : Nat) (st : CompSt K) : Option (Polygon K) :=
  if (st.points.extract 0 (n - st.nremoved)).size > 2 then
    some ⟨st.points.extract 0 (n - st.nremoved), st.normals.extract 0 (n - st.nremoved)⟩
  else none

/-- `ConvexPolygon::from_convex_polyline` -/
def fromConvexPolyline (points : Array (V2 K)) : Option (Polygon K) :=
  if points.size = 0 then none else
  match (List.range points.size).mapM (fun i1 => ccwFaceNormal (pA points i1) (pA points ((i1 + 1) % points.size))) with
  | none => none
  | some ns =>
    let thr : K := 1 - Num.sqrt (lit 1 4503599627370496)
    finishPolygon points.size (compactAll thr points ns.toArray (firstRemoved thr ns.toArray))

/-- `ConvexPolygon::from_convex_hull`: `None` inside = the documented `None`; outer `none` = `convex_hull2` panics -/
def fromConvexHull (negMax eps100 : K) (pts : Array (V2 K)) : Option (Option (Polygon K)) :=
  match Model.convexHull2Idx negMax eps100 pts with
  | none => none
  | some idx => some (fromConvexPolyline (idx.map (fun i => (pts[i]?).getD V2.zero)).toArray)

end Model.Pg
