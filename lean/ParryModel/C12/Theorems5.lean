import ParryModel.Field
import ParryModel.C12.Lemmas4
/-!
# C12 theorems, fifth pass: a waiting point waits in exactly one place, a consumed point never re-enters, and the indices
returned by `convex_hull2_idx` are pairwise distinct (`PartOK` is defined in `Lemmas4.lean`). Every `Num` instance.
-/
namespace C12
open Model

variable {K : Type} [Num K]

/-- **partition invariant at every step**: together with the closed chain `live` (`hullLoop_closed_chain`), in every state
reached by the main loop the visible lists of the chain's facets and the undecidable list are duplicate-free and pairwise
disjoint, contain no chain vertex, and distinct chain facets start at distinct point indices. In particular the support point
consumed by a step — which becomes the chain vertex `F2.p0` — is in no list afterwards, and since chain vertices persist
(`step_vertices_persist`) it **never re-enters any visible list or the undecidable list**. -/
theorem hullLoop_partition (negMax eps100 : K) (pts : Array (V2 K)) (st0 : HullState K) (fuel i : Nat)
    (h : initialPolyline negMax eps100 pts = some st0) :
    ∃ live : Nat → Prop, ChainOK (hullLoop negMax eps100 pts fuel i st0) live ∧
      PartOK (hullLoop negMax eps100 pts fuel i st0) live :=
  hullLoop_part negMax eps100 pts fuel i st0
    ⟨_, initialPolyline_chain negMax eps100 pts st0 h, initialPolyline_part negMax eps100 pts st0 h⟩

/-- **chain vertices persist**: after an attaching step on live facet `i`, every start point of a facet of the old chain is
still the start point of a facet of the new chain (facet `i = (a → b)` is replaced by `(a → c)`, `(c → b)`). -/
theorem step_vertices_persist (eps100 : K) (pts : Array (V2 K)) (st : HullState K) (live : Nat → Prop) (i : Nat)
    (f : SegFacet K) (point : Nat) (hc : ChainOK st live) (hf : st.segs[i]? = some f) (hli : live i)
    (k : Nat) (g : SegFacet K) (hk : live k) (hg : st.segs[k]? = some g) :
    ∃ (k' : Nat) (g' : SegFacet K), ((live k' ∧ k' ≠ i) ∨ k' = st.segs.size ∨ k' = st.segs.size + 1) ∧
      (stepState eps100 pts st i f point).segs[k']? = some g' ∧ g'.p0 = g.p0 := by
  by_cases hki : k = i
  · subst hki
    rw [hf] at hg; cases hg
    obtain ⟨_, F1, _, g1, _, a1, _⟩ := step_chain eps100 pts st live k f point hc hf hli
    exact ⟨_, F1, Or.inr (Or.inl rfl), g1, a1⟩
  · exact ⟨k, _, Or.inl ⟨hk, hki⟩, stepState_get_old eps100 pts st i f point k g hg, rfl⟩

/-- **the returned hull indices are pairwise distinct**, for every input array and every `Num` instance: the final walk goes
once around a cycle of distinct chain facets (`hullWalk_returns_to_first`) and distinct chain facets start at distinct point
indices (`PartOK.vert_inj`). -/
theorem convexHull2Idx_nodup (negMax eps100 : K) (pts : Array (V2 K)) (idx : List Nat)
    (h : convexHull2Idx negMax eps100 pts = some idx) : idx.Nodup := by
  unfold convexHull2Idx at h
  cases hi : initialPolyline negMax eps100 pts with
  | none => rw [hi] at h; cases h
  | some st0 =>
    rw [hi] at h
    simp only at h
    obtain ⟨live, hch, hpart⟩ := hullLoop_partition negMax eps100 pts st0 (2 * pts.size + 8) 0 hi
    cases hfind : (List.range (hullLoop negMax eps100 pts (2 * pts.size + 8) 0 st0).segs.size).find?
        (fun i => ((hullLoop negMax eps100 pts (2 * pts.size + 8) 0 st0).segs[i]?.map (·.valid)).getD false) with
    | none => rw [hfind] at h; cases h
    | some first =>
      rw [hfind] at h
      simp only [Option.some.injEq] at h
      have hfv := List.find?_some hfind
      have hlf : live first := by
        cases hs : (hullLoop negMax eps100 pts (2 * pts.size + 8) 0 st0).segs[first]? with
        | none => simp [hs] at hfv
        | some g => exact hch.valid_live first g hs (by simpa [hs] using hfv)
      obtain ⟨m, _, _, _, _, hinj, hw⟩ := hullWalk_returns hch first hlf
      rw [← h, hw]
      apply nodup_filterMap_on _ _ List.nodup_range
      intro a ha a' ha' b hb hb'
      have hla := nxtIter_live hch first hlf a
      have hla' := nxtIter_live hch first hlf a'
      obtain ⟨g, hg⟩ : ∃ g, (hullLoop negMax eps100 pts (2 * pts.size + 8) 0 st0).segs[
          nxtIter (hullLoop negMax eps100 pts (2 * pts.size + 8) 0 st0).segs a first]? = some g :=
        ⟨_, Array.getElem?_eq_getElem (hch.lt _ hla)⟩
      obtain ⟨g', hg'⟩ : ∃ g', (hullLoop negMax eps100 pts (2 * pts.size + 8) 0 st0).segs[
          nxtIter (hullLoop negMax eps100 pts (2 * pts.size + 8) 0 st0).segs a' first]? = some g' :=
        ⟨_, Array.getElem?_eq_getElem (hch.lt _ hla')⟩
      simp only [pushed, hg, hg', Option.bind_some] at hb hb'
      have e1 : g.p0 = b := by split at hb <;> simp_all
      have e2 : g'.p0 = b := by split at hb' <;> simp_all
      exact hinj a a' (List.mem_range.mp ha) (List.mem_range.mp ha')
        (hpart.vert_inj _ _ g g' hla hla' hg hg' (e1.trans e2.symm))

end C12
