import ParryModel.Vec
/-!
# C12 model: `convex_hull2_idx` (2-D quickhull) in full, `support_point_id`, `SegmentFacet`.
The 3-D hull is not modelled (certificate only, see Theorems.lean and DESIGN §7 C12).
-/
namespace Model
variable {K : Type} [Num K]

/-- `support_point_id` / `indexed_support_point_id`: first strict maximum of `dir·p` over the index list,
starting from `-MAX`. `negMax` is `-Real::MAX`. -/
def supportStep (dir : V2 K) (pts : Array (V2 K)) (acc : Option Nat × K) (i : Nat) : Option Nat × K :=
  match pts[i]? with
  | none => acc                      -- out-of-range index: the Rust code would panic; never generated
  | some p =>
    let d := dir.dot p
    if acc.2 < d then (some i, d) else acc

def indexedSupportPointId (negMax : K) (dir : V2 K) (pts : Array (V2 K)) (idx : List Nat) : Option Nat :=
  (idx.foldl (supportStep dir pts) (none, negMax)).1

structure SegFacet (K : Type) where
  valid : Bool
  normal : V2 K
  next : Nat
  prev : Nat
  p0 : Nat
  p1 : Nat
  visible : List Nat

def ptAt (pts : Array (V2 K)) (i : Nat) : V2 K := (pts[i]?).getD V2.zero

/-- `SegmentFacet::new` -/
def SegFacet.new (p1 p2 prev next : Nat) (pts : Array (V2 K)) : SegFacet K :=
  let d := (ptAt pts p2).sub (ptAt pts p1)
  let n : V2 K := ⟨d.y, -d.x⟩
  let norm := n.norm
  { valid := !(neq norm 0), normal := n.sdiv norm, next := next, prev := prev, p0 := p1, p1 := p2, visible := [] }

/-- `can_be_seen_by`: `(pt - p0)·normal > eps·100` -/
def SegFacet.canBeSeenBy (f : SegFacet K) (eps100 : K) (i : Nat) (pts : Array (V2 K)) : Bool :=
  decide (eps100 < ((ptAt pts i).sub (ptAt pts f.p0)).dot f.normal)

/-- `visible_points.push(v)` -/
def SegFacet.pushVis (f : SegFacet K) (v : Nat) : SegFacet K := { f with visible := f.visible ++ [v] }

/-- the `while i != undecidable.len()` loop with `swap_remove` -/
def assignUndecidable (eps100 : K) (pts : Array (V2 K)) :
    Nat → Nat → Array Nat → SegFacet K → SegFacet K → Array Nat × SegFacet K × SegFacet K
  | 0, _, und, f1, f2 => (und, f1, f2)
  | fuel+1, i, und, f1, f2 =>
    if i ≥ und.size then (und, f1, f2) else
    let u := und[i]?.getD 0
    if f1.canBeSeenBy eps100 u pts then
      assignUndecidable eps100 pts fuel i ((und.set! i (und.back?.getD 0)).pop) (f1.pushVis u) f2
    else if f2.canBeSeenBy eps100 u pts then
      assignUndecidable eps100 pts fuel i ((und.set! i (und.back?.getD 0)).pop) f1 (f2.pushVis u)
    else assignUndecidable eps100 pts fuel (i + 1) und f1 f2

structure HullState (K : Type) where
  segs : Array (SegFacet K)
  und : Array Nat

/-- body of the `for visible_point in segments[removed_facet].visible_points` loop of `attach_and_push_facets2` -/
def assignStep (eps100 : K) (pts : Array (V2 K)) (point : Nat) (acc : SegFacet K × SegFacet K) (v : Nat) :
    SegFacet K × SegFacet K :=
  if v = point then acc
  else if acc.1.canBeSeenBy eps100 v pts then (acc.1.pushVis v, acc.2)
  else if acc.2.canBeSeenBy eps100 v pts then (acc.1, acc.2.pushVis v)
  else acc

/-- `attach_and_push_facets2` -/
def attach (eps100 : K) (pts : Array (V2 K)) (st : HullState K) (prevF nextF point removed : Nat) : HullState K :=
  let id1 := st.segs.size
  let id2 := id1 + 1
  let prevPt := (st.segs[prevF]?.map (·.p1)).getD 0
  let nextPt := (st.segs[nextF]?.map (·.p0)).getD 0
  let segs := (st.segs.modify prevF (fun f => { f with next := id1 })).modify nextF (fun f => { f with prev := id2 })
  let vis := (segs[removed]?.map (·.visible)).getD []
  let fs := vis.foldl (assignStep eps100 pts point)
    (SegFacet.new prevPt point prevF id2 pts, SegFacet.new point nextPt id1 nextF pts)
  let r := assignUndecidable eps100 pts (st.und.size + 1) 0 st.und fs.1 fs.2
  { segs := (segs.push r.2.1).push r.2.2, und := r.1 }

/-- body of the `for dir in direction.iter()` loop of `get_initial_polyline` (`acc.2` = the `break` flag) -/
def pickP2Step (negMax : K) (pts : Array (V2 K)) (p1 : Nat) (acc : Nat × Bool) (dir : V2 K) : Nat × Bool :=
  if acc.2 then acc else
  let p2 := (indexedSupportPointId negMax dir pts (List.range pts.size)).getD 0
  let d := (ptAt pts p2).sub (ptAt pts p1)
  (p2, !(neq d.normSq 0))

/-- body of the `for i in 0..points.len()` attribution loop of `get_initial_polyline` -/
def initStep (eps100 : K) (pts : Array (V2 K)) (p1 p2 : Nat) (acc : SegFacet K × SegFacet K × Array Nat) (i : Nat) :
    SegFacet K × SegFacet K × Array Nat :=
  if i = p1 ∨ i = p2 then acc
  else if acc.1.canBeSeenBy eps100 i pts then (acc.1.pushVis i, acc.2.1, acc.2.2)
  else if acc.2.1.canBeSeenBy eps100 i pts then (acc.1, acc.2.1.pushVis i, acc.2.2)
  else (acc.1, acc.2.1, acc.2.2.push i)

/-- the three fallback directions `[-x, -y, y]` -/
def initDirs : List (V2 K) := [⟨-1, -0⟩, ⟨-0, -1⟩, ⟨0, 1⟩]

/-- `get_initial_polyline`; `none` = the `assert!`s fail (fewer than 2 points / all coincident) -/
def initialPolyline (negMax eps100 : K) (pts : Array (V2 K)) : Option (HullState K) :=
  if pts.size < 2 then none else
  match indexedSupportPointId negMax ⟨1, 0⟩ pts (List.range pts.size) with
  | none => none
  | some p1 =>
    let p2 := (initDirs.foldl (pickP2Step negMax pts p1) (p1, false)).1
    if p1 = p2 then none else
    let r := (List.range pts.size).foldl (initStep eps100 pts p1 p2)
      (SegFacet.new p1 p2 1 1 pts, SegFacet.new p2 p1 0 0 pts, #[])
    some { segs := #[r.1, r.2.1], und := r.2.2 }

/-- main loop `while i != segments.len()` -/
def hullLoop (negMax eps100 : K) (pts : Array (V2 K)) : Nat → Nat → HullState K → HullState K
  | 0, _, st => st
  | fuel+1, i, st =>
    if i ≥ st.segs.size then st else
    match st.segs[i]? with
    | none => st
    | some f =>
      if !f.valid then hullLoop negMax eps100 pts fuel (i + 1) st else
      match indexedSupportPointId negMax f.normal pts f.visible with
      | some point =>
        let st1 := { st with segs := st.segs.modify i (fun g => { g with valid := false }) }
        hullLoop negMax eps100 pts fuel (i + 1) (attach eps100 pts st1 f.prev f.next point i)
      | none => hullLoop negMax eps100 pts fuel (i + 1) st

/-- final walk along `next` from the first valid facet -/
def hullWalk (segs : Array (SegFacet K)) (first : Nat) : Nat → Nat → List Nat → List Nat
  | 0, _, acc => acc
  | fuel+1, cur, acc =>
    match segs[cur]? with
    | none => acc
    | some f =>
      let acc := if f.valid then acc ++ [f.p0] else acc
      if f.next = first then acc else hullWalk segs first fuel f.next acc

/-- `convex_hull2_idx`; `none` = panic (assert) -/
def convexHull2Idx (negMax eps100 : K) (pts : Array (V2 K)) : Option (List Nat) :=
  match initialPolyline negMax eps100 pts with
  | none => none
  | some st0 =>
    let st := hullLoop negMax eps100 pts (2 * pts.size + 8) 0 st0
    match (List.range st.segs.size).find? (fun i => (st.segs[i]?.map (·.valid)).getD false) with
    | none => none      -- the Rust `while !segments[curr].valid` would run off the end (index panic)
    | some first => some (hullWalk st.segs first (st.segs.size + 1) first [])

end Model
