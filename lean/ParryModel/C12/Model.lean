import ParryModel.Vec
/-!
# C12 model: `convex_hull2_idx` (2-D quickhull) in full, `support_point_id`, `SegmentFacet`.
The 3-D hull is not modelled (certificate only, see Theorems.lean and DESIGN §7 C12).
-/
namespace Model
variable {K : Type} [Num K]

/-- `support_point_id` / `indexed_support_point_id`: first strict maximum of `dir·p` over the index list,
starting from `-MAX`. `negMax` is `-Real::MAX`. -/
def supportStep (dir : V2 K) (pts : Array (V2 K)) (acc : Option Nat × K) (i : Nat) : Option Nat × K :=
  match pts[i]? with
  | none => acc                      -- out-of-range index: the Rust code would panic; never generated
  | some p =>
    let d := dir.dot p
    if acc.2 < d then (some i, d) else acc

def indexedSupportPointId (negMax : K) (dir : V2 K) (pts : Array (V2 K)) (idx : List Nat) : Option Nat :=
  (idx.foldl (supportStep dir pts) (none, negMax)).1

structure SegFacet (K : Type) where
  valid : Bool
  normal : V2 K
  next : Nat
  prev : Nat
  p0 : Nat
  p1 : Nat
  visible : List Nat

def ptAt (pts : Array (V2 K)) (i : Nat) : V2 K := (pts[i]?).getD V2.zero

/-- `SegmentFacet::new` -/
def SegFacet.new (p1 p2 prev next : Nat) (pts : Array (V2 K)) : SegFacet K :=
  let d := (ptAt pts p2).sub (ptAt pts p1)
  let n : V2 K := ⟨d.y, -d.x⟩
  let norm := n.norm
  { valid := !(neq norm 0), normal := n.sdiv norm, next := next, prev := prev, p0 := p1, p1 := p2, visible := [] }

/-- `can_be_seen_by`: `(pt - p0)·normal > eps·100` -/
def SegFacet.canBeSeenBy (f : SegFacet K) (eps100 : K) (i : Nat) (pts : Array (V2 K)) : Bool :=
  decide (eps100 < ((ptAt pts i).sub (ptAt pts f.p0)).dot f.normal)

/-- the `while i != undecidable.len()` loop with `swap_remove` -/
def assignUndecidable (eps100 : K) (pts : Array (V2 K)) :
    Nat → Nat → Array Nat → SegFacet K → SegFacet K → Array Nat × SegFacet K × SegFacet K
  | 0, _, und, f1, f2 => (und, f1, f2)
  | fuel+1, i, und, f1, f2 =>
    if i ≥ und.size then (und, f1, f2) else
    let u := und[i]?.getD 0
    if f1.canBeSeenBy eps100 u pts then
      assignUndecidable eps100 pts fuel i ((und.set! i (und.back?.getD 0)).pop) { f1 with visible := f1.visible ++ [u] } f2
    else if f2.canBeSeenBy eps100 u pts then
      assignUndecidable eps100 pts fuel i ((und.set! i (und.back?.getD 0)).pop) f1 { f2 with visible := f2.visible ++ [u] }
    else assignUndecidable eps100 pts fuel (i + 1) und f1 f2

structure HullState (K : Type) where
  segs : Array (SegFacet K)
  und : Array Nat

/-- `attach_and_push_facets2` -/
def attach (eps100 : K) (pts : Array (V2 K)) (st : HullState K) (prevF nextF point removed : Nat) : HullState K :=
  let id1 := st.segs.size
  let id2 := id1 + 1
  let prevPt := (st.segs[prevF]?.map (·.p1)).getD 0
  let nextPt := (st.segs[nextF]?.map (·.p0)).getD 0
  let f1 := SegFacet.new prevPt point prevF id2 pts
  let f2 := SegFacet.new point nextPt id1 nextF pts
  let segs := st.segs.modify prevF (fun f => { f with next := id1 })
  let segs := segs.modify nextF (fun f => { f with prev := id2 })
  let vis := (segs[removed]?.map (·.visible)).getD []
  let (f1, f2) := vis.foldl (fun (acc : SegFacet K × SegFacet K) v =>
    if v = point then acc
    else if acc.1.canBeSeenBy eps100 v pts then ({ acc.1 with visible := acc.1.visible ++ [v] }, acc.2)
    else if acc.2.canBeSeenBy eps100 v pts then (acc.1, { acc.2 with visible := acc.2.visible ++ [v] })
    else acc) (f1, f2)
  let (und, f1, f2) := assignUndecidable eps100 pts (st.und.size + 1) 0 st.und f1 f2
  { segs := (segs.push f1).push f2, und := und }

/-- `get_initial_polyline`; `none` = the `assert!`s fail (fewer than 2 points / all coincident) -/
def initialPolyline (negMax eps100 : K) (pts : Array (V2 K)) : Option (HullState K) :=
  if pts.size < 2 then none else
  let all := List.range pts.size
  match indexedSupportPointId negMax ⟨1, 0⟩ pts all with
  | none => none
  | some p1 =>
    let dirs : List (V2 K) := [⟨-1, -0⟩, ⟨-0, -1⟩, ⟨0, 1⟩]
    let p2 := dirs.foldl (fun (acc : Nat × Bool) dir =>
      if acc.2 then acc else
      let p2 := (indexedSupportPointId negMax dir pts all).getD 0
      let d := (ptAt pts p2).sub (ptAt pts p1)
      (p2, !(neq d.normSq 0))) (p1, false)
    if p1 = p2.1 then none else
    let p2 := p2.1
    let f1 := SegFacet.new p1 p2 1 1 pts
    let f2 := SegFacet.new p2 p1 0 0 pts
    let (f1, f2, und) := all.foldl (fun (acc : SegFacet K × SegFacet K × Array Nat) i =>
      if i = p1 ∨ i = p2 then acc
      else if acc.1.canBeSeenBy eps100 i pts then ({ acc.1 with visible := acc.1.visible ++ [i] }, acc.2.1, acc.2.2)
      else if acc.2.1.canBeSeenBy eps100 i pts then (acc.1, { acc.2.1 with visible := acc.2.1.visible ++ [i] }, acc.2.2)
      else (acc.1, acc.2.1, acc.2.2.push i)) (f1, f2, #[])
    some { segs := #[f1, f2], und := und }

/-- main loop `while i != segments.len()` -/
def hullLoop (negMax eps100 : K) (pts : Array (V2 K)) : Nat → Nat → HullState K → HullState K
  | 0, _, st => st
  | fuel+1, i, st =>
    if i ≥ st.segs.size then st else
    match st.segs[i]? with
    | none => st
    | some f =>
      if !f.valid then hullLoop negMax eps100 pts fuel (i + 1) st else
      match indexedSupportPointId negMax f.normal pts f.visible with
      | some point =>
        let st1 := { st with segs := st.segs.modify i (fun g => { g with valid := false }) }
        hullLoop negMax eps100 pts fuel (i + 1) (attach eps100 pts st1 f.prev f.next point i)
      | none => hullLoop negMax eps100 pts fuel (i + 1) st

/-- final walk along `next` from the first valid facet -/
def hullWalk (segs : Array (SegFacet K)) (first : Nat) : Nat → Nat → List Nat → List Nat
  | 0, _, acc => acc
  | fuel+1, cur, acc =>
    match segs[cur]? with
    | none => acc
    | some f =>
      let acc := if f.valid then acc ++ [f.p0] else acc
      if f.next = first then acc else hullWalk segs first fuel f.next acc

/-- `convex_hull2_idx`; `none` = panic (assert) -/
def convexHull2Idx (negMax eps100 : K) (pts : Array (V2 K)) : Option (List Nat) :=
  match initialPolyline negMax eps100 pts with
  | none => none
  | some st0 =>
    let st := hullLoop negMax eps100 pts (2 * pts.size + 8) 0 st0
    match (List.range st.segs.size).find? (fun i => (st.segs[i]?.map (·.valid)).getD false) with
    | none => none      -- the Rust `while !segments[curr].valid` would run off the end (index panic)
    | some first => some (hullWalk st.segs first (st.segs.size + 1) first [])

end Model
