import ParryModel.Vec
import ParryModel.C12.Model
/-!
# C12 model: the 3-D quickhull `transformation::convex_hull3` (`try_convex_hull`)

Literal transliteration of `convex_hull3/{convex_hull,initial_mesh,triangle_facet}.rs`, `convex_hull_utils.rs`
(`normalize`, `support_point_id`, `indexed_support_point_id`, `indexed_support_point_nth`), `Triangle::area`,
`Triangle::is_affinely_dependent`, `utils::center`, `utils::remove_unused_points`.

The only part NOT transliterated is nalgebra's `symmetric_eigen` of the covariance matrix: its result (three eigenvector
columns, three eigenvalues) is an OBSERVED input of the model.  The full-dimensional branch (`dimension == 3`) of `try_get_initial_mesh` is `initialMesh`; the planar / linear / point branches
(`InitialMesh::ResultMesh`) are `lowDimMesh` (the planar one goes through the modelled 2-D quickhull `convexHull2Idx`).

`furthest_point` / `furthest_distance` of `TriangleFacet` are write-only in the Rust code (never read: the main loop recomputes the
support point) and are left out.  Out-of-range reads use a default (`getD`); `Theorems8` proves they are never out of range.
-/
namespace Model.H3
variable {K : Type} [Num K]

/-- `[usize; 3]` -/
structure T3 where
  a : Nat
  b : Nat
  c : Nat
  deriving Repr, DecidableEq, Inhabited

def T3.get (t : T3) (j : Nat) : Nat := if j = 0 then t.a else if j = 1 then t.b else t.c
def T3.set (t : T3) (j v : Nat) : T3 :=
  if j = 0 then { t with a := v } else if j = 1 then { t with b := v } else { t with c := v }

/-- `TriangleFacet` -/
structure Facet (K : Type) where
  valid : Bool
  affDep : Bool
  normal : V3 K
  adj : T3
  ind : T3
  pts : T3
  vis : Array Nat

def pAt (pts : Array (V3 K)) (i : Nat) : V3 K := (pts[i]?).getD V3.zero
def Facet.dflt : Facet K := ⟨false, false, V3.zero, ⟨0, 0, 0⟩, ⟨0, 0, 0⟩, ⟨0, 0, 0⟩, #[]⟩
def tAt (ts : Array (Facet K)) (i : Nat) : Facet K := (ts[i]?).getD Facet.dflt

/-- `DEFAULT_EPSILON` (f64) -/
def eps : K := lit 1 4503599627370496
/-- `DEFAULT_EPSILON * 100.0` -/
def eps100 : K := lit 100 4503599627370496

/-- `relative_eq!(x, 0.0, epsilon = e)` (default `max_relative`): for a finite non-zero `x` the relative branch
`|x| <= |x| * EPSILON` is false, so the test is `|x| <= e`. -/
def relEq0 (x e : K) : Bool := decide (nabs x ≤ e)

def first (f : Facet K) (id : Nat) : Nat := f.pts.get id
def second (f : Facet K) (id : Nat) : Nat := f.pts.get ((id + 1) % 3)

/-- `TriangleFacet::new` -/
def Facet.new (p1 p2 p3 : Nat) (pts : Array (V3 K)) : Facet K :=
  let p1p2 := (pAt pts p2).sub (pAt pts p1)
  let p1p3 := (pAt pts p3).sub (pAt pts p1)
  let cr := p1p2.cross p1p3
  { valid := true
    affDep := relEq0 cr.normSq ((eps100 : K) * eps100)
    normal := cr.normalize
    adj := ⟨0, 0, 0⟩, ind := ⟨0, 0, 0⟩, pts := ⟨p1, p2, p3⟩, vis := #[] }

/-- `distance_to_point` -/
def Facet.dist (f : Facet K) (p : Nat) (pts : Array (V3 K)) : K :=
  f.normal.dot ((pAt pts p).sub (pAt pts f.pts.a))

/-- `can_see_point` -/
def Facet.canSee (f : Facet K) (p : Nat) (pts : Array (V3 K)) : Bool :=
  if f.affDep then false
  else if ((pAt pts p).sub (pAt pts f.pts.a)).dot f.normal < eps100 then false else true

/-- `order_independent_can_be_seen_by_point` -/
def Facet.seenBy (f : Facet K) (p : Nat) (pts : Array (V3 K)) : Bool :=
  if f.affDep then true
  else (List.range 3).any fun i => decide ((0 : K) ≤ ((pAt pts p).sub (pAt pts (f.pts.get i))).dot f.normal)

/-- `add_visible_point`: `none` = the `assert!(distance > DEFAULT_EPSILON)` fires -/
def Facet.addVis (f : Facet K) (p : Nat) (pts : Array (V3 K)) : Option (Facet K) :=
  if (eps : K) < f.dist p pts then some { f with vis := f.vis.push p } else none

def ptEq (a b : V3 K) : Bool := neq a.x b.x && neq a.y b.y && neq a.z b.z

/-! ## support points -/

/-- `support_point_id` (all points) -/
def supportPointId (negMax : K) (dir : V3 K) (pts : Array (V3 K)) : Option Nat :=
  ((List.range pts.size).foldl (fun (acc : Option Nat × K) i =>
    let d := dir.dot (pAt pts i)
    if acc.2 < d then (some i, d) else acc) (none, negMax)).1

/-- `indexed_support_point_id` -/
def indexedSupportPointId (negMax : K) (dir : V3 K) (pts : Array (V3 K)) (idx : List Nat) : Option Nat :=
  (idx.foldl (fun (acc : Option Nat × K) i =>
    let d := dir.dot (pAt pts i)
    if acc.2 < d then (some i, d) else acc) (none, negMax)).1

/-- `indexed_support_point_nth`: position in the list instead of the index -/
def indexedSupportPointNth (negMax : K) (dir : V3 K) (pts : Array (V3 K)) (idx : List Nat) : Option Nat :=
  (idx.foldl (fun (acc : (Option Nat × K) × Nat) i =>
    let d := dir.dot (pAt pts i)
    (if acc.1.2 < d then (some acc.2, d) else acc.1, acc.2 + 1)) ((none, negMax), 0)).1.1

/-! ## silhouette -/

structure Sil (K : Type) where
  out : Array (Nat × Nat)
  removed : Array Nat
  ts : Array (Facet K)

def invalidate (ts : Array (Facet K)) (i : Nat) : Array (Facet K) :=
  ts.setIfInBounds i { tAt ts i with valid := false }

/-- `compute_silhouette`; the recursion depth is bounded by the number of valid facets (every nested call follows an invalidation) -/
def computeSilhouette (pts : Array (V3 K)) (point : Nat) : Nat → Nat → Nat → Sil K → Sil K
  | 0, _, _, s => s
  | fuel + 1, facet, iid, s =>
    let f := tAt s.ts facet
    if f.valid then
      if !(f.seenBy point pts) then { s with out := s.out.push (facet, iid) }
      else
        let s1 : Sil K := { s with ts := invalidate s.ts facet, removed := s.removed.push facet }
        let s2 := computeSilhouette pts point fuel (f.adj.get ((iid + 1) % 3)) (f.ind.get ((iid + 1) % 3)) s1
        computeSilhouette pts point fuel (f.adj.get ((iid + 2) % 3)) (f.ind.get ((iid + 2) % 3)) s2
    else s

def secondOf (ts : Array (Facet K)) (e : Nat × Nat) : Nat := second (tAt ts e.1) e.2
def firstOf (ts : Array (Facet K)) (e : Nat × Nat) : Nat := first (tAt ts e.1) e.2

/-- the `workspace` counting pass of `fix_silhouette_topology` -/
def countSeconds (npts : Nat) (ts : Array (Facet K)) (out : Array (Nat × Nat)) : Array Nat × Bool :=
  out.foldl (fun (acc : Array Nat × Bool) e =>
    let p := secondOf ts e
    let w := acc.1.setIfInBounds p ((acc.1[p]?).getD 0 + 1)
    (w, acc.2 || decide ((w[p]?).getD 0 > 1))) (Array.replicate npts 0, false)

/-- the search for `loop_start`: `none` = `Err(MissingSupportPoint)`, default 0 when no candidate is found -/
def findLoopStart (negMax : K) (pts : Array (V3 K)) (ts : Array (Facet K)) (ws : Array Nat) (out : Array (Nat × Nat)) :
    List (Nat × Nat) → Option Nat
  | [] => some 0
  | e :: rest =>
    let p1 := pAt pts (secondOf ts e)
    let p2 := pAt pts (firstOf ts e)
    match indexedSupportPointNth negMax (p2.sub p1) pts (out.toList.map (secondOf ts)) with
    | none => none
    | some supp =>
      let sel := (out[supp]?).getD (0, 0)
      if (ws[secondOf ts sel]?).getD 0 = 1 then some supp else findLoopStart negMax pts ts ws out rest

structure FixSt (K : Type) where
  removing : Option Nat
  out : Array (Nat × Nat)
  removed : Array Nat
  ts : Array (Facet K)

def fixStep (ws : Array Nat) (old : Array (Nat × Nat)) (start : Nat) (st : FixSt K) (i : Nat) : FixSt K :=
  let e := (old[(start + i) % old.size]?).getD (0, 0)
  let p1 := secondOf st.ts e
  let removing : Option Nat := match st.removing with
    | some p => if p = p1 then none else some p
    | none => if (ws[p1]?).getD 0 > 1 then some p1 else none
  if removing.isSome then
    if (tAt st.ts e.1).valid then
      { removing := removing, out := st.out, removed := st.removed.push e.1, ts := invalidate st.ts e.1 }
    else { st with removing := removing }
  else { st with removing := removing, out := st.out.push e }

/-- `fix_silhouette_topology`; `none` = `Err(MissingSupportPoint)` -/
def fixSilhouetteTopology (negMax : K) (pts : Array (V3 K)) (s : Sil K) : Option (Sil K) :=
  let (ws, needsFixing) := countSeconds pts.size s.ts s.out
  if !needsFixing then some s else
  match findLoopStart negMax pts s.ts ws s.out s.out.toList with
  | none => none
  | some start =>
    let st := (List.range s.out.size).foldl (fixStep ws s.out start) ⟨none, #[], s.removed, s.ts⟩
    some ⟨st.out, st.removed, st.ts⟩

/-! ## attaching the cone of new facets -/

/-- the facet-creation loop of `attach_and_push_facets` -/
def newFacets (pts : Array (V3 K)) (point : Nat) (ts : Array (Facet K)) (sil : Array (Nat × Nat)) : Array (Facet K) :=
  sil.map fun e => Facet.new point (secondOf ts e) (firstOf ts e) pts

structure LinkSt (K : Type) where
  ts : Array (Facet K)
  nf : Array (Facet K)
  panic : Bool

/-- one iteration of the linking loop (`n` = `triangles.len()`, `m` = silhouette length) -/
def linkStep (n m : Nat) (sil : Array (Nat × Nat)) (st : LinkSt K) (i : Nat) : LinkSt K :=
  if st.panic then st else
  let prev := if i = 0 then n + m - 1 else n + i - 1
  let e := (sil[i]?).getD (0, 0)
  let next := n + (i + 1) % m
  let nf := st.nf.setIfInBounds i { tAt st.nf i with adj := ⟨prev, e.1, next⟩, ind := ⟨2, e.2, 0⟩ }
  let mf := tAt st.ts e.1
  -- assert!(!triangles[triangles[middle_facet].adj[middle_id]].valid)   (index panic when the link was already overwritten)
  match st.ts[mf.adj.get e.2]? with
  | none => { st with panic := true }
  | some g =>
    if g.valid then { st with panic := true } else
    { ts := st.ts.setIfInBounds e.1 { mf with adj := mf.adj.set e.2 (n + i), ind := mf.ind.set e.2 1 }, nf := nf, panic := false }

/-- furthest new facet among the non-affinely-dependent ones (removed facets' points) -/
def furthestA (pts : Array (V3 K)) (nf : Array (Facet K)) (vp : Nat) : Option Nat × K :=
  (List.range nf.size).foldl (fun (acc : Option Nat × K) i =>
    let f := tAt nf i
    if !f.affDep then
      let d := f.dist vp pts
      if acc.2 < d then (some i, d) else acc
    else acc) (none, 0)

/-- furthest new facet among those that can see the point (undecidable points) -/
def furthestB (pts : Array (V3 K)) (nf : Array (Facet K)) (vp : Nat) : Option Nat × K :=
  (List.range nf.size).foldl (fun (acc : Option Nat × K) i =>
    let f := tAt nf i
    if f.canSee vp pts then
      let d := f.dist vp pts
      if acc.2 < d then (some i, d) else acc
    else acc) (none, 0)

/-- redistribution of one visible point of a removed facet; `none` = assert panic -/
def redistribute (pts : Array (V3 K)) (point : Nat) (nf : Array (Facet K)) (vp : Nat) : Option (Array (Facet K)) :=
  if ptEq (pAt pts vp) (pAt pts point) then some nf else
  match (furthestA pts nf vp).1 with
  | none => some nf
  | some j =>
    if (tAt nf j).canSee vp pts then
      match (tAt nf j).addVis vp pts with
      | some f => some (nf.setIfInBounds j f)
      | none => none
    else some nf

/-- the `while i != undecidable.len()` loop with `swap_remove` -/
def assignUndecidable (pts : Array (V3 K)) : Nat → Nat → Array Nat → Array (Facet K) → Option (Array Nat × Array (Facet K))
  | 0, _, und, nf => some (und, nf)
  | fuel + 1, i, und, nf =>
    if i ≥ und.size then some (und, nf) else
    let u := (und[i]?).getD 0
    match (furthestB pts nf u).1 with
    | some j =>
      match (tAt nf j).addVis u pts with
      | some f => assignUndecidable pts fuel i ((und.setIfInBounds i ((und.back?).getD 0)).pop) (nf.setIfInBounds j f)
      | none => none
    | none => assignUndecidable pts fuel (i + 1) und nf

/-- `attach_and_push_facets`; `none` = a panic (assert / index) -/
def attachAndPush (pts : Array (V3 K)) (point : Nat) (sil : Array (Nat × Nat)) (removed : Array Nat)
    (ts : Array (Facet K)) (und : Array Nat) : Option (Array (Facet K) × Array Nat) :=
  let nf0 := newFacets pts point ts sil
  let st := (List.range sil.size).foldl (linkStep ts.size sil.size sil) ⟨ts, nf0, false⟩
  if st.panic then none else
  let vps : List Nat := removed.toList.flatMap fun r => (tAt st.ts r).vis.toList
  match vps.foldlM (fun nf vp => redistribute pts point nf vp) st.nf with
  | none => none
  | some nf1 =>
    match assignUndecidable pts (und.size + 1) 0 und nf1 with
    | none => none
    | some (und', nf2) => some (st.ts ++ nf2, und')

/-! ## main loop -/

inductive Res (α : Type) where
  | ok : α → Res α
  | err : String → Res α
  | panic : Res α
  | hang : Res α
  | lowdim : Res α

/-- `triangles[i].valid = false; removed_facets = [i]; for j in 0..3 { compute_silhouette(adj[j], indirect_adj_id[j], …) }` -/
def silhouetteStep (pts : Array (V3 K)) (point i : Nat) (ts : Array (Facet K)) : Sil K :=
  let t := tAt ts i
  let s0 : Sil K := ⟨#[], #[i], invalidate ts i⟩
  let s1 := computeSilhouette pts point (ts.size + 1) (t.adj.get 0) (t.ind.get 0) s0
  let s2 := computeSilhouette pts point (ts.size + 1) (t.adj.get 1) (t.ind.get 1) s1
  computeSilhouette pts point (ts.size + 1) (t.adj.get 2) (t.ind.get 2) s2

/-- one pass of `while i != triangles.len()`: `Sum.inl` = continue with the new state, `Sum.inr` = loop left (break / error) -/
def mainStep (negMax : K) (pts : Array (V3 K)) (i : Nat) (ts : Array (Facet K)) (und : Array Nat) :
    Res (Bool × Array (Facet K) × Array Nat) :=
  let t := tAt ts i
  if !t.valid || t.affDep then .ok (false, ts, und) else
  match indexedSupportPointId negMax t.normal pts t.vis.toList with
  | none => .ok (false, ts, und)
  | some point =>
    let s1 := silhouetteStep pts point i ts
    match fixSilhouetteTopology negMax pts s1 with
    | none => .err "MissingSupportPoint"
    | some s2 =>
      if s2.out.isEmpty then
        let anyValid := (List.range (s2.ts.size - (i + 1))).any fun k => let g := tAt s2.ts (i + 1 + k); g.valid && !g.affDep
        if anyValid then .err "InternalError(\"Internal_error:_exiting_an_unfinished_work.\")"
        else .ok (true, s2.ts.setIfInBounds i { tAt s2.ts i with valid := true }, und)
      else
        match attachAndPush pts point s2.out s2.removed s2.ts und with
        | none => .panic
        | some (ts', und') => .ok (false, ts', und')

def mainLoop (negMax : K) (pts : Array (V3 K)) : Nat → Nat → Array (Facet K) → Array Nat → Res (Array (Facet K))
  | 0, _, _, _ => .hang
  | fuel + 1, i, ts, und =>
    if i = ts.size then .ok ts else
    match mainStep negMax pts i ts und with
    | .ok (brk, ts', und') => if brk then .ok ts' else mainLoop negMax pts fuel (i + 1) ts' und'
    | .err e => .err e
    | .panic => .panic
    | .hang => .hang
    | .lowdim => .lowdim

/-! ## initial mesh (full-dimensional branch) -/

/-- `convex_hull_utils::normalize` -/
def normalizeCloud (pts : Array (V3 K)) : Array (V3 K) :=
  let p0 := pAt pts 0
  let (mn, mx) := (pts.toList.drop 1).foldl (fun (acc : V3 K × V3 K) p => (acc.1.inf p, acc.2.sup p)) (p0, p0)
  let diag := (mx.sub mn).norm
  let c := V3.center mn mx
  pts.map fun p => (p.add c.neg).sdiv diag

/-- `utils::center` -/
def cloudCenter (pts : Array (V3 K)) : V3 K :=
  let denom : K := (1 : K) / lit (pts.size : Int)
  (pts.toList.drop 1).foldl (fun (acc : V3 K) p => acc.add (p.smul denom)) ((pAt pts 0).smul denom)

/-- `utils::sort3` (ascending) -/
def sort3 (a b c : K) : K × K × K :=
  let a_b := decide (b < a); let a_c := decide (c < a); let b_c := decide (c < b)
  if a_b then
    if a_c then (if b_c then (c, b, a) else (b, c, a)) else (b, a, c)
  else
    if !a_c then (if b_c then (a, c, b) else (a, b, c)) else (c, a, b)

/-- `Triangle::area` (Kahan) -/
def triArea (pa pb pc : V3 K) : K :=
  let a := (pb.sub pa).norm
  let b := (pc.sub pb).norm
  let c := (pa.sub pc).norm
  let (c, b, a) := sort3 a b c
  let sqr := (a + (b + c)) * (c - (a - b)) * (c + (a - b)) * (a + (b - c))
  Num.sqrt (nmax sqr 0) * lit 1 4

/-- stable insertion sort of the three eigenpairs by decreasing eigenvalue (`sort_by` with the reversed comparator) -/
def sortPairs (l : List (V3 K × K)) : List (V3 K × K) :=
  l.foldl (fun acc p =>
    let before := acc.takeWhile fun q => !(decide (q.2 < p.2))
    before ++ [p] ++ acc.drop before.length) []

/-- `dimension` count: first sorted eigenvalue with `relative_eq!(ev, 0.0, epsilon = 1.0e-7)` -/
def dimension (evs : List K) : Nat := (evs.takeWhile fun ev => !(relEq0 ev (lit 1 10000000))).length

structure Init (K : Type) where
  npts : Array (V3 K)
  ts : Array (Facet K)
  und : Array Nat

/-- attribution of one point to the two initial facets; `none` = assert panic -/
def initAssign (pts : Array (V3 K)) (p1 p2 p3 : Nat) (st : Array (Facet K) × Array Nat) (p : Nat) : Option (Array (Facet K) × Array Nat) :=
  if ptEq (pAt pts p) (pAt pts p1) || ptEq (pAt pts p) (pAt pts p2) || ptEq (pAt pts p) (pAt pts p3) then some st else
  match (furthestB pts st.1 p).1 with
  | some j =>
    match (tAt st.1 j).addVis p pts with
    | some f => some (st.1.setIfInBounds j f, st.2)
    | none => none
  | none => some (st.1, st.2.push p)

/-- `try_get_initial_mesh`, branch `dimension == 3`; `evec` = columns of `eig.eigenvectors`, `eval` = `eig.eigenvalues` (observed) -/
def initialMesh (negMax : K) (orig : Array (V3 K)) (evec : List (V3 K)) (eval : List K) : Res (Init K) :=
  let npts := normalizeCloud orig
  let pairs := sortPairs (evec.zip eval)
  if dimension (pairs.map (·.2)) ≠ 3 then .lowdim else
  let center := cloudCenter npts
  let amax := (eval.drop 1).foldl (fun a b => nmax a (nabs b)) (nabs (eval.headD 0))
  let npts := npts.map fun p => (p.sub center).sdiv amax
  let axis := (pairs.headD (V3.zero, 0)).1
  match supportPointId negMax axis npts, supportPointId negMax axis.neg npts with
  | some p1, some p2 =>
    let (p3, _) := (List.range npts.size).foldl (fun (acc : Option Nat × K) i =>
      let area := triArea (pAt npts p1) (pAt npts p2) (pAt npts i)
      if acc.2 < area then (some i, area) else acc) (none, 0)
    match p3 with
    | none => .err "InternalError(\"no_triangle_found.\")"
    | some p3 =>
      let f1 : Facet K := { Facet.new p1 p2 p3 npts with adj := ⟨1, 1, 1⟩, ind := ⟨0, 2, 1⟩ }
      let f2 : Facet K := { Facet.new p2 p1 p3 npts with adj := ⟨0, 0, 0⟩, ind := ⟨0, 2, 1⟩ }
      match (List.range npts.size).foldlM (initAssign npts p1 p2 p3) (#[f1, f2], #[]) with
      | none => .panic
      | some (ts, und) => .ok ⟨npts, ts, und⟩
  | _, _ => .err "MissingSupportPoint"

/-! ## output -/

/-- `utils::remove_unused_points` -/
def removeUnused (pts : Array (V3 K)) (idx : Array T3) : Array (V3 K) × Array T3 :=
  let used0 : Array Bool := idx.foldl (fun u t => ((u.setIfInBounds t.a true).setIfInBounds t.b true).setIfInBounds t.c true)
    (Array.replicate pts.size false)
  let rec go : Nat → Nat → Array (V3 K) → Array Bool → Array Nat → Array (V3 K) × Array Nat
    | 0, _, p, _, r => (p, r)
    | fuel + 1, i, p, u, r =>
      if i = p.size then (p, r) else
      if !((u[i]?).getD false) then
        let p' := (p.setIfInBounds i ((p.back?).getD V3.zero)).pop
        go fuel i p' (u.setIfInBounds i ((u[p'.size]?).getD false)) (r.setIfInBounds p'.size i)
      else go fuel (i + 1) p u r
  let (p, remap) := go (2 * pts.size + 1) 0 pts used0 (Array.range pts.size)
  let rm := fun (i : Nat) => (remap[i]?).getD 0
  (p, idx.map fun t => ⟨rm t.a, rm t.b, rm t.c⟩)

/-- `utils::remove_unused_points` called as a public function: `none` = the index panic of its marking pass
(`used[i[k] as usize] = true` with an index `>= points.len()`); in `try_convex_hull` the indices are in range (`Theorems11`) -/
def removeUnusedPub (pts : Array (V3 K)) (idx : Array T3) : Option (Array (V3 K) × Array T3) :=
  if idx.all (fun t => decide (t.a < pts.size) && decide (t.b < pts.size) && decide (t.c < pts.size)) then
    some (removeUnused pts idx) else none

/-- the facets of the final state as an index buffer -/
def validTriangles (ts : Array (Facet K)) : Array T3 := (ts.filter (·.valid)).map (·.pts)

/-- `utils::point_cloud_support_point_id` -/
def cloudSupportId (dir : V3 K) (pts : Array (V3 K)) : Nat :=
  ((List.range pts.size).drop 1).foldl (fun (acc : Nat × K) i =>
    let d := (pAt pts i).dot dir
    if acc.2 < d then (i, d) else acc) (0, (pAt pts 0).dot dir) |>.1

/-- the branches `dimension` = 0, 1, 2 of `try_get_initial_mesh` (`InitialMesh::ResultMesh`: returned as is, without
`remove_unused_points`): a point, a segment, or the 2-D hull of the cloud projected on the two principal axes, triangulated as a
two-sided fan. `none` = the branch `dimension == 3` (see `initialMesh`). -/
def lowDimMesh (negMax : K) (orig : Array (V3 K)) (evec : List (V3 K)) (eval : List K) : Option (Res (Array (V3 K) × Array T3)) :=
  let npts := normalizeCloud orig
  let pairs := sortPairs (evec.zip eval)
  match dimension (pairs.map (·.2)) with
  | 0 => some (.ok (#[pAt orig 0], #[⟨0, 0, 0⟩, ⟨0, 0, 0⟩]))
  | 1 =>
    let dir := (pairs.headD (V3.zero, 0)).1
    let a := pAt orig (cloudSupportId dir orig)
    let b := pAt orig (cloudSupportId dir.neg orig)
    some (.ok (#[a, b], #[⟨0, 1, 0⟩, ⟨1, 0, 0⟩]))
  | 2 =>
    let axis1 := (pairs.headD (V3.zero, 0)).1
    let axis2 := ((pairs.drop 1).headD (V3.zero, 0)).1
    let sub : Array (V2 K) := npts.map fun p => ⟨p.dot axis1, p.dot axis2⟩
    match Model.convexHull2Idx negMax eps100 sub with
    | none => some .panic
    | some idx =>
      let n := idx.length
      let coords := (idx.map (pAt orig)).toArray
      let top := ((List.range (n - 1)).drop 1).map fun id => (⟨0, id, id + 1⟩ : T3)
      let bot := (List.range (n - 2)).map fun id => (⟨n - 1, id + 1, id⟩ : T3)
      some (.ok (coords, (top ++ bot).toArray))
  | _ => none

/-- `try_convex_hull` for `points.len() >= 3`, given the observed eigen-decomposition -/
def tryConvexHull (negMax : K) (orig : Array (V3 K)) (evec : List (V3 K)) (eval : List K) : Res (Array (V3 K) × Array T3) :=
  match initialMesh negMax orig evec eval with
  | .ok ini =>
    (match mainLoop negMax ini.npts (16 * orig.size * orig.size + 64) 0 ini.ts ini.und with
     | .ok ts => .ok (removeUnused orig (validTriangles ts))
     | .err e => .err e | .panic => .panic | .hang => .hang | .lowdim => .lowdim)
  | .err e => .err e | .panic => .panic | .hang => .hang
  | .lowdim => (lowDimMesh negMax orig evec eval).getD .lowdim

end Model.H3
