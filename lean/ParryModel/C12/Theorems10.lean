import ParryModel.Field
import ParryModel.C12.Polygon
import ParryModel.C12.Lemmas5
/-!
# C12 theorems, tenth pass: `ConvexPolygon::from_convex_polyline` (model `Polygon.lean`, tied bit-exactly to the real
`ConvexPolygon::from_convex_hull` through the modelled 2-D hull).

Every `Num` instance (`Float` included):
* `fromConvexPolyline_shape` — a returned polygon has as many normals as points, more than 2 and at most as many as the input.
* `fromConvexPolyline_provenance` — every returned vertex is an input vertex (the in-place compaction only copies input vertices).

Lawful ordered field with a lawful square root:
* `unitTryNew_spec` — `Unit::try_new(v, m)` (m ≥ 0) is `None` iff `|v|² ≤ m²`, otherwise the unit vector `v / |v|`.
* `ccwFaceNormal_outward` — `ccw_face_normal([a, b])`, when it exists, is a unit vector orthogonal to `b - a` pointing to the RIGHT of
  the directed edge (`(b - a) × n < 0`): for a counter-clockwise polygon, outwards.
-/
namespace C12
open Model Model.Pg

section anyNum
variable {K : Type} [Num K]

private theorem compStep_sizes (thr : K) (st : CompSt K) (i2 : Nat) :
    (compStep thr st i2).points.size = st.points.size ∧ (compStep thr st i2).normals.size = st.normals.size := by
  unfold compStep
  split <;> simp

private theorem compFold_sizes (thr : K) : ∀ (l : List Nat) (st : CompSt K),
    (l.foldl (compStep thr) st).points.size = st.points.size ∧ (l.foldl (compStep thr) st).normals.size = st.normals.size := by
  intro l
  induction l with
  | nil => intro st; exact ⟨rfl, rfl⟩
  | cons a l ih =>
    intro st
    simp only [List.foldl_cons]
    obtain ⟨h1, h2⟩ := ih (compStep thr st a)
    obtain ⟨g1, g2⟩ := compStep_sizes thr st a
    exact ⟨h1.trans g1, h2.trans g2⟩

theorem fromConvexPolyline_shape (points : Array (V2 K)) (p : Polygon K) (h : fromConvexPolyline points = some p) :
    p.points.size = p.normals.size ∧ 2 < p.points.size ∧ p.points.size ≤ points.size := by
  unfold fromConvexPolyline at h
  split at h
  · exact absurd h (by simp)
  · split at h
    · exact absurd h (by simp)
    · rename_i ns hns
      have hlen : ns.length = points.size := by
        have := (List.mapM_option_some _ _ _ hns).1
        simpa using this
      simp only at h
      unfold finishPolygon at h
      split at h
      · rename_i hgt
        simp only [Option.some.injEq] at h
        subst h
        obtain ⟨s1, s2⟩ := compFold_sizes ((1 : K) - Num.sqrt (lit 1 4503599627370496)) ((List.range points.size).drop 1)
          ⟨points, ns.toArray, firstRemoved ((1 : K) - Num.sqrt (lit 1 4503599627370496)) ns.toArray⟩
        simp only [Array.size_extract, compactAll] at hgt ⊢
        simp only at s1 s2
        rw [s1] at hgt ⊢
        rw [s2]
        have ha : ns.toArray.size = points.size := by simp [hlen]
        generalize (List.foldl (compStep ((1 : K) - Num.sqrt (lit 1 4503599627370496)))
          ⟨points, ns.toArray, firstRemoved ((1 : K) - Num.sqrt (lit 1 4503599627370496)) ns.toArray⟩
          ((List.range points.size).drop 1)).nremoved = c at hgt ⊢
        omega
      · exact absurd h (by simp)

/-- a vertex array all of whose entries come from `src` -/
private def From (src arr : Array (V2 K)) : Prop := ∀ k, k < arr.size → ∃ i, i < src.size ∧ arr[k]? = src[i]?

private theorem compStep_from (src : Array (V2 K)) (thr : K) (st : CompSt K) (i2 : Nat) (hi : i2 < st.points.size)
    (h : From src st.points) : From src (compStep thr st i2).points := by
  unfold compStep
  split
  · exact h
  · intro k hk
    simp only [Array.size_setIfInBounds] at hk
    rw [Array.getElem?_setIfInBounds]
    by_cases hc : i2 - st.nremoved = k
    · simp only [hc, if_true, hk, and_self]
      obtain ⟨i, hi', he⟩ := h i2 hi
      refine ⟨i, hi', ?_⟩
      rw [← he]; unfold pA; simp [hi]
    · simp only [hc, false_and, if_false]
      exact h k hk

theorem fromConvexPolyline_provenance (points : Array (V2 K)) (p : Polygon K) (h : fromConvexPolyline points = some p) :
    ∀ k, k < p.points.size → ∃ i, i < points.size ∧ p.points[k]? = points[i]? := by
  unfold fromConvexPolyline at h
  split at h
  · exact absurd h (by simp)
  · split at h
    · exact absurd h (by simp)
    · rename_i ns hns
      simp only at h
      unfold finishPolygon at h
      split at h
      · simp only [Option.some.injEq] at h
        subst h
        have key : ∀ (l : List Nat) (st : CompSt K), (∀ x ∈ l, x < st.points.size) → From points st.points →
            From points (l.foldl (compStep ((1 : K) - Num.sqrt (lit 1 4503599627370496))) st).points := by
          intro l
          induction l with
          | nil => intro st _ hf; exact hf
          | cons a l ih =>
            intro st hl hf
            simp only [List.foldl_cons]
            refine ih _ (fun x hx => ?_) (compStep_from points _ st a (hl a (by simp)) hf)
            rw [(compStep_sizes _ st a).1]; exact hl x (by simp [hx])
        have hfrom := key ((List.range points.size).drop 1)
          ⟨points, ns.toArray, firstRemoved ((1 : K) - Num.sqrt (lit 1 4503599627370496)) ns.toArray⟩
          (fun x hx => by have := List.mem_of_mem_drop hx; simpa using this) (fun k hk => ⟨k, hk, rfl⟩)
        intro k hk
        simp only [Array.size_extract] at hk
        obtain ⟨i, hi, hpi⟩ := hfrom k (by unfold compactAll at hk; omega)
        refine ⟨i, hi, ?_⟩
        rw [Array.getElem?_extract, if_pos (by omega)]
        simpa [compactAll] using hpi
      · exact absurd h (by simp)

end anyNum

section field
variable {K : Type} [Field K] [LinearOrder K] [IsStrictOrderedRing K] (sq : K → K)

private theorem normSq2_eq (v : V2 K) : @V2.normSq K (fieldNum K sq) v = v.x * v.x + v.y * v.y := rfl

/-- `Unit::try_new(v, m)` (2-D) is `None` iff `|v|² ≤ m²`. -/
theorem unitTryNew_eq_none_iff (v : V2 K) (m : K) :
    letI := fieldNum K sq
    unitTryNew v m = none ↔ v.x * v.x + v.y * v.y ≤ m * m := by
  unfold unitTryNew
  by_cases h : m * m < @V2.normSq K (fieldNum K sq) v
  · simp only [if_pos h, reduceCtorEq, false_iff, not_le]; rw [normSq2_eq] at h; exact h
  · simp only [if_neg h, true_iff]; rw [normSq2_eq] at h; exact not_lt.mp h

/-- `Unit::try_new(v, m) = Some(u)`: `u` is a unit vector and `v = r u` with `r = |v| > 0`. -/
theorem unitTryNew_some_unit (hs : LawfulSqrt sq) (v u : V2 K) (m : K) :
    letI := fieldNum K sq
    unitTryNew v m = some u →
      u.x * u.x + u.y * u.y = 1 ∧ ∃ r : K, 0 < r ∧ r * r = v.x * v.x + v.y * v.y ∧ v.x = u.x * r ∧ v.y = u.y * r := by
  intro h
  unfold unitTryNew at h
  by_cases hlt : m * m < @V2.normSq K (fieldNum K sq) v
  swap
  · simp only [if_neg hlt, reduceCtorEq] at h
  simp only [if_pos hlt, Option.some.injEq] at h
  rw [normSq2_eq] at hlt h
  have hpos : 0 < v.x * v.x + v.y * v.y := lt_of_le_of_lt (mul_self_nonneg m) hlt
  have hr0 := hs.nonneg _ hpos.le
  have hrr := hs.sq_mul _ hpos.le
  simp only [fieldNum_sqrt] at h
  set r := sq (v.x * v.x + v.y * v.y) with hr
  have hrpos : 0 < r := by
    rcases lt_or_eq_of_le hr0 with h' | h'
    · exact h'
    · rw [← h'] at hrr; simp at hrr; linarith
  have hne : r ≠ 0 := ne_of_gt hrpos
  subst h
  simp only [V2.sdiv]
  refine ⟨?_, r, hrpos, hrr, ?_, ?_⟩
  · field_simp; linarith
  · field_simp
  · field_simp

/-- **`ccw_face_normal([a, b])` is the outward unit normal of a counter-clockwise edge**: a unit vector, orthogonal to `b - a`,
on the right-hand side of the directed edge. -/
theorem ccwFaceNormal_outward (hs : LawfulSqrt sq) (a b n : V2 K) :
    letI := fieldNum K sq
    Pg.ccwFaceNormal a b = some n →
      n.x * n.x + n.y * n.y = 1 ∧ n.x * (b.x - a.x) + n.y * (b.y - a.y) = 0 ∧
      (b.x - a.x) * n.y - (b.y - a.y) * n.x < 0 := by
  intro h
  unfold Pg.ccwFaceNormal at h
  obtain ⟨hu, r, hr, hrr, hx, hy⟩ := unitTryNew_some_unit sq hs _ n _ h
  simp only [V2.sub] at hx hy hrr
  refine ⟨hu, ?_, ?_⟩
  · have : r * (n.x * (b.x - a.x) + n.y * (b.y - a.y)) = 0 := by
      have e1 : b.y - a.y = n.x * r := hx
      have e2 : -(b.x - a.x) = n.y * r := hy
      have e3 : b.x - a.x = -(n.y * r) := by linarith
      rw [e1, e3]; ring
    rcases mul_eq_zero.mp this with h0 | h0
    · exact absurd h0 (ne_of_gt hr)
    · exact h0
  · have e1 : b.y - a.y = n.x * r := hx
    have e2 : -(b.x - a.x) = n.y * r := hy
    have e3 : b.x - a.x = -(n.y * r) := by linarith
    rw [e1, e3]
    have : -(n.y * r) * n.y - n.x * r * n.x = -(r * (n.x * n.x + n.y * n.y)) := by ring
    rw [this, hu]; linarith

/-- non-vacuity: the edge `(0,0) → (3,0)` has the outward normal `(0,-1)` -/
example : letI := fieldNum ℚ (fun x => if x = 9 then 3 else 0)
    Pg.ccwFaceNormal (⟨0, 0⟩ : V2 ℚ) ⟨3, 0⟩ = some ⟨0, -1⟩ := by
  simp only [Pg.ccwFaceNormal, unitTryNew, V2.sub, V2.normSq, V2.dot, V2.sdiv, fieldNum_lit, fieldNum_sqrt]
  norm_num

end field

end C12
