import ParryModel.Field
import ParryModel.C12.Lemmas12
import ParryModel.C12.Theorems7
/-!
# C12 theorems, thirteenth pass (fu5): the face rows built by the contour walk of `ConvexPolyhedron::from_convex_mesh`
(pass 3 of `ModelPoly.lean`, tied bit-exactly to the real code), for **every** `Num` instance.

* `pass3_rows_wellformed` — for every run of the face-building pass that returns: `edges_adj_to_face` and `vertices_adj_to_face`
  have the same length; every face row `[first, first + num)` lies inside them, has at least 3 entries, and the rows of two
  different faces are disjoint and in increasing order; every entry of `edges_adj_to_face` is the id of an existing edge that is
  NOT deleted (a contour never runs along an edge between two merged coplanar triangles).
* `fromConvexMesh_face_rows` — the same for the finished `ConvexPolyhedron` (`faces`, `edges_adj_to_face`,
  `vertices_adj_to_face`, `edges` after the face-id rewriting pass): `ConvexPolyhedron::faces()/edges()` can be sliced by every
  face without panic, and a face's contour edges are live edges of the polyhedron.
* `fromConvexMesh_face_vertices` — every entry of `vertices_adj_to_face` of the finished polyhedron is a corner of one of the INPUT
  triangles (the walk and the flood only rewrite `parent_face`, never a vertex triple): a face's vertex list never names a point
  that no triangle uses.
* `fromConvexMesh_vertex_rows` — pass 5 (vertex → faces / edges compressed rows): `faces_adj_to_vertex` and `edges_adj_to_vertex`
  have the same length and every vertex row `[first, first + num)` lies inside them (slicing them per vertex never panics).
-/
namespace C12
open Model

variable {K : Type} [Num K]

/-- **the face rows are well formed** after pass 3, from the empty state -/
theorem pass3_rows_wellformed (edges : Array (PEdge K)) (tris : Array (PTri K)) (l : List Nat) (st : P3State K)
    (h : pass3 edges l { tris := tris, faces := #[], eaf := #[], vaf := #[] } = .ok st) : P3Inv edges st :=
  pass3_inv edges l _ st h ⟨rfl, fun x hx => by simp at hx, fun k f hk => by simp at hk, fun k k' f f' _ hk _ => by simp at hk⟩

/-- **face rows of the finished polyhedron** -/
theorem fromConvexMesh_face_rows (pts : Array (V3 K)) (idxs : List (Nat × Nat × Nat)) (p : Poly K)
    (h : fromConvexMesh pts idxs = .ok p) :
    p.edgesAdjToFace.size = p.verticesAdjToFace.size ∧
    (∀ (k : Nat) (f : PFace K), p.faces[k]? = some f → f.first + f.num ≤ p.edgesAdjToFace.size ∧ 2 < f.num) ∧
    (∀ (k k' : Nat) (f f' : PFace K), k < k' → p.faces[k]? = some f → p.faces[k']? = some f' → f.first + f.num ≤ f'.first) ∧
    (∀ x, x ∈ p.edgesAdjToFace.toList → ∃ e, p.edges[x]? = some e ∧ e.deleted = false) := by
  obtain ⟨s1, edges2, s3, _, _, h3, h4, _, hf, he, hv⟩ := fromConvexMesh_ok pts idxs p h
  have inv := pass3_rows_wellformed edges2 s1.tris _ s3 h3
  rw [hf, he, hv]
  refine ⟨inv.sz, inv.rows, inv.ord, fun x hx => ?_⟩
  obtain ⟨e2, he2, hd⟩ := inv.live x hx
  obtain ⟨_, hf4⟩ := Array.mapM_option_some _ _ _ h4
  obtain ⟨e4, hr, he4⟩ := hf4 x e2 he2
  exact ⟨e4, he4, by rw [rewriteFaces_deleted _ _ _ hr]; exact hd⟩

/-- **the vertices listed for the faces are corners of input triangles** -/
theorem fromConvexMesh_face_vertices (pts : Array (V3 K)) (idxs : List (Nat × Nat × Nat)) (p : Poly K)
    (hlen : idxs.length ≤ u32Max) (h : fromConvexMesh pts idxs = .ok p) :
    ∀ x, x ∈ p.verticesAdjToFace.toList → ∃ (k : Nat) (idx : Nat × Nat × Nat) (j : Nat), idxs[k]? = some idx ∧ x = get3 idx j := by
  obtain ⟨s1, edges2, s3, h1, _, h3, _, _, _, _, hv⟩ := fromConvexMesh_ok pts idxs p h
  obtain ⟨_, hsz, htv⟩ := pass1_edge_incidence pts idxs s1 hlen h1
  have inv := pass3_vinv edges2 s1.tris _ _ s3 h3 ⟨fun _ => rfl, fun x hx => by simp at hx⟩
  rw [hv]
  intro x hx
  obtain ⟨c, t, j, hc, rfl⟩ := inv.vok x hx
  have hcl : c < idxs.length := by
    rw [← hsz]
    rcases Nat.lt_or_ge c s1.tris.size with hlt | hge
    · exact hlt
    · rw [Array.getElem?_eq_none hge] at hc; cases hc
  have := htv c hcl
  rw [hc] at this
  exact ⟨c, t.v, j, by simpa using this.symm, rfl⟩

/-- **the vertex rows lie inside the vertex adjacency arrays** -/
theorem fromConvexMesh_vertex_rows (pts : Array (V3 K)) (idxs : List (Nat × Nat × Nat)) (p : Poly K)
    (h : fromConvexMesh pts idxs = .ok p) :
    p.facesAdjToVertex.size = p.edgesAdjToVertex.size ∧
    ∀ (i : Nat) (v : PVertex), p.vertices[i]? = some v → v.first + v.num ≤ p.facesAdjToVertex.size := by
  unfold fromConvexMesh at h
  split at h
  · cases h
  · obtain ⟨s1, _, h⟩ := Res.bind_ok _ _ _ h
    split at h
    · cases h
    · obtain ⟨s3, _, h⟩ := Res.bind_ok _ _ _ h
      split at h
      · cases h
      · simp only at h
        split at h
        · cases h
        · rename_i counted _
          generalize hoff : offsets counted = off at h
          obtain ⟨withOff, total⟩ := off
          simp only at h
          split at h
          · cases h
          · rename_i fin hfin
            simp only [Res.ok.injEq] at h
            subst h
            rw [← Array.foldl_toList] at hfin
            have inv := fillFold_inv s3.vaf s3.eaf s3.faces.toList _ (fun st hst => by
              simp only [Option.some.injEq] at hst
              subst hst
              refine ⟨by simp, fun i v hv => ?_⟩
              simp only [Array.getElem?_map, Option.map_eq_some_iff] at hv
              obtain ⟨w, hw, rfl⟩ := hv
              have := offsets_first_le counted i w (by rw [hoff]; exact hw)
              rw [hoff] at this
              simp only [Array.size_replicate]; omega) fin hfin
            exact ⟨inv.sz, inv.rows⟩

end C12
