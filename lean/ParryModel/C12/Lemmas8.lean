import ParryModel.C12.Lemmas6
/-!
# C12 lemmas (fu5): `fix_silhouette_topology` (counting pass, repair pass).  Core Lean only; every `Num` instance.
-/
namespace C12.H3
open Model Model.H3
variable {K : Type} [Num K]

/-! ## the counting pass -/

/-- one iteration of the counting pass, on the list of `second` end points -/
def cntStep (acc : Array Nat × Bool) (p : Nat) : Array Nat × Bool :=
  let w := acc.1.setIfInBounds p ((acc.1[p]?).getD 0 + 1)
  (w, acc.2 || decide ((w[p]?).getD 0 > 1))

theorem countSeconds_eq (npts : Nat) (ts : Array (Facet K)) (out : Array (Nat × Nat)) :
    countSeconds npts ts out = (out.toList.map (secondOf ts)).foldl cntStep (Array.replicate npts 0, false) := by
  unfold countSeconds
  rw [← Array.foldl_toList, List.foldl_map]
  rfl

/-- invariant of the counting pass after the prefix `pre` -/
def CntInv (npts : Nat) (pre : List Nat) (acc : Array Nat × Bool) : Prop :=
  acc.1.size = npts ∧ (∀ p, p < npts → (acc.1[p]?).getD 0 = pre.count p) ∧
  (acc.2 = true ↔ ∃ p, p < npts ∧ 2 ≤ pre.count p)

theorem cntStep_inv (npts : Nat) (pre : List Nat) (acc : Array Nat × Bool) (p : Nat) (h : CntInv npts pre acc) :
    CntInv npts (pre ++ [p]) (cntStep acc p) := by
  obtain ⟨hs, hc, hf⟩ := h
  have hget : ∀ q, q < npts → ((acc.1.setIfInBounds p ((acc.1[p]?).getD 0 + 1))[q]?).getD 0 = (pre ++ [p]).count q := by
    intro q hq
    rw [Array.getElem?_setIfInBounds]
    by_cases hpq : p = q
    · subst hpq
      simp only [if_true, hs, hq]
      simp [hc p hq]
    · simp only [hpq, if_false]
      rw [hc q hq]
      simp [List.count_append, hpq]
  refine ⟨by simp [cntStep, hs], hget, ?_⟩
  simp only [cntStep, Bool.or_eq_true, decide_eq_true_eq]
  constructor
  · rintro (h | h)
    · obtain ⟨q, hq, h2⟩ := hf.mp h
      exact ⟨q, hq, by rw [List.count_append]; omega⟩
    · by_cases hp : p < npts
      · exact ⟨p, hp, by rw [← hget p hp]; omega⟩
      · exfalso
        rw [Array.getElem?_eq_none (by simp [hs]; omega)] at h
        simp at h
  · rintro ⟨q, hq, h2⟩
    by_cases hpq : p = q
    · subst hpq; right; rw [hget p hq]; omega
    · left; apply hf.mpr
      refine ⟨q, hq, ?_⟩
      rw [List.count_append, List.count_singleton] at h2
      have : (if p == q then 1 else 0) = 0 := by simp [hpq]
      omega

theorem cntFold_inv (npts : Nat) : ∀ (l pre : List Nat) (acc : Array Nat × Bool), CntInv npts pre acc →
    CntInv npts (pre ++ l) (l.foldl cntStep acc) := by
  intro l
  induction l with
  | nil => intro pre acc h; simpa using h
  | cons a l ih =>
    intro pre acc h
    have := ih (pre ++ [a]) (cntStep acc a) (cntStep_inv npts pre acc a h)
    simpa [List.append_assoc] using this

theorem countSeconds_inv (npts : Nat) (ts : Array (Facet K)) (out : Array (Nat × Nat)) :
    CntInv npts (out.toList.map (secondOf ts)) (countSeconds npts ts out) := by
  rw [countSeconds_eq]
  have h0 : CntInv npts [] (Array.replicate npts 0, false) := by
    refine ⟨by simp, fun p hp => by simp [hp], ?_⟩
    simp
  simpa using cntFold_inv npts _ [] _ h0

/-! ## the repair pass -/

/-- invariant of the repair loop relative to the silhouette state `s` it started from -/
structure FixInv (s : Sil K) (st : FixSt K) : Prop where
  shr : Shrunk st.ts s.ts
  remSup : ∀ r, r ∈ s.removed.toList → r ∈ st.removed.toList
  remNew : ∀ r, r ∈ st.removed.toList → r ∈ s.removed.toList ∨
    ((∃ j, (r, j) ∈ s.out.toList) ∧ (tAt s.ts r).valid = true ∧ (tAt st.ts r).valid = false)
  inval : ∀ a, (tAt s.ts a).valid = true → (tAt st.ts a).valid = false → a ∈ st.removed.toList

theorem valid_false_of_shrunk' {a b : Array (Facet K)} (h : Shrunk a b) (i : Nat) (hb : (tAt b i).valid = false) :
    (tAt a i).valid = false := by
  cases hv : (tAt a i).valid with
  | false => rfl
  | true => have := (h.2 i).2.2.2.2.2.2 hv; rw [hb] at this; exact absurd this (by simp)

theorem fixStep_inv (ws : Array Nat) (s : Sil K) (start : Nat) (st : FixSt K) (i : Nat) (hi : i < s.out.size)
    (h : FixInv s st) : FixInv s (fixStep ws s.out start st i) ∧
      ((fixStep ws s.out start st i).out = st.out ∨
       (fixStep ws s.out start st i).out = st.out.push ((s.out[(start + i) % s.out.size]?).getD (0, 0))) := by
  have hlt : (start + i) % s.out.size < s.out.size := Nat.mod_lt _ (by omega)
  have hmem : (s.out[(start + i) % s.out.size]?).getD (0, 0) ∈ s.out.toList := by
    rw [Array.getElem?_eq_getElem hlt]; simp
  obtain ⟨rem, hrem⟩ : ∃ rem : Option Nat, fixStep ws s.out start st i =
      (let e := (s.out[(start + i) % s.out.size]?).getD (0, 0)
       if rem.isSome then
        if (tAt st.ts e.1).valid then
          { removing := rem, out := st.out, removed := st.removed.push e.1, ts := invalidate st.ts e.1 }
        else { st with removing := rem }
       else { st with removing := rem, out := st.out.push e }) := ⟨_, rfl⟩
  rw [hrem]
  simp only
  generalize (s.out[(start + i) % s.out.size]?).getD (0, 0) = e at hmem ⊢
  split
  · split
    · rename_i hv
      refine ⟨⟨(shrunk_invalidate st.ts e.1).trans h.shr, ?_, ?_, ?_⟩, Or.inl rfl⟩
      · intro r hr
        simp only [Array.toList_push, List.mem_append, List.mem_singleton]
        exact Or.inl (h.remSup r hr)
      · intro r hr
        simp only [Array.toList_push, List.mem_append, List.mem_singleton] at hr
        rcases hr with hr | rfl
        · rcases h.remNew r hr with h1 | ⟨h1, h2, h3⟩
          · exact Or.inl h1
          · exact Or.inr ⟨h1, h2, valid_false_of_shrunk' (shrunk_invalidate st.ts e.1) r h3⟩
        · exact Or.inr ⟨⟨e.2, hmem⟩, (h.shr.2 e.1).2.2.2.2.2.2 hv, invalidate_valid st.ts e.1⟩
      · intro a ha1 ha2
        simp only [Array.toList_push, List.mem_append, List.mem_singleton]
        by_cases hae : a = e.1
        · exact Or.inr hae
        · left; apply h.inval a ha1
          rw [tAt_invalidate] at ha2
          rw [if_neg (fun hc => hae hc.1.symm)] at ha2
          exact ha2
    · exact ⟨⟨h.shr, h.remSup, h.remNew, h.inval⟩, Or.inl rfl⟩
  · exact ⟨⟨h.shr, h.remSup, h.remNew, h.inval⟩, Or.inr rfl⟩

theorem fixFold_inv (ws : Array Nat) (s : Sil K) (start : Nat) : ∀ (l : List Nat) (st : FixSt K),
    (∀ i, i ∈ l → i < s.out.size) → FixInv s st →
    FixInv s (l.foldl (fixStep ws s.out start) st) ∧
    ∃ l', l'.Sublist (l.map fun i => (s.out[(start + i) % s.out.size]?).getD (0, 0)) ∧
      (l.foldl (fixStep ws s.out start) st).out.toList = st.out.toList ++ l' := by
  intro l
  induction l with
  | nil => intro st _ h; exact ⟨h, [], by simp, by simp⟩
  | cons a l ih =>
    intro st hl h
    obtain ⟨h1, h2⟩ := fixStep_inv ws s start st a (hl a (by simp)) h
    obtain ⟨g1, l', g2, g3⟩ := ih (fixStep ws s.out start st a) (fun i hi => hl i (by simp [hi])) h1
    refine ⟨g1, ?_⟩
    rcases h2 with h2 | h2
    · exact ⟨l', by simpa using List.Sublist.cons _ g2, by rw [List.foldl_cons, g3, h2]⟩
    · refine ⟨((s.out[(start + a) % s.out.size]?).getD (0, 0)) :: l', by simpa using g2, ?_⟩
      rw [List.foldl_cons, g3, h2]; simp

end C12.H3
