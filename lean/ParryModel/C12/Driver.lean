import ParryModel.Proto
import ParryModel.C12.Model
import ParryModel.C12.Driver2
import ParryModel.C12.Driver3
import ParryModel.C12.Driver4
import ParryModel.C12.Driver5
import ParryModel.C12.Polygon
import Std.Data.HashMap
/-! C12 protocol handlers. -/
namespace C12
open Model Proto

def negMaxF : Float := Float.ofBits 0xFFEFFFFFFFFFFFFF
def eps100F : Float := Float.ofBits 0x3CB0000000000000 * 100.0

def cross2 (a b c : V2 Rat) : Rat := (b.sub a).perp (c.sub a)

def maxAbs2 (ps : List (V2 Rat)) : Rat := ps.foldl (fun m p => max m (max (rabs p.x) (rabs p.y))) 0

/-- exact judgement of a 2-D hull given as an index list into `pts` -/
def hull2Oracle (pts : List (V2 Float)) (idx : List Nat) : String :=
  let P := pts.toArray.map q2
  let n := P.size
  if idx.any (· ≥ n) then "fail index-out-of-range" else
  if idx.eraseDups.length != idx.length then "fail repeated-hull-vertex" else
  let H := idx.filterMap (P[·]?)
  let scale := 1 + maxAbs2 P.toList
  let tol : Rat := scale / 1000000000
  -- degenerate inputs (all collinear): only require enclosure in the segment's line, skip convexity
  let allCollinear : Bool := match P.toList with
    | a :: rest => match rest.find? (fun b => b.x != a.x || b.y != a.y) with
      | none => true
      | some b => rest.all fun c => cross2 a b c == 0
    | [] => true
  if allCollinear then "skip degenerate-collinear-input" else
  if H.length < 3 then "fail fewer-than-3-hull-vertices-for-nondegenerate-input" else
  let m := H.length
  let vAt (i : Nat) : V2 Rat := (H[i % m]?).getD ⟨0, 0⟩
  -- counter-clockwise, convex (no reflex corner beyond tolerance), positive area
  let area2 := (List.range m).foldl (fun s i => s + (vAt i).perp (vAt (i + 1))) 0
  if area2 ≤ 0 then "fail not-counter-clockwise" else
  if (List.range m).any (fun i => cross2 (vAt i) (vAt (i + 1)) (vAt (i + 2)) < -(tol * scale)) then "fail reflex-corner" else
  -- every input point within tolerance of the closed inner side of every edge:  cross(e, p - a) ≥ -tol·|e|
  let bad := P.toList.filter fun p => (List.range m).any fun i =>
    let a := vAt i; let b := vAt (i + 1)
    let c := cross2 a b p
    c < 0 && c * c > tol * tol * (b.sub a).normSq
  match bad with
  | p :: _ => s!"fail input-point-outside-hull ({p.x},{p.y})"
  | [] => "pass"


/-- `ConvexPolygon::from_convex_hull`: vertices are input points, counter-clockwise, enclose every input point, and
normal `i` is the outward unit normal of edge `i → i+1` -/
def polygonOracle (input : List (V2 Float)) (pts : List (V2 Float)) (nrm : List (V2 Float)) : String :=
  let P := input.map q2; let V := pts.map q2; let N := nrm.map q2
  let m := V.length
  if m < 3 then "fail fewer-than-3-vertices" else
  if N.length != m then "fail normal-count" else
  let scale := 1 + maxAbs2 P
  let tol : Rat := scale / 1000000000
  if V.any (fun v => !(P.any fun p => p.x == v.x && p.y == v.y)) then "fail vertex-not-an-input-point" else
  let vAt (i : Nat) : V2 Rat := (V[i % m]?).getD ⟨0, 0⟩
  let area2 := (List.range m).foldl (fun s i => s + (vAt i).perp (vAt (i + 1))) 0
  if area2 ≤ 0 then "fail not-counter-clockwise" else
  if (List.range m).any (fun i => cross2 (vAt i) (vAt (i + 1)) (vAt (i + 2)) < -(tol * scale)) then "fail reflex-corner" else
  let badPt := P.filter fun p => (List.range m).any fun i =>
    let a := vAt i; let b := vAt (i + 1)
    let c := cross2 a b p
    c < 0 && c * c > tol * tol * (b.sub a).normSq
  match badPt with
  | p :: _ =>
    -- `from_convex_polyline` prunes a vertex when adjacent unit normals satisfy dot > 1 - sqrt(eps) (a turn below
    -- ~1.7e-4 rad): a pruned input point can then lie up to ~2e-4·edge outside. Such shallow violations carry a tag
    -- (known finding); anything deeper is a plain failure.
    let shallow := P.all fun p => (List.range m).all fun i =>
      let a := vAt i; let b := vAt (i + 1)
      let c := cross2 a b p
      let lim : Rat := 1 / 4000
      !(c < 0 && c * c > lim * lim * (b.sub a).normSq * (b.sub a).normSq)
    let tag := if shallow then "[pruned-nearly-collinear-vertex]" else ""
    s!"fail input-point-outside-polygon{tag} ({p.x},{p.y})"
  | [] =>
    -- normals: unit, orthogonal to their edge, pointing outward (to the right of a CCW edge)
    let badN := (List.range m).filter fun i =>
      let e := (vAt (i + 1)).sub (vAt i)
      let n := (N[i]?).getD ⟨0, 0⟩
      let t9 : Rat := 1 / 1000000000
      !(rabs (n.normSq - 1) ≤ t9) || !(rabs (n.dot e) ≤ t9 * (1 + e.normSq)) || !(e.x * n.y - e.y * n.x < 0)
    match badN with
    | i :: _ =>
      -- a normal kept from a pruned nearly collinear edge deviates from its edge by at most the pruning angle
      let shallowN := badN.all fun i =>
        let e := (vAt (i + 1)).sub (vAt i)
        let n := (N[i]?).getD ⟨0, 0⟩
        let lim : Rat := 1 / 4000
        rabs (n.normSq - 1) ≤ (1 / 1000000000 : Rat) && (n.dot e) * (n.dot e) ≤ lim * lim * e.normSq && e.x * n.y - e.y * n.x < 0
      s!"fail normal-does-not-match-its-edge{if shallowN then "[pruned-nearly-collinear-vertex]" else ""} i={i}"
    | [] => "pass"

def pmesh3 : P (List (V3 Float) × List (Nat × Nat × Nat)) := do
  let pts ← plist (do let x ← pfo; let y ← pfo; let z ← pfo; pure (⟨x, y, z⟩ : V3 Float))
  let tris ← plist (do let a ← pnat; let b ← pnat; let c ← pnat; pure (a, b, c))
  pure (pts, tris)

def hull3Oracle (input : List (V3 Float)) (hv : List (V3 Float)) (tris : List (Nat × Nat × Nat)) : String :=
  if !(hv.all finite3) then "fail nonfinite-vertex" else
  let P := input.map q3
  let H := hv.toArray.map q3
  if tris.any (fun (a, b, c) => a ≥ H.size || b ≥ H.size || c ≥ H.size) then "fail index-out-of-range" else
  if tris.length < 4 then "fail fewer-than-4-faces" else
  -- hull vertices are input points
  let inSet : Std.HashMap (Int × Int × Int × Int × Int × Int) Unit :=
    P.foldl (fun m p => m.insert (p.x.num, p.x.den, p.y.num, p.y.den, p.z.num, p.z.den) ()) {}
  if H.toList.any (fun p => !(inSet.contains (p.x.num, p.x.den, p.y.num, p.y.den, p.z.num, p.z.den))) then "fail hull-vertex-not-an-input-point" else
  -- closed 2-manifold, consistently oriented
  let edges := tris.flatMap fun (a, b, c) => [(a, b), (b, c), (c, a)]
  let em : Std.HashMap (Nat × Nat) Nat := edges.foldl (fun m e => m.insert e (m.getD e 0 + 1)) {}
  if !(edges.all fun (a, b) => a != b && em.getD (a, b) 0 == 1 && em.getD (b, a) 0 == 1) then "fail not-a-closed-oriented-2-manifold" else
  -- Euler characteristic
  let used : Std.HashMap Nat Unit := tris.foldl (fun m (a, b, c) => ((m.insert a ()).insert b ()).insert c ()) {}
  let V : Int := used.size; let E : Int := edges.length / 2; let F : Int := tris.length
  if V - E + F != 2 then s!"fail euler-characteristic {V - E + F}" else
  -- outward orientation (positive volume) and enclosure of every input point
  let vol6 := tris.foldl (fun acc (a, b, c) =>
    match H[a]?, H[b]?, H[c]? with
    | some pa, some pb, some pc => acc + pa.dot (pb.cross pc)
    | _, _, _ => acc) (0 : Rat)
  -- volume is translation invariant for closed meshes
  if vol6 ≤ 0 then "fail inward-or-zero-volume" else
  let lo := P.foldl (fun m p => (⟨min m.x p.x, min m.y p.y, min m.z p.z⟩ : V3 Rat)) (P.headD ⟨0,0,0⟩)
  let hi := P.foldl (fun m p => (⟨max m.x p.x, max m.y p.y, max m.z p.z⟩ : V3 Rat)) (P.headD ⟨0,0,0⟩)
  let diag2 := (hi.sub lo).normSq
  let tol2 : Rat := diag2 / 100000000000000        -- (1e-7 · diag)²
  -- a sliver triangle (its three vertices collinear within the tolerance 1e-7·diag: height² ≤ tol²) has no plane that is
  -- determined within that tolerance (a relative perturbation of 1e-16 of its vertices turns its exact normal by 90°);
  -- it bounds nothing and is left out of the half-space test (the other faces still have to enclose every point)
  let faces := tris.filterMap fun (a, b, c) =>
    match H[a]?, H[b]?, H[c]? with
    | some pa, some pb, some pc =>
      let n := (pb.sub pa).cross (pc.sub pa)
      let longest := max ((pb.sub pa).normSq) (max ((pc.sub pb).normSq) ((pa.sub pc).normSq))
      if n.normSq ≤ tol2 * longest then none else some (pa, n)
    | _, _, _ => none
  let bad := P.filter fun p => faces.any fun (pa, n) =>
    let d := n.dot (p.sub pa)
    d > 0 && d * d > tol2 * n.normSq
  -- input classification used to key the known finding: clouds with a large axis-aligned coplanar subset
  let countMax (f : V3 Rat → Rat) : Nat :=
    let m : Std.HashMap (Int × Nat) Nat := P.foldl (fun m p => let k := ((f p).num, (f p).den); m.insert k (m.getD k 0 + 1)) {}
    m.fold (fun acc _ v => max acc v) 0
  let lattice := max (countMax (·.x)) (max (countMax (·.y)) (countMax (·.z))) ≥ 16
  -- the same degeneracy in rotated position: a face plane of the returned mesh carries five or more distinct input points
  let tag := if lattice then "[coplanar-lattice-cloud]" else
    if !bad.isEmpty && hasCoplanarSubset P faces then "[coplanar-subset-cloud]" else ""
  match bad with
  | p :: _ => s!"fail input-point-outside-hull{tag} ({p.x},{p.y},{p.z})"
  | [] => "pass"

def handler (fn : String) : Option Handler :=
  match fn with
  | "hull2" => some {
      model := fun a => run (do
        let pts ← plist pv2
        pure (match convexHull2Idx negMaxF eps100F pts.toArray with
          | none => "panic"
          | some idx => String.intercalate " " (toString idx.length :: idx.map toString))) a
      oracle := fun a o => match run (plist pv2) a with
        | some pts => (match o with
          | "panic" :: _ =>
            -- fewer than 2 points or all coincident: the property asks for a documented error, not a panic
            "fail panic-on-degenerate-input"
          | _ => match run (plist pnat) o with
            | some idx => hull2Oracle pts idx
            | none => "fail unparsable-output")
        | none => "skip bad-args" }
  | "hull2_idem" => some {
      model := fun _ => some "-"
      oracle := fun _ o => match o with
        | "panic" :: _ => "skip degenerate"
        | _ => match run (do let a ← plist (do let x ← pfo; let y ← pfo; pure (⟨x, y⟩ : V2 Float))
                              let b ← plist (do let x ← pfo; let y ← pfo; pure (⟨x, y⟩ : V2 Float)); pure (a, b)) o with
          | some (h1, h2) =>
            if h1.length < 3 then "skip degenerate" else
            -- same polytope: every vertex of each hull lies inside or on the other (convex polygons, CCW)
            let H1 := h1.map q2; let H2 := h2.map q2
            let scale := 1 + maxAbs2 H1
            let tol : Rat := scale / 1000000000
            let inside (H : List (V2 Rat)) (p : V2 Rat) : Bool :=
              let m := H.length
              (List.range m).all fun i =>
                let a := (H[i]?).getD ⟨0,0⟩; let b := (H[(i + 1) % m]?).getD ⟨0,0⟩
                let c := cross2 a b p
                !(c < 0 && c * c > tol * tol * (b.sub a).normSq)
            if h2.length < 3 then "fail hull-of-hull-degenerate" else
            if H1.all (inside H2) && H2.all (inside H1) then "pass" else "fail hull-of-hull-is-a-different-polytope"
          | none => "fail unparsable-output" }
  | "convex_polygon" => some {
      model := fun a => run (do
        let pts ← plist pv2
        pure (match Model.Pg.fromConvexHull negMaxF eps100F pts.toArray with
          | none => "panic"
          | some none => "none"
          | some (some p) => String.intercalate " " (
              [toString p.points.size] ++ p.points.toList.map fv2 ++ [toString p.normals.size] ++ p.normals.toList.map fv2))) a
      oracle := fun a o => match run (plist pv2) a with
        | some input => (match o with
          | "panic" :: _ =>
            -- `from_convex_hull` goes through `convex_hull2`, whose `assert!`s fire on fewer than 2 / all-coincident points
            -- (the known finding of `hull2`); any other panic is a plain failure
            let P := input.map q2
            (match P with
            | a :: rest => if rest.all (fun b => b.x == a.x && b.y == a.y) then "fail panic-on-degenerate-input" else "fail panic"
            | [] => "fail panic-on-degenerate-input")
          | ["none"] =>
            -- None is legitimate only for degenerate (collinear) input
            let P := input.map q2
            (match P with
            | a :: rest => match rest.find? (fun b => b.x != a.x || b.y != a.y) with
              | none => "skip degenerate"
              | some b => if rest.all (fun c => cross2 a b c == 0) then "skip degenerate" else "fail none-for-nondegenerate-cloud"
            | [] => "skip degenerate")
          | _ => match run (do let pts ← plist (do let x ← pfo; let y ← pfo; pure (⟨x, y⟩ : V2 Float))
                                 let ns ← plist (do let x ← pfo; let y ← pfo; pure (⟨x, y⟩ : V2 Float)); pure (pts, ns)) o with
            | some (pts, ns) => polygonOracle input pts ns
            | none => "fail unparsable-output")
        | none => "skip bad-args" }
  | "hull3" => some {
      model := fun _ => some "-"
      oracle := fun a o => match run (plist pv3) a with
        | some input => (match o with
          | "panic" :: _ => "fail panic"
          | "err" :: _ =>
            -- an error is the documented answer for a degenerate cloud only: a clearly full-dimensional one must get its hull
            if fullDim (input.map q3) then "fail error-for-a-full-dimensional-cloud" else "skip degenerate-input-reported-as-error"
          | _ => match run pmesh3 o with
            | some (hv, tris) => hull3Oracle input hv tris
            | none => "fail unparsable-output")
        | none => "skip bad-args" }
  | "hull3_scale" => some {
      model := fun _ => some "-"
      oracle := fun a o => match run (do let k ← pint; let pts ← plist pv3; pure (k, pts)) a with
        | some (k, _) => (match o with
          | "panic" :: _ => "fail panic"
          | _ => scaleOracle k o)
        | none => "skip bad-args" }
  | "polyhedron" => some {
      -- args: the cloud, then (observed from the real code) the hull mesh `from_convex_hull` hands to `from_convex_mesh`
      model := fun a => run (do
        let _ ← plist pv3
        let rest ← get
        if rest.isEmpty then pure "none" else do
          let hv ← plist pv3; let tris ← ptris
          pure (polyModel hv tris)) a
      oracle := fun a o => match run (plist pv3) a with
        | some input => (match o with
          | "panic" :: _ => "fail panic"
          | ["none"] => if fullDim (input.map q3) then "fail none-for-a-full-dimensional-cloud" else "skip degenerate-input"
          | _ => match run pdump o with
            | some d => polyOracle (some (input.map q3)) d
            | none => "fail unparsable-output")
        | none => "skip bad-args" }
  | "polymesh" => some {
      model := fun a => run (do let pts ← plist pv3; let tris ← ptris; pure (polyModel pts tris)) a
      oracle := fun a o => match run (do let pts ← plist pv3; let tris ← plist (do let a ← pnat; let b ← pnat; let c ← pnat; pure (a, b, c)); pure (pts, tris)) a with
        | some (pts, tris) =>
          let valid := closedManifold pts.length tris
          (match o with
          | "panic" :: _ => "fail panic"
          | ["none"] => if valid then "fail none-for-a-closed-manifold-mesh" else "pass"
          | _ => if !valid then "fail polyhedron-built-from-a-non-manifold-mesh" else
            match run pdump o with
            | some d =>
              if !(d.pts.size == pts.length && (d.pts.toList.zip pts).all fun (p, p') => eq3 (q3 p) (q3 p')) then "fail points-changed" else
              polyOracle none d
            | none => "fail unparsable-output")
        | none => "skip bad-args" }
  | f => match handler3 f with | some h => some h | none => match handler4 f with | some h => some h | none => handler5 f

end C12
