import ParryModel.Field
import ParryModel.C12.Model
import ParryModel.C12.Theorems2
import ParryModel.C12.Theorems3
import ParryModel.C12.Theorems4
import ParryModel.C12.Theorems5
import ParryModel.C12.Theorems6
import ParryModel.C12.Theorems7
import ParryModel.C12.Theorems8
import ParryModel.C12.Theorems9
import ParryModel.C12.Theorems10
import ParryModel.C12.Theorems11
import ParryModel.C12.Theorems12
import ParryModel.C12.Theorems13
import Mathlib.Analysis.Real.Sqrt
/-!
# C12 theorems (first pass): the argmax primitive of the hull algorithms, and certificate soundness.
The theorems about the 2-D quickhull algorithm itself are in `Theorems2.lean` … `Theorems5.lean` (imported here) and, for the
parts that need `support_point_id_max` and the order laws, in the second half of this file.
-/
namespace C12
open Model

variable {K : Type} [Field K] [LinearOrder K] [IsStrictOrderedRing K] (sq : K → K)

/-- **certificate soundness (2-D)**: a half-plane inequality that holds (within `tol`) at every input point holds
at every convex combination of input points — so a polygon all of whose edge inequalities hold at the inputs
encloses the whole convex hull of the inputs, not only the sampled points. -/
theorem halfplane_convex_combination (n : V2 K) (d tol : K) (pts : List (V2 K)) (w : List K)
    (hlen : w.length = pts.length) (hw : ∀ x ∈ w, 0 ≤ x)
    (hpts : ∀ p ∈ pts, n.x * p.x + n.y * p.y - d ≤ tol) :
    let q : V2 K := ⟨(List.zipWith (fun (p : V2 K) x => p.x * x) pts w).sum, (List.zipWith (fun (p : V2 K) x => p.y * x) pts w).sum⟩
    n.x * q.x + n.y * q.y - d * w.sum ≤ tol * w.sum := by
  induction pts generalizing w with
  | nil => cases w <;> simp_all
  | cons p ps ih =>
    cases w with
    | nil => simp at hlen
    | cons x xs =>
      simp only [List.zipWith_cons_cons, List.sum_cons]
      have hx : 0 ≤ x := hw x (by simp)
      have hp := hpts p (by simp)
      have := ih xs (by simpa using hlen) (fun y hy => hw y (by simp [hy])) (fun r hr => hpts r (by simp [hr]))
      simp only at this
      nlinarith [mul_le_mul_of_nonneg_right hp hx]

/-- **certificate soundness (3-D)** -/
theorem halfspace_convex_combination (n : V3 K) (d tol : K) (pts : List (V3 K)) (w : List K)
    (hlen : w.length = pts.length) (hw : ∀ x ∈ w, 0 ≤ x)
    (hpts : ∀ p ∈ pts, n.x * p.x + n.y * p.y + n.z * p.z - d ≤ tol) :
    let q : V3 K := ⟨(List.zipWith (fun (p : V3 K) x => p.x * x) pts w).sum, (List.zipWith (fun (p : V3 K) x => p.y * x) pts w).sum,
                     (List.zipWith (fun (p : V3 K) x => p.z * x) pts w).sum⟩
    n.x * q.x + n.y * q.y + n.z * q.z - d * w.sum ≤ tol * w.sum := by
  induction pts generalizing w with
  | nil => cases w <;> simp_all
  | cons p ps ih =>
    cases w with
    | nil => simp at hlen
    | cons x xs =>
      simp only [List.zipWith_cons_cons, List.sum_cons]
      have hx : 0 ≤ x := hw x (by simp)
      have hp := hpts p (by simp)
      have := ih xs (by simpa using hlen) (fun y hy => hw y (by simp [hy])) (fun r hr => hpts r (by simp [hr]))
      simp only at this
      nlinarith [mul_le_mul_of_nonneg_right hp hx]

example : ∀ x ∈ ([1/2, 1/2] : List ℚ), 0 ≤ x := by simp

private theorem step_none (dir : V2 K) (pts : Array (V2 K)) (acc : Option Nat × K) (i : Nat) (h : pts[i]? = none) :
    @supportStep K (fieldNum K sq) dir pts acc i = acc := by
  simp only [supportStep, h]

private theorem step_some (dir : V2 K) (pts : Array (V2 K)) (acc : Option Nat × K) (i : Nat) (p : V2 K) (h : pts[i]? = some p) :
    @supportStep K (fieldNum K sq) dir pts acc i =
      if acc.2 < dir.x * p.x + dir.y * p.y then (some i, dir.x * p.x + dir.y * p.y) else acc := by
  simp only [supportStep, h, V2.dot]
  rfl

/-- the fold of `indexed_support_point_id` keeps, at every step, an index of the scanned prefix whose dot product is
the running maximum -/
private theorem support_fold_inv (dir : V2 K) (pts : Array (V2 K)) (idx : List Nat) (acc : Option Nat × K)
    (hacc : ∀ j, acc.1 = some j → ∃ p, pts[j]? = some p ∧ dir.x * p.x + dir.y * p.y = acc.2) :
    let r := idx.foldl (@supportStep K (fieldNum K sq) dir pts) acc
    acc.2 ≤ r.2 ∧ (∀ i ∈ idx, ∀ p, pts[i]? = some p → dir.x * p.x + dir.y * p.y ≤ r.2) ∧
    (∀ j, r.1 = some j → (j ∈ idx ∨ acc.1 = some j) ∧ ∃ p, pts[j]? = some p ∧ dir.x * p.x + dir.y * p.y = r.2) := by
  induction idx generalizing acc with
  | nil => exact ⟨le_refl _, by simp, fun j hj => ⟨Or.inr hj, hacc j hj⟩⟩
  | cons i is ih =>
    simp only [List.foldl_cons]
    cases hpi : pts[i]? with
    | none =>
      rw [step_none sq dir pts acc i hpi]
      obtain ⟨h1, h2, h3⟩ := ih acc hacc
      refine ⟨h1, ?_, ?_⟩
      · intro k hk p hp
        rcases List.mem_cons.mp hk with rfl | hk
        · rw [hpi] at hp; cases hp
        · exact h2 k hk p hp
      · intro j hj
        obtain ⟨a, b⟩ := h3 j hj
        exact ⟨a.elim (fun m => Or.inl (List.mem_cons_of_mem _ m)) Or.inr, b⟩
    | some p =>
      rw [step_some sq dir pts acc i p hpi]
      split_ifs with hlt
      · obtain ⟨h1, h2, h3⟩ := ih (some i, dir.x * p.x + dir.y * p.y) (by
          intro j hj; cases hj; exact ⟨p, hpi, rfl⟩)
        refine ⟨le_trans hlt.le h1, ?_, ?_⟩
        · intro k hk p' hp'
          rcases List.mem_cons.mp hk with rfl | hk
          · rw [hpi] at hp'; cases hp'; exact h1
          · exact h2 k hk p' hp'
        · intro j hj
          obtain ⟨a, b⟩ := h3 j hj
          refine ⟨Or.inl ?_, b⟩
          rcases a with m | m
          · exact List.mem_cons_of_mem _ m
          · cases m; exact List.mem_cons_self
      · obtain ⟨h1, h2, h3⟩ := ih acc hacc
        refine ⟨h1, ?_, ?_⟩
        · intro k hk p' hp'
          rcases List.mem_cons.mp hk with rfl | hk
          · rw [hpi] at hp'; cases hp'; exact le_trans (not_lt.mp hlt) h1
          · exact h2 k hk p' hp'
        · intro j hj
          obtain ⟨a, b⟩ := h3 j hj
          exact ⟨a.elim (fun m => Or.inl (List.mem_cons_of_mem _ m)) Or.inr, b⟩

/-- **support point is extreme**: `indexed_support_point_id` returns an index of the list whose point maximises
`dir·p` over all listed points (it is `some` as soon as one listed point beats the `-MAX` sentinel). Quickhull only ever
creates facets between such points, which is why hull vertices are input points on the boundary of the hull. -/
theorem support_point_id_max (negMax : K) (dir : V2 K) (pts : Array (V2 K)) (idx : List Nat) (j : Nat)
    (h : @indexedSupportPointId K (fieldNum K sq) negMax dir pts idx = some j) :
    j ∈ idx ∧ ∃ pj, pts[j]? = some pj ∧ ∀ i ∈ idx, ∀ p, pts[i]? = some p →
      dir.x * p.x + dir.y * p.y ≤ dir.x * pj.x + dir.y * pj.y := by
  have := support_fold_inv sq dir pts idx (none, negMax) (by intro j hj; cases hj)
  simp only at this
  obtain ⟨_, h2, h3⟩ := this
  unfold indexedSupportPointId at h
  obtain ⟨a, pj, hpj, e⟩ := h3 j h
  refine ⟨a.elim id (fun m => by cases m), pj, hpj, ?_⟩
  intro i hi p hp
  rw [e]; exact h2 i hi p hp

/-! ## second pass (continued from `Theorems2.lean`): the parts about the 2-D quickhull that need the order laws -/

/-- **`can_be_seen_by` is the strict `> 100·eps` test**: for in-range indices the Boolean of the model is `true` exactly when
`(pt - p0)·normal > eps100`, and `false` exactly when `(pt - p0)·normal ≤ eps100`. -/
theorem canBeSeenBy_iff_strict (eps100 : K) (pts : Array (V2 K)) (f : SegFacet K) (v : Nat) (pv p0 : V2 K)
    (hv : pts[v]? = some pv) (h0 : pts[f.p0]? = some p0) :
    (@SegFacet.canBeSeenBy K (fieldNum K sq) f eps100 v pts = true ↔
      eps100 < (pv.x - p0.x) * f.normal.x + (pv.y - p0.y) * f.normal.y) ∧
    (@SegFacet.canBeSeenBy K (fieldNum K sq) f eps100 v pts = false ↔
      (pv.x - p0.x) * f.normal.x + (pv.y - p0.y) * f.normal.y ≤ eps100) := by
  simp only [SegFacet.canBeSeenBy, ptAt, hv, h0, Option.getD_some, V2.sub, V2.dot, decide_eq_true_eq, decide_eq_false_iff_not,
    not_lt]
  exact ⟨trivial, trivial⟩

/-- **(4) every point waiting in a visible list is strictly outside its facet by more than `100·eps`**, at every step of
the main loop, for every input on which the initial polyline exists: `(pts[v] - pts[f.p0])·f.normal > eps100`. -/
theorem visible_points_strictly_outside (negMax eps100 : K) (pts : Array (V2 K)) (st0 : HullState K) (fuel i : Nat)
    (h : @initialPolyline K (fieldNum K sq) negMax eps100 pts = some st0) :
    ∀ (k : Nat) (f : SegFacet K), (@hullLoop K (fieldNum K sq) negMax eps100 pts fuel i st0).segs[k]? = some f →
      ∀ v ∈ f.visible, ∃ pv p0, pts[v]? = some pv ∧ pts[f.p0]? = some p0 ∧
        eps100 < (pv.x - p0.x) * f.normal.x + (pv.y - p0.y) * f.normal.y := by
  intro k f hf v hv
  have hok := @hullLoop_indices_valid K (fieldNum K sq) _ negMax eps100 pts fuel i st0
    (@initialPolyline_indices_valid K (fieldNum K sq) negMax eps100 pts st0 h)
  have hvis := @hullLoop_visible_seen K (fieldNum K sq) negMax eps100 pts st0 fuel i h k f hf v hv
  obtain ⟨⟨h0, _, hl⟩, _⟩ := hok.1 k f hf
  refine ⟨pts[v]'(hl v hv), pts[f.p0]'h0, Array.getElem?_eq_getElem _, Array.getElem?_eq_getElem _, ?_⟩
  exact ((canBeSeenBy_iff_strict sq eps100 pts f v _ _ (Array.getElem?_eq_getElem _) (Array.getElem?_eq_getElem _)).1).mp hvis

/-- **(3) the split point is extreme**: the point used to split facet `f` is one of `f`'s visible points and maximises
`f.normal·p` over all of them (instance of `support_point_id_max`). -/
theorem split_point_extreme (negMax : K) (pts : Array (V2 K)) (f : SegFacet K) (point : Nat)
    (h : @indexedSupportPointId K (fieldNum K sq) negMax f.normal pts f.visible = some point) :
    point ∈ f.visible ∧ ∃ pp, pts[point]? = some pp ∧ ∀ v ∈ f.visible, ∀ p, pts[v]? = some p →
      f.normal.x * p.x + f.normal.y * p.y ≤ f.normal.x * pp.x + f.normal.y * pp.y :=
  support_point_id_max sq negMax f.normal pts f.visible point h

/-- **(3) every hull vertex is an input point that is extreme among a subset**: each index `j` returned by
`convex_hull2_idx` is one of the two initial points, or there is a removed facet `f'` (still stored in the final facet array)
such that `j` is one of `f'`'s visible points and maximises `f'.normal·p` over all of `f'`'s visible points — which by (4) all
lie strictly outside `f'`. -/
theorem hull_vertices_extreme (negMax eps100 : K) (pts : Array (V2 K)) (idx : List Nat)
    (h : @convexHull2Idx K (fieldNum K sq) negMax eps100 pts = some idx) :
    ∃ (st0 : HullState K) (a b : Nat), @initialPolyline K (fieldNum K sq) negMax eps100 pts = some st0 ∧
      (st0.segs[0]?.map (·.p0)) = some a ∧ (st0.segs[0]?.map (·.p1)) = some b ∧
      ∀ j ∈ idx, j = a ∨ j = b ∨ ∃ (k' : Nat) (f' : SegFacet K),
        (@hullLoop K (fieldNum K sq) negMax eps100 pts (2 * pts.size + 8) 0 st0).segs[k']? = some f' ∧ f'.valid = false ∧
        j ∈ f'.visible ∧ ∃ pj, pts[j]? = some pj ∧ ∀ v ∈ f'.visible, ∀ p, pts[v]? = some p →
          f'.normal.x * p.x + f'.normal.y * p.y ≤ f'.normal.x * pj.x + f'.normal.y * pj.y := by
  obtain ⟨st0, a, b, h0, ha, hb, hall⟩ := @convexHull2Idx_vertex_provenance K (fieldNum K sq) negMax eps100 pts idx h
  refine ⟨st0, a, b, h0, ha, hb, ?_⟩
  intro j hj
  rcases hall j hj with r | r | ⟨k', f', hk', hv, hs⟩
  · exact Or.inl r
  · exact Or.inr (Or.inl r)
  · obtain ⟨m, pj, hpj, hmax⟩ := support_point_id_max sq negMax f'.normal pts f'.visible j hs
    exact Or.inr (Or.inr ⟨k', f', hk', hv, m, pj, hpj, hmax⟩)

/-! ### (2) the panic cases of `get_initial_polyline` -/

private theorem support_fold_isSome (dir : V2 K) (pts : Array (V2 K)) (idx : List Nat) (acc : Option Nat × K)
    (h : acc.1 ≠ none) : (idx.foldl (@supportStep K (fieldNum K sq) dir pts) acc).1 ≠ none := by
  induction idx generalizing acc with
  | nil => exact h
  | cons i is ih =>
    simp only [List.foldl_cons]
    apply ih
    cases hpi : pts[i]? with
    | none => rw [step_none sq dir pts acc i hpi]; exact h
    | some p =>
      rw [step_some sq dir pts acc i p hpi]
      split_ifs
      · simp
      · exact h

private theorem support_fold_none_snd (dir : V2 K) (pts : Array (V2 K)) (idx : List Nat) (acc : Option Nat × K)
    (h : (idx.foldl (@supportStep K (fieldNum K sq) dir pts) acc).1 = none) :
    (idx.foldl (@supportStep K (fieldNum K sq) dir pts) acc).2 = acc.2 := by
  induction idx generalizing acc with
  | nil => rfl
  | cons i is ih =>
    simp only [List.foldl_cons] at h ⊢
    cases hpi : pts[i]? with
    | none => rw [step_none sq dir pts acc i hpi] at h ⊢; exact ih acc h
    | some p =>
      rw [step_some sq dir pts acc i p hpi] at h ⊢
      split_ifs at h ⊢ with hlt
      · exact absurd h (support_fold_isSome sq dir pts is _ (by simp))
      · exact ih acc h

/-- a listed in-range point that beats the `-MAX` sentinel makes `indexed_support_point_id` return `Some` -/
private theorem support_some_of_beats (negMax : K) (dir : V2 K) (pts : Array (V2 K)) (idx : List Nat) (i : Nat) (p : V2 K)
    (hi : i ∈ idx) (hp : pts[i]? = some p) (hb : negMax < dir.x * p.x + dir.y * p.y) :
    ∃ j, @indexedSupportPointId K (fieldNum K sq) negMax dir pts idx = some j := by
  have := support_fold_inv sq dir pts idx (none, negMax) (by intro j hj; cases hj)
  simp only at this
  obtain ⟨_, h2, _⟩ := this
  unfold indexedSupportPointId
  cases hr : (idx.foldl (@supportStep K (fieldNum K sq) dir pts) (none, negMax)).1 with
  | some j => exact ⟨j, rfl⟩
  | none =>
    have h3 := support_fold_none_snd sq dir pts idx (none, negMax) hr
    have h4 := h2 i hi p hp
    rw [h3] at h4
    exact absurd hb (not_lt.mpr h4)

/-- if every listed in-range point has the same dot product as the running maximum, the fold does not move -/
private theorem support_fold_const (dir : V2 K) (pts : Array (V2 K)) (idx : List Nat) (acc : Option Nat × K)
    (h : ∀ i ∈ idx, ∀ p, pts[i]? = some p → dir.x * p.x + dir.y * p.y = acc.2) :
    idx.foldl (@supportStep K (fieldNum K sq) dir pts) acc = acc := by
  induction idx generalizing acc with
  | nil => rfl
  | cons i is ih =>
    simp only [List.foldl_cons]
    have hstep : @supportStep K (fieldNum K sq) dir pts acc i = acc := by
      cases hpi : pts[i]? with
      | none => exact step_none sq dir pts acc i hpi
      | some p =>
        rw [step_some sq dir pts acc i p hpi, h i List.mem_cons_self p hpi]
        simp
    rw [hstep]
    exact ih acc (fun j hj p hp => h j (List.mem_cons_of_mem _ hj) p hp)

/-- on a cloud whose points all have the same dot product `d > -MAX`, `support_point_id` returns index 0 -/
private theorem support_range_const (negMax d : K) (dir : V2 K) (pts : Array (V2 K)) (h0 : 0 < pts.size)
    (h : ∀ (i : Nat) (p : V2 K), pts[i]? = some p → dir.x * p.x + dir.y * p.y = d) (hd : negMax < d) :
    @indexedSupportPointId K (fieldNum K sq) negMax dir pts (List.range pts.size) = some 0 := by
  obtain ⟨m, hm⟩ : ∃ m, pts.size = m + 1 := ⟨pts.size - 1, by omega⟩
  rw [hm, List.range_succ_eq_map]
  unfold indexedSupportPointId
  simp only [List.foldl_cons]
  have hp0 : pts[0]? = some pts[0] := Array.getElem?_eq_getElem h0
  rw [step_some sq dir pts _ 0 _ hp0, h 0 _ hp0, if_pos hd, support_fold_const sq dir pts _ _ (fun i _ p hp => h i p hp)]

private theorem fieldNum_neq_iff (a b : K) : @neq K (fieldNum K sq) a b = true ↔ a = b := by
  unfold neq
  rw [Bool.and_eq_true, decide_eq_true_eq, decide_eq_true_eq]
  exact ⟨fun h => le_antisymm h.1 h.2, fun h => ⟨h.le, h.ge⟩⟩

private theorem differs_false_iff (negMax : K) (pts : Array (V2 K)) (p1 : Nat) (d : V2 K) :
    @differs K (fieldNum K sq) negMax pts p1 d = false ↔
      (@ptAt K (fieldNum K sq) pts (@supAll K (fieldNum K sq) negMax pts d)).x = (@ptAt K (fieldNum K sq) pts p1).x ∧
      (@ptAt K (fieldNum K sq) pts (@supAll K (fieldNum K sq) negMax pts d)).y = (@ptAt K (fieldNum K sq) pts p1).y := by
  unfold differs
  rw [Bool.not_eq_false', fieldNum_neq_iff]
  generalize (@ptAt K (fieldNum K sq) pts (@supAll K (fieldNum K sq) negMax pts d)) = a
  generalize (@ptAt K (fieldNum K sq) pts p1) = b
  simp only [V2.normSq, V2.dot, V2.sub]
  constructor
  · intro h0
    have h0' : (a.x - b.x) * (a.x - b.x) + (a.y - b.y) * (a.y - b.y) = 0 := h0
    constructor
    · nlinarith [mul_self_nonneg (a.x - b.x), mul_self_nonneg (a.y - b.y)]
    · nlinarith [mul_self_nonneg (a.x - b.x), mul_self_nonneg (a.y - b.y)]
  · rintro ⟨h1, h2⟩
    show (a.x - b.x) * (a.x - b.x) + (a.y - b.y) * (a.y - b.y) = 0
    rw [h1, h2]; ring

private theorem support_fold_some_gt (dir : V2 K) (pts : Array (V2 K)) (idx : List Nat) (acc : Option Nat × K)
    (hacc : acc.1 = none) (j : Nat) (h : (idx.foldl (@supportStep K (fieldNum K sq) dir pts) acc).1 = some j) :
    acc.2 < (idx.foldl (@supportStep K (fieldNum K sq) dir pts) acc).2 := by
  induction idx generalizing acc with
  | nil => rw [List.foldl_nil, hacc] at h; cases h
  | cons i is ih =>
    simp only [List.foldl_cons] at h ⊢
    cases hpi : pts[i]? with
    | none => rw [step_none sq dir pts acc i hpi] at h ⊢; exact ih acc hacc h
    | some p =>
      rw [step_some sq dir pts acc i p hpi] at h ⊢
      split_ifs at h ⊢ with hlt
      · have := (support_fold_inv sq dir pts is (some i, dir.x * p.x + dir.y * p.y) (by
          intro j hj; cases hj; exact ⟨p, hpi, rfl⟩)).1
        exact lt_of_lt_of_le hlt this
      · exact ih acc hacc h

/-- **(2) the panic cases of `get_initial_polyline`, exactly as the model has them** (no hypothesis): the result is `none` iff
there are fewer than 2 points, or no point has `x > -MAX` (then `support_point_id(+x)` is `None` and `unwrap` panics), or the
point `p2` chosen by the three fallback directions `-x, -y, +y` is the index `p1` itself (`assert!(p1 != p2)`). -/
theorem initialPolyline_none_iff (negMax eps100 : K) (pts : Array (V2 K)) :
    @initialPolyline K (fieldNum K sq) negMax eps100 pts = none ↔
      pts.size < 2 ∨ (∀ (i : Nat) (p : V2 K), pts[i]? = some p → p.x ≤ negMax) ∨
      ∃ p1, @indexedSupportPointId K (fieldNum K sq) negMax ⟨1, 0⟩ pts (List.range pts.size) = some p1 ∧
        @pickP2 K (fieldNum K sq) negMax pts p1 = p1 := by
  rw [@initialPolyline_none_unfold K (fieldNum K sq)]
  have key : @indexedSupportPointId K (fieldNum K sq) negMax ⟨1, 0⟩ pts (List.range pts.size) = none ↔
      ∀ (i : Nat) (p : V2 K), pts[i]? = some p → p.x ≤ negMax := by
    constructor
    · intro hn i p hp
      by_contra hlt
      obtain ⟨j, hj⟩ := support_some_of_beats sq negMax ⟨1, 0⟩ pts (List.range pts.size) i p
        (List.mem_range.mpr (Array.getElem?_eq_some_iff.mp hp).1) hp (by simpa using hlt)
      rw [hn] at hj; cases hj
    · intro hall
      cases hs : @indexedSupportPointId K (fieldNum K sq) negMax ⟨1, 0⟩ pts (List.range pts.size) with
      | none => rfl
      | some j =>
        exfalso
        have hgt := support_fold_some_gt sq ⟨1, 0⟩ pts (List.range pts.size) (none, negMax) rfl j hs
        obtain ⟨_, _, h3⟩ := support_fold_inv sq ⟨1, 0⟩ pts (List.range pts.size) (none, negMax) (by intro j hj; cases hj)
        obtain ⟨_, pj, hpj, e⟩ := h3 j hs
        have := hall j pj hpj
        rw [← e] at hgt
        simp only [one_mul, zero_mul, add_zero] at hgt
        exact absurd hgt (not_lt.mpr this)
  rw [key]

private theorem ptAt_some (pts : Array (V2 K)) (i : Nat) (p : V2 K) (h : pts[i]? = some p) :
    @ptAt K (fieldNum K sq) pts i = p := by simp [ptAt, h]

private theorem supAll_some (negMax : K) (pts : Array (V2 K)) (d : V2 K) (j : Nat)
    (h : @indexedSupportPointId K (fieldNum K sq) negMax d pts (List.range pts.size) = some j) :
    @supAll K (fieldNum K sq) negMax pts d = j := by simp [supAll, h]

/-- **(2) the panic cases, geometrically**: when every coordinate is strictly inside the sentinel range
(`-MAX < ±x, ±y`, i.e. all coordinates finite and different from `±f64::MAX`), `get_initial_polyline` fails its asserts
**exactly** when there are fewer than 2 points or all points coincide. In particular two distinct points are enough for the
hull to start, and a cloud of `n ≥ 2` copies of one point always panics (the KNOWN finding of C12/C20). -/
theorem initialPolyline_none_iff_coincident (negMax eps100 : K) (pts : Array (V2 K))
    (hsent : ∀ (i : Nat) (p : V2 K), pts[i]? = some p → negMax < p.x ∧ negMax < -p.x ∧ negMax < p.y ∧ negMax < -p.y) :
    @initialPolyline K (fieldNum K sq) negMax eps100 pts = none ↔
      pts.size < 2 ∨ ∀ (i j : Nat) (p q : V2 K), pts[i]? = some p → pts[j]? = some q → p = q := by
  rw [@initialPolyline_none_unfold K (fieldNum K sq)]
  by_cases hsz : pts.size < 2
  · simp [hsz]
  have h0 : 0 < pts.size := by omega
  have hp0 : pts[0]? = some pts[0] := Array.getElem?_eq_getElem h0
  have hm0 : 0 ∈ List.range pts.size := List.mem_range.mpr h0
  obtain ⟨s0, s1, s2, s3⟩ := hsent 0 _ hp0
  -- the four supports exist
  obtain ⟨jx, hjx⟩ := support_some_of_beats sq negMax ⟨1, 0⟩ pts _ 0 _ hm0 hp0 (by simpa using s0)
  obtain ⟨j1, hj1⟩ := support_some_of_beats sq negMax ⟨-1, -0⟩ pts _ 0 _ hm0 hp0 (by simpa using s1)
  obtain ⟨j2, hj2⟩ := support_some_of_beats sq negMax ⟨-0, -1⟩ pts _ 0 _ hm0 hp0 (by simpa using s3)
  obtain ⟨j3, hj3⟩ := support_some_of_beats sq negMax ⟨0, 1⟩ pts _ 0 _ hm0 hp0 (by simpa using s2)
  simp only [hsz, false_or]
  constructor
  · rintro (hnone | ⟨p1, hp1, hpick⟩)
    · rw [hjx] at hnone; cases hnone
    · obtain ⟨_, pp, hpp, hmx⟩ := support_point_id_max sq negMax ⟨1, 0⟩ pts _ p1 hp1
      obtain ⟨_, q1, hq1, hm1⟩ := support_point_id_max sq negMax ⟨-1, -0⟩ pts _ j1 hj1
      obtain ⟨_, q2, hq2, hm2⟩ := support_point_id_max sq negMax ⟨-0, -1⟩ pts _ j2 hj2
      obtain ⟨_, q3, hq3, hm3⟩ := support_point_id_max sq negMax ⟨0, 1⟩ pts _ j3 hj3
      have e1 := supAll_some sq negMax pts _ j1 hj1
      have e2 := supAll_some sq negMax pts _ j2 hj2
      have e3 := supAll_some sq negMax pts _ j3 hj3
      have d1 := differs_false_iff sq negMax pts p1 ⟨-1, -0⟩
      have d2 := differs_false_iff sq negMax pts p1 ⟨-0, -1⟩
      rw [e1, ptAt_some sq pts j1 q1 hq1, ptAt_some sq pts p1 pp hpp] at d1
      rw [e2, ptAt_some sq pts j2 q2 hq2, ptAt_some sq pts p1 pp hpp] at d2
      unfold pickP2 at hpick
      rw [e1, e2, e3] at hpick
      have all : ∀ (i : Nat) (p : V2 K), pts[i]? = some p → p = pp := by
        split_ifs at hpick with c1 c2
        · exfalso
          subst hpick
          rw [hq1] at hpp; cases hpp
          have := d1.mpr ⟨rfl, rfl⟩
          rw [this] at c1; cases c1
        · exfalso
          subst hpick
          rw [hq2] at hpp; cases hpp
          have := d2.mpr ⟨rfl, rfl⟩
          rw [this] at c2; cases c2
        · subst hpick
          rw [hq3] at hpp; cases hpp
          have f1 := d1.mp (by simpa using c1)
          have f2 := d2.mp (by simpa using c2)
          intro i p hp
          have hi : i ∈ List.range pts.size := List.mem_range.mpr (Array.getElem?_eq_some_iff.mp hp).1
          have a1 := hmx i hi p hp
          have a2 := hm1 i hi p hp
          have a3 := hm2 i hi p hp
          have a4 := hm3 i hi p hp
          simp only [one_mul, zero_mul, add_zero, neg_mul, neg_zero, zero_add] at a1 a2 a3 a4
          have hx : p.x = pp.x := le_antisymm a1 (by linarith [f1.1])
          have hy : p.y = pp.y := le_antisymm a4 (by linarith [f2.2])
          cases p; cases pp; simp only [V2.mk.injEq]; exact ⟨hx, hy⟩
      intro i j p q hp hq
      rw [all i p hp, all j q hq]
  · intro hall
    right
    have cx : ∀ (d : V2 K) (i : Nat) (p : V2 K), pts[i]? = some p → d.x * p.x + d.y * p.y = d.x * pts[0].x + d.y * pts[0].y := by
      intro d i p hp; rw [hall i 0 p _ hp hp0]
    have r0 := support_range_const sq negMax _ ⟨1, 0⟩ pts h0 (cx _) (by simpa using s0)
    have r1 := support_range_const sq negMax _ ⟨-1, -0⟩ pts h0 (cx _) (by simpa using s1)
    have r2 := support_range_const sq negMax _ ⟨-0, -1⟩ pts h0 (cx _) (by simpa using s3)
    have r3 := support_range_const sq negMax _ ⟨0, 1⟩ pts h0 (cx _) (by simpa using s2)
    refine ⟨0, r0, ?_⟩
    unfold pickP2
    rw [supAll_some sq negMax pts _ 0 r1, supAll_some sq negMax pts _ 0 r2, supAll_some sq negMax pts _ 0 r3]
    split_ifs <;> rfl

/-- **(4, dropped points)**: in `attach_and_push_facets2` (called on an index-safe state with valid arguments) a visible
point of the removed facet that is given to neither new facet lies within `100·eps` of the closed inner side of BOTH new
facets: `(pts[v] - pts[F.p0])·F.normal ≤ eps100` for `F = F1, F2` — "naturally deleted" points are (within the tolerance)
inside the two new edges. -/
theorem attach_dropped_within_tolerance (eps100 : K) (pts : Array (V2 K)) (st : HullState K) (prevF nextF point removed : Nat)
    (hok : @StateOK K pts.size st) (hp : prevF < st.segs.size) (hn : nextF < st.segs.size) (hpt : point < pts.size) :
    ∃ (F1 F2 : SegFacet K) (a b : V2 K),
      (@attach K (fieldNum K sq) eps100 pts st prevF nextF point removed).segs[st.segs.size]? = some F1 ∧
      (@attach K (fieldNum K sq) eps100 pts st prevF nextF point removed).segs[st.segs.size + 1]? = some F2 ∧
      pts[F1.p0]? = some a ∧ pts[F2.p0]? = some b ∧ F2.p0 = point ∧
      ∀ v ∈ visOf st removed, v ≠ point → v ∈ F1.visible ∨ v ∈ F2.visible ∨
        ∃ pv, pts[v]? = some pv ∧
          (pv.x - a.x) * F1.normal.x + (pv.y - a.y) * F1.normal.y ≤ eps100 ∧
          (pv.x - b.x) * F2.normal.x + (pv.y - b.y) * F2.normal.y ≤ eps100 := by
  obtain ⟨F1, F2, g1, g2, gs, _, e2, _, _, _, _, hdrop⟩ :=
    @attach_dropped_unseen K (fieldNum K sq) eps100 pts st prevF nextF point removed
  have hok' := @attach_indices_valid K (fieldNum K sq) pts.size eps100 pts st prevF nextF point removed hok hp hn hpt
  have i1 := (hok'.1 _ F1 g1).1.1
  have i2 := (hok'.1 _ F2 g2).1.1
  refine ⟨F1, F2, pts[F1.p0]'i1, pts[F2.p0]'i2, g1, g2, Array.getElem?_eq_getElem _, Array.getElem?_eq_getElem _, e2, ?_⟩
  intro v hv hne
  rcases hdrop v hv hne with h | h | ⟨h1, h2⟩
  · exact Or.inl h
  · exact Or.inr (Or.inl h)
  · have iv : v < pts.size := @visOf_lt K (fieldNum K sq) _ _ hok removed v hv
    refine Or.inr (Or.inr ⟨pts[v]'iv, Array.getElem?_eq_getElem _, ?_, ?_⟩)
    · exact ((canBeSeenBy_iff_strict sq eps100 pts F1 v _ _ (Array.getElem?_eq_getElem _) (Array.getElem?_eq_getElem _)).2).mp h1
    · exact ((canBeSeenBy_iff_strict sq eps100 pts F2 v _ _ (Array.getElem?_eq_getElem _) (Array.getElem?_eq_getElem _)).2).mp h2

/-- **(5, consequence) nothing outside is left waiting at exit**: in the final state of the main loop (which is reached
because `i == segments.len()`, see `convexHull2Idx_fuel_suffices`) a facet that is still valid has an EMPTY visible list,
provided its visible points beat the `-MAX` sentinel in the direction of its normal (`normal·p > -MAX`, always true for
finite `f64` inputs in the domain D). Together with (4) this says: at termination no input point that was ever attributed
to a surviving facet is still more than `100·eps` outside it. -/
theorem final_valid_facets_visible_empty (negMax eps100 : K) (pts : Array (V2 K)) (st0 : HullState K)
    (h : @initialPolyline K (fieldNum K sq) negMax eps100 pts = some st0) (k : Nat) (g : SegFacet K)
    (hg : (@hullLoop K (fieldNum K sq) negMax eps100 pts (2 * pts.size + 8) 0 st0).segs[k]? = some g) (hv : g.valid = true)
    (hb : ∀ v ∈ g.visible, ∀ (p : V2 K), pts[v]? = some p → negMax < g.normal.x * p.x + g.normal.y * p.y) :
    g.visible = [] := by
  have hnone := @convexHull2Idx_all_processed K (fieldNum K sq) negMax eps100 pts st0 h k g hg hv
  have hok := @hullLoop_indices_valid K (fieldNum K sq) _ negMax eps100 pts (2 * pts.size + 8) 0 st0
    (@initialPolyline_indices_valid K (fieldNum K sq) negMax eps100 pts st0 h)
  cases hvis : g.visible with
  | nil => rfl
  | cons v vs =>
    exfalso
    have hm : v ∈ g.visible := by rw [hvis]; exact List.mem_cons_self
    have iv : v < pts.size := (hok.1 k g hg).1.2.2 v hm
    obtain ⟨j, hj⟩ := support_some_of_beats sq negMax g.normal pts g.visible v _ hm (Array.getElem?_eq_getElem iv)
      (hb v hm _ (Array.getElem?_eq_getElem iv))
    rw [hnone] at hj; cases hj

/-- under the sentinel hypothesis the second initial point is at a different POSITION than the first one (not only a
different index), so both initial facets have non-zero length -/
private theorem initial_positions_differ (negMax : K) (pts : Array (V2 K))
    (hsent : ∀ (i : Nat) (p : V2 K), pts[i]? = some p → negMax < p.x ∧ negMax < -p.x ∧ negMax < p.y ∧ negMax < -p.y)
    (h2 : 2 ≤ pts.size) (p1 : Nat)
    (hp1 : @indexedSupportPointId K (fieldNum K sq) negMax ⟨1, 0⟩ pts (List.range pts.size) = some p1)
    (hne : p1 ≠ @pickP2 K (fieldNum K sq) negMax pts p1) :
    ∃ pa pb : V2 K, pts[p1]? = some pa ∧ pts[@pickP2 K (fieldNum K sq) negMax pts p1]? = some pb ∧ (pa.x ≠ pb.x ∨ pa.y ≠ pb.y) := by
  have h0 : 0 < pts.size := by omega
  have hp0 : pts[0]? = some pts[0] := Array.getElem?_eq_getElem h0
  have hm0 : 0 ∈ List.range pts.size := List.mem_range.mpr h0
  obtain ⟨s0, s1, s2, s3⟩ := hsent 0 _ hp0
  obtain ⟨j1, hj1⟩ := support_some_of_beats sq negMax ⟨-1, -0⟩ pts _ 0 _ hm0 hp0 (by simpa using s1)
  obtain ⟨j2, hj2⟩ := support_some_of_beats sq negMax ⟨-0, -1⟩ pts _ 0 _ hm0 hp0 (by simpa using s3)
  obtain ⟨j3, hj3⟩ := support_some_of_beats sq negMax ⟨0, 1⟩ pts _ 0 _ hm0 hp0 (by simpa using s2)
  obtain ⟨_, pp, hpp, hmx⟩ := support_point_id_max sq negMax ⟨1, 0⟩ pts _ p1 hp1
  obtain ⟨_, q1, hq1, hm1⟩ := support_point_id_max sq negMax ⟨-1, -0⟩ pts _ j1 hj1
  obtain ⟨_, q2, hq2, hm2⟩ := support_point_id_max sq negMax ⟨-0, -1⟩ pts _ j2 hj2
  obtain ⟨_, q3, hq3, hm3⟩ := support_point_id_max sq negMax ⟨0, 1⟩ pts _ j3 hj3
  have e1 := supAll_some sq negMax pts _ j1 hj1
  have e2 := supAll_some sq negMax pts _ j2 hj2
  have e3 := supAll_some sq negMax pts _ j3 hj3
  have d1 := differs_false_iff sq negMax pts p1 ⟨-1, -0⟩
  have d2 := differs_false_iff sq negMax pts p1 ⟨-0, -1⟩
  rw [e1, ptAt_some sq pts j1 q1 hq1, ptAt_some sq pts p1 pp hpp] at d1
  rw [e2, ptAt_some sq pts j2 q2 hq2, ptAt_some sq pts p1 pp hpp] at d2
  unfold pickP2 at hne ⊢
  rw [e1, e2, e3] at hne ⊢
  split_ifs at hne ⊢ with c1 c2
  · refine ⟨pp, q1, hpp, hq1, ?_⟩
    by_contra hc; push Not at hc
    have := d1.mpr ⟨hc.1.symm, hc.2.symm⟩
    rw [this] at c1; cases c1
  · refine ⟨pp, q2, hpp, hq2, ?_⟩
    by_contra hc; push Not at hc
    have := d2.mpr ⟨hc.1.symm, hc.2.symm⟩
    rw [this] at c2; cases c2
  · refine ⟨pp, q3, hpp, hq3, ?_⟩
    by_contra hc; push Not at hc
    have f1 := d1.mp (by simpa using c1)
    have f2 := d2.mp (by simpa using c2)
    -- then every point coincides with `pp`, every support is index 0, and `p1 = j3 = 0`
    have all : ∀ (i : Nat) (p : V2 K), pts[i]? = some p → p = pp := by
      intro i p hp
      have hi : i ∈ List.range pts.size := List.mem_range.mpr (Array.getElem?_eq_some_iff.mp hp).1
      have a1 := hmx i hi p hp
      have a2 := hm1 i hi p hp
      have a3 := hm2 i hi p hp
      have a4 := hm3 i hi p hp
      simp only [one_mul, zero_mul, add_zero, neg_mul, neg_zero, zero_add] at a1 a2 a3 a4
      have hx : p.x = pp.x := le_antisymm a1 (by linarith [f1.1])
      have hy : p.y = pp.y := le_antisymm (by linarith [hc.2]) (by linarith [f2.2])
      cases p; cases pp; simp only [V2.mk.injEq]; exact ⟨hx, hy⟩
    have cx : ∀ (d : V2 K) (i : Nat) (p : V2 K), pts[i]? = some p → d.x * p.x + d.y * p.y = d.x * pts[0].x + d.y * pts[0].y := by
      intro d i p hp; rw [all i p hp, all 0 _ hp0]
    have r0 := support_range_const sq negMax _ ⟨1, 0⟩ pts h0 (cx _) (by simpa using s0)
    have r3 := support_range_const sq negMax _ ⟨0, 1⟩ pts h0 (cx _) (by simpa using s2)
    rw [r0] at hp1; rw [r3] at hj3
    cases hp1; cases hj3
    exact hne rfl

/-- **all panics of `convex_hull2_idx`, geometrically** (lawful square root, tolerance `eps100 ≥ 0`, coordinates strictly
inside the `±MAX` sentinel): the model returns `none` — i.e. the real function hits an `assert!`, an `unwrap` or runs off
`segments` looking for a valid facet — **exactly** when there are fewer than 2 points or all points coincide. For every other
input it returns a list of valid input indices (`convexHull2Idx_indices_valid`). -/
theorem convexHull2Idx_none_iff_degenerate (hsq : LawfulSqrt sq) (negMax eps100 : K) (h0 : 0 ≤ eps100) (pts : Array (V2 K))
    (hsent : ∀ (i : Nat) (p : V2 K), pts[i]? = some p → negMax < p.x ∧ negMax < -p.x ∧ negMax < p.y ∧ negMax < -p.y) :
    @convexHull2Idx K (fieldNum K sq) negMax eps100 pts = none ↔
      pts.size < 2 ∨ ∀ (i j : Nat) (p q : V2 K), pts[i]? = some p → pts[j]? = some q → p = q := by
  rw [← initialPolyline_none_iff_coincident sq negMax eps100 pts hsent]
  constructor
  · intro hnone
    cases hi : @initialPolyline K (fieldNum K sq) negMax eps100 pts with
    | none => rfl
    | some st0 =>
      exfalso
      obtain ⟨p1, p2, hsz, hp1, hp2, hne, hst⟩ := @initialPolyline_eq_some K (fieldNum K sq) negMax eps100 pts st0 hi
      rw [@pickP2_eq K (fieldNum K sq)] at hp2
      subst hp2
      obtain ⟨pa, pb, ha, hb, hd⟩ := initial_positions_differ sq negMax pts hsent hsz p1 hp1 hne
      have hv := new_valid_of_ne sq hsq pts _ _ pa pb ha hb hd
      obtain ⟨idx, hidx⟩ := convexHull2Idx_some_of_valid_start sq hsq negMax eps100 h0 pts st0 hi
        ⟨0, withVis (@SegFacet.new K (fieldNum K sq) p1 (@pickP2 K (fieldNum K sq) negMax pts p1) 1 1 pts) _,
          by rw [hst]; rfl, hv⟩
      rw [hnone] at hidx; cases hidx
  · intro hnone
    unfold convexHull2Idx
    rw [hnone]

/-- **the returned polygon, edge by edge** (lawful `sqrt`, `eps100 ≥ 0`, coordinates inside the `±MAX` sentinel): when
`convex_hull2_idx` returns `idx`, the final walk has gone once around a cycle of `m = idx.length ≤ segments.len()` pairwise
distinct facets, all valid, and the polygon's `t`-th edge `(idx[t], idx[(t+1) % m])` IS the `t`-th visited facet
`(g.p0, g.p1)`. So every edge of the output carries the invariants proved for facets: its end points are input points that
were extreme when created (`hull_vertices_extreme`), its normal is the right-hand normal of the edge
(`hullLoop_normals_consistent`), it has non-zero length, and no input point attributed to it is still waiting more than
`100·eps` outside (`final_valid_facets_visible_empty`). -/
theorem convexHull2Idx_output_is_facet_cycle (hsq : LawfulSqrt sq) (negMax eps100 : K) (h0 : 0 ≤ eps100) (pts : Array (V2 K))
    (hsent : ∀ (i : Nat) (p : V2 K), pts[i]? = some p → negMax < p.x ∧ negMax < -p.x ∧ negMax < p.y ∧ negMax < -p.y)
    (idx : List Nat) (h : @convexHull2Idx K (fieldNum K sq) negMax eps100 pts = some idx) :
    ∃ (st0 : HullState K) (first m : Nat), @initialPolyline K (fieldNum K sq) negMax eps100 pts = some st0 ∧
      0 < m ∧ m ≤ (@hullLoop K (fieldNum K sq) negMax eps100 pts (2 * pts.size + 8) 0 st0).segs.size ∧ idx.length = m ∧
      (∀ a b, a < m → b < m →
        nxtIter (@hullLoop K (fieldNum K sq) negMax eps100 pts (2 * pts.size + 8) 0 st0).segs a first =
        nxtIter (@hullLoop K (fieldNum K sq) negMax eps100 pts (2 * pts.size + 8) 0 st0).segs b first → a = b) ∧
      ∀ t, t < m → ∃ g : SegFacet K,
        (@hullLoop K (fieldNum K sq) negMax eps100 pts (2 * pts.size + 8) 0 st0).segs[
          nxtIter (@hullLoop K (fieldNum K sq) negMax eps100 pts (2 * pts.size + 8) 0 st0).segs t first]? = some g ∧
        g.valid = true ∧ idx[t]? = some g.p0 ∧ idx[(t + 1) % m]? = some g.p1 := by
  unfold convexHull2Idx at h
  cases hi : @initialPolyline K (fieldNum K sq) negMax eps100 pts with
  | none => rw [hi] at h; cases h
  | some st0 =>
    rw [hi] at h
    simp only at h
    obtain ⟨p1, p2, hsz, hp1, hp2, hne, hst⟩ := @initialPolyline_eq_some K (fieldNum K sq) negMax eps100 pts st0 hi
    rw [@pickP2_eq K (fieldNum K sq)] at hp2
    subst hp2
    obtain ⟨pa, pb, ha, hb, hd⟩ := initial_positions_differ sq negMax pts hsent hsz p1 hp1 hne
    have hv1 := new_valid_of_ne sq hsq pts _ _ pa pb ha hb hd
    have hv2 := new_valid_of_ne sq hsq pts _ _ pb pa hb ha (hd.imp Ne.symm Ne.symm)
    have hval0 : ∀ (k : Nat) (g : SegFacet K), st0.segs[k]? = some g → g.valid = true := by
      intro k g hg
      rw [hst] at hg
      rcases two_get _ _ k g hg with ⟨_, rfl⟩ | ⟨_, rfl⟩
      · exact hv1
      · exact hv2
    obtain ⟨_, live, hch, hlv⟩ := hullLoop_live_valid sq hsq negMax eps100 h0 pts st0 (2 * pts.size + 8) 0 hi hval0
    cases hfind : (List.range (@hullLoop K (fieldNum K sq) negMax eps100 pts (2 * pts.size + 8) 0 st0).segs.size).find?
        (fun i => ((@hullLoop K (fieldNum K sq) negMax eps100 pts (2 * pts.size + 8) 0 st0).segs[i]?.map (·.valid)).getD false) with
    | none => rw [hfind] at h; cases h
    | some first =>
      rw [hfind] at h
      simp only [Option.some.injEq] at h
      have hfv := List.find?_some hfind
      have hlf : live first := by
        cases hs : (@hullLoop K (fieldNum K sq) negMax eps100 pts (2 * pts.size + 8) 0 st0).segs[first]? with
        | none => simp [hs] at hfv
        | some g => exact hch.valid_live first g hs (by simpa [hs] using hfv)
      obtain ⟨m, hm0, hms, hinj, hlen, hedges⟩ := hullWalk_edges_are_facets hch hlv first hlf
      rw [h] at hlen hedges
      exact ⟨st0, first, m, rfl, hm0, hms, hlen, hinj, hedges⟩

/-! ### non-vacuity of the hypotheses of the field-level theorems (over `ℚ`, lawful instance `fieldNum ℚ id`) -/

/-- the sentinel hypothesis of `initialPolyline_none_iff_coincident` is satisfiable, and the theorem then decides that two
distinct points do start a hull -/
example : @initialPolyline ℚ (fieldNum ℚ id) (-10) (1 / 100) #[⟨0, 0⟩, ⟨1, 0⟩] ≠ none := by
  have hsent : ∀ (i : Nat) (p : V2 ℚ), (#[⟨0, 0⟩, ⟨1, 0⟩] : Array (V2 ℚ))[i]? = some p →
      (-10 : ℚ) < p.x ∧ (-10 : ℚ) < -p.x ∧ (-10 : ℚ) < p.y ∧ (-10 : ℚ) < -p.y := by
    intro i p hp
    match i with
    | 0 => simp at hp; subst hp; norm_num
    | 1 => simp at hp; subst hp; norm_num
    | n + 2 => simp at hp
  intro h
  rw [initialPolyline_none_iff_coincident id (-10) (1 / 100) _ hsent] at h
  rcases h with h | h
  · simp at h
  · have := h 0 1 ⟨0, 0⟩ ⟨1, 0⟩ (by simp) (by simp)
    simp at this

/-- … and that three copies of one point panic -/
example : @initialPolyline ℚ (fieldNum ℚ id) (-10) (1 / 100) #[⟨1, 2⟩, ⟨1, 2⟩, ⟨1, 2⟩] = none := by
  have hsent : ∀ (i : Nat) (p : V2 ℚ), (#[⟨1, 2⟩, ⟨1, 2⟩, ⟨1, 2⟩] : Array (V2 ℚ))[i]? = some p →
      (-10 : ℚ) < p.x ∧ (-10 : ℚ) < -p.x ∧ (-10 : ℚ) < p.y ∧ (-10 : ℚ) < -p.y := by
    intro i p hp
    match i with
    | 0 => simp at hp; subst hp; norm_num
    | 1 => simp at hp; subst hp; norm_num
    | 2 => simp at hp; subst hp; norm_num
    | n + 3 => simp at hp
  rw [initialPolyline_none_iff_coincident id (-10) (1 / 100) _ hsent]
  right
  intro i j p q hp hq
  have key : ∀ (i : Nat) (p : V2 ℚ), (#[⟨1, 2⟩, ⟨1, 2⟩, ⟨1, 2⟩] : Array (V2 ℚ))[i]? = some p → p = ⟨1, 2⟩ := by
    intro i p hp
    match i with
    | 0 => simp at hp; exact hp.symm
    | 1 => simp at hp; exact hp.symm
    | 2 => simp at hp; exact hp.symm
    | n + 3 => simp at hp
  rw [key i p hp, key j q hq]

/-- non-vacuity of `LawfulSqrt` (`ℚ` has no lawful square root; `ℝ` has) -/
theorem lawfulSqrt_real : LawfulSqrt Real.sqrt := ⟨fun x _ => Real.sqrt_nonneg x, fun _ hx => Real.mul_self_sqrt hx⟩

/-- all hypotheses of `convexHull2Idx_none_iff_degenerate` (and therefore of `step_convex_corner`, `hullLoop_loopInv`) are
satisfiable together: over `ℝ` with the real square root, a right triangle is not degenerate, so `convex_hull2_idx` returns a
hull -/
example : ∃ idx, @convexHull2Idx ℝ (fieldNum ℝ Real.sqrt) (-10) (1 / 100) #[⟨0, 0⟩, ⟨1, 0⟩, ⟨0, 1⟩] = some idx := by
  have hsent : ∀ (i : Nat) (p : V2 ℝ), (#[⟨0, 0⟩, ⟨1, 0⟩, ⟨0, 1⟩] : Array (V2 ℝ))[i]? = some p →
      (-10 : ℝ) < p.x ∧ (-10 : ℝ) < -p.x ∧ (-10 : ℝ) < p.y ∧ (-10 : ℝ) < -p.y := by
    intro i p hp
    match i with
    | 0 => simp at hp; subst hp; norm_num
    | 1 => simp at hp; subst hp; norm_num
    | 2 => simp at hp; subst hp; norm_num
    | n + 3 => simp at hp
  cases h : @convexHull2Idx ℝ (fieldNum ℝ Real.sqrt) (-10) (1 / 100) #[⟨0, 0⟩, ⟨1, 0⟩, ⟨0, 1⟩] with
  | some idx => exact ⟨idx, rfl⟩
  | none =>
    exfalso
    rw [convexHull2Idx_none_iff_degenerate Real.sqrt lawfulSqrt_real (-10) (1 / 100) (by norm_num) _ hsent] at h
    rcases h with h | h
    · simp at h
    · have := h 0 1 ⟨0, 0⟩ ⟨1, 0⟩ (by simp) (by simp)
      simp at this

end C12
