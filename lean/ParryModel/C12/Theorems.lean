import ParryModel.Field
import ParryModel.C12.Model
/-!
# C12 theorems (first pass): the argmax primitive of the hull algorithms, and certificate soundness.
-/
namespace C12
open Model

variable {K : Type} [Field K] [LinearOrder K] [IsStrictOrderedRing K] (sq : K → K)

/-- **certificate soundness (2-D)**: a half-plane inequality that holds (within `tol`) at every input point holds
at every convex combination of input points — so a polygon all of whose edge inequalities hold at the inputs
encloses the whole convex hull of the inputs, not only the sampled points. -/
theorem halfplane_convex_combination (n : V2 K) (d tol : K) (pts : List (V2 K)) (w : List K)
    (hlen : w.length = pts.length) (hw : ∀ x ∈ w, 0 ≤ x)
    (hpts : ∀ p ∈ pts, n.x * p.x + n.y * p.y - d ≤ tol) :
    let q : V2 K := ⟨(List.zipWith (fun (p : V2 K) x => p.x * x) pts w).sum, (List.zipWith (fun (p : V2 K) x => p.y * x) pts w).sum⟩
    n.x * q.x + n.y * q.y - d * w.sum ≤ tol * w.sum := by
  induction pts generalizing w with
  | nil => cases w <;> simp_all
  | cons p ps ih =>
    cases w with
    | nil => simp at hlen
    | cons x xs =>
      simp only [List.zipWith_cons_cons, List.sum_cons]
      have hx : 0 ≤ x := hw x (by simp)
      have hp := hpts p (by simp)
      have := ih xs (by simpa using hlen) (fun y hy => hw y (by simp [hy])) (fun r hr => hpts r (by simp [hr]))
      simp only at this
      nlinarith [mul_le_mul_of_nonneg_right hp hx]

/-- **certificate soundness (3-D)** -/
theorem halfspace_convex_combination (n : V3 K) (d tol : K) (pts : List (V3 K)) (w : List K)
    (hlen : w.length = pts.length) (hw : ∀ x ∈ w, 0 ≤ x)
    (hpts : ∀ p ∈ pts, n.x * p.x + n.y * p.y + n.z * p.z - d ≤ tol) :
    let q : V3 K := ⟨(List.zipWith (fun (p : V3 K) x => p.x * x) pts w).sum, (List.zipWith (fun (p : V3 K) x => p.y * x) pts w).sum,
                     (List.zipWith (fun (p : V3 K) x => p.z * x) pts w).sum⟩
    n.x * q.x + n.y * q.y + n.z * q.z - d * w.sum ≤ tol * w.sum := by
  induction pts generalizing w with
  | nil => cases w <;> simp_all
  | cons p ps ih =>
    cases w with
    | nil => simp at hlen
    | cons x xs =>
      simp only [List.zipWith_cons_cons, List.sum_cons]
      have hx : 0 ≤ x := hw x (by simp)
      have hp := hpts p (by simp)
      have := ih xs (by simpa using hlen) (fun y hy => hw y (by simp [hy])) (fun r hr => hpts r (by simp [hr]))
      simp only at this
      nlinarith [mul_le_mul_of_nonneg_right hp hx]

example : ∀ x ∈ ([1/2, 1/2] : List ℚ), 0 ≤ x := by simp

private theorem step_none (dir : V2 K) (pts : Array (V2 K)) (acc : Option Nat × K) (i : Nat) (h : pts[i]? = none) :
    @supportStep K (fieldNum K sq) dir pts acc i = acc := by
  simp only [supportStep, h]

private theorem step_some (dir : V2 K) (pts : Array (V2 K)) (acc : Option Nat × K) (i : Nat) (p : V2 K) (h : pts[i]? = some p) :
    @supportStep K (fieldNum K sq) dir pts acc i =
      if acc.2 < dir.x * p.x + dir.y * p.y then (some i, dir.x * p.x + dir.y * p.y) else acc := by
  simp only [supportStep, h, V2.dot]
  rfl

/-- the fold of `indexed_support_point_id` keeps, at every step, an index of the scanned prefix whose dot product is
the running maximum -/
private theorem support_fold_inv (dir : V2 K) (pts : Array (V2 K)) (idx : List Nat) (acc : Option Nat × K)
    (hacc : ∀ j, acc.1 = some j → ∃ p, pts[j]? = some p ∧ dir.x * p.x + dir.y * p.y = acc.2) :
    let r := idx.foldl (@supportStep K (fieldNum K sq) dir pts) acc
    acc.2 ≤ r.2 ∧ (∀ i ∈ idx, ∀ p, pts[i]? = some p → dir.x * p.x + dir.y * p.y ≤ r.2) ∧
    (∀ j, r.1 = some j → (j ∈ idx ∨ acc.1 = some j) ∧ ∃ p, pts[j]? = some p ∧ dir.x * p.x + dir.y * p.y = r.2) := by
  induction idx generalizing acc with
  | nil => exact ⟨le_refl _, by simp, fun j hj => ⟨Or.inr hj, hacc j hj⟩⟩
  | cons i is ih =>
    simp only [List.foldl_cons]
    cases hpi : pts[i]? with
    | none =>
      rw [step_none sq dir pts acc i hpi]
      obtain ⟨h1, h2, h3⟩ := ih acc hacc
      refine ⟨h1, ?_, ?_⟩
      · intro k hk p hp
        rcases List.mem_cons.mp hk with rfl | hk
        · rw [hpi] at hp; cases hp
        · exact h2 k hk p hp
      · intro j hj
        obtain ⟨a, b⟩ := h3 j hj
        exact ⟨a.elim (fun m => Or.inl (List.mem_cons_of_mem _ m)) Or.inr, b⟩
    | some p =>
      rw [step_some sq dir pts acc i p hpi]
      split_ifs with hlt
      · obtain ⟨h1, h2, h3⟩ := ih (some i, dir.x * p.x + dir.y * p.y) (by
          intro j hj; cases hj; exact ⟨p, hpi, rfl⟩)
        refine ⟨le_trans hlt.le h1, ?_, ?_⟩
        · intro k hk p' hp'
          rcases List.mem_cons.mp hk with rfl | hk
          · rw [hpi] at hp'; cases hp'; exact h1
          · exact h2 k hk p' hp'
        · intro j hj
          obtain ⟨a, b⟩ := h3 j hj
          refine ⟨Or.inl ?_, b⟩
          rcases a with m | m
          · exact List.mem_cons_of_mem _ m
          · cases m; exact List.mem_cons_self
      · obtain ⟨h1, h2, h3⟩ := ih acc hacc
        refine ⟨h1, ?_, ?_⟩
        · intro k hk p' hp'
          rcases List.mem_cons.mp hk with rfl | hk
          · rw [hpi] at hp'; cases hp'; exact le_trans (not_lt.mp hlt) h1
          · exact h2 k hk p' hp'
        · intro j hj
          obtain ⟨a, b⟩ := h3 j hj
          exact ⟨a.elim (fun m => Or.inl (List.mem_cons_of_mem _ m)) Or.inr, b⟩

/-- **support point is extreme**: `indexed_support_point_id` returns an index of the list whose point maximises
`dir·p` over all listed points (it is `some` as soon as one listed point beats the `-MAX` sentinel). Quickhull only ever
creates facets between such points, which is why hull vertices are input points on the boundary of the hull. -/
theorem support_point_id_max (negMax : K) (dir : V2 K) (pts : Array (V2 K)) (idx : List Nat) (j : Nat)
    (h : @indexedSupportPointId K (fieldNum K sq) negMax dir pts idx = some j) :
    j ∈ idx ∧ ∃ pj, pts[j]? = some pj ∧ ∀ i ∈ idx, ∀ p, pts[i]? = some p →
      dir.x * p.x + dir.y * p.y ≤ dir.x * pj.x + dir.y * pj.y := by
  have := support_fold_inv sq dir pts idx (none, negMax) (by intro j hj; cases hj)
  simp only at this
  obtain ⟨_, h2, h3⟩ := this
  unfold indexedSupportPointId at h
  obtain ⟨a, pj, hpj, e⟩ := h3 j h
  refine ⟨a.elim id (fun m => by cases m), pj, hpj, ?_⟩
  intro i hi p hp
  rw [e]; exact h2 i hi p hp

end C12
