import ParryModel.Field
import ParryModel.C12.Lemmas3
import ParryModel.C12.Theorems3
/-!
# C12 theorems, fourth pass: the final walk of `convex_hull2_idx` terminates by returning to its first facet, and the
returned polygon's edges are exactly the facets visited (`nxt`, `nxtIter`, `pushed`, `walkList` are defined in `Lemmas3.lean`).
-/
namespace C12
open Model

section Structural
variable {K : Type}

/-- **the final `loop` terminates by `curr_facet == first_facet`**: on any closed chain (`ChainOK`), starting from a live
facet, the walk comes back to `first` after a minimal number `m ≤ segs.size` of steps (pigeonhole on the injective `next`),
so the model's fuel `segs.size + 1` is not what stops it; it visits `m` pairwise distinct facets and its output is the list of
`p0` of the valid ones in visiting order. -/
theorem hullWalk_returns_to_first {st : HullState K} {live : Nat → Prop} (h : ChainOK st live) (first : Nat) (hf : live first) :
    ∃ m, 0 < m ∧ m ≤ st.segs.size ∧ nxtIter st.segs m first = first ∧
      (∀ j, 0 < j → j < m → nxtIter st.segs j first ≠ first) ∧
      (∀ a b, a < m → b < m → nxtIter st.segs a first = nxtIter st.segs b first → a = b) ∧
      hullWalk st.segs first (st.segs.size + 1) first [] =
        (List.range m).filterMap (fun t => pushed st.segs (nxtIter st.segs t first)) :=
  hullWalk_returns h first hf

/-- every live facet is valid -/
def LiveValid (st : HullState K) (live : Nat → Prop) : Prop :=
  ∀ (k : Nat) (g : SegFacet K), live k → st.segs[k]? = some g → g.valid = true

/-- **if every facet of the chain is valid, the output polygon's edges are the visited facets**: the walk returns exactly `m`
indices, the `t`-th one is `p0` of the `t`-th visited facet `g_t`, and the next one (cyclically) is `g_t.p1`. -/
theorem hullWalk_edges_are_facets {st : HullState K} {live : Nat → Prop} (h : ChainOK st live) (hv : LiveValid st live)
    (first : Nat) (hf : live first) :
    ∃ m, 0 < m ∧ m ≤ st.segs.size ∧
      (∀ a b, a < m → b < m → nxtIter st.segs a first = nxtIter st.segs b first → a = b) ∧
      (hullWalk st.segs first (st.segs.size + 1) first []).length = m ∧
      ∀ t, t < m → ∃ g : SegFacet K, st.segs[nxtIter st.segs t first]? = some g ∧ g.valid = true ∧
        (hullWalk st.segs first (st.segs.size + 1) first [])[t]? = some g.p0 ∧
        (hullWalk st.segs first (st.segs.size + 1) first [])[(t + 1) % m]? = some g.p1 := by
  obtain ⟨m, hm0, hms, hper, hmin, hinj, hw⟩ := hullWalk_returns h first hf
  have hget : ∀ t, ∃ g : SegFacet K, st.segs[nxtIter st.segs t first]? = some g ∧ g.valid = true ∧
      pushed st.segs (nxtIter st.segs t first) = some g.p0 := by
    intro t
    have hl := nxtIter_live h first hf t
    obtain ⟨g, hg⟩ : ∃ g, st.segs[nxtIter st.segs t first]? = some g := ⟨_, Array.getElem?_eq_getElem (h.lt _ hl)⟩
    have := hv _ g hl hg
    exact ⟨g, hg, this, by simp [pushed, hg, this]⟩
  have hmap : hullWalk st.segs first (st.segs.size + 1) first [] =
      (List.range m).map (fun t => ((st.segs[nxtIter st.segs t first]?).map (·.p0)).getD 0) := by
    rw [hw]
    rw [← List.filterMap_eq_map]
    apply List.filterMap_congr
    intro t _
    obtain ⟨g, hg, _, hp⟩ := hget t
    simp [hp, hg]
  have hidx : ∀ t, t < m → (hullWalk st.segs first (st.segs.size + 1) first [])[t]? =
      some (((st.segs[nxtIter st.segs t first]?).map (·.p0)).getD 0) := by
    intro t ht
    rw [hmap, List.getElem?_map, List.getElem?_range ht]; rfl
  refine ⟨m, hm0, hms, hinj, by rw [hmap]; simp, ?_⟩
  intro t ht
  obtain ⟨g, hg, hgv, _⟩ := hget t
  refine ⟨g, hg, hgv, by rw [hidx t ht, hg]; rfl, ?_⟩
  -- the successor facet starts where `g` ends
  obtain ⟨_, _, _, ⟨gn, hgn, _, hp0⟩, _⟩ := h.link _ g (nxtIter_live h first hf t) hg
  have hnext : nxtIter st.segs (t + 1) first = g.next := by simp [nxtIter, nxt, hg]
  by_cases hlast : t + 1 = m
  · have hz : (t + 1) % m = 0 := by rw [hlast]; exact Nat.mod_self m
    rw [hz, hidx 0 hm0]
    have : nxtIter st.segs 0 first = g.next := by
      rw [← hnext, hlast, hper]; rfl
    rw [this, hgn]; simp [hp0]
  · have hlt : t + 1 < m := by omega
    rw [Nat.mod_eq_of_lt hlt, hidx (t + 1) hlt, hnext, hgn]; simp [hp0]

end Structural

section Geometry
variable {K : Type} [Field K] [LinearOrder K] [IsStrictOrderedRing K] (sq : K → K)

/-- **no degenerate facet is ever on the chain** (lawful `sqrt`, `eps100 ≥ 0`): if both initial facets are valid, then in every
state reached by the main loop there is a closed chain `live` containing exactly the valid facets, all loop invariants hold. -/
theorem hullLoop_live_valid (hsq : LawfulSqrt sq) (negMax eps100 : K) (h0 : 0 ≤ eps100) (pts : Array (V2 K))
    (st0 : HullState K) (fuel i : Nat) (h : @initialPolyline K (fieldNum K sq) negMax eps100 pts = some st0)
    (hval0 : ∀ (k : Nat) (g : SegFacet K), st0.segs[k]? = some g → g.valid = true) :
    LoopInv sq eps100 pts (@hullLoop K (fieldNum K sq) negMax eps100 pts fuel i st0) ∧
    ∃ live : Nat → Prop, ChainOK (@hullLoop K (fieldNum K sq) negMax eps100 pts fuel i st0) live ∧
      LiveValid (@hullLoop K (fieldNum K sq) negMax eps100 pts fuel i st0) live := by
  refine @hullLoop_induct' K (fieldNum K sq) negMax eps100 pts
    (fun s => LoopInv sq eps100 pts s ∧ ∃ live : Nat → Prop, ChainOK s live ∧ LiveValid s live) ?_ fuel i st0
    ⟨initialPolyline_loopInv sq negMax eps100 pts st0 h, _, @initialPolyline_chain K (fieldNum K sq) negMax eps100 pts st0 h,
      fun k g _ hg => hval0 k g hg⟩
  rintro s i f point ⟨hinv, live, hch, hlv⟩ hf hv hp
  obtain ⟨hinv', F1, F2, _, _, _, g1, g2, v1, v2, _⟩ := step_convex_corner sq hsq negMax eps100 h0 pts s i f point hinv hf hv hp
  have hli := hch.valid_live i f hf hv
  obtain ⟨hch', _⟩ := @step_chain K (fieldNum K sq) eps100 pts s live i f point hch hf hli
  refine ⟨hinv', _, hch', ?_⟩
  intro k g hk hg
  rcases hk with ⟨hk, hki⟩ | rfl | rfl
  · obtain ⟨g0, hg0⟩ : ∃ g0, s.segs[k]? = some g0 := ⟨_, Array.getElem?_eq_getElem (hch.lt k hk)⟩
    rw [@stepState_get_old K (fieldNum K sq) eps100 pts s i f point k g0 hg0] at hg
    cases hg
    simp only [hki, if_false]
    exact hlv k g0 hk hg0
  · rw [g1] at hg; cases hg; exact v1
  · rw [g2] at hg; cases hg; exact v2

end Geometry
end C12
