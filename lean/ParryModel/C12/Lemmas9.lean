import ParryModel.C12.Hull3
/-!
# C12 lemmas (fu5): `utils::remove_unused_points` (`removeUnused`): the `swap_remove` compaction loop and its `remap` table.
Core Lean only; every `Num` instance.
-/
namespace C12.H3
open Model Model.H3
variable {K : Type} [Num K]

def T3.Has (t : T3) (j : Nat) : Prop := j = t.a ∨ j = t.b ∨ j = t.c

/-- the `used` marking pass -/
def markUsed (u : Array Bool) (t : T3) : Array Bool :=
  ((u.setIfInBounds t.a true).setIfInBounds t.b true).setIfInBounds t.c true

def bAt (u : Array Bool) (j : Nat) : Bool := (u[j]?).getD false

theorem markUsed_size (u : Array Bool) (t : T3) : (markUsed u t).size = u.size := by simp [markUsed]

theorem bAt_markUsed (u : Array Bool) (t : T3) (j : Nat) :
    bAt (markUsed u t) j = true ↔ bAt u j = true ∨ (j < u.size ∧ T3.Has t j) := by
  unfold bAt markUsed T3.Has
  simp only [Array.getElem?_setIfInBounds, Array.size_setIfInBounds]
  by_cases hj : j < u.size
  · by_cases hc : t.c = j
    · simp [hc, hj]
    · by_cases hb : t.b = j
      · simp [hc, hb, hj]
      · by_cases ha : t.a = j
        · simp [hc, hb, ha, hj]
        · simp only [hc, hb, ha, if_false]
          constructor
          · intro h; exact Or.inl h
          · rintro (h | ⟨_, h | h | h⟩)
            · exact h
            · exact absurd h.symm ha
            · exact absurd h.symm hb
            · exact absurd h.symm hc
  · have hn : u[j]? = none := Array.getElem?_eq_none (by omega)
    by_cases hc : t.c = j <;> by_cases hb : t.b = j <;> by_cases ha : t.a = j <;> simp [hc, hb, ha, hj, hn]

theorem markFold (l : List T3) : ∀ (u : Array Bool), (l.foldl markUsed u).size = u.size ∧
    ∀ j, bAt (l.foldl markUsed u) j = true ↔ bAt u j = true ∨ (j < u.size ∧ ∃ t, t ∈ l ∧ T3.Has t j) := by
  induction l with
  | nil => intro u; simp
  | cons a l ih =>
    intro u
    obtain ⟨h1, h2⟩ := ih (markUsed u a)
    refine ⟨by rw [List.foldl_cons, h1, markUsed_size], fun j => ?_⟩
    rw [List.foldl_cons, h2 j, bAt_markUsed, markUsed_size]
    constructor
    · rintro ((h | ⟨hj, h⟩) | ⟨hj, t, ht, h⟩)
      · exact Or.inl h
      · exact Or.inr ⟨hj, a, by simp, h⟩
      · exact Or.inr ⟨hj, t, by simp [ht], h⟩
    · rintro (h | ⟨hj, t, ht, h⟩)
      · exact Or.inl (Or.inl h)
      · rcases List.mem_cons.mp ht with rfl | ht
        · exact Or.inl (Or.inr ⟨hj, h⟩)
        · exact Or.inr ⟨hj, t, ht, h⟩

/-- invariant of the compaction loop; `org k` = original index of the point now stored at position `k` -/
structure CompInv (pts : Array (V3 K)) (U : Nat → Bool) (org : Nat → Nat) (i : Nat) (p : Array (V3 K)) (u : Array Bool)
    (r : Array Nat) : Prop where
  hi : i ≤ p.size
  hp : p.size ≤ pts.size
  hu : u.size = pts.size
  hr : r.size = pts.size
  A : ∀ k, k < p.size → org k < pts.size ∧ p[k]? = pts[org k]? ∧ bAt u k = U (org k)
  B : ∀ k, i < k → k < p.size → org k = k
  C : ∀ k, k < i → U (org k) = true
  D : ∀ j, j < pts.size → U j = true → (r[j]?).getD 0 < p.size ∧ org ((r[j]?).getD 0) = j
  G : ∀ k, k < p.size → org k = k ∨ p.size ≤ org k
  F : ∀ k k', k < p.size → k' < p.size → org k = org k' → k = k'

theorem compInv_remove (pts : Array (V3 K)) (U : Nat → Bool) (org : Nat → Nat) (i : Nat) (p : Array (V3 K)) (u : Array Bool)
    (r : Array Nat) (h : CompInv pts U org i p u r) (hne : i ≠ p.size) (hui : bAt u i = false) :
    CompInv pts U (fun k => if k = i then org (p.size - 1) else org k) i
      ((p.setIfInBounds i ((p.back?).getD V3.zero)).pop)
      (u.setIfInBounds i ((u[((p.setIfInBounds i ((p.back?).getD V3.zero)).pop).size]?).getD false))
      (r.setIfInBounds ((p.setIfInBounds i ((p.back?).getD V3.zero)).pop).size i) := by
  obtain ⟨hi, hp, hu, hr, A, B, C, D, G, F⟩ := h
  have hil : i < p.size := by omega
  have hsz : ((p.setIfInBounds i ((p.back?).getD V3.zero)).pop).size = p.size - 1 := by simp
  rw [hsz]
  have hUi : U (org i) = false := by rw [← (A i hil).2.2]; exact hui
  have hback : (p.back?).getD V3.zero = pAt pts (org (p.size - 1)) := by
    rw [Array.back?_eq_getElem?, (A (p.size - 1) (by omega)).2.1]; rfl
  refine ⟨by omega, by omega, by simp [hu], by simp [hr], ?_, ?_, ?_, ?_, ?_, ?_⟩
  · intro k hk
    have hk' : k < p.size := by omega
    by_cases hki : k = i
    · subst hki
      simp only [if_true]
      refine ⟨(A (p.size - 1) (by omega)).1, ?_, ?_⟩
      · rw [Array.getElem?_pop, if_pos (by simpa using hk), Array.getElem?_setIfInBounds]
        simp only [if_true, hil]
        rw [hback]; unfold pAt
        have := (A (p.size - 1) (by omega)).1
        rw [Array.getElem?_eq_getElem this]; rfl
      · unfold bAt
        rw [Array.getElem?_setIfInBounds]
        simp only [if_true, show k < u.size by omega]
        exact (A (p.size - 1) (by omega)).2.2
    · simp only [hki, if_false]
      refine ⟨(A k hk').1, ?_, ?_⟩
      · rw [Array.getElem?_pop, if_pos (by simpa using hk), Array.getElem?_setIfInBounds]
        rw [if_neg (fun hc => hki hc.symm)]
        exact (A k hk').2.1
      · unfold bAt
        rw [Array.getElem?_setIfInBounds, if_neg (fun hc => hki hc.symm)]
        exact (A k hk').2.2
  · intro k h1 h2
    have : k ≠ i := by omega
    simp only [this, if_false]
    exact B k h1 (by omega)
  · intro k hk
    have : k ≠ i := by omega
    simp only [this, if_false]
    exact C k hk
  · intro j hj hUj
    obtain ⟨d1, d2⟩ := D j hj hUj
    have hri : (r[j]?).getD 0 ≠ i := by
      intro hc; rw [hc] at d2; rw [d2] at hUi; rw [hUi] at hUj; exact absurd hUj (by simp)
    rw [Array.getElem?_setIfInBounds]
    by_cases hjl : p.size - 1 = j
    · -- the original last point: it is still at the back (`G`), hence the one that moves to `i`
      subst hjl
      have hrl : (r[p.size - 1]?).getD 0 = p.size - 1 := by
        rcases G _ d1 with g | g
        · rw [d2] at g; omega
        · rw [d2] at g; omega
      simp only [if_true, show p.size - 1 < r.size by omega, Option.getD_some]
      have hne' : i ≠ p.size - 1 := by intro hc; exact hri (by rw [hrl]; exact hc.symm)
      refine ⟨by rw [hsz]; omega, ?_⟩
      rw [hrl] at d2; exact d2
    · simp only [hjl, if_false]
      have hrl : (r[j]?).getD 0 ≠ p.size - 1 := by
        intro hc
        rw [hc] at d2
        by_cases hlt : i < p.size - 1
        · have := B (p.size - 1) hlt (by omega); omega
        · have : i = p.size - 1 := by omega
          exact hri (by rw [hc]; exact this.symm)
      refine ⟨by omega, ?_⟩
      simp only [hri, if_false]
      exact d2
  · intro k hk
    by_cases hki : k = i
    · subst hki
      simp only [if_true]
      by_cases hlt : k < p.size - 1
      · right; rw [B (p.size - 1) hlt (by omega)]; omega
      · have : k = p.size - 1 := by omega
        omega
    · simp only [hki, if_false]
      rcases G k (by omega) with g | g
      · exact Or.inl g
      · exact Or.inr (by omega)

  · intro k k' hk hk' he
    rw [hsz] at hk hk'
    by_cases h1 : k = i <;> by_cases h2 : k' = i
    · omega
    · simp only [h1, h2, if_true, if_false] at he
      have := F _ _ (by omega) (by omega) he; omega
    · simp only [h1, h2, if_true, if_false] at he
      have := F _ _ (by omega) (by omega) he; omega
    · simp only [h1, h2, if_false] at he
      exact F _ _ (by omega) (by omega) he

theorem compInv_advance (pts : Array (V3 K)) (U : Nat → Bool) (org : Nat → Nat) (i : Nat) (p : Array (V3 K)) (u : Array Bool)
    (r : Array Nat) (h : CompInv pts U org i p u r) (hne : i ≠ p.size) (hui : bAt u i = true) :
    CompInv pts U org (i + 1) p u r := by
  obtain ⟨hi, hp, hu, hr, A, B, C, D, G, F⟩ := h
  refine ⟨by omega, hp, hu, hr, A, fun k h1 h2 => B k (by omega) h2, ?_, D, G, F⟩
  intro k hk
  by_cases hki : k = i
  · subst hki; rw [← (A k (by omega)).2.2]; exact hui
  · exact C k (by omega)

/-- what the compaction loop returns -/
def CompFinal (pts : Array (V3 K)) (U : Nat → Bool) (P : Array (V3 K)) (R : Array Nat) : Prop :=
  ∃ org : Nat → Nat, P.size ≤ pts.size ∧ R.size = pts.size ∧
    (∀ k, k < P.size → org k < pts.size ∧ P[k]? = pts[org k]? ∧ U (org k) = true) ∧
    (∀ j, j < pts.size → U j = true → (R[j]?).getD 0 < P.size ∧ org ((R[j]?).getD 0) = j) ∧
    (∀ k k', k < P.size → k' < P.size → org k = org k' → k = k')

/-- the loop ends with `i = points.len()` (never by fuel) in a state satisfying the invariant -/
theorem go_final (pts : Array (V3 K)) (U : Nat → Bool) : ∀ (fuel i : Nat) (p : Array (V3 K)) (u : Array Bool) (r : Array Nat)
    (org : Nat → Nat), CompInv pts U org i p u r → 2 * p.size - i < fuel →
    CompFinal pts U (removeUnused.go fuel i p u r).1 (removeUnused.go fuel i p u r).2 := by
  intro fuel
  induction fuel with
  | zero => intro i p u r org _ hf; omega
  | succ fuel ih =>
    intro i p u r org h hf
    unfold removeUnused.go
    by_cases hip : i = p.size
    · rw [if_pos hip]
      refine ⟨org, h.hp, h.hr, fun k hk => ⟨(h.A k hk).1, (h.A k hk).2.1, h.C k (by have : k < p.size := hk; omega)⟩, h.D, h.F⟩
    · rw [if_neg hip]
      have hil : i < p.size := by have := h.hi; omega
      cases hui : bAt u i with
      | false =>
        have hc : (!((u[i]?).getD false)) = true := by unfold bAt at hui; simp [hui]
        rw [if_pos hc]
        exact ih _ _ _ _ _ (compInv_remove pts U org i p u r h hip hui) (by simp; omega)
      | true =>
        have hc : ¬ ((!((u[i]?).getD false)) = true) := by unfold bAt at hui; simp [hui]
        rw [if_neg hc]
        exact ih _ _ _ _ _ (compInv_advance pts U org i p u r h hip hui) (by omega)

/-- `remove_unused_points` = marking pass, compaction loop, remapping of the index buffer -/
theorem removeUnused_final (pts : Array (V3 K)) (idx : Array T3) :
    ∃ P R, CompFinal pts (bAt (idx.toList.foldl markUsed (Array.replicate pts.size false))) P R ∧
      removeUnused pts idx = (P, idx.map fun t => ⟨(R[t.a]?).getD 0, (R[t.b]?).getD 0, (R[t.c]?).getD 0⟩) := by
  have hused : idx.foldl (fun u t => ((u.setIfInBounds t.a true).setIfInBounds t.b true).setIfInBounds t.c true)
      (Array.replicate pts.size false) = idx.toList.foldl markUsed (Array.replicate pts.size false) := by
    rw [← Array.foldl_toList]; rfl
  have hsz := (markFold idx.toList (Array.replicate pts.size false)).1
  have h0 : CompInv pts (bAt (idx.toList.foldl markUsed (Array.replicate pts.size false))) id 0 pts
      (idx.toList.foldl markUsed (Array.replicate pts.size false)) (Array.range pts.size) := by
    refine ⟨by omega, by omega, by simpa using hsz, by simp, fun k hk => ⟨hk, rfl, rfl⟩, fun _ _ _ => rfl,
      fun k hk => by omega, fun j hj _ => ?_, fun _ _ => Or.inl rfl, fun _ _ _ _ h => h⟩
    simp [hj]
  have hf := go_final pts _ (2 * pts.size + 1) 0 pts _ (Array.range pts.size) id h0 (by omega)
  refine ⟨_, _, hf, ?_⟩
  unfold removeUnused
  simp only [hused]

/-- the index buffer is rewritten through ONE map `R`, injective on the indices the buffer uses -/
theorem removeUnused_remap (pts : Array (V3 K)) (idx : Array T3)
    (hidx : ∀ t, t ∈ idx.toList → t.a < pts.size ∧ t.b < pts.size ∧ t.c < pts.size) :
    ∃ R : Nat → Nat, (removeUnused pts idx).2 = idx.map (fun t => ⟨R t.a, R t.b, R t.c⟩) ∧
      ∀ t t' j j', t ∈ idx.toList → t' ∈ idx.toList → T3.Has t j → T3.Has t' j' → R j = R j' → j = j' := by
  obtain ⟨P, R, ⟨org, _, _, _, hD, _⟩, heq⟩ := removeUnused_final pts idx
  refine ⟨fun j => (R[j]?).getD 0, by rw [heq], ?_⟩
  intro t t' j j' ht ht' hj hj' he
  have hU : ∀ (t : T3) (j : Nat), t ∈ idx.toList → T3.Has t j → j < pts.size ∧
      bAt (idx.toList.foldl markUsed (Array.replicate pts.size false)) j = true := by
    intro t j ht hj
    have hjl : j < pts.size := by
      obtain ⟨h1, h2, h3⟩ := hidx t ht
      rcases hj with rfl | rfl | rfl <;> assumption
    refine ⟨hjl, ((markFold idx.toList (Array.replicate pts.size false)).2 j).mpr (Or.inr ⟨by simpa using hjl, t, ht, hj⟩)⟩
  obtain ⟨a1, a2⟩ := hU t j ht hj
  obtain ⟨b1, b2⟩ := hU t' j' ht' hj'
  have e1 := (hD j a1 a2).2
  have e2 := (hD j' b1 b2).2
  simp only at he
  rw [he] at e1
  omega

end C12.H3
