import ParryModel.Field
import ParryModel.C12.Lemmas3
import Mathlib.Data.List.Perm.Subperm
/-! # C12 helper lemmas, part 4: every waiting point waits in exactly one place; chain vertices are pairwise distinct. -/
namespace C12
open Model
variable {K : Type} [Num K]
set_option linter.unusedSectionVars false

/-- the undecidable loop only redistributes a duplicate-free list: the three results together are a permutation of it -/
theorem assignUndecidable_perm (eps100 : K) (pts : Array (V2 K)) (fuel i : Nat) (und : Array Nat) (f1 f2 : SegFacet K)
    (hnd : und.toList.Nodup) :
    ∃ e1 e2 : List Nat,
      (assignUndecidable eps100 pts fuel i und f1 f2).2.1 = withVis f1 e1 ∧
      (assignUndecidable eps100 pts fuel i und f1 f2).2.2 = withVis f2 e2 ∧
      (e1 ++ e2 ++ (assignUndecidable eps100 pts fuel i und f1 f2).1.toList).Perm und.toList ∧
      (∀ v ∈ e1, f1.canBeSeenBy eps100 v pts = true) ∧
      (∀ v ∈ e2, f2.canBeSeenBy eps100 v pts = true ∧ f1.canBeSeenBy eps100 v pts = false) := by
  obtain ⟨e1, e2, a1, a2, a3, a4, a5, a6, a7, _, _⟩ := assignUndecidable_spec eps100 pts fuel i und f1 f2
  refine ⟨e1, e2, a1, a2, ?_, fun v hv => (a3 v hv).2, fun v hv => (a4 v hv).2⟩
  have hsub : und.toList ⊆ e1 ++ e2 ++ (assignUndecidable eps100 pts fuel i und f1 f2).1.toList := by
    intro v hv
    rcases a6 v (Array.mem_def.mpr hv) with h | h | h
    · simp [h]
    · simp [h]
    · simp [Array.mem_def.mp h]
  have hsp := List.subperm_of_subset hnd hsub
  have hlen : (e1 ++ e2 ++ (assignUndecidable eps100 pts fuel i und f1 f2).1.toList).length ≤ und.toList.length := by
    simp only [List.length_append, Array.length_toList]; omega
  exact (hsp.perm_of_length_le hlen).symm

theorem withVis_inj (f : SegFacet K) (e e' : List Nat) (h : withVis f e = withVis f e') : e = e' := by
  have : (withVis f e).visible = (withVis f e').visible := by rw [h]
  simpa [withVis] using this

theorem attach_nodup (eps100 : K) (pts : Array (V2 K)) (st : HullState K) (prevF nextF point removed : Nat)
    (hv : (visOf st removed).Nodup) (hu : st.und.toList.Nodup) (hd : ∀ v ∈ visOf st removed, v ∉ st.und) :
    ∃ (e1 e2 : List Nat) (und' : Array Nat),
      attach eps100 pts st prevF nextF point removed =
        { segs := ((relink st.segs prevF nextF).push (withVis (newF1 pts st prevF point) e1)).push
                    (withVis (newF2 pts st nextF point) e2), und := und' } ∧
      e1.Nodup ∧ e2.Nodup ∧ und'.toList.Nodup := by
  have hvis : (((relink st.segs prevF nextF)[removed]?).map (·.visible)).getD [] = visOf st removed := by
    rw [relink_get, visOf]; cases st.segs[removed]? <;> rfl
  have h0 : attach eps100 pts st prevF nextF point removed =
      { segs := ((relink st.segs prevF nextF).push (assignUndecidable eps100 pts (st.und.size + 1) 0 st.und
            ((visOf st removed).foldl (assignStep eps100 pts point) (newF1 pts st prevF point, newF2 pts st nextF point)).1
            ((visOf st removed).foldl (assignStep eps100 pts point) (newF1 pts st prevF point, newF2 pts st nextF point)).2).2.1).push
            (assignUndecidable eps100 pts (st.und.size + 1) 0 st.und
            ((visOf st removed).foldl (assignStep eps100 pts point) (newF1 pts st prevF point, newF2 pts st nextF point)).1
            ((visOf st removed).foldl (assignStep eps100 pts point) (newF1 pts st prevF point, newF2 pts st nextF point)).2).2.2,
        und := (assignUndecidable eps100 pts (st.und.size + 1) 0 st.und
            ((visOf st removed).foldl (assignStep eps100 pts point) (newF1 pts st prevF point, newF2 pts st nextF point)).1
            ((visOf st removed).foldl (assignStep eps100 pts point) (newF1 pts st prevF point, newF2 pts st nextF point)).2).1 } := by
    simp only [attach, ← hvis]; rfl
  rw [h0, assign_fold]
  generalize newF1 pts st prevF point = N1
  generalize newF2 pts st nextF point = N2
  generalize visOf st removed = vis at hv hd ⊢
  obtain ⟨b1, b2, c1, c2, hperm, _, _⟩ :=
    assignUndecidable_perm eps100 pts (st.und.size + 1) 0 st.und (withVis N1 (vis.filter (sel1 eps100 pts point N1)))
      (withVis N2 (vis.filter (sel2 eps100 pts point N1 N2))) hu
  have hnd := hperm.symm.nodup_iff.mp hu
  have hmem : ∀ v, v ∈ b1 ++ b2 ++ (assignUndecidable eps100 pts (st.und.size + 1) 0 st.und
      (withVis N1 (vis.filter (sel1 eps100 pts point N1))) (withVis N2 (vis.filter (sel2 eps100 pts point N1 N2)))).1.toList →
      v ∈ st.und := fun v hv' => Array.mem_def.mpr (hperm.subset hv')
  refine ⟨vis.filter (sel1 eps100 pts point N1) ++ b1, vis.filter (sel2 eps100 pts point N1 N2) ++ b2,
    (assignUndecidable eps100 pts (st.und.size + 1) 0 st.und (withVis N1 (vis.filter (sel1 eps100 pts point N1)))
      (withVis N2 (vis.filter (sel2 eps100 pts point N1 N2)))).1, ?_, ?_, ?_, ?_⟩
  · simp only [c1, c2, withVis_withVis]
  · rw [List.nodup_append]
    refine ⟨hv.filter _, (List.nodup_append.mp (List.nodup_append.mp hnd).1).1, ?_⟩
    intro a ha b hb hab
    subst hab
    exact hd a (List.mem_filter.mp ha).1 (hmem a (by simp [hb]))
  · rw [List.nodup_append]
    refine ⟨hv.filter _, (List.nodup_append.mp (List.nodup_append.mp hnd).1).2.1, ?_⟩
    intro a ha b hb hab
    subst hab
    exact hd a (List.mem_filter.mp ha).1 (hmem a (by simp [hb]))
  · exact (List.nodup_append.mp hnd).2.1

/-- `attach_spec` and `attach_nodup` describe the same lists -/
theorem attach_spec_nodup (eps100 : K) (pts : Array (V2 K)) (st : HullState K) (prevF nextF point removed : Nat)
    (hv : (visOf st removed).Nodup) (hu : st.und.toList.Nodup) (hd : ∀ v ∈ visOf st removed, v ∉ st.und) :
    ∃ (e1 e2 : List Nat) (und' : Array Nat),
      attach eps100 pts st prevF nextF point removed =
        { segs := ((relink st.segs prevF nextF).push (withVis (newF1 pts st prevF point) e1)).push
                    (withVis (newF2 pts st nextF point) e2), und := und' } ∧
      AttachProps eps100 pts st prevF nextF point removed e1 e2 und' ∧ e1.Nodup ∧ e2.Nodup ∧ und'.toList.Nodup := by
  obtain ⟨e1, e2, und', heq, hprops⟩ := attach_spec eps100 pts st prevF nextF point removed
  obtain ⟨e1', e2', und'', heq', n1, n2, n3⟩ := attach_nodup eps100 pts st prevF nextF point removed hv hu hd
  rw [heq] at heq'
  simp only [HullState.mk.injEq, Array.push_eq_push] at heq'
  obtain ⟨⟨h2, h1, _⟩, h3⟩ := heq'
  rw [← withVis_inj _ _ _ h1] at n1
  rw [← withVis_inj _ _ _ h2] at n2
  rw [← h3] at n3
  exact ⟨e1, e2, und', heq, hprops, n1, n2, n3⟩

/-- **partition invariant** (relative to the ghost set `live` of the chain): the visible lists of live facets and the
undecidable list are duplicate-free and pairwise disjoint, none of them contains a chain vertex, and distinct live facets
start at distinct point indices. -/
structure PartOK (st : HullState K) (live : Nat → Prop) : Prop where
  nodup_vis : ∀ (k : Nat) (g : SegFacet K), live k → st.segs[k]? = some g → g.visible.Nodup
  nodup_und : st.und.toList.Nodup
  disj_vis : ∀ (k k' : Nat) (g g' : SegFacet K), live k → live k' → k ≠ k' → st.segs[k]? = some g → st.segs[k']? = some g' →
    ∀ v ∈ g.visible, v ∉ g'.visible
  disj_und : ∀ (k : Nat) (g : SegFacet K), live k → st.segs[k]? = some g → ∀ v ∈ g.visible, v ∉ st.und
  vert_vis : ∀ (k k' : Nat) (g g' : SegFacet K), live k → live k' → st.segs[k]? = some g → st.segs[k']? = some g' →
    g'.p0 ∉ g.visible
  vert_und : ∀ (k : Nat) (g : SegFacet K), live k → st.segs[k]? = some g → g.p0 ∉ st.und
  vert_inj : ∀ (k k' : Nat) (g g' : SegFacet K), live k → live k' → st.segs[k]? = some g → st.segs[k']? = some g' →
    g.p0 = g'.p0 → k = k'

theorem stepState_new_lists (eps100 : K) (pts : Array (V2 K)) (st : HullState K) (i : Nat) (f : SegFacet K) (point : Nat)
    (hf : st.segs[i]? = some f) (hv : f.visible.Nodup) (hu : st.und.toList.Nodup) (hd : ∀ v ∈ f.visible, v ∉ st.und) :
    ∃ F1 F2 : SegFacet K,
      (stepState eps100 pts st i f point).segs[st.segs.size]? = some F1 ∧
      (stepState eps100 pts st i f point).segs[st.segs.size + 1]? = some F2 ∧
      F1.visible.Nodup ∧ F2.visible.Nodup ∧ (stepState eps100 pts st i f point).und.toList.Nodup ∧
      (∀ v ∈ F1.visible, (v ∈ f.visible ∧ v ≠ point) ∨ v ∈ st.und) ∧
      (∀ v ∈ F2.visible, (v ∈ f.visible ∧ v ≠ point) ∨ v ∈ st.und) ∧
      (∀ v ∈ (stepState eps100 pts st i f point).und, v ∈ st.und) ∧
      (∀ v ∈ F1.visible, v ∉ F2.visible) ∧
      (∀ v ∈ F1.visible, v ∉ (stepState eps100 pts st i f point).und) ∧
      (∀ v ∈ F2.visible, v ∉ (stepState eps100 pts st i f point).und) := by
  have hvis : visOf (invalidate st i) i = f.visible := by rw [invalidate_visOf, visOf, hf]; rfl
  obtain ⟨e1, e2, und', heq, ⟨p1, p2, p3, _, _, _⟩, n1, n2, n3⟩ :=
    attach_spec_nodup eps100 pts (invalidate st i) f.prev f.next point i (by rw [hvis]; exact hv) hu
      (by rw [hvis]; exact hd)
  rw [hvis] at p1 p2
  have hund : (stepState eps100 pts st i f point).und = und' := by rw [stepState, heq]
  refine ⟨withVis (newF1 pts (invalidate st i) f.prev point) e1, withVis (newF2 pts (invalidate st i) f.next point) e2,
    ?_, ?_, ?_, ?_, ?_, ?_, ?_, ?_, ?_, ?_, ?_⟩
  · rw [stepState, heq]; simp only [Array.getElem?_push, Array.size_push, relink_size, invalidate_size]; simp
  · rw [stepState, heq]; simp only [Array.getElem?_push, Array.size_push, relink_size, invalidate_size]; simp
  · simpa [withVis, newF1, SegFacet.new] using n1
  · simpa [withVis, newF2, SegFacet.new] using n2
  · rw [hund]; exact n3
  · intro v hv'
    have : v ∈ e1 := by simpa [withVis, newF1, SegFacet.new] using hv'
    exact (p1 v this).1
  · intro v hv'
    have : v ∈ e2 := by simpa [withVis, newF2, SegFacet.new] using hv'
    exact (p2 v this).1
  · intro v hv'; rw [hund] at hv'; exact (p3 v hv').1
  · intro v hv1 hv2
    have h1 : v ∈ e1 := by simpa [withVis, newF1, SegFacet.new] using hv1
    have h2 : v ∈ e2 := by simpa [withVis, newF2, SegFacet.new] using hv2
    have := (p1 v h1).2
    rw [(p2 v h2).2.2] at this; cases this
  · intro v hv1 hv2
    have h1 : v ∈ e1 := by simpa [withVis, newF1, SegFacet.new] using hv1
    rw [hund] at hv2
    have := (p1 v h1).2
    rw [(p3 v hv2).2.1] at this; cases this
  · intro v hv1 hv2
    have h2 : v ∈ e2 := by simpa [withVis, newF2, SegFacet.new] using hv1
    rw [hund] at hv2
    have := (p2 v h2).2.1
    rw [(p3 v hv2).2.2] at this; cases this

theorem step_part (eps100 : K) (pts : Array (V2 K)) (st : HullState K) (live : Nat → Prop) (i : Nat) (f : SegFacet K)
    (point : Nat) (hc : ChainOK st live) (hp : PartOK st live) (hf : st.segs[i]? = some f) (hli : live i)
    (hmem : point ∈ f.visible) :
    PartOK (stepState eps100 pts st i f point) (fun k => (live k ∧ k ≠ i) ∨ k = st.segs.size ∨ k = st.segs.size + 1) := by
  obtain ⟨_, G1, G2, q1, q2, a1, _, b1, _⟩ := step_chain eps100 pts st live i f point hc hf hli
  obtain ⟨F1', F2', g1, g2, n1, n2, n3, s1, s2, s3, d12, d1u, d2u⟩ :=
    stepState_new_lists eps100 pts st i f point hf (hp.nodup_vis i f hli hf) hp.nodup_und (hp.disj_und i f hli hf)
  have eG1 : F1' = G1 := by rw [g1] at q1; exact Option.some.inj q1
  have eG2 : F2' = G2 := by rw [g2] at q2; exact Option.some.inj q2
  subst eG1; subst eG2
  -- classification of the facets of the new chain
  have cls : ∀ (k : Nat) (g : SegFacet K),
      ((live k ∧ k ≠ i) ∨ k = st.segs.size ∨ k = st.segs.size + 1) → (stepState eps100 pts st i f point).segs[k]? = some g →
      (live k ∧ k ≠ i ∧ ∃ g0 : SegFacet K, st.segs[k]? = some g0 ∧ g.visible = g0.visible ∧ g.p0 = g0.p0) ∨
      (k = st.segs.size ∧ g = F1') ∨ (k = st.segs.size + 1 ∧ g = F2') := by
    intro k g hk hg
    rcases hk with ⟨hk, hki⟩ | rfl | rfl
    · obtain ⟨g0, hg0⟩ : ∃ g0, st.segs[k]? = some g0 := ⟨_, Array.getElem?_eq_getElem (hc.lt k hk)⟩
      rw [stepState_get_old eps100 pts st i f point k g0 hg0] at hg
      cases hg
      exact Or.inl ⟨hk, hki, g0, hg0, rfl, rfl⟩
    · rw [g1] at hg; cases hg; exact Or.inr (Or.inl ⟨rfl, rfl⟩)
    · rw [g2] at hg; cases hg; exact Or.inr (Or.inr ⟨rfl, rfl⟩)
  -- a point of a new list comes from `f.visible` (and is not `point`) or from the old undecidable list
  have srcOld : ∀ (F : SegFacet K), (∀ v ∈ F.visible, (v ∈ f.visible ∧ v ≠ point) ∨ v ∈ st.und) →
      ∀ (k : Nat) (g0 : SegFacet K), live k → k ≠ i → st.segs[k]? = some g0 → ∀ v ∈ F.visible, v ∉ g0.visible := by
    intro F hF k g0 hk hki hg0 v hv hv0
    rcases hF v hv with ⟨h, _⟩ | h
    · exact hp.disj_vis i k f g0 hli hk (Ne.symm hki) hf hg0 v h hv0
    · exact hp.disj_und k g0 hk hg0 v hv0 h
  have srcVert : ∀ (F : SegFacet K), (∀ v ∈ F.visible, (v ∈ f.visible ∧ v ≠ point) ∨ v ∈ st.und) →
      ∀ (k : Nat) (g0 : SegFacet K), live k → st.segs[k]? = some g0 → g0.p0 ∉ F.visible := by
    intro F hF k g0 hk hg0 hv
    rcases hF _ hv with ⟨h, _⟩ | h
    · exact hp.vert_vis i k f g0 hli hk hf hg0 h
    · exact hp.vert_und k g0 hk hg0 h
  have srcPoint : ∀ (F : SegFacet K), (∀ v ∈ F.visible, (v ∈ f.visible ∧ v ≠ point) ∨ v ∈ st.und) → point ∉ F.visible := by
    intro F hF hv
    rcases hF _ hv with ⟨_, h⟩ | h
    · exact h rfl
    · exact hp.disj_und i f hli hf point hmem h
  have pointOld : ∀ (k : Nat) (g0 : SegFacet K), live k → k ≠ i → st.segs[k]? = some g0 → point ∉ g0.visible :=
    fun k g0 hk hki hg0 => hp.disj_vis i k f g0 hli hk (Ne.symm hki) hf hg0 point hmem
  have pointVert : ∀ (k : Nat) (g0 : SegFacet K), live k → st.segs[k]? = some g0 → g0.p0 ≠ point := by
    intro k g0 hk hg0 e
    exact hp.vert_vis i k f g0 hli hk hf hg0 (e ▸ hmem)
  refine ⟨?_, n3, ?_, ?_, ?_, ?_, ?_⟩
  · -- nodup_vis
    intro k g hk hg
    rcases cls k g hk hg with ⟨hk, _, g0, hg0, ev, _⟩ | ⟨_, rfl⟩ | ⟨_, rfl⟩
    · rw [ev]; exact hp.nodup_vis k g0 hk hg0
    · exact n1
    · exact n2
  · -- disj_vis
    intro k k' g g' hk hk' hne hg hg' v hv hv'
    rcases cls k g hk hg with ⟨hk, hki, g0, hg0, ev, _⟩ | ⟨rfl, rfl⟩ | ⟨rfl, rfl⟩ <;>
    rcases cls k' g' hk' hg' with ⟨hk', hki', g0', hg0', ev', _⟩ | ⟨rfl, rfl⟩ | ⟨rfl, rfl⟩
    · rw [ev] at hv; rw [ev'] at hv'
      exact hp.disj_vis k k' g0 g0' hk hk' hne hg0 hg0' v hv hv'
    · rw [ev] at hv; exact srcOld _ s1 k g0 hk hki hg0 v hv' hv
    · rw [ev] at hv; exact srcOld _ s2 k g0 hk hki hg0 v hv' hv
    · rw [ev'] at hv'; exact srcOld _ s1 k' g0' hk' hki' hg0' v hv hv'
    · exact hne rfl
    · exact d12 v hv hv'
    · rw [ev'] at hv'; exact srcOld _ s2 k' g0' hk' hki' hg0' v hv hv'
    · exact d12 v hv' hv
    · exact hne rfl
  · -- disj_und
    intro k g hk hg v hv hvu
    rcases cls k g hk hg with ⟨hk, _, g0, hg0, ev, _⟩ | ⟨_, rfl⟩ | ⟨_, rfl⟩
    · rw [ev] at hv; exact hp.disj_und k g0 hk hg0 v hv (s3 v hvu)
    · exact d1u v hv hvu
    · exact d2u v hv hvu
  · -- vert_vis
    intro k k' g g' hk hk' hg hg' hv
    rcases cls k g hk hg with ⟨hk, hki, g0, hg0, ev, _⟩ | ⟨rfl, rfl⟩ | ⟨rfl, rfl⟩ <;>
    rcases cls k' g' hk' hg' with ⟨hk', hki', g0', hg0', _, ep'⟩ | ⟨rfl, rfl⟩ | ⟨rfl, rfl⟩
    · rw [ev, ep'] at hv; exact hp.vert_vis k k' g0 g0' hk hk' hg0 hg0' hv
    · rw [ev, a1] at hv; exact hp.vert_vis k i g0 f hk hli hg0 hf hv
    · rw [ev, b1] at hv; exact pointOld k g0 hk hki hg0 hv
    · rw [ep'] at hv; exact srcVert _ s1 k' g0' hk' hg0' hv
    · rw [a1] at hv; exact srcVert _ s1 i f hli hf hv
    · rw [b1] at hv; exact srcPoint _ s1 hv
    · rw [ep'] at hv; exact srcVert _ s2 k' g0' hk' hg0' hv
    · rw [a1] at hv; exact srcVert _ s2 i f hli hf hv
    · rw [b1] at hv; exact srcPoint _ s2 hv
  · -- vert_und
    intro k g hk hg hvu
    have hvu' := s3 _ hvu
    rcases cls k g hk hg with ⟨hk, _, g0, hg0, _, ep⟩ | ⟨_, rfl⟩ | ⟨_, rfl⟩
    · rw [ep] at hvu'; exact hp.vert_und k g0 hk hg0 hvu'
    · rw [a1] at hvu'; exact hp.vert_und i f hli hf hvu'
    · rw [b1] at hvu'; exact hp.disj_und i f hli hf point hmem hvu'
  · -- vert_inj
    intro k k' g g' hk hk' hg hg' e
    rcases cls k g hk hg with ⟨hk, hki, g0, hg0, _, ep⟩ | ⟨rfl, rfl⟩ | ⟨rfl, rfl⟩ <;>
    rcases cls k' g' hk' hg' with ⟨hk', hki', g0', hg0', _, ep'⟩ | ⟨rfl, rfl⟩ | ⟨rfl, rfl⟩
    · rw [ep, ep'] at e; exact hp.vert_inj k k' g0 g0' hk hk' hg0 hg0' e
    · rw [ep, a1] at e; exact absurd (hp.vert_inj k i g0 f hk hli hg0 hf e) hki
    · rw [ep, b1] at e; exact absurd e (pointVert k g0 hk hg0)
    · rw [ep', a1] at e; exact absurd (hp.vert_inj k' i g0' f hk' hli hg0' hf e.symm) hki'
    · rfl
    · rw [a1, b1] at e; exact absurd e (pointVert i f hli hf)
    · rw [ep', b1] at e; exact absurd e.symm (pointVert k' g0' hk' hg0')
    · rw [a1, b1] at e; exact absurd e.symm (pointVert i f hli hf)
    · rfl

theorem initialPolyline_part (negMax eps100 : K) (pts : Array (V2 K)) (st : HullState K)
    (h : initialPolyline negMax eps100 pts = some st) : PartOK st (fun k => k < 2) := by
  obtain ⟨p1, p2, hsz, hp1, hp2, hne, rfl⟩ := initialPolyline_eq_some negMax eps100 pts st h
  generalize hN1 : SegFacet.new p1 p2 1 1 pts = N1
  generalize hN2 : SegFacet.new p2 p1 0 0 pts = N2
  have v1 : (withVis N1 ((List.range pts.size).filter (isel1 eps100 pts p1 p2 N1))).visible =
      (List.range pts.size).filter (isel1 eps100 pts p1 p2 N1) := by rw [← hN1]; simp [withVis, SegFacet.new]
  have v2 : (withVis N2 ((List.range pts.size).filter (isel2 eps100 pts p1 p2 N1 N2))).visible =
      (List.range pts.size).filter (isel2 eps100 pts p1 p2 N1 N2) := by rw [← hN2]; simp [withVis, SegFacet.new]
  have e1 : (withVis N1 ((List.range pts.size).filter (isel1 eps100 pts p1 p2 N1))).p0 = p1 := by rw [← hN1]; rfl
  have e2 : (withVis N2 ((List.range pts.size).filter (isel2 eps100 pts p1 p2 N1 N2))).p0 = p2 := by rw [← hN2]; rfl
  have m1 : ∀ v, v ∈ (List.range pts.size).filter (isel1 eps100 pts p1 p2 N1) →
      v ≠ p1 ∧ v ≠ p2 ∧ N1.canBeSeenBy eps100 v pts = true := by
    intro v hv; have := (List.mem_filter.mp hv).2
    simp only [isel1, Bool.and_eq_true, bne_iff_ne, ne_eq] at this; exact ⟨this.1.1, this.1.2, this.2⟩
  have m2 : ∀ v, v ∈ (List.range pts.size).filter (isel2 eps100 pts p1 p2 N1 N2) →
      v ≠ p1 ∧ v ≠ p2 ∧ N1.canBeSeenBy eps100 v pts = false ∧ N2.canBeSeenBy eps100 v pts = true := by
    intro v hv; have := (List.mem_filter.mp hv).2
    simp only [isel2, Bool.and_eq_true, bne_iff_ne, ne_eq, Bool.not_eq_true'] at this
    exact ⟨this.1.1.1, this.1.1.2, this.1.2, this.2⟩
  have m3 : ∀ v, v ∈ ((List.range pts.size).filter (isel3 eps100 pts p1 p2 N1 N2)).toArray →
      v ≠ p1 ∧ v ≠ p2 ∧ N1.canBeSeenBy eps100 v pts = false ∧ N2.canBeSeenBy eps100 v pts = false := by
    intro v hv; have := (List.mem_filter.mp (List.mem_toArray.mp hv)).2
    simp only [isel3, Bool.and_eq_true, bne_iff_ne, ne_eq, Bool.not_eq_true'] at this
    exact ⟨this.1.1.1, this.1.1.2, this.1.2, this.2⟩
  refine ⟨?_, ?_, ?_, ?_, ?_, ?_, ?_⟩
  · intro k g _ hg
    rcases two_get _ _ k g hg with ⟨_, rfl⟩ | ⟨_, rfl⟩
    · rw [v1]; exact List.nodup_range.filter _
    · rw [v2]; exact List.nodup_range.filter _
  · exact List.nodup_range.filter _
  · intro k k' g g' _ _ hne' hg hg' v hv hv'
    rcases two_get _ _ k g hg with ⟨rfl, rfl⟩ | ⟨rfl, rfl⟩ <;> rcases two_get _ _ k' g' hg' with ⟨rfl, rfl⟩ | ⟨rfl, rfl⟩
    · exact hne' rfl
    · rw [v1] at hv; rw [v2] at hv'; have := (m1 v hv).2.2; rw [(m2 v hv').2.2.1] at this; cases this
    · rw [v2] at hv; rw [v1] at hv'; have := (m1 v hv').2.2; rw [(m2 v hv).2.2.1] at this; cases this
    · exact hne' rfl
  · intro k g _ hg v hv hvu
    rcases two_get _ _ k g hg with ⟨_, rfl⟩ | ⟨_, rfl⟩
    · rw [v1] at hv; have := (m1 v hv).2.2; rw [(m3 v hvu).2.2.1] at this; cases this
    · rw [v2] at hv; have := (m2 v hv).2.2.2; rw [(m3 v hvu).2.2.2] at this; cases this
  · intro k k' g g' _ _ hg hg' hv
    rcases two_get _ _ k g hg with ⟨_, rfl⟩ | ⟨_, rfl⟩ <;> rcases two_get _ _ k' g' hg' with ⟨_, rfl⟩ | ⟨_, rfl⟩
    · rw [v1, e1] at hv; exact (m1 _ hv).1 rfl
    · rw [v1, e2] at hv; exact (m1 _ hv).2.1 rfl
    · rw [v2, e1] at hv; exact (m2 _ hv).1 rfl
    · rw [v2, e2] at hv; exact (m2 _ hv).2.1 rfl
  · intro k g _ hg hvu
    rcases two_get _ _ k g hg with ⟨_, rfl⟩ | ⟨_, rfl⟩
    · rw [e1] at hvu; exact (m3 _ hvu).1 rfl
    · rw [e2] at hvu; exact (m3 _ hvu).2.1 rfl
  · intro k k' g g' _ _ hg hg' e
    rcases two_get _ _ k g hg with ⟨rfl, rfl⟩ | ⟨rfl, rfl⟩ <;> rcases two_get _ _ k' g' hg' with ⟨rfl, rfl⟩ | ⟨rfl, rfl⟩
    · rfl
    · rw [e1, e2] at e; exact absurd e hne
    · rw [e1, e2] at e; exact absurd e.symm hne
    · rfl

theorem hullLoop_part (negMax eps100 : K) (pts : Array (V2 K)) (fuel i : Nat) (st : HullState K)
    (h : ∃ live, ChainOK st live ∧ PartOK st live) :
    ∃ live, ChainOK (hullLoop negMax eps100 pts fuel i st) live ∧ PartOK (hullLoop negMax eps100 pts fuel i st) live := by
  refine hullLoop_induct' negMax eps100 pts (fun s => ∃ live, ChainOK s live ∧ PartOK s live) ?_ fuel i st h
  rintro s i f point ⟨live, hc, hp⟩ hf hv hsup
  have hli := hc.valid_live i f hf hv
  exact ⟨_, (step_chain eps100 pts s live i f point hc hf hli).1,
    step_part eps100 pts s live i f point hc hp hf hli (support_mem negMax f.normal pts f.visible point hsup).1⟩

theorem nodup_filterMap_on {α β : Type} (l : List α) (f : α → Option β) (hl : l.Nodup)
    (H : ∀ a ∈ l, ∀ a' ∈ l, ∀ b, f a = some b → f a' = some b → a = a') : (l.filterMap f).Nodup := by
  induction l with
  | nil => simp
  | cons a l ih =>
    have hl' := List.nodup_cons.mp hl
    have ih' := ih hl'.2 (fun x hx y hy b => H x (List.mem_cons_of_mem _ hx) y (List.mem_cons_of_mem _ hy) b)
    cases hfa : f a with
    | none => rw [List.filterMap_cons_none hfa]; exact ih'
    | some b =>
      rw [List.filterMap_cons_some hfa, List.nodup_cons]
      refine ⟨?_, ih'⟩
      intro hb
      obtain ⟨a', ha', hfa'⟩ := List.mem_filterMap.mp hb
      have := H a List.mem_cons_self a' (List.mem_cons_of_mem _ ha') b hfa hfa'
      exact hl'.1 (this ▸ ha')
end C12
