import ParryModel.Proto
import ParryModel.C12.Model
import ParryModel.C12.ModelPoly
import Std.Data.HashMap
/-!
C12 follow-up oracles (exact rational arithmetic on the implementation's output):

* `polyOracle`   — every table of a `ConvexPolyhedron` (faces, edges with their two faces, vertex → face adjacency,
                   `feature_normal` of every `FeatureId`) is judged for mutual consistency and against the geometry;
* `scaleOracle`  — the hull of `2^k · P` is `2^k ·` the hull of `P` (same vertices in the same order, same triangles);
* `fullDim`      — an exact "clearly full-dimensional" test used to refuse an error / a flat mesh for a thick cloud.
-/
namespace C12
open Model Proto

/-- result of one `feature_normal` call: a vector, a caught panic (`x x x`) or `None` (`n n n`) -/
inductive N3 where
  | val (v : V3 Float)
  | panic
  | none

def ptag (s : String) : P Unit := do let t ← tok; if t = s then pure () else failure
def pv3o : P (V3 Float) := do let x ← pfo; let y ← pfo; let z ← pfo; pure ⟨x, y, z⟩
def pn3 : P N3 := do
  let t ← tok
  if t = "x" then do let _ ← tok; let _ ← tok; pure N3.panic
  else if t = "n" then do let _ ← tok; let _ ← tok; pure N3.none
  else do
    let x ← (if t = "nan" then pure (0.0 / 0.0) else match FloatIO.ofHex? t with | some x => pure x | none => failure)
    let y ← pfo; let z ← pfo; pure (N3.val ⟨x, y, z⟩)

/-- the dump printed by `dump_poly` (harness/src/c12.rs) -/
structure PolyDump where
  pts : Array (V3 Float)
  faces : Array (Nat × Nat × V3 Float)
  edges : Array (Nat × Nat × Nat × Nat × V3 Float)
  verts : Array (Nat × Nat)
  vf : Array Nat
  ef : Array Nat
  fv : Array Nat
  nf : Array N3
  ne : Array N3
  nv : Array N3

def pdump : P PolyDump := do
  ptag "P"; let pts ← plist pv3o
  ptag "F"; let faces ← plist (do let a ← pnat; let b ← pnat; let n ← pv3o; pure (a, b, n))
  ptag "E"; let edges ← plist (do let a ← pnat; let b ← pnat; let c ← pnat; let d ← pnat; let n ← pv3o; pure (a, b, c, d, n))
  ptag "V"; let verts ← plist (do let a ← pnat; let b ← pnat; pure (a, b))
  ptag "VF"; let vf ← plist pnat
  ptag "EF"; let ef ← plist pnat
  ptag "FV"; let fv ← plist pnat
  ptag "NF"; let nf ← plist pn3
  ptag "NE"; let ne ← plist pn3
  ptag "NV"; let nv ← plist pn3
  pure ⟨pts.toArray, faces.toArray, edges.toArray, verts.toArray, vf.toArray, ef.toArray, fv.toArray, nf.toArray, ne.toArray, nv.toArray⟩

def zero3 : V3 Rat := ⟨0, 0, 0⟩
def sliceOf (a : Array Nat) (first num : Nat) : List Nat := (a.extract first (first + num)).toList
def eq3 (a b : V3 Rat) : Bool := a.x == b.x && a.y == b.y && a.z == b.z

/-- squared diagonal of the bounding box -/
def diag2Of (P : List (V3 Rat)) : Rat :=
  let lo := P.foldl (fun m p => (⟨min m.x p.x, min m.y p.y, min m.z p.z⟩ : V3 Rat)) (P.headD zero3)
  let hi := P.foldl (fun m p => (⟨max m.x p.x, max m.y p.y, max m.z p.z⟩ : V3 Rat)) (P.headD zero3)
  (hi.sub lo).normSq

/-- the classification that keys the known finding of `hull3`: a large axis-aligned coplanar subset -/
def isLatticeCloud (P : List (V3 Rat)) : Bool :=
  let countMax (f : V3 Rat → Rat) : Nat :=
    let m : Std.HashMap (Int × Nat) Nat := P.foldl (fun m p => let k := ((f p).num, (f p).den); m.insert k (m.getD k 0 + 1)) {}
    m.fold (fun acc _ v => max acc v) 0
  max (countMax (·.x)) (max (countMax (·.y)) (countMax (·.z))) ≥ 16

/-- rotation-invariant form of the same classification: some plane through three of the given (hull) vertices contains at
least five *distinct* input points within `1e-9 · diag` — a generic cloud has exactly three on every such plane.
`planes`: (point, exact normal) of the candidate planes (the non-sliver faces of the returned mesh). -/
def hasCoplanarSubset (P : List (V3 Rat)) (planes : List (V3 Rat × V3 Rat)) : Bool :=
  let diag2 := diag2Of P
  let lim : Rat := diag2 / 1000000000000000000
  let D : List (V3 Rat) := ((P.map fun p => (p.x, p.y, p.z)).eraseDups).map fun (x, y, z) => ⟨x, y, z⟩
  planes.any fun (a, n) =>
    (D.filter fun p => let t := n.dot (p.sub a); t * t ≤ lim * n.normSq).length ≥ 5

/-- `true` when the cloud is clearly full-dimensional: a tetrahedron `a b c d` chosen greedily (first point, farthest point,
farthest from the line, farthest from the plane) has base height and tetrahedron height at least `1e-3 · diag`. -/
def fullDim (P : List (V3 Rat)) : Bool :=
  match P with
  | [] => false
  | a :: _ =>
    let far (f : V3 Rat → Rat) : V3 Rat := P.foldl (fun m p => if f p > f m then p else m) a
    let b := far fun p => (p.sub a).normSq
    let ab := b.sub a
    let c := far fun p => (ab.cross (p.sub a)).normSq
    let n := ab.cross (c.sub a)
    let d := far fun p => let t := n.dot (p.sub a); t * t
    let h := n.dot (d.sub a)
    let diag2 := diag2Of P
    let lim : Rat := 1 / 1000000
    diag2 > 0 && n.normSq > lim * diag2 * ab.normSq && h * h > lim * diag2 * n.normSq

/-- `v` is a unit vector within 1e-9 -/
def isUnit (v : V3 Rat) : Bool := rabs (v.normSq - 1) ≤ (1 / 1000000000 : Rat)
/-- `v` is parallel to `s` (angle below 1e-9) and points the same way -/
def alignedWith (v s : V3 Rat) : Bool :=
  let c := v.cross s
  v.dot s > 0 && c.normSq * 1000000000000000000 ≤ s.normSq * v.normSq

/-- Exact judgement of a `ConvexPolyhedron`.
`input`: the cloud given to `from_convex_hull` (every input point must be enclosed, every vertex must be an input point),
or `none` when the polyhedron was built from an explicit mesh. -/
def polyOracle (input : Option (List (V3 Rat))) (d : PolyDump) : String := Id.run do
  let np := d.pts.size; let nf := d.faces.size; let ne := d.edges.size
  if !(d.pts.all finite3) then return "fail nonfinite-point"
  if !(d.faces.all fun (_, _, n) => finite3 n) then return "fail nonfinite-face-normal"
  if !(d.edges.all fun (_, _, _, _, n) => finite3 n) then return "fail nonfinite-edge-dir"
  let P := d.pts.map q3
  let pt (i : Nat) : V3 Rat := (P[i]?).getD zero3
  if d.verts.size != np || d.nv.size != np || d.nf.size != nf || d.ne.size != ne || d.vf.size != d.ef.size then
    return "fail table-size-mismatch"
  if nf < 4 then return s!"fail fewer-than-4-faces {nf}"
  -- index validity of the face → vertex / edge slices
  if d.faces.any (fun (first, num, _) => first + num > d.vf.size) then return "fail face-slice-out-of-range"
  if d.faces.any (fun (_, num, _) => num < 3) then return "fail face-with-fewer-than-3-vertices"
  if d.vf.any (· ≥ np) then return "fail face-vertex-out-of-range"
  if d.ef.any (· ≥ ne) then return "fail face-edge-out-of-range"
  let fverts (f : Nat) : List Nat := match d.faces[f]? with | some (first, num, _) => sliceOf d.vf first num | none => []
  let fedges (f : Nat) : List Nat := match d.faces[f]? with | some (first, num, _) => sliceOf d.ef first num | none => []
  let fnormal (f : Nat) : V3 Rat := match d.faces[f]? with | some (_, _, n) => q3 n | none => zero3
  let all := match input with | some I => I ++ P.toList | none => P.toList
  let diag2 := diag2Of all
  if diag2 == 0 then return "fail all-points-coincide"
  let tol2 : Rat := diag2 / 100000000000000        -- (1e-7 · diag)²
  -- a face whose contour vertices are collinear within 1e-7·diag is a sliver: its plane, hence its "outward unit normal", is
  -- not determined by its vertices (the 3-D quickhull emits such triangles when three hull vertices are collinear up to rounding)
  for f in List.range nf do
    let vs := fverts f
    let a := pt (vs.headD 0)
    let b := vs.foldl (fun m v => if ((pt v).sub a).normSq > (m.sub a).normSq then pt v else m) a
    let ab := b.sub a
    if vs.all (fun v => (ab.cross ((pt v).sub a)).normSq ≤ tol2 * ab.normSq) then
      return s!"fail sliver-face[collinear-hull-vertices] face={f}"
  -- (0) vertices come from the input; the polytope encloses every input point and every own point (convexity)
  match input with
  | some I =>
    let inSet : Std.HashMap (Int × Int × Int × Int × Int × Int) Unit :=
      I.foldl (fun m p => m.insert (p.x.num, p.x.den, p.y.num, p.y.den, p.z.num, p.z.den) ()) {}
    if P.any (fun p => !(inSet.contains (p.x.num, p.x.den, p.y.num, p.y.den, p.z.num, p.z.den))) then
      return "fail vertex-not-an-input-point"
  | none => pure ()
  for f in List.range nf do
    let n := fnormal f
    let a := pt ((fverts f).headD 0)
    for p in all do
      let t := n.dot (p.sub a)
      if t > 0 && t * t > tol2 * n.normSq then
        -- a non-convex hull is the 3-D quickhull's fault (known finding on lattice clouds), judged by `hull3` on the same cloud
        if (match input with | some I => isLatticeCloud I | none => false) then
          return "skip hull-not-convex[coplanar-lattice-cloud]-judged-by-hull3"
        let planes := (List.range nf).map fun g => (pt ((fverts g).headD 0), fnormal g)
        if (match input with | some I => hasCoplanarSubset I planes | none => false) then
          return "skip hull-not-convex[coplanar-subset-cloud]-judged-by-hull3"
        return s!"fail point-outside-face face={f} ({p.x},{p.y},{p.z})"
  -- (1) edges: vertices and faces in range
  for e in List.range ne do
    match d.edges[e]? with
    | some (v0, v1, f0, f1, _) =>
      if v0 ≥ np || v1 ≥ np || v0 == v1 then return s!"fail edge-vertices-invalid edge={e}"
      if f0 ≥ nf || f1 ≥ nf then return s!"fail edge-face-out-of-range edge={e} faces=[{f0},{f1}] nfaces={nf}"
    | none => pure ()
  -- (2) every face contour: distinct vertices, edge k joins vertex k and k+1 and is linked to this face and to another one
  for f in List.range nf do
    let vs := fverts f; let es := fedges f; let m := vs.length
    if vs.eraseDups.length != m then return s!"fail face-repeats-a-vertex face={f}"
    for k in List.range m do
      let a := (vs[k]?).getD 0; let b := (vs[(k + 1) % m]?).getD 0; let e := (es[k]?).getD 0
      match d.edges[e]? with
      | some (v0, v1, f0, f1, _) =>
        if !((v0 == a && v1 == b) || (v0 == b && v1 == a)) then return s!"fail face-edge-does-not-join-its-vertices face={f} k={k}"
        if f0 != f && f1 != f then return s!"fail contour-edge-not-linked-to-its-face face={f} edge={e} faces=[{f0},{f1}]"
        if f0 == f1 then return s!"fail contour-edge-has-the-same-face-on-both-sides face={f} edge={e}"
      | none => pure ()
  -- (3) conversely: an edge with two different faces lies on the contour of exactly those two; an edge with twice the same
  --     face (a diagonal of a merged face) lies on no contour and both its end points lie in that face's plane
  let occ : Array (List Nat) := (List.range nf).foldl (fun (acc : Array (List Nat)) f =>
    (fedges f).foldl (fun acc e => acc.modify e (fun l => l ++ [f])) acc) (Array.replicate ne [])
  for e in List.range ne do
    match d.edges[e]? with
    | some (v0, v1, f0, f1, _) =>
      let o := (occ[e]?).getD []
      if f0 != f1 then
        if !(o == [min f0 f1, max f0 f1]) then return s!"fail edge-faces-are-not-the-faces-it-borders edge={e} faces=[{f0},{f1}] on-contour-of={o}"
      else
        if !(o == []) then return s!"fail diagonal-edge-on-a-contour edge={e}"
        let n := fnormal f0; let a := pt ((fverts f0).headD 0)
        for v in [v0, v1] do
          let t := n.dot ((pt v).sub a)
          if t * t > tol2 * n.normSq then return s!"fail diagonal-edge-leaves-its-face edge={e} face={f0}"
    | none => pure ()
  -- (4) vertex → faces: the listed faces are exactly the faces whose contour contains the vertex
  let expv : Array (List Nat) := (List.range nf).foldl (fun (acc : Array (List Nat)) f =>
    (fverts f).foldl (fun acc v => acc.modify v (fun l => l ++ [f])) acc) (Array.replicate np [])
  for v in List.range np do
    match d.verts[v]? with
    | some (first, num) =>
      if first + num > d.fv.size then return s!"fail vertex-slice-out-of-range vertex={v}"
      let got := (sliceOf d.fv first num).mergeSort
      if !(got == (expv[v]?).getD []) then return s!"fail vertex-face-adjacency-mismatch vertex={v} listed={got} contours={(expv[v]?).getD []}"
    | none => pure ()
  -- (5) Euler's formula on (vertices on a contour, edges with two different faces, faces)
  let V : Int := (expv.toList.filter (· != [])).length
  let E : Int := (d.edges.toList.filter fun (_, _, f0, f1, _) => f0 != f1).length
  if V - E + (nf : Int) != 2 then return s!"fail euler-characteristic V={V} E={E} F={nf}"
  -- (6) face geometry: unit normal, planar, counter-clockwise seen from outside, convex
  for f in List.range nf do
    let n := fnormal f; let vs := fverts f; let m := vs.length
    if !(isUnit n) then return s!"fail face-normal-not-unit face={f}"
    let a := pt (vs.headD 0)
    for v in vs do
      let t := n.dot ((pt v).sub a)
      if t * t > tol2 * n.normSq then
        -- coplanar-face merging accepts normals with dot > 1 - sqrt(eps), i.e. a fold of up to ~1.7e-4 rad
        let shallow := t * t * 4000000 ≤ diag2 * n.normSq
        return s!"fail face-not-planar{if shallow then "[merged-nearly-coplanar-triangles]" else ""} face={f} vertex={v}"
    let newell := (List.range m).foldl (fun (s : V3 Rat) k =>
      s.add (((pt ((vs[k]?).getD 0)).sub a).cross ((pt ((vs[(k + 1) % m]?).getD 0)).sub a))) zero3
    if !(newell.dot n > 0) then return s!"fail face-not-counter-clockwise-from-outside face={f}"
    for k in List.range m do
      let p0 := pt ((vs[k]?).getD 0); let p1 := pt ((vs[(k + 1) % m]?).getD 0); let p2 := pt ((vs[(k + 2) % m]?).getD 0)
      let u := p1.sub p0; let w := p2.sub p1
      let c := (u.cross w).dot n
      if c < 0 && c * c * 100000000000000 > u.normSq * w.normSq * n.normSq then return s!"fail face-reflex-corner face={f} k={k}"
  -- (7) edge directions
  for e in List.range ne do
    match d.edges[e]? with
    | some (v0, v1, _, _, dir) =>
      let dv := (pt v1).sub (pt v0)
      if dv.normSq > 0 then
        let dq := q3 dir
        if !(isUnit dq && alignedWith dq dv) then return s!"fail edge-dir-does-not-match-its-vertices edge={e}"
    | none => pure ()
  -- (8) feature normals
  for f in List.range nf do
    match d.nf[f]? with
    | some (N3.val v) => if !(finite3 v && eq3 (q3 v) (fnormal f)) then return s!"fail face-feature-normal face={f}"
    | _ => return s!"fail face-feature-normal-missing face={f}"
  for e in List.range ne do
    match d.edges[e]?, d.ne[e]? with
    | some (_, _, f0, f1, _), some r =>
      match r with
      | N3.panic => return s!"fail edge-feature-normal-panics edge={e}"
      | N3.none => return s!"fail edge-feature-normal-none edge={e}"
      | N3.val v =>
        if !(finite3 v) then return s!"fail edge-feature-normal-nan edge={e}"
        let s := (fnormal f0).add (fnormal f1)
        if !(isUnit (q3 v) && alignedWith (q3 v) s) then return s!"fail edge-feature-normal-is-not-the-mean-of-its-faces edge={e}"
    | _, _ => pure ()
  for v in List.range np do
    let fs := (expv[v]?).getD []
    match d.nv[v]? with
    | some N3.panic => return s!"fail vertex-feature-normal-panics vertex={v}"
    | some N3.none => if fs != [] then return s!"fail vertex-feature-normal-none vertex={v}"
    | some (N3.val w) =>
      if fs == [] then
        -- a point of the hull mesh that lies inside a merged face (on no contour) has no adjacent face: no normal exists
        return s!"fail vertex-feature-normal-of-a-point-on-no-face-contour vertex={v} {if finite3 w then "value" else "nan"}"
      if !(finite3 w) then return s!"fail vertex-feature-normal-nan vertex={v}"
      let s := fs.foldl (fun (s : V3 Rat) f => s.add (fnormal f)) zero3
      if !(isUnit (q3 w) && alignedWith (q3 w) s) then return s!"fail vertex-feature-normal-is-not-the-mean-of-its-faces vertex={v}"
    | none => pure ()
  return "pass"

/-- exact manifold test of an explicit triangle mesh: indices in range, no repeated index in a triangle, every directed edge
used once and its opposite used once -/
def closedManifold (np : Nat) (tris : List (Nat × Nat × Nat)) : Bool :=
  let edges := tris.flatMap fun (a, b, c) => [(a, b), (b, c), (c, a)]
  let em : Std.HashMap (Nat × Nat) Nat := edges.foldl (fun m e => m.insert e (m.getD e 0 + 1)) {}
  tris.all (fun (a, b, c) => a < np && b < np && c < np && a != b && b != c && a != c) &&
  edges.all fun (a, b) => em.getD (a, b) 0 == 1 && em.getD (b, a) 0 == 1

def pmesh3' : P (List (V3 Float) × List (Nat × Nat × Nat)) := do
  let pts ← plist pv3o
  let tris ← plist (do let a ← pnat; let b ← pnat; let c ← pnat; pure (a, b, c))
  pure (pts, tris)

/-- hull(2^k · P) against hull(P): same number of vertices, vertex i scaled exactly, identical triangles -/
def scaleOracle (k : Int) (o : List String) : String :=
  let a := o.takeWhile (· ≠ ";"); let b := (o.dropWhile (· ≠ ";")).drop 1
  match a, b with
  | "err" :: ea, "err" :: eb => if ea == eb then "skip both-runs-report-the-same-error" else "fail error-changes-with-scale"
  | "err" :: _, _ => "fail error-at-one-scale-only"
  | _, "err" :: _ => "fail error-at-one-scale-only"
  | _, _ =>
    match run pmesh3' a, run pmesh3' b with
    | some (h1, t1), some (h2, t2) =>
      if !(h1.all finite3 && h2.all finite3) then "fail nonfinite-vertex" else
      let s : Rat := if k ≥ 0 then ((2 ^ k.toNat : Nat) : Rat) else 1 / ((2 ^ (-k).toNat : Nat) : Rat)
      if h1.length != h2.length then s!"fail hull-vertex-count-changes-with-scale {h1.length} vs {h2.length}" else
      if t1.length != t2.length then s!"fail hull-face-count-changes-with-scale {t1.length} vs {t2.length}" else
      if !((h1.zip h2).all fun (p, p') => eq3 ((q3 p).smul s) (q3 p')) then "fail hull-vertices-change-with-scale" else
      if !(t1 == t2) then "fail hull-faces-change-with-scale" else "pass"
    | _, _ => "fail unparsable-output"

/-! ## model side: print a `Poly Float` exactly like `dump_poly` -/

def fo3 (o : Option (V3 Float)) : String := match o with | some v => fv3 v | none => "x x x"

def dumpPoly (p : Poly Float) : String :=
  let ids (a : Array Nat) : List String := toString a.size :: a.toList.map toString
  let nfs := (List.range p.faces.size).map fun i => fo3 (faceNormal p i)
  let nes := (List.range p.edges.size).map fun i => fo3 (edgeNormal p i)
  let nvs := (List.range p.vertices.size).map fun i =>
    match vertexNormal p i with
    | none => "x x x"
    | some none => "n n n"
    | some (some v) => fv3 v
  String.intercalate " " (
    ["P", toString p.pts.size] ++ p.pts.toList.map fv3 ++
    ["F", toString p.faces.size] ++ p.faces.toList.map (fun f => s!"{f.first} {f.num} {fv3 f.normal}") ++
    ["E", toString p.edges.size] ++ p.edges.toList.map (fun e => s!"{e.v0} {e.v1} {e.f0} {e.f1} {fv3 e.dir}") ++
    ["V", toString p.vertices.size] ++ p.vertices.toList.map (fun v => s!"{v.first} {v.num}") ++
    ["VF"] ++ ids p.verticesAdjToFace ++ ["EF"] ++ ids p.edgesAdjToFace ++ ["FV"] ++ ids p.facesAdjToVertex ++
    ["NF", toString p.faces.size] ++ nfs ++ ["NE", toString p.edges.size] ++ nes ++ ["NV", toString p.vertices.size] ++ nvs)

def polyModel (pts : List (V3 Float)) (tris : List (Nat × Nat × Nat)) : String :=
  match fromConvexMesh pts.toArray tris with
  | .ok p => dumpPoly p
  | .none => "none"
  | .panic => "panic"
  | .hang => "hang"

def ptris : P (List (Nat × Nat × Nat)) := plist (do let a ← pnat; let b ← pnat; let c ← pnat; pure (a, b, c))

end C12
