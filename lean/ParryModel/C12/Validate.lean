import ParryModel.Vec
import ParryModel.C12.Hull3
/-!
# C12 model: the maintainers' validator `transformation::check_convex_hull` (`convex_hull3/validation.rs`, public with `std`)

Literal transliteration: (1) the quadratic duplicate-point scan (`points[i] == points[j]` → panic), (2) for each triangle the three
`assert!(tri[a] != tri[b])`, then its three sides are entered in the edge map keyed by `SortedPair::new(v1, v2)`
(`Vacant` → `[itri, usize::MAX]`, `Occupied` with a free second slot → filled, `Occupied` with both slots → panic "t-junction"),
(3) an edge whose second slot is still `usize::MAX` → panic "unfinished triangle", (4) `assert_eq!(V + F - E, 2)` (a `usize`
underflow panics in debug and wraps to a value `≠ 2` in release: the truncated subtraction gives the same verdict).
The function returns `()`; the model returns `true` = returns normally, `false` = panics.  The hash map is an association list
(iteration order only selects WHICH panic message is raised).  The triangle indices are never used to index `points`.
-/
namespace Model.H3
variable {K : Type} [Num K]

/-- `SortedPair::new` -/
def sortedPair (a b : Nat) : Nat × Nat := if a > b then (b, a) else (a, b)

/-- the edge map: key ↦ `adjacent_triangles = [first, second]` (`none` = `usize::MAX`) -/
abbrev EdgeTab := List ((Nat × Nat) × Nat × Option Nat)

/-- `edges.entry(key)`: `none` = panic (t-junction) -/
def addSide (e : EdgeTab) (itri : Nat) (key : Nat × Nat) : Option EdgeTab :=
  match e.find? (fun x => x.1 == key) with
  | none => some (e ++ [(key, itri, none)])
  | some (_, _, some _) => none
  | some (_, t0, none) => some (e.map fun x => if x.1 == key then (x.1, t0, some itri) else x)

/-- one iteration of `for (itri, tri) in triangles.iter().enumerate()` -/
def checkTri (e : EdgeTab) (itri : Nat) (t : T3) : Option EdgeTab :=
  if t.a = t.b ∨ t.a = t.c ∨ t.c = t.b then none else
  (addSide e itri (sortedPair t.a t.b)).bind fun e1 =>
  (addSide e1 itri (sortedPair t.b t.c)).bind fun e2 =>
  addSide e2 itri (sortedPair t.c t.a)

/-- the duplicate scan: `true` = a duplicate exists (panic) -/
def hasDuplicate (pts : Array (V3 K)) : Bool :=
  (List.range pts.size).any fun i => (List.range (pts.size - (i + 1))).any fun d => ptEq (pAt pts i) (pAt pts (i + 1 + d))

/-- the triangle loop over the list of `(itri, tri)` -/
def checkTris : List (Nat × T3) → EdgeTab → Option EdgeTab
  | [], e => some e
  | (i, t) :: rest, e => (checkTri e i t).bind (checkTris rest)

/-- `check_convex_hull`: `true` = returns, `false` = panics -/
def checkConvexHull (pts : Array (V3 K)) (tris : Array T3) : Bool :=
  if hasDuplicate pts then false else
  match checkTris ((List.range tris.size).zip tris.toList) [] with
  | none => false
  | some edges =>
    if edges.any (fun x => x.2.2.isNone) then false else
    decide (pts.size + tris.size - edges.length = 2)

end Model.H3
