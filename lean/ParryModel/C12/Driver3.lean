import ParryModel.Proto
import ParryModel.C12.Hull3
import ParryModel.C12.Driver2
/-! C12 protocol handler for the modelled 3-D quickhull (`hull3m`). -/
namespace C12
open Proto
open Model Model.H3

def negMaxF3 : Float := Float.ofBits 0xFFEFFFFFFFFFFFFF

/-- print exactly like the harness: `nv pts… nt tris…`, `err <e>`, `lowdim`, `panic` -/
def hull3Model (pts : List (V3 Float)) (evec : List (V3 Float)) (eval : List Float) : String :=
  match tryConvexHull negMaxF3 pts.toArray evec eval with
  | .ok (v, t) => String.intercalate " " (
      [toString v.size] ++ v.toList.map fv3 ++ [toString t.size] ++ t.toList.map (fun t => s!"{t.a} {t.b} {t.c}"))
  | .err e => s!"err {e}"
  | .panic => "panic"
  | .hang => "hang"
  | .lowdim => "lowdim"

/-- independent judgement of the combinatorial clauses on the real output: every vertex is an input point, every input index used,
the triangles form a closed consistently oriented 2-manifold with Euler characteristic 2 (geometry is judged by `hull3`) -/
def hull3mOracle (input : List (V3 Float)) (hv : List (V3 Float)) (tris : List (Nat × Nat × Nat)) : String :=
  let P := input.map q3
  if !(hv.all finite3) then "fail nonfinite-vertex" else
  if !(hv.all fun v => P.any fun p => eq3 p (q3 v)) then "fail hull-vertex-is-not-an-input-point" else
  if !(closedManifold hv.length tris) then "fail not-a-closed-oriented-manifold" else
  let used := (tris.flatMap fun (a, b, c) => [a, b, c]).eraseDups.length
  if used != hv.length then "fail unused-vertex-kept" else
  let e := 3 * tris.length / 2
  if (hv.length : Int) - e + tris.length != 2 then s!"fail euler-characteristic V={hv.length} E={e} F={tris.length}" else "pass"

def handler3 (fn : String) : Option Handler :=
  match fn with
  | "hull3m" => some {
      -- args: the cloud, then (observed from nalgebra) the 3 eigenvector columns and the 3 eigenvalues of the covariance matrix
      model := fun a => run (do
        let pts ← plist pv3
        let c0 ← pv3; let c1 ← pv3; let c2 ← pv3
        let e0 ← pf; let e1 ← pf; let e2 ← pf
        pure (hull3Model pts [c0, c1, c2] [e0, e1, e2])) a
      oracle := fun a o => match run (do let pts ← plist pv3; pure pts) a with
        | some input => (match o with
          | "panic" :: _ => "fail panic"
          | "lowdim" :: _ => "skip low-dimensional-branch"
          | "err" :: _ => if fullDim (input.map q3) then "fail error-for-a-full-dimensional-cloud" else "skip degenerate-input-reported-as-error"
          | _ => match run pmesh3' o with
            | some (hv, tris) => hull3mOracle input hv tris
            | none => "fail unparsable-output")
        | none => "skip bad-args" }
  | _ => none

end C12
