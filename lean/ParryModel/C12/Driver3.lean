import ParryModel.Proto
import ParryModel.C12.Hull3
import ParryModel.C12.Driver2
/-! C12 protocol handler for the modelled 3-D quickhull (`hull3m`). -/
namespace C12
open Proto
open Model Model.H3

def negMaxF3 : Float := Float.ofBits 0xFFEFFFFFFFFFFFFF

/-- print exactly like the harness: `nv pts… nt tris…`, `err <e>`, `lowdim`, `panic` -/
def hull3Model (pts : List (V3 Float)) (evec : List (V3 Float)) (eval : List Float) : String :=
  match tryConvexHull negMaxF3 pts.toArray evec eval with
  | .ok (v, t) => String.intercalate " " (
      [toString v.size] ++ v.toList.map fv3 ++ [toString t.size] ++ t.toList.map (fun t => s!"{t.a} {t.b} {t.c}"))
  | .err e => s!"err {e}"
  | .panic => "panic"
  | .hang => "hang"
  | .lowdim => "lowdim"

/-- independent judgement of the combinatorial clauses on the real output: every vertex is an input point, every input index used,
the triangles form a closed consistently oriented 2-manifold with Euler characteristic 2 (geometry is judged by `hull3`) -/
def hull3mOracle (input : List (V3 Float)) (hv : List (V3 Float)) (tris : List (Nat × Nat × Nat)) : String :=
  let P := input.map q3
  if !(hv.all finite3) then "fail nonfinite-vertex" else
  if !(hv.all fun v => P.any fun p => eq3 p (q3 v)) then "fail hull-vertex-is-not-an-input-point" else
  if !(closedManifold hv.length tris) then "fail not-a-closed-oriented-manifold" else
  let used := (tris.flatMap fun (a, b, c) => [a, b, c]).eraseDups.length
  if used != hv.length then "fail unused-vertex-kept" else
  let e := 3 * tris.length / 2
  if (hv.length : Int) - e + tris.length != 2 then s!"fail euler-characteristic V={hv.length} E={e} F={tris.length}" else "pass"

/-! ### run-time evaluation of the hypotheses of `Theorems8` along the model's run (statistics only, `hull3m_stats`) -/

def twinB (ts : Array (Facet Float)) : Bool :=
  (List.range ts.size).all fun i =>
    let f := tAt ts i
    !f.valid || (List.range 3).all fun j =>
      let g := tAt ts (f.adj.get j); let k := f.ind.get j
      f.adj.get j < ts.size && k < 3 && g.valid && g.adj.get k == i && g.ind.get k == j &&
      first g k == second f j && second g k == first f j

/-- the three clauses of `ClosedLoop`: (no duplicate, complete, cyclic matching) -/
def closedLoopB (ts : Array (Facet Float)) (sil : Array (Nat × Nat)) : Bool × Bool × Bool :=
  let l := sil.toList
  let nd := l.eraseDups.length == l.length
  let complete := (List.range ts.size).all fun a =>
    let f := tAt ts a
    !f.valid || (List.range 3).all fun j => (tAt ts (f.adj.get j)).valid || l.contains (a, j)
  let lp := (List.range sil.size).all fun i =>
    secondOf ts ((sil[(i + 1) % sil.size]?).getD (0, 0)) == firstOf ts ((sil[i]?).getD (0, 0))
  (nd, complete, lp)

structure Stats where
  attach : Nat := 0
  fixed : Nat := 0
  dup : Nat := 0
  incomplete : Nat := 0
  open_ : Nat := 0
  twinLost : Nat := 0
  brk : Nat := 0

def statsLoop (pts : Array (V3 Float)) : Nat → Nat → Array (Facet Float) → Array Nat → Stats → Stats × String
  | 0, _, _, _, st => (st, "hang")
  | fuel + 1, i, ts, und, st =>
    if i = ts.size then (st, if twinB ts then "final-twin" else "final-not-twin") else
    let t := tAt ts i
    let st := if !t.valid || t.affDep then st else
      match H3.indexedSupportPointId negMaxF3 t.normal pts t.vis.toList with
      | none => st
      | some point =>
        let s := silhouetteStep pts point i ts
        let nf := (countSeconds pts.size s.ts s.out).2
        let (nd, cp, lp) := closedLoopB s.ts s.out
        { st with attach := st.attach + 1, fixed := st.fixed + (if nf then 1 else 0), dup := st.dup + (if nd then 0 else 1),
                  incomplete := st.incomplete + (if cp then 0 else 1), open_ := st.open_ + (if lp then 0 else 1) }
    match mainStep negMaxF3 pts i ts und with
    | .ok (brk, ts', und') =>
      let st := { st with twinLost := st.twinLost + (if twinB ts' then 0 else 1) }
      if brk then ({ st with brk := st.brk + 1 }, if twinB ts' then "final-twin" else "final-not-twin")
      else statsLoop pts fuel (i + 1) ts' und' st
    | .err e => (st, s!"err-{e}")
    | .panic => (st, "panic")
    | .hang => (st, "hang")
    | .lowdim => (st, "lowdim")

def hull3Stats (pts : List (V3 Float)) (evec : List (V3 Float)) (eval : List Float) : String :=
  match initialMesh negMaxF3 pts.toArray evec eval with
  | .ok ini =>
    let (st, fin) := statsLoop ini.npts (16 * pts.length * pts.length + 64) 0 ini.ts ini.und {}
    s!"attach={st.attach} needsfix={st.fixed} dup={st.dup} incomplete={st.incomplete} open={st.open_} twinlost={st.twinLost} brk={st.brk} {fin}"
  | .lowdim => "lowdim"
  | _ => "init-failed"

def handler3 (fn : String) : Option Handler :=
  match fn with
  | "hull3m" => some {
      -- args: the cloud, then (observed from nalgebra) the 3 eigenvector columns and the 3 eigenvalues of the covariance matrix
      model := fun a => run (do
        let pts ← plist pv3
        let c0 ← pv3; let c1 ← pv3; let c2 ← pv3
        let e0 ← pf; let e1 ← pf; let e2 ← pf
        pure (hull3Model pts [c0, c1, c2] [e0, e1, e2])) a
      oracle := fun a o => match run (do let pts ← plist pv3; pure pts) a with
        | some input => (match o with
          | "panic" :: _ => "fail panic"
          | "lowdim" :: _ => "skip low-dimensional-branch"
          | "err" :: _ => if fullDim (input.map q3) then "fail error-for-a-full-dimensional-cloud" else "skip degenerate-input-reported-as-error"
          | _ => match run pmesh3' o with
            | some (hv, tris) => hull3mOracle input hv tris
            | none => "fail unparsable-output")
        | none => "skip bad-args" }
  | "hull3m_stats" => some {
      model := fun a => run (do
        let pts ← plist pv3
        let c0 ← pv3; let c1 ← pv3; let c2 ← pv3
        let e0 ← pf; let e1 ← pf; let e2 ← pf
        pure (hull3Stats pts [c0, c1, c2] [e0, e1, e2])) a
      oracle := fun _ _ => "skip statistics-only" }
  | _ => none

end C12
