import ParryModel.C12.Lemmas
/-! # C12 helper lemmas, part 2 (core Lean only): one loop step as a state transformer, the closed-chain invariant, facet geometry invariant. -/
namespace C12
open Model
variable {K : Type} [Num K]
set_option linter.unusedSectionVars false

/-- the state after one attaching step of the main loop on facet `i = some f` with support point `point` -/
def stepState (eps100 : K) (pts : Array (V2 K)) (st : HullState K) (i : Nat) (f : SegFacet K) (point : Nat) : HullState K :=
  attach eps100 pts (invalidate st i) f.prev f.next point i

theorem stepState_size (eps100 : K) (pts : Array (V2 K)) (st : HullState K) (i : Nat) (f : SegFacet K) (point : Nat) :
    (stepState eps100 pts st i f point).segs.size = st.segs.size + 2 := by
  rw [stepState, attach_size, invalidate_size]

/-- old facets after a step: `valid` cleared on `i`, `next` redirected on `f.prev`, `prev` redirected on `f.next` -/
theorem stepState_get_old (eps100 : K) (pts : Array (V2 K)) (st : HullState K) (i : Nat) (f : SegFacet K) (point : Nat)
    (k : Nat) (g : SegFacet K) (hg : st.segs[k]? = some g) :
    (stepState eps100 pts st i f point).segs[k]? = some
      { g with valid := if k = i then false else g.valid,
               next := if k = f.prev then st.segs.size else g.next,
               prev := if k = f.next then st.segs.size + 1 else g.prev } := by
  obtain ⟨e1, e2, und', heq, _⟩ := attach_spec eps100 pts (invalidate st i) f.prev f.next point i
  rw [stepState, heq]
  have h1 : (invalidate st i).segs[k]? = some (if k = i then { g with valid := false } else g) := by
    rw [invalidate_get, hg]; rfl
  rw [attach_get_old _ _ _ _ _ k _ h1, invalidate_size]
  by_cases hk : k = i <;> simp [hk]

/-- the two new facets after a step -/
theorem stepState_get_new (eps100 : K) (pts : Array (V2 K)) (st : HullState K) (i : Nat) (f : SegFacet K) (point : Nat) :
    ∃ F1 F2 : SegFacet K,
      (stepState eps100 pts st i f point).segs[st.segs.size]? = some F1 ∧
      (stepState eps100 pts st i f point).segs[st.segs.size + 1]? = some F2 ∧
      F1.p0 = (st.segs[f.prev]?.map (·.p1)).getD 0 ∧ F1.p1 = point ∧ F1.prev = f.prev ∧ F1.next = st.segs.size + 1 ∧
      F2.p0 = point ∧ F2.p1 = (st.segs[f.next]?.map (·.p0)).getD 0 ∧ F2.prev = st.segs.size ∧ F2.next = f.next ∧
      F1.normal = (SegFacet.new F1.p0 F1.p1 0 0 pts).normal ∧ F1.valid = (SegFacet.new F1.p0 F1.p1 0 0 pts).valid ∧
      F2.normal = (SegFacet.new F2.p0 F2.p1 0 0 pts).normal ∧ F2.valid = (SegFacet.new F2.p0 F2.p1 0 0 pts).valid := by
  obtain ⟨e1, e2, und', heq, _⟩ := attach_spec eps100 pts (invalidate st i) f.prev f.next point i
  have hP : ((invalidate st i).segs[f.prev]?.map (·.p1)).getD 0 = (st.segs[f.prev]?.map (·.p1)).getD 0 := by
    rw [invalidate_get]; cases st.segs[f.prev]? <;> simp; split <;> rfl
  have hN : ((invalidate st i).segs[f.next]?.map (·.p0)).getD 0 = (st.segs[f.next]?.map (·.p0)).getD 0 := by
    rw [invalidate_get]; cases st.segs[f.next]? <;> simp; split <;> rfl
  refine ⟨withVis (newF1 pts (invalidate st i) f.prev point) e1, withVis (newF2 pts (invalidate st i) f.next point) e2, ?_, ?_,
    ?_, rfl, rfl, ?_, rfl, ?_, ?_, rfl, rfl, rfl, rfl, rfl⟩
  · rw [stepState, heq]; simp only [Array.getElem?_push, Array.size_push, relink_size, invalidate_size]; simp
  · rw [stepState, heq]; simp only [Array.getElem?_push, Array.size_push, relink_size, invalidate_size]; simp
  · simp only [withVis, newF1, SegFacet.new, hP]
  · simp only [withVis, newF1, SegFacet.new, invalidate_size]
  · simp only [withVis, newF2, SegFacet.new, hN]
  · simp only [withVis, newF2, SegFacet.new, invalidate_size]

/-- **closed-chain invariant** relative to a ghost set `live` of facets currently on the polyline: live facets form a cyclic
doubly linked list (`next`/`prev` are inverse of each other and stay inside `live`, no self loop), consecutive live facets
share an end point (`segs[g.next].p0 = g.p1`), and every valid facet is live. -/
structure ChainOK (st : HullState K) (live : Nat → Prop) : Prop where
  lt : ∀ k, live k → k < st.segs.size
  valid_live : ∀ (k : Nat) (g : SegFacet K), st.segs[k]? = some g → g.valid = true → live k
  link : ∀ (k : Nat) (g : SegFacet K), live k → st.segs[k]? = some g →
    live g.next ∧ live g.prev ∧ g.next ≠ k ∧
    (∃ gn : SegFacet K, st.segs[g.next]? = some gn ∧ gn.prev = k ∧ gn.p0 = g.p1) ∧
    (∃ gp : SegFacet K, st.segs[g.prev]? = some gp ∧ gp.next = k ∧ gp.p1 = g.p0)

theorem ChainOK.prev_ne {st : HullState K} {live : Nat → Prop} (h : ChainOK st live) (k : Nat) (g : SegFacet K)
    (hl : live k) (hg : st.segs[k]? = some g) : g.prev ≠ k := by
  obtain ⟨_, _, hne, _, ⟨gp, hgp, hn, _⟩⟩ := h.link k g hl hg
  intro he
  rw [he, hg] at hgp
  cases hgp
  exact hne hn

theorem step_chain (eps100 : K) (pts : Array (V2 K)) (st : HullState K) (live : Nat → Prop) (i : Nat) (f : SegFacet K)
    (point : Nat) (h : ChainOK st live) (hf : st.segs[i]? = some f) (hli : live i) :
    ChainOK (stepState eps100 pts st i f point)
      (fun k => (live k ∧ k ≠ i) ∨ k = st.segs.size ∨ k = st.segs.size + 1) ∧
    ∃ F1 F2 : SegFacet K,
      (stepState eps100 pts st i f point).segs[st.segs.size]? = some F1 ∧
      (stepState eps100 pts st i f point).segs[st.segs.size + 1]? = some F2 ∧
      F1.p0 = f.p0 ∧ F1.p1 = point ∧ F2.p0 = point ∧ F2.p1 = f.p1 := by
  obtain ⟨hlN, hlP, hNi, ⟨gN, hgN, hNprev, hNp0⟩, ⟨gP, hgP, hPnext, hPp1⟩⟩ := h.link i f hli hf
  have hPi : f.prev ≠ i := h.prev_ne i f hli hf
  have hn0 := h.lt
  obtain ⟨F1, F2, g1, g2, a1, a2, a3, a4, b1, b2, b3, b4, _⟩ := stepState_get_new eps100 pts st i f point
  rw [hgP] at a1; rw [hgN] at b2
  simp only [Option.map_some, Option.getD_some] at a1 b2
  have hsz := stepState_size eps100 pts st i f point
  have old := stepState_get_old eps100 pts st i f point
  refine ⟨⟨?_, ?_, ?_⟩, F1, F2, g1, g2, by rw [a1, hPp1], a2, b1, by rw [b2, hNp0]⟩
  · -- lt
    intro k hk
    rw [hsz]
    rcases hk with ⟨hk, _⟩ | rfl | rfl
    · have := hn0 k hk; omega
    · omega
    · omega
  · -- valid facets are live
    intro k g hg hv
    by_cases hk : k < st.segs.size
    · obtain ⟨g0, hg0⟩ : ∃ g0, st.segs[k]? = some g0 := ⟨_, Array.getElem?_eq_getElem hk⟩
      rw [old k g0 hg0] at hg
      cases hg
      by_cases hki : k = i
      · simp [hki] at hv
      · simp only [hki, if_false] at hv
        exact Or.inl ⟨h.valid_live k g0 hg0 hv, hki⟩
    · have := (Array.getElem?_eq_some_iff.mp hg).1
      rw [hsz] at this
      by_cases hk2 : k = st.segs.size
      · exact Or.inr (Or.inl hk2)
      · exact Or.inr (Or.inr (by omega))
  · -- links
    intro k g hk hg
    have oldP := old f.prev gP hgP
    have oldN := old f.next gN hgN
    rcases hk with ⟨hk, hki⟩ | rfl | rfl
    · obtain ⟨g0, hg0⟩ : ∃ g0, st.segs[k]? = some g0 := ⟨_, Array.getElem?_eq_getElem (hn0 k hk)⟩
      rw [old k g0 hg0] at hg
      cases hg
      obtain ⟨hln, hlp, hne, ⟨gn, hgn, hnprev, hnp0⟩, ⟨gp, hgp, hpnext, hpp1⟩⟩ := h.link k g0 hk hg0
      have hklt := hn0 k hk
      -- g0.next = i → k = f.prev ;  g0.prev = i → k = f.next
      have nexti : g0.next = i → k = f.prev := by
        intro e; rw [e, hf] at hgn; cases hgn; exact hnprev.symm
      have previ : g0.prev = i → k = f.next := by
        intro e; rw [e, hf] at hgp; cases hgp; exact hpnext.symm
      refine ⟨?_, ?_, ?_, ?_, ?_⟩
      · simp only
        by_cases hkP : k = f.prev
        · simp [hkP]
        · simp only [hkP, if_false]
          exact Or.inl ⟨hln, fun e => hkP (nexti e)⟩
      · simp only
        by_cases hkN : k = f.next
        · simp [hkN]
        · simp only [hkN, if_false]
          exact Or.inl ⟨hlp, fun e => hkN (previ e)⟩
      · simp only
        by_cases hkP : k = f.prev
        · simp only [hkP, if_true]; rw [← hkP]; omega
        · simp only [hkP, if_false]; exact hne
      · simp only
        by_cases hkP : k = f.prev
        · subst hkP
          rw [hgP] at hg0; cases hg0
          simp only [if_true]
          exact ⟨F1, g1, a3, by rw [a1]⟩
        · simp only [hkP, if_false]
          -- successor is an old facet different from f.next (else k = i)
          have hmN : g0.next ≠ f.next := by
            intro e
            rw [e, hgN] at hgn; cases hgn
            exact hki (hnprev.symm.trans hNprev)
          rw [old g0.next gn hgn]
          refine ⟨_, rfl, ?_, hnp0⟩
          simp only [hmN, if_false]; exact hnprev
      · simp only
        by_cases hkN : k = f.next
        · subst hkN
          rw [hgN] at hg0; cases hg0
          simp only [if_true]
          exact ⟨F2, g2, b4, by rw [b2]⟩
        · simp only [hkN, if_false]
          have hmP : g0.prev ≠ f.prev := by
            intro e
            rw [e, hgP] at hgp; cases hgp
            exact hki (hpnext.symm.trans hPnext)
          rw [old g0.prev gp hgp]
          refine ⟨_, rfl, ?_, hpp1⟩
          simp only [hmP, if_false]; exact hpnext
    · -- first new facet
      rw [g1] at hg; cases hg
      have hPlt := hn0 f.prev hlP
      refine ⟨?_, ?_, ?_, ?_, ?_⟩
      · rw [a4]; exact Or.inr (Or.inr rfl)
      · rw [a3]; exact Or.inl ⟨hlP, hPi⟩
      · rw [a4]; omega
      · rw [a4]; exact ⟨F2, g2, b3, by rw [b1, a2]⟩
      · rw [a3, oldP]
        refine ⟨_, rfl, by simp, ?_⟩
        simp only; rw [a1]
    · -- second new facet
      rw [g2] at hg; cases hg
      have hNlt := hn0 f.next hlN
      refine ⟨?_, ?_, ?_, ?_, ?_⟩
      · rw [b4]; exact Or.inl ⟨hlN, hNi⟩
      · rw [b3]; exact Or.inr (Or.inl rfl)
      · rw [b4]; omega
      · rw [b4, oldN]
        refine ⟨_, rfl, by simp, ?_⟩
        simp only; rw [b2]
      · rw [b3]; exact ⟨F1, g1, a4, by rw [a2, b1]⟩

theorem initialPolyline_chain (negMax eps100 : K) (pts : Array (V2 K)) (st : HullState K)
    (h : initialPolyline negMax eps100 pts = some st) : ChainOK st (fun k => k < 2) := by
  obtain ⟨p1, p2, hsz, hp1, hp2, hne, rfl⟩ := initialPolyline_eq_some negMax eps100 pts st h
  refine ⟨fun k hk => hk, ?_, ?_⟩
  · intro k g hg _
    rcases two_get _ _ k g hg with ⟨rfl, _⟩ | ⟨rfl, _⟩ <;> omega
  · intro k g hk hg
    rcases two_get _ _ k g hg with ⟨rfl, rfl⟩ | ⟨rfl, rfl⟩
    · refine ⟨by simp [withVis, SegFacet.new], by simp [withVis, SegFacet.new], by simp [withVis, SegFacet.new], ?_, ?_⟩
      · exact ⟨_, by simp [withVis, SegFacet.new]; rfl, rfl, rfl⟩
      · exact ⟨_, by simp [withVis, SegFacet.new]; rfl, rfl, rfl⟩
    · refine ⟨by simp [withVis, SegFacet.new], by simp [withVis, SegFacet.new], by simp [withVis, SegFacet.new], ?_, ?_⟩
      · exact ⟨_, by simp [withVis, SegFacet.new]; rfl, rfl, rfl⟩
      · exact ⟨_, by simp [withVis, SegFacet.new]; rfl, rfl, rfl⟩

theorem hullLoop_induct' (negMax eps100 : K) (pts : Array (V2 K)) (P : HullState K → Prop)
    (hstep : ∀ (st : HullState K) (i : Nat) (f : SegFacet K) (point : Nat), P st → st.segs[i]? = some f → f.valid = true →
       indexedSupportPointId negMax f.normal pts f.visible = some point → P (stepState eps100 pts st i f point))
    (fuel i : Nat) (st : HullState K) (h : P st) : P (hullLoop negMax eps100 pts fuel i st) :=
  hullLoop_induct negMax eps100 pts P hstep fuel i st h

theorem hullLoop_chain (negMax eps100 : K) (pts : Array (V2 K)) (fuel i : Nat) (st : HullState K)
    (h : ∃ live, ChainOK st live) : ∃ live, ChainOK (hullLoop negMax eps100 pts fuel i st) live := by
  refine hullLoop_induct' negMax eps100 pts (fun s => ∃ live, ChainOK s live) ?_ fuel i st h
  rintro s i f point ⟨live, hl⟩ hf hv _
  exact ⟨_, (step_chain eps100 pts s live i f point hl hf (hl.valid_live i f hf hv)).1⟩

/-- **facet geometry invariant**: the stored normal of every facet is the one `SegmentFacet::new` computes from its two end
points, and a facet is only ever valid if `SegmentFacet::new` found a non-zero edge length -/
def GeoOK (pts : Array (V2 K)) (st : HullState K) : Prop :=
  ∀ (k : Nat) (g : SegFacet K), st.segs[k]? = some g →
    g.normal = (SegFacet.new g.p0 g.p1 0 0 pts).normal ∧ (g.valid = true → (SegFacet.new g.p0 g.p1 0 0 pts).valid = true)

theorem initialPolyline_geo (negMax eps100 : K) (pts : Array (V2 K)) (st : HullState K)
    (h : initialPolyline negMax eps100 pts = some st) : GeoOK pts st := by
  obtain ⟨p1, p2, hsz, hp1, hp2, hne, rfl⟩ := initialPolyline_eq_some negMax eps100 pts st h
  intro k g hg
  rcases two_get _ _ k g hg with ⟨rfl, rfl⟩ | ⟨rfl, rfl⟩ <;> exact ⟨rfl, fun h => h⟩

theorem step_geo (eps100 : K) (pts : Array (V2 K)) (st : HullState K) (i : Nat) (f : SegFacet K) (point : Nat)
    (h : GeoOK pts st) : GeoOK pts (stepState eps100 pts st i f point) := by
  obtain ⟨F1, F2, g1, g2, _, _, _, _, _, _, _, _, c1, c2, c3, c4⟩ := stepState_get_new eps100 pts st i f point
  have hsz := stepState_size eps100 pts st i f point
  intro k g hg
  by_cases hk : k < st.segs.size
  · obtain ⟨g0, hg0⟩ : ∃ g0, st.segs[k]? = some g0 := ⟨_, Array.getElem?_eq_getElem hk⟩
    rw [stepState_get_old eps100 pts st i f point k g0 hg0] at hg
    cases hg
    refine ⟨(h k g0 hg0).1, ?_⟩
    intro hv
    simp only at hv ⊢
    by_cases hki : k = i
    · simp [hki] at hv
    · simp only [hki, if_false] at hv; exact (h k g0 hg0).2 hv
  · have := (Array.getElem?_eq_some_iff.mp hg).1
    rw [hsz] at this
    by_cases hk2 : k = st.segs.size
    · subst hk2; rw [g1] at hg; cases hg; exact ⟨c1, fun hv => by rw [← c2]; exact hv⟩
    · have hk3 : k = st.segs.size + 1 := by omega
      subst hk3; rw [g2] at hg; cases hg; exact ⟨c3, fun hv => by rw [← c4]; exact hv⟩

theorem hullLoop_geo (negMax eps100 : K) (pts : Array (V2 K)) (fuel i : Nat) (st : HullState K)
    (h : GeoOK pts st) : GeoOK pts (hullLoop negMax eps100 pts fuel i st) :=
  hullLoop_induct' negMax eps100 pts (GeoOK pts) (fun s i f point hs _ _ _ => step_geo eps100 pts s i f point hs) fuel i st h
end C12
