import ParryModel.C12.Lemmas5
/-!
# C12 lemmas (fu5): the contour walk of `ConvexPolyhedron::from_convex_mesh` (pass 3) builds well-formed compressed rows.
Core Lean only; every `Num` instance.
-/
namespace C12
open Model
variable {K : Type} [Num K]

/-- `x` is the id of an existing edge that is not deleted -/
def LiveEdge (edges : Array (PEdge K)) (x : Nat) : Prop := ∃ e, edges[x]? = some e ∧ e.deleted = false

structure WalkInv (edges : Array (PEdge K)) (first : Nat) (s : WalkState K) : Prop where
  sz : s.eaf.size = s.vaf.size
  row : s.eaf.size = first + s.num
  live : ∀ x, x ∈ s.eaf.toList → LiveEdge edges x

theorem walk_inv (edges : Array (PEdge K)) (sv nf first : Nat) : ∀ (fuel : Nat) (s s' : WalkState K),
    walk edges sv nf fuel s = .ok s' → WalkInv edges first s → WalkInv edges first s' := by
  intro fuel
  induction fuel with
  | zero => intro s s' h; simp [walk] at h
  | succ fuel ih =>
    intro s s' h hi
    unfold walk at h
    split at h
    · cases h
    · rename_i t ht
      split at h
      · simp only [Res.ok.injEq] at h; subst h; exact hi
      · simp only at h
        split at h
        · cases h
        · rename_i e he
          split at h
          · rename_i hdel
            refine ih _ _ h ⟨?_, ?_, ?_⟩
            · simp [hi.sz]
            · simp only [Array.size_push]; have := hi.row; omega
            · intro x hx
              simp only [Array.toList_push, List.mem_append, List.mem_singleton] at hx
              rcases hx with hx | rfl
              · exact hi.live x hx
              · exact ⟨e, he, by simpa using hdel⟩
          · split at h
            · cases h
            · split at h
              · cases h
              · split at h
                · exact ih _ _ h ⟨hi.sz, hi.row, hi.live⟩
                · cases h

/-- rows of the face table: inside the adjacency arrays, at least 3 long, pairwise disjoint and in increasing order; every
entry of `edges_adj_to_face` is a live edge -/
structure P3Inv (edges : Array (PEdge K)) (st : P3State K) : Prop where
  sz : st.eaf.size = st.vaf.size
  live : ∀ x, x ∈ st.eaf.toList → LiveEdge edges x
  rows : ∀ (k : Nat) (f : PFace K), st.faces[k]? = some f → f.first + f.num ≤ st.eaf.size ∧ 2 < f.num
  ord : ∀ (k k' : Nat) (f f' : PFace K), k < k' → st.faces[k]? = some f → st.faces[k']? = some f' → f.first + f.num ≤ f'.first

theorem faceStep_inv (edges : Array (PEdge K)) (st st' : P3State K) (i : Nat) (h : faceStep edges st i = .ok st')
    (hi : P3Inv edges st) : P3Inv edges st' ∧ st.eaf.size ≤ st'.eaf.size := by
  unfold faceStep at h
  split at h
  · cases h
  · rename_i t ht
    split at h
    · simp only [Res.ok.injEq] at h; subst h; exact ⟨hi, Nat.le_refl _⟩
    · simp only at h
      obtain ⟨fl, hfl, h⟩ := Res.bind_ok _ _ _ h
      -- the first live edge of the triangle
      have hlive : ∀ j1, fl = some j1 → LiveEdge edges (get3 t.e j1) := by
        intro j1 hj
        subst hj
        split at hfl
        · rename_i e0 e1 e2 h0 h1 h2
          simp only [Res.ok.injEq] at hfl
          split at hfl
          · rename_i hd; simp only [Option.some.injEq] at hfl; subst hfl; exact ⟨e0, h0, by simpa using hd⟩
          · split at hfl
            · rename_i hd; simp only [Option.some.injEq] at hfl; subst hfl; exact ⟨e1, h1, by simpa using hd⟩
            · split at hfl
              · rename_i hd; simp only [Option.some.injEq] at hfl; subst hfl; exact ⟨e2, h2, by simpa using hd⟩
              · cases hfl
        · rename_i e0 e1 h0 h1 h2
          split at hfl
          · rename_i hd; simp only [Res.ok.injEq, Option.some.injEq] at hfl; subst hfl; exact ⟨e0, h0, by simpa using hd⟩
          · split at hfl
            · rename_i hd; simp only [Res.ok.injEq, Option.some.injEq] at hfl; subst hfl; exact ⟨e1, h1, by simpa using hd⟩
            · cases hfl
        · rename_i e0 h0 h1
          split at hfl
          · rename_i hd; simp only [Res.ok.injEq, Option.some.injEq] at hfl; subst hfl; exact ⟨e0, h0, by simpa using hd⟩
          · cases hfl
        · cases hfl
      split at h
      · simp only [Res.ok.injEq] at h; subst h; exact ⟨hi, Nat.le_refl _⟩
      · rename_i j1
        obtain ⟨s, hw, h⟩ := Res.bind_ok _ _ _ h
        have w0 : WalkInv edges st.eaf.size
            ({ tris := st.tris, eaf := st.eaf.push (get3 t.e j1), vaf := st.vaf.push (get3 t.v j1), num := 1, cur := i,
               ceid := (j1 + 1) % 3, visited := [] } : WalkState K) := by
          refine ⟨by simp [hi.sz], by simp, fun x hx => ?_⟩
          simp only [Array.toList_push, List.mem_append, List.mem_singleton] at hx
          rcases hx with hx | rfl
          · exact hi.live x hx
          · exact hlive j1 rfl
        have w := walk_inv edges _ _ st.eaf.size _ _ _ hw w0
        have hge : st.eaf.size ≤ s.eaf.size := by have := w.row; omega
        split at h
        · rename_i hnum
          simp only [Res.ok.injEq] at h; subst h
          refine ⟨⟨w.sz, w.live, ?_, ?_⟩, hge⟩
          · intro k f hk
            simp only at hk ⊢
            rw [Array.getElem?_push] at hk
            split at hk
            · simp only [Option.some.injEq] at hk; subst hk
              simp only; exact ⟨by have := w.row; omega, hnum⟩
            · obtain ⟨r1, r2⟩ := hi.rows k f hk; exact ⟨by omega, r2⟩
          · intro k k' f f' hkk hk hk'
            simp only at hk hk'
            rw [Array.getElem?_push] at hk hk'
            split at hk'
            · rename_i hk's
              simp only [Option.some.injEq] at hk'; subst hk'
              rw [if_neg (by omega)] at hk
              exact (hi.rows k f hk).1
            · split at hk
              · rename_i hks
                have : k' < st.faces.size := by
                  rcases Nat.lt_or_ge k' st.faces.size with hc | hc
                  · exact hc
                  · rw [Array.getElem?_eq_none hc] at hk'; cases hk'
                omega
              · exact hi.ord k k' f f' hkk hk hk'
        · simp only [Res.ok.injEq] at h; subst h
          refine ⟨⟨w.sz, w.live, fun k f hk => ?_, hi.ord⟩, hge⟩
          obtain ⟨r1, r2⟩ := hi.rows k f hk
          exact ⟨by simp only; omega, r2⟩

theorem pass3_inv (edges : Array (PEdge K)) : ∀ (l : List Nat) (st st' : P3State K), pass3 edges l st = .ok st' →
    P3Inv edges st → P3Inv edges st' := by
  intro l
  induction l with
  | nil => intro st st' h hi; simp only [pass3, Res.ok.injEq] at h; subst h; exact hi
  | cons a l ih =>
    intro st st' h hi
    simp only [pass3] at h
    obtain ⟨s1, h1, h2⟩ := Res.bind_ok _ _ _ h
    exact ih s1 st' h2 (faceStep_inv edges st s1 a h1 hi).1

theorem rewriteFaces_deleted (tris : Array (PTri K)) (e e' : PEdge K) (h : rewriteFaces tris e = some e') :
    e'.deleted = e.deleted := by
  unfold rewriteFaces at h
  cases h0 : tris[e.f0]? with
  | none => rw [h0] at h; cases h
  | some t0 =>
    cases h1 : tris[e.f1]? with
    | none => rw [h0, h1] at h; cases h
    | some t1 =>
      rw [h0, h1] at h
      simp only [Option.some.injEq] at h
      rw [← h]

end C12
