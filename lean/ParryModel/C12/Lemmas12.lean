import ParryModel.C12.Lemmas5
/-!
# C12 lemmas (fu5): the contour walk of `ConvexPolyhedron::from_convex_mesh` (pass 3) builds well-formed compressed rows.
Core Lean only; every `Num` instance.
-/
namespace C12
open Model
variable {K : Type} [Num K]

/-- `x` is the id of an existing edge that is not deleted -/
def LiveEdge (edges : Array (PEdge K)) (x : Nat) : Prop := ∃ e, edges[x]? = some e ∧ e.deleted = false

structure WalkInv (edges : Array (PEdge K)) (first : Nat) (s : WalkState K) : Prop where
  sz : s.eaf.size = s.vaf.size
  row : s.eaf.size = first + s.num
  live : ∀ x, x ∈ s.eaf.toList → LiveEdge edges x

theorem walk_inv (edges : Array (PEdge K)) (sv nf first : Nat) : ∀ (fuel : Nat) (s s' : WalkState K),
    walk edges sv nf fuel s = .ok s' → WalkInv edges first s → WalkInv edges first s' := by
  intro fuel
  induction fuel with
  | zero => intro s s' h; simp [walk] at h
  | succ fuel ih =>
    intro s s' h hi
    unfold walk at h
    split at h
    · cases h
    · rename_i t ht
      split at h
      · simp only [Res.ok.injEq] at h; subst h; exact hi
      · simp only at h
        split at h
        · cases h
        · rename_i e he
          split at h
          · rename_i hdel
            refine ih _ _ h ⟨?_, ?_, ?_⟩
            · simp [hi.sz]
            · simp only [Array.size_push]; have := hi.row; omega
            · intro x hx
              simp only [Array.toList_push, List.mem_append, List.mem_singleton] at hx
              rcases hx with hx | rfl
              · exact hi.live x hx
              · exact ⟨e, he, by simpa using hdel⟩
          · split at h
            · cases h
            · split at h
              · cases h
              · split at h
                · exact ih _ _ h ⟨hi.sz, hi.row, hi.live⟩
                · cases h

/-- rows of the face table: inside the adjacency arrays, at least 3 long, pairwise disjoint and in increasing order; every
entry of `edges_adj_to_face` is a live edge -/
structure P3Inv (edges : Array (PEdge K)) (st : P3State K) : Prop where
  sz : st.eaf.size = st.vaf.size
  live : ∀ x, x ∈ st.eaf.toList → LiveEdge edges x
  rows : ∀ (k : Nat) (f : PFace K), st.faces[k]? = some f → f.first + f.num ≤ st.eaf.size ∧ 2 < f.num
  ord : ∀ (k k' : Nat) (f f' : PFace K), k < k' → st.faces[k]? = some f → st.faces[k']? = some f' → f.first + f.num ≤ f'.first

theorem faceStep_inv (edges : Array (PEdge K)) (st st' : P3State K) (i : Nat) (h : faceStep edges st i = .ok st')
    (hi : P3Inv edges st) : P3Inv edges st' ∧ st.eaf.size ≤ st'.eaf.size := by
  unfold faceStep at h
  split at h
  · cases h
  · rename_i t ht
    split at h
    · simp only [Res.ok.injEq] at h; subst h; exact ⟨hi, Nat.le_refl _⟩
    · simp only at h
      obtain ⟨fl, hfl, h⟩ := Res.bind_ok _ _ _ h
      -- the first live edge of the triangle
      have hlive : ∀ j1, fl = some j1 → LiveEdge edges (get3 t.e j1) := by
        intro j1 hj
        subst hj
        split at hfl
        · rename_i e0 e1 e2 h0 h1 h2
          simp only [Res.ok.injEq] at hfl
          split at hfl
          · rename_i hd; simp only [Option.some.injEq] at hfl; subst hfl; exact ⟨e0, h0, by simpa using hd⟩
          · split at hfl
            · rename_i hd; simp only [Option.some.injEq] at hfl; subst hfl; exact ⟨e1, h1, by simpa using hd⟩
            · split at hfl
              · rename_i hd; simp only [Option.some.injEq] at hfl; subst hfl; exact ⟨e2, h2, by simpa using hd⟩
              · cases hfl
        · rename_i e0 e1 h0 h1 h2
          split at hfl
          · rename_i hd; simp only [Res.ok.injEq, Option.some.injEq] at hfl; subst hfl; exact ⟨e0, h0, by simpa using hd⟩
          · split at hfl
            · rename_i hd; simp only [Res.ok.injEq, Option.some.injEq] at hfl; subst hfl; exact ⟨e1, h1, by simpa using hd⟩
            · cases hfl
        · rename_i e0 h0 h1
          split at hfl
          · rename_i hd; simp only [Res.ok.injEq, Option.some.injEq] at hfl; subst hfl; exact ⟨e0, h0, by simpa using hd⟩
          · cases hfl
        · cases hfl
      split at h
      · simp only [Res.ok.injEq] at h; subst h; exact ⟨hi, Nat.le_refl _⟩
      · rename_i j1
        obtain ⟨s, hw, h⟩ := Res.bind_ok _ _ _ h
        have w0 : WalkInv edges st.eaf.size
            ({ tris := st.tris, eaf := st.eaf.push (get3 t.e j1), vaf := st.vaf.push (get3 t.v j1), num := 1, cur := i,
               ceid := (j1 + 1) % 3, visited := [] } : WalkState K) := by
          refine ⟨by simp [hi.sz], by simp, fun x hx => ?_⟩
          simp only [Array.toList_push, List.mem_append, List.mem_singleton] at hx
          rcases hx with hx | rfl
          · exact hi.live x hx
          · exact hlive j1 rfl
        have w := walk_inv edges _ _ st.eaf.size _ _ _ hw w0
        have hge : st.eaf.size ≤ s.eaf.size := by have := w.row; omega
        split at h
        · rename_i hnum
          simp only [Res.ok.injEq] at h; subst h
          refine ⟨⟨w.sz, w.live, ?_, ?_⟩, hge⟩
          · intro k f hk
            simp only at hk ⊢
            rw [Array.getElem?_push] at hk
            split at hk
            · simp only [Option.some.injEq] at hk; subst hk
              simp only; exact ⟨by have := w.row; omega, hnum⟩
            · obtain ⟨r1, r2⟩ := hi.rows k f hk; exact ⟨by omega, r2⟩
          · intro k k' f f' hkk hk hk'
            simp only at hk hk'
            rw [Array.getElem?_push] at hk hk'
            split at hk'
            · rename_i hk's
              simp only [Option.some.injEq] at hk'; subst hk'
              rw [if_neg (by omega)] at hk
              exact (hi.rows k f hk).1
            · split at hk
              · rename_i hks
                have : k' < st.faces.size := by
                  rcases Nat.lt_or_ge k' st.faces.size with hc | hc
                  · exact hc
                  · rw [Array.getElem?_eq_none hc] at hk'; cases hk'
                omega
              · exact hi.ord k k' f f' hkk hk hk'
        · simp only [Res.ok.injEq] at h; subst h
          refine ⟨⟨w.sz, w.live, fun k f hk => ?_, hi.ord⟩, hge⟩
          obtain ⟨r1, r2⟩ := hi.rows k f hk
          exact ⟨by simp only; omega, r2⟩

theorem pass3_inv (edges : Array (PEdge K)) : ∀ (l : List Nat) (st st' : P3State K), pass3 edges l st = .ok st' →
    P3Inv edges st → P3Inv edges st' := by
  intro l
  induction l with
  | nil => intro st st' h hi; simp only [pass3, Res.ok.injEq] at h; subst h; exact hi
  | cons a l ih =>
    intro st st' h hi
    simp only [pass3] at h
    obtain ⟨s1, h1, h2⟩ := Res.bind_ok _ _ _ h
    exact ih s1 st' h2 (faceStep_inv edges st s1 a h1 hi).1

theorem rewriteFaces_deleted (tris : Array (PTri K)) (e e' : PEdge K) (h : rewriteFaces tris e = some e') :
    e'.deleted = e.deleted := by
  unfold rewriteFaces at h
  cases h0 : tris[e.f0]? with
  | none => rw [h0] at h; cases h
  | some t0 =>
    cases h1 : tris[e.f1]? with
    | none => rw [h0, h1] at h; cases h
    | some t1 =>
      rw [h0, h1] at h
      simp only [Option.some.injEq] at h
      rw [← h]

/-! ## the contour vertices are vertices of the triangles -/

/-- same vertex triples, triangle by triangle -/
def VSame (a b : Array (PTri K)) : Prop := ∀ c : Nat, (a[c]?).map (·.v) = (b[c]?).map (·.v)

theorem VSame.trans {a b c : Array (PTri K)} (h1 : VSame a b) (h2 : VSame b c) : VSame a c := fun i => (h1 i).trans (h2 i)

theorem vsame_setParent (a : Array (PTri K)) (o : Nat) (ot : PTri K) (p : Option Nat) (h : a[o]? = some ot) :
    VSame (a.set! o { ot with parent := p }) a := by
  intro c
  rw [Array.set!_eq_setIfInBounds, Array.getElem?_setIfInBounds]
  by_cases hc : o = c
  · subst hc
    have : o < a.size := by
      rcases Nat.lt_or_ge o a.size with hlt | hge
      · exact hlt
      · rw [Array.getElem?_eq_none hge] at h; cases h
    rw [h]; simp [this]
  · simp [hc]

/-- `x` is a corner of some triangle of `tris0` -/
def VOk (tris0 : Array (PTri K)) (x : Nat) : Prop := ∃ (c : Nat) (t : PTri K) (j : Nat), tris0[c]? = some t ∧ x = get3 t.v j

theorem vok_of_vsame (tris0 a : Array (PTri K)) (hv : VSame a tris0) (c : Nat) (t : PTri K) (j : Nat) (h : a[c]? = some t) :
    VOk tris0 (get3 t.v j) := by
  have := hv c
  rw [h] at this
  cases h0 : tris0[c]? with
  | none => rw [h0] at this; simp at this
  | some t0 =>
    rw [h0] at this
    simp only [Option.map_some, Option.some.injEq] at this
    exact ⟨c, t0, j, h0, by rw [this]⟩

theorem walk_vinv (edges : Array (PEdge K)) (tris0 : Array (PTri K)) (sv nf : Nat) : ∀ (fuel : Nat) (s s' : WalkState K),
    walk edges sv nf fuel s = .ok s' → VSame s.tris tris0 → (∀ x, x ∈ s.vaf.toList → VOk tris0 x) →
    VSame s'.tris tris0 ∧ ∀ x, x ∈ s'.vaf.toList → VOk tris0 x := by
  intro fuel
  induction fuel with
  | zero => intro s s' h; simp [walk] at h
  | succ fuel ih =>
    intro s s' h hv hx
    unfold walk at h
    split at h
    · cases h
    · rename_i t ht
      split at h
      · simp only [Res.ok.injEq] at h; subst h; exact ⟨hv, hx⟩
      · simp only at h
        have hv' : VSame (s.tris.set! s.cur { t with parent := some nf }) tris0 := (vsame_setParent s.tris s.cur t _ ht).trans hv
        split at h
        · cases h
        · split at h
          · refine ih _ _ h hv' ?_
            intro x hxm
            simp only [Array.toList_push, List.mem_append, List.mem_singleton] at hxm
            rcases hxm with hxm | rfl
            · exact hx x hxm
            · exact vok_of_vsame tris0 s.tris hv s.cur t _ ht
          · split at h
            · cases h
            · split at h
              · cases h
              · split at h
                · exact ih _ _ h hv' hx
                · cases h

theorem flood_vsame (edges : Array (PEdge K)) (nf : Nat) : ∀ (fuel : Nat) (stack : List Nat) (tris : Array (PTri K)),
    VSame (flood edges nf fuel stack tris) tris := by
  intro fuel
  induction fuel with
  | zero => intro stack tris; unfold flood; exact fun _ => rfl
  | succ fuel ih =>
    intro stack tris
    cases stack with
    | nil => unfold flood; exact fun _ => rfl
    | cons t stack =>
      unfold flood
      split
      · exact ih _ _
      · rename_i tr htr
        simp only
        refine (ih _ _).trans ?_
        -- the three-step fold only sets `parent` fields
        have hstep : ∀ (l : List Nat) (acc : List Nat × Array (PTri K)), VSame acc.2 tris →
            VSame (l.foldl (fun (acc : List Nat × Array (PTri K)) (k : Nat) =>
              match edges[get3 tr.e k]? with
              | some e =>
                if e.deleted then
                  match acc.2[e.otherTriangle t]? with
                  | some ot => if ot.parent.isNone then (e.otherTriangle t :: acc.1, acc.2.set! (e.otherTriangle t) { ot with parent := some nf }) else acc
                  | Option.none => acc
                else acc
              | Option.none => acc) acc).2 tris := by
          intro l
          induction l with
          | nil => intro acc h; exact h
          | cons k l ihl =>
            intro acc h
            rw [List.foldl_cons]
            apply ihl
            split
            · split
              · split
                · rename_i ot hot
                  split
                  · exact (vsame_setParent acc.2 _ ot _ hot).trans h
                  · exact h
                · exact h
              · exact h
            · exact h
        exact hstep [0, 1, 2] (stack, tris) (fun _ => rfl)

/-- pass-3 state: the triangles keep their vertex triples and every contour vertex is a corner of a triangle -/
structure P3VInv (tris0 : Array (PTri K)) (st : P3State K) : Prop where
  same : VSame st.tris tris0
  vok : ∀ x, x ∈ st.vaf.toList → VOk tris0 x

theorem faceStep_vinv (edges : Array (PEdge K)) (tris0 : Array (PTri K)) (st st' : P3State K) (i : Nat)
    (h : faceStep edges st i = .ok st') (hi : P3VInv tris0 st) : P3VInv tris0 st' := by
  unfold faceStep at h
  split at h
  · cases h
  · rename_i t ht
    split at h
    · simp only [Res.ok.injEq] at h; subst h; exact hi
    · simp only at h
      obtain ⟨fl, _, h⟩ := Res.bind_ok _ _ _ h
      split at h
      · simp only [Res.ok.injEq] at h; subst h; exact hi
      · rename_i j1
        obtain ⟨s, hw, h⟩ := Res.bind_ok _ _ _ h
        obtain ⟨w1, w2⟩ := walk_vinv edges tris0 _ _ _ _ _ hw hi.same (by
          intro x hx
          simp only [Array.toList_push, List.mem_append, List.mem_singleton] at hx
          rcases hx with hx | rfl
          · exact hi.vok x hx
          · exact vok_of_vsame tris0 st.tris hi.same i t _ ht)
        split at h
        · simp only [Res.ok.injEq] at h; subst h
          exact ⟨(flood_vsame edges _ _ _ _).trans w1, w2⟩
        · simp only [Res.ok.injEq] at h; subst h
          exact ⟨w1, w2⟩

theorem pass3_vinv (edges : Array (PEdge K)) (tris0 : Array (PTri K)) : ∀ (l : List Nat) (st st' : P3State K),
    pass3 edges l st = .ok st' → P3VInv tris0 st → P3VInv tris0 st' := by
  intro l
  induction l with
  | nil => intro st st' h hi; simp only [pass3, Res.ok.injEq] at h; subst h; exact hi
  | cons a l ih =>
    intro st st' h hi
    simp only [pass3] at h
    obtain ⟨s1, h1, h2⟩ := Res.bind_ok _ _ _ h
    exact ih s1 st' h2 (faceStep_vinv edges tris0 st s1 a h1 hi)

/-! ## pass 5: the vertex rows lie inside `faces_adj_to_vertex` / `edges_adj_to_vertex` -/

theorem offsets_first_le (vs : Array PVertex) : ∀ (i : Nat) (v : PVertex), (offsets vs).1[i]? = some v → v.first ≤ (offsets vs).2 := by
  unfold offsets
  rw [← Array.foldl_toList]
  have key : ∀ (l : List PVertex) (acc : Array PVertex × Nat), (∀ (i : Nat) (v : PVertex), acc.1[i]? = some v → v.first ≤ acc.2) →
      ∀ (i : Nat) (v : PVertex),
        (l.foldl (fun (acc : Array PVertex × Nat) v => (acc.1.push { first := acc.2, num := v.num }, acc.2 + v.num)) acc).1[i]? = some v →
        v.first ≤ (l.foldl (fun (acc : Array PVertex × Nat) v => (acc.1.push { first := acc.2, num := v.num }, acc.2 + v.num)) acc).2 := by
    intro l
    induction l with
    | nil => intro acc h; exact h
    | cons a l ih =>
      intro acc h
      rw [List.foldl_cons]
      apply ih
      intro i v hv
      simp only at hv ⊢
      rw [Array.getElem?_push] at hv
      split at hv
      · simp only [Option.some.injEq] at hv; subst hv; simp
      · have := h i v hv; omega
  exact key vs.toList (#[], 0) (fun i v hv => by simp at hv)

/-- the rows of the vertex table lie inside the two adjacency arrays, which have the same length -/
structure FillInv (st : FillState) : Prop where
  sz : st.fav.size = st.eav.size
  rows : ∀ (i : Nat) (v : PVertex), st.vs[i]? = some v → v.first + v.num ≤ st.fav.size

theorem fillStep_inv (vaf eaf : Array Nat) (acc : Option FillState × Nat) (f : PFace K)
    (h : ∀ st, acc.1 = some st → FillInv st) : ∀ st, (fillStep vaf eaf acc f).1 = some st → FillInv st := by
  intro st hst
  unfold fillStep at hst
  simp only at hst
  cases ha : acc.1 with
  | none => rw [ha] at hst; simp at hst
  | some st0 =>
    rw [ha] at hst
    simp only [Option.bind_some] at hst
    split at hst
    · have key : ∀ (fid : Nat) (l : List Nat) (a : Option FillState), (∀ s, a = some s → FillInv s) → ∀ s,
          l.foldl (fun (acc' : Option FillState) k => acc'.bind fun st =>
            match vaf[f.first + k]?, eaf[f.first + k]? with
            | some vi, some ei =>
              match st.vs[vi]? with
              | some v =>
                if v.first + v.num < st.fav.size then
                  some { vs := st.vs.set! vi { v with num := v.num + 1 }, fav := st.fav.set! (v.first + v.num) fid, eav := st.eav.set! (v.first + v.num) ei }
                else Option.none
              | Option.none => Option.none
            | _, _ => Option.none) a = some s → FillInv s := by
        intro fid l
        induction l with
        | nil => intro a ha s hs; exact ha s hs
        | cons k l ih =>
          intro a ha s hs
          rw [List.foldl_cons] at hs
          refine ih _ ?_ s hs
          intro s1 hs1
          cases haa : a with
          | none => rw [haa] at hs1; simp at hs1
          | some s0 =>
            rw [haa] at hs1
            simp only [Option.bind_some] at hs1
            have i0 := ha s0 haa
            split at hs1
            · split at hs1
              · rename_i v hv
                split at hs1
                · rename_i hpos
                  simp only [Option.some.injEq] at hs1; subst hs1
                  refine ⟨by simp [i0.sz], ?_⟩
                  intro i w hw
                  simp only at hw ⊢
                  rw [Array.set!_eq_setIfInBounds, Array.getElem?_setIfInBounds] at hw
                  simp only [Array.set!_eq_setIfInBounds, Array.size_setIfInBounds]
                  split at hw
                  · split at hw
                    · simp only [Option.some.injEq] at hw; subst hw; simp only; omega
                    · cases hw
                  · exact i0.rows i w hw
                · cases hs1
              · cases hs1
            · cases hs1
      exact key acc.2 (List.range f.num) (some st0) (fun s hs => by simp only [Option.some.injEq] at hs; subst hs; exact h st0 ha) st hst
    · cases hst

theorem fillFold_inv (vaf eaf : Array Nat) : ∀ (l : List (PFace K)) (acc : Option FillState × Nat),
    (∀ st, acc.1 = some st → FillInv st) → ∀ st, (l.foldl (fillStep vaf eaf) acc).1 = some st → FillInv st := by
  intro l
  induction l with
  | nil => intro acc h; exact h
  | cons f l ih => intro acc h; rw [List.foldl_cons]; exact ih _ (fillStep_inv vaf eaf acc f h)

end C12
