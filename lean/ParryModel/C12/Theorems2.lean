import ParryModel.Field
import ParryModel.C12.Lemmas
/-!
# C12 theorems, second pass: theorems ABOUT THE 2-D QUICKHULL ALGORITHM `convex_hull2_idx`

Everything in the first section is proved for **every** `Num` instance `K` — the lawful one (`fieldNum K sq`, any linearly
ordered field), but also `Float` and `Rat` themselves — because the statements are structural (indices, links, list
membership, the Boolean outcome of `can_be_seen_by`, counting).  The second section specialises to ordered fields where the
Boolean tests become strict inequalities.  The definitions used in the statements (`StateOK`, `VisOK`, `VertsOK`, `SplitOf`,
`AttachProps`, `pot`, `hullLoopIdx`, `DoneBelow`, `newF1`, `newF2`, `relink`, `withVis`, `invalidate`, `visOf`) are in
`Lemmas.lean`, each with a docstring.
-/
namespace C12
open Model

section Structural
variable {K : Type} [Num K]

/-! ## (1) structural safety: every stored point index is `< pts.size`, every facet link is `< segs.size` -/

/-- **undecidable-point loop is index-safe**: the `while i != undecidable.len()` loop with `swap_remove` only moves points
from the undecidable list to one of the two facets: if all indices in `und`, `f1.visible`, `f2.visible` are `< n` then so are all
indices in the three results; facet end points, normals and links are untouched. -/
theorem assignUndecidable_indices_valid (eps100 : K) (pts : Array (V2 K)) (fuel i n : Nat) (und : Array Nat)
    (f1 f2 : SegFacet K) (hu : ∀ u ∈ und, u < n) (h1 : ∀ v ∈ f1.visible, v < n) (h2 : ∀ v ∈ f2.visible, v < n) :
    (∀ u ∈ (assignUndecidable eps100 pts fuel i und f1 f2).1, u < n) ∧
    (∀ v ∈ (assignUndecidable eps100 pts fuel i und f1 f2).2.1.visible, v < n) ∧
    (∀ v ∈ (assignUndecidable eps100 pts fuel i und f1 f2).2.2.visible, v < n) ∧
    (∃ e1, (assignUndecidable eps100 pts fuel i und f1 f2).2.1 = { f1 with visible := f1.visible ++ e1 }) ∧
    (∃ e2, (assignUndecidable eps100 pts fuel i und f1 f2).2.2 = { f2 with visible := f2.visible ++ e2 }) := by
  obtain ⟨e1, e2, a1, a2, a3, a4, a5, _⟩ := assignUndecidable_spec eps100 pts fuel i und f1 f2
  refine ⟨fun u h => hu u (a5 u h), ?_, ?_, ⟨e1, a1⟩, ⟨e2, a2⟩⟩
  · intro v hv
    rw [a1] at hv
    rcases List.mem_append.mp hv with h | h
    · exact h1 v h
    · exact hu v (a3 v h).1
  · intro v hv
    rw [a2] at hv
    rcases List.mem_append.mp hv with h | h
    · exact h2 v h
    · exact hu v (a4 v h).1

/-- **`get_initial_polyline` is index-safe**: when the asserts pass, the two initial facets only store indices `< pts.size`
(end points, visible lists), the undecidable list only stores indices `< pts.size`, and `next`/`prev` are `< 2 = segs.size`. -/
theorem initialPolyline_indices_valid (negMax eps100 : K) (pts : Array (V2 K)) (st : HullState K)
    (h : initialPolyline negMax eps100 pts = some st) : StateOK pts.size st :=
  initialPolyline_ok negMax eps100 pts st h

/-- **`attach_and_push_facets2` is index-safe**: called with valid facet ids `prev`, `next` and a valid point index, it
preserves the invariant "all stored point indices `< n`, all links `< segs.size`" (and reads no out-of-range element: the
`getD` defaults of the model are never used under these hypotheses). -/
theorem attach_indices_valid {n : Nat} (eps100 : K) (pts : Array (V2 K)) (st : HullState K)
    (prevF nextF point removed : Nat) (h : StateOK n st) (hp : prevF < st.segs.size) (hn : nextF < st.segs.size)
    (hpt : point < n) : StateOK n (attach eps100 pts st prevF nextF point removed) :=
  attach_ok eps100 pts st prevF nextF point removed h hp hn hpt

/-- **the main loop is index-safe** for any amount of fuel, from any loop counter. -/
theorem hullLoop_indices_valid {n : Nat} (negMax eps100 : K) (pts : Array (V2 K)) (fuel i : Nat) (st : HullState K)
    (h : StateOK n st) : StateOK n (hullLoop negMax eps100 pts fuel i st) :=
  hullLoop_ok negMax eps100 pts fuel i st h

/-- **hull indices are input indices**: every index returned by `convex_hull2_idx` is `< points.len()`, for every input
array (so `convex_hull2`'s `points[id]` cannot panic). -/
theorem convexHull2Idx_indices_valid (negMax eps100 : K) (pts : Array (V2 K)) (idx : List Nat)
    (h : convexHull2Idx negMax eps100 pts = some idx) : ∀ j ∈ idx, j < pts.size := by
  obtain ⟨st0, h0, hall⟩ := convexHull2Idx_final negMax eps100 pts idx h
  intro j hj
  obtain ⟨k, f, hk, _, rfl⟩ := hall j hj
  exact ((hullLoop_ok negMax eps100 pts _ 0 st0 (initialPolyline_ok negMax eps100 pts st0 h0)).1 k f hk).1.1

/-! ## (3, structural half) where hull vertices come from -/

/-- **the split point is one of the facet's visible points** (and a valid input index as soon as the visible list is). -/
theorem split_point_mem_visible (negMax : K) (pts : Array (V2 K)) (f : SegFacet K) (point : Nat)
    (h : indexedSupportPointId negMax f.normal pts f.visible = some point) : point ∈ f.visible ∧ point < pts.size :=
  support_mem negMax f.normal pts f.visible point h

/-- **provenance of every facet end point, at every step**: in the state reached by the main loop from the initial
polyline, each end point of each facet is one of the two initial points (`p0`/`p1` of facet 0) or is the
`indexed_support_point_id` of a removed (`valid = false`) facet `f'` that is still stored in `segs`, in direction `f'.normal`
over `f'.visible` (`SplitOf`). -/
theorem hullLoop_vertex_provenance (negMax eps100 : K) (pts : Array (V2 K)) (st0 : HullState K) (fuel i : Nat)
    (h : initialPolyline negMax eps100 pts = some st0) :
    ∃ (a b : Nat) (f0 : SegFacet K), st0.segs[0]? = some f0 ∧ f0.p0 = a ∧ f0.p1 = b ∧
      VertsOK negMax pts a b (hullLoop negMax eps100 pts fuel i st0) := by
  obtain ⟨a, b, f0, h0, ha, hb, hv⟩ := initialPolyline_verts negMax eps100 pts st0 h
  exact ⟨a, b, f0, h0, ha, hb, hullLoop_verts negMax eps100 pts a b fuel i st0 (initialPolyline_ok negMax eps100 pts st0 h) hv⟩

/-- **every returned hull vertex** is an initial point or the support point of a removed facet over that facet's visible
points. -/
theorem convexHull2Idx_vertex_provenance (negMax eps100 : K) (pts : Array (V2 K)) (idx : List Nat)
    (h : convexHull2Idx negMax eps100 pts = some idx) :
    ∃ (st0 : HullState K) (a b : Nat), initialPolyline negMax eps100 pts = some st0 ∧
      (st0.segs[0]?.map (·.p0)) = some a ∧ (st0.segs[0]?.map (·.p1)) = some b ∧
      ∀ j ∈ idx, j = a ∨ j = b ∨ ∃ (k' : Nat) (f' : SegFacet K),
        (hullLoop negMax eps100 pts (2 * pts.size + 8) 0 st0).segs[k']? = some f' ∧ SplitOf negMax pts f' j := by
  obtain ⟨st0, h0, hall⟩ := convexHull2Idx_final negMax eps100 pts idx h
  obtain ⟨a, b, f0, hf0, ha, hb, hv⟩ := hullLoop_vertex_provenance negMax eps100 pts st0 (2 * pts.size + 8) 0 h0
  refine ⟨st0, a, b, h0, by rw [hf0, ← ha]; rfl, by rw [hf0, ← hb]; rfl, ?_⟩
  intro j hj
  obtain ⟨k, f, hk, _, rfl⟩ := hall j hj
  exact hv k f hk f.p0 (Or.inl rfl)

/-! ## (4) visible lists only contain points that see their facet -/

/-- **`get_initial_polyline`**: every point put in a visible list passes that facet's `can_be_seen_by`. -/
theorem initialPolyline_visible_seen (negMax eps100 : K) (pts : Array (V2 K)) (st : HullState K)
    (h : initialPolyline negMax eps100 pts = some st) : VisOK eps100 pts st :=
  initialPolyline_vis negMax eps100 pts st h

/-- **`attach_and_push_facets2`** preserves "every visible point passes its facet's `can_be_seen_by`". -/
theorem attach_visible_seen (eps100 : K) (pts : Array (V2 K)) (st : HullState K) (prevF nextF point removed : Nat)
    (h : VisOK eps100 pts st) : VisOK eps100 pts (attach eps100 pts st prevF nextF point removed) :=
  attach_vis eps100 pts st prevF nextF point removed h

/-- **main loop**: at every step, every point of every facet's visible list passes that facet's `can_be_seen_by`. -/
theorem hullLoop_visible_seen (negMax eps100 : K) (pts : Array (V2 K)) (st0 : HullState K) (fuel i : Nat)
    (h : initialPolyline negMax eps100 pts = some st0) : VisOK eps100 pts (hullLoop negMax eps100 pts fuel i st0) :=
  hullLoop_vis negMax eps100 pts fuel i st0 (initialPolyline_vis negMax eps100 pts st0 h)

/-- **what `attach_and_push_facets2` does, exactly**: the new state is the old facet array with the two link updates, plus
two facets `SegmentFacet::new(prev_pt, point, prev, id2)` / `new(point, next_pt, id1, next)` whose visible lists `e1`, `e2`
satisfy `AttachProps`: each listed point comes from the removed facet's list (≠ `point`) or from the undecidable list and sees
its facet (those in `e2` do not see facet 1); every point left in the undecidable list sees neither new facet; no undecidable
point is lost; and **every point of the removed facet that is dropped (≠ `point`, in neither list) sees neither new
facet**; the counting inequality is the termination argument. -/
theorem attach_characterisation (eps100 : K) (pts : Array (V2 K)) (st : HullState K) (prevF nextF point removed : Nat) :
    ∃ (e1 e2 : List Nat) (und' : Array Nat),
      attach eps100 pts st prevF nextF point removed =
        { segs := ((relink st.segs prevF nextF).push (withVis (newF1 pts st prevF point) e1)).push
                    (withVis (newF2 pts st nextF point) e2), und := und' } ∧
      AttachProps eps100 pts st prevF nextF point removed e1 e2 und' :=
  attach_spec eps100 pts st prevF nextF point removed

/-- **dropped points see neither new facet** (stated on the resulting state): with `n0 = segments.len()` before the call, the
facets at `n0` and `n0+1` afterwards are the two new ones, and every visible point `v ≠ point` of the removed facet is in
the first one's list, or in the second one's, or fails `can_be_seen_by` for both. -/
theorem attach_dropped_unseen (eps100 : K) (pts : Array (V2 K)) (st : HullState K) (prevF nextF point removed : Nat) :
    ∃ (F1 F2 : SegFacet K),
      (attach eps100 pts st prevF nextF point removed).segs[st.segs.size]? = some F1 ∧
      (attach eps100 pts st prevF nextF point removed).segs[st.segs.size + 1]? = some F2 ∧
      (attach eps100 pts st prevF nextF point removed).segs.size = st.segs.size + 2 ∧
      F1.p1 = point ∧ F2.p0 = point ∧ F1.prev = prevF ∧ F1.next = st.segs.size + 1 ∧ F2.prev = st.segs.size ∧ F2.next = nextF ∧
      ∀ v ∈ visOf st removed, v ≠ point → v ∈ F1.visible ∨ v ∈ F2.visible ∨
        (F1.canBeSeenBy eps100 v pts = false ∧ F2.canBeSeenBy eps100 v pts = false) := by
  obtain ⟨e1, e2, und', heq, p1, p2, p3, p4, p5, p6⟩ := attach_spec eps100 pts st prevF nextF point removed
  refine ⟨withVis (newF1 pts st prevF point) e1, withVis (newF2 pts st nextF point) e2, ?_, ?_, ?_, rfl, rfl, rfl, rfl, rfl, rfl, ?_⟩
  · rw [heq]; simp only [Array.getElem?_push, Array.size_push, relink_size]
    simp
  · rw [heq]; simp only [Array.getElem?_push, Array.size_push, relink_size]
    simp
  · rw [heq]; simp [relink_size]
  · intro v hv hne
    rcases p5 v hv hne with h | h | h
    · exact Or.inl (by simp [withVis, newF1, SegFacet.new, h])
    · exact Or.inr (Or.inl (by simp [withVis, newF2, SegFacet.new, h]))
    · exact Or.inr (Or.inr h)

/-! ## (5) termination: the fuel `2·n + 8` is never exhausted -/

/-- **each attaching step consumes a point**: the measure `pot` (points waiting in visible lists of valid facets + undecidable
points) strictly decreases when facet `i` is replaced by two facets around its support point — the support point is in
`f.visible`, is skipped by the redistribution loop, and nothing else is ever added. -/
theorem attach_step_decreases_measure (negMax eps100 : K) (pts : Array (V2 K)) (st : HullState K) (i : Nat)
    (f : SegFacet K) (point : Nat) (hf : st.segs[i]? = some f) (hv : f.valid = true)
    (hp : indexedSupportPointId negMax f.normal pts f.visible = some point) :
    pot (attach eps100 pts (invalidate st i) f.prev f.next point i) + 1 ≤ pot st :=
  pot_step negMax eps100 pts st i f point hf hv hp

/-- `hullLoopIdx` is `hullLoop` with the final loop counter exposed. -/
theorem hullLoopIdx_state (negMax eps100 : K) (pts : Array (V2 K)) (fuel i : Nat) (st : HullState K) :
    (hullLoopIdx negMax eps100 pts fuel i st).2 = hullLoop negMax eps100 pts fuel i st :=
  hullLoopIdx_snd negMax eps100 pts fuel i st

/-- **the loop exits by its own condition** `i == segments.len()` whenever the fuel is at least
`(segs.size - i) + 2·pot st` (each step advances `i`; an attaching step adds two facets but uses up a point). -/
theorem hullLoop_reaches_exit (negMax eps100 : K) (pts : Array (V2 K)) (fuel i : Nat) (st : HullState K)
    (hi : i ≤ st.segs.size) (hfuel : (st.segs.size - i) + 2 * pot st ≤ fuel) :
    (hullLoopIdx negMax eps100 pts fuel i st).1 = (hullLoopIdx negMax eps100 pts fuel i st).2.segs.size :=
  hullLoopIdx_exit negMax eps100 pts fuel i st hi hfuel

/-- **the model's fuel `2·n + 8` suffices for every input**: started from the initial polyline the main loop stops because
`i == segments.len()`, not because the fuel ran out (`2 + 2·(n-2) ≤ 2·n + 8`), i.e. the real `while` loop terminates and the
model's cap is never the reason for stopping. -/
theorem convexHull2Idx_fuel_suffices (negMax eps100 : K) (pts : Array (V2 K)) (st0 : HullState K)
    (h : initialPolyline negMax eps100 pts = some st0) :
    (hullLoopIdx negMax eps100 pts (2 * pts.size + 8) 0 st0).1 =
      (hullLoop negMax eps100 pts (2 * pts.size + 8) 0 st0).segs.size := by
  obtain ⟨hs, hp⟩ := pot_initial negMax eps100 pts st0 h
  rw [← hullLoopIdx_snd]
  exact hullLoopIdx_exit negMax eps100 pts _ 0 st0 (Nat.zero_le _) (by omega)

/-- **at most `n - 2` attach steps**: the facet array never grows beyond `2·n - 2` entries (2 initial + 2 per attach). -/
theorem hullLoop_facet_count (negMax eps100 : K) (pts : Array (V2 K)) (st0 : HullState K) (fuel : Nat)
    (h : initialPolyline negMax eps100 pts = some st0) :
    (hullLoop negMax eps100 pts fuel 0 st0).segs.size + 2 ≤ 2 * pts.size := by
  obtain ⟨hs, hp⟩ := pot_initial negMax eps100 pts st0 h
  have := hullLoop_size_pot negMax eps100 pts fuel 0 st0
  omega

/-- **nothing is left to do at exit**: in the final state of `convex_hull2_idx`'s main loop every facet that is still valid
has no support point (`indexed_support_point_id` over its visible list is `None`). -/
theorem convexHull2Idx_all_processed (negMax eps100 : K) (pts : Array (V2 K)) (st0 : HullState K)
    (h : initialPolyline negMax eps100 pts = some st0) :
    ∀ (k : Nat) (g : SegFacet K), (hullLoop negMax eps100 pts (2 * pts.size + 8) 0 st0).segs[k]? = some g → g.valid = true →
      indexedSupportPointId negMax g.normal pts g.visible = none := by
  have hd := hullLoopIdx_done negMax eps100 pts (2 * pts.size + 8) 0 st0 (fun k g hk => by omega)
  have he := convexHull2Idx_fuel_suffices negMax eps100 pts st0 h
  rw [hullLoopIdx_snd] at hd
  intro k g hg hv
  exact hd k g (by rw [he]; exact (Array.getElem?_eq_some_iff.mp hg).1) hg hv

end Structural
/-! ## non-vacuity: the model evaluated over `ℚ` (the `Num Rat` instance; kernel evaluation, no `native_decide`)

`exCloud` is a 4×3 rectangle (so that every edge length, including the 3-4-5 diagonal created by the first split, is
rational) with an interior point (index 4), a duplicate of a corner (index 5) and a point on the bottom edge (index 6, which
goes to the undecidable list). -/
section Examples

def exCloud : Array (V2 Rat) := #[⟨0, 0⟩, ⟨4, 0⟩, ⟨4, 3⟩, ⟨0, 3⟩, ⟨2, 1⟩, ⟨4, 3⟩, ⟨2, 0⟩]
def exSt0 : HullState Rat := (initialPolyline (K := Rat) (-1000000) (1 / 1000000) exCloud).getD ⟨#[], #[]⟩
def exFinal : HullState Rat := hullLoop (K := Rat) (-1000000) (1 / 1000000) exCloud (2 * 7 + 8) 0 exSt0

/-- the hypotheses `convexHull2Idx … = some idx` of the theorems above are satisfiable, with a non-trivial hull -/
example : convexHull2Idx (K := Rat) (-1000000) (1 / 1000000) exCloud = some [0, 1, 2, 3] := by decide +kernel
/-- the initial polyline exists; four points are visible from the first facet, one point is undecidable -/
example : (initialPolyline (K := Rat) (-1000000) (1 / 1000000) exCloud).map
    (fun s => (s.und.toList, s.segs.toList.map (·.visible))) = some ([6], [[2, 3, 4, 5], []]) := by decide +kernel
/-- two attach steps happen (6 facets = 2 + 2·2 ≤ 2·7 − 2), the loop counter stops at `segs.size`, the measure starts at 5 = 7 − 2 -/
example : (hullLoopIdx (K := Rat) (-1000000) (1 / 1000000) exCloud (2 * 7 + 8) 0 exSt0).1 = 6 ∧ exFinal.segs.size = 6 ∧
    pot exSt0 = 5 ∧ pot exFinal = 1 := by decide +kernel
/-- final facets `([valid, p0, p1, next, prev], visible)`: removed facets keep their visible lists (the witnesses of
`SplitOf`), the interior point 4 and the duplicate 5 were dropped, every valid facet has an empty list -/
example : exFinal.segs.toList.map (fun f => ([f.valid.toNat, f.p0, f.p1, f.next, f.prev], f.visible)) =
    [([0, 1, 0, 1, 1], [2, 3, 4, 5]), ([1, 0, 1, 2, 5], []), ([1, 1, 2, 4, 1], []), ([0, 2, 0, 1, 2], [3]),
     ([1, 2, 3, 5, 2], []), ([1, 3, 0, 1, 4], [])] := by decide +kernel
/-- the undecidable point on the bottom edge stays undecidable to the end -/
example : exFinal.und.toList = [6] := by decide +kernel
/-- the panic cases: one point, and three coincident points -/
example : (initialPolyline (K := Rat) (-1000000) (1 / 1000000) #[⟨1, 2⟩]).isNone = true ∧
    (initialPolyline (K := Rat) (-1000000) (1 / 1000000) #[⟨1, 2⟩, ⟨1, 2⟩, ⟨1, 2⟩]).isNone = true ∧
    (initialPolyline (K := Rat) (-1000000) (1 / 1000000) #[⟨1, 2⟩, ⟨1, 2⟩, ⟨1, 3⟩]).isSome = true := by decide +kernel

end Examples

end C12
