import ParryModel.Proto
import ParryModel.C12.Validate
import ParryModel.C12.Driver4
/-! C12 protocol handler (fu5): the maintainers' validator `check_convex_hull` (`validate3`). -/
namespace C12
open Proto
open Model Model.H3

def validateModel (pts : List (V3 Float)) (tris : List (Nat × Nat × Nat)) : String :=
  if checkConvexHull pts.toArray (tris.map fun (a, b, c) => (⟨a, b, c⟩ : T3)).toArray then "ok" else "panic"

/-- independent characterisation of what the validator must accept (exact values, no edge map: sorted side list and counting):
no two points with equal coordinates; every triangle has three different indices; every undirected side occurs in exactly two
triangle sides; `V + F - E = 2` with `E` the number of distinct undirected sides.  Returns the first reason for rejection. -/
def validateExpect (pts : List (V3 Float)) (tris : List (Nat × Nat × Nat)) : Option String :=
  let P := pts.map q3
  let rec dup : List (V3 Rat) → Bool
    | [] => false
    | p :: r => r.any (fun x => eq3 p x) || dup r
  if dup P then some "duplicate-points" else
  if tris.any (fun (a, b, c) => a == b || a == c || b == c) then some "triangle-with-repeated-index" else
  let und (a b : Nat) : Nat × Nat := (min a b, max a b)
  let sides := tris.flatMap fun (a, b, c) => [und a b, und b c, und c a]
  let distinct := sides.eraseDups
  match distinct.find? (fun s => sides.count s != 2) with
  | some s => some (if sides.count s == 1 then s!"open-edge-{s.1}-{s.2}" else s!"edge-with-{sides.count s}-triangles-{s.1}-{s.2}")
  | none => if (pts.length : Int) + tris.length - distinct.length != 2 then some s!"euler-V={pts.length}-F={tris.length}-E={distinct.length}" else none

/-- `try_convex_hull` followed by the maintainers' validator on its result -/
def hull3vModel (pts : List (V3 Float)) (evec : List (V3 Float)) (eval : List Float) : String :=
  match tryConvexHull negMaxF3 pts.toArray evec eval with
  | .ok (v, t) => if checkConvexHull v t then "ok" else "panic"
  | .err e => s!"err {e}"
  | .panic => "hullpanic"
  | .hang => "hang"
  | .lowdim => "lowdim"

def handler5 (fn : String) : Option Handler :=
  match fn with
  | "hull3v" => some {
      -- args as for `hull3m`: the cloud, then the observed eigen-decomposition
      model := fun a => run (do
        let pts ← plist pv3
        let c0 ← pv3; let c1 ← pv3; let c2 ← pv3
        let e0 ← pf; let e1 ← pf; let e2 ← pf
        pure (hull3vModel pts [c0, c1, c2] [e0, e1, e2])) a
      -- the property: the hull of a non-degenerate cloud is a closed 2-manifold with Euler characteristic 2 and its vertices are
      -- distinct input points, i.e. exactly what the maintainers' validator checks (`checkConvexHull_iff`): it must accept
      oracle := fun a o => match run (do let pts ← plist pv3; pure pts) a with
        | some input => (match o with
          | "ok" :: _ => "pass"
          | "lowdim" :: _ => "skip fewer-than-3-points"
          | "panic" :: _ => if fullDim (input.map q3) then "fail maintainers-validator-rejects-the-hull" else "skip degenerate-cloud"
          | "hullpanic" :: _ => "fail panic"
          | "err" :: _ => if fullDim (input.map q3) then "fail error-for-a-full-dimensional-cloud" else "skip degenerate-input-reported-as-error"
          | _ => "fail unparsable-output")
        | none => "skip bad-args" }
  | "validate3" => some {
      model := fun a => run (do let pts ← plist pv3; let tris ← ptris; pure (validateModel pts tris)) a
      oracle := fun a o => match run (do let pts ← plist pv3; let tris ← ptris; pure (pts, tris)) a with
        | some (pts, tris) =>
          if !(pts.all finite3) then "skip non-finite-point" else
          (match validateExpect pts tris, o with
          | none, "ok" :: _ => "pass"
          | some _, "panic" :: _ => "pass"
          | none, _ => "fail validator-rejects-a-closed-manifold-mesh-with-euler-characteristic-2"
          | some why, _ => s!"fail validator-accepts-{why}")
        | none => "skip bad-args" }
  | _ => none

end C12
