import ParryModel.Field
import Mathlib.Tactic.IntervalCases
import ParryModel.C15.Theorems
import ParryModel.C16.Model
import ParryModel.C16.Lemmas
import ParryModel.C16.LemmasHM
import ParryModel.C16.Geometry
/-!
# C16 property theorems, part 6: Hertel–Mehlhorn pieces are convex — inputs in general position.

`ConvexPiece f piece`: every vertex of the piece lies on the closed left of every directed edge of the piece (the
oracle's `isConvexCcw`; for a closed polygon this is convexity plus counter-clockwise orientation).

`hm_pieces_convex_general_position`: if no three input points with distinct indices are collinear, all input triangles
are strictly counter-clockwise and use valid indices, then **every output piece is convex**, has no repeated vertex and
at least three vertices.  The proof is the gluing lemma of `Geometry.lean` (`cone_left_e`, `cone_left_s`,
`far_edge_left`): two convex polygons on opposite sides of a common edge whose two new corners are not clockwise — exactly
the two `corner_direction(..) != Cw` tests of the code — form a convex polygon.

Not covered (left to the exact oracle): inputs with collinear vertices, where pieces have straight corners and the cone
argument degenerates (`hm_pieces_convex_full` in `Theorems5.lean` is the unrestricted statement).
-/
namespace C16
open Model Model.C15 Model.C16 C15

variable {K : Type} [Field K] [LinearOrder K] [IsStrictOrderedRing K]

/-- every vertex on the closed left of every edge -/
def ConvexPiece (f : Nat → V2 K) (piece : List Nat) : Prop :=
  ∀ e ∈ polyEdges piece, ∀ v ∈ piece, 0 ≤ area2 (f e.1) (f e.2) (f v)

/-- no three points with pairwise distinct indices `< n` are collinear -/
def GeneralPosition (f : Nat → V2 K) (n : Nat) : Prop :=
  ∀ i j k, i < n → j < n → k < n → i ≠ j → j ≠ k → i ≠ k → area2 (f i) (f j) (f k) ≠ 0

theorem ConvexPiece.rotate {f : Nat → V2 K} {l : List Nat} (h : ConvexPiece f l) (k : Nat) :
    ConvexPiece f (l.rotate k) := by
  intro e he v hv
  rw [polyEdges_rotate, List.mem_rotate] at he
  exact h e he v (List.mem_rotate.mp hv)

private theorem getLast_of_snoc {l li : List Nat} {z : Nat} (h : l = li ++ [z]) (hne : l ≠ []) : l.getLast hne = z := by
  subst h; simp

/-- edges of the cycle `(x0 :: x1 :: X') ++ [s]` whose part before `s` ends with `z` -/
private theorem polyEdges_cycle_shape (x0 x1 s z : Nat) (X' Xi : List Nat) (hXi : x0 :: x1 :: X' = Xi ++ [z]) :
    polyEdges ((x0 :: x1 :: X') ++ [s]) = (x0, x1) :: (pathEdges (x1 :: X') ++ [(z, s)] ++ [(s, x0)]) := by
  have hne : (x0 :: x1 :: X') ++ [s] ≠ [] := by simp
  rw [polyEdges_eq_path _ hne, pathEdges_append (x0 :: x1 :: X') [s] (by simp) (by simp),
    getLast_of_snoc hXi (by simp)]
  simp [pathEdges_cons_cons, pathEdges]

/-- edges of the glued cycle -/
private theorem polyEdges_glued_shape (e a0 s b0 z y : Nat) (X' Y' Xi Yi : List Nat)
    (hXi : e :: a0 :: X' = Xi ++ [z]) (hYi : s :: b0 :: Y' = Yi ++ [y]) :
    polyEdges ((e :: a0 :: X') ++ (s :: b0 :: Y')) =
      (e, a0) :: (pathEdges (a0 :: X') ++ [(z, s)] ++ ((s, b0) :: (pathEdges (b0 :: Y') ++ [(y, e)]))) := by
  have hne : (e :: a0 :: X') ++ (s :: b0 :: Y') ≠ [] := by simp
  rw [polyEdges_eq_path _ hne, pathEdges_append (e :: a0 :: X') (s :: b0 :: Y') (by simp) (by simp),
    getLast_of_snoc hXi (by simp)]
  have hl : ((e :: a0 :: X') ++ (s :: b0 :: Y')).getLast hne = y := by
    rw [List.getLast_append_of_ne_nil _ (by simp)]; exact getLast_of_snoc hYi (by simp)
  rw [hl]
  simp [pathEdges_cons_cons]

/-- **one half of the gluing lemma**: the edges coming from the first cycle have every vertex of the second cycle on
their closed left -/
private theorem glue_half (f : Nat → V2 K) (n : Nat) (hgp : GeneralPosition f n)
    (e a0 s b0 z y : Nat) (X' Y' Xi Yi : List Nat)
    (hXi : e :: a0 :: X' = Xi ++ [z]) (hYi : s :: b0 :: Y' = Yi ++ [y])
    (ndA : ((e :: a0 :: X') ++ [s]).Nodup) (ndB : ((s :: b0 :: Y') ++ [e]).Nodup)
    (ltA : ∀ x ∈ (e :: a0 :: X') ++ [s], x < n) (ltB : ∀ x ∈ (s :: b0 :: Y') ++ [e], x < n)
    (cA : ConvexPiece f ((e :: a0 :: X') ++ [s])) (cB : ConvexPiece f ((s :: b0 :: Y') ++ [e]))
    (t1 : 0 ≤ area2 (f z) (f s) (f b0)) (t2 : 0 ≤ area2 (f y) (f e) (f a0)) :
    ∀ p, (p = (e, a0) ∨ p ∈ pathEdges (a0 :: X') ∨ p = (z, s)) → ∀ v ∈ (s :: b0 :: Y') ++ [e],
      0 ≤ area2 (f p.1) (f p.2) (f v) := by
  have hEA := polyEdges_cycle_shape e a0 s z X' Xi hXi
  have hEB := polyEdges_cycle_shape s b0 e y Y' Yi hYi
  -- members and named edges
  have mA : ∀ x, x ∈ e :: a0 :: X' → x ∈ (e :: a0 :: X') ++ [s] := fun x hx => List.mem_append_left _ hx
  have sA : s ∈ (e :: a0 :: X') ++ [s] := by simp
  have eA : e ∈ (e :: a0 :: X') ++ [s] := by simp
  have a0A : a0 ∈ (e :: a0 :: X') ++ [s] := by simp
  have zA : z ∈ (e :: a0 :: X') ++ [s] := by rw [hXi]; simp
  have sB : s ∈ (s :: b0 :: Y') ++ [e] := by simp
  have eB : e ∈ (s :: b0 :: Y') ++ [e] := by simp
  have b0B : b0 ∈ (s :: b0 :: Y') ++ [e] := by simp
  have yB : y ∈ (s :: b0 :: Y') ++ [e] := by rw [hYi]; simp
  have e_ea0 : (e, a0) ∈ polyEdges ((e :: a0 :: X') ++ [s]) := by rw [hEA]; simp
  have e_zs : (z, s) ∈ polyEdges ((e :: a0 :: X') ++ [s]) := by rw [hEA]; simp
  have e_se : (s, e) ∈ polyEdges ((e :: a0 :: X') ++ [s]) := by rw [hEA]; simp
  have e_path : ∀ p ∈ pathEdges (a0 :: X'), p ∈ polyEdges ((e :: a0 :: X') ++ [s]) := by
    intro p hp; rw [hEA]; simp [hp]
  have e_sb0 : (s, b0) ∈ polyEdges ((s :: b0 :: Y') ++ [e]) := by rw [hEB]; simp
  have e_ye : (y, e) ∈ polyEdges ((s :: b0 :: Y') ++ [e]) := by rw [hEB]; simp
  have e_es : (e, s) ∈ polyEdges ((s :: b0 :: Y') ++ [e]) := by rw [hEB]; simp
  -- distinctness from `Nodup`
  have hes : e ≠ s := by
    intro hh; have := (List.nodup_append.mp ndA).2.2 e (by simp) s (by simp); exact this hh
  have ha0e : a0 ≠ e := by
    have := (List.nodup_cons.mp (List.nodup_append.mp ndA).1).1
    intro hh; exact this (by rw [← hh]; simp)
  have ha0s : a0 ≠ s := (List.nodup_append.mp ndA).2.2 a0 (by simp) s (by simp)
  have hb0s : b0 ≠ s := by
    have := (List.nodup_cons.mp (List.nodup_append.mp ndB).1).1
    intro hh; exact this (by rw [← hh]; simp)
  have hb0e : b0 ≠ e := (List.nodup_append.mp ndB).2.2 b0 (by simp) e (by simp)
  have hzs : z ≠ s := (List.nodup_append.mp ndA).2.2 z (by rw [hXi]; simp) s (by simp)
  have hye : y ≠ e := (List.nodup_append.mp ndB).2.2 y (by rw [hYi]; simp) e (by simp)
  -- `z ≠ e` and `y ≠ s`: `z` is the last of `e :: a0 :: X'`, which has at least two distinct elements
  have hze : z ≠ e := by
    intro hh
    have hnd := (List.nodup_append.mp ndA).1
    rw [hXi] at hnd
    have hmem : e ∈ Xi := by
      cases Xi with
      | nil => simp at hXi
      | cons x Xi' =>
        simp only [List.cons_append, List.cons.injEq] at hXi
        rw [← hXi.1]; simp
    exact (List.nodup_append.mp hnd).2.2 e hmem z (by simp) hh.symm
  have hys : y ≠ s := by
    intro hh
    have hnd := (List.nodup_append.mp ndB).1
    rw [hYi] at hnd
    have hmem : s ∈ Yi := by
      cases Yi with
      | nil => simp at hYi
      | cons x Yi' =>
        simp only [List.cons_append, List.cons.injEq] at hYi
        rw [← hYi.1]; simp
    exact (List.nodup_append.mp hnd).2.2 s hmem y (by simp) hh.symm
  -- strict corners from convexity + general position
  have strict : ∀ i j k, i < n → j < n → k < n → i ≠ j → j ≠ k → i ≠ k → 0 ≤ area2 (f i) (f j) (f k) →
      0 < area2 (f i) (f j) (f k) := fun i j k a b c d e' g h => lt_of_le_of_ne h (Ne.symm (hgp i j k a b c d e' g))
  have se_a0 : 0 < area2 (f s) (f e) (f a0) :=
    strict s e a0 (ltA s sA) (ltA e eA) (ltA a0 a0A) hes.symm ha0e.symm ha0s.symm (cA _ e_se a0 a0A)
  have zs_e : 0 < area2 (f z) (f s) (f e) :=
    strict z s e (ltA z zA) (ltA s sA) (ltA e eA) hzs hes.symm hze (cA _ e_zs e eA)
  have ye_s : 0 < area2 (f y) (f e) (f s) :=
    strict y e s (ltB y yB) (ltB e eB) (ltB s sB) hye hes hys (cB _ e_ye s sB)
  have es_b0 : 0 < area2 (f e) (f s) (f b0) :=
    strict e s b0 (ltB e eB) (ltB s sB) (ltB b0 b0B) hes hb0s.symm hb0e.symm (cB _ e_es b0 b0B)
  intro p hp v hv
  -- the two neighbouring edge lines
  have pev : 0 ≤ area2 (f e) (f a0) (f v) :=
    cone_left_e (f e) (f s) (f y) (f a0) (f v) (cB _ e_es v hv) (cB _ e_ye v hv) t2 se_a0.le ye_s
  have psv : 0 ≤ area2 (f z) (f s) (f v) :=
    cone_left_s (f s) (f e) (f z) (f b0) (f v) (cB _ e_es v hv) (cB _ e_sb0 v hv) t1 zs_e.le es_b0
  rcases hp with rfl | hp | rfl
  · exact pev
  · -- a far edge
    have hpA := e_path p hp
    obtain ⟨m1, _⟩ := mem_pathEdges hp
    have p1A : p.1 ∈ (e :: a0 :: X') ++ [s] := mA _ (List.mem_cons_of_mem _ m1)
    have hnd := (List.nodup_append.mp ndA).1
    have p1e : p.1 ≠ e := fun hh => (List.nodup_cons.mp hnd).1 (hh ▸ m1)
    have p1s : p.1 ≠ s := (List.nodup_append.mp ndA).2.2 p.1 (List.mem_cons_of_mem _ m1) s (by simp)
    have ca : 0 < area2 (f s) (f e) (f p.1) :=
      strict s e p.1 (ltA s sA) (ltA e eA) (ltA _ p1A) hes.symm p1e.symm p1s.symm (cA _ e_se _ p1A)
    have cv : area2 (f s) (f e) (f v) ≤ 0 := by
      have h1 := cB _ e_es v hv
      have : area2 (f s) (f e) (f v) = - area2 (f e) (f s) (f v) := by simp only [area2]; ring
      simp only at h1; linarith
    exact far_edge_left (f p.1) (f p.2) (f s) (f e) (f z) (f a0) (f v) (cA _ hpA s sA) (cA _ hpA e eA) ca cv pev
      (cA _ e_ea0 _ p1A) psv (cA _ e_zs _ p1A) se_a0 zs_e
  · exact psv

/-- **gluing lemma**: two convex cycles `X ++ [s]` (closing edge `s → e`) and `Y ++ [e]` (closing edge `e → s`) whose
two new corners `(z, s, b0)` and `(y, e, a0)` are not clockwise glue to a convex cycle without repeated vertices
(points in general position). -/
private theorem glue_convex (f : Nat → V2 K) (n : Nat) (hgp : GeneralPosition f n)
    (e a0 s b0 z y : Nat) (X' Y' Xi Yi : List Nat)
    (hXi : e :: a0 :: X' = Xi ++ [z]) (hYi : s :: b0 :: Y' = Yi ++ [y])
    (ndA : ((e :: a0 :: X') ++ [s]).Nodup) (ndB : ((s :: b0 :: Y') ++ [e]).Nodup)
    (ltA : ∀ x ∈ (e :: a0 :: X') ++ [s], x < n) (ltB : ∀ x ∈ (s :: b0 :: Y') ++ [e], x < n)
    (cA : ConvexPiece f ((e :: a0 :: X') ++ [s])) (cB : ConvexPiece f ((s :: b0 :: Y') ++ [e]))
    (t1 : 0 ≤ area2 (f z) (f s) (f b0)) (t2 : 0 ≤ area2 (f y) (f e) (f a0)) :
    ((e :: a0 :: X') ++ (s :: b0 :: Y')).Nodup ∧ ConvexPiece f ((e :: a0 :: X') ++ (s :: b0 :: Y')) := by
  have hEA := polyEdges_cycle_shape e a0 s z X' Xi hXi
  have hEB := polyEdges_cycle_shape s b0 e y Y' Yi hYi
  have half1 := glue_half f n hgp e a0 s b0 z y X' Y' Xi Yi hXi hYi ndA ndB ltA ltB cA cB t1 t2
  have half2 := glue_half f n hgp s b0 e a0 y z Y' X' Yi Xi hYi hXi ndB ndA ltB ltA cB cA t2 t1
  have e_se : (s, e) ∈ polyEdges ((e :: a0 :: X') ++ [s]) := by rw [hEA]; simp
  have e_es : (e, s) ∈ polyEdges ((s :: b0 :: Y') ++ [e]) := by rw [hEB]; simp
  have hes : e ≠ s := by
    intro hh; have := (List.nodup_append.mp ndA).2.2 e (by simp) s (by simp); exact this hh
  constructor
  · -- no repeated vertex: a common vertex would be strictly on both sides of the line `s e`
    rw [List.nodup_append]
    refine ⟨(List.nodup_append.mp ndA).1, (List.nodup_append.mp ndB).1, ?_⟩
    intro x hxA _ hxB hxx
    subst hxx
    have xs : x ≠ s := (List.nodup_append.mp ndA).2.2 x hxA s (by simp)
    have xe : x ≠ e := (List.nodup_append.mp ndB).2.2 x hxB e (by simp)
    have xA : x ∈ (e :: a0 :: X') ++ [s] := List.mem_append_left _ hxA
    have xB : x ∈ (s :: b0 :: Y') ++ [e] := List.mem_append_left _ hxB
    have h1 := cA _ e_se x xA
    have h2 := cB _ e_es x xB
    have h3 := hgp s e x (ltA s (by simp)) (ltA e (by simp)) (ltA x xA) hes.symm xe.symm xs.symm
    have : area2 (f s) (f e) (f x) = - area2 (f e) (f s) (f x) := by simp only [area2]; ring
    simp only at h1 h2
    exact h3 (le_antisymm (by linarith) h1)
  · intro p hp v hv
    rw [polyEdges_glued_shape e a0 s b0 z y X' Y' Xi Yi hXi hYi] at hp
    have hvAB : v ∈ (e :: a0 :: X') ++ [s] ∨ v ∈ (s :: b0 :: Y') ++ [e] := by
      rcases List.mem_append.mp hv with h | h
      · exact Or.inl (List.mem_append_left _ h)
      · exact Or.inr (List.mem_append_left _ h)
    simp only [List.mem_cons, List.mem_append, List.not_mem_nil, or_false] at hp
    -- edges of the first cycle
    have first : (p = (e, a0) ∨ p ∈ pathEdges (a0 :: X') ∨ p = (z, s)) → 0 ≤ area2 (f p.1) (f p.2) (f v) := by
      intro h
      rcases hvAB with hvA | hvB
      · refine cA p ?_ v hvA
        rw [hEA]
        rcases h with rfl | h | rfl <;> simp [*]
      · exact half1 p h v hvB
    have second : (p = (s, b0) ∨ p ∈ pathEdges (b0 :: Y') ∨ p = (y, e)) → 0 ≤ area2 (f p.1) (f p.2) (f v) := by
      intro h
      rcases hvAB with hvA | hvB
      · exact half2 p h v hvA
      · refine cB p ?_ v hvB
        rw [hEB]
        rcases h with rfl | h | rfl <;> simp [*]
    rcases hp with h | (h | h) | h | h | h
    · exact first (Or.inl h)
    · exact first (Or.inr (Or.inl h))
    · exact first (Or.inr (Or.inr h))
    · exact second (Or.inl h)
    · exact second (Or.inr (Or.inl h))
    · exact second (Or.inr (Or.inr h))

variable (sq : K → K)

private def HMCvx (f : Nat → V2 K) (n : Nat) (polys : Array (Array Nat)) : Prop :=
  ∀ p ∈ polys.toList, 3 ≤ p.size ∧ p.toList.Nodup ∧ (∀ x ∈ p.toList, x < n) ∧ ConvexPiece f p.toList

private theorem hmCvx_step (pts : Array (V2 K)) (hgp : GeneralPosition (@pt K (fieldNum K sq) pts) pts.size)
    (polys : Array (Array Nat)) (i j i2 i21 : Nat)
    (hm : @MergeAt K (fieldNum K sq) pts polys i j i2 i21)
    (h : HMCvx (@pt K (fieldNum K sq) pts) pts.size polys) :
    HMCvx (@pt K (fieldNum K sq) pts) pts.size ((polys.eraseIdxIfInBounds i2).setIfInBounds i
      (mergedPoly (polys.getD i #[]) (polys.getD i2 #[]) j i21)) := by
  obtain ⟨hi, hj, hlt, hi2, hi21, hend, hstart, conv1, conv2⟩ := hm
  set f := @pt K (fieldNum K sq) pts
  set p1 := polys.getD i #[] with hp1
  set p2 := polys.getD i2 #[] with hp2
  have hm1 : p1 ∈ polys.toList := by
    have : p1 = polys.toList[i]'(by simpa using hi) := by
      simp [hp1, Array.getD_eq_getD_getElem?, Array.getElem?_eq_getElem hi]
    rw [this]; exact List.getElem_mem _
  have hm2 : p2 ∈ polys.toList := by
    have : p2 = polys.toList[i2]'(by simpa using hi2) := by
      simp [hp2, Array.getD_eq_getD_getElem?, Array.getElem?_eq_getElem hi2]
    rw [this]; exact List.getElem_mem _
  obtain ⟨s1, nd1, lt1, cv1⟩ := h p1 hm1
  obtain ⟨s2, nd2, lt2, cv2⟩ := h p2 hm2
  set new := mergedPoly p1 p2 j i21 with hnew
  have hlist : ((polys.eraseIdxIfInBounds i2).setIfInBounds i new).toList = (polys.toList.eraseIdx i2).set i new := by
    simp [Array.eraseIdxIfInBounds, hi2]
  intro p hp
  rw [hlist] at hp
  rcases List.mem_or_eq_of_mem_set hp with hp | rfl
  · exact h p (List.mem_of_mem_eraseIdx hp)
  · obtain ⟨X', Y', Xi, Yi, hnl, hA, hB, hXi, hYi⟩ := merged_lists p1 p2 j i21 s1 s2 hj hi21 hstart hend
    -- the two tests, as signed areas
    have t1 : 0 ≤ area2 (f (p1.getD ((p1.size + j - 1) % p1.size) 0)) (f (p1.getD j 0))
        (f (p2.getD (((i21 + 1) % p2.size + 1) % p2.size) 0)) := by
      have := (corner_direction_spec sq (f (p2.getD (((i21 + 1) % p2.size + 1) % p2.size) 0))
        (f (p1.getD ((p1.size + j - 1) % p1.size) 0)) (f (p1.getD j 0))).2.1
      have hge : 0 ≤ area2 (f (p2.getD (((i21 + 1) % p2.size + 1) % p2.size) 0))
          (f (p1.getD ((p1.size + j - 1) % p1.size) 0)) (f (p1.getD j 0)) := by
        by_contra hh; push Not at hh; exact conv1 (this.mpr hh)
      rw [← area2_cyc] at hge; exact hge
    have t2 : 0 ≤ area2 (f (p2.getD ((p2.size + i21 - 1) % p2.size) 0)) (f (p1.getD ((j + 1) % p1.size) 0))
        (f (p1.getD (((j + 1) % p1.size + 1) % p1.size) 0)) := by
      have := (corner_direction_spec sq (f (p1.getD (((j + 1) % p1.size + 1) % p1.size) 0))
        (f (p2.getD ((p2.size + i21 - 1) % p2.size) 0)) (f (p1.getD ((j + 1) % p1.size) 0))).2.1
      have hge : 0 ≤ area2 (f (p1.getD (((j + 1) % p1.size + 1) % p1.size) 0))
          (f (p2.getD ((p2.size + i21 - 1) % p2.size) 0)) (f (p1.getD ((j + 1) % p1.size) 0)) := by
        by_contra hh; push Not at hh; exact conv2 (this.mpr hh)
      rw [← area2_cyc] at hge; exact hge
    have ndA : (p1.toList.rotate ((j + 1) % p1.size)).Nodup := List.nodup_rotate.mpr nd1
    have ndB : (p2.toList.rotate ((i21 + 1) % p2.size)).Nodup := List.nodup_rotate.mpr nd2
    have cA := cv1.rotate ((j + 1) % p1.size)
    have cB := cv2.rotate ((i21 + 1) % p2.size)
    have ltA : ∀ x ∈ p1.toList.rotate ((j + 1) % p1.size), x < pts.size := fun x hx => lt1 x (List.mem_rotate.mp hx)
    have ltB : ∀ x ∈ p2.toList.rotate ((i21 + 1) % p2.size), x < pts.size := fun x hx => lt2 x (List.mem_rotate.mp hx)
    rw [hA] at ndA cA ltA
    rw [hB] at ndB cB ltB
    obtain ⟨ndN, cN⟩ := glue_convex f pts.size hgp _ _ _ _ _ _ X' Y' Xi Yi hXi hYi ndA ndB ltA ltB cA cB t1 t2
    rw [← hnl] at ndN cN
    refine ⟨?_, ndN, ?_, cN⟩
    · have : new.size = new.toList.length := by simp
      rw [this, hnl]; simp; omega
    · intro x hx
      rw [hnl] at hx
      rcases List.mem_append.mp hx with hx | hx
      · exact ltA x (List.mem_append_left _ hx)
      · exact ltB x (List.mem_append_left _ hx)

/-- **C16 (c), the pieces are convex — inputs in general position.**  If no three input points with distinct indices
are collinear, and every input triangle is strictly counter-clockwise with indices `< n`, then every piece returned by
`hertel_mehlhorn_idx` is **convex and counter-clockwise** (every vertex on the closed left of every edge), has at least
three vertices and no repeated vertex. -/
theorem hm_pieces_convex_general_position (pts : Array (V2 K)) (tris : Array (Nat × Nat × Nat))
    (hgp : letI := fieldNum K sq; GeneralPosition (pt pts) pts.size)
    (hidx : ∀ t ∈ tris.toList, t.1 < pts.size ∧ t.2.1 < pts.size ∧ t.2.2 < pts.size)
    (hccw : letI := fieldNum K sq; ∀ t ∈ tris.toList, 0 < area2 (pt pts t.1) (pt pts t.2.1) (pt pts t.2.2)) :
    letI := fieldNum K sq
    ∀ p ∈ (hertelMehlhornIdx pts tris).toList,
      3 ≤ p.size ∧ p.toList.Nodup ∧ (∀ x ∈ p.toList, x < pts.size) ∧ ConvexPiece (pt pts) p.toList := by
  set f := @pt K (fieldNum K sq) pts
  have hinit : HMCvx f pts.size (tris.map fun t => #[t.1, t.2.1, t.2.2]) := by
    intro p hp
    simp only [Array.toList_map, List.mem_map] at hp
    obtain ⟨t, ht, rfl⟩ := hp
    have h0 := hccw t ht
    obtain ⟨l1, l2, l3⟩ := hidx t ht
    have c1 : area2 (f t.2.1) (f t.2.2) (f t.1) = area2 (f t.1) (f t.2.1) (f t.2.2) := area2_cyc _ _ _
    have c2 : area2 (f t.2.2) (f t.1) (f t.2.1) = area2 (f t.1) (f t.2.1) (f t.2.2) := by
      rw [← area2_cyc, ← area2_cyc]
    have n12 : t.1 ≠ t.2.1 := by
      intro hh; rw [hh] at h0; simp only [area2] at h0; ring_nf at h0; exact lt_irrefl _ h0
    have n23 : t.2.1 ≠ t.2.2 := by
      intro hh; rw [hh] at h0; simp only [area2] at h0; ring_nf at h0; exact lt_irrefl _ h0
    have n13 : t.1 ≠ t.2.2 := by
      intro hh; rw [hh] at h0; simp only [area2] at h0; ring_nf at h0; exact lt_irrefl _ h0
    refine ⟨by simp, by simp [n12, n23, n13], ?_, ?_⟩
    · intro x hx
      simp only [List.mem_cons, List.not_mem_nil, or_false] at hx
      rcases hx with rfl | rfl | rfl <;> assumption
    · intro e he v hv
      simp only [polyEdges, List.cons_append, List.nil_append, List.zip_cons_cons, List.zip_nil_right, List.mem_cons,
        List.not_mem_nil, or_false] at he hv
      rcases he with rfl | rfl | rfl <;> rcases hv with rfl | rfl | rfl <;> simp only <;>
        first
        | exact h0.le
        | (rw [c1]; exact h0.le)
        | (rw [c2]; exact h0.le)
        | (rw [area2_self_left])
        | (rw [area2_self_right])
  exact @hmLoop_induct K (fieldNum K sq) pts (HMCvx f pts.size)
    (fun polys i j i2 i21 hm h => hmCvx_step sq pts hgp polys i j i2 i21 hm h)
    ((2 * tris.size + 2) * (3 * tris.size + 3)) _ 0 0 hinit

/-- non-vacuity: the quadrilateral `(0,0),(2,0),(3,2),(0,1)` is in general position and its two ear-clipping triangles
are counter-clockwise -/
example : GeneralPosition (K := ℚ) (@pt ℚ (fieldNum ℚ id) #[⟨0,0⟩, ⟨2,0⟩, ⟨3,2⟩, ⟨0,1⟩]) 4 := by
  intro i j k hi hj hk h1 h2 h3
  interval_cases i <;> interval_cases j <;> interval_cases k <;> simp_all [pt, area2] <;> norm_num

end C16
