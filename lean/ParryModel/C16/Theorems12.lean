import ParryModel.Field
import ParryModel.C15.Theorems
import ParryModel.C16.Model
import ParryModel.C16.Lemmas
import ParryModel.C16.LemmasHM
import ParryModel.C16.Theorems5
/-! # C16, fu5: when may `Compound::decompose_trimesh` answer `None`?

The property demands a convex tiling of EVERY simple counter-clockwise polygon.  In the pinned tree a Hertel–Mehlhorn piece
with `≥ 4` vertices all of whose corners but two are flatter than the pruning tolerance of `from_convex_polyline` (a needle
of aspect ratio beyond ~1:11600 — its area can be large) made the whole call return `None` (genuine defect, corpus/C16.txt,
`fixes/C16-decompose-needle-piece.diff`).  The model is the corrected behaviour: such a piece falls back to
`from_convex_polyline_unmodified`.  Theorems about the corrected function:

* `piecesOf_none` (generic): the shape list is `None` only if some non-triangle piece is rejected by
  `from_convex_polyline_unmodified`;
* `decompose_trimesh_none_degenerate_edge`: in exact arithmetic `decompose_trimesh = None` happens ONLY when some
  Hertel–Mehlhorn piece (with `≠ 3` vertices) has an edge `a → b` with `|b - a|² ≤ ε²` (`ε = f64::EPSILON`: no unit normal
  exists) — never because a piece is thin;
* `decompose_trimesh_isSome_of_edges`: conversely, if every two input vertices joined by a piece edge are farther apart than
  `ε`, the result is `Some` for EVERY triangle list — so together with `decompose_trimesh_pieces` the compound's shapes are
  the Hertel–Mehlhorn pieces (minus pruned nearly straight corners), and `polygon_pipeline_sound` applies to them.
-/
namespace C16
open Model Model.C15 Model.C16 C15

section generic
variable {K : Type} [Num K]

/-- the shape list is `None` only when some piece with `≠ 3` vertices is rejected even by
`from_convex_polyline_unmodified` -/
theorem piecesOf_none : ∀ (l : List (Array (V2 K))), piecesOf l = none →
    ∃ p ∈ l, p.size ≠ 3 ∧ fromConvexPolylineUnmodified p = none := by
  intro l
  induction l with
  | nil => intro h; simp [piecesOf] at h
  | cons p ps ih =>
    intro h
    simp only [piecesOf] at h
    by_cases h3 : p.size = 3
    · rw [if_pos h3] at h
      simp only at h
      cases hrest : piecesOf ps with
      | none =>
        obtain ⟨q, hq, hh⟩ := ih hrest
        exact ⟨q, List.mem_cons_of_mem _ hq, hh⟩
      | some rest => simp [hrest] at h
    · rw [if_neg h3] at h
      cases hf : fromConvexPolyline p with
      | some r =>
        simp only [hf, Option.map_some] at h
        cases hrest : piecesOf ps with
        | none =>
          obtain ⟨q, hq, hh⟩ := ih hrest
          exact ⟨q, List.mem_cons_of_mem _ hq, hh⟩
        | some rest => simp [hrest] at h
      | none =>
        simp only [hf] at h
        cases hu : fromConvexPolylineUnmodified p with
        | none => exact ⟨p, List.mem_cons_self, h3, hu⟩
        | some r =>
          simp only [hu, Option.map_some] at h
          cases hrest : piecesOf ps with
          | none =>
            obtain ⟨q, hq, hh⟩ := ih hrest
            exact ⟨q, List.mem_cons_of_mem _ hq, hh⟩
          | some rest => simp [hrest] at h

/-- the normal loop succeeds when every edge has a unit normal -/
theorem polylineNormals_isSome (points : Array (V2 K))
    (hall : ∀ i, i < points.size → (C10.ccwFaceNormal2 (pt points i) (pt points ((i + 1) % points.size))).isSome) :
    ∀ (k : Nat) (acc : Array (V2 K)), k ≤ points.size → (polylineNormals points k acc).isSome := by
  intro k
  induction k with
  | zero => intro acc _; simp [polylineNormals]
  | succ k ih =>
    intro acc hk
    unfold polylineNormals
    simp only
    have := hall (points.size - (k + 1)) (by omega)
    split
    · rename_i hn; rw [hn] at this; cases this
    · exact ih _ (by omega)

/-- every piece with at least three points and unit normals on all edges yields a shape -/
theorem piecesOf_isSome : ∀ (l : List (Array (V2 K))),
    (∀ p ∈ l, 3 ≤ p.size ∧ ∀ i, i < p.size → (C10.ccwFaceNormal2 (pt p i) (pt p ((i + 1) % p.size))).isSome) →
    (piecesOf l).isSome := by
  intro l
  induction l with
  | nil => intro _; simp [piecesOf]
  | cons p ps ih =>
    intro h
    have hp := h p List.mem_cons_self
    have hrest := ih (fun q hq => h q (List.mem_cons_of_mem _ hq))
    obtain ⟨rest, hrest⟩ := Option.isSome_iff_exists.mp hrest
    simp only [piecesOf]
    by_cases h3 : p.size = 3
    · rw [if_pos h3]; simp [hrest]
    · rw [if_neg h3]
      cases hf : fromConvexPolyline p with
      | some r => simp [hrest]
      | none =>
        have hn := polylineNormals_isSome p hp.2 p.size #[] (le_refl _)
        obtain ⟨nr, hnr⟩ := Option.isSome_iff_exists.mp hn
        have hu : fromConvexPolylineUnmodified p = some (p, nr) := by
          unfold fromConvexPolylineUnmodified
          rw [if_neg (by omega)]
          simp [hnr]
        simp [hu, hrest]

end generic

variable {K : Type} [Field K] [LinearOrder K] [IsStrictOrderedRing K] (sq : K → K)

/-- `ccw_face_normal([a, b])` (2-D) is `None` exactly when `|b - a|² ≤ ε²` (`Unit::try_new(.., DEFAULT_EPSILON)` compares the
squared norm with the squared threshold) -/
theorem ccwFaceNormal2_none_iff (a b : V2 K) :
    letI := fieldNum K sq
    C10.ccwFaceNormal2 a b = none ↔
      (b.x - a.x) * (b.x - a.x) + (b.y - a.y) * (b.y - a.y) ≤ (C10.eps : K) * C10.eps := by
  letI := fieldNum K sq
  unfold C10.ccwFaceNormal2 C10.tryNew2
  simp only
  have key : (⟨(b.sub a).y, -(b.sub a).x⟩ : V2 K).normSq
      = (b.x - a.x) * (b.x - a.x) + (b.y - a.y) * (b.y - a.y) := by
    simp only [V2.normSq, V2.dot, V2.sub]; ring
  rw [key]
  constructor
  · intro h
    by_contra hh
    rw [if_pos (not_le.mp hh)] at h
    cases h
  · intro h
    rw [if_neg (not_lt.mpr h)]

/-- **C16 (c), the only legitimate `None` of `Compound::decompose_trimesh`** (corrected function) — every vertex buffer and
every triangle list.  If the result is `None`, some Hertel–Mehlhorn piece with `≠ 3` vertices has two cyclically consecutive
vertices `a, b` with `|b - a|² ≤ ε²`, `ε = f64::EPSILON` (an edge too short to have a unit normal).  In particular a thin
piece (needle) of positive edge lengths never makes the decomposition fail. -/
theorem decompose_trimesh_none_degenerate_edge (pts : Array (V2 K)) (tris : Array (Nat × Nat × Nat)) :
    letI := fieldNum K sq
    decomposeTrimesh pts tris = none →
    ∃ piece ∈ (hertelMehlhornIdx pts tris).toList, piece.size ≠ 3 ∧ ∃ i, i < piece.size ∧
      (let a := pt pts (piece.getD i 0); let b := pt pts (piece.getD ((i + 1) % piece.size) 0)
       (b.x - a.x) * (b.x - a.x) + (b.y - a.y) * (b.y - a.y) ≤ (C10.eps : K) * C10.eps) := by
  letI := fieldNum K sq
  intro h
  have h' : piecesOf ((hertelMehlhornIdx pts tris).toList.map fun p => p.map (pt pts)) = none := by
    simpa [decomposeTrimesh, hertelMehlhorn] using h
  obtain ⟨p, hp, h3, hu⟩ := piecesOf_none _ h'
  obtain ⟨piece, hpiece, rfl⟩ := List.mem_map.mp hp
  -- every piece has at least three vertices
  have hsz : 3 ≤ piece.size := by
    obtain ⟨groups, hlen, _, hall⟩ := hm_pieces_partition sq pts tris
    obtain ⟨k, hk, rfl⟩ := List.getElem_of_mem hpiece
    have hk' : k < (hertelMehlhornIdx pts tris).size := by simpa using hk
    have := hall k hk' (by omega)
    simpa using this.1
  refine ⟨piece, hpiece, by simpa using h3, ?_⟩
  rcases fromConvexPolylineUnmodified_none _ hu with h2 | ⟨i, hi, hn⟩
  · simp at h2; omega
  · have hi' : i < piece.size := by simpa using hi
    refine ⟨i, hi', ?_⟩
    have hmod : (i + 1) % piece.size < piece.size := Nat.mod_lt _ (by omega)
    have e1 : pt (piece.map (pt pts)) i = pt pts (piece.getD i 0) := by
      simp [pt, Array.getD_eq_getD_getElem?, hi']
    have e2 : pt (piece.map (pt pts)) ((i + 1) % (piece.map (pt pts)).size) = pt pts (piece.getD ((i + 1) % piece.size) 0) := by
      simp [pt, Array.getD_eq_getD_getElem?, hmod]
    rw [e1, e2] at hn
    exact (ccwFaceNormal2_none_iff sq _ _).mp hn

/-- **C16 (c), `decompose_trimesh` answers** (corrected function) — every vertex buffer and every triangle list.  If all
cyclically consecutive vertices of every Hertel–Mehlhorn piece are farther apart than `ε`, the result is `Some(compound)`;
by `decompose_trimesh_pieces` its shapes are then the pieces in order (triangles as `Triangle`, the others as
`ConvexPolygon`s on a sub-list of the piece's points). -/
theorem decompose_trimesh_isSome_of_edges (pts : Array (V2 K)) (tris : Array (Nat × Nat × Nat))
    (hedges : letI := fieldNum K sq
      ∀ piece ∈ (hertelMehlhornIdx pts tris).toList, ∀ i, i < piece.size →
        (let a := pt pts (piece.getD i 0); let b := pt pts (piece.getD ((i + 1) % piece.size) 0)
         (C10.eps : K) * C10.eps < (b.x - a.x) * (b.x - a.x) + (b.y - a.y) * (b.y - a.y))) :
    letI := fieldNum K sq
    (decomposeTrimesh pts tris).isSome := by
  letI := fieldNum K sq
  have : (piecesOf ((hertelMehlhornIdx pts tris).toList.map fun p => p.map (pt pts))).isSome := by
    apply piecesOf_isSome
    intro p hp
    obtain ⟨piece, hpiece, rfl⟩ := List.mem_map.mp hp
    have hsz : 3 ≤ piece.size := by
      obtain ⟨groups, hlen, _, hall⟩ := hm_pieces_partition sq pts tris
      obtain ⟨k, hk, rfl⟩ := List.getElem_of_mem hpiece
      have hk' : k < (hertelMehlhornIdx pts tris).size := by simpa using hk
      have := hall k hk' (by omega)
      simpa using this.1
    refine ⟨by simpa using hsz, ?_⟩
    intro i hi
    have hi' : i < piece.size := by simpa using hi
    have hmod : (i + 1) % piece.size < piece.size := Nat.mod_lt _ (by omega)
    have e1 : pt (piece.map (pt pts)) i = pt pts (piece.getD i 0) := by
      simp [pt, Array.getD_eq_getD_getElem?, hi']
    have e2 : pt (piece.map (pt pts)) ((i + 1) % (piece.map (pt pts)).size) = pt pts (piece.getD ((i + 1) % piece.size) 0) := by
      simp [pt, Array.getD_eq_getD_getElem?, hmod]
    rw [e1, e2]
    have hlt := hedges piece hpiece i hi'
    cases hc : C10.ccwFaceNormal2 (pt pts (piece.getD i 0)) (pt pts (piece.getD ((i + 1) % piece.size) 0)) with
    | some _ => rfl
    | none => exact absurd ((ccwFaceNormal2_none_iff sq _ _).mp hc) (not_le.mpr hlt)
  simpa [decomposeTrimesh, hertelMehlhorn] using this

/-- non-vacuity (ℚ): the needle kite `(0,0),(16,-1/65536),(32,0),(16,1/65536)` — aspect ratio 1:10⁶, area 1/2048·… > 0 —
cut into two triangles: every piece edge is longer than `ε`, so the decomposition exists (the pinned tree answered `None`). -/
example : (@decomposeTrimesh ℚ (fieldNum ℚ id) #[⟨0,0⟩, ⟨16,-1/65536⟩, ⟨32,0⟩, ⟨16,1/65536⟩] #[(0,1,2),(0,2,3)]).isSome := by
  apply decompose_trimesh_isSome_of_edges (K := ℚ) id
  decide +kernel

/-- non-vacuity of `decompose_trimesh_none_degenerate_edge` (ℚ): a legitimate `None` exists — the square with its corner
`(1,1)` listed twice, fan-triangulated: the merged piece `0 1 2 3 4` has the zero-length edge `2 → 3`, which has no unit
normal. -/
example : (@decomposeTrimesh ℚ (fieldNum ℚ id) #[⟨0,0⟩, ⟨1,0⟩, ⟨1,1⟩, ⟨1,1⟩, ⟨0,1⟩] #[(0,1,2),(0,2,3),(0,3,4)]).isNone = true := by
  decide +kernel

end C16
