import ParryModel.Field
import Mathlib.Tactic.IntervalCases
import ParryModel.C15.Theorems
import ParryModel.C16.Model
import ParryModel.C16.Lemmas2
import ParryModel.C16.Ring
import ParryModel.C16.Geometry
import ParryModel.C16.Theorems4
/-!
# C16 property theorems, part 7: convex input — pairwise disjoint interiors WITHOUT the `JordanLite` assumption.

`ConvexPos f l`: the points `f i`, `i ∈ l`, are in (weakly) convex position in this cyclic order — every triple taken in
list order is counter-clockwise or collinear.  This is the sub-sequence-closed form of "convex counter-clockwise polygon"
(collinear runs allowed); for `l = List.range n` it says `i < j < k → 0 ≤ area2 (f i) (f j) (f k)` (`convexPos_range`).

`clipSeq_disjoint_convex`: **every** clipping sequence of a cycle in convex position (any triangulation obtained by
cutting corners, whatever the ear choice) has pairwise disjoint open triangles: the clipped corner `(u, e, w)` lies
strictly on the right of the line `u → w`, every vertex that remains — hence every later triangle — on its closed left.

`ear_clipping_disjoint_convex`: the disjoint-interiors clause of C16 for convex input, for the real algorithm, with no
assumption besides convex position (no simplicity hypothesis, no Jordan-curve fact).
-/
namespace C16
open Model Model.C15 Model.C16 C15

variable {K : Type} [Field K] [LinearOrder K] [IsStrictOrderedRing K]

/-- (weakly) convex position in the cyclic order `l`: every triple in list order is counter-clockwise or collinear -/
def ConvexPos (f : Nat → V2 K) (l : List Nat) : Prop :=
  ∀ a b c, List.Sublist [a, b, c] l → 0 ≤ area2 (f a) (f b) (f c)

theorem ConvexPos.sublist {f : Nat → V2 K} {l l' : List Nat} (h : ConvexPos f l) (hs : List.Sublist l' l) : ConvexPos f l' :=
  fun a b c habc => h a b c (habc.trans hs)

/-- convex position is a property of the *cyclic* order -/
theorem ConvexPos.rotate {f : Nat → V2 K} {l : List Nat} (h : ConvexPos f l) (k : Nat) : ConvexPos f (l.rotate k) := by
  intro a b c habc
  rw [List.rotate_eq_drop_append_take_mod] at habc
  obtain ⟨l1, l2, hsplit, h1, h2⟩ := List.sublist_append_iff.mp habc
  have hl : List.Sublist (l2 ++ l1) l := by
    have := h2.append h1
    rwa [List.take_append_drop] at this
  match l1, l2, hsplit with
  | [], l2, hs => simp only [List.nil_append] at hs; subst hs; exact h a b c (by simpa using hl)
  | [x], l2, hs =>
    simp only [List.cons_append, List.nil_append, List.cons.injEq] at hs
    obtain ⟨rfl, rfl⟩ := hs
    have := h b c a (by simpa using hl)
    rwa [area2_cyc] at this
  | [x, y], l2, hs =>
    simp only [List.cons_append, List.nil_append, List.cons.injEq] at hs
    obtain ⟨rfl, rfl, rfl⟩ := hs
    have := h c a b (by simpa using hl)
    rwa [area2_cyc (f c) (f a) (f b)]
  | [x, y, z], l2, hs =>
    simp only [List.cons_append, List.nil_append, List.cons.injEq, List.nil_eq] at hs
    obtain ⟨rfl, rfl, rfl, rfl⟩ := hs
    exact h a b c (by simpa using hl)
  | x :: y :: z :: t :: r, l2, hs =>
    have := congrArg List.length hs
    simp at this

private theorem sorted_sublist_range' : ∀ (n s : Nat) (l : List Nat), l.Pairwise (· < ·) →
    (∀ x ∈ l, s ≤ x ∧ x < s + n) → List.Sublist l (List.range' s n)
  | 0, s, l, _, hb => by
    cases l with
    | nil => exact List.Sublist.slnil
    | cons a t => have := hb a (by simp); omega
  | n + 1, s, [], _, _ => List.nil_sublist _
  | n + 1, s, a :: t, hp, hb => by
    rw [List.range'_succ]
    have hpt := (List.pairwise_cons.mp hp)
    by_cases has : a = s
    · subst has
      refine List.Sublist.cons₂ _ (sorted_sublist_range' n (a + 1) t hpt.2 ?_)
      intro x hx
      have h1 := hpt.1 x hx
      have h2 := hb x (List.mem_cons_of_mem _ hx)
      omega
    · refine List.Sublist.cons _ (sorted_sublist_range' n (s + 1) (a :: t) hp ?_)
      intro x hx
      have h2 := hb x hx
      have ha := hb a (by simp)
      rcases List.mem_cons.mp hx with rfl | hx'
      · omega
      · have h1 := hpt.1 x hx'
        omega

/-- for the input cycle `0, …, n-1`: convex position ⇔ every index-increasing triple is counter-clockwise or collinear -/
theorem convexPos_range (f : Nat → V2 K) (n : Nat) :
    ConvexPos f (List.range n) ↔ ∀ i j k, i < j → j < k → k < n → 0 ≤ area2 (f i) (f j) (f k) := by
  constructor
  · intro h i j k hij hjk hk
    apply h i j k
    rw [List.range_eq_range']
    apply sorted_sublist_range'
    · simp [hij, hjk, hij.trans hjk]
    · intro x hx
      simp only [List.mem_cons, List.not_mem_nil, or_false] at hx
      rcases hx with rfl | rfl | rfl <;> omega
  · intro h a b c (habc : List.Sublist [a, b, c] (List.range n))
    have hp := (List.pairwise_lt_range (n := n)).sublist habc
    have hc : c ∈ List.range n := habc.subset (by simp)
    have hab : a < b := List.rel_of_pairwise_cons hp (by simp)
    have hbc : b < c := List.rel_of_pairwise_cons (List.pairwise_cons.mp hp).2 (by simp)
    exact h a b c hab hbc (List.mem_range.mp hc)

/-- a point strictly inside the triangle `(a, b, c)` is on the closed left of every directed line `u → w` that has the
three vertices on its closed left (barycentric combination of an affine function) -/
private theorem inside_left (u w a b c p : V2 K) (hin : InsideTri a b c p)
    (ha : 0 ≤ area2 u w a) (hb : 0 ≤ area2 u w b) (hc : 0 ≤ area2 u w c) : 0 ≤ area2 u w p := by
  obtain ⟨h1, h2, h3⟩ := hin
  have hS : 0 < area2 a b c := by rw [← area2_sum a b c p]; linarith
  have hid : area2 a b c * area2 u w p =
      area2 b c p * area2 u w a + area2 c a p * area2 u w b + area2 a b p * area2 u w c := by
    simp only [area2]; ring
  by_contra hneg
  push Not at hneg
  have := mul_neg_of_pos_of_neg hS hneg
  have := mul_nonneg h2.le ha
  have := mul_nonneg h3.le hb
  have := mul_nonneg h1.le hc
  linarith

/-- **convex position ⇒ any corner-cutting triangulation has pairwise disjoint open triangles.** -/
theorem clipSeq_disjoint_convex (f : Nat → V2 K) {cyc : List Nat} {ts : List (Nat × Nat × Nat)}
    (h : ClipSeq cyc ts) (hnd : cyc.Nodup) (hc : ConvexPos f cyc) :
    ts.Pairwise fun s t => ∀ p, ¬ (InsideTri (f s.1) (f s.2.1) (f s.2.2) p ∧ InsideTri (f t.1) (f t.2.1) (f t.2.2) p) := by
  induction h with
  | last h => exact List.pairwise_singleton _ _
  | @step cyc k e w u mid ts hrot hrest ih =>
    have hnd' : (e :: w :: (mid ++ [u])).Nodup := hrot ▸ List.nodup_rotate.mpr hnd
    have hnd'' : (w :: (mid ++ [u])).Nodup := (List.nodup_cons.mp hnd').2
    have hc' : ConvexPos f (e :: w :: (mid ++ [u])) := hrot ▸ hc.rotate k
    have hc'' : ConvexPos f (w :: (mid ++ [u])) := hc'.sublist (List.sublist_cons_self _ _)
    refine List.pairwise_cons.mpr ⟨?_, ih hnd'' hc''⟩
    -- every remaining vertex is on the closed left of `u → w`
    have hleft : ∀ x ∈ w :: (mid ++ [u]), 0 ≤ area2 (f u) (f w) (f x) := by
      intro x hx
      simp only [List.mem_cons, List.mem_append, List.not_mem_nil, or_false] at hx
      rcases hx with rfl | hx | rfl
      · rw [area2_self_right]
      · have hs : List.Sublist [w, x, u] (w :: (mid ++ [u])) :=
          List.Sublist.cons₂ w ((List.singleton_sublist.mpr hx).append (List.Sublist.refl [u]))
        have := hc'' w x u hs
        rwa [area2_cyc] at this
      · rw [area2_self_left]
    intro t ht p ⟨hp1, hp2⟩
    obtain ⟨m1, m2, m3, _⟩ := hrest.mem hnd'' t ht
    have hge := inside_left (f u) (f w) _ _ _ p hp2 (hleft _ m1) (hleft _ m2) (hleft _ m3)
    have hlt : 0 < area2 (f w) (f u) p := hp1.2.2
    have : area2 (f w) (f u) p = - area2 (f u) (f w) p := by simp only [area2]; ring
    linarith

variable (sq : K → K)

/-- **C16 (b), pairwise disjoint interiors on convex input — no `JordanLite`, no simplicity hypothesis.**  If the input
vertices are in (weakly) convex counter-clockwise position and `triangulate_ear_clipping` returns `Some(out)`, no point
lies strictly inside two different emitted triangles. -/
theorem ear_clipping_disjoint_convex (pts : Array (V2 K)) (out : Array (Nat × Nat × Nat)) :
    letI := fieldNum K sq
    triangulateEarClipping pts = some out →
    ConvexPos (pt pts) (List.range pts.size) →
    ∀ i j (_ : i < j) (hj : j < out.size) (p : V2 K),
      ¬ (InsideTri (pt pts out[i].1) (pt pts out[i].2.1) (pt pts out[i].2.2) p ∧
         InsideTri (pt pts out[j].1) (pt pts out[j].2.1) (pt pts out[j].2.2) p) := by
  intro h hc i j hij hj p
  obtain ⟨_, hseq, _⟩ := @triangulate_clipseq K (fieldNum K sq) pts out h
  have hpw := clipSeq_disjoint_convex (@pt K (fieldNum K sq) pts) hseq List.nodup_range hc
  have := (List.pairwise_iff_getElem.mp hpw) i j (by simp; omega) (by simpa using hj) hij
  simpa using this p

/-- non-vacuity: the unit square with a collinear vertex on its bottom edge is in convex position -/
example : ConvexPos (K := ℚ) (@pt ℚ (fieldNum ℚ id) #[⟨0,0⟩, ⟨1/2,0⟩, ⟨1,0⟩, ⟨1,1⟩, ⟨0,1⟩]) (List.range 5) := by
  rw [convexPos_range]
  intro i j k hij hjk hk
  interval_cases k <;> interval_cases j <;> interval_cases i <;> simp [pt, area2] <;> norm_num

/-! ## `JordanLite` reduced to a statement about one ear -/

/-- **the weakest planar fact the disjointness clause needs** (implied by `JordanLite`, because the winding number of a
ring is the winding number of the clipped ring plus that of the ear): *a point strictly inside an empty ear of a simple
polygon is not wound around by the rest of the polygon.*  `e :: w :: (mid ++ [u])` is the ring, `(u, e, w)` the ear —
strictly counter-clockwise, every other ring vertex strictly outside its closed triangle. -/
def EarOutsideLite (K : Type) [Field K] [LinearOrder K] [IsStrictOrderedRing K] : Prop :=
  ∀ (f : Nat → V2 K) (e w u : Nat) (mid : List Nat), SimplePoly f (e :: w :: (mid ++ [u])) →
    0 < area2 (f u) (f e) (f w) → (∀ j ∈ mid, OutsideTri (f u) (f e) (f w) (f j)) →
    ∀ p, InsideTri (f u) (f e) (f w) p → windingNumber p ((w :: (mid ++ [u])).map f) ≤ 0

/-- `EarOutsideLite` is implied by the Jordan-curve fact "a simple polygon winds at most once around every point" -/
theorem earOutsideLite_of_jordan
    (hJ : ∀ (f : Nat → V2 K) (cyc : List Nat), SimplePoly f cyc → ∀ p, windingNumber p (cyc.map f) ≤ 1) :
    EarOutsideLite K := by
  intro f e w u mid hs hS _ p hp
  have h1 := hJ f _ hs p
  rw [windingNumber_map, windSum_clip p f e (w :: (mid ++ [u])) (by simp)] at h1
  have hl : (w :: (mid ++ [u])).getLast (by simp) = u := by simp
  rw [hl, List.head_cons, (triWind_spec _ _ _ p hS).1 hp] at h1
  rw [windingNumber_map]
  omega

private theorem clipSeq_cons_inv {cyc : List Nat} {t : Nat × Nat × Nat} {rest : List (Nat × Nat × Nat)}
    (h : ClipSeq cyc (t :: rest)) (hne : rest ≠ []) :
    ∃ k mid, cyc.rotate k = t.2.1 :: t.2.2 :: (mid ++ [t.1]) ∧ ClipSeq (t.2.2 :: (mid ++ [t.1])) rest := by
  cases h with
  | last h => exact absurd rfl hne
  | step hrot hrest => exact ⟨_, _, hrot, hrest⟩

/-- **C16 (b), pairwise disjoint interiors on simple input — assuming only `EarOutsideLite`.**  Everything global is
proved: the rings stay simple (`ear_clipping_rings_simple`), every clipped ear is empty (`ear_clipping_ears_empty`), the
covering count of the remaining triangles is the winding number of the remaining ring (`clipSeq_wind`); the single
unproved ingredient is local to one ear. -/
theorem ear_clipping_disjoint_of_earOutside (hE : EarOutsideLite K) (pts : Array (V2 K))
    (out : Array (Nat × Nat × Nat)) :
    letI := fieldNum K sq
    triangulateEarClipping pts = some out →
    SimplePoly (pt pts) (List.range pts.size) →
    ∀ i j (_ : i < j) (hj : j < out.size) (p : V2 K),
      ¬ (InsideTri (pt pts out[i].1) (pt pts out[i].2.1) (pt pts out[i].2.2) p ∧
         InsideTri (pt pts out[j].1) (pt pts out[j].2.1) (pt pts out[j].2.2) p) := by
  intro h hs i j hij hj p ⟨hpi, hpj⟩
  set f := @pt K (fieldNum K sq) pts with hf
  obtain ⟨hsimple, _, hclip⟩ := ear_clipping_rings_simple sq pts out h hs i (by omega)
  obtain ⟨ts, last, hout, _, hear, _⟩ := ear_clipping_ears_empty sq pts out h
  have hpos := (ear_clipping_cover_eq_winding sq pts out p h).2
  have hdrop : out.toList.drop i = out[i] :: out.toList.drop (i + 1) := by
    rw [← List.getElem_cons_drop (h := by simp; omega), Array.getElem_toList]
  rw [hdrop] at hclip
  have hjm : out[j] ∈ out.toList.drop (i + 1) := by
    rw [List.mem_drop_iff_getElem]
    refine ⟨j - (i + 1), by simp; omega, ?_⟩
    simp only [Array.getElem_toList]
    congr 1; omega
  have hlen : out.size = ts.length + 1 := by
    have := congrArg List.length hout; simpa using this
  have him : out[i] ∈ ts := by
    have h1 : out[i] = (ts ++ [last])[i]'(by simp; omega) := by
      have : out.toList[i]'(by simp; omega) = (ts ++ [last])[i]'(by simp; omega) := by simp [hout]
      simpa using this
    rw [h1, List.getElem_append_left (by omega)]
    exact List.getElem_mem _
  obtain ⟨hSi, hempty⟩ := hear _ him
  obtain ⟨k, mid, hrot, hrest⟩ := clipSeq_cons_inv hclip (List.ne_nil_of_mem hjm)
  have hsR : SimplePoly f (out[i].2.1 :: out[i].2.2 :: (mid ++ [out[i].1])) := hsimple.isRotated ⟨k, hrot⟩
  have hmid : ∀ j' ∈ mid, OutsideTri (f out[i].1) (f out[i].2.1) (f out[i].2.2) (f j') := by
    intro j' hj'
    have hmem : j' ∈ ringAfter pts.size out.toList i :=
      List.mem_rotate.mp (by rw [hrot]; simp [hj'])
    have hlt : j' < pts.size := by
      unfold ringAfter ringOf at hmem
      exact List.mem_range.mp (List.mem_of_mem_filter hmem)
    have hnd := hsR.nodup
    simp only [List.nodup_cons, List.mem_cons, List.mem_append, List.mem_singleton, not_or, List.nodup_append,
      List.not_mem_nil, or_false] at hnd
    refine hempty j' hlt ?_ ?_ ?_
    · intro heq; exact hnd.2.2.2.2 j' hj' _ rfl heq
    · intro heq; exact hnd.1.2.1 (heq ▸ hj')
    · intro heq; exact hnd.2.1.1 (heq ▸ hj')
  have hw0 := hE f _ _ _ mid hsR hSi hmid p hpi
  rw [windingNumber_map, ← clipSeq_wind p f hrest] at hw0
  have h1 : triWind p (f out[j].1) (f out[j].2.1) (f out[j].2.2) = 1 :=
    (triWind_spec _ _ _ p (hpos _ (by simp))).1 hpj
  have hnn : ∀ x ∈ (out.toList.drop (i + 1)).map (fun t => triWind p (f t.1) (f t.2.1) (f t.2.2)), 0 ≤ x := by
    intro x hx
    obtain ⟨t, ht, rfl⟩ := List.mem_map.mp hx
    rcases (triWind_spec _ _ _ p (hpos t (List.mem_of_mem_drop ht))).2.2 with h0 | h1
    · rw [h0]
    · rw [h1]; norm_num
  have := List.single_le_sum hnn _ (List.mem_map.mpr ⟨out[j], hjm, rfl⟩)
  rw [h1] at this
  omega

/-! ## `TriMesh::from_polygon` glue -/

private theorem foldl_flat_size (l : List (Nat × Nat × Nat)) (acc : Array Nat) :
    (l.foldl (fun acc x => acc ++ #[x.1, x.2.1, x.2.2]) acc).size = acc.size + 3 * l.length := by
  induction l generalizing acc with
  | nil => simp
  | cons a t ih => rw [List.foldl_cons, ih]; simp; omega

private theorem foldl_flat_mem (l : List (Nat × Nat × Nat)) (acc : Array Nat) (x : Nat) :
    x ∈ (l.foldl (fun acc x => acc ++ #[x.1, x.2.1, x.2.2]) acc).toList →
      x ∈ acc.toList ∨ ∃ t ∈ l, x = t.1 ∨ x = t.2.1 ∨ x = t.2.2 := by
  induction l generalizing acc with
  | nil => intro h; exact Or.inl h
  | cons a t ih =>
    intro h
    rw [List.foldl_cons] at h
    rcases ih _ h with h | ⟨t', ht', hx⟩
    · simp only [Array.toList_append, List.mem_append, List.mem_cons, List.not_mem_nil, or_false] at h
      rcases h with h | h
      · exact Or.inl h
      · exact Or.inr ⟨a, by simp, h⟩
    · exact Or.inr ⟨t', List.mem_cons_of_mem _ ht', hx⟩

/-- **`TriMesh::from_polygon` glue — every input.**  The `.unwrap()` of `TriMesh::new` never panics (a `Some` index buffer
is never empty: the only error of `TriMesh::new` is `EmptyIndices`); the result is `None` exactly when
`triangulate_ear_clipping` returns `None`; otherwise the mesh keeps the vertex buffer unchanged, `flat_indices()` has
`3 (n - 2)` entries, all `< n` — so the `as u32` casts of the index positions are lossless whenever `n ≤ 2^32`. -/
theorem from_polygon_mesh_spec (pts : Array (V2 K)) :
    letI := fieldNum K sq
    fromPolygonMesh pts ≠ .panicEmptyIndices ∧
    (fromPolygonMesh pts = .none ↔ triangulateEarClipping pts = none) ∧
    ∀ v flat, fromPolygonMesh pts = .mesh v flat →
      v = pts ∧ flat.size + 6 = 3 * pts.size ∧ (∀ x ∈ flat.toList, x < pts.size) ∧
      (pts.size ≤ 2 ^ 32 → ∀ x ∈ flat.toList, x < 2 ^ 32) := by
  cases hr : @triangulateEarClipping K (fieldNum K sq) pts with
  | none => simp [fromPolygonMesh, hr]
  | some out =>
    obtain ⟨h3, hseq, _⟩ := @triangulate_clipseq K (fieldNum K sq) pts out hr
    have hlen : out.size + 2 = pts.size := by have := hseq.length; simpa using this
    have hidx : ∀ t ∈ out.toList, t.1 < pts.size ∧ t.2.1 < pts.size ∧ t.2.2 < pts.size := by
      intro t ht
      obtain ⟨a, b, c, _⟩ := hseq.mem List.nodup_range t ht
      exact ⟨List.mem_range.mp a, List.mem_range.mp b, List.mem_range.mp c⟩
    have hne : out.size ≠ 0 := by omega
    simp only [fromPolygonMesh, hr, if_neg hne, ne_eq, reduceCtorEq, not_false_eq_true, false_iff, true_and,
      FromPolygon.mesh.injEq, and_imp]
    intro v flat hv hflat
    subst hv; subst hflat
    have hmem : ∀ x ∈ (out.foldl (fun acc x => acc ++ #[x.1, x.2.1, x.2.2]) #[]).toList, x < pts.size := by
      intro x hx
      rw [← Array.foldl_toList] at hx
      rcases foldl_flat_mem out.toList #[] x hx with h | ⟨t, ht, h⟩
      · simp at h
      · obtain ⟨a, b, c⟩ := hidx t ht
        rcases h with rfl | rfl | rfl <;> assumption
    refine ⟨rfl, ?_, hmem, fun hn x hx => lt_of_lt_of_le (hmem x hx) hn⟩
    rw [← Array.foldl_toList, foldl_flat_size]
    simp; omega

end C16
