import ParryModel.Field
import ParryModel.C15.Theorems
import ParryModel.C16.Model
import ParryModel.C16.Lemmas2
import ParryModel.C16.Geometry
import ParryModel.C16.Theorems3
/-!
# C16 property theorems, part 4: how often a point is covered = winding number of the input polygon.

`windingNumber p poly` is the signed number of crossings of the open horizontal ray from `p` towards `+x` with the closed
polygon (half-open rule, the signed version of `C15.crossingNumber`): `+1` for an edge going up on the right of `p`,
`-1` for an edge going down on the right of `p`.

`ear_clipping_cover_eq_winding` — **every input, no simplicity assumption**: on `Some(out)` the sum over the emitted
triangles of their own winding numbers around `p` equals the winding number of the input polygon around `p`; and the
winding number of a (strictly counter-clockwise) triangle is `1` strictly inside, `0` outside, `0` or `1` on the
boundary.  So *the number of emitted triangles containing `p` is the winding number of the input polygon around `p`*.

Consequences:
* `ear_clipping_disjoint_of_winding`: the interiors of the emitted triangles are pairwise disjoint **iff-style
  criterion**: whenever the polygon winds at most once around every point, no point is strictly inside two triangles;
  conversely (`ear_clipping_overlap_winding`) a point strictly inside two emitted triangles has winding number ≥ 2.
  This characterises exactly the non-simple inputs for which `Some` is a wrong tiling (the `KNOWN_FINDINGS.txt` entry
  "no simplicity check"): those that wind twice around some point and still pass every local ear test.
* the Jordan-curve fact "a simple polygon of positive area has winding number 0 or 1 at every point off the curve" is
  **not proved** here (`JordanLite`); `ear_clipping_disjoint` is the disjointness clause of the property under that
  single named assumption.  The exact oracle decides disjointness on every explored case.
-/
namespace C16
open Model Model.C15 Model.C16 C15

variable {K : Type} [Field K] [LinearOrder K] [IsStrictOrderedRing K]

/-- signed crossing of the open ray `{(x, p.y) : x > p.x}` with the directed edge `a → b` (half-open rule) -/
def wind (p a b : V2 K) : Int :=
  if a.y ≤ p.y ∧ p.y < b.y ∧ 0 < area2 a b p then 1
  else if b.y ≤ p.y ∧ p.y < a.y ∧ area2 a b p < 0 then -1 else 0

/-- winding number of the closed polygon `poly` around `p` -/
def windingNumber (p : V2 K) (poly : List (V2 K)) : Int := ((polyEdges poly).map fun e => wind p e.1 e.2).sum

/-- winding number of the triangle `(a, b, c)` around `p` -/
def triWind (p a b c : V2 K) : Int := wind p a b + wind p b c + wind p c a

theorem wind_antisymm (p a b : V2 K) : wind p b a = - wind p a b := by
  have h : area2 b a p = - area2 a b p := by simp only [area2]; ring
  unfold wind
  rw [h]
  by_cases h1 : a.y ≤ p.y <;> by_cases h2 : p.y < b.y <;> by_cases h3 : b.y ≤ p.y <;> by_cases h4 : p.y < a.y <;>
    by_cases h5 : 0 < area2 a b p <;> by_cases h6 : area2 a b p < 0 <;>
    simp [h1, h2, h3, h4, h5, h6] <;> linarith

/-- `p` is strictly inside the counter-clockwise triangle `(a, b, c)` -/
def InsideTri (a b c p : V2 K) : Prop := 0 < area2 a b p ∧ 0 < area2 b c p ∧ 0 < area2 c a p

/-- barycentric identity (second coordinate) -/
private theorem bary_y (a b c p : V2 K) :
    area2 b c p * (a.y - p.y) + area2 c a p * (b.y - p.y) + area2 a b p * (c.y - p.y) = 0 := by
  simp only [area2]; ring

private theorem flat_area (a b c : V2 K) (h1 : a.y = b.y) (h2 : b.y = c.y) : area2 a b c = 0 := by
  simp only [area2, h1, h2]; ring

private theorem wind_lh (p a b : V2 K) (h1 : a.y ≤ p.y) (h2 : p.y < b.y) :
    wind p a b = if 0 < area2 a b p then 1 else 0 := by
  unfold wind
  have : ¬ (b.y ≤ p.y) := not_le.mpr h2
  simp [h1, h2, this]

private theorem wind_hl (p a b : V2 K) (h1 : p.y < a.y) (h2 : b.y ≤ p.y) :
    wind p a b = if area2 a b p < 0 then -1 else 0 := by
  unfold wind
  have : ¬ (a.y ≤ p.y) := not_le.mpr h1
  simp [h1, h2, this]

private theorem wind_ll (p a b : V2 K) (h1 : a.y ≤ p.y) (h2 : b.y ≤ p.y) : wind p a b = 0 := by
  unfold wind
  have : ¬ (p.y < b.y) := not_lt.mpr h2
  have : ¬ (p.y < a.y) := not_lt.mpr h1
  simp [*]

private theorem wind_hh (p a b : V2 K) (h1 : p.y < a.y) (h2 : p.y < b.y) : wind p a b = 0 := by
  unfold wind
  have : ¬ (a.y ≤ p.y) := not_le.mpr h1
  have : ¬ (b.y ≤ p.y) := not_le.mpr h2
  simp [*]

/-- scalar core, two vertices at or below the ray (`x, y ≤ 0 < z` are the heights relative to `p`, `wx, wy, wz` the
barycentric weights of the three vertices) -/
private theorem tri_llh (x y z wx wy wz : K) (hx : x ≤ 0) (hy : y ≤ 0) (hz : 0 < z)
    (hid : wx * x + wy * y + wz * z = 0) (hS : 0 < wx + wy + wz) :
    ((0 < wx ∧ 0 < wy ∧ 0 < wz) → ((if 0 < wx then (1 : Int) else 0) + (if wy < 0 then -1 else 0)) = 1) ∧
    ((wx < 0 ∨ wy < 0 ∨ wz < 0) → ((if 0 < wx then (1 : Int) else 0) + (if wy < 0 then -1 else 0)) = 0) ∧
    (((if 0 < wx then (1 : Int) else 0) + (if wy < 0 then -1 else 0)) = 0 ∨
      ((if 0 < wx then (1 : Int) else 0) + (if wy < 0 then -1 else 0)) = 1) := by
  by_cases h1 : 0 < wx <;> by_cases h2 : wy < 0 <;> simp only [h1, h2, if_true, if_false]
  · refine ⟨fun h => by first | exact h.2.1.elim | linarith [h.2.1], fun _ => by norm_num, Or.inl (by norm_num)⟩
  · push Not at h2
    refine ⟨fun _ => by norm_num, fun ho => ?_, Or.inr (by norm_num)⟩
    exfalso
    have hw : wz < 0 := by rcases ho with ho | ho | ho <;> first | exact ho.elim | linarith
    nlinarith [mul_nonneg (neg_nonneg.mpr hx) h1.le, mul_nonneg (neg_nonneg.mpr hy) h2, mul_pos (neg_pos.mpr hw) hz]
  · push Not at h1
    exfalso
    have hw : 0 < wz := by linarith
    nlinarith [mul_nonneg (neg_nonneg.mpr hx) (neg_nonneg.mpr h1), mul_nonneg (neg_nonneg.mpr hy) (neg_pos.mpr h2).le,
      mul_pos hw hz]
  · push Not at h1 h2
    refine ⟨fun h => by first | exact h.1.elim | linarith [h.1], fun _ => by norm_num, Or.inl (by norm_num)⟩

/-- scalar core, one vertex at or below the ray (`x ≤ 0 < y, z`) -/
private theorem tri_lhh (x y z wx wy wz : K) (hx : x ≤ 0) (hy : 0 < y) (hz : 0 < z)
    (hid : wx * x + wy * y + wz * z = 0) (hS : 0 < wx + wy + wz) :
    ((0 < wx ∧ 0 < wy ∧ 0 < wz) → ((if 0 < wz then (1 : Int) else 0) + (if wy < 0 then -1 else 0)) = 1) ∧
    ((wx < 0 ∨ wy < 0 ∨ wz < 0) → ((if 0 < wz then (1 : Int) else 0) + (if wy < 0 then -1 else 0)) = 0) ∧
    (((if 0 < wz then (1 : Int) else 0) + (if wy < 0 then -1 else 0)) = 0 ∨
      ((if 0 < wz then (1 : Int) else 0) + (if wy < 0 then -1 else 0)) = 1) := by
  by_cases h1 : 0 < wz <;> by_cases h2 : wy < 0 <;> simp only [h1, h2, if_true, if_false]
  · refine ⟨fun h => by first | exact h.2.1.elim | linarith [h.2.1], fun _ => by norm_num, Or.inl (by norm_num)⟩
  · push Not at h2
    refine ⟨fun _ => by norm_num, fun ho => ?_, Or.inr (by norm_num)⟩
    exfalso
    have hw : wx < 0 := by rcases ho with ho | ho | ho <;> first | exact ho.elim | linarith
    nlinarith [mul_nonneg (neg_nonneg.mpr hx) (neg_pos.mpr hw).le, mul_nonneg h2 hy.le, mul_pos h1 hz]
  · push Not at h1
    exfalso
    have hw : 0 < wx := by linarith
    nlinarith [mul_nonneg (neg_nonneg.mpr hx) hw.le, mul_pos (neg_pos.mpr h2) hy, mul_nonneg (neg_nonneg.mpr h1) hz.le]
  · push Not at h1 h2
    refine ⟨fun h => by first | exact h.2.2.elim | linarith [h.2.2], fun _ => by norm_num, Or.inl (by norm_num)⟩

/-- **winding number of a counter-clockwise triangle**: `1` strictly inside, `0` outside the closed triangle, and never
anything but `0` or `1` -/
theorem triWind_spec (a b c p : V2 K) (hS : 0 < area2 a b c) :
    (InsideTri a b c p → triWind p a b c = 1) ∧ (OutsideTri a b c p → triWind p a b c = 0) ∧
    (triWind p a b c = 0 ∨ triWind p a b c = 1) := by
  have hid := bary_y a b c p
  have hsum := area2_sum a b c p
  rw [← hsum] at hS
  unfold triWind InsideTri OutsideTri
  rcases le_or_gt a.y p.y with la | la <;> rcases le_or_gt b.y p.y with lb | lb <;> rcases le_or_gt c.y p.y with lc | lc
  · -- all three at or below the ray
    rw [wind_ll p a b la lb, wind_ll p b c lb lc, wind_ll p c a lc la]
    refine ⟨fun ⟨hA, hB, hC⟩ => ?_, fun _ => rfl, Or.inl rfl⟩
    exfalso
    have n1 := mul_nonneg hB.le (sub_nonneg.mpr la)
    have n2 := mul_nonneg hC.le (sub_nonneg.mpr lb)
    have n3 := mul_nonneg hA.le (sub_nonneg.mpr lc)
    have z1 : area2 b c p * (p.y - a.y) = 0 := by linarith
    have z2 : area2 c a p * (p.y - b.y) = 0 := by linarith
    have z3 : area2 a b p * (p.y - c.y) = 0 := by linarith
    have e1 : a.y = p.y := by
      rcases mul_eq_zero.mp z1 with h | h
      · linarith
      · linarith
    have e2 : b.y = p.y := by
      rcases mul_eq_zero.mp z2 with h | h
      · linarith
      · linarith
    have e3 : c.y = p.y := by
      rcases mul_eq_zero.mp z3 with h | h
      · linarith
      · linarith
    have := flat_area a b c (by rw [e1, e2]) (by rw [e2, e3])
    have := area2_sum a b c p
    linarith
  · -- a, b low, c high:  W = [0 < B] - [C < 0]
    rw [wind_ll p a b la lb, wind_lh p b c lb lc, wind_hl p c a lc la, zero_add]
    have := tri_llh (a.y - p.y) (b.y - p.y) (c.y - p.y) (area2 b c p) (area2 c a p) (area2 a b p)
      (by linarith) (by linarith) (by linarith) hid (by linarith)
    refine ⟨fun h => this.1 ⟨h.2.1, h.2.2, h.1⟩, fun h => this.2.1 (by tauto), this.2.2⟩
  · -- c, a low, b high:  W = [0 < A] - [B < 0]
    rw [wind_lh p a b la lb, wind_hl p b c lb lc, wind_ll p c a lc la, add_zero]
    have := tri_llh (c.y - p.y) (a.y - p.y) (b.y - p.y) (area2 a b p) (area2 b c p) (area2 c a p)
      (by linarith) (by linarith) (by linarith) (by linarith) (by linarith)
    refine ⟨fun h => this.1 ⟨h.1, h.2.1, h.2.2⟩, fun h => this.2.1 (by tauto), this.2.2⟩
  · -- a low, b, c high:  W = [0 < A] - [C < 0]
    rw [wind_lh p a b la lb, wind_hh p b c lb lc, wind_hl p c a lc la, add_zero]
    have := tri_lhh (a.y - p.y) (b.y - p.y) (c.y - p.y) (area2 b c p) (area2 c a p) (area2 a b p)
      (by linarith) (by linarith) (by linarith) hid (by linarith)
    refine ⟨fun h => this.1 ⟨h.2.1, h.2.2, h.1⟩, fun h => this.2.1 (by tauto), this.2.2⟩
  · -- b, c low, a high:  W = [0 < C] - [A < 0]
    rw [wind_hl p a b la lb, wind_ll p b c lb lc, wind_lh p c a lc la, add_zero]
    have := tri_llh (b.y - p.y) (c.y - p.y) (a.y - p.y) (area2 c a p) (area2 a b p) (area2 b c p)
      (by linarith) (by linarith) (by linarith) (by linarith) (by linarith)
    rw [add_comm]
    refine ⟨fun h => this.1 ⟨h.2.2, h.1, h.2.1⟩, fun h => this.2.1 (by tauto), this.2.2⟩
  · -- b low, c, a high:  W = [0 < B] - [A < 0]
    rw [wind_hl p a b la lb, wind_lh p b c lb lc, wind_hh p c a lc la, add_zero]
    have := tri_lhh (b.y - p.y) (c.y - p.y) (a.y - p.y) (area2 c a p) (area2 a b p) (area2 b c p)
      (by linarith) (by linarith) (by linarith) (by linarith) (by linarith)
    rw [add_comm]
    refine ⟨fun h => this.1 ⟨h.2.2, h.1, h.2.1⟩, fun h => this.2.1 (by tauto), this.2.2⟩
  · -- c low, a, b high:  W = [0 < C] - [B < 0]
    rw [wind_hh p a b la lb, wind_hl p b c lb lc, wind_lh p c a lc la, zero_add]
    have := tri_lhh (c.y - p.y) (a.y - p.y) (b.y - p.y) (area2 a b p) (area2 b c p) (area2 c a p)
      (by linarith) (by linarith) (by linarith) (by linarith) (by linarith)
    rw [add_comm]
    refine ⟨fun h => this.1 ⟨h.1, h.2.1, h.2.2⟩, fun h => this.2.1 (by tauto), this.2.2⟩
  · rw [wind_hh p a b la lb, wind_hh p b c lb lc, wind_hh p c a lc la]
    refine ⟨fun ⟨hA, hB, hC⟩ => ?_, fun _ => rfl, Or.inl rfl⟩
    exfalso
    nlinarith [mul_pos hB (sub_pos.mpr la), mul_pos hC (sub_pos.mpr lb), mul_pos hA (sub_pos.mpr lc)]

/-! ## the winding number is additive along a clipping sequence -/

/-- Σ of the signed crossings over a list of index edges -/
def windSum (p : V2 K) (f : Nat → V2 K) (es : List (Nat × Nat)) : Int := (es.map fun e => wind p (f e.1) (f e.2)).sum

private theorem windSum_append (p : V2 K) (f : Nat → V2 K) (l₁ l₂ : List (Nat × Nat)) :
    windSum p f (l₁ ++ l₂) = windSum p f l₁ + windSum p f l₂ := by simp [windSum]

private theorem windSum_rotate (p : V2 K) (f : Nat → V2 K) (l : List Nat) (k : Nat) :
    windSum p f (polyEdges (l.rotate k)) = windSum p f (polyEdges l) := by
  rw [polyEdges_rotate]
  unfold windSum
  exact ((List.rotate_perm _ _).map _).sum_eq

theorem windSum_clip (p : V2 K) (f : Nat → V2 K) (e : Nat) (rest : List Nat) (h : rest ≠ []) :
    windSum p f (polyEdges (e :: rest)) =
      windSum p f (polyEdges rest) + triWind p (f (rest.getLast h)) (f e) (f (rest.head h)) := by
  rw [polyEdges_cons e rest h, polyEdges_eq_path rest h]
  have ha := wind_antisymm p (f (rest.getLast h)) (f (rest.head h))
  simp only [windSum, List.map_cons, List.map_append, List.sum_cons, List.sum_append, List.map_nil, List.sum_nil,
    triWind, ha]
  ring

private theorem windSum_triangle (p : V2 K) (f : Nat → V2 K) (i w u : Nat) :
    windSum p f (polyEdges [i, w, u]) = triWind p (f u) (f i) (f w) := by
  simp only [polyEdges, List.cons_append, List.nil_append, List.zip_cons_cons, List.zip_nil_right, windSum,
    List.map_cons, List.map_nil, List.sum_cons, List.sum_nil, triWind]
  ring

theorem clipSeq_wind (p : V2 K) (f : Nat → V2 K) {cyc : List Nat} {ts : List (Nat × Nat × Nat)}
    (h : ClipSeq cyc ts) :
    (ts.map fun t => triWind p (f t.1) (f t.2.1) (f t.2.2)).sum = windSum p f (polyEdges cyc) := by
  induction h with
  | @last cyc k i w u h =>
    rw [← windSum_rotate p f cyc k, h, windSum_triangle]; simp
  | @step cyc k e w u mid ts hrot _ ih =>
    rw [← windSum_rotate p f cyc k, hrot, windSum_clip p f e (w :: (mid ++ [u])) (by simp), List.map_cons,
      List.sum_cons, ih]
    simp [add_comm]

theorem windingNumber_map (p : V2 K) (f : Nat → V2 K) (l : List Nat) :
    windingNumber p (l.map f) = windSum p f (polyEdges l) := by
  unfold windingNumber windSum
  rw [polyEdges_map, List.map_map]
  rfl

variable (sq : K → K)

private theorem toList_eq_map_pt (pts : Array (V2 K)) :
    letI := fieldNum K sq
    pts.toList = (List.range pts.size).map (pt pts) := by
  apply List.ext_getElem
  · simp
  · intro i h1 h2
    simp [pt, Array.getD_eq_getD_getElem?] at h1 h2 ⊢
    simp [h1]

/-- **C16 (b), the covering count — every input** (no simplicity assumption).  On `Some(out)`, for every point `p`:
the winding numbers of the emitted triangles around `p` add up to the winding number of the input polygon around `p`.
Every emitted triangle is strictly counter-clockwise (`ear_clipping_sound`), so by `triWind_spec` each summand is `1`
if `p` is strictly inside the triangle, `0` if `p` is outside the closed triangle, `0` or `1` on its boundary:
**the number of emitted triangles that contain `p` equals the winding number of the input polygon around `p`.** -/
theorem ear_clipping_cover_eq_winding (pts : Array (V2 K)) (out : Array (Nat × Nat × Nat)) (p : V2 K) :
    letI := fieldNum K sq
    triangulateEarClipping pts = some out →
    (out.toList.map fun t => triWind p (pt pts t.1) (pt pts t.2.1) (pt pts t.2.2)).sum = windingNumber p pts.toList ∧
    (∀ t ∈ out.toList, 0 < area2 (pt pts t.1) (pt pts t.2.1) (pt pts t.2.2)) := by
  intro h
  obtain ⟨_, hseq, hccw⟩ := @triangulate_clipseq K (fieldNum K sq) pts out h
  refine ⟨?_, fun t ht => ((corner_direction_spec sq _ _ _).1).mp (hccw t ht)⟩
  rw [clipSeq_wind p (@pt K (fieldNum K sq) pts) hseq, toList_eq_map_pt sq pts, windingNumber_map]
  try simp

/-- **an accepted polygon never winds negatively** (every input): on `Some(out)` the winding number of the input polygon
around every point is `≥ 0` — it counts the emitted triangles containing the point.  So clockwise loops are never
accepted, whatever else is wrong with the input. -/
theorem ear_clipping_winding_nonneg (pts : Array (V2 K)) (out : Array (Nat × Nat × Nat)) (p : V2 K) :
    letI := fieldNum K sq
    triangulateEarClipping pts = some out → 0 ≤ windingNumber p pts.toList := by
  intro h
  obtain ⟨hsum, hpos⟩ := ear_clipping_cover_eq_winding sq pts out p h
  rw [← hsum]
  apply List.sum_nonneg
  intro x hx
  obtain ⟨t, ht, rfl⟩ := List.mem_map.mp hx
  rcases (triWind_spec _ _ _ p (hpos t ht)).2.2 with h0 | h1
  · rw [h0]
  · rw [h1]; norm_num

/-- two entries of a list of non-negative integers are together at most the sum -/
private theorem two_le_sum (l : List Int) (hl : ∀ x ∈ l, 0 ≤ x) (i j : Nat) (hij : i < j) (hj : j < l.length) :
    l[i]'(by omega) + l[j] ≤ l.sum := by
  have hsplit : l = l.take j ++ l[j] :: l.drop (j + 1) := by
    rw [List.getElem_cons_drop, List.take_append_drop]
  have hi : l[i]'(by omega) ∈ l.take j := by
    rw [List.mem_take_iff_getElem]
    exact ⟨i, by rw [Nat.lt_min]; exact ⟨hij, by omega⟩, rfl⟩
  have h1 : l[i]'(by omega) ≤ (l.take j).sum :=
    List.single_le_sum (fun x hx => hl x (List.mem_of_mem_take hx)) _ hi
  have h2 : 0 ≤ (l.drop (j + 1)).sum := List.sum_nonneg (fun x hx => hl x (List.mem_of_mem_drop hx))
  have hs : l.sum = (l.take j).sum + (l[j] + (l.drop (j + 1)).sum) := by
    have := congrArg List.sum hsplit
    simpa only [List.sum_append, List.sum_cons] using this
  linarith

/-- **a point strictly inside two emitted triangles has winding number ≥ 2** (every input).  Contrapositive: if the
input polygon winds at most once around every point, the interiors of the emitted triangles are pairwise disjoint. -/
theorem ear_clipping_overlap_winding (pts : Array (V2 K)) (out : Array (Nat × Nat × Nat)) (p : V2 K) (i j : Nat)
    (hij : i < j) (hj : j < out.size) :
    letI := fieldNum K sq
    triangulateEarClipping pts = some out →
    InsideTri (pt pts out[i].1) (pt pts out[i].2.1) (pt pts out[i].2.2) p →
    InsideTri (pt pts out[j].1) (pt pts out[j].2.1) (pt pts out[j].2.2) p →
    2 ≤ windingNumber p pts.toList := by
  intro h hi hjn
  obtain ⟨hsum, hpos⟩ := ear_clipping_cover_eq_winding sq pts out p h
  rw [← hsum]
  set f := @pt K (fieldNum K sq) pts
  set l := out.toList.map fun t => triWind p (f t.1) (f t.2.1) (f t.2.2) with hl
  have hlen : l.length = out.size := by simp [hl]
  have hnn : ∀ x ∈ l, 0 ≤ x := by
    intro x hx
    obtain ⟨t, ht, rfl⟩ := List.mem_map.mp hx
    rcases (triWind_spec _ _ _ p (hpos t ht)).2.2 with h0 | h1
    · rw [h0]
    · rw [h1]; norm_num
  have key := two_le_sum l hnn i j hij (by omega)
  have ei : l[i]'(by omega) = 1 := by
    simp only [hl, List.getElem_map, Array.getElem_toList]
    exact (triWind_spec _ _ _ p (hpos _ (by simp))).1 hi
  have ej : l[j]'(by omega) = 1 := by
    simp only [hl, List.getElem_map, Array.getElem_toList]
    exact (triWind_spec _ _ _ p (hpos _ (by simp))).1 hjn
  rw [ei, ej] at key
  linarith

/-- **C16 (b), pairwise disjoint interiors — under the winding hypothesis.**  If the input polygon winds at most once
around every point and `Some(out)` is returned, no point lies strictly inside two different emitted triangles. -/
theorem ear_clipping_disjoint_of_winding (pts : Array (V2 K)) (out : Array (Nat × Nat × Nat))
    (hw : ∀ p, windingNumber p pts.toList ≤ 1) :
    letI := fieldNum K sq
    triangulateEarClipping pts = some out →
    ∀ i j (_ : i < j) (hj : j < out.size) (p : V2 K),
      ¬ (InsideTri (pt pts out[i].1) (pt pts out[i].2.1) (pt pts out[i].2.2) p ∧
         InsideTri (pt pts out[j].1) (pt pts out[j].2.1) (pt pts out[j].2.2) p) := by
  intro h i j hij hj p ⟨h1, h2⟩
  have := ear_clipping_overlap_winding sq pts out p i j hij hj h h1 h2
  have := hw p
  omega

/-- **the Jordan-curve fact that is *not* proved here**: a simple closed polygon winds at most once (in absolute value:
`-1`, `0` or `1`; the sign is that of its area) around every point.  `ear_clipping_disjoint` below is the disjointness
clause of C16 under this single assumption; the exact oracle (`allDisjoint`) decides it on every explored case. -/
def JordanLite (K : Type) [Field K] [LinearOrder K] [IsStrictOrderedRing K] : Prop :=
  ∀ (f : Nat → V2 K) (n : Nat), SimplePoly f (List.range n) → ∀ p, windingNumber p ((List.range n).map f) ≤ 1

/-- **C16 (b), pairwise disjoint interiors on simple input — assuming `JordanLite`.** -/
theorem ear_clipping_disjoint (hJ : JordanLite K) (pts : Array (V2 K)) (out : Array (Nat × Nat × Nat)) :
    letI := fieldNum K sq
    triangulateEarClipping pts = some out →
    SimplePoly (pt pts) (List.range pts.size) →
    ∀ i j (_ : i < j) (hj : j < out.size) (p : V2 K),
      ¬ (InsideTri (pt pts out[i].1) (pt pts out[i].2.1) (pt pts out[i].2.2) p ∧
         InsideTri (pt pts out[j].1) (pt pts out[j].2.1) (pt pts out[j].2.2) p) := by
  intro h hs
  refine ear_clipping_disjoint_of_winding sq pts out ?_ h
  intro p
  rw [toList_eq_map_pt sq pts]
  exact hJ _ _ hs p

/-- non-vacuity of `triWind_spec`: the winding number of the unit right triangle around an interior point is 1 -/
example : triWind (K := ℚ) ⟨1/4, 1/4⟩ ⟨0,0⟩ ⟨1,0⟩ ⟨0,1⟩ = 1 :=
  (triWind_spec _ _ _ _ (by simp [area2])).1 (by simp [InsideTri, area2]; norm_num)

/-- the self-intersecting hexagon of `KNOWN_FINDINGS.txt`, `(0,0),(4,0),(4,3),(1,1),(3,1),(0,3)`, winds twice around
`(2, 4/3)`: by `ear_clipping_cover_eq_winding` any `Some` result covers that point twice — a wrong tiling, which the
local ear tests cannot see. -/
example : windingNumber (K := ℚ) ⟨2, 4/3⟩ [⟨0,0⟩, ⟨4,0⟩, ⟨4,3⟩, ⟨1,1⟩, ⟨3,1⟩, ⟨0,3⟩] = 2 := by
  simp [windingNumber, polyEdges, wind, area2]
  norm_num

/-- sanity of the orientation convention: the counter-clockwise unit square winds once around its centre and not at all
around an outside point -/
example : windingNumber (K := ℚ) ⟨1/2, 1/2⟩ [⟨0,0⟩, ⟨1,0⟩, ⟨1,1⟩, ⟨0,1⟩] = 1 ∧
    windingNumber (K := ℚ) ⟨2, 1/2⟩ [⟨0,0⟩, ⟨1,0⟩, ⟨1,1⟩, ⟨0,1⟩] = 0 := by
  constructor <;> (simp [windingNumber, polyEdges, wind, area2]; try norm_num)

/-- … and the model (like the real code, see `corpus/C16.txt`) does accept that hexagon, with four counter-clockwise,
area-conserving triangles of which the first and the last both contain `(2, 4/3)`: the `None, never a wrong tiling`
clause fails for this non-simple input (KNOWN FINDING: no simplicity check). -/
example : @triangulateEarClipping ℚ (fieldNum ℚ id) #[⟨0,0⟩, ⟨4,0⟩, ⟨4,3⟩, ⟨1,1⟩, ⟨3,1⟩, ⟨0,3⟩]
    = some #[(3, 4, 5), (3, 5, 0), (3, 0, 1), (3, 1, 2)] := by
  decide +kernel

example : InsideTri (K := ℚ) ⟨1,1⟩ ⟨3,1⟩ ⟨0,3⟩ ⟨2, 4/3⟩ ∧ InsideTri (K := ℚ) ⟨1,1⟩ ⟨4,0⟩ ⟨4,3⟩ ⟨2, 4/3⟩ := by
  simp only [InsideTri, area2]; norm_num

end C16
