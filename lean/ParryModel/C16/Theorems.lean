import ParryModel.Field
import ParryModel.C15.Theorems
import ParryModel.C16.Model
import ParryModel.C16.Lemmas
import ParryModel.C16.Theorems2
import ParryModel.C16.Theorems3
import ParryModel.C16.Theorems4
import ParryModel.C16.Theorems5
import ParryModel.C16.Theorems6
import ParryModel.C16.Theorems7
import ParryModel.C16.Theorems8
import ParryModel.C16.Theorems9
import ParryModel.C16.Theorems10
import ParryModel.C16.Theorems11
import ParryModel.C16.Theorems12
import ParryModel.C16.Theorems13
import ParryModel.C16.Theorems14
/-!
# C16 property theorems: ear clipping and Hertel–Mehlhorn, for every linearly ordered field.

`shoelace2 poly` = Σ over the closed polygon's directed edges of `a × b` = twice its signed area (positive for
counter-clockwise polygons); `area2 a b c` = twice the signed area of a triangle (both defined in `C15/Cyclic.lean`).
-/
namespace C16
open Model Model.C15 Model.C16 C15

variable {K : Type} [Field K] [LinearOrder K] [IsStrictOrderedRing K] (sq : K → K)

/-- algebraic core: a clipping sequence of a cycle conserves the signed area, whatever the points are -/
theorem clipSeq_area (f : Nat → V2 K) {cyc : List Nat} {ts : List (Nat × Nat × Nat)} (h : ClipSeq cyc ts) :
    (ts.map fun t => area2 (f t.1) (f t.2.1) (f t.2.2)).sum = edgeSum f (polyEdges cyc) := by
  induction h with
  | @last cyc k i w u h =>
    rw [← edgeSum_rotate f cyc k, h, edgeSum_triangle]; simp
  | @step cyc k e w u mid ts hrot _ ih =>
    rw [← edgeSum_rotate f cyc k, hrot, edgeSum_clip f e (w :: (mid ++ [u])) (by simp), List.map_cons, List.sum_cons, ih]
    simp [add_comm]

/-- fewer than three vertices are rejected (the pinned code underflows `n - 3`) -/
theorem triangulate_lt3 (pts : Array (V2 K)) (h : pts.size < 3) :
    letI := fieldNum K sq
    triangulateEarClipping pts = none := by
  simp [triangulateEarClipping, h]

/-- **C16, ear clipping, every input** (no simplicity assumption): on `Some(out)`
* `out.len() = n - 2`, every index is `< n`, the three indices of each triangle are distinct;
* every triangle is strictly counter-clockwise;
* signed-area conservation: `Σ area2(triangle) = shoelace2(polygon)`. -/
theorem ear_clipping_sound (pts : Array (V2 K)) (out : Array (Nat × Nat × Nat)) :
    letI := fieldNum K sq
    triangulateEarClipping pts = some out →
    out.size + 2 = pts.size ∧
    (∀ t ∈ out.toList, t.1 < pts.size ∧ t.2.1 < pts.size ∧ t.2.2 < pts.size ∧
        t.1 ≠ t.2.1 ∧ t.2.1 ≠ t.2.2 ∧ t.1 ≠ t.2.2) ∧
    (∀ t ∈ out.toList, 0 < area2 (pt pts t.1) (pt pts t.2.1) (pt pts t.2.2)) ∧
    (out.toList.map fun t => area2 (pt pts t.1) (pt pts t.2.1) (pt pts t.2.2)).sum = shoelace2 pts.toList := by
  intro h
  obtain ⟨_, hseq, hccw⟩ := @triangulate_clipseq K (fieldNum K sq) pts out h
  refine ⟨?_, ?_, ?_, ?_⟩
  · have := hseq.length; simpa using this
  · intro t ht
    obtain ⟨a, b, c, d⟩ := hseq.mem List.nodup_range t ht
    exact ⟨List.mem_range.mp a, List.mem_range.mp b, List.mem_range.mp c, d⟩
  · intro t ht
    exact ((corner_direction_spec sq _ _ _).1).mp (hccw t ht)
  · rw [clipSeq_area (@pt K (fieldNum K sq) pts) hseq, shoelace2, ← edgeSum_map]
    congr 2
    apply List.ext_getElem
    · simp
    · intro i h1 h2
      simp [pt, Array.getD_eq_getD_getElem?] at h1 h2 ⊢
      simp [h2]

/-- **rejection of clockwise / zero-area input**: if the shoelace area is not positive the result is `None`
(contrapositive of area conservation with strictly counter-clockwise triangles). False on the pinned tree. -/
theorem ear_clipping_rejects_cw (pts : Array (V2 K)) (h : shoelace2 pts.toList ≤ 0) :
    letI := fieldNum K sq
    triangulateEarClipping pts = none := by
  cases hr : @triangulateEarClipping K (fieldNum K sq) pts with
  | none => rfl
  | some out =>
    exfalso
    obtain ⟨hlen, _, hpos, hsum⟩ := ear_clipping_sound sq pts out hr
    have hne : out.toList ≠ [] := by
      intro hh; have := congrArg List.length hh; simp at this
      have hs : out.size = 0 := by simpa using this
      obtain ⟨h3, _⟩ := @triangulate_clipseq K (fieldNum K sq) pts out hr
      omega
    have : 0 < (out.toList.map fun t => area2 (@pt K (fieldNum K sq) pts t.1) (@pt K (fieldNum K sq) pts t.2.1)
        (@pt K (fieldNum K sq) pts t.2.2)).sum := by
      apply List.sum_pos
      · intro x hx
        obtain ⟨t, ht, rfl⟩ := List.mem_map.mp hx
        exact hpos t ht
      · simpa using hne
    linarith

/-- the counter-clockwise unit right triangle is accepted … -/
example : @triangulateEarClipping ℚ (fieldNum ℚ id) #[⟨0,0⟩, ⟨1,0⟩, ⟨0,1⟩] = some #[(2, 0, 1)] := by
  simp [triangulateEarClipping, initInfos, initVInfo, updateVertex, noPointInside, clipLoop, firstActive, pt, normalize,
    isNaN, neq, cornerDirection, V2.sub, V2.perp, V2.sdiv, V2.norm, V2.normSq, V2.dot, List.range, List.range.loop,
    Array.getD_eq_getD_getElem?]

/-- … and its clockwise mirror image is rejected (the pinned tree returns `Some([[2,0,1]])`) -/
example : @triangulateEarClipping ℚ (fieldNum ℚ id) #[⟨0,0⟩, ⟨0,1⟩, ⟨1,0⟩] = none :=
  ear_clipping_rejects_cw id _ (by simp [shoelace2, edgeSum, polyEdges, cross])

/-! ## Hertel–Mehlhorn -/

/-- **C16, Hertel–Mehlhorn, every input** (any triangle list, any fuel): the merged pieces
* conserve the total signed area: `Σ shoelace2(piece) = Σ area2(triangle)`;
* have at least three vertices each;
* use only vertex indices of the input triangles. -/
theorem hertel_mehlhorn_sound (pts : Array (V2 K)) (tris : Array (Nat × Nat × Nat)) :
    letI := fieldNum K sq
    ((hertelMehlhornIdx pts tris).toList.map fun p => shoelace2 (p.toList.map (pt pts))).sum =
      (tris.toList.map fun t => area2 (pt pts t.1) (pt pts t.2.1) (pt pts t.2.2)).sum ∧
    (∀ p ∈ (hertelMehlhornIdx pts tris).toList, 3 ≤ p.size) ∧
    (∀ p ∈ (hertelMehlhornIdx pts tris).toList, ∀ x ∈ p.toList,
      ∃ t ∈ tris.toList, x = t.1 ∨ x = t.2.1 ∨ x = t.2.2) := by
  have hinit : HMInv (@pt K (fieldNum K sq) pts) (fun x => ∃ t ∈ tris.toList, x = t.1 ∨ x = t.2.1 ∨ x = t.2.2)
      ((tris.toList.map fun t => area2 (@pt K (fieldNum K sq) pts t.1) (@pt K (fieldNum K sq) pts t.2.1)
        (@pt K (fieldNum K sq) pts t.2.2)).sum)
      (tris.map fun t => #[t.1, t.2.1, t.2.2]) := by
    refine ⟨?_, ?_, ?_⟩
    · intro p hp; simp only [Array.toList_map, List.mem_map] at hp; obtain ⟨t, _, rfl⟩ := hp; simp
    · unfold total
      simp only [Array.toList_map, List.map_map]
      congr 1
      apply List.map_congr_left
      intro t _
      simp only [Function.comp]
      rw [edgeSum_triangle]
      simp only [area2]; ring
    · intro p hp x hx
      simp only [Array.toList_map, List.mem_map] at hp
      obtain ⟨t, ht, rfl⟩ := hp
      refine ⟨t, ht, ?_⟩
      simp only [List.mem_cons, List.not_mem_nil, or_false] at hx
      exact hx
  obtain ⟨h3, htot, hS⟩ := @hmLoop_inv K (fieldNum K sq) K _ pts (@pt K (fieldNum K sq) pts) _ _
    ((2 * tris.size + 2) * (3 * tris.size + 3)) _ 0 0 hinit
  refine ⟨?_, h3, hS⟩
  rw [← htot]
  unfold total hertelMehlhornIdx
  simp only [shoelace2, edgeSum_map]

/-! ## the whole pipeline `from_polygon` → `hertel_mehlhorn` -/

/-- **C16, end to end — every input polygon** (no simplicity assumption).  When `triangulate_ear_clipping` returns
`Some(out)`, the pieces `hertel_mehlhorn_idx(vertices, out)` (the polygons `Compound::decompose_trimesh` builds its
shapes from, see `decompose_trimesh_pieces`)
* have total signed area equal to the polygon's shoelace area;
* each have at least three vertices, positive signed area (counter-clockwise) and no clockwise corner;
* correspond to groups of triangles that partition `out`, each piece being the boundary of its group glued along shared
  diagonals (`hm_pieces_partition`). -/
theorem polygon_pipeline_sound (pts : Array (V2 K)) (out : Array (Nat × Nat × Nat)) :
    letI := fieldNum K sq
    triangulateEarClipping pts = some out →
    ((hertelMehlhornIdx pts out).toList.map fun p => shoelace2 (p.toList.map (pt pts))).sum = shoelace2 pts.toList ∧
    (∀ p ∈ (hertelMehlhornIdx pts out).toList,
      3 ≤ p.size ∧ 0 < shoelace2 (p.toList.map (pt pts)) ∧ LocallyConvex (pt pts) p.toList) ∧
    (∃ groups : List (List (Nat × Nat × Nat)),
      groups.length = (hertelMehlhornIdx pts out).size ∧ groups.flatten.Perm out.toList ∧
      ∀ k (hk : k < (hertelMehlhornIdx pts out).size) (hk' : k < groups.length),
        PieceOf (hertelMehlhornIdx pts out)[k] groups[k]) := by
  intro h
  obtain ⟨_, _, hpos, hsum⟩ := ear_clipping_sound sq pts out h
  obtain ⟨harea, _, _⟩ := hertel_mehlhorn_sound sq pts out
  refine ⟨by rw [harea, hsum], ?_, hm_pieces_partition sq pts out⟩
  intro p hp
  have h1 := hm_pieces_ccw sq pts out hpos p hp
  have h2 := hm_pieces_locally_convex sq pts out (fun t ht => (hpos t ht).le) p hp
  exact ⟨h2.1, h1, h2.2⟩

/-! ## the complete ear-clipping clause on strictly convex input -/

/-- **C16, ear clipping tiles every strictly convex counter-clockwise polygon exactly** (`n ≥ 3`; no assumption
besides strict convex position, nothing left to an oracle).  `triangulate_ear_clipping` returns `Some(out)` with
* `n - 2` triangles, each strictly counter-clockwise, over the input vertices;
* `Σ area2(triangle) = shoelace2(polygon)`;
* pairwise disjoint open triangles;
* every interior point of the polygon (strictly left of every edge) in some closed triangle;
* every closed triangle inside the polygon (on the closed left of every edge). -/
theorem ear_clipping_tiles_convex (pts : Array (V2 K)) :
    letI := fieldNum K sq
    3 ≤ pts.size → StrictConvexRange (pt pts) pts.size →
    ∃ out, triangulateEarClipping pts = some out ∧ out.size + 2 = pts.size ∧
      (∀ t ∈ out.toList, t.1 < pts.size ∧ t.2.1 < pts.size ∧ t.2.2 < pts.size ∧
        0 < area2 (pt pts t.1) (pt pts t.2.1) (pt pts t.2.2)) ∧
      (out.toList.map fun t => area2 (pt pts t.1) (pt pts t.2.1) (pt pts t.2.2)).sum = shoelace2 pts.toList ∧
      (∀ i j (_ : i < j) (hj : j < out.size) (p : V2 K),
        ¬ (InsideTri (pt pts out[i].1) (pt pts out[i].2.1) (pt pts out[i].2.2) p ∧
           InsideTri (pt pts out[j].1) (pt pts out[j].2.1) (pt pts out[j].2.2) p)) ∧
      (∀ p, StrictlyLeftOfAll (pt pts) (List.range pts.size) p →
        ∃ t ∈ out.toList, InClosedTri (pt pts t.1) (pt pts t.2.1) (pt pts t.2.2) p) ∧
      (∀ t ∈ out.toList, ∀ p, InClosedTri (pt pts t.1) (pt pts t.2.1) (pt pts t.2.2) p →
        ∀ e ∈ polyEdges (List.range pts.size), 0 ≤ area2 (pt pts e.1) (pt pts e.2) p) := by
  intro h3 hc
  obtain ⟨out, hout⟩ := ear_clipping_succeeds_convex sq pts h3 hc
  obtain ⟨hlen, hidx, hpos, hsum⟩ := ear_clipping_sound sq pts out hout
  have hcp : ConvexPos (@pt K (fieldNum K sq) pts) (List.range pts.size) :=
    (convexPos_range _ _).mpr fun i j k a b c => (hc i j k a b c).le
  refine ⟨out, hout, hlen, ?_, hsum, ear_clipping_disjoint_convex sq pts out hout hcp,
    fun p hp => ear_clipping_covers_kernel sq pts out p hout hp,
    ear_clipping_inside_convex sq pts out hout hcp⟩
  intro t ht
  obtain ⟨a, b, c, _⟩ := hidx t ht
  exact ⟨a, b, c, hpos t ht⟩

/-! ## `hertel_mehlhorn` (point form) -/

/-- **`hertel_mehlhorn` (points) is `hertel_mehlhorn_idx` mapped through the vertex buffer — every input.**  Same number of
pieces, the `k`-th point piece is the `k`-th index piece with every index replaced by its vertex, and when the input
triangles use valid indices (`< n`) so does every piece: the `vertices[idx as usize]` look-ups of the wrapper cannot go
out of bounds. -/
theorem hertel_mehlhorn_pts_spec (pts : Array (V2 K)) (tris : Array (Nat × Nat × Nat)) :
    letI := fieldNum K sq
    (hertelMehlhorn pts tris).size = (hertelMehlhornIdx pts tris).size ∧
    (∀ k (h1 : k < (hertelMehlhorn pts tris).size) (h2 : k < (hertelMehlhornIdx pts tris).size),
      (hertelMehlhorn pts tris)[k] = (hertelMehlhornIdx pts tris)[k].map (pt pts)) ∧
    ((∀ t ∈ tris.toList, t.1 < pts.size ∧ t.2.1 < pts.size ∧ t.2.2 < pts.size) →
      ∀ p ∈ (hertelMehlhornIdx pts tris).toList, ∀ x ∈ p.toList, x < pts.size) := by
  refine ⟨by simp [hertelMehlhorn], fun k h1 h2 => by simp [hertelMehlhorn], ?_⟩
  intro hidx p hp x hx
  obtain ⟨t, ht, hxt⟩ := (hertel_mehlhorn_sound sq pts tris).2.2 p hp x hx
  obtain ⟨a, b, c⟩ := hidx t ht
  rcases hxt with rfl | rfl | rfl <;> assumption

/-- **C16, end to end: the only `None` of the pipeline is the triangulation's** (corrected function) — every polygon whose
vertices are pairwise farther apart than `ε`.  Whenever ear clipping answers `Some(out)`, `decompose_trimesh` on that mesh
answers `Some(compound)`: thin pieces and tiny-but-representable edges never make the decomposition fail. -/
theorem polygon_decompose_isSome (pts : Array (V2 K)) (out : Array (Nat × Nat × Nat))
    (hsep : letI := fieldNum K sq
      ∀ i j, i < pts.size → j < pts.size → i ≠ j →
        (C10.eps : K) * C10.eps < ((pt pts j).x - (pt pts i).x) * ((pt pts j).x - (pt pts i).x)
          + ((pt pts j).y - (pt pts i).y) * ((pt pts j).y - (pt pts i).y)) :
    letI := fieldNum K sq
    triangulateEarClipping pts = some out → (decomposeTrimesh pts out).isSome := by
  letI := fieldNum K sq
  intro h
  obtain ⟨_, hidx, _, _⟩ := ear_clipping_sound sq pts out h
  exact decompose_trimesh_isSome_of_separated sq pts out hidx hsep

/-- **C16 (a)+(c) on strictly convex input: the whole pipeline answers** (corrected `decompose_trimesh`).  For a strictly
convex counter-clockwise polygon with `n ≥ 3` vertices pairwise farther apart than `ε`, `TriMesh::from_polygon` returns a mesh
and `Compound::decompose_trimesh` on it returns a compound — whatever the aspect ratio (needles) and however short the edges
(chamfers). -/
theorem convex_polygon_decompose_isSome (pts : Array (V2 K))
    (hsep : letI := fieldNum K sq
      ∀ i j, i < pts.size → j < pts.size → i ≠ j →
        (C10.eps : K) * C10.eps < ((pt pts j).x - (pt pts i).x) * ((pt pts j).x - (pt pts i).x)
          + ((pt pts j).y - (pt pts i).y) * ((pt pts j).y - (pt pts i).y)) :
    letI := fieldNum K sq
    3 ≤ pts.size → StrictConvexRange (pt pts) pts.size →
    ∃ out, triangulateEarClipping pts = some out ∧ (decomposeTrimesh pts out).isSome := by
  letI := fieldNum K sq
  intro h3 hc
  obtain ⟨out, hout⟩ := ear_clipping_succeeds_convex sq pts h3 hc
  exact ⟨out, hout, polygon_decompose_isSome sq pts out hsep hout⟩

/-- twice the signed area of a shape of the compound -/
def shapeArea2 : Piece K → K
  | .triangle a b c => shoelace2 [a, b, c]
  | .polygon points _ => shoelace2 points.toList

/-- the shape keeps every point of its piece (nothing pruned) -/
def Unpruned (piece : Array Nat) : Piece K → Prop
  | .triangle _ _ _ => True
  | .polygon points _ => points.size = piece.size

private theorem shapeOf_area (pts : Array (V2 K)) (piece : Array Nat) (s : Piece K)
    (h : ShapeOf sq pts piece s) (hu : Unpruned piece s) :
    letI := fieldNum K sq
    shapeArea2 s = shoelace2 (piece.toList.map (pt pts)) := by
  letI := fieldNum K sq
  cases s with
  | triangle a b c =>
    obtain ⟨h3, rfl, rfl, rfl⟩ := h
    obtain ⟨l, hl⟩ : ∃ l, piece.toList = l := ⟨_, rfl⟩
    have hlen : l.length = 3 := by rw [← hl]; simpa using h3
    match l, hlen with
    | [x, y, z], _ =>
      have e : piece = #[x, y, z] := by
        apply Array.ext'; simpa using hl
      subst e
      simp [shapeArea2, pt]
  | polygon points normals =>
    obtain ⟨_, hsub, _, _⟩ := h
    have hlen : points.toList.length = (piece.toList.map (pt pts)).length := by
      have : points.size = piece.size := hu
      simpa using this
    have := hsub.eq_of_length hlen
    simp [shapeArea2, this]

private theorem forall2_area (pts : Array (V2 K)) :
    ∀ (ps : List (Array Nat)) (shapes : List (Piece K)),
      List.Forall₂ (ShapeOf sq pts) ps shapes → List.Forall₂ Unpruned ps shapes →
      (shapes.map shapeArea2).sum = (ps.map fun p => shoelace2 (p.toList.map (@pt K (fieldNum K sq) pts))).sum := by
  intro ps shapes h1
  induction h1 with
  | nil => intro _; simp
  | cons hab _ ih =>
    intro h2
    cases h2 with
    | cons hu hrest =>
      simp only [List.map_cons, List.sum_cons]
      rw [ih hrest, shapeOf_area sq pts _ _ hab hu]

/-- **C16 (c), the compound tiles the polygon exactly when nothing is pruned** (corrected `decompose_trimesh`) — every
input polygon.  If ear clipping answers `Some(out)`, `decompose_trimesh` answers `Some(shapes)` and every `ConvexPolygon`
shape kept all points of its Hertel–Mehlhorn piece (always the case when no piece corner is straight within the 1.73e-4 rad
pruning tolerance, and for every piece that went through the `from_convex_polyline_unmodified` fallback), then the signed
areas of the shapes add up to the polygon's shoelace area exactly. -/
theorem polygon_decompose_area_exact (pts : Array (V2 K)) (out : Array (Nat × Nat × Nat)) (shapes : List (Piece K)) :
    letI := fieldNum K sq
    triangulateEarClipping pts = some out → decomposeTrimesh pts out = some shapes →
    List.Forall₂ Unpruned (hertelMehlhornIdx pts out).toList shapes →
    (shapes.map shapeArea2).sum = shoelace2 pts.toList := by
  letI := fieldNum K sq
  intro h hd hu
  have h1 := decompose_trimesh_pieces sq pts out shapes hd
  rw [forall2_area sq pts _ _ h1 hu]
  exact (polygon_pipeline_sound sq pts out h).1

end C16
