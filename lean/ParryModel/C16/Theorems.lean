import ParryModel.Field
import ParryModel.C15.Theorems
import ParryModel.C16.Model
/-!
# C16 property theorems: ear clipping and Hertel–Mehlhorn, for every linearly ordered field.
-/
namespace C16
open Model Model.C15 Model.C16

variable {K : Type} [Field K] [LinearOrder K] [IsStrictOrderedRing K] (sq : K → K)

/-- fewer than three vertices are rejected -/
theorem triangulate_lt3 (pts : Array (V2 K)) (h : pts.size < 3) :
    letI := fieldNum K sq
    triangulateEarClipping pts = none := by
  simp [triangulateEarClipping, h]

end C16
