import ParryModel.Proto
import ParryModel.C15.Driver
import ParryModel.C16.Model
/-! C16 protocol handlers.

* `triangulate n x0 y0 …`                         → `none` | `some k a0 b0 c0 a1 b1 c1 …`   (`TriMesh::from_polygon`)
* `hertel_mehlhorn n x0 y0 … k a0 b0 c0 …`        → `m len0 i… len1 i… …`                  (`hertel_mehlhorn_idx`)
* `hertel_mehlhorn_pts n x0 y0 … k a0 b0 c0 …`    → `m len0 x y … len1 x y … …`            (`hertel_mehlhorn`)
* `decompose n x0 y0 …`                           → `none` | `cnone` | `shapes m (T a b c | P k points… normals…)*`
                                                     (`Compound::decompose_trimesh(&TriMesh::from_polygon(..)?)`)
* `decompose_tris n x0 y0 … k a0 b0 c0 …`         → same                (`Compound::decompose_trimesh(&TriMesh::new(..))`)

Oracles (exact `Rat`, independent of the model): input classification (simple? orientation?) by exact segment
predicates; output judged as a tiling: count, index range, every triangle counter-clockwise, Σ area = polygon area,
pairwise interior-disjointness (separating-axis test on the exact coordinates), convexity of the H–M pieces.
-/
namespace C16
open Model Model.C16 Proto
open C15 (area2R cross2)

/-- directed edges of a closed index/point cycle -/
def edgesOf {α : Type} (poly : List α) : List (α × α) :=
  match poly with
  | [] => []
  | p :: ps => List.zip (p :: ps) (ps ++ [p])

def ptris : P (Array (Nat × Nat × Nat)) := do
  let l ← plist (do let a ← pnat; let b ← pnat; let c ← pnat; pure (a, b, c))
  pure l.toArray
def ftris (t : Array (Nat × Nat × Nat)) : String :=
  t.foldl (fun s (a, b, c) => s ++ s!" {a} {b} {c}") s!"{t.size}"
def fpolys (ps : Array (Array Nat)) : String :=
  ps.foldl (fun s p => p.foldl (fun s i => s ++ s!" {i}") (s ++ s!" {p.size}")) s!"{ps.size}"
def ppolys : P (List (List Nat)) := plist (plist pnat)

/-! ## exact predicates -/
def sgn (x : Rat) : Int := if x > 0 then 1 else if x < 0 then -1 else 0

/-- closed segments `[a,b]` and `[c,d]` have a common point -/
def segsTouch (a b c d : V2 Rat) : Bool :=
  let o1 := sgn (area2R a b c); let o2 := sgn (area2R a b d); let o3 := sgn (area2R c d a); let o4 := sgn (area2R c d b)
  let onSeg (p q r : V2 Rat) : Bool :=   -- r collinear with pq assumed; r within the box of pq
    C15.rmin p.x q.x ≤ r.x && r.x ≤ C15.rmax p.x q.x && C15.rmin p.y q.y ≤ r.y && r.y ≤ C15.rmax p.y q.y
  if o1 != o2 && o3 != o4 && o1 * o2 ≤ 0 && o3 * o4 ≤ 0 && !(o1 == 0 && o2 == 0) then true
  else (o1 == 0 && onSeg a b c) || (o2 == 0 && onSeg a b d) || (o3 == 0 && onSeg c d a) || (o4 == 0 && onSeg c d b)

/-- simple polygon: no repeated vertex, non-adjacent edges disjoint, adjacent edges share only their common end point -/
def isSimple (poly : Array (V2 Rat)) : Bool :=
  let n := poly.size
  if n < 3 then false else
  (List.range n).all fun i =>
    let a := poly.getD i ⟨0,0⟩; let b := poly.getD ((i + 1) % n) ⟨0,0⟩
    !(a.x == b.x && a.y == b.y) &&
    ((List.range n).all fun j =>
      if j ≤ i then true else
      let c := poly.getD j ⟨0,0⟩; let d := poly.getD ((j + 1) % n) ⟨0,0⟩
      if j = i + 1 then
        -- adjacent: b = c; the next edge must not fold back onto this one
        !(area2R a b d == 0 && (b.sub a).dot (d.sub b) < 0)
      else if (j + 1) % n = i then
        !(area2R c d b == 0 && (d.sub c).dot (b.sub d) < 0)
      else
        (C15.rmax a.x b.x < C15.rmin c.x d.x || C15.rmax c.x d.x < C15.rmin a.x b.x ||
         C15.rmax a.y b.y < C15.rmin c.y d.y || C15.rmax c.y d.y < C15.rmin a.y b.y) || !(segsTouch a b c d))

def shoelace2 (poly : List (V2 Rat)) : Rat := ((edgesOf poly).map fun e => cross2 e.1 e.2).foldl (· + ·) 0

/-- bounding box `(minx, maxx, miny, maxy)` -/
def bbox (p : List (V2 Rat)) : Rat × Rat × Rat × Rat :=
  match p with
  | [] => (0, 0, 0, 0)
  | v :: vs => vs.foldl (fun (a, b, c, d) w => (C15.rmin a w.x, C15.rmax b w.x, C15.rmin c w.y, C15.rmax d w.y)) (v.x, v.x, v.y, v.y)
def boxesApart (a b : Rat × Rat × Rat × Rat) : Bool :=
  a.2.1 ≤ b.1 || b.2.1 ≤ a.1 || a.2.2.2 ≤ b.2.2.1 || b.2.2.2 ≤ a.2.2.1

/-- interiors of two convex counter-clockwise polygons (positive area) are disjoint ⇔ some edge line separates them
(bounding boxes first: a cheap sufficient test) -/
def convexInteriorsDisjoint (sl : Rat) (p q : List (V2 Rat)) : Bool :=
  let sep (p q : List (V2 Rat)) : Bool := (edgesOf p).any fun e => q.all fun v => decide (area2R e.1 e.2 v ≤ sl)
  sep p q || sep q p

/-- all pairs of a list of (polygon, bbox) have disjoint interiors -/
def allDisjoint (sl : Rat) (l : List (List (V2 Rat))) : Bool :=
  let rec go : List (List (V2 Rat) × (Rat × Rat × Rat × Rat)) → Bool
    | [] => true
    | (x, bx) :: xs => xs.all (fun (y, by') => boxesApart bx by' || convexInteriorsDisjoint sl x y) && go xs
  go (l.map fun p => (p, bbox p))

/-- convex, counter-clockwise, positive area: every vertex on the closed left of every edge -/
def isConvexCcw (sl : Rat) (p : List (V2 Rat)) : Bool :=
  decide (shoelace2 p > 0) && ((edgesOf p).all fun e => p.all fun v => decide (-sl ≤ area2R e.1 e.2 v))

/-- rounding slack for sign decisions on the exact coordinates: 0 for lattice inputs (the implementation's cross products
are then exact), else `1e-12 · diam²` -/
def slackOf (poly : Array (V2 Rat)) : Rat :=
  if poly.all C15.isLat2 then 0 else
  let (a, b, c, d) := bbox poly.toList
  let diam := (b - a) + (d - c)
  diam * diam / 1000000000000

def pairwise {α} (l : List α) (f : α → α → Bool) : Bool :=
  match l with
  | [] => true
  | x :: xs => xs.all (f x) && pairwise xs f

/-! ## oracles -/
/-- three vertices (any three: clipping makes non-neighbours adjacent) of a non-lattice polygon are collinear up to
rounding (relative 1e-9): the corner test and the boundary-counts-as-inside rule of the ear test are then decided by
rounding errors.  Only evaluated on the rare `None`-for-a-valid-polygon path (O(n³)) to label the failure. -/
def nearCollinearTriple (poly : Array (V2 Rat)) : Bool :=
  if poly.all C15.isLat2 then false else
  let n := poly.size
  (List.range n).any fun i => (List.range n).any fun j => j > i && (List.range n).any fun k => k > j &&
    (let a := poly.getD i ⟨0,0⟩; let b := poly.getD j ⟨0,0⟩; let c := poly.getD k ⟨0,0⟩
     decide (rabs (area2R a b c) ≤ (C15.ninf (b.sub a) * C15.ninf (c.sub a)) / 1000000000))

def oracleTri (poly : Array (V2 Rat)) (out : List String) : String :=
  let n := poly.size
  let A := shoelace2 poly.toList
  let simple := isSimple poly
  let sl := slackOf poly
  match out with
  | "panic" :: _ => "fail panic"
  | ["none"] =>
    if n < 3 then "pass" else
    if !simple then "pass" else
    if A ≤ 0 then "pass" else
    if nearCollinearTriple poly then "fail none-for-simple-ccw-polygon(nearly-collinear-vertices)"
    else "fail none-for-simple-ccw-polygon"
  | "some" :: rest =>
    match run (do let t ← ptris; pend; pure t) rest with
    | none => "fail unparsable-output"
    | some tris =>
      if n < 3 then "fail some-for-fewer-than-3-vertices" else
      if simple && A < 0 then s!"fail accepted-clockwise-polygon area2R={A}" else
      if simple && A == 0 then "fail accepted-zero-area-polygon" else
      if tris.size + 2 ≠ n then s!"fail triangle-count {tris.size}" else
      if tris.any (fun (a, b, c) => a ≥ n || b ≥ n || c ≥ n) then "fail index-out-of-range" else
      let T := tris.toList.map fun (a, b, c) => [poly.getD a ⟨0,0⟩, poly.getD b ⟨0,0⟩, poly.getD c ⟨0,0⟩]
      let areas := T.map shoelace2
      if areas.any (fun s => decide (s ≤ -sl)) then
        (if simple then "fail triangle-not-counter-clockwise" else "fail accepted-non-simple-polygon(non-ccw-triangle)") else
      if areas.foldl (· + ·) 0 ≠ A then
        (if simple then "fail area-not-conserved" else "fail accepted-non-simple-polygon(area)") else
      if !(allDisjoint sl T) then
        (if simple then "fail triangles-overlap" else "fail accepted-non-simple-polygon(overlap)") else
      if !simple then "fail accepted-non-simple-polygon" else "pass"
  | _ => "fail unparsable-output"

def oracleHM (poly : Array (V2 Rat)) (tris : Array (Nat × Nat × Nat)) (out : List String) : String :=
  let n := poly.size
  if tris.any (fun (a, b, c) => a ≥ n || b ≥ n || c ≥ n) then "skip bad-input-index" else
  -- the clause is about tilings of a SIMPLE polygon (every generated case passes the polygon as the vertex list): the
  -- triangles an accepted non-simple polygon yields (KNOWN FINDING "no simplicity check") can be exactly disjoint and
  -- counter-clockwise and still contain a zero-width fold-back, which the `!= Cw` corner tests let through
  if !(isSimple poly) then "skip vertex-cycle-not-a-simple-polygon" else
  let T := tris.toList.map fun (a, b, c) => [poly.getD a ⟨0,0⟩, poly.getD b ⟨0,0⟩, poly.getD c ⟨0,0⟩]
  let sl := slackOf poly
  if !(T.all (isConvexCcw 0)) then "skip input-triangle-not-ccw" else
  if !(allDisjoint 0 T) then "skip input-triangles-overlap" else
  let A := (T.map shoelace2).foldl (· + ·) 0
  match out with
  | "panic" :: _ => "fail panic"
  | _ =>
    match run (do let p ← ppolys; pend; pure p) out with
    | none => "fail unparsable-output"
    | some pieces =>
      if pieces.any (fun p => p.any (· ≥ n)) then "fail index-out-of-range" else
      if pieces.any (fun p => p.length < 3) then "fail piece-with-fewer-than-3-vertices" else
      let P := pieces.map fun p => p.map fun i => poly.getD i ⟨0,0⟩
      if (P.map shoelace2).foldl (· + ·) 0 ≠ A then "fail area-not-conserved" else
      if !(P.all (isConvexCcw sl)) then "fail piece-not-convex-ccw" else
      if !(allDisjoint sl P) then "fail pieces-overlap" else
      -- every directed edge of the input triangles that is not matched by its opposite must be an edge of some piece
      let dirEdges (ps : List (List Nat)) : List (Nat × Nat) := ps.flatMap fun p => edgesOf p
      let inE := dirEdges (tris.toList.map fun (a, b, c) => [a, b, c])
      let outE := dirEdges pieces
      let boundary := inE.filter fun e => !(inE.contains (e.2, e.1))
      if !(boundary.all outE.contains) then "fail boundary-edge-lost" else
      if !(outE.all inE.contains) then "fail piece-edge-not-from-input" else "pass"

/-! ## `hertel_mehlhorn` (points) and `Compound::decompose_trimesh` -/

def fpts (p : Array (V2 Float)) : String := p.foldl (fun s v => s ++ " " ++ fv2 v) s!"{p.size}"

/-- `cnone` | `shapes m (T a b c | P k points… normals…)*` -/
def fcompound : Option (List (Piece Float)) → String
  | none => "cnone"
  | some l => l.foldl (fun s p => match p with
      | .triangle a b c => s ++ s!" T {fv2 a} {fv2 b} {fv2 c}"
      | .polygon pts nrm => nrm.foldl (fun s v => s ++ " " ++ fv2 v) (s ++ " P " ++ fpts pts)) s!"shapes {l.length}"

def ppts : P (List (V2 Float)) := plist pv2

/-- parser of the `shapes …` output: `(points, normals)` per shape (`normals = []` for triangles) -/
def pshapes : P (List (List (V2 Float) × List (V2 Float))) := do
  let m ← pnat
  let rec go : Nat → P (List (List (V2 Float) × List (V2 Float)))
    | 0 => pure []
    | k + 1 => do
      let t ← tok
      let sh ← (if t = "T" then do
                  let a ← pv2; let b ← pv2; let c ← pv2; pure ([a, b, c], [])
                else if t = "P" then do
                  let pts ← ppts
                  let rec nr : Nat → P (List (V2 Float))
                    | 0 => pure []
                    | j + 1 => do let v ← pv2; let vs ← nr j; pure (v :: vs)
                  let ns ← nr pts.length
                  pure (pts, ns)
                else failure)
      let rest ← go k
      pure (sh :: rest)
  go m

def isVertexOf (poly : Array (V2 Rat)) (v : V2 Rat) : Bool := poly.any fun w => w.x == v.x && w.y == v.y

def sqDiam (poly : Array (V2 Rat)) : Rat :=
  let (a, b, c, d) := bbox poly.toList
  (b - a) * (b - a) + (d - c) * (d - c)

/-- On a lattice polygon (coordinates `k/4`) of squared diameter `< 300` no non-collinear corner can be pruned by
`from_convex_polyline` (pruning needs a turn below `1.73e-4` rad, but `sin(turn) ≥ (1/16)/L² > 2e-4`), exactly collinear
ones are: every piece keeps its area exactly and is never rejected. -/
def noPruningPossible (poly : Array (V2 Rat)) : Bool :=
  poly.all (fun v => (v.x * 4).den == 1 && (v.y * 4).den == 1) && decide (sqDiam poly < 300)

/-- common judgement of a list of convex pieces against the area `A` they must tile; `tol` = allowed area deficit -/
def judgePieces (poly : Array (V2 Rat)) (A : Rat) (tol : Unit → Rat) (sl : Rat) (P : List (List (V2 Rat))) : String :=
  if P.any (fun p => p.length < 3) then "fail piece-with-fewer-than-3-vertices" else
  if P.any (fun p => p.any fun v => !(isVertexOf poly v)) then "fail piece-vertex-not-an-input-vertex" else
  if !(P.all (isConvexCcw sl)) then "fail piece-not-convex-ccw" else
  if !(allDisjoint sl P) then "fail pieces-overlap" else
  let S := (P.map shoelace2).foldl (· + ·) 0
  if S > A + sl * P.length then "fail area-exceeds-input" else
  if A - S ≤ 0 then "pass" else   -- (the allowance is only evaluated when there is a deficit)
  if A - S > tol () then s!"fail area-not-conserved deficit2={A - S}" else "pass"

def oracleHMPts (poly : Array (V2 Rat)) (tris : Array (Nat × Nat × Nat)) (out : List String) : String :=
  let n := poly.size
  if tris.any (fun (a, b, c) => a ≥ n || b ≥ n || c ≥ n) then "skip bad-input-index" else
  if !(isSimple poly) then "skip vertex-cycle-not-a-simple-polygon" else
  let T := tris.toList.map fun (a, b, c) => [poly.getD a ⟨0,0⟩, poly.getD b ⟨0,0⟩, poly.getD c ⟨0,0⟩]
  if !(T.all (isConvexCcw 0)) then "skip input-triangle-not-ccw" else
  if !(allDisjoint 0 T) then "skip input-triangles-overlap" else
  let A := (T.map shoelace2).foldl (· + ·) 0
  match out with
  | "panic" :: _ => "fail panic"
  | _ =>
    match run (do let p ← plist ppts; pend; pure p) out with
    | none => "fail unparsable-output"
    | some pieces => judgePieces poly A (fun _ => 0) (slackOf poly) (pieces.map fun p => p.map q2)

/-- unit outward normals of a counter-clockwise polygon shape (the normal of a kept vertex is the one of its *original*
outgoing edge, which pruning leaves within `2e-4` rad of the kept edge) -/
def normalsOk (pts nrm : List (V2 Rat)) : Bool :=
  nrm.length == pts.length &&
  ((edgesOf pts).zip nrm).all fun (e, n) =>
    let d := e.2.sub e.1
    let nn := n.dot n
    decide (rabs (nn - 1) ≤ 1 / 1000000000) &&
    decide ((n.dot d) * (n.dot d) ≤ (d.dot d) / 1000000) &&
    decide (d.x * n.y - d.y * n.x < 0)

/-- the corner `a → v → c` is straight up to ~1e-3 rad (`from_convex_polyline` prunes below 1.73e-4 rad) -/
def nearlyStraight (a v c : V2 Rat) : Bool :=
  let e := v.sub a; let f := c.sub v
  let cr := e.x * f.y - e.y * f.x
  decide (e.dot f > 0) && decide (cr * cr * 1000000 ≤ (e.dot e) * (f.dot f))
/-- the interior angle at `v` is within ~1e-2 rad of 2π (a needle-shaped notch: all pieces meeting at `v` may have a
nearly straight corner there) -/
def nearlyFullReflex (a v c : V2 Rat) : Bool :=
  let e := v.sub a; let f := c.sub v
  let cr := e.x * f.y - e.y * f.x
  decide (e.dot f < 0) && decide (cr ≤ 0) && decide (cr * cr * 10000 ≤ (e.dot e) * (f.dot f))

/-- **vertex coverage**: in a tiling of a simple polygon by convex pieces whose vertices are polygon vertices, every polygon
vertex is a vertex of some piece.  `from_convex_polyline` may only prune nearly straight corners; a piece corner at a convex
polygon vertex turns at least as much as the polygon does, and at a reflex vertex at least two pieces meet, so only vertices
with a nearly straight corner (or an interior angle of nearly 2π) may be missing from every shape. -/
def uncoveredVertex (poly : Array (V2 Rat)) (P : List (List (V2 Rat))) : Option Nat :=
  let n := poly.size
  (List.range n).find? fun i =>
    let a := poly.getD ((i + n - 1) % n) ⟨0,0⟩; let v := poly.getD i ⟨0,0⟩; let c := poly.getD ((i + 1) % n) ⟨0,0⟩
    !(nearlyStraight a v c) && !(nearlyFullReflex a v c) && !(P.any fun p => p.any fun w => w.x == v.x && w.y == v.y)

/-- upper bound of the area (×2) that pruning nearly collinear vertices can remove from the pieces: a pruned chain between
two kept neighbours `u, w` of a shape is a convex cap on the outer side of `u → w`, of area2 at most twice the largest
`area2(u, v, w)` of its vertices, and the path `u → v → w` turns left by at most the chain's total turn (each pruned corner
turns < 1.73e-4 rad).  Summed over the input vertices `v` outside a shape edge with such a nearly straight (≤ 1e-2 rad) left
turn at `v`.  Zero when there is no such vertex: the areas must then add up exactly.  (A vertex at which `u → v → w` turns
sharply — e.g. the far side of a needle next to the edge — is not a pruned vertex, however close to the edge it is.) -/
def pruneAllowance (poly : Array (V2 Rat)) (P : List (List (V2 Rat))) : Rat :=
  P.foldl (fun acc p => (edgesOf p).foldl (fun acc e =>
    poly.foldl (fun acc v =>
      let a := v.sub e.1; let b := e.2.sub v
      let cr := a.x * b.y - a.y * b.x
      if cr > 0 && a.dot b > 0 && cr * cr * 10000 ≤ (a.dot a) * (b.dot b) then acc + 2 * cr else acc) acc) acc) 0

/-- two input vertices closer than 1e-15: an edge between them has no `ccw_face_normal` (threshold 2.2e-16) -/
def hasDegenerateEdge (poly : Array (V2 Rat)) : Bool :=
  let l := poly.toList
  !(pairwise l fun a b => decide ((b.sub a).dot (b.sub a) * 1000000000000000000000000000000 > 1))

/-- judgement of the compound's shapes against the polygon `poly` (area2 `A` = what the input triangles cover; the vertex
coverage clause applies when that is the whole polygon) -/
def oracleDecompose (poly : Array (V2 Rat)) (A : Rat) (out : List String) : String :=
  match out with
  | "panic" :: _ => "fail panic"
  | ["cnone"] =>
    -- the property demands a convex tiling of every simple counter-clockwise polygon; the only `None` that is not a wrong
    -- answer is the one forced by an edge too short to have a unit normal
    if hasDegenerateEdge poly then "skip compound-none(degenerate-edge)"
    else "fail compound-none-for-simple-ccw-polygon"
  | "shapes" :: rest =>
    match run (do let p ← pshapes; pend; pure p) rest with
    | none => "fail unparsable-output"
    | some shapes =>
      let P := shapes.map fun s => s.1.map q2
      if !(shapes.all fun s => s.2.isEmpty || normalsOk (s.1.map q2) (s.2.map q2)) then "fail bad-normals" else
      match judgePieces poly A (fun _ => pruneAllowance poly P) (slackOf poly) P with
      | "pass" =>
        if A ≠ shoelace2 poly.toList then "pass" else
        (match uncoveredVertex poly P with
         | some i => s!"fail polygon-vertex-in-no-piece {i}"
         | none => "pass")
      | r => r
  | _ => "fail unparsable-output"

/-- consecutive index triples of a flat index buffer as point triangles -/
def triplesOf (pq : Array (V2 Rat)) : List Nat → List (List (V2 Rat))
  | a :: b :: c :: r => [pq.getD a ⟨0,0⟩, pq.getD b ⟨0,0⟩, pq.getD c ⟨0,0⟩] :: triplesOf pq r
  | _ => []

def handler (fn : String) : Option Handler :=
  match fn with
  | "hertel_mehlhorn_pts" => some {
      model := fun a => run (do let poly ← plist pv2; let t ← ptris; pend
                                let r := hertelMehlhorn poly.toArray t
                                pure (r.foldl (fun s p => s ++ " " ++ fpts p) s!"{r.size}")) a
      oracle := fun a o => match run (do let poly ← plist pv2; let t ← ptris; pure (poly, t)) a with
        | some (poly, t) => oracleHMPts (poly.map q2).toArray t o
        | none => "skip bad-args" }
  | "decompose" => some {
      model := fun a => run (do let poly ← plist pv2; pend
                                pure (match triangulateEarClipping poly.toArray with
                                      | none => "none"
                                      | some t => fcompound (decomposeTrimesh poly.toArray t))) a
      oracle := fun a o => match run (plist pv2) a with
        | some poly =>
          let poly := (poly.map q2).toArray
          if o = ["none"] then "skip triangulation-none" else
          if !(isSimple poly) then "skip non-simple-input" else
          let A := shoelace2 poly.toList
          if A ≤ 0 then "skip not-counter-clockwise" else oracleDecompose poly A o
        | none => "skip bad-args" }
  | "decompose_tris" => some {
      model := fun a => run (do let poly ← plist pv2; let t ← ptris; pend
                                pure (if t.isEmpty then "none" else fcompound (decomposeTrimesh poly.toArray t))) a
      oracle := fun a o => match run (do let poly ← plist pv2; let t ← ptris; pure (poly, t)) a with
        | some (poly, tris) =>
          let poly := (poly.map q2).toArray
          let n := poly.size
          if o = ["none"] then "skip empty-index-buffer" else
          if tris.any (fun (a, b, c) => a ≥ n || b ≥ n || c ≥ n) then "skip bad-input-index" else
          if !(isSimple poly) then "skip vertex-cycle-not-a-simple-polygon" else
          let T := tris.toList.map fun (a, b, c) => [poly.getD a ⟨0,0⟩, poly.getD b ⟨0,0⟩, poly.getD c ⟨0,0⟩]
          if !(T.all (isConvexCcw 0)) then "skip input-triangle-not-ccw" else
          if !(allDisjoint 0 T) then "skip input-triangles-overlap" else
          oracleDecompose poly ((T.map shoelace2).foldl (· + ·) 0) o
        | none => "skip bad-args" }
  | "from_polygon_mesh" => some {
      model := fun a => run (do let poly ← plist pv2; pend
                                pure (match fromPolygonMesh poly.toArray with
                                      | .none => "none"
                                      | .panicEmptyIndices => "panic"
                                      | .mesh v f => f.foldl (fun s i => s ++ s!" {i}") ("mesh " ++ fpts v ++ s!" {f.size}"))) a
      -- independent of the model: the mesh keeps the input vertices bit for bit, the flat buffer has 3(n-2) entries, all
      -- `< n`, and every consecutive triple is a counter-clockwise triangle; the triples' areas add up to the polygon's
      oracle := fun a o => match run (plist pv2) a with
        | some poly =>
          match o with
          | "panic" :: _ => "fail panic"
          | ["none"] => "skip triangulation-none"
          | "mesh" :: rest =>
            (match run (do let v ← ppts; let f ← plist pnat; pend; pure (v, f)) rest with
             | none => "fail unparsable-output"
             | some (v, f) =>
               let n := poly.length
               if v.length ≠ n || !((v.zip poly).all fun (x, y) => x.x.toBits == y.x.toBits && x.y.toBits == y.y.toBits) then
                 "fail vertex-buffer-changed" else
               if f.length ≠ 3 * (n - 2) then s!"fail flat-index-count {f.length}" else
               if f.any (· ≥ n) then "fail index-out-of-range" else
               let pq := (poly.map q2).toArray
               let T := triplesOf pq f
               let sl := slackOf pq
               if (T.map shoelace2).any (fun s => decide (s ≤ -sl)) then
                 (if isSimple pq then "fail triangle-not-counter-clockwise" else "skip non-simple-input") else
               if (T.map shoelace2).foldl (· + ·) 0 ≠ shoelace2 pq.toList then "fail area-not-conserved" else "pass")
          | _ => "fail unparsable-output"
        | none => "skip bad-args" }
  | "triangulate" => some {
      model := fun a => run (do let poly ← plist pv2; pend
                                pure (match triangulateEarClipping poly.toArray with
                                      | none => "none"
                                      | some t => "some " ++ ftris t)) a
      oracle := fun a o => match run (plist pv2) a with
        | some poly => oracleTri (poly.map q2).toArray o
        | none => "skip bad-args" }
  | "hertel_mehlhorn" => some {
      model := fun a => run (do let poly ← plist pv2; let t ← ptris; pend
                                pure (fpolys (hertelMehlhornIdx poly.toArray t))) a
      oracle := fun a o => match run (do let poly ← plist pv2; let t ← ptris; pure (poly, t)) a with
        | some (poly, t) => oracleHM (poly.map q2).toArray t o
        | none => "skip bad-args" }
  | _ => none

end C16
