import ParryModel.Field
import Mathlib.Tactic.IntervalCases
import ParryModel.C15.Theorems
import ParryModel.C16.Model
import ParryModel.C16.Lemmas2
import ParryModel.C16.Ring
import ParryModel.C16.Geometry
import ParryModel.C16.Theorems2
import ParryModel.C16.Theorems7
/-!
# C16 property theorems, part 8: ear clipping SUCCEEDS on every strictly convex counter-clockwise polygon.

`StrictConvexRange f n`: `i < j < k < n → 0 < area2 (f i) (f j) (f k)` (strictly convex position of the input cycle).

`update_vertex_ear_of_convex`: in strictly convex position every corner `(prev, idx, next)` of three cyclically ordered
indices passes the code's own ear test (`update_vertex` succeeds and sets `is_ear`): the corner is strictly
counter-clockwise and **every** other input vertex — clipped ones included — is reported outside.

`ear_clipping_succeeds_convex`: hence no iteration ever fails to find an ear (each removes exactly one vertex), the final
triangle is counter-clockwise, and the result is `Some`.  Together with `ear_clipping_sound`,
`ear_clipping_disjoint_convex` this is the complete C16 ear-clipping clause for strictly convex input: a `Some` result
with `n - 2` counter-clockwise, area-conserving, pairwise interior-disjoint triangles.
-/
namespace C16
open Model Model.C15 Model.C16 C15

/-! ## cyclic order of indices -/

/-- `u, e, w` are in cyclic increasing order -/
def CycOrd3 (u e w : Nat) : Prop := (u < e ∧ e < w) ∨ (e < w ∧ w < u) ∨ (w < u ∧ u < e)

/-- the ring is a rotation of an increasing list (a cyclic sub-sequence of `0 … n-1`) -/
def CycSorted (cyc : List Nat) : Prop := ∃ l : List Nat, l.Pairwise (· < ·) ∧ l ~r cyc

theorem CycSorted.isRotated {cyc cyc' : List Nat} (h : CycSorted cyc) (hr : cyc ~r cyc') : CycSorted cyc' := by
  obtain ⟨l, hl, hlr⟩ := h
  exact ⟨l, hl, hlr.trans hr⟩

/-- removing the head of the ring keeps it cyclically sorted -/
theorem CycSorted.tail {e : Nat} {rest : List Nat} (h : CycSorted (e :: rest)) : CycSorted rest := by
  obtain ⟨l, hl, m, hm⟩ := h
  rw [List.rotate_eq_drop_append_take_mod] at hm
  set D := l.drop (m % l.length) with hD
  set T := l.take (m % l.length) with hT
  have hl' : l = T ++ D := (List.take_append_drop _ _).symm
  rw [hl'] at hl
  cases hDc : D with
  | nil =>
    rw [hDc, List.nil_append] at hm
    rw [hDc, List.append_nil, hm] at hl
    exact ⟨rest, (List.pairwise_cons.mp hl).2, List.IsRotated.refl _⟩
  | cons d D' =>
    rw [hDc, List.cons_append, List.cons.injEq] at hm
    obtain ⟨rfl, hm⟩ := hm
    refine ⟨T ++ D', ?_, ?_⟩
    · rw [hDc] at hl
      exact hl.sublist (List.Sublist.append (List.Sublist.refl T) (List.sublist_cons_self d D'))
    · rw [← hm]; exact List.isRotated_append

/-- three consecutive ring elements are cyclically ordered -/
theorem CycSorted.ord3 {u j w : Nat} {mid : List Nat} (h : CycSorted (j :: w :: (mid ++ [u]))) : CycOrd3 u j w := by
  have h' : CycSorted (u :: j :: w :: mid) := by
    refine h.isRotated ⟨(j :: w :: mid).length, ?_⟩
    have := List.rotate_append_length_eq (j :: w :: mid) [u]
    simpa using this
  obtain ⟨l, hl, m, hm⟩ := h'
  rw [List.rotate_eq_drop_append_take_mod] at hm
  set D := l.drop (m % l.length) with hD
  set T := l.take (m % l.length) with hT
  have hl' : l = T ++ D := (List.take_append_drop _ _).symm
  rw [hl'] at hl
  unfold CycOrd3
  match hDc : D, hm with
  | [], hm2 =>
    rw [List.nil_append] at hm2
    rw [List.append_nil, hm2] at hl
    exact Or.inl ⟨List.rel_of_pairwise_cons hl (by simp),
      List.rel_of_pairwise_cons (List.pairwise_cons.mp hl).2 (by simp)⟩
  | [a], hm2 =>
    simp only [List.cons_append, List.nil_append, List.cons.injEq] at hm2
    obtain ⟨rfl, hm3⟩ := hm2
    rw [hm3] at hl
    have hp := List.pairwise_append.mp hl
    exact Or.inr (Or.inl ⟨List.rel_of_pairwise_cons hp.1 (by simp), hp.2.2 w (by simp) _ (by simp)⟩)
  | [a, b], hm2 =>
    simp only [List.cons_append, List.nil_append, List.cons.injEq] at hm2
    obtain ⟨rfl, rfl, hm3⟩ := hm2
    rw [hm3] at hl
    have hp := List.pairwise_append.mp hl
    exact Or.inr (Or.inr ⟨hp.2.2 w (by simp) _ (by simp), List.rel_of_pairwise_cons hp.2.1 (by simp)⟩)
  | a :: b :: c :: D', hm2 =>
    simp only [List.cons_append, List.cons.injEq] at hm2
    obtain ⟨rfl, rfl, rfl, hm3⟩ := hm2
    have hp := (List.pairwise_append.mp hl).2.1
    exact Or.inl ⟨List.rel_of_pairwise_cons hp (by simp),
      List.rel_of_pairwise_cons (List.pairwise_cons.mp hp).2 (by simp)⟩

/-- under the link invariant the stored neighbours of every ring vertex are cyclically ordered around it -/
theorem inv_ord3 {K : Type} [Num K] {n : Nat} {info : Array (VInfo K)} {cyc : List Nat} (hI : Inv n info cyc)
    (hs : CycSorted cyc) (hlen : 3 ≤ cyc.length) (j : Nat) (hj : j ∈ cyc) :
    CycOrd3 (info.getD j default).prev j (info.getD j default).next ∧
    (info.getD j default).prev ∈ cyc ∧ (info.getD j default).next ∈ cyc := by
  obtain ⟨k, rest, hrot⟩ := exists_rotate_head hj
  have hrl : 2 ≤ rest.length := by
    have := congrArg List.length hrot
    simp only [List.length_rotate, List.length_cons] at this
    omega
  obtain ⟨w, mid, u, rfl⟩ := exists_ends hrl
  have hIR := hI.rotate k
  rw [hrot] at hIR
  have hne : (w :: (mid ++ [u])) ≠ [] := by simp
  have hpe := polyEdges_cons j (w :: (mid ++ [u])) hne
  have hlast : (w :: (mid ++ [u])).getLast hne = u := by simp
  rw [hlast] at hpe
  have hl1 := hIR.link (j, w) (by rw [hpe]; simp)
  have hl2 := hIR.link (u, j) (by rw [hpe]; simp)
  simp only at hl1 hl2
  rw [hl1.1, hl2.2]
  exact ⟨(hs.isRotated ⟨k, hrot⟩).ord3, List.mem_rotate.mp (by rw [hrot]; simp), List.mem_rotate.mp (by rw [hrot]; simp)⟩

/-! ## generic (lawless `Num`) facts about the loop -/
section generic
variable {K : Type} [Num K]

theorem noPointInside_all (pts : Array (V2 K)) (prev idx next : Nat) (p1 p p3 : V2 K)
    (h : ∀ j, j < pts.size → j ≠ prev → j ≠ idx → j ≠ next → isPointInTriangle (pt pts j) p1 p p3 = .some false) :
    ∀ k, k ≤ pts.size → noPointInside pts prev idx next p1 p p3 k = (true, false) := by
  intro k
  induction k with
  | zero => intro _; rfl
  | succ k ih =>
    intro hk
    unfold noPointInside
    simp only
    by_cases hc : pts.size - (k + 1) = prev ∨ pts.size - (k + 1) = idx ∨ pts.size - (k + 1) = next
    · rw [if_pos hc]; exact ih (by omega)
    · rw [if_neg hc]
      have hc' : pts.size - (k + 1) ≠ prev ∧ pts.size - (k + 1) ≠ idx ∧ pts.size - (k + 1) ≠ next :=
        ⟨fun hh => hc (Or.inl hh), fun hh => hc (Or.inr (Or.inl hh)), fun hh => hc (Or.inr (Or.inr hh))⟩
      rw [h _ (by omega) hc'.1 hc'.2.1 hc'.2.2]
      exact ih (by omega)

/-- `max_by` over the active ears finds one as soon as one exists -/
theorem pickEar_isSome (info : Array (VInfo K)) (i : Nat) (hi : i < info.size)
    (ha : (info.getD i default).active = true) (he : (info.getD i default).ear = true) :
    ∃ e, pickEar info = some e := by
  unfold pickEar
  have gen : ∀ (l : List Nat) (best : Option Nat), (best.isSome = true ∨ i ∈ l) →
      ∃ e, l.foldl (fun best i =>
        let vi := info.getD i default
        if vi.active && vi.ear then
          match best with
          | none => some i
          | some b => if vi.pointiness < (info.getD b default).pointiness then some b else some i
        else best) best = some e := by
    intro l
    induction l with
    | nil =>
      intro best hb
      rcases hb with hb | hb
      · exact Option.isSome_iff_exists.mp hb
      · simp at hb
    | cons a t ih =>
      intro best hb
      rw [List.foldl_cons]
      apply ih
      by_cases hai : a = i
      · subst hai
        left
        simp only [ha, he, Bool.and_self, if_true]
        cases best with
        | none => rfl
        | some b =>
          simp only []
          by_cases hc : (info.getD a default).pointiness < (info.getD b default).pointiness <;>
            simp only [hc, if_true, if_false, Option.isSome_some]
      · rcases hb with hb | hb
        · left
          obtain ⟨b, rfl⟩ := Option.isSome_iff_exists.mp hb
          simp only []
          split
          · by_cases hc : (info.getD a default).pointiness < (info.getD b default).pointiness <;>
              simp only [hc, if_true, if_false, Option.isSome_some]
          · rfl
        · right
          rcases List.mem_cons.mp hb with hb | hb
          · exact absurd hb.symm hai
          · exact hb
  exact gen _ none (Or.inr (List.mem_range.mpr hi))

/-- the entries written by the initialisation loop -/
theorem initInfos_get (pts : Array (V2 K)) (k : Nat) (acc info : Array (VInfo K))
    (hacc : acc.size + k = pts.size)
    (hprev : ∀ j, j < acc.size → acc.getD j default = (updateVertex pts j (initVInfo pts.size j)).1)
    (h : initInfos pts k acc = some info) :
    ∀ j, j < pts.size → info.getD j default = (updateVertex pts j (initVInfo pts.size j)).1 := by
  induction k generalizing acc with
  | zero =>
    simp only [initInfos, Option.some.injEq] at h
    subst h
    exact fun j hj => hprev j (by omega)
  | succ k ih =>
    have hi : pts.size - (k + 1) = acc.size := by omega
    unfold initInfos at h
    simp only [hi] at h
    by_cases hok : (updateVertex pts acc.size (initVInfo pts.size acc.size)).2 = true
    · rw [if_pos hok] at h
      refine ih _ (by simp; omega) ?_ h
      intro j hj
      by_cases hjl : j < acc.size
      · have : (acc.push (updateVertex pts acc.size (initVInfo pts.size acc.size)).1).getD j default
            = acc.getD j default := by
          simp [Array.getD_eq_getD_getElem?, Array.getElem?_push, Nat.ne_of_lt hjl]
        rw [this]; exact hprev j hjl
      · have hje : j = acc.size := by simp at hj; omega
        subst hje
        simp [Array.getD_eq_getD_getElem?]
    · rw [if_neg hok] at h; cases h

theorem initInfos_isSome (pts : Array (V2 K))
    (hupd : ∀ j, j < pts.size → (updateVertex pts j (initVInfo pts.size j)).2 = true) :
    ∀ (k : Nat) (acc : Array (VInfo K)), acc.size + k = pts.size → ∃ info, initInfos pts k acc = some info := by
  intro k
  induction k with
  | zero => intro acc _; exact ⟨acc, rfl⟩
  | succ k ih =>
    intro acc hacc
    have hi : pts.size - (k + 1) = acc.size := by omega
    unfold initInfos
    simp only [hi]
    rw [if_pos (hupd acc.size (by omega))]
    exact ih _ (by simp; omega)

/-- `update_vertex` succeeds and flags an ear on every cyclically ordered corner -/
def UpdAll (pts : Array (V2 K)) : Prop :=
  ∀ idx (vi : VInfo K), CycOrd3 vi.prev idx vi.next → vi.prev < pts.size → idx < pts.size → vi.next < pts.size →
    (updateVertex pts idx vi).2 = true ∧ (updateVertex pts idx vi).1.ear = true

/-- progress: when every cyclically ordered corner passes the ear test, every iteration finds an ear and removes exactly
one vertex; the loop ends with a ring of three -/
theorem clipLoop_some (pts : Array (V2 K)) (hU : UpdAll pts) :
    ∀ (fuel i : Nat) (info : Array (VInfo K)) (out : Array (Nat × Nat × Nat)) (cyc : List Nat),
      Inv pts.size info cyc → CycSorted cyc → (∀ j ∈ cyc, (info.getD j default).ear = true) →
      cyc.length = fuel + 3 → i + fuel + 3 = pts.size →
      ∃ info' out' cyc', clipLoop pts i fuel info out = some (info', out') ∧
        Inv pts.size info' cyc' ∧ cyc'.length = 3 ∧ CycSorted cyc' := by
  intro fuel
  induction fuel with
  | zero =>
    intro i info out cyc hInv hS _ hlen _
    exact ⟨info, out, cyc, rfl, hInv, by simpa using hlen, hS⟩
  | succ fuel ih =>
    intro i info out cyc hInv hS hE hlen hi
    obtain ⟨x, xs, hx⟩ := List.exists_cons_of_ne_nil (l := cyc) (by intro hh; rw [hh] at hlen; simp at hlen)
    have hxm : x ∈ cyc := by rw [hx]; simp
    have hxl := hInv.lt x hxm
    obtain ⟨e, hp⟩ := pickEar_isSome info x (by rw [hInv.size]; exact hxl) ((hInv.act x hxl).mpr hxm) (hE x hxm)
    obtain ⟨he_lt, he_act, _⟩ := pickEar_spec info e hp
    have he_n : e < pts.size := by rw [← hInv.size]; exact he_lt
    have he_mem : e ∈ cyc := (hInv.act e he_n).mp he_act
    obtain ⟨k, rest, hrot⟩ := exists_rotate_head he_mem
    have hrl : rest.length = fuel + 3 := by
      have := congrArg List.length hrot
      simp only [List.length_rotate, List.length_cons] at this
      omega
    obtain ⟨w, mid, u, rfl⟩ := exists_ends (l := rest) (by omega)
    have hInvR := hInv.rotate k
    rw [hrot] at hInvR
    obtain ⟨hprev, hnext, heu, hew, huw, hInv1, hunch⟩ := unlink_inv hInvR
    have hS1 : CycSorted (w :: (mid ++ [u])) := (hS.isRotated ⟨k, hrot⟩).tail
    have hmem_rest : ∀ j, j ∈ w :: (mid ++ [u]) → j ∈ cyc := fun j hj =>
      List.mem_rotate.mp (by rw [hrot]; exact List.mem_cons_of_mem _ hj)
    have he_notin : e ∉ w :: (mid ++ [u]) := (List.nodup_cons.mp hInvR.nodup).1
    unfold clipLoop
    simp only [hp, hprev, hnext]
    by_cases hi4 : i = pts.size - 4
    · rw [if_pos hi4]
      exact ⟨_, _, w :: (mid ++ [u]), rfl, hInv1, by rw [hrl]; omega, hS1⟩
    · rw [if_neg hi4]
      have hu_mem : u ∈ w :: (mid ++ [u]) := by simp
      have hw_mem : w ∈ w :: (mid ++ [u]) := by simp
      have hlen1 : 3 ≤ (w :: (mid ++ [u])).length := by rw [hrl]; omega
      obtain ⟨ho1, hp1, hn1⟩ := inv_ord3 hInv1 hS1 hlen1 u hu_mem
      obtain ⟨hok1, hear1⟩ := hU u ((unlink info e).getD u default) ho1 (hInv1.lt _ hp1) (hInv1.lt _ hu_mem)
        (hInv1.lt _ hn1)
      have hf1 := updateVertex_fields pts u ((unlink info e).getD u default)
      have hInv2 := hInv1.set u _ hf1.1 hf1.2.1 hf1.2.2.1
      obtain ⟨ho2, hp2, hn2⟩ := inv_ord3 hInv2 hS1 hlen1 w hw_mem
      obtain ⟨hok2, hear2⟩ := hU w _ ho2 (hInv2.lt _ hp2) (hInv2.lt _ hw_mem) (hInv2.lt _ hn2)
      have hf2 := updateVertex_fields pts w
        (((unlink info e).setIfInBounds u (updateVertex pts u ((unlink info e).getD u default)).1).getD w default)
      have hInv3 := hInv2.set w _ hf2.1 hf2.2.1 hf2.2.2.1
      have hu_lt : u < (unlink info e).size := by rw [hInv1.size]; exact hInv1.lt u hu_mem
      have hw_lt : w < ((unlink info e).setIfInBounds u
          (updateVertex pts u ((unlink info e).getD u default)).1).size := by
        rw [hInv2.size]; exact hInv2.lt w hw_mem
      simp only [hok1, hok2, Bool.not_true, Bool.false_eq_true, if_false]
      refine ih (i + 1) _ _ (w :: (mid ++ [u])) hInv3 hS1 ?_ hrl (by omega)
      intro j hj
      by_cases hjw : j = w
      · subst hjw; rw [getD_set_self _ _ _ _ hw_lt]; exact hear2
      · rw [getD_set_ne _ _ _ _ _ (Ne.symm hjw)]
        by_cases hju : j = u
        · subst hju; rw [getD_set_self _ _ _ _ hu_lt]; exact hear1
        · have hje : j ≠ e := fun hh => he_notin (hh ▸ hj)
          rw [getD_set_ne _ _ _ _ _ (Ne.symm hju), hunch j hje hju hjw]
          exact hE j (hmem_rest j hj)

/-- **success** (generic): if `update_vertex` accepts every cyclically ordered corner and every such corner is
counter-clockwise, `triangulate_ear_clipping` returns `Some` -/
theorem triangulate_some (pts : Array (V2 K)) (h3 : 3 ≤ pts.size) (hU : UpdAll pts)
    (hF : ∀ u e w, CycOrd3 u e w → u < pts.size → e < pts.size → w < pts.size →
      cornerDirection (pt pts u) (pt pts e) (pt pts w) = .ccw) :
    ∃ out, triangulateEarClipping pts = some out := by
  have hinit : ∀ j, j < pts.size → (updateVertex pts j (initVInfo pts.size j)).2 = true ∧
      (updateVertex pts j (initVInfo pts.size j)).1.ear = true := by
    intro j hj
    apply hU
    · simp only [initVInfo]; unfold CycOrd3; split_ifs <;> omega
    · simp only [initVInfo]; split_ifs <;> omega
    · exact hj
    · simp only [initVInfo]; split_ifs <;> omega
  obtain ⟨info, hinfo⟩ := initInfos_isSome pts (fun j hj => (hinit j hj).1) pts.size #[] (by simp)
  obtain ⟨hsize, hentries⟩ := initInfos_spec pts pts.size #[] info (by simp) (by intro j hj; simp at hj) hinfo
  have hget := initInfos_get pts pts.size #[] info (by simp) (by intro j hj; simp at hj) hinfo
  obtain ⟨hInv, _⟩ := inv_of_init pts info (by omega) hsize hentries
  have hS : CycSorted (List.range pts.size) := ⟨_, List.pairwise_lt_range, List.IsRotated.refl _⟩
  obtain ⟨info', out', cyc', hloop, hI, hl3, hS'⟩ := clipLoop_some pts hU (pts.size - 3) 0 info #[] (List.range pts.size)
    hInv hS (fun j hj => by rw [hget j (List.mem_range.mp hj)]; exact (hinit j (List.mem_range.mp hj)).2)
    (by simp; omega) (by omega)
  unfold triangulateEarClipping
  simp only [not_lt.mpr h3, if_false, hinfo, hloop]
  cases hfa : firstActive info' with
  | none => exact ⟨_, rfl⟩
  | some i =>
    simp only []
    obtain ⟨hi_lt, hi_act⟩ := firstActive_spec info' i hfa
    have hi_n : i < pts.size := by rw [← hI.size]; exact hi_lt
    have hi_mem : i ∈ cyc' := (hI.act i hi_n).mp hi_act
    obtain ⟨ho, hp, hn⟩ := inv_ord3 hI hS' (by omega) i hi_mem
    rw [if_pos (hF _ _ _ ho (hI.lt _ hp) hi_n (hI.lt _ hn))]
    exact ⟨_, rfl⟩

/-- the initialisation loop returns `Some` only if `update_vertex` succeeded on every vertex -/
theorem initInfos_all_ok (pts : Array (V2 K)) (k : Nat) (acc info : Array (VInfo K))
    (hacc : acc.size + k = pts.size) (h : initInfos pts k acc = some info) :
    ∀ j, acc.size ≤ j → j < pts.size → (updateVertex pts j (initVInfo pts.size j)).2 = true := by
  induction k generalizing acc with
  | zero => intro j h1 h2; omega
  | succ k ih =>
    have hi : pts.size - (k + 1) = acc.size := by omega
    unfold initInfos at h
    simp only [hi] at h
    by_cases hok : (updateVertex pts acc.size (initVInfo pts.size acc.size)).2 = true
    · rw [if_pos hok] at h
      intro j h1 h2
      by_cases hj : j = acc.size
      · subst hj; exact hok
      · exact ih _ (by simp; omega) h j (by simp; omega) h2
    · rw [if_neg hok] at h; cases h

/-- **the NaN guard — every scalar type, `f64` included** (no arithmetic law is used).  If the pointiness
`normalize(prev - p) · normalize(next - p)` of some input corner is NaN — which is what IEEE arithmetic produces for a
repeated consecutive vertex (`0/0`) — `update_vertex` reports failure and `triangulate_ear_clipping` returns `None`.
Repeated consecutive vertices are therefore outside the domain of the exact-arithmetic theorems (where `x/0 = 0`) but
inside this one, and the correspondence runs them (`spoil` family 0). -/
theorem triangulate_none_of_nan (pts : Array (V2 K)) (j : Nat) (hj : j < pts.size)
    (hnan : isNaN ((normalize ((pt pts (initVInfo (K := K) pts.size j).prev).sub (pt pts j))).dot
      (normalize ((pt pts (initVInfo (K := K) pts.size j).next).sub (pt pts j)))) = true) :
    triangulateEarClipping pts = none := by
  have hbad : (updateVertex pts j (initVInfo pts.size j)).2 = false := by
    unfold updateVertex
    simp only [hnan, if_true]
  unfold triangulateEarClipping
  simp only
  split_ifs with hn
  · rfl
  · cases hinit : initInfos pts pts.size #[] with
    | none => rfl
    | some info =>
      have := initInfos_all_ok pts pts.size #[] info (by simp) hinit j (by simp) hj
      rw [hbad] at this
      cases this

end generic

/-! ## strictly convex position -/

variable {K : Type} [Field K] [LinearOrder K] [IsStrictOrderedRing K]

/-- strictly convex counter-clockwise position of the input cycle `0 … n-1` -/
def StrictConvexRange (f : Nat → V2 K) (n : Nat) : Prop :=
  ∀ i j k, i < j → j < k → k < n → 0 < area2 (f i) (f j) (f k)

private theorem outside_sorted (f : Nat → V2 K) (n : Nat) (h : StrictConvexRange f n) (a b c x : Nat)
    (hab : a < b) (hbc : b < c) (hc : c < n) (hx : x < n) (xa : x ≠ a) (xb : x ≠ b) (xc : x ≠ c) :
    area2 (f a) (f b) (f x) < 0 ∨ area2 (f b) (f c) (f x) < 0 ∨ area2 (f c) (f a) (f x) < 0 := by
  rcases lt_or_gt_of_ne xa with h1 | h1
  · have := h x a c h1 (hab.trans hbc) hc
    right; right
    have e : area2 (f c) (f a) (f x) = - area2 (f x) (f a) (f c) := by simp only [area2]; ring
    linarith
  · rcases lt_or_gt_of_ne xb with h2 | h2
    · have := h a x b h1 h2 (hbc.trans hc)
      left
      have e : area2 (f a) (f b) (f x) = - area2 (f a) (f x) (f b) := by simp only [area2]; ring
      linarith
    · rcases lt_or_gt_of_ne xc with h3 | h3
      · have := h b x c h2 h3 hc
        right; left
        have e : area2 (f b) (f c) (f x) = - area2 (f b) (f x) (f c) := by simp only [area2]; ring
        linarith
      · have := h a c x (hab.trans hbc) h3 hx
        right; right
        have e : area2 (f c) (f a) (f x) = - area2 (f a) (f c) (f x) := by simp only [area2]; ring
        linarith

/-- in strictly convex position a cyclically ordered corner is strictly counter-clockwise and every other vertex is
strictly outside its closed triangle -/
theorem convex_corner (f : Nat → V2 K) (n : Nat) (h : StrictConvexRange f n) (u e w : Nat) (ho : CycOrd3 u e w)
    (hu : u < n) (he : e < n) (hw : w < n) :
    0 < area2 (f u) (f e) (f w) ∧
    ∀ x, x < n → x ≠ u → x ≠ e → x ≠ w → OutsideTri (f u) (f e) (f w) (f x) := by
  unfold OutsideTri
  rcases ho with ⟨h1, h2⟩ | ⟨h1, h2⟩ | ⟨h1, h2⟩
  · exact ⟨h u e w h1 h2 hw, fun x hx a b c => outside_sorted f n h u e w x h1 h2 hw hx a b c⟩
  · refine ⟨by rw [← area2_cyc]; exact h e w u h1 h2 hu, fun x hx a b c => ?_⟩
    have := outside_sorted f n h e w u x h1 h2 hu hx b c a
    tauto
  · refine ⟨by rw [← area2_cyc, ← area2_cyc]; exact h w u e h1 h2 he, fun x hx a b c => ?_⟩
    have := outside_sorted f n h w u e x h1 h2 he hx c a b
    tauto

variable (sq : K → K)

/-- **the code's own ear test succeeds on every corner of a strictly convex polygon**: `update_vertex` returns `true`
and sets `is_ear`, for any cyclically ordered `(prev, idx, next)` — whichever vertices have been clipped before. -/
theorem update_vertex_ear_of_convex (pts : Array (V2 K)) (idx : Nat) (vi : VInfo K) :
    letI := fieldNum K sq
    StrictConvexRange (pt pts) pts.size → CycOrd3 vi.prev idx vi.next →
    vi.prev < pts.size → idx < pts.size → vi.next < pts.size →
    (updateVertex pts idx vi).2 = true ∧ (updateVertex pts idx vi).1.ear = true := by
  intro hc ho h1 h2 h3
  obtain ⟨hpos, hout⟩ := convex_corner (@pt K (fieldNum K sq) pts) pts.size hc _ _ _ ho h1 h2 h3
  have hccw := ((corner_direction_spec sq _ _ _).1).mpr hpos
  have hall := @noPointInside_all K (fieldNum K sq) pts vi.prev idx vi.next _ _ _
    (fun j hj a b c => (inTri_false_iff sq _ _ _ _ hpos).mpr (hout j hj a b c)) pts.size (Nat.le_refl _)
  unfold updateVertex
  simp only [isNaN, neq, le_refl, decide_true, Bool.and_self, Bool.not_true, Bool.false_eq_true, if_false, hccw,
    if_true, hall, Bool.not_false, and_self]

/-- **C16 (a)(iii): ear clipping succeeds on every strictly convex counter-clockwise polygon** (`n ≥ 3`): every
iteration finds an ear by the code's own test and removes exactly one vertex, the last corner is counter-clockwise, and
`triangulate_ear_clipping` returns `Some`. -/
theorem ear_clipping_succeeds_convex (pts : Array (V2 K)) :
    letI := fieldNum K sq
    3 ≤ pts.size → StrictConvexRange (pt pts) pts.size → ∃ out, triangulateEarClipping pts = some out := by
  intro h3 hc
  apply @triangulate_some K (fieldNum K sq) pts h3
  · intro idx vi ho a b c
    exact update_vertex_ear_of_convex sq pts idx vi hc ho a b c
  · intro u e w ho a b c
    exact ((corner_direction_spec sq _ _ _).1).mpr (convex_corner _ _ hc u e w ho a b c).1

/-- **the complete ear-clipping clause on strictly convex input**: a `Some` result whose triangles have pairwise disjoint
interiors (count, orientation and area conservation hold for every `Some` result, `ear_clipping_sound`). -/
theorem ear_clipping_convex_complete (pts : Array (V2 K)) :
    letI := fieldNum K sq
    3 ≤ pts.size → StrictConvexRange (pt pts) pts.size →
    ∃ out, triangulateEarClipping pts = some out ∧ out.size + 2 = pts.size ∧
      ∀ i j (_ : i < j) (hj : j < out.size) (p : V2 K),
        ¬ (InsideTri (pt pts out[i].1) (pt pts out[i].2.1) (pt pts out[i].2.2) p ∧
           InsideTri (pt pts out[j].1) (pt pts out[j].2.1) (pt pts out[j].2.2) p) := by
  intro h3 hc
  obtain ⟨out, hout⟩ := ear_clipping_succeeds_convex sq pts h3 hc
  refine ⟨out, hout, ?_, ?_⟩
  · have := (@triangulate_clipseq K (fieldNum K sq) pts out hout).2.1.length
    simpa using this
  · exact ear_clipping_disjoint_convex sq pts out hout
      ((convexPos_range _ _).mpr fun i j k a b c => (hc i j k a b c).le)

/-- non-vacuity: the unit square is in strictly convex position -/
example : StrictConvexRange (K := ℚ) (@pt ℚ (fieldNum ℚ id) #[⟨0,0⟩, ⟨1,0⟩, ⟨1,1⟩, ⟨0,1⟩]) 4 := by
  intro i j k hij hjk hk
  interval_cases k <;> interval_cases j <;> interval_cases i <;> simp [pt, area2] <;> omega

end C16
