import ParryModel.C16.Model
import ParryModel.C15.Cyclic
/-! C16 structural lemmas about the ear-clipping state machine — generic over the lawless `Num` (no field laws used). -/
namespace C16
open Model Model.C15 Model.C16 C15

section arr
variable {α : Type}
theorem getD_set_self (a : Array α) (i : Nat) (v d : α) (h : i < a.size) : (a.setIfInBounds i v).getD i d = v := by
  simp [Array.getD_eq_getD_getElem?, Array.getElem?_setIfInBounds, h]
theorem getD_set_ne (a : Array α) (i j : Nat) (v d : α) (h : i ≠ j) : (a.setIfInBounds i v).getD j d = a.getD j d := by
  simp [Array.getD_eq_getD_getElem?, Array.getElem?_setIfInBounds, h]
end arr

variable {K : Type} [Num K]

/-- the active vertices form one cycle `cyc` of the doubly linked list -/
structure Inv (n : Nat) (info : Array (VInfo K)) (cyc : List Nat) : Prop where
  size : info.size = n
  nodup : cyc.Nodup
  lt : ∀ i ∈ cyc, i < n
  act : ∀ i, i < n → ((info.getD i default).active = true ↔ i ∈ cyc)
  link : ∀ p ∈ polyEdges cyc, (info.getD p.1 default).next = p.2 ∧ (info.getD p.2 default).prev = p.1

theorem Inv.rotate {n : Nat} {info : Array (VInfo K)} {cyc : List Nat} (h : Inv n info cyc) (k : Nat) :
    Inv n info (cyc.rotate k) where
  size := h.size
  nodup := List.nodup_rotate.mpr h.nodup
  lt := fun i hi => h.lt i (List.mem_rotate.mp hi)
  act := fun i hi => by rw [List.mem_rotate]; exact h.act i hi
  link := fun p hp => by
    rw [polyEdges_rotate, List.mem_rotate] at hp
    exact h.link p hp

/-- every flagged ear is a strictly counter-clockwise corner with respect to the *current* links -/
def EarOK (pts : Array (V2 K)) (info : Array (VInfo K)) (cyc : List Nat) : Prop :=
  ∀ i ∈ cyc, (info.getD i default).ear = true →
    cornerDirection (pt pts (info.getD i default).prev) (pt pts i) (pt pts (info.getD i default).next) = .ccw

theorem updateVertex_fields (pts : Array (V2 K)) (idx : Nat) (vi : VInfo K) :
    (updateVertex pts idx vi).1.active = vi.active ∧ (updateVertex pts idx vi).1.prev = vi.prev ∧
    (updateVertex pts idx vi).1.next = vi.next ∧
    ((updateVertex pts idx vi).1.ear = true → (updateVertex pts idx vi).2 = true →
      cornerDirection (pt pts vi.prev) (pt pts idx) (pt pts vi.next) = .ccw) := by
  unfold updateVertex
  simp only
  split_ifs with h1 h2
  · simp
  · simp [h2]
  · simp

theorem size_unlink (info : Array (VInfo K)) (e : Nat) : (unlink info e).size = info.size := by
  simp [unlink]

/-- entry-wise description of `unlink` when the ear and its two neighbours are three distinct in-range indices -/
theorem unlink_getD (info : Array (VInfo K)) (e u w : Nat) (hu : (info.getD e default).prev = u)
    (hw : (info.getD e default).next = w) (he : e < info.size) (hu' : u < info.size) (hw' : w < info.size)
    (heu : e ≠ u) (hew : e ≠ w) (huw : u ≠ w) (j : Nat) :
    (unlink info e).getD j default =
      if j = w then { info.getD w default with prev := u }
      else if j = u then { info.getD u default with next := w }
      else if j = e then { info.getD e default with active := false }
      else info.getD j default := by
  unfold unlink
  simp only [hu, hw]
  by_cases h1 : j = w
  · subst h1
    rw [if_pos rfl, getD_set_self _ _ _ _ (by simp [hw'])]
    rw [getD_set_ne _ _ _ _ _ huw, getD_set_ne _ _ _ _ _ hew]
  · rw [if_neg h1, getD_set_ne _ _ _ _ _ (Ne.symm h1)]
    by_cases h2 : j = u
    · subst h2
      rw [if_pos rfl, getD_set_self _ _ _ _ (by simp [hu']), getD_set_ne _ _ _ _ _ heu]
    · rw [if_neg h2, getD_set_ne _ _ _ _ _ (Ne.symm h2)]
      by_cases h3 : j = e
      · subst h3
        rw [if_pos rfl, getD_set_self _ _ _ _ he]
      · rw [if_neg h3, getD_set_ne _ _ _ _ _ (Ne.symm h3)]

theorem polyEdges_cons (e : Nat) (rest : List Nat) (h : rest ≠ []) :
    polyEdges (e :: rest) = (e, rest.head h) :: (pathEdges rest ++ [(rest.getLast h, e)]) := by
  have := zip_tail_append rest h e
  cases rest with
  | nil => exact absurd rfl h
  | cons r rs =>
    simp only [polyEdges, List.tail_cons] at this ⊢
    rw [List.cons_append, List.zip_cons_cons, this]; simp

theorem mem_pathEdges {l : List Nat} {p : Nat × Nat} (h : p ∈ pathEdges l) : p.1 ∈ l ∧ p.2 ∈ l := by
  unfold pathEdges at h
  have := List.of_mem_zip h
  exact ⟨this.1, List.mem_of_mem_tail this.2⟩

/-- clipping the head `e` of the cycle `e :: w :: (mid ++ [u])`: the links say `prev e = u`, `next e = w`, and `unlink`
re-establishes the invariant for the shorter cycle; entries other than `e`, `u`, `w` are untouched, `u` and `w` keep their
`ear` flags and only lose the link to `e`. -/
theorem unlink_inv {n : Nat} {info : Array (VInfo K)} {e w u : Nat} {mid : List Nat}
    (h : Inv n info (e :: w :: (mid ++ [u]))) :
    (info.getD e default).prev = u ∧ (info.getD e default).next = w ∧ e ≠ u ∧ e ≠ w ∧ u ≠ w ∧
    Inv n (unlink info e) (w :: (mid ++ [u])) ∧
    (∀ j, j ≠ e → j ≠ u → j ≠ w → (unlink info e).getD j default = info.getD j default) := by
  have hne : (w :: (mid ++ [u])) ≠ [] := by simp
  have hpe := polyEdges_cons e (w :: (mid ++ [u])) hne
  have hhead : (w :: (mid ++ [u])).head hne = w := rfl
  have hlast : (w :: (mid ++ [u])).getLast hne = u := by simp
  rw [hhead, hlast] at hpe
  have hl1 := h.link (e, w) (by rw [hpe]; simp)
  have hl2 := h.link (u, e) (by rw [hpe]; simp)
  simp only at hl1 hl2
  have hnd := h.nodup
  have he_notin : e ∉ w :: (mid ++ [u]) := (List.nodup_cons.mp hnd).1
  have hrest_nd : (w :: (mid ++ [u])).Nodup := (List.nodup_cons.mp hnd).2
  have hu_mem : u ∈ w :: (mid ++ [u]) := by simp
  have hw_mem : w ∈ w :: (mid ++ [u]) := by simp
  have heu : e ≠ u := fun hh => he_notin (hh ▸ hu_mem)
  have hew : e ≠ w := fun hh => he_notin (hh ▸ hw_mem)
  have huw : u ≠ w := by
    intro hh
    have := (List.nodup_cons.mp hrest_nd).1
    exact this (by rw [← hh]; simp)
  have he_lt : e < info.size := by rw [h.size]; exact h.lt e (by simp)
  have hu_lt : u < info.size := by rw [h.size]; exact h.lt u (List.mem_cons_of_mem _ hu_mem)
  have hw_lt : w < info.size := by rw [h.size]; exact h.lt w (List.mem_cons_of_mem _ hw_mem)
  have hg := unlink_getD info e u w hl2.2 hl1.1 he_lt hu_lt hw_lt heu hew huw
  refine ⟨hl2.2, hl1.1, heu, hew, huw, ?_, ?_⟩
  · refine ⟨by rw [size_unlink, h.size], hrest_nd, fun i hi => h.lt i (List.mem_cons_of_mem _ hi), ?_, ?_⟩
    · intro i hi
      rw [hg i]
      have hold := h.act i hi
      by_cases c1 : i = w
      · subst c1; rw [if_pos rfl]; simp only
        rw [hold]; simp
      · rw [if_neg c1]
        by_cases c2 : i = u
        · subst c2; rw [if_pos rfl]; simp only
          rw [hold]; simp
        · rw [if_neg c2]
          by_cases c3 : i = e
          · subst c3; rw [if_pos rfl]; simp only
            simp [he_notin]
          · rw [if_neg c3, hold]; simp [c3]
    · intro p hp
      rw [polyEdges_eq_path _ hne, hhead, hlast, List.mem_append, List.mem_singleton] at hp
      rcases hp with hp | hp
      · have hmem := mem_pathEdges hp
        have hold := h.link p (by rw [hpe]; simp [hp])
        have p1e : p.1 ≠ e := fun hh => he_notin (hh ▸ hmem.1)
        have p2e : p.2 ≠ e := fun hh => he_notin (hh ▸ hmem.2)
        have p1u : p.1 ≠ u := by
          intro hh; rw [hh] at hold; exact p2e (by rw [← hold.1, hl2.1])
        have p2w : p.2 ≠ w := by
          intro hh; rw [hh] at hold; exact p1e (by rw [← hold.2, hl1.2])
        constructor
        · rw [hg p.1]
          by_cases c1 : p.1 = w
          · rw [if_pos c1]; simp only; rw [← c1]; exact hold.1
          · rw [if_neg c1, if_neg p1u, if_neg p1e]; exact hold.1
        · rw [hg p.2, if_neg p2w]
          by_cases c2 : p.2 = u
          · rw [if_pos c2]; simp only; rw [← c2]; exact hold.2
          · rw [if_neg c2, if_neg p2e]; exact hold.2
      · subst hp
        simp only
        constructor
        · rw [hg u, if_neg huw, if_pos rfl]
        · rw [hg w, if_pos rfl]
  · intro j h1 h2 h3
    rw [hg j, if_neg h3, if_neg h2, if_neg h1]

/-- overwriting an entry without touching `active`, `prev`, `next` keeps the invariant -/
theorem Inv.set {n : Nat} {info : Array (VInfo K)} {cyc : List Nat} (h : Inv n info cyc) (i : Nat) (v : VInfo K)
    (ha : v.active = (info.getD i default).active) (hp : v.prev = (info.getD i default).prev)
    (hn : v.next = (info.getD i default).next) : Inv n (info.setIfInBounds i v) cyc := by
  have key : ∀ j, ((info.setIfInBounds i v).getD j default).active = (info.getD j default).active ∧
      ((info.setIfInBounds i v).getD j default).prev = (info.getD j default).prev ∧
      ((info.setIfInBounds i v).getD j default).next = (info.getD j default).next := by
    intro j
    by_cases hij : i = j
    · subst hij
      by_cases hi : i < info.size
      · rw [getD_set_self _ _ _ _ hi]; exact ⟨ha, hp, hn⟩
      · have : info.setIfInBounds i v = info := by
          apply Array.ext_getElem? ; intro k
          rw [Array.getElem?_setIfInBounds]
          split
          · first
            | exact (Array.getElem?_eq_none (Nat.le_of_not_lt hi)).symm
            | (rename_i hik; subst hik; simp [hi])
          · first | rfl | simp_all
        rw [this]; exact ⟨rfl, rfl, rfl⟩
    · rw [getD_set_ne _ _ _ _ _ hij]; exact ⟨rfl, rfl, rfl⟩
  exact ⟨by simp [h.size], h.nodup, h.lt, fun j hj => by rw [(key j).1]; exact h.act j hj,
    fun p hp' => by rw [(key p.1).2.2, (key p.2).2.1]; exact h.link p hp'⟩

theorem pickEar_spec (info : Array (VInfo K)) (e : Nat) (h : pickEar info = some e) :
    e < info.size ∧ (info.getD e default).active = true ∧ (info.getD e default).ear = true := by
  unfold pickEar at h
  have gen : ∀ (l : List Nat) (best : Option Nat), (∀ i ∈ l, i < info.size) →
      (∀ b, best = some b → b < info.size ∧ (info.getD b default).active = true ∧ (info.getD b default).ear = true) →
      ∀ r, l.foldl (fun best i =>
        let vi := info.getD i default
        if vi.active && vi.ear then
          match best with
          | none => some i
          | some b => if vi.pointiness < (info.getD b default).pointiness then some b else some i
        else best) best = some r →
      r < info.size ∧ (info.getD r default).active = true ∧ (info.getD r default).ear = true := by
    intro l
    induction l with
    | nil => intro best _ hb r hr; exact hb r hr
    | cons a t ih =>
      intro best hl hb r hr
      rw [List.foldl_cons] at hr
      refine ih _ (fun i hi => hl i (List.mem_cons_of_mem _ hi)) ?_ r hr
      intro b hb'
      simp only at hb'
      split at hb'
      · rename_i hc
        simp only [Bool.and_eq_true] at hc
        split at hb'
        · cases hb'; exact ⟨hl _ List.mem_cons_self, hc.1, hc.2⟩
        · split at hb'
          · exact hb b hb'
          · cases hb'; exact ⟨hl _ List.mem_cons_self, hc.1, hc.2⟩
      · exact hb b hb'
  exact gen _ none (fun i hi => List.mem_range.mp hi) (fun b hb => by cases hb) e h

theorem firstActive_spec (info : Array (VInfo K)) (i : Nat) (h : firstActive info = some i) :
    i < info.size ∧ (info.getD i default).active = true := by
  unfold firstActive at h
  exact ⟨List.mem_range.mp (List.mem_of_find?_eq_some h), by simpa using List.find?_some h⟩

/-- what the initialisation establishes for vertex `j` -/
def EntryOK (pts : Array (V2 K)) (info : Array (VInfo K)) (j : Nat) : Prop :=
  (info.getD j default).active = true ∧
  (info.getD j default).prev = (if j = 0 then pts.size - 1 else j - 1) ∧
  (info.getD j default).next = (if j = pts.size - 1 then 0 else j + 1) ∧
  ((info.getD j default).ear = true →
    cornerDirection (pt pts (info.getD j default).prev) (pt pts j) (pt pts (info.getD j default).next) = .ccw)

theorem initInfos_spec (pts : Array (V2 K)) (k : Nat) (acc info : Array (VInfo K))
    (hacc : acc.size + k = pts.size) (hprev : ∀ j, j < acc.size → EntryOK pts acc j)
    (h : initInfos pts k acc = some info) : info.size = pts.size ∧ ∀ j, j < pts.size → EntryOK pts info j := by
  induction k generalizing acc with
  | zero =>
    simp only [initInfos, Option.some.injEq] at h
    subst h
    exact ⟨by omega, fun j hj => hprev j (by omega)⟩
  | succ k ih =>
    have hi : pts.size - (k + 1) = acc.size := by omega
    unfold initInfos at h
    simp only [hi] at h
    by_cases hok : (updateVertex pts acc.size (initVInfo pts.size acc.size)).2 = true
    · rw [if_pos hok] at h
      refine ih _ (by simp; omega) ?_ h
      intro j hj
      have hf := updateVertex_fields pts acc.size (initVInfo pts.size acc.size)
      by_cases hjl : j < acc.size
      · have : (acc.push (updateVertex pts acc.size (initVInfo pts.size acc.size)).1).getD j default
            = acc.getD j default := by
          simp [Array.getD_eq_getD_getElem?, Array.getElem?_push, Nat.ne_of_lt hjl]
        unfold EntryOK; rw [this]; exact hprev j hjl
      · have hje : j = acc.size := by simp at hj; omega
        subst hje
        have : (acc.push (updateVertex pts acc.size (initVInfo pts.size acc.size)).1).getD acc.size default
            = (updateVertex pts acc.size (initVInfo pts.size acc.size)).1 := by
          simp [Array.getD_eq_getD_getElem?, Array.getElem?_push]
        unfold EntryOK; rw [this]
        refine ⟨hf.1, hf.2.1, hf.2.2.1, fun he => ?_⟩
        rw [hf.2.1, hf.2.2.1]
        exact hf.2.2.2 he hok
    · rw [if_neg hok] at h; cases h

theorem mem_polyEdges_range {n : Nat} {p : Nat × Nat} (h : p ∈ polyEdges (List.range n)) :
    p.1 < n ∧ p.2 = (p.1 + 1) % n := by
  rw [polyEdges_eq_zip_rotate] at h
  obtain ⟨k, hk, rfl⟩ := List.mem_iff_getElem.mp h
  simp only [List.length_zip, List.length_range, List.length_rotate, Nat.min_self] at hk
  simp [List.getElem_rotate, hk]

theorem inv_of_init (pts : Array (V2 K)) (info : Array (VInfo K)) (hn : 0 < pts.size) (hs : info.size = pts.size)
    (h : ∀ j, j < pts.size → EntryOK pts info j) :
    Inv pts.size info (List.range pts.size) ∧ EarOK pts info (List.range pts.size) := by
  constructor
  · refine ⟨hs, List.nodup_range, fun i hi => List.mem_range.mp hi, fun i hi => ?_, fun p hp => ?_⟩
    · rw [(h i hi).1]; simp [hi]
    · obtain ⟨h1, h2⟩ := mem_polyEdges_range hp
      have hlt : (p.1 + 1) % pts.size < pts.size := Nat.mod_lt _ hn
      rw [h2, (h p.1 h1).2.2.1, (h _ hlt).2.1]
      by_cases hc : p.1 = pts.size - 1
      · have : (p.1 + 1) % pts.size = 0 := by
          rw [hc]; have : pts.size - 1 + 1 = pts.size := by omega
          rw [this]; exact Nat.mod_self _
        rw [if_pos hc, this]; simp; omega
      · have hm : (p.1 + 1) % pts.size = p.1 + 1 := Nat.mod_eq_of_lt (by omega)
        rw [if_neg hc, hm]; simp
  · intro i hi; exact (h i (List.mem_range.mp hi)).2.2.2

/-- abstract clipping sequence: `ClipSeq cyc ts` — `ts` is obtained from the cyclic list `cyc` by repeatedly removing some
element `e` and emitting `(prev e, e, next e)`, until three elements remain, which form the last triangle. -/
inductive ClipSeq : List Nat → List (Nat × Nat × Nat) → Prop
  | last {cyc : List Nat} {k i w u : Nat} (h : cyc.rotate k = [i, w, u]) : ClipSeq cyc [(u, i, w)]
  | step {cyc : List Nat} {k e w u : Nat} {mid : List Nat} {ts : List (Nat × Nat × Nat)}
      (hrot : cyc.rotate k = e :: w :: (mid ++ [u])) (h : ClipSeq (w :: (mid ++ [u])) ts) :
      ClipSeq cyc ((u, e, w) :: ts)

/-- any member can be rotated to the front -/
theorem exists_rotate_head {l : List Nat} {e : Nat} (h : e ∈ l) : ∃ k rest, l.rotate k = e :: rest := by
  obtain ⟨a, b, rfl⟩ := List.append_of_mem h
  exact ⟨a.length, b ++ a, by rw [List.rotate_append_length_eq]; simp⟩

/-- a list with at least two elements is `w :: (mid ++ [u])` -/
theorem exists_ends {l : List Nat} (h : 2 ≤ l.length) : ∃ w mid u, l = w :: (mid ++ [u]) := by
  cases l with
  | nil => simp at h
  | cons w t =>
    have ht : t ≠ [] := by intro hh; subst hh; simp at h
    exact ⟨w, t.dropLast, t.getLast ht, by rw [List.dropLast_append_getLast ht]⟩

theorem clipLoop_spec (pts : Array (V2 K)) :
    ∀ (fuel i : Nat) (info : Array (VInfo K)) (out : Array (Nat × Nat × Nat)) (cyc : List Nat)
      (info' : Array (VInfo K)) (out' : Array (Nat × Nat × Nat)),
      Inv pts.size info cyc → EarOK pts info cyc → cyc.length = fuel + 3 → i + fuel + 3 = pts.size →
      clipLoop pts i fuel info out = some (info', out') →
      ∃ (cyc' : List Nat) (ts : List (Nat × Nat × Nat)), Inv pts.size info' cyc' ∧ cyc'.length = 3 ∧
        out' = out ++ ts.toArray ∧
        (∀ t ∈ ts, cornerDirection (pt pts t.1) (pt pts t.2.1) (pt pts t.2.2) = .ccw) ∧
        (∀ fin, ClipSeq cyc' fin → ClipSeq cyc (ts ++ fin)) := by
  intro fuel
  induction fuel with
  | zero =>
    intro i info out cyc info' out' hInv _ hlen _ h
    simp only [clipLoop, Option.some.injEq, Prod.mk.injEq] at h
    obtain ⟨rfl, rfl⟩ := h
    exact ⟨cyc, [], hInv, by simpa using hlen, by simp, by simp, fun fin hf => by simpa using hf⟩
  | succ fuel ih =>
    intro i info out cyc info' out' hInv hEar hlen hi h
    unfold clipLoop at h
    cases hp : pickEar info with
    | none => simp [hp] at h
    | some e =>
      simp only [hp] at h
      obtain ⟨he_lt, he_act, he_ear⟩ := pickEar_spec info e hp
      have he_n : e < pts.size := by rw [← hInv.size]; exact he_lt
      have he_mem : e ∈ cyc := (hInv.act e he_n).mp he_act
      obtain ⟨k, rest, hrot⟩ := exists_rotate_head he_mem
      have hrl : rest.length = fuel + 3 := by
        have := congrArg List.length hrot
        simp only [List.length_rotate, List.length_cons] at this
        omega
      obtain ⟨w, mid, u, rfl⟩ := exists_ends (l := rest) (by omega)
      have hInvR := hInv.rotate k
      rw [hrot] at hInvR
      obtain ⟨hprev, hnext, heu, hew, huw, hInv1, hunch⟩ := unlink_inv hInvR
      have hccw := hEar e he_mem he_ear
      rw [hprev, hnext] at hccw
      rw [hprev, hnext] at h
      have hmem_rest : ∀ j, j ∈ w :: (mid ++ [u]) → j ∈ cyc := fun j hj =>
        List.mem_rotate.mp (by rw [hrot]; exact List.mem_cons_of_mem _ hj)
      have he_notin : e ∉ w :: (mid ++ [u]) := (List.nodup_cons.mp hInvR.nodup).1
      by_cases hi4 : i = pts.size - 4
      · rw [if_pos hi4] at h
        simp only [Option.some.injEq, Prod.mk.injEq] at h
        obtain ⟨rfl, rfl⟩ := h
        have hf0 : fuel = 0 := by omega
        subst hf0
        refine ⟨w :: (mid ++ [u]), [(u, e, w)], hInv1, hrl, by simp, ?_, ?_⟩
        · intro t ht; simp only [List.mem_singleton] at ht; subst ht; exact hccw
        · intro fin hf; exact ClipSeq.step hrot hf
      · rw [if_neg hi4] at h
        -- the two `update_vertex` calls must have succeeded
        set info1 := unlink info e with hinfo1
        set r1 := updateVertex pts u (info1.getD u default) with hr1
        set info2 := info1.setIfInBounds u r1.1 with hinfo2
        by_cases hok1 : r1.2 = true
        · simp only [hok1, Bool.not_true, Bool.false_eq_true, if_false] at h
          set r2 := updateVertex pts w (info2.getD w default) with hr2
          set info3 := info2.setIfInBounds w r2.1 with hinfo3
          by_cases hok2 : r2.2 = true
          · simp only [hok2, Bool.not_true, Bool.false_eq_true, if_false] at h
            have hf1 := updateVertex_fields pts u (info1.getD u default)
            have hf2 := updateVertex_fields pts w (info2.getD w default)
            rw [← hr1] at hf1; rw [← hr2] at hf2
            have hInv2 : Inv pts.size info2 (w :: (mid ++ [u])) := hInv1.set u r1.1 hf1.1 hf1.2.1 hf1.2.2.1
            have hInv3 : Inv pts.size info3 (w :: (mid ++ [u])) := hInv2.set w r2.1 hf2.1 hf2.2.1 hf2.2.2.1
            have hu_lt : u < info1.size := by rw [hInv1.size]; exact hInv1.lt u (by simp)
            have hw_lt : w < info2.size := by rw [hInv2.size]; exact hInv2.lt w (by simp)
            have hEar3 : EarOK pts info3 (w :: (mid ++ [u])) := by
              intro j hj hje
              by_cases hjw : j = w
              · subst hjw
                have hget : info3.getD j default = r2.1 := getD_set_self _ _ _ _ hw_lt
                rw [hget] at hje ⊢
                rw [hf2.2.1, hf2.2.2.1]
                exact hf2.2.2.2 hje hok2
              · have hget3 : info3.getD j default = info2.getD j default := getD_set_ne _ _ _ _ _ (Ne.symm hjw)
                rw [hget3] at hje ⊢
                by_cases hju : j = u
                · subst hju
                  have hget : info2.getD j default = r1.1 := getD_set_self _ _ _ _ hu_lt
                  rw [hget] at hje ⊢
                  rw [hf1.2.1, hf1.2.2.1]
                  exact hf1.2.2.2 hje hok1
                · have hget2 : info2.getD j default = info1.getD j default := getD_set_ne _ _ _ _ _ (Ne.symm hju)
                  have hje' : j ≠ e := fun hh => he_notin (hh ▸ hj)
                  have hget1 : info1.getD j default = info.getD j default := hunch j hje' hju hjw
                  rw [hget2, hget1] at hje ⊢
                  exact hEar j (hmem_rest j hj) hje
            obtain ⟨cyc', ts, hI, hl3, hout, hcc, hclip⟩ :=
              ih (i + 1) info3 (out.push (u, e, w)) (w :: (mid ++ [u])) info' out' hInv3 hEar3 hrl (by omega) h
            refine ⟨cyc', (u, e, w) :: ts, hI, hl3, by rw [hout]; simp, ?_, ?_⟩
            · intro t ht
              rcases List.mem_cons.mp ht with rfl | ht
              · exact hccw
              · exact hcc t ht
            · intro fin hf; exact ClipSeq.step hrot (hclip fin hf)
          · simp [hok2] at h
        · simp [hok1] at h

/-- **structure of the output** (generic over the scalar type, no arithmetic laws used): a `Some` result is a clipping
sequence of the vertex cycle `0, 1, …, n-1`, and every emitted triangle passed the `corner_direction == Ccw` test. -/
theorem triangulate_clipseq (pts : Array (V2 K)) (out : Array (Nat × Nat × Nat))
    (h : triangulateEarClipping pts = some out) :
    3 ≤ pts.size ∧ ClipSeq (List.range pts.size) out.toList ∧
    ∀ t ∈ out.toList, cornerDirection (pt pts t.1) (pt pts t.2.1) (pt pts t.2.2) = .ccw := by
  unfold triangulateEarClipping at h
  simp only at h
  by_cases hn : pts.size < 3
  · simp [hn] at h
  · rw [if_neg hn] at h
    have hn3 : 3 ≤ pts.size := by omega
    cases hinit : initInfos pts pts.size #[] with
    | none => simp [hinit] at h
    | some info =>
      simp only [hinit] at h
      obtain ⟨hsize, hentries⟩ := initInfos_spec pts pts.size #[] info (by simp) (by intro j hj; simp at hj) hinit
      obtain ⟨hInv, hEar⟩ := inv_of_init pts info (by omega) hsize hentries
      cases hloop : clipLoop pts 0 (pts.size - 3) info #[] with
      | none => simp [hloop] at h
      | some r =>
        obtain ⟨info', out1⟩ := r
        simp only [hloop] at h
        obtain ⟨cyc', ts, hI, hl3, hout, hcc, hclip⟩ :=
          clipLoop_spec pts (pts.size - 3) 0 info #[] (List.range pts.size) info' out1 hInv hEar
            (by simp; omega) (by omega) hloop
        cases hfa : firstActive info' with
        | none =>
          exfalso
          unfold firstActive at hfa
          rw [List.find?_eq_none] at hfa
          obtain ⟨x, xs, hx⟩ := List.exists_cons_of_ne_nil (l := cyc') (by intro hh; rw [hh] at hl3; simp at hl3)
          have hxm : x ∈ cyc' := by rw [hx]; simp
          have hxl := hI.lt x hxm
          exact hfa x (List.mem_range.mpr (by rw [hI.size]; exact hxl)) ((hI.act x hxl).mpr hxm)
        | some i =>
          simp only [hfa] at h
          obtain ⟨hi_lt, hi_act⟩ := firstActive_spec info' i hfa
          have hi_n : i < pts.size := by rw [← hI.size]; exact hi_lt
          have hi_mem : i ∈ cyc' := (hI.act i hi_n).mp hi_act
          obtain ⟨k, rest, hrot⟩ := exists_rotate_head hi_mem
          have hrl : rest.length = 2 := by
            have := congrArg List.length hrot
            simp only [List.length_rotate, List.length_cons] at this
            omega
          obtain ⟨w, mid, u, rfl⟩ := exists_ends (l := rest) (by omega)
          have hmid : mid = [] := by
            simp only [List.length_cons, List.length_append, List.length_nil] at hrl
            exact List.eq_nil_of_length_eq_zero (by omega)
          subst hmid
          simp only [List.nil_append] at hrot
          have hIR := hI.rotate k
          rw [hrot] at hIR
          have hl1 := hIR.link (i, w) (by simp [polyEdges])
          have hl2 := hIR.link (u, i) (by simp [polyEdges])
          simp only at hl1 hl2
          rw [hl1.1, hl2.2] at h
          split at h
          · rename_i hccw
            simp only [Option.some.injEq] at h
            subst h
            have hlist : (out1.push (u, i, w)).toList = ts ++ [(u, i, w)] := by rw [hout]; simp
            refine ⟨hn3, ?_, ?_⟩
            · rw [hlist]; exact hclip _ (ClipSeq.last hrot)
            · intro t ht
              rw [hlist] at ht
              rcases List.mem_append.mp ht with ht | ht
              · exact hcc t ht
              · simp only [List.mem_singleton] at ht; subst ht; exact hccw
          · cases h

theorem ClipSeq.length {cyc : List Nat} {ts : List (Nat × Nat × Nat)} (h : ClipSeq cyc ts) :
    ts.length + 2 = cyc.length := by
  induction h with
  | last h => have := congrArg List.length h; simp at this; simp [this]
  | step hrot _ ih =>
    have := congrArg List.length hrot
    simp only [List.length_rotate, List.length_cons, List.length_append, List.length_nil] at this ih
    simp only [List.length_cons]; omega

/-- every emitted triangle consists of three *distinct* members of the cycle -/
theorem ClipSeq.mem {cyc : List Nat} {ts : List (Nat × Nat × Nat)} (h : ClipSeq cyc ts) (hnd : cyc.Nodup) :
    ∀ t ∈ ts, t.1 ∈ cyc ∧ t.2.1 ∈ cyc ∧ t.2.2 ∈ cyc ∧ t.1 ≠ t.2.1 ∧ t.2.1 ≠ t.2.2 ∧ t.1 ≠ t.2.2 := by
  induction h with
  | @last cyc k i w u h =>
    intro t ht
    simp only [List.mem_singleton] at ht; subst ht
    have hm : ∀ x, x ∈ [i, w, u] → x ∈ cyc := fun x hx => List.mem_rotate.mp (h ▸ hx)
    have hnd' : [i, w, u].Nodup := h ▸ List.nodup_rotate.mpr hnd
    simp only [List.nodup_cons, List.mem_cons, List.not_mem_nil, or_false, not_or, List.nodup_nil, and_true] at hnd'
    exact ⟨hm u (by simp), hm i (by simp), hm w (by simp), Ne.symm hnd'.1.2, hnd'.1.1, Ne.symm hnd'.2.1⟩
  | @step cyc k e w u mid ts hrot _ ih =>
    intro t ht
    have hm : ∀ x, x ∈ e :: w :: (mid ++ [u]) → x ∈ cyc := fun x hx => List.mem_rotate.mp (hrot ▸ hx)
    have hnd' : (e :: w :: (mid ++ [u])).Nodup := hrot ▸ List.nodup_rotate.mpr hnd
    rcases List.mem_cons.mp ht with rfl | ht
    · have h1 := (List.nodup_cons.mp hnd').1
      have h2 := (List.nodup_cons.mp (List.nodup_cons.mp hnd').2).1
      simp only [List.mem_cons, List.mem_append, List.mem_singleton, not_or] at h1 h2
      exact ⟨hm u (by simp), hm e (by simp), hm w (by simp), Ne.symm h1.2.2.1, h1.1, Ne.symm h2.2.1⟩
    · obtain ⟨a, b, c, d⟩ := ih (List.nodup_cons.mp hnd').2 t ht
      exact ⟨hm _ (List.mem_cons_of_mem _ a), hm _ (List.mem_cons_of_mem _ b), hm _ (List.mem_cons_of_mem _ c), d⟩

/-! ## Hertel–Mehlhorn -/

section hm
variable {K : Type} [Field K]

/-- gluing two cycles along a shared edge traversed in opposite directions: `X ++ [s]` (closing edge `s → e`) and
`Y ++ [e]` (closing edge `e → s`), `head X = e`, `head Y = s`, give `X ++ Y`; the shared edge cancels. -/
theorem edgeSum_glue (f : Nat → V2 K) (X Y : List Nat) (e s : Nat) (hX : X ≠ []) (hY : Y ≠ [])
    (hXe : X.head hX = e) (hYs : Y.head hY = s) :
    edgeSum f (polyEdges (X ++ Y)) = edgeSum f (polyEdges (X ++ [s])) + edgeSum f (polyEdges (Y ++ [e])) := by
  have h1 : X ++ Y ≠ [] := by simp [hX]
  have h2 : X ++ [s] ≠ [] := by simp
  have h3 : Y ++ [e] ≠ [] := by simp
  rw [polyEdges_eq_path _ h1, polyEdges_eq_path _ h2, polyEdges_eq_path _ h3]
  rw [pathEdges_append X Y hX hY, pathEdges_append X [s] hX (by simp), pathEdges_append Y [e] hY (by simp)]
  simp only [edgeSum_append, edgeSum_cons, edgeSum_nil, List.head_append_of_ne_nil hX, List.head_append_of_ne_nil hY,
    List.getLast_append_of_ne_nil _ hY, List.head_cons, hXe, hYs, pathEdges, List.tail_cons, List.zip_nil_right,
    List.getLast_append_singleton, List.getLast_singleton]
  simp only [cross]; ring
end hm

theorem cycleSkipTake_toList (p : Array Nat) (k : Nat) :
    (cycleSkipTake p k (p.size - 1)).toList = (p.toList.rotate k).dropLast := by
  apply List.ext_getElem
  · simp [cycleSkipTake]
  · intro j h1 h2
    simp [cycleSkipTake] at h1
    simp only [cycleSkipTake, List.getElem_map, List.getElem_range, List.getElem_dropLast,
      List.getElem_rotate, Array.length_toList]
    have hlt : (k + j) % p.size < p.size := Nat.mod_lt _ (by omega)
    rw [Array.getD_eq_getD_getElem?, Array.getElem?_eq_getElem hlt]
    simp [Nat.add_comm]

/-- a rotated list of length ≥ 2, split into "all but last" and its last element -/
theorem rotate_split (l : List Nat) (k : Nat) (hl : 2 ≤ l.length) (hk : k < l.length) :
    ∃ (hne : (l.rotate k).dropLast ≠ []),
      l.rotate k = (l.rotate k).dropLast ++ [l[(k + l.length - 1) % l.length]'(Nat.mod_lt _ (Nat.lt_of_lt_of_le (by decide : 0 < 2) hl))] ∧
      ((l.rotate k).dropLast).head hne = l[k] := by
  have hne0 : l.rotate k ≠ [] := by
    intro h; have := congrArg List.length h
    simp only [List.length_rotate, List.length_nil] at this; omega
  have hne : (l.rotate k).dropLast ≠ [] := by
    intro h; have := congrArg List.length h
    simp only [List.length_dropLast, List.length_rotate, List.length_nil] at this; omega
  refine ⟨hne, ?_, ?_⟩
  · conv_lhs => rw [← List.dropLast_append_getLast hne0]
    congr 2
    rw [List.getLast_eq_getElem]
    simp only [List.length_rotate, List.getElem_rotate]
    congr 1
    have : l.length - 1 + k = k + l.length - 1 := by omega
    rw [this]
  · rw [List.head_eq_getElem]
    simp only [List.getElem_dropLast, List.getElem_rotate]
    congr 1
    simp [Nat.mod_eq_of_lt hk]

theorem mod_succ_pred {i n : Nat} (h : i < n) : ((i + 1) % n + n - 1) % n = i := by
  by_cases hc : i + 1 < n
  · rw [Nat.mod_eq_of_lt hc]
    have : i + 1 + n - 1 = i + n := by omega
    rw [this, Nat.add_mod_right, Nat.mod_eq_of_lt h]
  · have : i + 1 = n := by omega
    rw [this, Nat.mod_self, Nat.zero_add, Nat.mod_eq_of_lt (by omega)]; omega

section total
variable {K : Type} [Field K] {α : Type}

theorem sum_map_set (g : α → K) : ∀ (l : List α) (i : Nat) (v : α) (h : i < l.length),
    ((l.set i v).map g).sum = (l.map g).sum - g l[i] + g v
  | [], _, _, h => by simp at h
  | a :: t, 0, v, _ => by simp; ring
  | a :: t, i + 1, v, h => by
    have := sum_map_set g t i v (by simpa using h)
    simp only [List.set_cons_succ, List.map_cons, List.sum_cons, List.getElem_cons_succ, this]; ring

theorem sum_map_eraseIdx (g : α → K) : ∀ (l : List α) (i : Nat) (h : i < l.length),
    ((l.eraseIdx i).map g).sum = (l.map g).sum - g l[i]
  | [], _, h => by simp at h
  | a :: t, 0, _ => by simp
  | a :: t, i + 1, h => by
    have := sum_map_eraseIdx g t i (by simpa using h)
    simp only [List.eraseIdx_cons_succ, List.map_cons, List.sum_cons, List.getElem_cons_succ, this]; ring

/-- Σ over all pieces of the shoelace sum of the piece -/
def total (f : Nat → V2 K) (polys : Array (Array Nat)) : K :=
  (polys.toList.map fun p => edgeSum f (polyEdges p.toList)).sum

/-- merging along a shared edge: the glued polygon has the summed shoelace area, at least as many vertices as needed,
and only vertices of the two parts -/
theorem merge_spec (f : Nat → V2 K) (p1 p2 : Array Nat) (i11 i21 : Nat) (h1 : 3 ≤ p1.size) (h2 : 3 ≤ p2.size)
    (hi1 : i11 < p1.size) (hi2 : i21 < p2.size)
    (hs : p1.getD i11 0 = p2.getD ((i21 + 1) % p2.size) 0) (he : p1.getD ((i11 + 1) % p1.size) 0 = p2.getD i21 0) :
    let new := cycleSkipTake p1 ((i11 + 1) % p1.size) (p1.size - 1) ++ cycleSkipTake p2 ((i21 + 1) % p2.size) (p2.size - 1)
    edgeSum f (polyEdges new.toList) = edgeSum f (polyEdges p1.toList) + edgeSum f (polyEdges p2.toList) ∧
    3 ≤ new.size ∧ (∀ x ∈ new.toList, x ∈ p1.toList ∨ x ∈ p2.toList) := by
  intro new
  have hk1 : (i11 + 1) % p1.size < p1.toList.length := by simp; exact Nat.mod_lt _ (by omega)
  have hk2 : (i21 + 1) % p2.size < p2.toList.length := by simp; exact Nat.mod_lt _ (by omega)
  obtain ⟨hX, hsplit1, hhead1⟩ := rotate_split p1.toList ((i11 + 1) % p1.size) (by simp; omega) hk1
  obtain ⟨hY, hsplit2, hhead2⟩ := rotate_split p2.toList ((i21 + 1) % p2.size) (by simp; omega) hk2
  have hnew : new.toList = (p1.toList.rotate ((i11 + 1) % p1.size)).dropLast ++
      (p2.toList.rotate ((i21 + 1) % p2.size)).dropLast := by
    simp only [new, Array.toList_append, cycleSkipTake_toList]
  simp only [Array.length_toList, mod_succ_pred hi1, mod_succ_pred hi2] at hsplit1 hsplit2
  -- names for the shared edge
  have g1 : p1.getD i11 0 = p1.toList[i11]'(by simpa using hi1) := by
    simp [Array.getD_eq_getD_getElem?, Array.getElem?_eq_getElem hi1]
  have g2 : p2.getD i21 0 = p2.toList[i21]'(by simpa using hi2) := by
    simp [Array.getD_eq_getD_getElem?, Array.getElem?_eq_getElem hi2]
  have g3 : p1.getD ((i11 + 1) % p1.size) 0 = p1.toList[(i11 + 1) % p1.size]'hk1 := by
    have : (i11 + 1) % p1.size < p1.size := by simpa using hk1
    simp [Array.getD_eq_getD_getElem?, Array.getElem?_eq_getElem this]
  have g4 : p2.getD ((i21 + 1) % p2.size) 0 = p2.toList[(i21 + 1) % p2.size]'hk2 := by
    have : (i21 + 1) % p2.size < p2.size := by simpa using hk2
    simp [Array.getD_eq_getD_getElem?, Array.getElem?_eq_getElem this]
  refine ⟨?_, ?_, ?_⟩
  · rw [hnew, edgeSum_glue f _ _ (p1.toList[(i11 + 1) % p1.size]'hk1) (p2.toList[(i21 + 1) % p2.size]'hk2) hX hY
      hhead1 hhead2]
    rw [← edgeSum_rotate f p1.toList ((i11 + 1) % p1.size), ← edgeSum_rotate f p2.toList ((i21 + 1) % p2.size)]
    conv_rhs => rw [hsplit1, hsplit2]
    rw [← g4, ← hs, g1, ← g3, he, g2]
  · have : new.size = new.toList.length := by simp
    rw [this, hnew]; simp; omega
  · intro x hx
    rw [hnew, List.mem_append] at hx
    rcases hx with hx | hx
    · left; exact List.mem_rotate.mp (List.mem_of_mem_dropLast hx)
    · right; exact List.mem_rotate.mp (List.mem_of_mem_dropLast hx)
end total

theorem findEdge_spec {a b : Nat} {poly : Array Nat} {i1 i2 : Nat} (h : findEdge a b poly = some (i1, i2)) :
    i1 < poly.size ∧ i2 = (i1 + 1) % poly.size ∧ poly.getD i1 0 = a ∧ poly.getD i2 0 = b := by
  unfold findEdge at h
  obtain ⟨k, hk, hf⟩ := List.exists_of_findSome?_eq_some h
  simp only at hf
  split at hf
  · rename_i hc
    simp only [Option.some.injEq, Prod.mk.injEq] at hf
    obtain ⟨rfl, rfl⟩ := hf
    exact ⟨List.mem_range.mp hk, rfl, hc.1.symm, hc.2.symm⟩
  · cases hf

theorem mem_drop_range {n k x : Nat} (h : x ∈ (List.range n).drop k) : k ≤ x ∧ x < n := by
  obtain ⟨j, hj, rfl⟩ := List.mem_iff_getElem.mp h
  simp only [List.length_drop, List.length_range] at hj
  simp only [List.getElem_drop, List.getElem_range]
  omega

theorem findPoly2_spec {polys : Array (Array Nat)} {from_ a b i i21 i22 : Nat}
    (h : findPoly2 polys from_ a b = some (i, i21, i22)) :
    from_ ≤ i ∧ i < polys.size ∧ findEdge a b (polys.getD i #[]) = some (i21, i22) := by
  unfold findPoly2 at h
  obtain ⟨k, hk, hf⟩ := List.exists_of_findSome?_eq_some h
  obtain ⟨h1, h2⟩ := mem_drop_range hk
  obtain ⟨e, he, heq⟩ := Option.map_eq_some_iff.mp hf
  simp only [Prod.mk.injEq] at heq
  obtain ⟨rfl, rfl, rfl⟩ := heq
  exact ⟨h1, h2, he⟩

theorem ite_ind {α : Type} {P : α → Prop} {c : Prop} [Decidable c] {a b : α} (ha : P a) (hb : P b) :
    P (if c then a else b) := by split <;> assumption

section loop
variable {K : Type} [Num K] {F : Type} [Field F]

/-- invariant of the Hertel–Mehlhorn loop: pieces have ≥ 3 vertices, only vertices from `S`, and the summed shoelace
area is `C` -/
def HMInv (f : Nat → V2 F) (S : Nat → Prop) (C : F) (polys : Array (Array Nat)) : Prop :=
  (∀ p ∈ polys.toList, 3 ≤ p.size) ∧ total f polys = C ∧ (∀ p ∈ polys.toList, ∀ x ∈ p.toList, S x)

theorem hmLoop_inv (pts : Array (V2 K)) (f : Nat → V2 F) (S : Nat → Prop) (C : F) :
    ∀ (fuel : Nat) (polys : Array (Array Nat)) (i j : Nat), HMInv f S C polys →
      HMInv f S C (hmLoop pts fuel polys i j) := by
  intro fuel
  induction fuel with
  | zero => intro polys i j h; simpa [hmLoop] using h
  | succ fuel ih =>
    intro polys i j h
    unfold hmLoop
    by_cases hi : i < polys.size
    · rw [if_neg (not_not_intro hi)]
      simp only
      by_cases hj : j < (polys.getD i #[]).size
      · rw [if_neg (not_not_intro hj)]
        cases hfp : findPoly2 polys (i + 1) ((polys.getD i #[]).getD ((j + 1) % (polys.getD i #[]).size) 0)
            ((polys.getD i #[]).getD j 0) with
        | none => simp only; exact ih _ _ _ h
        | some r =>
          obtain ⟨i2, i21, i22⟩ := r
          simp only
          refine ite_ind (P := HMInv f S C) (ih _ _ _ h) (ite_ind (P := HMInv f S C) (ih _ _ _ h) ?_)
          · apply ih
            obtain ⟨hfrom, hi2, hfe⟩ := findPoly2_spec hfp
            obtain ⟨hi21, hi22, hge, hgs⟩ := findEdge_spec hfe
            obtain ⟨h3, htot, hS⟩ := h
            have hgi : polys.getD i #[] = polys.toList[i]'(by simpa using hi) := by
              simp [Array.getD_eq_getD_getElem?, Array.getElem?_eq_getElem hi]
            have hgi2 : polys.getD i2 #[] = polys.toList[i2]'(by simpa using hi2) := by
              simp [Array.getD_eq_getD_getElem?, Array.getElem?_eq_getElem hi2]
            have hm1 : polys.getD i #[] ∈ polys.toList := by rw [hgi]; exact List.getElem_mem _
            have hm2 : polys.getD i2 #[] ∈ polys.toList := by rw [hgi2]; exact List.getElem_mem _
            subst hi22
            obtain ⟨harea, hsize, hmem⟩ := merge_spec f (polys.getD i #[]) (polys.getD i2 #[]) j i21 (h3 _ hm1) (h3 _ hm2)
              hj hi21 hgs.symm hge.symm
            set new := cycleSkipTake (polys.getD i #[]) ((j + 1) % (polys.getD i #[]).size) ((polys.getD i #[]).size - 1) ++
              cycleSkipTake (polys.getD i2 #[]) ((i21 + 1) % (polys.getD i2 #[]).size) ((polys.getD i2 #[]).size - 1) with hnew
            have hlist : ((polys.eraseIdxIfInBounds i2).setIfInBounds i new).toList =
                (polys.toList.eraseIdx i2).set i new := by
              simp [Array.eraseIdxIfInBounds, hi2]
            have hlen : i < (polys.toList.eraseIdx i2).length := by
              rw [List.length_eraseIdx_of_lt (by simpa using hi2)]; simp; omega
            have hget : (polys.toList.eraseIdx i2)[i]'hlen = polys.toList[i]'(by simpa using hi) := by
              rw [List.getElem_eraseIdx_of_lt]; omega
            refine ⟨?_, ?_, ?_⟩
            · intro p hp
              rw [hlist] at hp
              rcases List.mem_or_eq_of_mem_set hp with hp | rfl
              · exact h3 p (List.mem_of_mem_eraseIdx hp)
              · exact hsize
            · unfold total at htot ⊢
              rw [hlist, sum_map_set _ _ _ _ hlen, sum_map_eraseIdx _ _ _ (by simpa using hi2), hget, ← hgi, ← hgi2,
                harea, htot]
              ring
            · intro p hp x hx
              rw [hlist] at hp
              rcases List.mem_or_eq_of_mem_set hp with hp | rfl
              · exact hS p (List.mem_of_mem_eraseIdx hp) x hx
              · rcases hmem x hx with hx | hx
                · exact hS _ hm1 x hx
                · exact hS _ hm2 x hx
      · rw [if_pos hj]
        exact ih _ _ _ h
    · rw [if_pos hi]
      exact h
end loop
end C16
