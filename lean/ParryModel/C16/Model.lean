import ParryModel.Vec
import ParryModel.C15.Model
import ParryModel.C10.Model
/-!
# C16 model: `transformation/ear_clipping.rs` (`triangulate_ear_clipping`, observed through `TriMesh::from_polygon`)
and `transformation/hertel_mehlhorn.rs` (`hertel_mehlhorn_idx`, `hertel_mehlhorn`), `shape/convex_polygon.rs`
(`ConvexPolygon::from_convex_polyline`), `shape/compound.rs` (`Compound::decompose_trimesh`).

Literal transliteration.  Arrays are accessed with `getD`/`setIfInBounds`; theorem `C16.clip_inv` shows that every index the
algorithm follows is in bounds, so the defaults are never read (the Rust `v[i]` cannot panic).

**Corrected behaviour** (genuine defects on the pinned tree, see `fixes/C16-ear-clipping-orientation.diff`):
* `n < 3`: the pinned code evaluates `n_vertices - 3` on `usize` (overflow panic in debug builds, wrap-around in release
  builds, where the loop then finds no ear and returns `None`); the model returns `none` up front;
* clockwise input: the pinned code never inspects the last three vertices (and, for `n = 3`, no vertex at all), so a
  clockwise triangle yields `Some([[2,0,1]])` and a clockwise dart a two-triangle "tiling" outside the polygon; the model
  returns `none` when the final triangle is not counter-clockwise;
* numerically degenerate corners (`fixes/C16-ear-clipping-degenerate-corner.diff`): when rounding makes a straight corner
  "counter-clockwise" and another vertex is collinear with it, `is_point_in_triangle` returns `None` and the pinned
  `update_vertex` aborts the whole triangulation (valid polygons with collinear runs given in non-representable
  coordinates → `None`); the model counts such a vertex as inside instead.  Unreachable in exact arithmetic.
-/
namespace Model.C16
open Model Model.C15
variable {K : Type} [Num K]

/-- `VertexInfo` -/
structure VInfo (K : Type) where
  active : Bool
  ear : Bool
  pointiness : K
  prev : Nat
  next : Nat

instance : Inhabited (VInfo K) := ⟨⟨false, false, 0, 0, 0⟩⟩

/-- `points[i]` -/
@[inline] def pt (pts : Array (V2 K)) (i : Nat) : V2 K := pts.getD i ⟨0, 0⟩

/-- nalgebra `normalize`: `self / self.norm()`, `norm = sqrt(x*x + y*y)` -/
@[inline] def normalize (v : V2 K) : V2 K := v.sdiv v.norm

/-- `x.is_nan()` -/
@[inline] def isNaN (x : K) : Bool := !(neq x x)

/-- the `.all(..)` over the other vertices inside `update_vertex`; returns `(all, error)` -/
def noPointInside (pts : Array (V2 K)) (prev idx next : Nat) (p1 p p3 : V2 K) : Nat → Bool × Bool
  | 0 => (true, false)
  | k + 1 =>
    -- vertices are visited in increasing order `0 .. n-1`; `k+1` vertices remain, the current one is `n-(k+1)`
    let i := pts.size - (k + 1)
    if i = prev ∨ i = idx ∨ i = next then noPointInside pts prev idx next p1 p p3 k
    else
      match isPointInTriangle (pt pts i) p1 p p3 with
      | .some true => (false, false)          -- `all` short-circuits on the first `false`
      | .some false => noPointInside pts prev idx next p1 p p3 k
      | .invalid =>
        -- **corrected**: the pinned tree sets `error = true` here and `update_vertex` then makes the whole
        -- triangulation return `None`; a `None` from `is_point_in_triangle` only says that the corner is numerically
        -- degenerate with `points[i]` on its line — it is counted as "inside" (the corner is not an ear)
        (false, false)
      | .panic => (false, true)

/-- `update_vertex(idx, &mut vertex_info, points)`: returns the updated info and the success flag -/
def updateVertex (pts : Array (V2 K)) (idx : Nat) (vi : VInfo K) : VInfo K × Bool :=
  let p := pt pts idx
  let p1 := pt pts vi.prev
  let p3 := pt pts vi.next
  let vec1 := normalize (p1.sub p)
  let vec3 := normalize (p3.sub p)
  let vi := { vi with pointiness := vec1.dot vec3 }
  if isNaN vi.pointiness then (vi, false) else
  if cornerDirection p1 p p3 = .ccw then
    let r := noPointInside pts vi.prev idx vi.next p1 p p3 pts.size
    ({ vi with ear := r.1 }, !r.2)
  else ({ vi with ear := false }, true)

/-- `info.is_active = true; info.p_prev = …; info.p_next = …` for vertex `i` of `n` -/
def initVInfo (n i : Nat) : VInfo K :=
  { active := true, ear := false, pointiness := 0,
    prev := if i = 0 then n - 1 else i - 1,
    next := if i = n - 1 then 0 else i + 1 }

/-- the initialisation `vertex_info.iter_mut().enumerate().all(..)`: stops at the first failure -/
def initInfos (pts : Array (V2 K)) : Nat → Array (VInfo K) → Option (Array (VInfo K))
  | 0, acc => some acc
  | k + 1, acc =>
    let i := pts.size - (k + 1)
    let r := updateVertex pts i (initVInfo pts.size i)
    if r.2 then initInfos pts k (acc.push r.1) else none

/-- `max_by(pointiness)` over the active ears: the *last* maximal element wins (Rust `Iterator::max_by`) -/
def pickEar (info : Array (VInfo K)) : Option Nat :=
  (List.range info.size).foldl (fun best i =>
    let vi := info.getD i default
    if vi.active && vi.ear then
      match best with
      | none => some i
      | some b => if vi.pointiness < (info.getD b default).pointiness then some b else some i
    else best) none

/-- first active vertex (`find(|(_, info)| info.is_active)`) -/
def firstActive (info : Array (VInfo K)) : Option Nat :=
  (List.range info.size).find? fun i => (info.getD i default).active

/-- deactivate the ear tip and connect its two neighbours -/
def unlink (info : Array (VInfo K)) (ear : Nat) : Array (VInfo K) :=
  let e := info.getD ear default
  let info := info.setIfInBounds ear { e with active := false }
  let p := info.getD e.prev default
  let info := info.setIfInBounds e.prev { p with next := e.next }
  let q := info.getD e.next default
  info.setIfInBounds e.next { q with prev := e.prev }

/-- the main `for i in 0..n_vertices - 3` loop; `fuel` = remaining iterations.  `none` = early `return None`. -/
def clipLoop (pts : Array (V2 K)) : Nat → Nat → Array (VInfo K) → Array (Nat × Nat × Nat) →
    Option (Array (VInfo K) × Array (Nat × Nat × Nat))
  | _, 0, info, out => some (info, out)
  | i, fuel + 1, info, out =>
    match pickEar info with
    | none => none
    | some ear =>
      let e := info.getD ear default
      let out := out.push (e.prev, ear, e.next)
      let info := unlink info ear
      if i = pts.size - 4 then some (info, out) else
      let r1 := updateVertex pts e.prev (info.getD e.prev default)
      let info := info.setIfInBounds e.prev r1.1
      if !r1.2 then none else
      let r2 := updateVertex pts e.next (info.getD e.next default)
      let info := info.setIfInBounds e.next r2.1
      if !r2.2 then none else
      clipLoop pts (i + 1) fuel info out

/-- `triangulate_ear_clipping(vertices)` with the two corrections described in the module header -/
def triangulateEarClipping (pts : Array (V2 K)) : Option (Array (Nat × Nat × Nat)) :=
  let n := pts.size
  if n < 3 then none else
  match initInfos pts n #[] with
  | none => none
  | some info =>
    match clipLoop pts 0 (n - 3) info #[] with
    | none => none
    | some (info, out) =>
      match firstActive info with
      | none => some out
      | some i =>
        let vi := info.getD i default
        -- corrected: the remaining triangle must be counter-clockwise
        if cornerDirection (pt pts vi.prev) (pt pts i) (pt pts vi.next) = .ccw then some (out.push (vi.prev, i, vi.next))
        else none

/-- result of `TriMesh::from_polygon(vertices)` as observed through the mesh it builds -/
inductive FromPolygon (K : Type) where
  | none                                                  -- `triangulate_ear_clipping` returned `None`
  | panicEmptyIndices                                     -- `TriMesh::new(..).unwrap()` on `Err(EmptyIndices)`
  | mesh (vertices : Array (V2 K)) (flat : Array Nat)     -- `vertices()`, `flat_indices()`

/-- `TriMesh::from_polygon(vertices)`:
`triangulate_ear_clipping(&vertices).map(|indices| Self::new(vertices, indices).unwrap())`; `TriMesh::new` fails only on an
empty index buffer (`EmptyIndices`), the vertex buffer is moved in unchanged and `flat_indices()` is the `[u32; 3]` buffer
viewed as `[u32]` (the indices are produced by `as u32` casts of `usize` positions `< n`). -/
def fromPolygonMesh (pts : Array (V2 K)) : FromPolygon K :=
  match triangulateEarClipping pts with
  | none => .none
  | some t =>
    if t.size = 0 then .panicEmptyIndices
    else .mesh pts (t.foldl (fun acc x => acc ++ #[x.1, x.2.1, x.2.2]) #[])

/-! ## Hertel–Mehlhorn -/

/-- `find_edge_index_in_polygon(p1, p2, indices)` -/
def findEdge (p1 p2 : Nat) (poly : Array Nat) : Option (Nat × Nat) :=
  (List.range poly.size).findSome? fun i1 =>
    let i2 := (i1 + 1) % poly.size
    if p1 = poly.getD i1 0 ∧ p2 = poly.getD i2 0 then some (i1, i2) else none

/-- `indices.iter().enumerate().skip(from).find_map(..)` -/
def findPoly2 (polys : Array (Array Nat)) (from_ : Nat) (edgeEnd edgeStart : Nat) : Option (Nat × Nat × Nat) :=
  ((List.range polys.size).drop from_).findSome? fun i =>
    (findEdge edgeEnd edgeStart (polys.getD i #[])).map fun e => (i, e.1, e.2)

/-- `poly.iter().cycle().skip(k).take(m)` -/
def cycleSkipTake (poly : Array Nat) (k m : Nat) : Array Nat :=
  ((List.range m).map fun j => poly.getD ((k + j) % poly.size) 0).toArray

/-- the double `while` loop; every iteration either advances `i11`, advances `i_poly1`, or merges two polygons, so
`fuel = (2T+2)(3T+3)` iterations suffice for `T` triangles (checked by the correspondence; the theorems hold for any fuel) -/
def hmLoop (pts : Array (V2 K)) : Nat → Array (Array Nat) → Nat → Nat → Array (Array Nat)
  | 0, polys, _, _ => polys
  | fuel + 1, polys, iPoly1, i11 =>
    if ¬ iPoly1 < polys.size then polys else
    let polygon1 := polys.getD iPoly1 #[]
    if ¬ i11 < polygon1.size then hmLoop pts fuel polys (iPoly1 + 1) 0 else
    let len1 := polygon1.size
    let i12 := (i11 + 1) % len1
    let edgeStart := polygon1.getD i11 0
    let edgeEnd := polygon1.getD i12 0
    match findPoly2 polys (iPoly1 + 1) edgeEnd edgeStart with
    | none => hmLoop pts fuel polys iPoly1 (i11 + 1)
    | some (iPoly2, i21, i22) =>
      let polygon2 := polys.getD iPoly2 #[]
      let len2 := polygon2.size
      -- first connection
      let i13 := (len1 + i11 - 1) % len1
      let i23 := (i22 + 1) % len2
      let p1 := pt pts (polygon2.getD i23 0)
      let p2 := pt pts (polygon1.getD i13 0)
      let p3 := pt pts (polygon1.getD i11 0)
      if cornerDirection p1 p2 p3 = .cw then hmLoop pts fuel polys iPoly1 (i11 + 1) else
      -- second connection
      let i13' := (i12 + 1) % len1
      let i23' := (len2 + i21 - 1) % len2
      let q1 := pt pts (polygon1.getD i13' 0)
      let q2 := pt pts (polygon2.getD i23' 0)
      let q3 := pt pts (polygon1.getD i12 0)
      if cornerDirection q1 q2 q3 = .cw then hmLoop pts fuel polys iPoly1 (i11 + 1) else
      let newPolygon := cycleSkipTake polygon1 i12 (len1 - 1) ++ cycleSkipTake polygon2 i22 (len2 - 1)
      let polys := polys.eraseIdxIfInBounds iPoly2
      let polys := polys.setIfInBounds iPoly1 newPolygon
      hmLoop pts fuel polys iPoly1 0

/-- `hertel_mehlhorn_idx(vertices, indices)` -/
def hertelMehlhornIdx (pts : Array (V2 K)) (tris : Array (Nat × Nat × Nat)) : Array (Array Nat) :=
  let polys := tris.map fun t => #[t.1, t.2.1, t.2.2]
  let T := tris.size
  hmLoop pts ((2 * T + 2) * (3 * T + 3)) polys 0 0

/-! ## `Compound::decompose_trimesh` glue: `hertel_mehlhorn` (points), `ConvexPolygon::from_convex_polyline` -/

/-- `hertel_mehlhorn(vertices, indices)`: the index pieces mapped to points (`vertices[idx as usize]`) -/
def hertelMehlhorn (pts : Array (V2 K)) (tris : Array (Nat × Nat × Nat)) : Array (Array (V2 K)) :=
  (hertelMehlhornIdx pts tris).map fun p => p.map (pt pts)

/-- the `for i1 in 0..points.len()` loop computing all `ccw_face_normal([&points[i1], &points[i2]])?`
(`none` = the early `return None` of the `?`) -/
def polylineNormals (points : Array (V2 K)) : Nat → Array (V2 K) → Option (Array (V2 K))
  | 0, acc => some acc
  | k + 1, acc =>
    let i1 := points.size - (k + 1)
    let i2 := (i1 + 1) % points.size
    match C10.ccwFaceNormal2 (pt points i1) (pt points i2) with
    | none => none
    | some nrm => polylineNormals points k (acc.push nrm)

/-- the in-place compaction loop `for i2 in 1..points.len()` of `from_convex_polyline`; state
`(points, normals, nremoved)`, `k` iterations remain, current `i2 = n - k` (`n` = the original length) -/
def pruneLoop (n : Nat) (eps : K) : Nat → Array (V2 K) → Array (V2 K) → Nat → Array (V2 K) × Array (V2 K) × Nat
  | 0, points, normals, nremoved => (points, normals, nremoved)
  | k + 1, points, normals, nremoved =>
    let i2 := n - (k + 1)
    let i1 := i2 - 1
    if 1 - eps < (pt normals i1).dot (pt normals i2) then
      pruneLoop n eps k points normals (nremoved + 1)
    else
      let points := points.setIfInBounds (i2 - nremoved) (pt points i2)
      let normals := normals.setIfInBounds (i2 - nremoved) (pt normals i2)
      pruneLoop n eps k points normals nremoved

/-- `ConvexPolygon::from_convex_polyline(points)`: `(points, normals)` of the polygon, or `none` -/
def fromConvexPolyline (points : Array (V2 K)) : Option (Array (V2 K) × Array (V2 K)) :=
  if points.size = 0 then none else
  let eps : K := Num.sqrt C10.eps                      -- `ComplexField::sqrt(DEFAULT_EPSILON)`
  match polylineNormals points points.size #[] with
  | none => none
  | some normals =>
    let nremoved := if 1 - eps < (pt normals 0).dot (pt normals (normals.size - 1)) then 1 else 0
    let r := pruneLoop points.size eps (points.size - 1) points normals nremoved
    let newLength := points.size - r.2.2
    let points := r.1.extract 0 newLength               -- `truncate`
    let normals := r.2.1.extract 0 newLength
    if 2 < points.size then some (points, normals) else none

/-- `ConvexPolygon::from_convex_polyline_unmodified(points)`: every point kept; `none` for fewer than three points or an
edge without a unit normal -/
def fromConvexPolylineUnmodified (points : Array (V2 K)) : Option (Array (V2 K) × Array (V2 K)) :=
  if points.size ≤ 2 then none else
  match polylineNormals points points.size #[] with
  | none => none
  | some normals => some (points, normals)

/-- a shape of the compound built by `decompose_trimesh` -/
inductive Piece (K : Type) where
  | triangle (a b c : V2 K)
  | polygon (points normals : Array (V2 K))

/-- the `.map(|points| match points.len() { 3 => Triangle, _ => from_convex_polyline(..).or_else(..unmodified) })
.collect::<Option<Vec<_>>>()`.  CORRECTED behaviour (fixes/C16-decompose-needle-piece.diff): a piece all of whose corners
but two are flatter than the pruning tolerance of `from_convex_polyline` (a needle; it can have a large area) is kept with
all its points instead of making the whole decomposition `None`. -/
def piecesOf : List (Array (V2 K)) → Option (List (Piece K))
  | [] => some []
  | p :: ps =>
    let s : Option (Piece K) :=
      if p.size = 3 then some (.triangle (pt p 0) (pt p 1) (pt p 2))
      else
        let q : Option (Array (V2 K) × Array (V2 K)) :=
          match fromConvexPolyline p with
          | some r => some r
          | none => fromConvexPolylineUnmodified p
        q.map fun r => .polygon r.1 r.2
    match s with
    | none => none
    | some s => (piecesOf ps).map (s :: ·)

/-- `Compound::decompose_trimesh(trimesh)` on the mesh `(vertices, indices)`: the shapes of the compound (all with the
identity pose), `none` when some piece has an edge without a unit normal (`ccw_face_normal`) -/
def decomposeTrimesh (pts : Array (V2 K)) (tris : Array (Nat × Nat × Nat)) : Option (List (Piece K)) :=
  piecesOf (hertelMehlhorn pts tris).toList

end Model.C16
