import ParryModel.C16.Lemmas
/-! C16, Hertel–Mehlhorn: a generic invariant principle for the double loop (`hmLoop_induct`: a property that survives
every merge the loop can perform survives the loop), the merged polygon as a glued list, its edges and its corners. -/
namespace C16
open Model Model.C15 Model.C16 C15

section induct
variable {K : Type} [Num K]

/-- the polygon written over `polys[i]` when `polys[i]` (edge starting at position `j`) and `polys[i2]` (matching
reversed edge starting at position `i21`) are merged -/
def mergedPoly (p1 p2 : Array Nat) (j i21 : Nat) : Array Nat :=
  cycleSkipTake p1 ((j + 1) % p1.size) (p1.size - 1) ++ cycleSkipTake p2 ((i21 + 1) % p2.size) (p2.size - 1)

/-- everything `hmLoop` has checked when it merges `polys[i]` and `polys[i2]` -/
structure MergeAt (pts : Array (V2 K)) (polys : Array (Array Nat)) (i j i2 i21 : Nat) : Prop where
  hi : i < polys.size
  hj : j < (polys.getD i #[]).size
  hlt : i < i2
  hi2 : i2 < polys.size
  hi21 : i21 < (polys.getD i2 #[]).size
  /-- `polygon2[i21] = edge_end = polygon1[i12]` -/
  hend : (polys.getD i2 #[]).getD i21 0 = (polys.getD i #[]).getD ((j + 1) % (polys.getD i #[]).size) 0
  /-- `polygon2[i22] = edge_start = polygon1[i11]` -/
  hstart : (polys.getD i2 #[]).getD ((i21 + 1) % (polys.getD i2 #[]).size) 0 = (polys.getD i #[]).getD j 0
  /-- first connection: `corner_direction(polygon2[i23], polygon1[i13], polygon1[i11]) != Cw` -/
  conv1 : cornerDirection
      (pt pts ((polys.getD i2 #[]).getD (((i21 + 1) % (polys.getD i2 #[]).size + 1) % (polys.getD i2 #[]).size) 0))
      (pt pts ((polys.getD i #[]).getD (((polys.getD i #[]).size + j - 1) % (polys.getD i #[]).size) 0))
      (pt pts ((polys.getD i #[]).getD j 0)) ≠ .cw
  /-- second connection: `corner_direction(polygon1[i12 + 1], polygon2[i21 - 1], polygon1[i12]) != Cw` -/
  conv2 : cornerDirection
      (pt pts ((polys.getD i #[]).getD (((j + 1) % (polys.getD i #[]).size + 1) % (polys.getD i #[]).size) 0))
      (pt pts ((polys.getD i2 #[]).getD (((polys.getD i2 #[]).size + i21 - 1) % (polys.getD i2 #[]).size) 0))
      (pt pts ((polys.getD i #[]).getD ((j + 1) % (polys.getD i #[]).size) 0)) ≠ .cw

/-- **invariant principle for the Hertel–Mehlhorn loop**: a property of the polygon list that survives every merge
(`polys[i2]` removed, `polys[i]` replaced by the glued polygon, under the conditions the loop has checked) holds for the
result of the loop — for any fuel and any loop position. -/
theorem hmLoop_induct (pts : Array (V2 K)) (P : Array (Array Nat) → Prop)
    (hstep : ∀ polys i j i2 i21, MergeAt pts polys i j i2 i21 → P polys →
      P ((polys.eraseIdxIfInBounds i2).setIfInBounds i (mergedPoly (polys.getD i #[]) (polys.getD i2 #[]) j i21))) :
    ∀ (fuel : Nat) (polys : Array (Array Nat)) (i j : Nat), P polys → P (hmLoop pts fuel polys i j) := by
  intro fuel
  induction fuel with
  | zero => intro polys i j h; simpa [hmLoop] using h
  | succ fuel ih =>
    intro polys i j h
    unfold hmLoop
    by_cases hi : i < polys.size
    · rw [if_neg (not_not_intro hi)]
      simp only
      by_cases hj : j < (polys.getD i #[]).size
      · rw [if_neg (not_not_intro hj)]
        cases hfp : findPoly2 polys (i + 1) ((polys.getD i #[]).getD ((j + 1) % (polys.getD i #[]).size) 0)
            ((polys.getD i #[]).getD j 0) with
        | none => simp only; exact ih _ _ _ h
        | some r =>
          obtain ⟨i2, i21, i22⟩ := r
          simp only
          obtain ⟨hfrom, hi2, hfe⟩ := findPoly2_spec hfp
          obtain ⟨hi21, hi22, hge, hgs⟩ := findEdge_spec hfe
          subst hi22
          by_cases c1 : cornerDirection
              (pt pts ((polys.getD i2 #[]).getD (((i21 + 1) % (polys.getD i2 #[]).size + 1) % (polys.getD i2 #[]).size) 0))
              (pt pts ((polys.getD i #[]).getD (((polys.getD i #[]).size + j - 1) % (polys.getD i #[]).size) 0))
              (pt pts ((polys.getD i #[]).getD j 0)) = .cw
          · rw [if_pos c1]; exact ih _ _ _ h
          · rw [if_neg c1]
            by_cases c2 : cornerDirection
                (pt pts ((polys.getD i #[]).getD (((j + 1) % (polys.getD i #[]).size + 1) % (polys.getD i #[]).size) 0))
                (pt pts ((polys.getD i2 #[]).getD (((polys.getD i2 #[]).size + i21 - 1) % (polys.getD i2 #[]).size) 0))
                (pt pts ((polys.getD i #[]).getD ((j + 1) % (polys.getD i #[]).size) 0)) = .cw
            · rw [if_pos c2]; exact ih _ _ _ h
            · rw [if_neg c2]
              apply ih
              exact hstep polys i j i2 i21 ⟨hi, hj, by omega, hi2, hi21, hge, hgs, c1, c2⟩ h
      · rw [if_pos hj]
        exact ih _ _ _ h
    · rw [if_pos hi]
      exact h
end induct

/-! ## corners of open paths and closed cycles -/
section corners
variable {α : Type}

/-- consecutive triples of an open path -/
def pathCorners : List α → List (α × α × α)
  | a :: b :: c :: t => (a, b, c) :: pathCorners (b :: c :: t)
  | _ => []

/-- the corners `(prev, v, next)` of a closed cycle -/
def closedCorners (l : List α) : List (α × α × α) := pathCorners (l ++ l.take 2)

theorem pathCorners_append_two (X : List α) (a b : α) (Y : List α) :
    pathCorners (X ++ a :: b :: Y) = pathCorners (X ++ [a, b]) ++ pathCorners (a :: b :: Y) := by
  induction X with
  | nil => simp [pathCorners]
  | cons x X ih =>
    cases X with
    | nil => simp [pathCorners]
    | cons y X' =>
      cases X' with
      | nil =>
        simp only [List.cons_append, List.nil_append, pathCorners] at ih ⊢
        try simp
      | cons z X'' =>
        simp only [List.cons_append, pathCorners] at ih ⊢
        rw [ih]
        try simp

theorem mem_pathCorners_prefix {X : List α} {a b : α} {Y : List α} {c : α × α × α}
    (h : c ∈ pathCorners (X ++ [a, b])) : c ∈ pathCorners (X ++ a :: b :: Y) := by
  rw [pathCorners_append_two]; exact List.mem_append_left _ h

/-- rotating a cycle by one does not change its set of corners -/
theorem mem_closedCorners_rotate_one (l : List α) (c : α × α × α) :
    c ∈ closedCorners (l.rotate 1) ↔ c ∈ closedCorners l := by
  cases l with
  | nil => simp [closedCorners]
  | cons a t =>
    cases t with
    | nil => simp [closedCorners, pathCorners]
    | cons b t' =>
      cases t' with
      | nil =>
        simp only [closedCorners, List.rotate_cons_succ, List.rotate_zero, List.cons_append, List.nil_append,
          List.take, pathCorners, List.mem_cons, List.not_mem_nil, or_false]
        exact or_comm
      | cons c' t'' =>
        have h1 : closedCorners (a :: b :: c' :: t'') = (a, b, c') :: pathCorners (b :: c' :: t'' ++ [a, b]) := by
          simp [closedCorners, pathCorners]
        have h2 : closedCorners ((a :: b :: c' :: t'').rotate 1) =
            pathCorners (b :: c' :: t'' ++ [a, b]) ++ [(a, b, c')] := by
          simp only [closedCorners, List.rotate_cons_succ, List.rotate_zero, List.cons_append, List.take_succ_cons,
            List.take_zero]
          have := pathCorners_append_two (b :: c' :: t'') a b [c']
          simp only [List.cons_append, List.append_assoc, List.nil_append] at this ⊢
          rw [this]
          simp [pathCorners]
        rw [h1, h2]
        simp only [List.mem_append, List.mem_cons, List.not_mem_nil, or_false]
        exact or_comm

theorem mem_closedCorners_rotate (l : List α) (k : Nat) (c : α × α × α) :
    c ∈ closedCorners (l.rotate k) ↔ c ∈ closedCorners l := by
  induction k with
  | zero => simp
  | succ k ih => rw [← List.rotate_rotate, mem_closedCorners_rotate_one, ih]

/-- **corners of a glued cycle**: `X ++ [s]` and `Y ++ [e]` are cycles (closing edges `s → head X = e` and
`e → head Y = s`); every corner of the glued cycle `X ++ Y` is a corner of one of the two, or one of the two new corners
at `s` and at `e`. -/
theorem mem_closedCorners_glue (e a0 s b0 z y : α) (X' Y' : List α) (Xi Yi : List α)
    (hX : e :: a0 :: X' = Xi ++ [z]) (hY : s :: b0 :: Y' = Yi ++ [y]) (c : α × α × α)
    (h : c ∈ closedCorners ((e :: a0 :: X') ++ (s :: b0 :: Y'))) :
    c ∈ closedCorners ((e :: a0 :: X') ++ [s]) ∨ c = (z, s, b0) ∨
    c ∈ closedCorners ((s :: b0 :: Y') ++ [e]) ∨ c = (y, e, a0) := by
  have hA : closedCorners ((e :: a0 :: X') ++ [s]) = pathCorners ((Xi ++ [z, s]) ++ [e, a0]) := by
    have : (e :: a0 :: X') ++ [s] = Xi ++ [z, s] := by rw [hX]; simp
    rw [closedCorners, this]
    congr 1
    have h2 : (Xi ++ [z, s]).take 2 = [e, a0] := by
      rw [← this]; simp
    rw [h2]
  have hB : closedCorners ((s :: b0 :: Y') ++ [e]) = pathCorners ((Yi ++ [y, e]) ++ [s, b0]) := by
    have : (s :: b0 :: Y') ++ [e] = Yi ++ [y, e] := by rw [hY]; simp
    rw [closedCorners, this]
    congr 1
    have h2 : (Yi ++ [y, e]).take 2 = [s, b0] := by
      rw [← this]; simp
    rw [h2]
  have hN : closedCorners ((e :: a0 :: X') ++ (s :: b0 :: Y')) =
      pathCorners (Xi ++ [z, s]) ++ ((z, s, b0) :: (pathCorners (Yi ++ [y, e]) ++ [(y, e, a0)])) := by
    have h1 : ((e :: a0 :: X') ++ (s :: b0 :: Y')).take 2 = [e, a0] := by simp
    rw [closedCorners, h1, hX]
    have h3 : Xi ++ [z] ++ s :: b0 :: Y' ++ [e, a0] = Xi ++ z :: s :: (b0 :: Y' ++ [e, a0]) := by simp
    rw [h3, pathCorners_append_two]
    congr 1
    have h4 : z :: s :: (b0 :: Y' ++ [e, a0]) = z :: (s :: b0 :: Y') ++ [e, a0] := by simp
    rw [h4, hY]
    have h5 : z :: (Yi ++ [y]) ++ [e, a0] = (z :: Yi) ++ y :: e :: [a0] := by simp
    rw [h5, pathCorners_append_two]
    have h6 : pathCorners (z :: Yi ++ [y, e]) = (z, s, b0) :: pathCorners (Yi ++ [y, e]) := by
      have : Yi ++ [y, e] = s :: b0 :: (Y' ++ [e]) := by
        have := congrArg (· ++ [e]) hY
        simp only [List.cons_append, List.append_assoc, List.singleton_append] at this
        exact this.symm
      rw [List.cons_append, this]
      simp [pathCorners]
    rw [h6]
    simp [pathCorners]
  rw [hN] at h
  simp only [List.mem_append, List.mem_cons, List.not_mem_nil, or_false] at h
  rcases h with h | h | h | h
  · left; rw [hA]; simpa using mem_pathCorners_prefix (Y := [e, a0]) h
  · right; left; exact h
  · right; right; left; rw [hB]; simpa using mem_pathCorners_prefix (Y := [s, b0]) h
  · right; right; right; exact h

end corners

/-! ## the glued polygon as lists -/
section glue

/-- a list with at least three elements, seen from both ends -/
theorem list_ends (L : List Nat) (h : 3 ≤ L.length) :
    ∃ T Ti, L = (L[0] :: L[1] :: T) ++ [L[L.length - 1]] ∧ L[0] :: L[1] :: T = Ti ++ [L[L.length - 2]] := by
  have hne : L ≠ [] := by intro hh; rw [hh] at h; simp at h
  have hd : L.dropLast.length = L.length - 1 := by simp
  have hne2 : L.dropLast ≠ [] := by intro hh; rw [hh] at hd; simp at hd; omega
  have e1 : L = L.dropLast ++ [L[L.length - 1]] := by
    conv_lhs => rw [← List.dropLast_append_getLast hne]
    rw [List.getLast_eq_getElem]
  have e2 : L.dropLast = L.dropLast.dropLast ++ [L[L.length - 2]] := by
    conv_lhs => rw [← List.dropLast_append_getLast hne2]
    rw [List.getLast_eq_getElem]
    congr 2
    simp only [List.getElem_dropLast, hd]
    congr 1
  -- the first two elements of `L.dropLast`
  obtain ⟨x0, r0, hr0⟩ := List.exists_cons_of_ne_nil hne2
  have hr0l : r0.length = L.length - 2 := by
    have := congrArg List.length hr0; simp at this; omega
  have hr0ne : r0 ≠ [] := by intro hh; rw [hh] at hr0l; simp at hr0l; omega
  obtain ⟨x1, T, hT⟩ := List.exists_cons_of_ne_nil hr0ne
  have hx0 : x0 = L[0] := by
    have : L.dropLast[0]'(by omega) = L[0] := by simp [List.getElem_dropLast]
    rw [← this]; simp [hr0]
  have hx1 : x1 = L[1] := by
    have : L.dropLast[1]'(by omega) = L[1] := by simp [List.getElem_dropLast]
    rw [← this]; simp [hr0, hT]
  refine ⟨T, L.dropLast.dropLast, ?_, ?_⟩
  · conv_lhs => rw [e1]
    rw [hr0, hT, hx0, hx1]
  · rw [← hx0, ← hx1, ← hT, ← hr0]; exact e2

theorem mod_pred_pred {j n : Nat} (hn : 2 ≤ n) (hj : j < n) : (n - 2 + (j + 1) % n) % n = (n + j - 1) % n := by
  by_cases hc : j + 1 < n
  · rw [Nat.mod_eq_of_lt hc]; congr 1; omega
  · have : j + 1 = n := by omega
    rw [this, Nat.mod_self, Nat.add_zero]
    have : n + j - 1 = (n - 2) + n := by omega
    rw [this, Nat.add_mod_right]

/-- shape of a rotated cycle `l.rotate ((j+1) % n)`: it starts with `l[j+1], l[j+2]`, ends with `l[j]`, and the element
before the last is `l[j-1]` (indices mod `n`) -/
theorem rotate_shape (p : Array Nat) (j : Nat) (h3 : 3 ≤ p.size) (hj : j < p.size) :
    ∃ T Ti, p.toList.rotate ((j + 1) % p.size) =
        (p.getD ((j + 1) % p.size) 0 :: p.getD (((j + 1) % p.size + 1) % p.size) 0 :: T) ++ [p.getD j 0] ∧
      p.getD ((j + 1) % p.size) 0 :: p.getD (((j + 1) % p.size + 1) % p.size) 0 :: T =
        Ti ++ [p.getD ((p.size + j - 1) % p.size) 0] := by
  set n := p.size with hn
  set k := (j + 1) % n with hk
  have hkn : k < n := Nat.mod_lt _ (by omega)
  set L := p.toList.rotate k with hL
  have hLl : L.length = n := by simp [hL, hn]
  obtain ⟨T, Ti, e1, e2⟩ := list_ends L (by omega)
  have gd : ∀ i (hi : i < n), p.getD i 0 = p.toList[i]'(by simpa using hi) := by
    intro i hi; simp [Array.getD_eq_getD_getElem?, Array.getElem?_eq_getElem hi]
  have g0 : L[0]'(by omega) = p.getD k 0 := by
    rw [gd k hkn]; simp only [hL, List.getElem_rotate, Array.length_toList]
    congr 1; rw [Nat.zero_add]; exact Nat.mod_eq_of_lt hkn
  have g1 : L[1]'(by omega) = p.getD ((k + 1) % n) 0 := by
    rw [gd _ (Nat.mod_lt _ (by omega))]; simp only [hL, List.getElem_rotate, Array.length_toList]
    congr 1; rw [Nat.add_comm]
  have gl : L[L.length - 1]'(by omega) = p.getD j 0 := by
    rw [gd j hj]; simp only [hL, List.getElem_rotate, Array.length_toList, List.length_rotate]
    congr 1
    have := mod_succ_pred hj
    rw [← this]; congr 1; omega
  have gl2 : L[L.length - 2]'(by omega) = p.getD ((n + j - 1) % n) 0 := by
    rw [gd _ (Nat.mod_lt _ (by omega))]; simp only [hL, List.getElem_rotate, Array.length_toList, List.length_rotate]
    congr 1
    exact mod_pred_pred (by omega) hj
  rw [g0, g1, gl] at e1
  rw [g0, g1, gl2] at e2
  exact ⟨T, Ti, e1, e2⟩

/-- **the glued polygon**: list form of `mergedPoly` together with the two rotated cycles it is made of -/
theorem merged_lists (p1 p2 : Array Nat) (j i21 : Nat) (h1 : 3 ≤ p1.size) (h2 : 3 ≤ p2.size) (hj : j < p1.size)
    (hi : i21 < p2.size) (hstart : p2.getD ((i21 + 1) % p2.size) 0 = p1.getD j 0)
    (hend : p2.getD i21 0 = p1.getD ((j + 1) % p1.size) 0) :
    ∃ (X' Y' Xi Yi : List Nat),
      (mergedPoly p1 p2 j i21).toList =
        (p1.getD ((j + 1) % p1.size) 0 :: p1.getD (((j + 1) % p1.size + 1) % p1.size) 0 :: X') ++
        (p1.getD j 0 :: p2.getD (((i21 + 1) % p2.size + 1) % p2.size) 0 :: Y') ∧
      p1.toList.rotate ((j + 1) % p1.size) =
        (p1.getD ((j + 1) % p1.size) 0 :: p1.getD (((j + 1) % p1.size + 1) % p1.size) 0 :: X') ++ [p1.getD j 0] ∧
      p2.toList.rotate ((i21 + 1) % p2.size) =
        (p1.getD j 0 :: p2.getD (((i21 + 1) % p2.size + 1) % p2.size) 0 :: Y') ++ [p1.getD ((j + 1) % p1.size) 0] ∧
      p1.getD ((j + 1) % p1.size) 0 :: p1.getD (((j + 1) % p1.size + 1) % p1.size) 0 :: X' =
        Xi ++ [p1.getD ((p1.size + j - 1) % p1.size) 0] ∧
      p1.getD j 0 :: p2.getD (((i21 + 1) % p2.size + 1) % p2.size) 0 :: Y' =
        Yi ++ [p2.getD ((p2.size + i21 - 1) % p2.size) 0] := by
  obtain ⟨X', Xi, a1, a2⟩ := rotate_shape p1 j h1 hj
  obtain ⟨Y', Yi, b1, b2⟩ := rotate_shape p2 i21 h2 hi
  rw [hstart] at b1 b2
  rw [hend] at b1
  refine ⟨X', Y', Xi, Yi, ?_, a1, b1, a2, b2⟩
  simp only [mergedPoly, Array.toList_append, cycleSkipTake_toList, a1, b1, List.dropLast_concat]

/-- **edges of a glued cycle**: gluing `X ++ [s]` (closing edge `s → e`) and `Y ++ [e]` (closing edge `e → s`) along that
edge removes exactly the two opposite copies of it -/
theorem polyEdges_glue_perm (X Y : List Nat) (e s : Nat) (hX : X ≠ []) (hY : Y ≠ [])
    (hXe : X.head hX = e) (hYs : Y.head hY = s) :
    (polyEdges (X ++ Y) ++ [(s, e), (e, s)]).Perm (polyEdges (X ++ [s]) ++ polyEdges (Y ++ [e])) := by
  have h1 : X ++ Y ≠ [] := by simp [hX]
  have h2 : X ++ [s] ≠ [] := by simp
  have h3 : Y ++ [e] ≠ [] := by simp
  rw [polyEdges_eq_path _ h1, polyEdges_eq_path _ h2, polyEdges_eq_path _ h3]
  rw [pathEdges_append X Y hX hY, pathEdges_append X [s] hX (by simp), pathEdges_append Y [e] hY (by simp)]
  simp only [List.head_append_of_ne_nil hX, List.head_append_of_ne_nil hY,
    List.getLast_append_of_ne_nil _ hY, List.head_cons, hXe, hYs, pathEdges, List.tail_cons, List.zip_nil_right,
    List.getLast_append_singleton]
  rw [List.perm_iff_count]
  intro x
  simp only [List.count_append, List.count_cons, List.count_nil]
  omega

theorem map_eraseIdx' {α β : Type} (f : α → β) : ∀ (l : List α) (n : Nat), (l.map f).eraseIdx n = (l.eraseIdx n).map f
  | [], _ => rfl
  | _ :: _, 0 => rfl
  | a :: t, n + 1 => by simp [map_eraseIdx' f t n]

/-- list sums under `set` / `eraseIdx`, additive form (no subtraction) -/
theorem sum_map_set_add {α : Type} (g : α → Nat) : ∀ (l : List α) (i : Nat) (v : α) (h : i < l.length),
    ((l.set i v).map g).sum + g l[i] = (l.map g).sum + g v
  | [], _, _, h => by simp at h
  | a :: t, 0, v, _ => by simp; omega
  | a :: t, i + 1, v, h => by
    have := sum_map_set_add g t i v (by simpa using h)
    simp only [List.set_cons_succ, List.map_cons, List.sum_cons, List.getElem_cons_succ]; omega

theorem sum_map_eraseIdx_add {α : Type} (g : α → Nat) : ∀ (l : List α) (i : Nat) (h : i < l.length),
    ((l.eraseIdx i).map g).sum + g l[i] = (l.map g).sum
  | [], _, h => by simp at h
  | a :: t, 0, _ => by simp; omega
  | a :: t, i + 1, h => by
    have := sum_map_eraseIdx_add g t i (by simpa using h)
    simp only [List.eraseIdx_cons_succ, List.map_cons, List.sum_cons, List.getElem_cons_succ]; omega

end glue

/-! ## `ConvexPolygon::from_convex_polyline`: the pruned point list is a sub-list of the input -/
section prune
variable {K : Type} [Num K]

private theorem take_succ_set {α : Type} (L : List α) (m : Nat) (v : α) (h : m < L.length) :
    (L.set m v).take (m + 1) = L.take m ++ [v] := by
  rw [List.take_set, List.take_succ_eq_append_getElem h, List.set_append_right _ _ (by simp)]
  have : m - min m L.length = 0 := by rw [Nat.min_eq_left h.le]; omega
  simp [this]

theorem pruneLoop_spec (n : Nat) (eps : K) (orig : List (V2 K)) (horig : orig.length = n) :
    ∀ (k : Nat) (points normals : Array (V2 K)) (nr : Nat),
      points.size = n → normals.size = n → k + 1 ≤ n → nr ≤ n - k →
      (points.toList.take (n - k - nr)).Sublist (orig.take (n - k)) →
      (∀ m, n - k ≤ m → m < n → points.toList[m]? = orig[m]?) →
      (pruneLoop n eps k points normals nr).1.size = n ∧ (pruneLoop n eps k points normals nr).2.1.size = n ∧
      (pruneLoop n eps k points normals nr).2.2 ≤ n ∧
      ((pruneLoop n eps k points normals nr).1.toList.take (n - (pruneLoop n eps k points normals nr).2.2)).Sublist orig := by
  intro k
  induction k with
  | zero =>
    intro points normals nr hp hn _ hnr hsub _
    simp only [pruneLoop, Nat.sub_zero] at hsub ⊢
    refine ⟨hp, hn, hnr, ?_⟩
    rw [← horig, List.take_length] at hsub
    rw [← horig]; exact hsub
  | succ k ih =>
    intro points normals nr hp hn hk hnr hsub htail
    unfold pruneLoop
    simp only
    have hi2 : n - (k + 1) + 1 = n - k := by omega
    by_cases hc : 1 - eps < (pt normals (n - (k + 1) - 1)).dot (pt normals (n - (k + 1)))
    · rw [if_pos hc]
      refine ih points normals (nr + 1) hp hn (by omega) (by omega) ?_ (fun m h1 h2 => htail m (by omega) h2)
      have e : n - k - (nr + 1) = n - (k + 1) - nr := by omega
      rw [e]
      refine hsub.trans ?_
      rw [← hi2]
      exact List.take_sublist_take_left (by omega)
    · rw [if_neg hc]
      have hlt : n - (k + 1) < n := by omega
      have hv : pt points (n - (k + 1)) = orig[n - (k + 1)]'(by omega) := by
        have := htail (n - (k + 1)) (le_refl _) hlt
        simp only [pt, Array.getD_eq_getD_getElem?]
        rw [← Array.getElem?_toList, this, List.getElem?_eq_getElem (by omega)]
        rfl
      refine ih _ _ nr (by simp [hp]) (by simp [hn]) (by omega) (by omega) ?_ ?_
      · have e : n - k - nr = (n - (k + 1) - nr) + 1 := by omega
        rw [e, Array.toList_setIfInBounds, take_succ_set _ _ _ (by simp [hp]; omega), hv, ← hi2,
          List.take_succ_eq_append_getElem (by omega)]
        exact hsub.append (List.Sublist.refl _)
      · intro m h1 h2
        rw [Array.toList_setIfInBounds, List.getElem?_set_ne (by omega)]
        exact htail m (by omega) h2

/-- **the points kept by `from_convex_polyline` are a sub-list of its input** (same cyclic order), at least three, with
one normal per point -/
theorem fromConvexPolyline_spec (points rp rn : Array (V2 K)) (h : fromConvexPolyline points = some (rp, rn)) :
    rp.toList.Sublist points.toList ∧ 3 ≤ rp.size ∧ rn.size = rp.size := by
  unfold fromConvexPolyline at h
  by_cases h0 : points.size = 0
  · simp [h0] at h
  · rw [if_neg h0] at h
    simp only at h
    cases hnm : polylineNormals points points.size #[] with
    | none => simp [hnm] at h
    | some normals =>
      simp only [hnm] at h
      -- size of the normal buffer
      have hns : ∀ (k : Nat) (acc out : Array (V2 K)), polylineNormals points k acc = some out →
          out.size = acc.size + k := by
        intro k
        induction k with
        | zero => intro acc out hh; simp [polylineNormals] at hh; subst hh; simp
        | succ k ih =>
          intro acc out hh
          unfold polylineNormals at hh
          simp only at hh
          split at hh
          · cases hh
          · have := ih _ _ hh; simp at this; omega
      have hnsz : normals.size = points.size := by have := hns _ _ _ hnm; simpa using this
      set nr0 : Nat := if 1 - Num.sqrt (C10.eps : K) < (pt normals 0).dot (pt normals (normals.size - 1)) then 1 else 0
        with hnr0
      have hnr0le : nr0 ≤ 1 := by rw [hnr0]; split <;> omega
      have hspec := pruneLoop_spec points.size (Num.sqrt (C10.eps : K)) points.toList (by simp)
        (points.size - 1) points normals nr0 rfl hnsz (by omega) (by omega)
        (by
          have e : points.size - (points.size - 1) = 1 := by omega
          rw [e]
          exact (List.take_sublist_take_left (by omega)))
        (fun m _ _ => rfl)
      set r := pruneLoop points.size (Num.sqrt (C10.eps : K)) (points.size - 1) points normals nr0 with hr
      obtain ⟨s1, s2, s3, s4⟩ := hspec
      split at h
      · rename_i hlen
        simp only [Option.some.injEq, Prod.mk.injEq] at h
        obtain ⟨rfl, rfl⟩ := h
        refine ⟨?_, ?_, ?_⟩
        · simpa using s4
        · have := hlen; simp at this ⊢; omega
        · simp [s1, s2]
      · cases h

/-- size of the normal buffer built by the `for i1 in 0..points.len()` loop -/
theorem polylineNormals_size (points : Array (V2 K)) :
    ∀ (k : Nat) (acc out : Array (V2 K)), polylineNormals points k acc = some out → out.size = acc.size + k := by
  intro k
  induction k with
  | zero => intro acc out hh; simp [polylineNormals] at hh; subst hh; simp
  | succ k ih =>
    intro acc out hh
    unfold polylineNormals at hh
    simp only at hh
    split at hh
    · cases hh
    · have := ih _ _ hh; simp at this; omega

/-- the normal loop fails only at an edge `points[i] → points[(i+1) % n]` without a unit normal -/
theorem polylineNormals_none (points : Array (V2 K)) :
    ∀ (k : Nat) (acc : Array (V2 K)), k ≤ points.size → polylineNormals points k acc = none →
      ∃ i, i < points.size ∧ C10.ccwFaceNormal2 (pt points i) (pt points ((i + 1) % points.size)) = none := by
  intro k
  induction k with
  | zero => intro acc _ hh; simp [polylineNormals] at hh
  | succ k ih =>
    intro acc hk hh
    unfold polylineNormals at hh
    simp only at hh
    split at hh
    · rename_i hn
      exact ⟨points.size - (k + 1), by omega, hn⟩
    · exact ih _ (by omega) hh

/-- `from_convex_polyline_unmodified` keeps every point (at least three) and has one normal per point -/
theorem fromConvexPolylineUnmodified_spec (points rp rn : Array (V2 K))
    (h : fromConvexPolylineUnmodified points = some (rp, rn)) :
    rp = points ∧ 3 ≤ rp.size ∧ rn.size = rp.size := by
  unfold fromConvexPolylineUnmodified at h
  split at h
  · cases h
  · rename_i hsz
    split at h
    · cases h
    · rename_i normals hnm
      simp only [Option.some.injEq, Prod.mk.injEq] at h
      obtain ⟨rfl, rfl⟩ := h
      have := polylineNormals_size points _ _ _ hnm
      refine ⟨rfl, by omega, by simpa using this⟩

/-- `from_convex_polyline_unmodified` fails only for fewer than three points or an edge without a unit normal -/
theorem fromConvexPolylineUnmodified_none (points : Array (V2 K)) (h : fromConvexPolylineUnmodified points = none) :
    points.size ≤ 2 ∨
      ∃ i, i < points.size ∧ C10.ccwFaceNormal2 (pt points i) (pt points ((i + 1) % points.size)) = none := by
  unfold fromConvexPolylineUnmodified at h
  split at h
  · left; assumption
  · right
    split at h
    · rename_i hnm
      exact polylineNormals_none points _ _ (le_refl _) hnm
    · cases h

end prune

end C16
