import ParryModel.Field
import ParryModel.C15.Theorems
import ParryModel.C16.Model
import ParryModel.C16.Lemmas
import ParryModel.C16.LemmasHM
import ParryModel.C16.Theorems5
import ParryModel.C16.Theorems12
/-! # C16, fu5: `decompose_trimesh` through the whole pipeline — the only `None` is the triangulation's

* `hm_piece_edge_is_triangle_edge`: two cyclically consecutive entries of a Hertel–Mehlhorn piece are the end points of a
  directed edge of some input triangle (every input);
* `decompose_trimesh_isSome_of_separated`: if the three indices of every input triangle are distinct and `< n`, and any two
  vertices with different indices are farther apart than `ε = f64::EPSILON`, then `decompose_trimesh` returns a compound —
  however thin the pieces are (needles), whatever tiny-but-representable edges (chamfers) the polygon has;
* `polygon_decompose_isSome` (in `Theorems.lean`): end to end: for a vertex buffer whose points are pairwise farther apart than `ε`, a `Some`
  answer of ear clipping is always followed by a `Some` answer of `decompose_trimesh` — the pipeline
  `TriMesh::from_polygon` → `Compound::decompose_trimesh` fails only where the triangulation itself fails.
-/
namespace C16
open Model Model.C15 Model.C16 C15

/-- consecutive entries of a cycle form one of its directed edges -/
theorem getD_pair_mem_polyEdges (piece : Array Nat) (i : Nat) (hi : i < piece.size) :
    (piece.getD i 0, piece.getD ((i + 1) % piece.size) 0) ∈ polyEdges piece.toList := by
  rw [polyEdges_eq_zip_rotate]
  have hmod : (i + 1) % piece.size < piece.size := Nat.mod_lt _ (by omega)
  apply List.mem_iff_getElem.mpr
  refine ⟨i, by simp [hi], ?_⟩
  simp [List.getElem_rotate, Array.getD_eq_getD_getElem?, hi, hmod]

variable {K : Type} [Field K] [LinearOrder K] [IsStrictOrderedRing K] (sq : K → K)

/-- **C16 (b), piece edges are triangle edges** — every input.  Two cyclically consecutive entries of a piece returned by
`hertel_mehlhorn_idx` are `(a, b)`, `(b, c)` or `(c, a)` of some input triangle `(a, b, c)`. -/
theorem hm_piece_edge_is_triangle_edge (pts : Array (V2 K)) (tris : Array (Nat × Nat × Nat)) :
    letI := fieldNum K sq
    ∀ piece ∈ (hertelMehlhornIdx pts tris).toList, ∀ i, i < piece.size →
      ∃ t ∈ tris.toList, (piece.getD i 0, piece.getD ((i + 1) % piece.size) 0) ∈ triEdges t := by
  letI := fieldNum K sq
  intro piece hpiece i hi
  obtain ⟨groups, hlen, hperm, hall⟩ := hm_pieces_partition sq pts tris
  obtain ⟨k, hk, rfl⟩ := List.getElem_of_mem hpiece
  have hk' : k < (hertelMehlhornIdx pts tris).size := by simpa using hk
  obtain ⟨_, _, X, hX⟩ := hall k hk' (by omega)
  have hmem := getD_pair_mem_polyEdges ((hertelMehlhornIdx pts tris)[k]) i (by simpa using hi)
  have hmem' : (((hertelMehlhornIdx pts tris)[k]).getD i 0,
      ((hertelMehlhornIdx pts tris)[k]).getD ((i + 1) % ((hertelMehlhornIdx pts tris)[k]).size) 0)
      ∈ (groups[k]'(by omega)).flatMap triEdges := by
    apply hX.subset
    exact List.mem_append_left _ hmem
  obtain ⟨t, ht, hte⟩ := List.mem_flatMap.mp hmem'
  have htg : t ∈ groups.flatten := List.mem_flatten.mpr ⟨_, List.getElem_mem _, ht⟩
  exact ⟨t, hperm.subset htg, by simpa using hte⟩

/-- **C16 (c), `decompose_trimesh` never fails on separated vertices** (corrected function).  If every input triangle has
three distinct indices `< n` and any two vertices with different indices satisfy `|p_i - p_j|² > ε²`, the result is
`Some(compound)`. -/
theorem decompose_trimesh_isSome_of_separated (pts : Array (V2 K)) (tris : Array (Nat × Nat × Nat))
    (hidx : ∀ t ∈ tris.toList, t.1 < pts.size ∧ t.2.1 < pts.size ∧ t.2.2 < pts.size ∧
        t.1 ≠ t.2.1 ∧ t.2.1 ≠ t.2.2 ∧ t.1 ≠ t.2.2)
    (hsep : letI := fieldNum K sq
      ∀ i j, i < pts.size → j < pts.size → i ≠ j →
        (C10.eps : K) * C10.eps < ((pt pts j).x - (pt pts i).x) * ((pt pts j).x - (pt pts i).x)
          + ((pt pts j).y - (pt pts i).y) * ((pt pts j).y - (pt pts i).y)) :
    letI := fieldNum K sq
    (decomposeTrimesh pts tris).isSome := by
  letI := fieldNum K sq
  apply decompose_trimesh_isSome_of_edges sq
  intro piece hpiece i hi
  obtain ⟨t, ht, hte⟩ := hm_piece_edge_is_triangle_edge sq pts tris piece hpiece i hi
  obtain ⟨h1, h2, h3, d1, d2, d3⟩ := hidx t ht
  simp only [triEdges, List.mem_cons, Prod.mk.injEq, List.mem_nil_iff, or_false] at hte
  rcases hte with ⟨ea, eb⟩ | ⟨ea, eb⟩ | ⟨ea, eb⟩
  · rw [ea, eb]; exact hsep _ _ h1 h2 d1
  · rw [ea, eb]; exact hsep _ _ h2 h3 d2
  · rw [ea, eb]; exact hsep _ _ h3 h1 (Ne.symm d3)

/-- non-vacuity (ℚ): the needle kite of aspect ratio 1:10⁶ has pairwise separated vertices; its two-triangle mesh
decomposes (one 4-vertex needle piece, kept with all its points). -/
example : (@decomposeTrimesh ℚ (fieldNum ℚ id) #[⟨0,0⟩, ⟨16,-1/65536⟩, ⟨32,0⟩, ⟨16,1/65536⟩] #[(0,1,2),(0,2,3)]).isSome := by
  apply decompose_trimesh_isSome_of_separated (K := ℚ) id
  · decide
  · have key : ∀ i : Fin 4, ∀ j : Fin 4, i ≠ j →
        (@C10.eps ℚ (fieldNum ℚ id)) * (@C10.eps ℚ (fieldNum ℚ id)) <
          ((@pt ℚ (fieldNum ℚ id) #[⟨0,0⟩, ⟨16,-1/65536⟩, ⟨32,0⟩, ⟨16,1/65536⟩] j).x
            - (@pt ℚ (fieldNum ℚ id) #[⟨0,0⟩, ⟨16,-1/65536⟩, ⟨32,0⟩, ⟨16,1/65536⟩] i).x)
          * ((@pt ℚ (fieldNum ℚ id) #[⟨0,0⟩, ⟨16,-1/65536⟩, ⟨32,0⟩, ⟨16,1/65536⟩] j).x
            - (@pt ℚ (fieldNum ℚ id) #[⟨0,0⟩, ⟨16,-1/65536⟩, ⟨32,0⟩, ⟨16,1/65536⟩] i).x)
          + ((@pt ℚ (fieldNum ℚ id) #[⟨0,0⟩, ⟨16,-1/65536⟩, ⟨32,0⟩, ⟨16,1/65536⟩] j).y
            - (@pt ℚ (fieldNum ℚ id) #[⟨0,0⟩, ⟨16,-1/65536⟩, ⟨32,0⟩, ⟨16,1/65536⟩] i).y)
          * ((@pt ℚ (fieldNum ℚ id) #[⟨0,0⟩, ⟨16,-1/65536⟩, ⟨32,0⟩, ⟨16,1/65536⟩] j).y
            - (@pt ℚ (fieldNum ℚ id) #[⟨0,0⟩, ⟨16,-1/65536⟩, ⟨32,0⟩, ⟨16,1/65536⟩] i).y) := by
      decide +kernel
    intro i j hi hj hne
    exact key ⟨i, hi⟩ ⟨j, hj⟩ (fun h => hne (by simpa using congrArg Fin.val h))

end C16
