import ParryModel.Field
import ParryModel.C16.Model
import ParryModel.C16.Lemmas
import ParryModel.C16.LemmasHM
/-!
# C16 property theorems, part 10: the fuel of the Hertel–Mehlhorn loop model is adequate.

The Rust `hertel_mehlhorn_idx` is a double `while` loop; the model `hmLoop` runs it with fuel `(2T+2)(3T+3)` for `T`
input triangles.  `hm_fuel_adequate`: with that fuel the model loop always ends through the loop's own exit condition
(`i_poly1 >= indices.len()`), never by running out of fuel — giving it any amount of extra fuel does not change the
result.  So the theorems about `hertelMehlhornIdx` are theorems about the terminating Rust loop, for every input (this
was previously "checked by the correspondence only").

Potential: `Φ = #polys · C + (Σ_{k ≥ i_poly1} (len_k + 1) − i11)` with `C = Σ_k (len_k + 1) + 1` at the start (`= 4T + 1`);
advancing `i11` or `i_poly1` lowers the second summand by one, a merge removes a polygon (and `Σ (len + 1)` drops by 3).
-/
namespace C16
open Model Model.C15 Model.C16 C15

variable {K : Type} [Num K]

/-- `Σ (len + 1)` over a list of polygons -/
def hmWeight (l : List (Array Nat)) : Nat := (l.map fun p => p.size + 1).sum

private theorem hmWeight_drop (l : List (Array Nat)) (i : Nat) (h : i < l.length) :
    hmWeight (l.drop i) = (l[i].size + 1) + hmWeight (l.drop (i + 1)) := by
  unfold hmWeight
  rw [List.drop_eq_getElem_cons h, List.map_cons, List.sum_cons]

private theorem hmWeight_drop_le (l : List (Array Nat)) (i : Nat) : hmWeight (l.drop i) ≤ hmWeight l := by
  have h2 : hmWeight l = hmWeight (l.take i) + hmWeight (l.drop i) := by
    conv_lhs => rw [← List.take_append_drop i l]
    simp [hmWeight]
  omega

private theorem ite_eq_ite {α : Type} {c : Prop} [Decidable c] {a b a' b' : α} (h1 : a = a') (h2 : b = b') :
    (if c then a else b) = (if c then a' else b') := by rw [h1, h2]

/-- **fuel independence**: once the fuel covers the potential, extra fuel does not change the result -/
theorem hmLoop_fuel_indep (pts : Array (V2 K)) (C : Nat) :
    ∀ (fuel : Nat) (polys : Array (Array Nat)) (i j extra : Nat),
      hmWeight polys.toList + 1 ≤ C →
      (i < polys.size → j ≤ (polys.getD i #[]).size) →
      polys.size * C + (hmWeight (polys.toList.drop i) - j) ≤ fuel →
      hmLoop pts (fuel + extra) polys i j = hmLoop pts fuel polys i j := by
  intro fuel
  induction fuel with
  | zero =>
    intro polys i j extra hC _ hΦ
    have hsz : polys.size = 0 := by
      rcases Nat.eq_zero_or_pos polys.size with h | h
      · exact h
      · have : C ≤ polys.size * C := Nat.le_mul_of_pos_left C h
        omega
    cases extra with
    | zero => rfl
    | succ e =>
      rw [Nat.zero_add]
      simp [hmLoop, hsz]
  | succ fuel ih =>
    intro polys i j extra hC hj0 hΦ
    have hfe : fuel + 1 + extra = (fuel + extra) + 1 := by omega
    rw [hfe]
    unfold hmLoop
    by_cases hi : i < polys.size
    · simp only [if_neg (not_not_intro hi)]
      have hil : i < polys.toList.length := by simpa using hi
      have hgi : polys.getD i #[] = polys.toList[i]'hil := by
        simp [Array.getD_eq_getD_getElem?, Array.getElem?_eq_getElem hi]
      have hdrop := hmWeight_drop polys.toList i hil
      rw [← hgi] at hdrop
      have hjle := hj0 hi
      by_cases hj : j < (polys.getD i #[]).size
      · simp only [if_neg (not_not_intro hj)]
        have hstay : hmLoop pts (fuel + extra) polys i (j + 1) = hmLoop pts fuel polys i (j + 1) :=
          ih polys i (j + 1) extra hC (fun _ => hj) (by omega)
        cases hfp : findPoly2 polys (i + 1) ((polys.getD i #[]).getD ((j + 1) % (polys.getD i #[]).size) 0)
            ((polys.getD i #[]).getD j 0) with
        | none => simp only; exact hstay
        | some r =>
          obtain ⟨i2, i21, i22⟩ := r
          simp only
          refine ite_eq_ite hstay (ite_eq_ite hstay ?_)
          obtain ⟨hfrom, hi2, hfe'⟩ := findPoly2_spec hfp
          obtain ⟨hi21, _, _, _⟩ := findEdge_spec hfe'
          set new := cycleSkipTake (polys.getD i #[]) ((j + 1) % (polys.getD i #[]).size) ((polys.getD i #[]).size - 1) ++
            cycleSkipTake (polys.getD i2 #[]) i22 ((polys.getD i2 #[]).size - 1) with hnew
          have hi2l : i2 < polys.toList.length := by simpa using hi2
          have hgi2 : polys.getD i2 #[] = polys.toList[i2]'hi2l := by
            simp [Array.getD_eq_getD_getElem?, Array.getElem?_eq_getElem hi2]
          have hnsz : new.size = ((polys.getD i #[]).size - 1) + ((polys.getD i2 #[]).size - 1) := by
            simp [hnew, cycleSkipTake]
          have hlist : ((polys.eraseIdxIfInBounds i2).setIfInBounds i new).toList =
              (polys.toList.eraseIdx i2).set i new := by
            simp [Array.eraseIdxIfInBounds, hi2]
          have hsz' : ((polys.eraseIdxIfInBounds i2).setIfInBounds i new).size = polys.size - 1 := by
            simp [Array.eraseIdxIfInBounds, hi2]
          have hlen : i < (polys.toList.eraseIdx i2).length := by
            rw [List.length_eraseIdx_of_lt hi2l]; simp; omega
          have hget : (polys.toList.eraseIdx i2)[i]'hlen = polys.toList[i]'hil := by
            rw [List.getElem_eraseIdx_of_lt]; omega
          have hW1 := sum_map_set_add (fun p : Array Nat => p.size + 1) (polys.toList.eraseIdx i2) i new hlen
          have hW2 := sum_map_eraseIdx_add (fun p : Array Nat => p.size + 1) polys.toList i2 hi2l
          rw [hget, ← hgi] at hW1
          rw [← hgi2] at hW2
          have hW' : hmWeight ((polys.toList.eraseIdx i2).set i new) ≤ hmWeight polys.toList := by
            unfold hmWeight; omega
          apply ih
          · rw [hlist]; omega
          · exact fun _ => Nat.zero_le _
          · rw [hsz', hlist]
            have hle := hmWeight_drop_le ((polys.toList.eraseIdx i2).set i new) i
            have hmul : polys.size * C = (polys.size - 1) * C + C := by
              obtain ⟨m, hm⟩ := Nat.exists_eq_succ_of_ne_zero (by omega : polys.size ≠ 0)
              rw [hm]; simp [Nat.succ_mul]
            omega
      · simp only [if_pos hj]
        exact ih polys (i + 1) 0 extra hC (fun _ => Nat.zero_le _) (by
          have : j = (polys.getD i #[]).size := by omega
          have hle := hmWeight_drop_le polys.toList (i + 1)
          omega)
    · simp only [if_pos hi]

private theorem hmWeight_tris (l : List (Nat × Nat × Nat)) :
    hmWeight (l.map fun t => #[t.1, t.2.1, t.2.2]) = 4 * l.length := by
  induction l with
  | nil => simp [hmWeight]
  | cons a t ih =>
    have hc : ∀ (x : Array Nat) (l : List (Array Nat)), hmWeight (x :: l) = (x.size + 1) + hmWeight l := by
      intro x l; simp [hmWeight]
    rw [List.map_cons, hc, ih]
    simp only [List.length_cons]
    have : (#[a.1, a.2.1, a.2.2] : Array Nat).size = 3 := rfl
    omega

/-- **C16, the Hertel–Mehlhorn loop terminates within the model's fuel — every input.**  Running the loop with any amount
of extra fuel gives the same result as `hertelMehlhornIdx` (fuel `(2T+2)(3T+3)`): the model never stops because the fuel
ran out, only through the loop's own exit condition. -/
theorem hm_fuel_adequate (pts : Array (V2 K)) (tris : Array (Nat × Nat × Nat)) (extra : Nat) :
    hmLoop pts ((2 * tris.size + 2) * (3 * tris.size + 3) + extra) (tris.map fun t => #[t.1, t.2.1, t.2.2]) 0 0 =
      hertelMehlhornIdx pts tris := by
  unfold hertelMehlhornIdx
  simp only
  have hw : hmWeight (tris.map fun t => #[t.1, t.2.1, t.2.2]).toList = 4 * tris.size := by
    rw [Array.toList_map, hmWeight_tris]; simp
  apply hmLoop_fuel_indep pts (4 * tris.size + 1)
  · rw [hw]
  · intro _; exact Nat.zero_le _
  · rw [List.drop_zero, hw, Array.size_map, Nat.sub_zero]
    have : tris.size * (4 * tris.size + 1) + 4 * tris.size ≤ (2 * tris.size + 2) * (3 * tris.size + 3) := by
      nlinarith [Nat.zero_le tris.size, Nat.zero_le (tris.size * tris.size)]
    exact this

end C16
