import ParryModel.Field
import ParryModel.C16.Model
import ParryModel.C16.LemmasHM
/-! # C16, fu5: the normals of a shape built by `from_convex_polyline_unmodified` (the fallback of `decompose_trimesh`)

* `polylineNormals_get` (lawless `Num`): the `i`-th normal of the buffer is `ccw_face_normal([points[i], points[(i+1) % n]])`;
* `ccwFaceNormal2_spec`: a `Some(n)` answer of the 2-D `ccw_face_normal(a, b)` is a unit vector orthogonal to `b - a` pointing to
  the right of `a → b` (outward for a counter-clockwise polygon);
* `unmodified_normals_spec`: every normal of a `from_convex_polyline_unmodified` polygon is the unit outward normal of its edge.
-/
namespace C16
open Model Model.C15 Model.C16 C15

section generic
variable {K : Type} [Num K]

/-- the normal loop writes `ccw_face_normal` of edge `i` at position `i` (and keeps what is already in the buffer) -/
theorem polylineNormals_get (points : Array (V2 K)) :
    ∀ (k : Nat) (acc out : Array (V2 K)), k ≤ points.size → acc.size = points.size - k →
      polylineNormals points k acc = some out →
      (∀ j, j < acc.size → out[j]? = acc[j]?) ∧
      ∀ i, points.size - k ≤ i → i < points.size →
        C10.ccwFaceNormal2 (pt points i) (pt points ((i + 1) % points.size)) = some (pt out i) := by
  intro k
  induction k with
  | zero =>
    intro acc out _ _ h
    simp [polylineNormals] at h
    subst h
    exact ⟨fun _ _ => rfl, fun i h1 h2 => by omega⟩
  | succ k ih =>
    intro acc out hk hacc h
    unfold polylineNormals at h
    simp only at h
    split at h
    · cases h
    · rename_i nrm hn
      obtain ⟨hkeep, hnew⟩ := ih (acc.push nrm) out (by omega) (by rw [Array.size_push]; omega) h
      refine ⟨?_, ?_⟩
      · intro j hj
        rw [hkeep j (by rw [Array.size_push]; omega)]
        simp [Array.getElem?_push, hj, Nat.ne_of_lt hj]
      · intro i h1 h2
        by_cases hi : i = points.size - (k + 1)
        · subst hi
          have := hkeep (points.size - (k + 1)) (by rw [Array.size_push]; omega)
          rw [hn]
          congr 1
          have e : (acc.push nrm)[points.size - (k + 1)]? = some nrm := by
            rw [← hacc]; simp
          rw [e] at this
          simp [pt, Array.getD_eq_getD_getElem?, this]
        · exact hnew i (by omega) h2

end generic

variable {K : Type} [Field K] [LinearOrder K] [IsStrictOrderedRing K] (sq : K → K)

/-- **2-D `ccw_face_normal`**: a `Some(n)` answer is a unit vector, orthogonal to the edge `b - a`, pointing to the right of
`a → b` (outward for a counter-clockwise polygon). -/
theorem ccwFaceNormal2_spec (hs : LawfulSqrt sq) (a b n : V2 K) :
    letI := fieldNum K sq
    C10.ccwFaceNormal2 a b = some n →
    n.x * n.x + n.y * n.y = 1 ∧ n.x * (b.x - a.x) + n.y * (b.y - a.y) = 0 ∧
      (b.x - a.x) * n.y - (b.y - a.y) * n.x < 0 := by
  letI := fieldNum K sq
  intro h
  unfold C10.ccwFaceNormal2 C10.tryNew2 at h
  simp only at h
  have key : (⟨(b.sub a).y, -(b.sub a).x⟩ : V2 K).normSq
      = (b.x - a.x) * (b.x - a.x) + (b.y - a.y) * (b.y - a.y) := by
    simp only [V2.normSq, V2.dot, V2.sub]; ring
  rw [key] at h
  split at h
  · rename_i hlt
    set D := (b.x - a.x) * (b.x - a.x) + (b.y - a.y) * (b.y - a.y) with hD
    have hD0 : 0 < D := lt_of_le_of_lt (mul_self_nonneg _) hlt
    have hL0 : 0 ≤ sq D := hs.nonneg D hD0.le
    have hLL : sq D * sq D = D := hs.sq_mul D hD0.le
    have hLpos : 0 < sq D := by
      rcases hL0.lt_or_eq with h1 | h1
      · exact h1
      · rw [← h1] at hLL; simp at hLL; linarith
    simp only [Option.some.injEq] at h
    subst h
    simp only [V2.sdiv, V2.sub, fieldNum_sqrt]
    have hne : sq D ≠ 0 := ne_of_gt hLpos
    refine ⟨?_, ?_, ?_⟩
    · field_simp
      nlinarith [hLL]
    · field_simp
      ring
    · have : (b.x - a.x) * (-(b.x - a.x) / sq D) - (b.y - a.y) * ((b.y - a.y) / sq D) = -(D / sq D) := by
        field_simp
        ring
      rw [this]
      have : 0 < D / sq D := div_pos hD0 hLpos
      linarith
  · cases h

/-- **C16 (c), normals of the fallback shape**: every normal of a polygon built by `from_convex_polyline_unmodified` — the
path `decompose_trimesh` takes for a needle piece — is the unit outward normal of the edge leaving its vertex. -/
theorem unmodified_normals_spec (hs : LawfulSqrt sq) (points rp rn : Array (V2 K)) :
    letI := fieldNum K sq
    fromConvexPolylineUnmodified points = some (rp, rn) →
    rp = points ∧ rn.size = points.size ∧ ∀ i, i < points.size →
      (let a := pt points i; let b := pt points ((i + 1) % points.size); let n := pt rn i
       n.x * n.x + n.y * n.y = 1 ∧ n.x * (b.x - a.x) + n.y * (b.y - a.y) = 0 ∧
         (b.x - a.x) * n.y - (b.y - a.y) * n.x < 0) := by
  letI := fieldNum K sq
  intro h
  obtain ⟨e1, _, e3⟩ := fromConvexPolylineUnmodified_spec points rp rn h
  subst e1
  refine ⟨rfl, e3, ?_⟩
  intro i hi
  unfold fromConvexPolylineUnmodified at h
  split at h
  · cases h
  · split at h
    · cases h
    · rename_i normals hnm
      simp only [Option.some.injEq, Prod.mk.injEq] at h
      obtain ⟨_, rfl⟩ := h
      have := (polylineNormals_get rp rp.size #[] normals (le_refl _) (by simp) hnm).2 i (by omega) hi
      exact ccwFaceNormal2_spec sq hs _ _ _ this

end C16
