import ParryModel.C16.Lemmas
/-! C16 structural lemmas, second part: the ear-clipping state machine with the *full* ear test as invariant
(generic over the lawless `Num`).  `Lemmas.lean` carries "every flagged ear is a counter-clockwise corner"; here the
invariant is any predicate `Q prev i next` that `update_vertex` establishes whenever it sets `is_ear = true`
(instantiated in `Theorems2.lean` with "counter-clockwise and every other input vertex is reported outside"). -/
namespace C16
open Model Model.C15 Model.C16 C15

variable {K : Type} [Num K]

/-- what `noPointInside` (the `.all(..)` over the other vertices) has verified when it returns `true` -/
def EarEmpty (pts : Array (V2 K)) (u e w : Nat) : Prop :=
  ∀ j, j < pts.size → j ≠ u → j ≠ e → j ≠ w →
    isPointInTriangle (pt pts j) (pt pts u) (pt pts e) (pt pts w) = .some false

theorem noPointInside_spec (pts : Array (V2 K)) (prev idx next : Nat) (p1 p p3 : V2 K) :
    ∀ k, k ≤ pts.size → (noPointInside pts prev idx next p1 p p3 k).1 = true →
      ∀ j, pts.size - k ≤ j → j < pts.size → j ≠ prev → j ≠ idx → j ≠ next →
        isPointInTriangle (pt pts j) p1 p p3 = .some false := by
  intro k
  induction k with
  | zero => intro _ _ j h1 h2; omega
  | succ k ih =>
    intro hk h j h1 h2 hp hi hn
    unfold noPointInside at h
    simp only at h
    by_cases hc : pts.size - (k + 1) = prev ∨ pts.size - (k + 1) = idx ∨ pts.size - (k + 1) = next
    · rw [if_pos hc] at h
      by_cases hj : j = pts.size - (k + 1)
      · subst hj; rcases hc with hc | hc | hc
        · exact absurd hc hp
        · exact absurd hc hi
        · exact absurd hc hn
      · exact ih (by omega) h j (by omega) h2 hp hi hn
    · rw [if_neg hc] at h
      cases hpt : isPointInTriangle (pt pts (pts.size - (k + 1))) p1 p p3 with
      | some b =>
        cases b with
        | true => simp [hpt] at h
        | false =>
          simp only [hpt] at h
          by_cases hj : j = pts.size - (k + 1)
          · subst hj; exact hpt
          · exact ih (by omega) h j (by omega) h2 hp hi hn
      | invalid => simp [hpt] at h
      | panic => simp [hpt] at h

/-- `update_vertex` sets `is_ear` only after the corner test *and* the emptiness test succeeded -/
theorem updateVertex_ear (pts : Array (V2 K)) (idx : Nat) (vi : VInfo K)
    (he : (updateVertex pts idx vi).1.ear = true) (hok : (updateVertex pts idx vi).2 = true) :
    cornerDirection (pt pts vi.prev) (pt pts idx) (pt pts vi.next) = .ccw ∧ EarEmpty pts vi.prev idx vi.next := by
  unfold updateVertex at he hok
  simp only at he hok
  split_ifs at he hok with h1 h2
  · refine ⟨h2, ?_⟩
    intro j hj hu hee hw
    exact noPointInside_spec pts vi.prev idx vi.next _ _ _ pts.size (Nat.le_refl _) he j (by omega) hj hu hee hw

/-! ## the loop invariant with an arbitrary ear predicate `Q` -/

/-- every flagged ear satisfies `Q` with respect to the *current* links -/
def EarOKQ (Q : Nat → Nat → Nat → Prop) (info : Array (VInfo K)) (cyc : List Nat) : Prop :=
  ∀ i ∈ cyc, (info.getD i default).ear = true → Q (info.getD i default).prev i (info.getD i default).next

/-- `update_vertex` establishes `Q` whenever it flags an ear (and did not fail) -/
def UpdQ (pts : Array (V2 K)) (Q : Nat → Nat → Nat → Prop) : Prop :=
  ∀ idx (vi : VInfo K), (updateVertex pts idx vi).1.ear = true → (updateVertex pts idx vi).2 = true →
    Q vi.prev idx vi.next

def EntryOKQ (pts : Array (V2 K)) (Q : Nat → Nat → Nat → Prop) (info : Array (VInfo K)) (j : Nat) : Prop :=
  (info.getD j default).active = true ∧
  (info.getD j default).prev = (if j = 0 then pts.size - 1 else j - 1) ∧
  (info.getD j default).next = (if j = pts.size - 1 then 0 else j + 1) ∧
  ((info.getD j default).ear = true → Q (info.getD j default).prev j (info.getD j default).next)

theorem initInfos_specQ (pts : Array (V2 K)) (Q : Nat → Nat → Nat → Prop) (hQ : UpdQ pts Q) (k : Nat)
    (acc info : Array (VInfo K))
    (hacc : acc.size + k = pts.size) (hprev : ∀ j, j < acc.size → EntryOKQ pts Q acc j)
    (h : initInfos pts k acc = some info) : info.size = pts.size ∧ ∀ j, j < pts.size → EntryOKQ pts Q info j := by
  induction k generalizing acc with
  | zero =>
    simp only [initInfos, Option.some.injEq] at h
    subst h
    exact ⟨by omega, fun j hj => hprev j (by omega)⟩
  | succ k ih =>
    have hi : pts.size - (k + 1) = acc.size := by omega
    unfold initInfos at h
    simp only [hi] at h
    by_cases hok : (updateVertex pts acc.size (initVInfo pts.size acc.size)).2 = true
    · rw [if_pos hok] at h
      refine ih _ (by simp; omega) ?_ h
      intro j hj
      have hf := updateVertex_fields pts acc.size (initVInfo pts.size acc.size)
      by_cases hjl : j < acc.size
      · have : (acc.push (updateVertex pts acc.size (initVInfo pts.size acc.size)).1).getD j default
            = acc.getD j default := by
          simp [Array.getD_eq_getD_getElem?, Array.getElem?_push, Nat.ne_of_lt hjl]
        unfold EntryOKQ; rw [this]; exact hprev j hjl
      · have hje : j = acc.size := by simp at hj; omega
        subst hje
        have : (acc.push (updateVertex pts acc.size (initVInfo pts.size acc.size)).1).getD acc.size default
            = (updateVertex pts acc.size (initVInfo pts.size acc.size)).1 := by
          simp [Array.getD_eq_getD_getElem?]
        unfold EntryOKQ; rw [this]
        refine ⟨hf.1, hf.2.1, hf.2.2.1, fun he => ?_⟩
        rw [hf.2.1, hf.2.2.1]
        exact hQ _ _ he hok
    · rw [if_neg hok] at h; cases h

theorem inv_of_initQ (pts : Array (V2 K)) (Q : Nat → Nat → Nat → Prop) (info : Array (VInfo K)) (hn : 0 < pts.size)
    (hs : info.size = pts.size) (h : ∀ j, j < pts.size → EntryOKQ pts Q info j) :
    Inv pts.size info (List.range pts.size) ∧ EarOKQ Q info (List.range pts.size) := by
  constructor
  · refine ⟨hs, List.nodup_range, fun i hi => List.mem_range.mp hi, fun i hi => ?_, fun p hp => ?_⟩
    · rw [(h i hi).1]; simp [hi]
    · obtain ⟨h1, h2⟩ := mem_polyEdges_range hp
      have hlt : (p.1 + 1) % pts.size < pts.size := Nat.mod_lt _ hn
      rw [h2, (h p.1 h1).2.2.1, (h _ hlt).2.1]
      by_cases hc : p.1 = pts.size - 1
      · have : (p.1 + 1) % pts.size = 0 := by
          rw [hc]; have : pts.size - 1 + 1 = pts.size := by omega
          rw [this]; exact Nat.mod_self _
        rw [if_pos hc, this]; simp; omega
      · have hm : (p.1 + 1) % pts.size = p.1 + 1 := Nat.mod_eq_of_lt (by omega)
        rw [if_neg hc, hm]; simp
  · intro i hi; exact (h i (List.mem_range.mp hi)).2.2.2

theorem clipLoop_specQ (pts : Array (V2 K)) (Q : Nat → Nat → Nat → Prop) (hQ : UpdQ pts Q) :
    ∀ (fuel i : Nat) (info : Array (VInfo K)) (out : Array (Nat × Nat × Nat)) (cyc : List Nat)
      (info' : Array (VInfo K)) (out' : Array (Nat × Nat × Nat)),
      Inv pts.size info cyc → EarOKQ Q info cyc → cyc.length = fuel + 3 → i + fuel + 3 = pts.size →
      clipLoop pts i fuel info out = some (info', out') →
      ∃ (cyc' : List Nat) (ts : List (Nat × Nat × Nat)), Inv pts.size info' cyc' ∧ cyc'.length = 3 ∧
        out' = out ++ ts.toArray ∧
        (∀ t ∈ ts, Q t.1 t.2.1 t.2.2) ∧
        (∀ fin, ClipSeq cyc' fin → ClipSeq cyc (ts ++ fin)) := by
  intro fuel
  induction fuel with
  | zero =>
    intro i info out cyc info' out' hInv _ hlen _ h
    simp only [clipLoop, Option.some.injEq, Prod.mk.injEq] at h
    obtain ⟨rfl, rfl⟩ := h
    exact ⟨cyc, [], hInv, by simpa using hlen, by simp, by simp, fun fin hf => by simpa using hf⟩
  | succ fuel ih =>
    intro i info out cyc info' out' hInv hEar hlen hi h
    unfold clipLoop at h
    cases hp : pickEar info with
    | none => simp [hp] at h
    | some e =>
      simp only [hp] at h
      obtain ⟨he_lt, he_act, he_ear⟩ := pickEar_spec info e hp
      have he_n : e < pts.size := by rw [← hInv.size]; exact he_lt
      have he_mem : e ∈ cyc := (hInv.act e he_n).mp he_act
      obtain ⟨k, rest, hrot⟩ := exists_rotate_head he_mem
      have hrl : rest.length = fuel + 3 := by
        have := congrArg List.length hrot
        simp only [List.length_rotate, List.length_cons] at this
        omega
      obtain ⟨w, mid, u, rfl⟩ := exists_ends (l := rest) (by omega)
      have hInvR := hInv.rotate k
      rw [hrot] at hInvR
      obtain ⟨hprev, hnext, heu, hew, huw, hInv1, hunch⟩ := unlink_inv hInvR
      have hccw := hEar e he_mem he_ear
      rw [hprev, hnext] at hccw
      rw [hprev, hnext] at h
      have hmem_rest : ∀ j, j ∈ w :: (mid ++ [u]) → j ∈ cyc := fun j hj =>
        List.mem_rotate.mp (by rw [hrot]; exact List.mem_cons_of_mem _ hj)
      have he_notin : e ∉ w :: (mid ++ [u]) := (List.nodup_cons.mp hInvR.nodup).1
      by_cases hi4 : i = pts.size - 4
      · rw [if_pos hi4] at h
        simp only [Option.some.injEq, Prod.mk.injEq] at h
        obtain ⟨rfl, rfl⟩ := h
        have hf0 : fuel = 0 := by omega
        subst hf0
        refine ⟨w :: (mid ++ [u]), [(u, e, w)], hInv1, hrl, by simp, ?_, ?_⟩
        · intro t ht; simp only [List.mem_singleton] at ht; subst ht; exact hccw
        · intro fin hf; exact ClipSeq.step hrot hf
      · rw [if_neg hi4] at h
        set info1 := unlink info e with hinfo1
        set r1 := updateVertex pts u (info1.getD u default) with hr1
        set info2 := info1.setIfInBounds u r1.1 with hinfo2
        by_cases hok1 : r1.2 = true
        · simp only [hok1, Bool.not_true, Bool.false_eq_true, if_false] at h
          set r2 := updateVertex pts w (info2.getD w default) with hr2
          set info3 := info2.setIfInBounds w r2.1 with hinfo3
          by_cases hok2 : r2.2 = true
          · simp only [hok2, Bool.not_true, Bool.false_eq_true, if_false] at h
            have hf1 := updateVertex_fields pts u (info1.getD u default)
            have hf2 := updateVertex_fields pts w (info2.getD w default)
            have hq1 := hQ u (info1.getD u default)
            have hq2 := hQ w (info2.getD w default)
            rw [← hr1] at hf1 hq1; rw [← hr2] at hf2 hq2
            have hInv2 : Inv pts.size info2 (w :: (mid ++ [u])) := hInv1.set u r1.1 hf1.1 hf1.2.1 hf1.2.2.1
            have hInv3 : Inv pts.size info3 (w :: (mid ++ [u])) := hInv2.set w r2.1 hf2.1 hf2.2.1 hf2.2.2.1
            have hu_lt : u < info1.size := by rw [hInv1.size]; exact hInv1.lt u (by simp)
            have hw_lt : w < info2.size := by rw [hInv2.size]; exact hInv2.lt w (by simp)
            have hEar3 : EarOKQ Q info3 (w :: (mid ++ [u])) := by
              intro j hj hje
              by_cases hjw : j = w
              · subst hjw
                have hget : info3.getD j default = r2.1 := getD_set_self _ _ _ _ hw_lt
                rw [hget] at hje ⊢
                rw [hf2.2.1, hf2.2.2.1]
                exact hq2 hje hok2
              · have hget3 : info3.getD j default = info2.getD j default := getD_set_ne _ _ _ _ _ (Ne.symm hjw)
                rw [hget3] at hje ⊢
                by_cases hju : j = u
                · subst hju
                  have hget : info2.getD j default = r1.1 := getD_set_self _ _ _ _ hu_lt
                  rw [hget] at hje ⊢
                  rw [hf1.2.1, hf1.2.2.1]
                  exact hq1 hje hok1
                · have hget2 : info2.getD j default = info1.getD j default := getD_set_ne _ _ _ _ _ (Ne.symm hju)
                  have hje' : j ≠ e := fun hh => he_notin (hh ▸ hj)
                  have hget1 : info1.getD j default = info.getD j default := hunch j hje' hju hjw
                  rw [hget2, hget1] at hje ⊢
                  exact hEar j (hmem_rest j hj) hje
            obtain ⟨cyc', ts, hI, hl3, hout, hcc, hclip⟩ :=
              ih (i + 1) info3 (out.push (u, e, w)) (w :: (mid ++ [u])) info' out' hInv3 hEar3 hrl (by omega) h
            refine ⟨cyc', (u, e, w) :: ts, hI, hl3, by rw [hout]; simp, ?_, ?_⟩
            · intro t ht
              rcases List.mem_cons.mp ht with rfl | ht
              · exact hccw
              · exact hcc t ht
            · intro fin hf; exact ClipSeq.step hrot (hclip fin hf)
          · simp [hok2] at h
        · simp [hok1] at h

/-- **structure of the output with the full ear test**: `out = ts ++ [last]`, a clipping sequence of the cycle
`0 … n-1`; every triangle of `ts` satisfies `Q` (it was a flagged ear when it was clipped) and `last`, the final
triangle, is counter-clockwise (the only test the code applies to it). -/
theorem triangulate_clipseqQ (pts : Array (V2 K)) (Q : Nat → Nat → Nat → Prop) (hQ : UpdQ pts Q)
    (out : Array (Nat × Nat × Nat)) (h : triangulateEarClipping pts = some out) :
    ∃ (ts : List (Nat × Nat × Nat)) (last : Nat × Nat × Nat), out.toList = ts ++ [last] ∧
      ClipSeq (List.range pts.size) (ts ++ [last]) ∧ (∀ t ∈ ts, Q t.1 t.2.1 t.2.2) ∧
      cornerDirection (pt pts last.1) (pt pts last.2.1) (pt pts last.2.2) = .ccw := by
  unfold triangulateEarClipping at h
  simp only at h
  by_cases hn : pts.size < 3
  · simp [hn] at h
  · rw [if_neg hn] at h
    cases hinit : initInfos pts pts.size #[] with
    | none => simp [hinit] at h
    | some info =>
      simp only [hinit] at h
      obtain ⟨hsize, hentries⟩ := initInfos_specQ pts Q hQ pts.size #[] info (by simp) (by intro j hj; simp at hj) hinit
      obtain ⟨hInv, hEar⟩ := inv_of_initQ pts Q info (by omega) hsize hentries
      cases hloop : clipLoop pts 0 (pts.size - 3) info #[] with
      | none => simp [hloop] at h
      | some r =>
        obtain ⟨info', out1⟩ := r
        simp only [hloop] at h
        obtain ⟨cyc', ts, hI, hl3, hout, hcc, hclip⟩ :=
          clipLoop_specQ pts Q hQ (pts.size - 3) 0 info #[] (List.range pts.size) info' out1 hInv hEar
            (by simp; omega) (by omega) hloop
        cases hfa : firstActive info' with
        | none =>
          exfalso
          unfold firstActive at hfa
          rw [List.find?_eq_none] at hfa
          obtain ⟨x, xs, hx⟩ := List.exists_cons_of_ne_nil (l := cyc') (by intro hh; rw [hh] at hl3; simp at hl3)
          have hxm : x ∈ cyc' := by rw [hx]; simp
          have hxl := hI.lt x hxm
          exact hfa x (List.mem_range.mpr (by rw [hI.size]; exact hxl)) ((hI.act x hxl).mpr hxm)
        | some i =>
          simp only [hfa] at h
          obtain ⟨hi_lt, hi_act⟩ := firstActive_spec info' i hfa
          have hi_n : i < pts.size := by rw [← hI.size]; exact hi_lt
          have hi_mem : i ∈ cyc' := (hI.act i hi_n).mp hi_act
          obtain ⟨k, rest, hrot⟩ := exists_rotate_head hi_mem
          have hrl : rest.length = 2 := by
            have := congrArg List.length hrot
            simp only [List.length_rotate, List.length_cons] at this
            omega
          obtain ⟨w, mid, u, rfl⟩ := exists_ends (l := rest) (by omega)
          have hmid : mid = [] := by
            simp only [List.length_cons, List.length_append, List.length_nil] at hrl
            exact List.eq_nil_of_length_eq_zero (by omega)
          subst hmid
          simp only [List.nil_append] at hrot
          have hIR := hI.rotate k
          rw [hrot] at hIR
          have hl1 := hIR.link (i, w) (by simp [polyEdges])
          have hl2 := hIR.link (u, i) (by simp [polyEdges])
          simp only at hl1 hl2
          rw [hl1.1, hl2.2] at h
          split at h
          · rename_i hccw
            simp only [Option.some.injEq] at h
            subst h
            have hlist : (out1.push (u, i, w)).toList = ts ++ [(u, i, w)] := by rw [hout]; simp
            exact ⟨ts, (u, i, w), hlist, hclip _ (ClipSeq.last hrot), hcc, hccw⟩
          · cases h

end C16
