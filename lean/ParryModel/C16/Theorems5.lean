import ParryModel.Field
import ParryModel.C15.Theorems
import ParryModel.C16.Model
import ParryModel.C16.Lemmas
import ParryModel.C16.LemmasHM
import ParryModel.C16.Geometry
/-!
# C16 property theorems, part 5: Hertel–Mehlhorn — the pieces partition the triangles, a merge only removes a shared
diagonal, every piece is counter-clockwise and locally convex; `Compound::decompose_trimesh` inherits this.

For every input (any triangle list, any fuel):
* `hm_pieces_partition`: the output pieces correspond one-to-one to *groups* of input triangles; the groups partition
  the triangle list (every input triangle is in exactly one group); each piece is the boundary of its group glued along
  shared diagonals: the directed edges of the group's triangles are the piece's edges plus pairs of opposite edges
  (`PieceOf`).  Consequently (`pieceOf_area`) the piece's signed area is the sum of its triangles' areas, and a merge
  can only ever remove an edge that the two polygons traverse in opposite directions.
* `hm_pieces_ccw`: if the input triangles are counter-clockwise, every piece has positive signed area.
* `hm_pieces_locally_convex`: if no input triangle is clockwise, no corner of any output piece is clockwise: the two
  corners created by a merge are exactly the two the code tests, all other corners are inherited.
  (Global convexity = local convexity + simplicity of the piece, a turning-number argument: **not proved**,
  `hm_pieces_convex_full`; decided by the exact oracle `isConvexCcw` on every explored case.)
-/
namespace C16
open Model Model.C15 Model.C16 C15

/-- the three directed edges of a triangle -/
def triEdges (t : Nat × Nat × Nat) : List (Nat × Nat) := [(t.1, t.2.1), (t.2.1, t.2.2), (t.2.2, t.1)]

/-- `piece` is the boundary cycle of the triangles of `group` glued along shared diagonals: the directed edges of the
triangles are the directed edges of the piece together with a list `X` of internal diagonals, each of which occurs once
in each direction -/
def PieceOf (piece : Array Nat) (group : List (Nat × Nat × Nat)) : Prop :=
  3 ≤ piece.size ∧ group ≠ [] ∧
  ∃ X : List (Nat × Nat), (polyEdges piece.toList ++ (X ++ X.map Prod.swap)).Perm (group.flatMap triEdges)

section area
variable {K : Type} [Field K]

private theorem edgeSum_swap (f : Nat → V2 K) (X : List (Nat × Nat)) : edgeSum f (X.map Prod.swap) = - edgeSum f X := by
  induction X with
  | nil => simp [edgeSum]
  | cons x X ih =>
    simp only [List.map_cons, edgeSum_cons, ih, Prod.fst_swap, Prod.snd_swap, cross]; ring

private theorem edgeSum_flatMap_tri (f : Nat → V2 K) (g : List (Nat × Nat × Nat)) :
    edgeSum f (g.flatMap triEdges) = (g.map fun t => area2 (f t.1) (f t.2.1) (f t.2.2)).sum := by
  induction g with
  | nil => simp [edgeSum]
  | cons t g ih =>
    simp only [List.flatMap_cons, edgeSum_append, ih, List.map_cons, List.sum_cons, triEdges, edgeSum_cons, edgeSum_nil,
      cross, area2]
    ring

/-- the signed area of a piece is the sum of the signed areas of its triangles, for any placement of the vertices -/
theorem pieceOf_area (f : Nat → V2 K) {piece : Array Nat} {group : List (Nat × Nat × Nat)} (h : PieceOf piece group) :
    edgeSum f (polyEdges piece.toList) = (group.map fun t => area2 (f t.1) (f t.2.1) (f t.2.2)).sum := by
  obtain ⟨_, _, X, hX⟩ := h
  have := edgeSum_perm f hX
  rw [edgeSum_append, edgeSum_append, edgeSum_swap, edgeSum_flatMap_tri] at this
  rw [← this]; ring
end area

/-- every vertex of a piece is a vertex of one of its triangles -/
theorem pieceOf_vertices {piece : Array Nat} {group : List (Nat × Nat × Nat)} (h : PieceOf piece group) :
    ∀ x ∈ piece.toList, ∃ t ∈ group, x = t.1 ∨ x = t.2.1 ∨ x = t.2.2 := by
  obtain ⟨h3, _, X, hX⟩ := h
  intro x hx
  -- `x` starts an edge of the piece
  obtain ⟨k, hk, rfl⟩ := List.mem_iff_getElem.mp hx
  have hedge : (piece.toList[k], (piece.toList.rotate 1)[k]'(by simpa using hk)) ∈ polyEdges piece.toList := by
    rw [polyEdges_eq_zip_rotate]
    have : (piece.toList.zip (piece.toList.rotate 1))[k]'(by simpa using hk) =
        (piece.toList[k], (piece.toList.rotate 1)[k]'(by simpa using hk)) := by simp
    rw [← this]; exact List.getElem_mem _
  have := hX.subset (List.mem_append_left _ hedge)
  obtain ⟨t, ht, hmem⟩ := List.mem_flatMap.mp this
  refine ⟨t, ht, ?_⟩
  simp only [triEdges, List.mem_cons, Prod.mk.injEq, List.not_mem_nil, or_false] at hmem
  rcases hmem with h | h | h
  · exact Or.inl h.1
  · exact Or.inr (Or.inl h.1)
  · exact Or.inr (Or.inr h.1)

/-- gluing two pieces along an edge they traverse in opposite directions gives the piece of the united group -/
private theorem pieceOf_merge (p1 p2 : Array Nat) (g1 g2 : List (Nat × Nat × Nat)) (j i21 : Nat)
    (h1 : PieceOf p1 g1) (h2 : PieceOf p2 g2) (hj : j < p1.size) (hi : i21 < p2.size)
    (hstart : p2.getD ((i21 + 1) % p2.size) 0 = p1.getD j 0)
    (hend : p2.getD i21 0 = p1.getD ((j + 1) % p1.size) 0) :
    PieceOf (mergedPoly p1 p2 j i21) (g1 ++ g2) := by
  obtain ⟨s1, n1, X1, hX1⟩ := h1
  obtain ⟨s2, n2, X2, hX2⟩ := h2
  obtain ⟨X', Y', Xi, Yi, hnew, hA, hB, _, _⟩ := merged_lists p1 p2 j i21 s1 s2 hj hi hstart hend
  set e := p1.getD ((j + 1) % p1.size) 0
  set s := p1.getD j 0
  set a0 := p1.getD (((j + 1) % p1.size + 1) % p1.size) 0
  set b0 := p2.getD (((i21 + 1) % p2.size + 1) % p2.size) 0
  have hglue := polyEdges_glue_perm (e :: a0 :: X') (s :: b0 :: Y') e s (by simp) (by simp) rfl rfl
  rw [← hA, ← hB, ← hnew, polyEdges_rotate, polyEdges_rotate] at hglue
  have hg1 : ((polyEdges p1.toList).rotate ((j + 1) % p1.size)).Perm (polyEdges p1.toList) := List.rotate_perm _ _
  have hg2 : ((polyEdges p2.toList).rotate ((i21 + 1) % p2.size)).Perm (polyEdges p2.toList) := List.rotate_perm _ _
  refine ⟨?_, by simp [n1], X1 ++ X2 ++ [(s, e)], ?_⟩
  · have : (mergedPoly p1 p2 j i21).size = (mergedPoly p1 p2 j i21).toList.length := by simp
    rw [this, hnew]; simp; omega
  · rw [List.perm_iff_count] at hglue hX1 hX2 hg1 hg2 ⊢
    intro x
    have a := hglue x; have b := hX1 x; have c := hX2 x; have d := hg1 x; have e' := hg2 x
    simp only [List.count_append, List.flatMap_append, List.map_append, List.map_cons, List.map_nil, List.count_cons,
      List.count_nil, Prod.swap_prod_mk] at a b c d e' ⊢
    omega

/-- the invariant of the loop: pieces paired with their groups -/
private def HMPart (tris : List (Nat × Nat × Nat)) (polys : Array (Array Nat)) : Prop :=
  ∃ pg : List (Array Nat × List (Nat × Nat × Nat)), pg.map Prod.fst = polys.toList ∧
    (∀ x ∈ pg, PieceOf x.1 x.2) ∧ ∀ t, (pg.map fun x => x.2.count t).sum = tris.count t

private theorem hmPart_step {K : Type} [Num K] (pts : Array (V2 K)) (tris : List (Nat × Nat × Nat))
    (polys : Array (Array Nat)) (i j i2 i21 : Nat) (hm : MergeAt pts polys i j i2 i21) (h : HMPart tris polys) :
    HMPart tris ((polys.eraseIdxIfInBounds i2).setIfInBounds i
      (mergedPoly (polys.getD i #[]) (polys.getD i2 #[]) j i21)) := by
  obtain ⟨pg, hfst, hpiece, hcount⟩ := h
  obtain ⟨hi, hj, hlt, hi2, hi21, hend, hstart, _, _⟩ := hm
  have hlen : pg.length = polys.size := by have := congrArg List.length hfst; simpa using this
  have hgi : polys.getD i #[] = (pg[i]'(by omega)).1 := by
    have : polys.toList[i]'(by simpa using hi) = (pg[i]'(by omega)).1 := by simp [← hfst]
    rw [← this]; simp [Array.getD_eq_getD_getElem?, Array.getElem?_eq_getElem hi]
  have hgi2 : polys.getD i2 #[] = (pg[i2]'(by omega)).1 := by
    have : polys.toList[i2]'(by simpa using hi2) = (pg[i2]'(by omega)).1 := by simp [← hfst]
    rw [← this]; simp [Array.getD_eq_getD_getElem?, Array.getElem?_eq_getElem hi2]
  set new := mergedPoly (polys.getD i #[]) (polys.getD i2 #[]) j i21 with hnew
  have hlist : ((polys.eraseIdxIfInBounds i2).setIfInBounds i new).toList = (polys.toList.eraseIdx i2).set i new := by
    simp [Array.eraseIdxIfInBounds, hi2]
  have hm1 : pg[i]'(by omega) ∈ pg := List.getElem_mem _
  have hm2 : pg[i2]'(by omega) ∈ pg := List.getElem_mem _
  have hnewpiece : PieceOf new ((pg[i]'(by omega)).2 ++ (pg[i2]'(by omega)).2) := by
    have := pieceOf_merge (polys.getD i #[]) (polys.getD i2 #[]) (pg[i]'(by omega)).2 (pg[i2]'(by omega)).2 j i21
      (by rw [hgi]; exact hpiece _ hm1) (by rw [hgi2]; exact hpiece _ hm2) hj hi21 hstart hend
    exact this
  have hel : i < (pg.eraseIdx i2).length := by rw [List.length_eraseIdx_of_lt (by omega)]; omega
  have hget : (pg.eraseIdx i2)[i]'hel = pg[i]'(by omega) := by rw [List.getElem_eraseIdx_of_lt]; omega
  refine ⟨(pg.eraseIdx i2).set i (new, (pg[i]'(by omega)).2 ++ (pg[i2]'(by omega)).2), ?_, ?_, ?_⟩
  · rw [hlist, List.map_set, ← hfst]
    congr 1
    exact (map_eraseIdx' _ _ _).symm
  · intro x hx
    rcases List.mem_or_eq_of_mem_set hx with hx | rfl
    · exact hpiece x (List.mem_of_mem_eraseIdx hx)
    · exact hnewpiece
  · intro t
    have e1 := sum_map_set_add (fun x : Array Nat × List (Nat × Nat × Nat) => x.2.count t) (pg.eraseIdx i2) i
      (new, (pg[i]'(by omega)).2 ++ (pg[i2]'(by omega)).2) hel
    have e2 := sum_map_eraseIdx_add (fun x : Array Nat × List (Nat × Nat × Nat) => x.2.count t) pg i2 (by omega)
    rw [hget] at e1
    simp only [List.count_append] at e1
    have := hcount t
    omega

variable {K : Type} [Field K] [LinearOrder K] [IsStrictOrderedRing K] (sq : K → K)

/-- **C16 (c), Hertel–Mehlhorn partitions the triangles — every input** (any triangle list, any fuel).  The output
pieces correspond to groups of input triangles: `groups.length = pieces.len()`, the concatenation of the groups is a
permutation of the input triangle list (each triangle in exactly one piece), and piece `k` is the boundary of group `k`
glued along shared diagonals (`PieceOf`: only edges traversed in opposite directions by two members are removed). -/
theorem hm_pieces_partition (pts : Array (V2 K)) (tris : Array (Nat × Nat × Nat)) :
    letI := fieldNum K sq
    ∃ groups : List (List (Nat × Nat × Nat)),
      groups.length = (hertelMehlhornIdx pts tris).size ∧ groups.flatten.Perm tris.toList ∧
      ∀ k (hk : k < (hertelMehlhornIdx pts tris).size) (hk' : k < groups.length),
        PieceOf (hertelMehlhornIdx pts tris)[k] groups[k] := by
  have hinit : HMPart tris.toList (tris.map fun t => #[t.1, t.2.1, t.2.2]) := by
    refine ⟨tris.toList.map fun t => (#[t.1, t.2.1, t.2.2], [t]), ?_, ?_, ?_⟩
    · simp [List.map_map, Function.comp_def]
    · intro x hx
      obtain ⟨t, _, rfl⟩ := List.mem_map.mp hx
      refine ⟨by simp, by simp, [], ?_⟩
      simp [polyEdges, triEdges]
    · intro t
      rw [List.map_map]
      induction tris.toList with
      | nil => simp
      | cons a l ih =>
        simp only [List.map_cons, List.sum_cons, Function.comp, List.count_cons, List.count_nil, ih]
        omega
  have hfin := @hmLoop_induct K (fieldNum K sq) pts (HMPart tris.toList)
    (fun polys i j i2 i21 hm h => @hmPart_step K (fieldNum K sq) pts tris.toList polys i j i2 i21 hm h)
    ((2 * tris.size + 2) * (3 * tris.size + 3)) _ 0 0 hinit
  obtain ⟨pg, hfst, hpiece, hcount⟩ := hfin
  have hlen : pg.length = (@hertelMehlhornIdx K (fieldNum K sq) pts tris).size := by
    have := congrArg List.length hfst
    simpa [hertelMehlhornIdx] using this
  refine ⟨pg.map Prod.snd, by simpa using hlen, ?_, ?_⟩
  · rw [List.perm_iff_count]
    intro t
    rw [List.count_flatten, List.map_map, ← hcount t]
    rfl
  · intro k hk hk'
    have hk2 : k < pg.length := by omega
    have h1 : (@hertelMehlhornIdx K (fieldNum K sq) pts tris)[k] = (pg[k]).1 := by
      have : (@hertelMehlhornIdx K (fieldNum K sq) pts tris).toList[k]'(by simpa using hk) = (pg[k]).1 := by
        have := hfst
        simp only [hertelMehlhornIdx] at this ⊢
        simp [← this]
      simpa using this
    rw [h1]
    simp only [List.getElem_map]
    exact hpiece _ (List.getElem_mem _)

/-- **C16 (c), the pieces are counter-clockwise**: if every input triangle is strictly counter-clockwise, every output
piece has positive signed area — the sum of the areas of the triangles merged into it. -/
theorem hm_pieces_ccw (pts : Array (V2 K)) (tris : Array (Nat × Nat × Nat))
    (hccw : letI := fieldNum K sq; ∀ t ∈ tris.toList, 0 < area2 (pt pts t.1) (pt pts t.2.1) (pt pts t.2.2)) :
    letI := fieldNum K sq
    ∀ p ∈ (hertelMehlhornIdx pts tris).toList, 0 < shoelace2 (p.toList.map (pt pts)) := by
  intro p hp
  obtain ⟨groups, hlen, hperm, hpieces⟩ := hm_pieces_partition sq pts tris
  obtain ⟨k, hk, rfl⟩ := List.mem_iff_getElem.mp hp
  have hk1 : k < (@hertelMehlhornIdx K (fieldNum K sq) pts tris).size := by simpa using hk
  have hP := hpieces k hk1 (by omega)
  rw [shoelace2, edgeSum_map]
  simp only [Array.getElem_toList]
  rw [pieceOf_area (@pt K (fieldNum K sq) pts) hP]
  apply List.sum_pos
  · intro x hx
    obtain ⟨t, ht, rfl⟩ := List.mem_map.mp hx
    apply hccw t
    apply hperm.subset
    exact List.mem_flatten.mpr ⟨_, List.getElem_mem _, ht⟩
  · have := hP.2.1
    simpa using this

/-! ## local convexity -/

/-- no corner `(prev, v, next)` of the closed cycle `piece` turns clockwise -/
def LocallyConvex (f : Nat → V2 K) (piece : List Nat) : Prop :=
  ∀ c ∈ closedCorners piece, 0 ≤ area2 (f c.1) (f c.2.1) (f c.2.2)

private def HMConv (f : Nat → V2 K) (polys : Array (Array Nat)) : Prop :=
  ∀ p ∈ polys.toList, 3 ≤ p.size ∧ LocallyConvex f p.toList

private theorem hmConv_step (pts : Array (V2 K)) (polys : Array (Array Nat)) (i j i2 i21 : Nat)
    (hm : @MergeAt K (fieldNum K sq) pts polys i j i2 i21) (h : HMConv (@pt K (fieldNum K sq) pts) polys) :
    HMConv (@pt K (fieldNum K sq) pts) ((polys.eraseIdxIfInBounds i2).setIfInBounds i
      (mergedPoly (polys.getD i #[]) (polys.getD i2 #[]) j i21)) := by
  obtain ⟨hi, hj, hlt, hi2, hi21, hend, hstart, conv1, conv2⟩ := hm
  set f := @pt K (fieldNum K sq) pts
  set p1 := polys.getD i #[] with hp1
  set p2 := polys.getD i2 #[] with hp2
  have hm1 : p1 ∈ polys.toList := by
    have : p1 = polys.toList[i]'(by simpa using hi) := by
      simp [hp1, Array.getD_eq_getD_getElem?, Array.getElem?_eq_getElem hi]
    rw [this]; exact List.getElem_mem _
  have hm2 : p2 ∈ polys.toList := by
    have : p2 = polys.toList[i2]'(by simpa using hi2) := by
      simp [hp2, Array.getD_eq_getD_getElem?, Array.getElem?_eq_getElem hi2]
    rw [this]; exact List.getElem_mem _
  obtain ⟨s1, lc1⟩ := h p1 hm1
  obtain ⟨s2, lc2⟩ := h p2 hm2
  set new := mergedPoly p1 p2 j i21 with hnew
  have hlist : ((polys.eraseIdxIfInBounds i2).setIfInBounds i new).toList = (polys.toList.eraseIdx i2).set i new := by
    simp [Array.eraseIdxIfInBounds, hi2]
  intro p hp
  rw [hlist] at hp
  rcases List.mem_or_eq_of_mem_set hp with hp | rfl
  · exact h p (List.mem_of_mem_eraseIdx hp)
  · obtain ⟨X', Y', Xi, Yi, hnl, hA, hB, hXi, hYi⟩ := merged_lists p1 p2 j i21 s1 s2 hj hi21 hstart hend
    refine ⟨?_, ?_⟩
    · have : new.size = new.toList.length := by simp
      rw [this, hnl]; simp; omega
    · intro c hc
      rw [hnl] at hc
      rcases mem_closedCorners_glue _ _ _ _ _ _ X' Y' Xi Yi hXi hYi c hc with hc | rfl | hc | rfl
      · rw [← hA, mem_closedCorners_rotate] at hc
        exact lc1 c hc
      · -- the corner at `edge_start`: first connection test
        have := (corner_direction_spec sq (f (p2.getD (((i21 + 1) % p2.size + 1) % p2.size) 0))
          (f (p1.getD ((p1.size + j - 1) % p1.size) 0)) (f (p1.getD j 0))).2.1
        have hge : 0 ≤ area2 (f (p2.getD (((i21 + 1) % p2.size + 1) % p2.size) 0))
            (f (p1.getD ((p1.size + j - 1) % p1.size) 0)) (f (p1.getD j 0)) := by
          by_contra hh; push Not at hh; exact conv1 (this.mpr hh)
        rw [← area2_cyc] at hge
        exact hge
      · rw [← hB, mem_closedCorners_rotate] at hc
        exact lc2 c hc
      · -- the corner at `edge_end`: second connection test
        have := (corner_direction_spec sq (f (p1.getD (((j + 1) % p1.size + 1) % p1.size) 0))
          (f (p2.getD ((p2.size + i21 - 1) % p2.size) 0)) (f (p1.getD ((j + 1) % p1.size) 0))).2.1
        have hge : 0 ≤ area2 (f (p1.getD (((j + 1) % p1.size + 1) % p1.size) 0))
            (f (p2.getD ((p2.size + i21 - 1) % p2.size) 0)) (f (p1.getD ((j + 1) % p1.size) 0)) := by
          by_contra hh; push Not at hh; exact conv2 (this.mpr hh)
        rw [← area2_cyc] at hge
        exact hge

/-- **C16 (c), the pieces are locally convex — every triangle list without clockwise triangles.**  No corner
`(prev, v, next)` of any output piece turns clockwise: `0 ≤ area2 prev v next`.  (The two corners a merge creates are the
two the code tests with `corner_direction(..) != Cw`; every other corner of the glued polygon is a corner of one of the
two parts.) -/
theorem hm_pieces_locally_convex (pts : Array (V2 K)) (tris : Array (Nat × Nat × Nat))
    (hccw : letI := fieldNum K sq; ∀ t ∈ tris.toList, 0 ≤ area2 (pt pts t.1) (pt pts t.2.1) (pt pts t.2.2)) :
    letI := fieldNum K sq
    ∀ p ∈ (hertelMehlhornIdx pts tris).toList, 3 ≤ p.size ∧ LocallyConvex (pt pts) p.toList := by
  have hinit : HMConv (@pt K (fieldNum K sq) pts) (tris.map fun t => #[t.1, t.2.1, t.2.2]) := by
    intro p hp
    simp only [Array.toList_map, List.mem_map] at hp
    obtain ⟨t, ht, rfl⟩ := hp
    refine ⟨by simp, ?_⟩
    intro c hc
    have h0 := hccw t ht
    simp only [closedCorners, List.take, List.cons_append, List.nil_append, pathCorners, List.mem_cons,
      List.not_mem_nil, or_false] at hc
    rcases hc with rfl | rfl | rfl
    · exact h0
    · simp only; rw [area2_cyc]; exact h0
    · simp only; rw [← area2_cyc]; exact h0
  exact @hmLoop_induct K (fieldNum K sq) pts (HMConv (@pt K (fieldNum K sq) pts))
    (fun polys i j i2 i21 hm h => hmConv_step sq pts polys i j i2 i21 hm h)
    ((2 * tris.size + 2) * (3 * tris.size + 3)) _ 0 0 hinit

/-- the full convexity statement, **not proved**: every vertex of a piece lies on the closed left of every edge of the
piece.  It follows from `hm_pieces_locally_convex` for pieces that are simple closed curves (turning number one); the
exact oracle (`isConvexCcw`) checks it on every explored case. -/
def hm_pieces_convex_full (pts : Array (V2 K)) (tris : Array (Nat × Nat × Nat)) : Prop :=
  letI := fieldNum K sq
  ∀ p ∈ (hertelMehlhornIdx pts tris).toList, ∀ e ∈ polyEdges p.toList, ∀ v ∈ p.toList,
    0 ≤ area2 (pt pts e.1) (pt pts e.2) (pt pts v)

/-- non-vacuity: the unit square split along a diagonal is merged back into one locally convex piece -/
example : LocallyConvex (K := ℚ) (@pt ℚ (fieldNum ℚ id) #[⟨0,0⟩, ⟨1,0⟩, ⟨1,1⟩, ⟨0,1⟩]) [0, 1, 2, 3] := by
  intro c hc
  simp only [closedCorners, List.take, List.cons_append, List.nil_append, pathCorners, List.mem_cons,
    List.not_mem_nil, or_false] at hc
  rcases hc with rfl | rfl | rfl | rfl <;> simp [pt, area2]

/-! ## `Compound::decompose_trimesh` -/

/-- how a shape of the compound relates to the Hertel–Mehlhorn piece it was built from -/
def ShapeOf (pts : Array (V2 K)) (piece : Array Nat) : Piece K → Prop
  | .triangle a b c =>
    letI := fieldNum K sq
    piece.size = 3 ∧ a = pt pts (piece.getD 0 0) ∧ b = pt pts (piece.getD 1 0) ∧ c = pt pts (piece.getD 2 0)
  | .polygon points normals =>
    letI := fieldNum K sq
    piece.size ≠ 3 ∧ points.toList.Sublist (piece.toList.map (pt pts)) ∧ 3 ≤ points.size ∧ normals.size = points.size

private theorem piecesOf_spec (pts : Array (V2 K)) :
    ∀ (ps : List (Array Nat)) (shapes : List (Piece K)),
      @piecesOf K (fieldNum K sq) (ps.map fun p => p.map (@pt K (fieldNum K sq) pts)) = some shapes →
      List.Forall₂ (ShapeOf sq pts) ps shapes := by
  intro ps
  induction ps with
  | nil => intro shapes h; simp [piecesOf] at h; subst h; exact List.Forall₂.nil
  | cons p ps ih =>
    intro shapes h
    simp only [List.map_cons, piecesOf] at h
    by_cases h3 : (p.map (@pt K (fieldNum K sq) pts)).size = 3
    · rw [if_pos h3] at h
      simp only at h
      cases hrest : @piecesOf K (fieldNum K sq) (ps.map fun p => p.map (@pt K (fieldNum K sq) pts)) with
      | none => simp [hrest] at h
      | some rest =>
        simp only [hrest, Option.map_some, Option.some.injEq] at h
        subst h
        refine List.Forall₂.cons ?_ (ih rest hrest)
        have hs : p.size = 3 := by simpa using h3
        refine ⟨hs, ?_, ?_, ?_⟩ <;>
          simp [pt, Array.getD_eq_getD_getElem?, hs]
    · rw [if_neg h3] at h
      cases hf : @fromConvexPolyline K (fieldNum K sq) (p.map (@pt K (fieldNum K sq) pts)) with
      | none =>
        simp only [hf] at h
        cases hu : @fromConvexPolylineUnmodified K (fieldNum K sq) (p.map (@pt K (fieldNum K sq) pts)) with
        | none => simp [hu] at h
        | some r =>
          simp only [hu, Option.map_some] at h
          cases hrest : @piecesOf K (fieldNum K sq) (ps.map fun p => p.map (@pt K (fieldNum K sq) pts)) with
          | none => simp [hrest] at h
          | some rest =>
            simp only [hrest, Option.map_some, Option.some.injEq] at h
            subst h
            refine List.Forall₂.cons ?_ (ih rest hrest)
            obtain ⟨a, b, c⟩ := @fromConvexPolylineUnmodified_spec K (fieldNum K sq) _ r.1 r.2 hu
            refine ⟨by simpa using h3, ?_, b, c⟩
            rw [a]; simp
      | some r =>
        simp only [hf, Option.map_some] at h
        cases hrest : @piecesOf K (fieldNum K sq) (ps.map fun p => p.map (@pt K (fieldNum K sq) pts)) with
        | none => simp [hrest] at h
        | some rest =>
          simp only [hrest, Option.map_some, Option.some.injEq] at h
          subst h
          refine List.Forall₂.cons ?_ (ih rest hrest)
          obtain ⟨a, b, c⟩ := @fromConvexPolyline_spec K (fieldNum K sq) _ r.1 r.2 hf
          exact ⟨by simpa using h3, by simpa using a, b, c⟩

/-- **C16 (c), `Compound::decompose_trimesh` inherits the Hertel–Mehlhorn pieces** — every input.  When a compound is
returned its shapes correspond one-to-one, in order, to the pieces of `hertel_mehlhorn_idx`: a 3-vertex piece becomes
the `Triangle` on exactly its vertices; any other piece becomes a `ConvexPolygon` whose points are a **sub-list of the
piece's points in the same cyclic order** (only vertices judged collinear with their neighbours by the normal test are
dropped), at least three of them, with one normal per point.  Hence the partition / orientation / local-convexity
theorems about the pieces carry over to the compound up to the pruned, nearly straight vertices. -/
theorem decompose_trimesh_pieces (pts : Array (V2 K)) (tris : Array (Nat × Nat × Nat)) (shapes : List (Piece K)) :
    letI := fieldNum K sq
    decomposeTrimesh pts tris = some shapes →
    List.Forall₂ (ShapeOf sq pts) (hertelMehlhornIdx pts tris).toList shapes := by
  intro h
  apply piecesOf_spec sq pts
  simpa [decomposeTrimesh, hertelMehlhorn] using h

/-- non-vacuity: the unit square (two triangles) decomposes into one 4-gon shape -/
example : ShapeOf (K := ℚ) id #[⟨0,0⟩, ⟨1,0⟩, ⟨1,1⟩, ⟨0,1⟩] #[0, 1, 2, 3]
    (.polygon #[⟨0,0⟩, ⟨1,0⟩, ⟨1,1⟩, ⟨0,1⟩] #[⟨0,-1⟩, ⟨1,0⟩, ⟨0,1⟩, ⟨-1,0⟩]) := by
  refine ⟨by simp, ?_, by simp, by simp⟩
  simp [pt]

end C16
