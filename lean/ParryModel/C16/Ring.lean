import ParryModel.C16.Lemmas2
/-! C16: the ring that remains after `k` clips, and induction principles over clipping sequences (lists only). -/
namespace C16
open Model Model.C15 Model.C16 C15

/-! ## cyclic lists: filtering commutes with rotation -/
section cyc
variable {α : Type}

theorem filter_isRotated (p : α → Bool) {l l' : List α} (h : l ~r l') : l.filter p ~r l'.filter p := by
  obtain ⟨n, rfl⟩ := h
  rw [List.rotate_eq_drop_append_take_mod, List.filter_append]
  conv_lhs => rw [← List.take_append_drop (n % l.length) l, List.filter_append]
  exact List.isRotated_append

theorem mem_polyEdges_isRotated {l l' : List α} (h : l ~r l') (e : α × α) : e ∈ polyEdges l ↔ e ∈ polyEdges l' := by
  obtain ⟨n, rfl⟩ := h
  rw [polyEdges_rotate, List.mem_rotate]
end cyc

/-- the tips (middle indices) of the first `k` triangles -/
def tips (ts : List (Nat × Nat × Nat)) (k : Nat) : List Nat := (ts.take k).map (·.2.1)

/-- the part of the cycle `cyc` that is still active after the first `k` clips of `ts`, in the order of `cyc` -/
def ringOf (cyc : List Nat) (ts : List (Nat × Nat × Nat)) (k : Nat) : List Nat :=
  cyc.filter fun v => decide (v ∉ tips ts k)

/-- **the ring remaining after `k` clips**: the input cycle `0, 1, …, n-1` without the tips of the first `k` triangles -/
def ringAfter (n : Nat) (ts : List (Nat × Nat × Nat)) (k : Nat) : List Nat := ringOf (List.range n) ts k

/-- `b` is the cyclic successor of `a` in the ring `l` -/
def CycNext (l : List Nat) (a b : Nat) : Prop := (a, b) ∈ polyEdges l

theorem ringOf_zero (cyc : List Nat) (ts : List (Nat × Nat × Nat)) : ringOf cyc ts 0 = cyc := by
  simp [ringOf, tips]

theorem ringOf_succ (cyc : List Nat) (t : Nat × Nat × Nat) (ts : List (Nat × Nat × Nat)) (k : Nat) :
    ringOf cyc (t :: ts) (k + 1) = ringOf (cyc.filter fun v => decide (v ≠ t.2.1)) ts k := by
  simp only [ringOf, tips, List.take_succ_cons, List.map_cons, List.filter_filter]
  apply List.filter_congr
  intro v _
  rw [Bool.eq_iff_iff]
  simp [not_or, and_comm]

/-- after clipping the head `e` of the (rotated) cycle, the remaining ring is the ring of the shorter cycle -/
theorem ringOf_step_isRotated {cyc : List Nat} {e w u : Nat} {mid : List Nat} {ts : List (Nat × Nat × Nat)} {k : Nat}
    (hr : cyc ~r (e :: w :: (mid ++ [u]))) (hnd' : (e :: w :: (mid ++ [u])).Nodup) :
    ringOf cyc ((u, e, w) :: ts) (k + 1) ~r ringOf (w :: (mid ++ [u])) ts k := by
  have hfilt : (e :: w :: (mid ++ [u])).filter (fun v => decide (v ≠ e)) = w :: (mid ++ [u]) := by
    have hne : e ∉ w :: (mid ++ [u]) := (List.nodup_cons.mp hnd').1
    rw [List.filter_cons_of_neg (by simp)]
    apply List.filter_eq_self.mpr
    intro a ha
    simp only [ne_eq, decide_not, Bool.not_eq_eq_eq_not, Bool.not_true, decide_eq_false_iff_not]
    exact fun hae => hne (hae ▸ ha)
  have hrot2 : (cyc.filter fun v => decide (v ≠ e)) ~r (w :: (mid ++ [u])) := by
    rw [← hfilt]; exact filter_isRotated _ hr
  rw [ringOf_succ]
  exact filter_isRotated _ hrot2

/-- clipping sequences emit consecutive triples of the remaining ring -/
theorem ClipSeq.ring {cyc : List Nat} {ts : List (Nat × Nat × Nat)} (h : ClipSeq cyc ts) (hnd : cyc.Nodup) :
    ∀ k (hk : k < ts.length),
      CycNext (ringOf cyc ts k) ts[k].1 ts[k].2.1 ∧ CycNext (ringOf cyc ts k) ts[k].2.1 ts[k].2.2 ∧
      (ringOf cyc ts k).length + k = cyc.length := by
  induction h with
  | @last cyc r i w u hrot =>
    intro k hk
    have hk0 : k = 0 := by simpa using hk
    subst hk0
    simp only [ringOf_zero, List.getElem_cons_zero, CycNext, Nat.add_zero, and_true]
    have hr : cyc ~r [i, w, u] := ⟨r, hrot⟩
    constructor
    · rw [mem_polyEdges_isRotated hr]; simp [polyEdges]
    · rw [mem_polyEdges_isRotated hr]; simp [polyEdges]
  | @step cyc r e w u mid ts hrot hrest ih =>
    intro k hk
    have hr : cyc ~r (e :: w :: (mid ++ [u])) := ⟨r, hrot⟩
    have hnd' : (e :: w :: (mid ++ [u])).Nodup := hrot ▸ List.nodup_rotate.mpr hnd
    have hpe := polyEdges_cons e (w :: (mid ++ [u])) (by simp)
    cases k with
    | zero =>
      simp only [ringOf_zero, List.getElem_cons_zero, CycNext, Nat.add_zero, and_true]
      constructor
      · rw [mem_polyEdges_isRotated hr, hpe]; simp
      · rw [mem_polyEdges_isRotated hr, hpe]; simp
    | succ k =>
      have hk' : k < ts.length := by simpa using hk
      obtain ⟨h1, h2, h3⟩ := ih (List.nodup_cons.mp hnd').2 k hk'
      -- the smaller cycle is, up to rotation, `cyc` without `e`
      have hfilt : (e :: w :: (mid ++ [u])).filter (fun v => decide (v ≠ e)) = w :: (mid ++ [u]) := by
        have hne : e ∉ w :: (mid ++ [u]) := (List.nodup_cons.mp hnd').1
        rw [List.filter_cons_of_neg (by simp)]
        apply List.filter_eq_self.mpr
        intro a ha
        simp only [ne_eq, decide_not, Bool.not_eq_eq_eq_not, Bool.not_true, decide_eq_false_iff_not]
        exact fun hae => hne (hae ▸ ha)
      have hrot2 : (cyc.filter fun v => decide (v ≠ e)) ~r (w :: (mid ++ [u])) := by
        rw [← hfilt]; exact filter_isRotated _ hr
      have hrot3 : ringOf (cyc.filter fun v => decide (v ≠ e)) ts k ~r ringOf (w :: (mid ++ [u])) ts k :=
        filter_isRotated _ hrot2
      simp only [List.getElem_cons_succ]
      rw [ringOf_succ]
      refine ⟨?_, ?_, ?_⟩
      · exact (mem_polyEdges_isRotated hrot3 _).mpr h1
      · exact (mem_polyEdges_isRotated hrot3 _).mpr h2
      · rw [hrot3.perm.length_eq]
        have : cyc.length = (e :: w :: (mid ++ [u])).length := hr.perm.length_eq
        rw [this]
        simp only [List.length_cons] at h3 ⊢
        omega


/-- clipping sequences do not depend on where the cycle starts -/
theorem ClipSeq.isRotated {cyc cyc' : List Nat} {ts : List (Nat × Nat × Nat)} (h : ClipSeq cyc ts) (hr : cyc ~r cyc') :
    ClipSeq cyc' ts := by
  obtain ⟨m, hm⟩ := hr.symm
  cases h with
  | @last _ k i w u hrot => exact ClipSeq.last (k := m + k) (by rw [← List.rotate_rotate, hm, hrot])
  | @step _ k e w u mid ts hrot hrest =>
    exact ClipSeq.step (k := m + k) (by rw [← List.rotate_rotate, hm, hrot]) hrest

/-- **induction along the clipping**: a rotation-invariant hypothesis `H (ring, remaining triangles)` that is inherited
by the ring left after one clip holds for every ring `ringOf cyc ts k` together with the triangles still to come. -/
theorem ClipSeq.ring_induction (H : List Nat → List (Nat × Nat × Nat) → Prop)
    (hHrot : ∀ l l' ts, l ~r l' → H l ts → H l' ts)
    (hstep : ∀ e w u mid ts, ClipSeq (w :: (mid ++ [u])) ts → (e :: w :: (mid ++ [u])).Nodup →
      H (e :: w :: (mid ++ [u])) ((u, e, w) :: ts) → H (w :: (mid ++ [u])) ts)
    {cyc : List Nat} {ts : List (Nat × Nat × Nat)} (h : ClipSeq cyc ts) (hnd : cyc.Nodup) (h0 : H cyc ts) :
    ∀ k, k < ts.length → H (ringOf cyc ts k) (ts.drop k) ∧ ClipSeq (ringOf cyc ts k) (ts.drop k) := by
  induction h with
  | @last cyc r i w u hrot =>
    intro k hk
    have hk0 : k = 0 := by simpa using hk
    subst hk0
    simp only [ringOf_zero, List.drop_zero]
    exact ⟨h0, ClipSeq.last hrot⟩
  | @step cyc r e w u mid ts hrot hrest ih =>
    intro k hk
    have hr : cyc ~r (e :: w :: (mid ++ [u])) := ⟨r, hrot⟩
    have hnd' : (e :: w :: (mid ++ [u])).Nodup := hrot ▸ List.nodup_rotate.mpr hnd
    cases k with
    | zero =>
      simp only [ringOf_zero, List.drop_zero]
      exact ⟨h0, ClipSeq.step hrot hrest⟩
    | succ k =>
      have hk' : k < ts.length := by simpa using hk
      have h1 : H (w :: (mid ++ [u])) ts := hstep e w u mid ts hrest hnd' (hHrot _ _ _ hr h0)
      obtain ⟨hH, hC⟩ := ih (List.nodup_cons.mp hnd').2 h1 k hk'
      have hrot3 := (ringOf_step_isRotated (ts := ts) (k := k) hr hnd').symm
      simp only [List.drop_succ_cons]
      exact ⟨hHrot _ _ _ hrot3 hH, hC.isRotated hrot3⟩

end C16
