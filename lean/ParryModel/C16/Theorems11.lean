import ParryModel.Field
import ParryModel.C15.Theorems
import ParryModel.C16.Model
import ParryModel.C16.Lemmas2
import ParryModel.C16.Geometry
import ParryModel.C16.Theorems2
import ParryModel.C16.Theorems9
/-!
# C16 property theorems, part 11: a polygon with two coinciding vertices is rejected (exact arithmetic).

`ear_clipping_rejects_coincident_vertices`: if `vertices[i] == vertices[j]` for two different indices — a repeated
consecutive vertex, a zero-area spike `… p, s, p …`, a pinch (the boundary touches itself in a vertex), a polygon
traversed twice — `triangulate_ear_clipping` returns `None`.  Reason: the code's ear test counts the boundary of the
candidate triangle as inside and tests **every** other input vertex, so a vertex that has a twin can never belong to a
tested ear (its twin sits on a corner of the triangle); both twins would have to survive into the final, untested
triangle, which would then have two equal corners and zero area, but the final triangle must be counter-clockwise.
This is the `non-simple input yields None` clause for the whole class of self-touching-in-a-vertex polygons.
-/
namespace C16
open Model Model.C15 Model.C16 C15

variable {K : Type} [Field K] [LinearOrder K] [IsStrictOrderedRing K]

private theorem area2_eq_zero_of_eq (x y z : V2 K) (h : x = y ∨ y = z ∨ x = z) : area2 x y z = 0 := by
  rcases h with rfl | rfl | rfl <;> simp only [area2] <;> ring

/-- a corner of a counter-clockwise triangle is not strictly outside the closed triangle -/
private theorem corner_not_outside (a b c : V2 K) (hS : 0 < area2 a b c) :
    ¬ OutsideTri a b c a ∧ ¬ OutsideTri a b c b ∧ ¬ OutsideTri a b c c := by
  have h1 : area2 b c a = area2 a b c := area2_cyc a b c
  have h2 : area2 c a b = area2 a b c := by rw [← area2_cyc, ← area2_cyc]
  unfold OutsideTri
  refine ⟨?_, ?_, ?_⟩
  · rw [area2_self_left, h1, area2_self_right]; intro h; rcases h with h | h | h <;> linarith
  · rw [area2_self_right, area2_self_left, h2]; intro h; rcases h with h | h | h <;> linarith
  · rw [area2_self_right, area2_self_left]
    intro h; rcases h with h | h | h
    · linarith
    · linarith
    · have : area2 c a c = 0 := area2_self_left c a
      linarith

variable (sq : K → K)

/-- **C16, rejection of self-touching input — exact arithmetic.**  Two different indices with the same point ⇒ `None`. -/
theorem ear_clipping_rejects_coincident_vertices (pts : Array (V2 K)) (i j : Nat) (hi : i < pts.size)
    (hj : j < pts.size) (hij : i ≠ j) :
    letI := fieldNum K sq
    pt pts i = pt pts j → triangulateEarClipping pts = none := by
  intro heq
  cases hr : @triangulateEarClipping K (fieldNum K sq) pts with
  | none => rfl
  | some out =>
    exfalso
    set f := @pt K (fieldNum K sq) pts with hf
    obtain ⟨ts, last, hout, hseq, hear, hlast⟩ := ear_clipping_ears_empty sq pts out hr
    have h3 : 3 ≤ pts.size := (@triangulate_clipseq K (fieldNum K sq) pts out hr).1
    -- every vertex belongs to some emitted triangle
    have hin : ∀ v, v < pts.size → ∃ t ∈ ts ++ [last], v = t.1 ∨ v = t.2.1 ∨ v = t.2.2 := by
      intro v hv
      have hmem : (v, (v + 1) % pts.size) ∈ polyEdges (List.range pts.size) := by
        rw [polyEdges_eq_zip_rotate]
        refine List.mem_iff_getElem.mpr ⟨v, by simp; omega, ?_⟩
        simp [List.getElem_rotate]
      obtain ⟨t, ht, hh⟩ := hseq.edge_covered _ hmem
      refine ⟨t, ht, ?_⟩
      rcases hh with hh | hh | hh <;> simp only [Prod.mk.injEq] at hh
      · exact Or.inl hh.1
      · exact Or.inr (Or.inl hh.1)
      · exact Or.inr (Or.inr hh.1)
    -- a vertex with a twin is in no tested ear
    have key : ∀ a b, a < pts.size → b < pts.size → a ≠ b → f a = f b →
        ∀ t ∈ ts, ¬ (a = t.1 ∨ a = t.2.1 ∨ a = t.2.2) := by
      intro a b ha hb hab hfab t ht hat
      obtain ⟨hS, hemp⟩ := hear t ht
      obtain ⟨n1, n2, n3⟩ := corner_not_outside (f t.1) (f t.2.1) (f t.2.2) hS
      by_cases hbt : b = t.1 ∨ b = t.2.1 ∨ b = t.2.2
      · -- two corners of the triangle coincide
        have : f t.1 = f t.2.1 ∨ f t.2.1 = f t.2.2 ∨ f t.1 = f t.2.2 := by
          rcases hat with rfl | rfl | rfl <;> rcases hbt with rfl | rfl | rfl <;>
            first
            | exact absurd rfl hab
            | exact Or.inl hfab
            | exact Or.inl hfab.symm
            | exact Or.inr (Or.inl hfab)
            | exact Or.inr (Or.inl hfab.symm)
            | exact Or.inr (Or.inr hfab)
            | exact Or.inr (Or.inr hfab.symm)
        have := area2_eq_zero_of_eq _ _ _ this
        linarith
      · have hb' : b ≠ t.1 ∧ b ≠ t.2.1 ∧ b ≠ t.2.2 :=
          ⟨fun h => hbt (Or.inl h), fun h => hbt (Or.inr (Or.inl h)), fun h => hbt (Or.inr (Or.inr h))⟩
        have ho : OutsideTri (f t.1) (f t.2.1) (f t.2.2) (f b) := hemp b hb hb'.1 hb'.2.1 hb'.2.2
        rw [← hfab] at ho
        rcases hat with rfl | rfl | rfl
        · exact n1 ho
        · exact n2 ho
        · exact n3 ho
    -- so both twins are corners of the last triangle
    have inlast : ∀ a b, a < pts.size → b < pts.size → a ≠ b → f a = f b →
        (a = last.1 ∨ a = last.2.1 ∨ a = last.2.2) := by
      intro a b ha hb hab hfab
      obtain ⟨t, ht, hat⟩ := hin a ha
      rcases List.mem_append.mp ht with ht | ht
      · exact absurd hat (key a b ha hb hab hfab t ht)
      · simp only [List.mem_singleton] at ht; subst ht; exact hat
    have hi' := inlast i j hi hj hij heq
    have hj' := inlast j i hj hi (Ne.symm hij) heq.symm
    have : f last.1 = f last.2.1 ∨ f last.2.1 = f last.2.2 ∨ f last.1 = f last.2.2 := by
      rcases hi' with rfl | rfl | rfl <;> rcases hj' with rfl | rfl | rfl <;>
        first
        | exact absurd rfl hij
        | exact Or.inl heq
        | exact Or.inl heq.symm
        | exact Or.inr (Or.inl heq)
        | exact Or.inr (Or.inl heq.symm)
        | exact Or.inr (Or.inr heq)
        | exact Or.inr (Or.inr heq.symm)
    have := area2_eq_zero_of_eq _ _ _ this
    linarith

end C16
