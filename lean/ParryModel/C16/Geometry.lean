import ParryModel.Field
import ParryModel.C15.Theorems
import Mathlib.Tactic.Push
/-! C16 planar geometry lemmas over an ordered field: signed areas along segments, the "first exit" lemma for a
triangle, and the ear-diagonal lemmas used by `Theorems3.lean`. No model content here. -/
namespace C16
open Model C15

variable {K : Type} [Field K] [LinearOrder K] [IsStrictOrderedRing K]

/-- the point `p + t (q - p)` -/
def lerp (p q : V2 K) (t : K) : V2 K := ⟨p.x + t * (q.x - p.x), p.y + t * (q.y - p.y)⟩

theorem area2_lerp (a b p q : V2 K) (t : K) :
    area2 a b (lerp p q t) = (1 - t) * area2 a b p + t * area2 a b q := by
  simp only [area2, lerp]; ring

theorem onSeg_lerp (p q : V2 K) {t : K} (h0 : 0 ≤ t) (h1 : t ≤ 1) : OnSeg p q (lerp p q t) :=
  ⟨t, h0, h1, rfl, rfl⟩

theorem onSeg_iff_lerp {p q x : V2 K} : OnSeg p q x ↔ ∃ t, 0 ≤ t ∧ t ≤ 1 ∧ x = lerp p q t := by
  constructor
  · rintro ⟨t, h0, h1, hx, hy⟩
    exact ⟨t, h0, h1, by cases x; simp only [lerp, V2.mk.injEq]; exact ⟨hx, hy⟩⟩
  · rintro ⟨t, h0, h1, rfl⟩; exact onSeg_lerp p q h0 h1

theorem onSeg_left (p q : V2 K) : OnSeg p q p := ⟨0, le_refl _, zero_le_one, by simp, by simp⟩
theorem onSeg_right (p q : V2 K) : OnSeg p q q := ⟨1, zero_le_one, le_refl _, by simp, by simp⟩

theorem onSeg_symm {p q x : V2 K} (h : OnSeg p q x) : OnSeg q p x := by
  obtain ⟨t, h0, h1, hx, hy⟩ := h
  exact ⟨1 - t, by linarith, by linarith, by rw [hx]; ring, by rw [hy]; ring⟩

/-- a sub-segment of a segment -/
theorem onSeg_sub {p q x y z : V2 K} (hx : OnSeg p q x) (hy : OnSeg p q y) (hz : OnSeg x y z) : OnSeg p q z := by
  obtain ⟨s, s0, s1, sx, sy⟩ := hx
  obtain ⟨t, t0, t1, tx, ty⟩ := hy
  obtain ⟨r, r0, r1, rx, ry⟩ := hz
  refine ⟨(1 - r) * s + r * t, ?_, ?_, ?_, ?_⟩
  · have := mul_nonneg (by linarith : 0 ≤ 1 - r) s0; have := mul_nonneg r0 t0; linarith
  · have h1 : (1 - r) * s ≤ (1 - r) * 1 := mul_le_mul_of_nonneg_left s1 (by linarith)
    have h2 : r * t ≤ r * 1 := mul_le_mul_of_nonneg_left t1 r0
    linarith
  · rw [rx, sx, tx]; ring
  · rw [ry, sy, ty]; ring

/-! ## scalar first-exit lemma -/

/-- the parameter at which `(1-t) a + t b` vanishes when `b < 0 < a`, else `1` -/
private def tau (a b : K) : K := if b < 0 then a / (a - b) else 1

private theorem tau_pos (a b : K) (h : b < 0 → 0 < a) : 0 < tau a b := by
  unfold tau; split_ifs with hb
  · exact div_pos (h hb) (by linarith [h hb])
  · exact one_pos

private theorem tau_le_one (a b : K) (h : b < 0 → 0 < a) : tau a b ≤ 1 := by
  unfold tau; split_ifs with hb
  · rw [div_le_one (by linarith [h hb])]; linarith
  · exact le_refl _

private theorem tau_neg (a b : K) (h : b < 0 → 0 < a) (hb : b < 0) :
    tau a b < 1 ∧ (1 - tau a b) * a + tau a b * b = 0 := by
  have hd : 0 < a - b := by linarith [h hb]
  unfold tau; rw [if_pos hb]
  refine ⟨by rw [div_lt_one hd]; linarith, ?_⟩
  field_simp; ring

private theorem tau_nonneg_before (a b t : K) (ha : 0 ≤ a) (h : b < 0 → 0 < a) (t0 : 0 ≤ t) (t1 : t ≤ tau a b) :
    0 ≤ (1 - t) * a + t * b := by
  have hle := tau_le_one a b h
  by_cases hb : b < 0
  · obtain ⟨_, hz⟩ := tau_neg a b h hb
    have : (1 - t) * a + t * b = (tau a b - t) * (a - b) := by
      have : (1 - tau a b) * a + tau a b * b = 0 := hz
      linear_combination this
    rw [this]
    exact mul_nonneg (by linarith) (by linarith [h hb])
  · push Not at hb
    have := mul_nonneg (by linarith : 0 ≤ 1 - t) ha; have := mul_nonneg t0 hb; linarith

/-- **first exit**: three affine functions `(1-t) aᵢ + t bᵢ`, non-negative at `t = 0`, positive there whenever they end
negative, and one of them ends negative: at some `t ∈ (0,1)` all are still non-negative and one that ends negative
vanishes -/
theorem exit_param (a1 a2 a3 b1 b2 b3 : K) (ha1 : 0 ≤ a1) (ha2 : 0 ≤ a2) (ha3 : 0 ≤ a3)
    (h1 : b1 < 0 → 0 < a1) (h2 : b2 < 0 → 0 < a2) (h3 : b3 < 0 → 0 < a3) (hex : b1 < 0 ∨ b2 < 0 ∨ b3 < 0) :
    ∃ t, 0 < t ∧ t < 1 ∧ 0 ≤ (1 - t) * a1 + t * b1 ∧ 0 ≤ (1 - t) * a2 + t * b2 ∧ 0 ≤ (1 - t) * a3 + t * b3 ∧
      ((b1 < 0 ∧ (1 - t) * a1 + t * b1 = 0) ∨ (b2 < 0 ∧ (1 - t) * a2 + t * b2 = 0) ∨
       (b3 < 0 ∧ (1 - t) * a3 + t * b3 = 0)) := by
  set t := min (tau a1 b1) (min (tau a2 b2) (tau a3 b3)) with ht
  have l1 : t ≤ tau a1 b1 := min_le_left _ _
  have l2 : t ≤ tau a2 b2 := le_trans (min_le_right _ _) (min_le_left _ _)
  have l3 : t ≤ tau a3 b3 := le_trans (min_le_right _ _) (min_le_right _ _)
  have tpos : 0 < t := lt_min (tau_pos a1 b1 h1) (lt_min (tau_pos a2 b2 h2) (tau_pos a3 b3 h3))
  have tlt : t < 1 := by
    rcases hex with hb | hb | hb
    · exact lt_of_le_of_lt l1 (tau_neg a1 b1 h1 hb).1
    · exact lt_of_le_of_lt l2 (tau_neg a2 b2 h2 hb).1
    · exact lt_of_le_of_lt l3 (tau_neg a3 b3 h3 hb).1
  refine ⟨t, tpos, tlt, tau_nonneg_before a1 b1 t ha1 h1 tpos.le l1, tau_nonneg_before a2 b2 t ha2 h2 tpos.le l2,
    tau_nonneg_before a3 b3 t ha3 h3 tpos.le l3, ?_⟩
  -- `t` is one of the three `tau`s, and it is `< 1`, so that one is a genuine zero
  have key : ∀ a b : K, (b < 0 → 0 < a) → t = tau a b → b < 0 ∧ (1 - t) * a + t * b = 0 := by
    intro a b h he
    have hb : b < 0 := by
      by_contra hb
      have : tau a b = 1 := by unfold tau; rw [if_neg hb]
      rw [this] at he; linarith
    exact ⟨hb, by rw [he]; exact (tau_neg a b h hb).2⟩
  rcases min_choice (tau a1 b1) (min (tau a2 b2) (tau a3 b3)) with hc | hc
  · exact Or.inl (key a1 b1 h1 (by rw [ht, hc]))
  · rcases min_choice (tau a2 b2) (tau a3 b3) with hc2 | hc2
    · exact Or.inr (Or.inl (key a2 b2 h2 (by rw [ht, hc, hc2])))
    · exact Or.inr (Or.inr (key a3 b3 h3 (by rw [ht, hc, hc2])))

/-! ## triangles -/

/-- a point of the closed triangle `(u, e, w)` (counter-clockwise) lying on the line `u e` is on the segment `[u, e]` -/
theorem onSeg_of_area_zero (u e w y : V2 K) (hS : 0 < area2 u e w) (h1 : area2 u e y = 0)
    (h2 : 0 ≤ area2 e w y) (h3 : 0 ≤ area2 w u y) : OnSeg u e y := by
  have hsum : area2 u e y + area2 e w y + area2 w u y = area2 u e w := by simp only [area2]; ring
  refine ⟨area2 w u y / area2 u e w, div_nonneg h3 hS.le, ?_, ?_, ?_⟩
  · rw [div_le_one hS]; linarith
  · field_simp
    simp only [area2] at h1 ⊢
    first | linear_combination (w.x - u.x) * h1 | linear_combination (u.x - w.x) * h1
  · field_simp
    simp only [area2] at h1 ⊢
    first | linear_combination (w.y - u.y) * h1 | linear_combination (u.y - w.y) * h1

/-- `p` lies strictly to the right of one of the three directed edge lines of the triangle `(a, b, c)`.  For a
counter-clockwise triangle this says exactly that `p` is **not in the closed triangle** (see `outsideTri_iff`). -/
def OutsideTri (a b c p : V2 K) : Prop := area2 a b p < 0 ∨ area2 b c p < 0 ∨ area2 c a p < 0

theorem area2_sum (u e w p : V2 K) : area2 u e p + area2 e w p + area2 w u p = area2 u e w := by
  simp only [area2]; ring

theorem area2_cyc (a b c : V2 K) : area2 b c a = area2 a b c := by simp only [area2]; ring

theorem area2_self_left (a b : V2 K) : area2 a b a = 0 := by simp only [area2]; ring
theorem area2_self_right (a b : V2 K) : area2 a b b = 0 := by simp only [area2]; ring

/-- same for the edge `[e, w]` -/
theorem onSeg_of_area_zero₂ (u e w y : V2 K) (hS : 0 < area2 u e w) (h1 : 0 ≤ area2 u e y)
    (h2 : area2 e w y = 0) (h3 : 0 ≤ area2 w u y) : OnSeg e w y :=
  onSeg_of_area_zero e w u y (by rw [area2_cyc]; exact hS) h2 h3 h1

/-- same for the edge `[w, u]` -/
theorem onSeg_of_area_zero₃ (u e w y : V2 K) (hS : 0 < area2 u e w) (h1 : 0 ≤ area2 u e y)
    (h2 : 0 ≤ area2 e w y) (h3 : area2 w u y = 0) : OnSeg w u y :=
  onSeg_of_area_zero w u e y (by rw [area2_cyc, area2_cyc]; exact hS) h3 h1 h2

/-- **first exit from a triangle**: `x` in the closed counter-clockwise triangle, `q` outside, and every edge line that
`q` is beyond has `x` strictly on its inner side.  Then the segment `[x, q]` meets, strictly between `x` and `q`, one of
the closed edges whose line separates `q` from the triangle. -/
theorem exit_triangle (u e w x q : V2 K) (hS : 0 < area2 u e w)
    (hx1 : 0 ≤ area2 u e x) (hx2 : 0 ≤ area2 e w x) (hx3 : 0 ≤ area2 w u x)
    (h1 : area2 u e q < 0 → 0 < area2 u e x) (h2 : area2 e w q < 0 → 0 < area2 e w x)
    (h3 : area2 w u q < 0 → 0 < area2 w u x) (hq : OutsideTri u e w q) :
    ∃ y, OnSeg x q y ∧ ((area2 u e q < 0 ∧ OnSeg u e y) ∨ (area2 e w q < 0 ∧ OnSeg e w y) ∨
      (area2 w u q < 0 ∧ OnSeg w u y)) := by
  obtain ⟨t, t0, t1, p1, p2, p3, hz⟩ := exit_param _ _ _ _ _ _ hx1 hx2 hx3 h1 h2 h3 hq
  refine ⟨lerp x q t, onSeg_lerp x q t0.le t1.le, ?_⟩
  rw [← area2_lerp] at p1 p2 p3 hz
  rw [← area2_lerp, ← area2_lerp] at hz
  rcases hz with ⟨hb, hz⟩ | ⟨hb, hz⟩ | ⟨hb, hz⟩
  · exact Or.inl ⟨hb, onSeg_of_area_zero u e w _ hS hz p2 p3⟩
  · exact Or.inr (Or.inl ⟨hb, onSeg_of_area_zero₂ u e w _ hS p1 hz p3⟩)
  · exact Or.inr (Or.inr ⟨hb, onSeg_of_area_zero₃ u e w _ hS p1 p2 hz⟩)

/-! ## the ear-diagonal lemmas

`(u, e, w)` is a strictly counter-clockwise corner.  A segment that avoids the two sides `[u,e]`, `[e,w]` of the corner
and whose end points are outside the closed triangle cannot meet the diagonal `[u,w]`. -/

/-- the three signed areas of a point of the diagonal `[u, w]` -/
private theorem diag_areas (u e w : V2 K) (s : K) :
    area2 u e (lerp u w s) = s * area2 u e w ∧ area2 e w (lerp u w s) = (1 - s) * area2 u e w ∧
    area2 w u (lerp u w s) = 0 := by
  refine ⟨?_, ?_, ?_⟩ <;> simp only [area2, lerp] <;> ring

/-- **diagonal lemma, non-adjacent edge**: `[a, b]` has both end points outside the closed triangle and misses the two
sides of the corner; then it misses the diagonal. -/
theorem diag_nonadjacent (u e w a b : V2 K) (hS : 0 < area2 u e w)
    (ha : OutsideTri u e w a) (hb : OutsideTri u e w b)
    (h1 : ∀ x, OnSeg a b x → ¬ OnSeg u e x) (h2 : ∀ x, OnSeg a b x → ¬ OnSeg e w x) :
    ∀ x, OnSeg a b x → ¬ OnSeg u w x := by
  intro x hab huw
  obtain ⟨s, s0, s1, rfl⟩ := onSeg_iff_lerp.mp huw
  obtain ⟨A1, A2, A3⟩ := diag_areas u e w s
  -- the end points of the diagonal are on the sides of the corner
  have hs0 : 0 < s := by
    rcases s0.lt_or_eq with h | h
    · exact h
    · exfalso; subst h
      have : lerp u w 0 = u := by simp [lerp]
      rw [this] at hab; exact h1 u hab (onSeg_left u e)
  have hs1 : s < 1 := by
    rcases s1.lt_or_eq with h | h
    · exact h
    · exfalso; subst h
      have : lerp u w 1 = w := by simp [lerp]
      rw [this] at hab; exact h2 w hab (onSeg_right e w)
  have hx1 : 0 < area2 u e (lerp u w s) := by rw [A1]; exact mul_pos hs0 hS
  have hx2 : 0 < area2 e w (lerp u w s) := by rw [A2]; exact mul_pos (by linarith) hS
  set x := lerp u w s with hx
  -- a point strictly on the triangle's side of the diagonal line leads to an exit through a side of the corner
  have towards : ∀ q, OnSeg a b q → OutsideTri u e w q → 0 < area2 w u q → False := by
    intro q hq hout hpos
    obtain ⟨y, hy, hcase⟩ := exit_triangle u e w x q hS hx1.le hx2.le (by rw [A3]) (fun _ => hx1) (fun _ => hx2)
      (fun hh => absurd hh (not_lt.mpr hpos.le)) hout
    have hyab : OnSeg a b y := onSeg_sub hab hq hy
    rcases hcase with ⟨_, hy1⟩ | ⟨_, hy2⟩ | ⟨hneg, _⟩
    · exact h1 y hyab hy1
    · exact h2 y hyab hy2
    · exact absurd hneg (not_lt.mpr hpos.le)
  obtain ⟨t, t0, t1, hxt⟩ := onSeg_iff_lerp.mp hab
  have hg : (1 - t) * area2 w u a + t * area2 w u b = 0 := by rw [← area2_lerp, ← hxt, A3]
  have hα : (1 - t) * area2 u e a + t * area2 u e b = s * area2 u e w := by rw [← area2_lerp, ← hxt, A1]
  by_cases hA : 0 < area2 w u a
  · exact towards a (onSeg_left a b) ha hA
  by_cases hB : 0 < area2 w u b
  · exact towards b (onSeg_right a b) hb hB
  push Not at hA hB
  -- both end points are on or beyond the diagonal line: they are on it, on opposite sides of the diagonal
  have ht0 : 0 < t := by
    rcases t0.lt_or_eq with h | h
    · exact h
    · exfalso; subst h
      have : x = a := by rw [hxt]; simp [lerp]
      rw [← this] at ha
      rcases ha with h | h | h <;> linarith
  have ht1 : t < 1 := by
    rcases t1.lt_or_eq with h | h
    · exact h
    · exfalso; subst h
      have : x = b := by rw [hxt]; simp [lerp]
      rw [← this] at hb
      rcases hb with h | h | h <;> linarith
  have gA : area2 w u a = 0 := by
    have := mul_nonpos_of_nonneg_of_nonpos ht0.le hB
    have h2' := mul_nonpos_of_nonneg_of_nonpos (by linarith : 0 ≤ 1 - t) hA
    have : (1 - t) * area2 w u a = 0 := by linarith
    rcases mul_eq_zero.mp this with h | h
    · linarith
    · exact h
  have gB : area2 w u b = 0 := by
    have : t * area2 w u b = 0 := by rw [gA] at hg; linarith
    rcases mul_eq_zero.mp this with h | h
    · linarith
    · exact h
  have sumA := area2_sum u e w a
  have sumB := area2_sum u e w b
  have hsS : 0 < s * area2 u e w := mul_pos hs0 hS
  have hsS' : s * area2 u e w < area2 u e w := by nlinarith
  -- `area2 u e ·` takes values of opposite sign at `a` and `b`
  have opp : (area2 u e a < 0 ∧ 0 < area2 u e b) ∨ (0 < area2 u e a ∧ area2 u e b < 0) := by
    have ha' : area2 u e a < 0 ∨ area2 u e w < area2 u e a := by
      rcases ha with h | h | h
      · exact Or.inl h
      · right; linarith
      · linarith
    have hb' : area2 u e b < 0 ∨ area2 u e w < area2 u e b := by
      rcases hb with h | h | h
      · exact Or.inl h
      · right; linarith
      · linarith
    have p1 : 0 < 1 - t := by linarith
    rcases ha' with ha' | ha' <;> rcases hb' with hb' | hb'
    · exfalso; nlinarith [mul_pos p1 (neg_pos.mpr ha'), mul_pos ht0 (neg_pos.mpr hb')]
    · left; exact ⟨ha', by linarith⟩
    · right; exact ⟨by linarith, hb'⟩
    · exfalso
      nlinarith [mul_pos p1 (sub_pos.mpr ha'), mul_pos ht0 (sub_pos.mpr hb')]
  -- the point of `[a, b]` with `area2 u e · = 0` is `u`, a point of `[u, e]`
  have hne : area2 u e a - area2 u e b ≠ 0 := by rcases opp with h | h <;> intro hh <;> linarith [h.1, h.2]
  set t0' := area2 u e a / (area2 u e a - area2 u e b) with ht0'
  have t0pos : 0 ≤ t0' := by
    rcases opp with h | h
    · exact div_nonneg_of_nonpos h.1.le (by linarith)
    · exact div_nonneg h.1.le (by linarith)
  have t0le : t0' ≤ 1 := by
    rcases opp with h | h
    · rw [ht0', div_le_one_of_neg (by linarith)]; linarith
    · rw [ht0', div_le_one (by linarith)]; linarith
  have hy1 : area2 u e (lerp a b t0') = 0 := by
    rw [area2_lerp, ht0']; field_simp; ring
  have hy3 : area2 w u (lerp a b t0') = 0 := by rw [area2_lerp, gA, gB]; ring
  have hy2 : 0 ≤ area2 e w (lerp a b t0') := by
    have := area2_sum u e w (lerp a b t0'); linarith
  exact h1 _ (onSeg_lerp a b t0pos t0le) (onSeg_of_area_zero u e w _ hS hy1 hy2 hy3.ge)

/-- **diagonal lemma, the edge `[p, u]` arriving at `u`**: `p` is outside the closed triangle, `[p, u]` misses `[e, w]`
and meets `[u, e]` only in `u`; then it meets the diagonal `[u, w]` only in `u`. -/
theorem diag_adjacent_u (u e w p : V2 K) (hS : 0 < area2 u e w) (hp : OutsideTri u e w p)
    (h2 : ∀ x, OnSeg p u x → ¬ OnSeg e w x) :
    ∀ x, OnSeg p u x → OnSeg u w x → x = u := by
  intro x hpu huw
  obtain ⟨s, s0, s1, rfl⟩ := onSeg_iff_lerp.mp huw
  obtain ⟨A1, A2, A3⟩ := diag_areas u e w s
  rcases s0.lt_or_eq with hs0 | hs0
  swap
  · subst hs0; simp [lerp]
  exfalso
  have hs1 : s < 1 := by
    rcases s1.lt_or_eq with h | h
    · exact h
    · exfalso; subst h
      have : lerp u w 1 = w := by simp [lerp]
      rw [this] at hpu; exact h2 w hpu (onSeg_right e w)
  obtain ⟨t, t0, t1, hxt⟩ := onSeg_iff_lerp.mp hpu
  have hα : (1 - t) * area2 u e p = s * area2 u e w := by
    have := area2_lerp u e p u t; rw [← hxt, A1, area2_self_left] at this; linarith
  have hγ : (1 - t) * area2 w u p = 0 := by
    have := area2_lerp w u p u t; rw [← hxt, A3, area2_self_right] at this; linarith
  have hsS : 0 < s * area2 u e w := mul_pos hs0 hS
  have ht1 : t < 1 := by
    rcases t1.lt_or_eq with h | h
    · exact h
    · subst h; rw [sub_self, zero_mul] at hα; linarith
  have gP : area2 w u p = 0 := by
    rcases mul_eq_zero.mp hγ with h | h
    · linarith
    · exact h
  have aP : 0 < area2 u e p := by
    by_contra hh; push Not at hh
    have := mul_nonpos_of_nonneg_of_nonpos (by linarith : 0 ≤ 1 - t) hh; linarith
  have sumP := area2_sum u e w p
  have bigP : area2 u e w < area2 u e p := by
    rcases hp with h | h | h <;> linarith
  -- the point of `[p, u]` with `area2 u e · = area2 u e w` is `w`
  set t1' := 1 - area2 u e w / area2 u e p with ht1'
  have hq : area2 u e w / area2 u e p < 1 := by rw [div_lt_one aP]; exact bigP
  have hq0 : 0 < area2 u e w / area2 u e p := div_pos hS aP
  have y1 : area2 u e (lerp p u t1') = area2 u e w := by
    rw [area2_lerp, area2_self_left, ht1']
    have : area2 u e p ≠ 0 := ne_of_gt aP
    field_simp
    try ring
  have y3 : area2 w u (lerp p u t1') = 0 := by rw [area2_lerp, area2_self_right, gP]; ring
  have y2 : area2 e w (lerp p u t1') = 0 := by have := area2_sum u e w (lerp p u t1'); linarith
  exact h2 _ (onSeg_lerp p u (by linarith) (by linarith))
    (onSeg_of_area_zero₂ u e w _ hS (by rw [y1]; exact hS.le) y2 y3.ge)

/-- **diagonal lemma, the edge `[w, p]` leaving `w`** (mirror image of `diag_adjacent_u`) -/
theorem diag_adjacent_w (u e w p : V2 K) (hS : 0 < area2 u e w) (hp : OutsideTri u e w p)
    (h1 : ∀ x, OnSeg w p x → ¬ OnSeg u e x) :
    ∀ x, OnSeg w p x → OnSeg u w x → x = w := by
  intro x hwp huw
  obtain ⟨s, s0, s1, rfl⟩ := onSeg_iff_lerp.mp huw
  obtain ⟨A1, A2, A3⟩ := diag_areas u e w s
  rcases s1.lt_or_eq with hs1 | hs1
  swap
  · subst hs1; simp [lerp]
  exfalso
  have hs0 : 0 < s := by
    rcases s0.lt_or_eq with h | h
    · exact h
    · exfalso; subst h
      have : lerp u w 0 = u := by simp [lerp]
      rw [this] at hwp; exact h1 u hwp (onSeg_left u e)
  obtain ⟨t, t0, t1, hxt⟩ := onSeg_iff_lerp.mp hwp
  -- x = w + t (p - w)
  have hβ : t * area2 e w p = (1 - s) * area2 u e w := by
    have := area2_lerp e w w p t; rw [← hxt, A2, area2_self_right] at this; linarith
  have hγ : t * area2 w u p = 0 := by
    have := area2_lerp w u w p t; rw [← hxt, A3, area2_self_left] at this; linarith
  have hsS : 0 < (1 - s) * area2 u e w := mul_pos (by linarith) hS
  have ht0 : 0 < t := by
    rcases t0.lt_or_eq with h | h
    · exact h
    · subst h; rw [zero_mul] at hβ; linarith
  have gP : area2 w u p = 0 := by
    rcases mul_eq_zero.mp hγ with h | h
    · linarith
    · exact h
  have bP : 0 < area2 e w p := by
    by_contra hh; push Not at hh
    have := mul_nonpos_of_nonneg_of_nonpos ht0.le hh; linarith
  have sumP := area2_sum u e w p
  have bigP : area2 u e w < area2 e w p := by
    rcases hp with h | h | h <;> linarith
  -- the point of `[w, p]` with `area2 e w · = area2 u e w` is `u`
  set t1' := area2 u e w / area2 e w p with ht1'
  have hq : t1' < 1 := by rw [ht1', div_lt_one bP]; exact bigP
  have hq0 : 0 < t1' := div_pos hS bP
  have y2 : area2 e w (lerp w p t1') = area2 u e w := by
    rw [area2_lerp, area2_self_right, ht1']
    have : area2 e w p ≠ 0 := ne_of_gt bP
    field_simp
    try ring
  have y3 : area2 w u (lerp w p t1') = 0 := by rw [area2_lerp, area2_self_left, gP]; ring
  have y1 : area2 u e (lerp w p t1') = 0 := by have := area2_sum u e w (lerp w p t1'); linarith
  exact h1 _ (onSeg_lerp w p hq0.le hq.le)
    (onSeg_of_area_zero u e w _ hS y1 (by rw [y2]; exact hS.le) y3.ge)

/-! ## gluing two convex polygons along an edge

`P₁` (counter-clockwise, edge `s → e`, neighbouring edges `z → s` and `e → a0`) and `P₂` (edge `e → s`, neighbouring edges
`y → e` and `s → b0`) lie on opposite sides of the line `s e`.  If the two new corners `(z, s, b0)` and `(y, e, a0)` are not
clockwise, every vertex `v` of `P₂` is on the closed left of every edge of `P₁` other than `s → e`. -/

/-- cone at `e`: a point left of `e → s` and of `y → e` is left of `e → a0`, when `a0` is left of `y → e` (the tested
corner) and of `s → e`, and the corner `(y, e, s)` of `P₂` is strict -/
theorem cone_left_e (e s y a0 v : V2 K) (h1 : 0 ≤ area2 e s v) (h2 : 0 ≤ area2 y e v) (h3 : 0 ≤ area2 y e a0)
    (h4 : 0 ≤ area2 s e a0) (h5 : 0 < area2 y e s) : 0 ≤ area2 e a0 v := by
  have hid : area2 e a0 v * area2 y e s = area2 s e a0 * area2 y e v + area2 y e a0 * area2 e s v := by
    simp only [area2]; ring
  have : 0 ≤ area2 e a0 v * area2 y e s := by rw [hid]; exact add_nonneg (mul_nonneg h4 h2) (mul_nonneg h3 h1)
  exact nonneg_of_mul_nonneg_left this h5

/-- cone at `s` (mirror image of `cone_left_e`) -/
theorem cone_left_s (s e z b0 v : V2 K) (h1 : 0 ≤ area2 e s v) (h2 : 0 ≤ area2 s b0 v) (h3 : 0 ≤ area2 z s b0)
    (h4 : 0 ≤ area2 z s e) (h5 : 0 < area2 e s b0) : 0 ≤ area2 z s v := by
  have hid : area2 z s v * area2 e s b0 = area2 s b0 v * area2 z s e + area2 e s v * area2 z s b0 := by
    simp only [area2]; ring
  have : 0 ≤ area2 z s v * area2 e s b0 := by rw [hid]; exact add_nonneg (mul_nonneg h2 h4) (mul_nonneg h1 h3)
  exact nonneg_of_mul_nonneg_left this h5

/-- on the line `s e`, the value of `area2 a b ·` is the combination of its values at `s` and `e` with the weights read
off the two neighbouring edge lines -/
private theorem line_interp (a b s e z a0 r : V2 K) (hr : area2 s e r = 0) :
    area2 a b r * area2 s e a0 * area2 z s e =
      area2 e a0 r * area2 a b s * area2 z s e + area2 z s r * area2 a b e * area2 s e a0 := by
  simp only [area2] at hr ⊢
  linear_combination (a0.x*a.x*b.y*s.y - a0.x*a.x*b.y*z.y - a0.x*a.x*e.y*s.y + a0.x*a.x*e.y*z.y - a0.x*a.y*b.x*s.y + a0.x*a.y*b.x*z.y + a0.x*a.y*e.y*s.x - a0.x*a.y*e.y*z.x - a0.x*a.y*s.x*z.y + a0.x*a.y*s.y*z.x + a0.x*b.x*e.y*s.y - a0.x*b.x*e.y*z.y - a0.x*b.y*e.y*s.x + a0.x*b.y*e.y*z.x + a0.x*b.y*s.x*z.y - a0.x*b.y*s.y*z.x - a0.y*a.x*b.y*s.x + a0.y*a.x*b.y*z.x + a0.y*a.x*e.x*s.y - a0.y*a.x*e.x*z.y + a0.y*a.x*s.x*z.y - a0.y*a.x*s.y*z.x + a0.y*a.y*b.x*s.x - a0.y*a.y*b.x*z.x - a0.y*a.y*e.x*s.x + a0.y*a.y*e.x*z.x - a0.y*b.x*e.x*s.y + a0.y*b.x*e.x*z.y - a0.y*b.x*s.x*z.y + a0.y*b.x*s.y*z.x + a0.y*b.y*e.x*s.x - a0.y*b.y*e.x*z.x - a.x*b.y*e.x*s.y + a.x*b.y*e.x*z.y + a.x*b.y*e.y*s.x - a.x*b.y*e.y*z.x - a.x*e.y*s.x*z.y + a.x*e.y*s.y*z.x + a.y*b.x*e.x*s.y - a.y*b.x*e.x*z.y - a.y*b.x*e.y*s.x + a.y*b.x*e.y*z.x + a.y*e.x*s.x*z.y - a.y*e.x*s.y*z.x + b.x*e.y*s.x*z.y - b.x*e.y*s.y*z.x - b.y*e.x*s.x*z.y + b.y*e.x*s.y*z.x) * hr

/-- **a far edge of `P₁` has `P₂` on its left**: `a → b` is an edge of `P₁` whose start `a` is strictly left of `s → e`;
`v` (a vertex of `P₂`) is right of `s → e` and left of the two edges of `P₁` next to `s → e`. -/
theorem far_edge_left (a b s e z a0 v : V2 K)
    (fs : 0 ≤ area2 a b s) (fe : 0 ≤ area2 a b e) (ca : 0 < area2 s e a) (cv : area2 s e v ≤ 0)
    (pev : 0 ≤ area2 e a0 v) (pea : 0 ≤ area2 e a0 a) (psv : 0 ≤ area2 z s v) (psa : 0 ≤ area2 z s a)
    (se : 0 < area2 s e a0) (ss : 0 < area2 z s e) : 0 ≤ area2 a b v := by
  by_contra hneg
  push Not at hneg
  -- the point of `[v, a]` on the line `s e`
  have hden : 0 < area2 s e a - area2 s e v := by linarith
  set t := -area2 s e v / (area2 s e a - area2 s e v) with ht
  have t0 : 0 ≤ t := div_nonneg (by linarith) hden.le
  have t1 : t < 1 := by rw [ht, div_lt_one hden]; linarith
  set r := lerp v a t with hr
  have hχ : area2 s e r = 0 := by
    rw [hr, area2_lerp, ht]; field_simp; ring
  have hφ : area2 a b r < 0 := by
    rw [hr, area2_lerp, area2_self_left]
    have : 0 < 1 - t := by linarith
    nlinarith [mul_neg_of_pos_of_neg this hneg]
  have hψe : 0 ≤ area2 e a0 r := by
    rw [hr, area2_lerp]; exact add_nonneg (mul_nonneg (by linarith) pev) (mul_nonneg t0 pea)
  have hψs : 0 ≤ area2 z s r := by
    rw [hr, area2_lerp]; exact add_nonneg (mul_nonneg (by linarith) psv) (mul_nonneg t0 psa)
  have hid := line_interp a b s e z a0 r hχ
  have hrhs : 0 ≤ area2 e a0 r * area2 a b s * area2 z s e + area2 z s r * area2 a b e * area2 s e a0 :=
    add_nonneg (mul_nonneg (mul_nonneg hψe fs) ss.le) (mul_nonneg (mul_nonneg hψs fe) se.le)
  have hlhs : area2 a b r * area2 s e a0 * area2 z s e < 0 :=
    mul_neg_of_neg_of_pos (mul_neg_of_neg_of_pos hφ se) ss
  linarith

end C16
