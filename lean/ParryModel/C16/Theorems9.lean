import ParryModel.Field
import ParryModel.C15.Theorems
import ParryModel.C16.Model
import ParryModel.C16.Lemmas2
import ParryModel.C16.Ring
import ParryModel.C16.Geometry
import ParryModel.C16.Theorems7
/-!
# C16 property theorems, part 9: coverage — the emitted triangles cover the kernel of the polygon (every input), hence
the whole interior of a convex polygon; on convex input every triangle lies inside the polygon.

`StrictlyLeftOfAll f cyc p`: `p` is strictly on the left of every directed edge of the cycle (the open kernel of the
polygon; for a convex counter-clockwise polygon: its interior).

* `clipSeq_covers_kernel` / `ear_clipping_covers_kernel` — **every input**: each such point lies in the closed triangle of
  some emitted triangle (if `p` is on the closed right of the diagonal `u → w` it is in the clipped ear, otherwise it is
  strictly left of every edge of the remaining ring).
* `ear_clipping_inside_convex` — convex input: every point of every closed emitted triangle is on the closed left of every
  polygon edge.
Together with `ear_clipping_disjoint_convex` and area conservation: on convex input the triangles tile the polygon exactly.
-/
namespace C16
open Model Model.C15 Model.C16 C15

variable {K : Type} [Field K] [LinearOrder K] [IsStrictOrderedRing K]

/-- `p` is strictly on the left of every directed edge of the closed polygon through `f i`, `i ∈ cyc` -/
def StrictlyLeftOfAll (f : Nat → V2 K) (cyc : List Nat) (p : V2 K) : Prop :=
  ∀ e ∈ polyEdges cyc, 0 < area2 (f e.1) (f e.2) p

/-- `p` is in the closed counter-clockwise triangle `(a, b, c)` -/
def InClosedTri (a b c p : V2 K) : Prop := 0 ≤ area2 a b p ∧ 0 ≤ area2 b c p ∧ 0 ≤ area2 c a p

/-- **coverage of the kernel — any corner-cutting triangulation of any cycle** -/
theorem clipSeq_covers_kernel (f : Nat → V2 K) {cyc : List Nat} {ts : List (Nat × Nat × Nat)} (h : ClipSeq cyc ts)
    (p : V2 K) (hp : StrictlyLeftOfAll f cyc p) :
    ∃ t ∈ ts, InClosedTri (f t.1) (f t.2.1) (f t.2.2) p := by
  induction h with
  | @last cyc k i w u h =>
    have hp' : ∀ e ∈ polyEdges [i, w, u], 0 < area2 (f e.1) (f e.2) p := by
      intro e he
      rw [← h, polyEdges_rotate, List.mem_rotate] at he
      exact hp e he
    have hE : polyEdges [i, w, u] = [(i, w), (w, u), (u, i)] := by simp [polyEdges]
    rw [hE] at hp'
    exact ⟨(u, i, w), by simp, (hp' (u, i) (by simp)).le, (hp' (i, w) (by simp)).le, (hp' (w, u) (by simp)).le⟩
  | @step cyc k e w u mid ts hrot hrest ih =>
    have hp' : ∀ x ∈ polyEdges (e :: w :: (mid ++ [u])), 0 < area2 (f x.1) (f x.2) p := by
      intro x hx
      rw [← hrot, polyEdges_rotate, List.mem_rotate] at hx
      exact hp x hx
    have hne : (w :: (mid ++ [u])) ≠ [] := by simp
    have hold := polyEdges_cons e (w :: (mid ++ [u])) hne
    have hnew := polyEdges_eq_path (w :: (mid ++ [u])) hne
    have hlast : (w :: (mid ++ [u])).getLast hne = u := by simp
    simp only [List.head_cons] at hold hnew
    rw [hlast] at hold hnew
    by_cases hc : 0 < area2 (f u) (f w) p
    · obtain ⟨t, ht, hin⟩ := ih (by
        intro x hx
        rw [hnew, List.mem_append, List.mem_singleton] at hx
        rcases hx with hx | rfl
        · exact hp' x (by rw [hold]; simp [hx])
        · exact hc)
      exact ⟨t, List.mem_cons_of_mem _ ht, hin⟩
    · refine ⟨(u, e, w), by simp, (hp' (u, e) (by rw [hold]; simp)).le, (hp' (e, w) (by rw [hold]; simp)).le, ?_⟩
      have : area2 (f w) (f u) p = - area2 (f u) (f w) p := by simp only [area2]; ring
      simp only
      rw [this]
      push Not at hc
      linarith

variable (sq : K → K)

/-- **C16, coverage — every input** (no simplicity or convexity assumption): on `Some(out)` every point strictly on the
left of every polygon edge (the open kernel; the whole interior when the polygon is convex) lies in some closed emitted
triangle. -/
theorem ear_clipping_covers_kernel (pts : Array (V2 K)) (out : Array (Nat × Nat × Nat)) (p : V2 K) :
    letI := fieldNum K sq
    triangulateEarClipping pts = some out →
    StrictlyLeftOfAll (pt pts) (List.range pts.size) p →
    ∃ t ∈ out.toList, InClosedTri (pt pts t.1) (pt pts t.2.1) (pt pts t.2.2) p := by
  intro h hp
  obtain ⟨_, hseq, _⟩ := @triangulate_clipseq K (fieldNum K sq) pts out h
  exact clipSeq_covers_kernel (@pt K (fieldNum K sq) pts) hseq p hp

/-- in convex position every vertex is on the closed left of every edge of the input cycle -/
private theorem convex_edges_left (f : Nat → V2 K) (n : Nat) (hc : ConvexPos f (List.range n)) :
    ∀ e ∈ polyEdges (List.range n), ∀ v, v < n → 0 ≤ area2 (f e.1) (f e.2) (f v) := by
  rw [convexPos_range] at hc
  intro e he v hv
  obtain ⟨h1, h2⟩ := mem_polyEdges_range he
  rw [h2]
  by_cases hlast : e.1 + 1 = n
  · -- the closing edge `(n-1, 0)`
    have : (e.1 + 1) % n = 0 := by rw [hlast]; exact Nat.mod_self _
    rw [this]
    rcases Nat.eq_zero_or_pos v with rfl | hv0
    · rw [area2_self_right]
    · by_cases hve : v = e.1
      · subst hve; rw [area2_self_left]
      · have := hc 0 v e.1 hv0 (by omega) h1
        rwa [area2_cyc] at this
  · have hm : (e.1 + 1) % n = e.1 + 1 := Nat.mod_eq_of_lt (by omega)
    rw [hm]
    rcases lt_trichotomy v e.1 with hlt | rfl | hgt
    · have := hc v e.1 (e.1 + 1) hlt (by omega) (by omega)
      rwa [← area2_cyc] at this
    · rw [area2_self_left]
    · by_cases hve : v = e.1 + 1
      · subst hve; rw [area2_self_right]
      · exact hc e.1 (e.1 + 1) v (by omega) (by omega) hv

/-- a point of the closed triangle `(a, b, c)` (strictly counter-clockwise) is on the closed left of every directed
line that has the three vertices on its closed left -/
private theorem closedTri_left (u w a b c p : V2 K) (hS : 0 < area2 a b c) (hin : InClosedTri a b c p)
    (ha : 0 ≤ area2 u w a) (hb : 0 ≤ area2 u w b) (hc : 0 ≤ area2 u w c) : 0 ≤ area2 u w p := by
  obtain ⟨h1, h2, h3⟩ := hin
  have hid : area2 a b c * area2 u w p =
      area2 b c p * area2 u w a + area2 c a p * area2 u w b + area2 a b p * area2 u w c := by
    simp only [area2]; ring
  by_contra hneg
  push Not at hneg
  have := mul_neg_of_pos_of_neg hS hneg
  have := mul_nonneg h2 ha
  have := mul_nonneg h3 hb
  have := mul_nonneg h1 hc
  linarith

/-- **C16, containment on convex input**: every point of every closed emitted triangle is on the closed left of every
edge of the (weakly) convex input polygon — no triangle sticks out of the polygon. -/
theorem ear_clipping_inside_convex (pts : Array (V2 K)) (out : Array (Nat × Nat × Nat)) :
    letI := fieldNum K sq
    triangulateEarClipping pts = some out →
    ConvexPos (pt pts) (List.range pts.size) →
    ∀ t ∈ out.toList, ∀ p, InClosedTri (pt pts t.1) (pt pts t.2.1) (pt pts t.2.2) p →
      ∀ e ∈ polyEdges (List.range pts.size), 0 ≤ area2 (pt pts e.1) (pt pts e.2) p := by
  intro h hc t ht p hin e he
  obtain ⟨_, hseq, hccw⟩ := @triangulate_clipseq K (fieldNum K sq) pts out h
  obtain ⟨a, b, c, _⟩ := hseq.mem List.nodup_range t ht
  have hS := ((corner_direction_spec sq _ _ _).1).mp (hccw t ht)
  have hl := convex_edges_left (@pt K (fieldNum K sq) pts) pts.size hc e he
  exact closedTri_left _ _ _ _ _ p hS hin (hl _ (List.mem_range.mp a)) (hl _ (List.mem_range.mp b))
    (hl _ (List.mem_range.mp c))

/-! ## repeated consecutive vertices are rejected (exact arithmetic) -/

/-- every directed edge of the cycle is an edge of exactly the triangle that consumes it: in particular of *some* emitted
triangle `(a, b, c)`, as `a → b`, `b → c` or `c → a` -/
theorem ClipSeq.edge_covered {cyc : List Nat} {ts : List (Nat × Nat × Nat)} (h : ClipSeq cyc ts) :
    ∀ x ∈ polyEdges cyc, ∃ t ∈ ts, x = (t.1, t.2.1) ∨ x = (t.2.1, t.2.2) ∨ x = (t.2.2, t.1) := by
  induction h with
  | @last cyc k i w u h =>
    intro x hx
    have hx' : x ∈ polyEdges [i, w, u] := by rw [← h, polyEdges_rotate, List.mem_rotate]; exact hx
    have hE : polyEdges [i, w, u] = [(i, w), (w, u), (u, i)] := by simp [polyEdges]
    rw [hE] at hx'
    simp only [List.mem_cons, List.not_mem_nil, or_false] at hx'
    exact ⟨(u, i, w), by simp, by tauto⟩
  | @step cyc k e w u mid ts hrot hrest ih =>
    intro x hx
    have hx' : x ∈ polyEdges (e :: w :: (mid ++ [u])) := by rw [← hrot, polyEdges_rotate, List.mem_rotate]; exact hx
    have hne : (w :: (mid ++ [u])) ≠ [] := by simp
    have hold := polyEdges_cons e (w :: (mid ++ [u])) hne
    have hnew := polyEdges_eq_path (w :: (mid ++ [u])) hne
    have hlast : (w :: (mid ++ [u])).getLast hne = u := by simp
    simp only [List.head_cons] at hold hnew
    rw [hlast] at hold hnew
    rw [hold] at hx'
    simp only [List.mem_cons, List.mem_append, List.not_mem_nil, or_false] at hx'
    rcases hx' with rfl | hx' | rfl
    · exact ⟨(u, e, w), by simp, Or.inr (Or.inl rfl)⟩
    · obtain ⟨t, ht, hh⟩ := ih x (by rw [hnew]; simp [hx'])
      exact ⟨t, List.mem_cons_of_mem _ ht, hh⟩
    · exact ⟨(u, e, w), by simp, Or.inl rfl⟩

/-- **C16, rejection of repeated consecutive vertices — exact arithmetic.**  If two cyclically consecutive input vertices
coincide, `triangulate_ear_clipping` returns `None`: the edge between them would have to be an edge of an emitted
triangle, which would then have zero area, but every emitted triangle is strictly counter-clockwise.  (At `f64` the same
input is rejected through the NaN guard, `triangulate_none_of_nan`.) -/
theorem ear_clipping_rejects_repeated_vertex (pts : Array (V2 K)) (i : Nat) (hi : i < pts.size) :
    letI := fieldNum K sq
    pt pts i = pt pts ((i + 1) % pts.size) → triangulateEarClipping pts = none := by
  intro heq
  cases hr : @triangulateEarClipping K (fieldNum K sq) pts with
  | none => rfl
  | some out =>
    exfalso
    obtain ⟨h3, hseq, hccw⟩ := @triangulate_clipseq K (fieldNum K sq) pts out hr
    have hmem : (i, (i + 1) % pts.size) ∈ polyEdges (List.range pts.size) := by
      rw [polyEdges_eq_zip_rotate]
      refine List.mem_iff_getElem.mpr ⟨i, by simp; omega, ?_⟩
      simp [List.getElem_rotate]
    obtain ⟨t, ht, hh⟩ := hseq.edge_covered _ hmem
    have hpos := ((corner_direction_spec sq _ _ _).1).mp (hccw t ht)
    rcases hh with hh | hh | hh <;> simp only [Prod.mk.injEq] at hh <;> obtain ⟨h1, h2⟩ := hh
    · rw [← h1, ← h2, ← heq] at hpos
      simp only [area2] at hpos; ring_nf at hpos; exact lt_irrefl _ hpos
    · rw [← h1, ← h2, ← heq] at hpos
      simp only [area2] at hpos; ring_nf at hpos; exact lt_irrefl _ hpos
    · rw [← h1, ← h2, ← heq] at hpos
      simp only [area2] at hpos; ring_nf at hpos; exact lt_irrefl _ hpos

/-- non-vacuity: the centre of the unit square is strictly left of all four edges -/
example : StrictlyLeftOfAll (K := ℚ) (@pt ℚ (fieldNum ℚ id) #[⟨0,0⟩, ⟨1,0⟩, ⟨1,1⟩, ⟨0,1⟩]) (List.range 4) ⟨1/2, 1/2⟩ := by
  intro e he
  have hE : polyEdges (List.range 4) = [(0, 1), (1, 2), (2, 3), (3, 0)] := by decide
  rw [hE] at he
  simp only [List.mem_cons, List.not_mem_nil, or_false] at he
  rcases he with rfl | rfl | rfl | rfl <;> simp [pt, area2] <;> norm_num

end C16
