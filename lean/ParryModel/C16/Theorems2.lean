import ParryModel.Field
import ParryModel.C15.Theorems
import ParryModel.C16.Model
import ParryModel.C16.Lemmas2
import ParryModel.C16.Ring
import ParryModel.C16.Geometry
/-!
# C16 property theorems, part 2: the ring structure of the ear-clipping output and the exact ear invariant.

* `ear_clipping_count`: the `k`-th emitted triangle consists of three *consecutive* vertices of the ring that remains
  after the first `k` clips (the input cycle without the tips clipped so far), for every input.
* `ear_clipping_ears_empty`: the exact invariant guaranteed by the code's tests, for every input: every emitted triangle
  except the last is strictly counter-clockwise and **every other input vertex** (clipped or not) lies strictly outside
  the closed triangle; the last triangle is only known to be strictly counter-clockwise.
-/
namespace C16
open Model Model.C15 Model.C16 C15

variable {K : Type} [Field K] [LinearOrder K] [IsStrictOrderedRing K] (sq : K → K)

/-- **C16 (a), ear clipping, every input** (no simplicity assumption).  On `Some(out)`:
* `out.len() + 2 = n`;
* for every `k`, the `k`-th triangle `(a, b, c)` consists of three **consecutive vertices of the remaining ring**
  `ringAfter n out k` (the input cycle without the tips `out[0].b, …, out[k-1].b`, which has `n - k` vertices):
  `b` follows `a` and `c` follows `b` in that ring;
* hence all indices are `< n` and pairwise distinct; every triangle is strictly counter-clockwise. -/
theorem ear_clipping_count (pts : Array (V2 K)) (out : Array (Nat × Nat × Nat)) :
    letI := fieldNum K sq
    triangulateEarClipping pts = some out →
    out.size + 2 = pts.size ∧
    (∀ k (hk : k < out.size),
      CycNext (ringAfter pts.size out.toList k) out[k].1 out[k].2.1 ∧
      CycNext (ringAfter pts.size out.toList k) out[k].2.1 out[k].2.2 ∧
      (ringAfter pts.size out.toList k).length + k = pts.size ∧
      out[k].1 < pts.size ∧ out[k].2.1 < pts.size ∧ out[k].2.2 < pts.size ∧
      out[k].1 ≠ out[k].2.1 ∧ out[k].2.1 ≠ out[k].2.2 ∧ out[k].1 ≠ out[k].2.2 ∧
      0 < area2 (pt pts out[k].1) (pt pts out[k].2.1) (pt pts out[k].2.2)) := by
  intro h
  obtain ⟨_, hseq, hccw⟩ := @triangulate_clipseq K (fieldNum K sq) pts out h
  refine ⟨by have := hseq.length; simpa using this, ?_⟩
  intro k hk
  have hk' : k < out.toList.length := by simpa using hk
  obtain ⟨h1, h2, h3⟩ := hseq.ring List.nodup_range k hk'
  have hmem : out[k] ∈ out.toList := by simp
  obtain ⟨a, b, c, d⟩ := hseq.mem List.nodup_range _ hmem
  simp only [Array.getElem_toList, List.length_range] at h1 h2 h3
  exact ⟨h1, h2, h3, List.mem_range.mp a, List.mem_range.mp b, List.mem_range.mp c, d.1, d.2.1, d.2.2,
    ((corner_direction_spec sq _ _ _).1).mp (hccw _ hmem)⟩

/-- non-vacuity / illustration: the unit square is clipped at vertex 3 first (last maximal pointiness), then the ring
`[0, 1, 2]` remains -/
example : ringAfter 4 [(2, 3, 0), (2, 0, 1)] 1 = [0, 1, 2] := by decide

/-! ## the exact ear invariant -/

/-- `is_point_in_triangle(p, a, b, c) == Some(false)` is, on a counter-clockwise triangle, exactly `OutsideTri` -/
theorem inTri_false_iff (a b c p : V2 K) (hpos : 0 < area2 a b c) :
    letI := fieldNum K sq
    isPointInTriangle p a b c = .some false ↔ OutsideTri a b c p := by
  obtain ⟨a1, b1, c1, d1⟩ := corner_direction_spec sq p a b
  obtain ⟨a2, b2, c2, d2⟩ := corner_direction_spec sq p b c
  obtain ⟨a3, b3, c3, d3⟩ := corner_direction_spec sq p c a
  have e1 : area2 p a b = area2 a b p := by simp only [area2]; ring
  have e2 : area2 p b c = area2 b c p := by simp only [area2]; ring
  have e3 : area2 p c a = area2 c a p := by simp only [area2]; ring
  have hsum : area2 a b p + area2 b c p + area2 c a p = area2 a b c := by simp only [area2]; ring
  unfold isPointInTriangle OutsideTri
  simp only [a1, b1, c1, d1, a2, b2, c2, d2, a3, b3, c3, d3, or_self, if_false, e1, e2, e3]
  have hnz : ¬ (area2 a b p = 0 ∧ area2 b c p = 0 ∧ area2 c a p = 0) := by
    rintro ⟨x, y, z⟩; rw [x, y, z] at hsum; linarith
  rw [if_neg hnz]
  simp only [InTri.some.injEq, Bool.not_eq_false', Bool.and_eq_true, decide_eq_true_eq]
  constructor
  · exact fun hh => hh.1
  · intro hh
    refine ⟨hh, ?_⟩
    by_contra hcon
    push Not at hcon
    rcases hh with hh | hh | hh <;> linarith [hcon.1, hcon.2.1, hcon.2.2]

/-- for a counter-clockwise triangle, `OutsideTri` is the complement of the closed triangle (all three signed areas
non-negative ⇔ barycentric coordinates non-negative) -/
theorem outsideTri_iff (a b c p : V2 K) :
    OutsideTri a b c p ↔ ¬ (0 ≤ area2 a b p ∧ 0 ≤ area2 b c p ∧ 0 ≤ area2 c a p) := by
  unfold OutsideTri
  constructor
  · rintro (h | h | h) ⟨x, y, z⟩ <;> linarith
  · intro h
    by_contra hcon
    push Not at hcon
    exact h ⟨hcon.1, hcon.2.1, hcon.2.2⟩

/-- the ear predicate established by `update_vertex`, in exact arithmetic: strictly counter-clockwise corner and every
other input vertex (by index; clipped vertices included) strictly outside the closed triangle -/
def EarQ (pts : Array (V2 K)) (u e w : Nat) : Prop :=
  letI := fieldNum K sq
  0 < area2 (pt pts u) (pt pts e) (pt pts w) ∧
  ∀ j, j < pts.size → j ≠ u → j ≠ e → j ≠ w → OutsideTri (pt pts u) (pt pts e) (pt pts w) (pt pts j)

private theorem updQ_earQ (pts : Array (V2 K)) : @UpdQ K (fieldNum K sq) pts (EarQ sq pts) := by
  intro idx vi he hok
  obtain ⟨hccw, hemp⟩ := @updateVertex_ear K (fieldNum K sq) pts idx vi he hok
  have hpos := ((corner_direction_spec sq _ _ _).1).mp hccw
  refine ⟨hpos, fun j hj h1 h2 h3 => ?_⟩
  exact (inTri_false_iff sq _ _ _ _ hpos).mp (hemp j hj h1 h2 h3)

/-- **C16 (b), the exact invariant the code's tests guarantee — every input** (no simplicity assumption).
On `Some(out)`, `out = ts ++ [last]` is a clipping sequence of the cycle `0 … n-1` (`ClipSeq`: each triangle is
`(prev, tip, next)` in the ring left by the previous clips) such that
* every triangle of `ts` (all but the last) is strictly counter-clockwise **and contains no other input vertex**:
  every vertex `j ∉ {prev, tip, next}` — *including the vertices clipped earlier* — is strictly outside the closed
  triangle;
* the last triangle is strictly counter-clockwise; **nothing else is tested on it** (this is where non-simple input can
  slip through, see the example below and `KNOWN_FINDINGS.txt`). -/
theorem ear_clipping_ears_empty (pts : Array (V2 K)) (out : Array (Nat × Nat × Nat)) :
    letI := fieldNum K sq
    triangulateEarClipping pts = some out →
    ∃ (ts : List (Nat × Nat × Nat)) (last : Nat × Nat × Nat), out.toList = ts ++ [last] ∧
      ClipSeq (List.range pts.size) (ts ++ [last]) ∧
      (∀ t ∈ ts, EarQ sq pts t.1 t.2.1 t.2.2) ∧
      0 < area2 (pt pts last.1) (pt pts last.2.1) (pt pts last.2.2) := by
  intro h
  obtain ⟨ts, last, h1, h2, h3, h4⟩ :=
    @triangulate_clipseqQ K (fieldNum K sq) pts (EarQ sq pts) (updQ_earQ sq pts) out h
  exact ⟨ts, last, h1, h2, h3, ((corner_direction_spec sq _ _ _).1).mp h4⟩

/-- non-vacuity of `EarQ`: in the unit square every corner is an empty ear -/
example : EarQ (K := ℚ) id #[⟨0,0⟩, ⟨1,0⟩, ⟨1,1⟩, ⟨0,1⟩] 2 3 0 := by
  refine ⟨by simp [pt, area2], ?_⟩
  intro j hj h1 h2 h3
  have : j = 1 := by simp at hj; omega
  subst this
  simp [OutsideTri, pt, area2]

end C16
