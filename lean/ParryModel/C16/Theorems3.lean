import ParryModel.Field
import Mathlib.Tactic.IntervalCases
import ParryModel.C15.Theorems
import ParryModel.C16.Model
import ParryModel.C16.Lemmas2
import ParryModel.C16.Ring
import ParryModel.C16.Geometry
import ParryModel.C16.Theorems2
/-!
# C16 property theorems, part 3: on a simple polygon the remaining ring stays a simple polygon of positive area.

`SimplePoly f cyc`: the closed polygon through the points `f i`, `i ∈ cyc` — pairwise distinct vertices, and two distinct
edges have no common point except the position of a shared end vertex (so non-adjacent edges are disjoint and adjacent
edges do not fold back onto each other).  This is the oracle's `isSimple`.

`ear_clipping_rings_simple`: if the input polygon is simple and `triangulate_ear_clipping` returns `Some(out)`, then for
every `k` the ring that remains after `k` clips is again a simple polygon, and its signed area is positive (it is the
sum of the areas of the triangles still to be emitted).  The proof is the *ear-diagonal lemma*: a strictly convex corner
`(u, e, w)` whose closed triangle contains no other vertex has a diagonal `[u, w]` that no remaining edge can meet
(`Geometry.lean`), and the facts about the corner are exactly what the code tested (`ear_clipping_ears_empty`).
-/
namespace C16
open Model Model.C15 Model.C16 C15

variable {K : Type} [Field K] [LinearOrder K] [IsStrictOrderedRing K]

/-- every common point of the closed segments `f e1.1 — f e1.2` and `f e2.1 — f e2.2` is the position of an end-point
index that the two edges share -/
def EdgesOK (f : Nat → V2 K) (e1 e2 : Nat × Nat) : Prop :=
  ∀ x, OnSeg (f e1.1) (f e1.2) x → OnSeg (f e2.1) (f e2.2) x →
    ∃ v, (v = e1.1 ∨ v = e1.2) ∧ (v = e2.1 ∨ v = e2.2) ∧ x = f v

theorem EdgesOK.symm {f : Nat → V2 K} {e1 e2 : Nat × Nat} (h : EdgesOK f e1 e2) : EdgesOK f e2 e1 := by
  intro x h2 h1
  obtain ⟨v, a, b, c⟩ := h x h1 h2
  exact ⟨v, b, a, c⟩

/-- **simple polygon** through the points `f i`, `i ∈ cyc` (in this cyclic order) -/
structure SimplePoly (f : Nat → V2 K) (cyc : List Nat) : Prop where
  nodup : cyc.Nodup
  inj : ∀ i ∈ cyc, ∀ j ∈ cyc, f i = f j → i = j
  edges : ∀ e1 ∈ polyEdges cyc, ∀ e2 ∈ polyEdges cyc, e1 ≠ e2 → EdgesOK f e1 e2

theorem SimplePoly.isRotated {f : Nat → V2 K} {l l' : List Nat} (h : SimplePoly f l) (hr : l ~r l') :
    SimplePoly f l' where
  nodup := hr.nodup_iff.mp h.nodup
  inj := fun i hi j hj => h.inj i (hr.mem_iff.mpr hi) j (hr.mem_iff.mpr hj)
  edges := fun e1 h1 e2 h2 => h.edges e1 ((mem_polyEdges_isRotated hr e1).mpr h1) e2
    ((mem_polyEdges_isRotated hr e2).mpr h2)

/-- what an edge `(a, b)` of the open path `w, mid…, u` (no repetitions, `mid ≠ []`) can be -/
private theorem path_edge_cases {w u : Nat} {mid : List Nat} (hnd : (w :: (mid ++ [u])).Nodup) (hmid : mid ≠ [])
    {p : Nat × Nat} (h : p ∈ pathEdges (w :: (mid ++ [u]))) :
    p.1 ∈ w :: (mid ++ [u]) ∧ p.2 ∈ w :: (mid ++ [u]) ∧ p.1 ≠ u ∧ p.2 ≠ w ∧ (p.1 = w → p.2 ≠ u) := by
  obtain ⟨m1, m2⟩ := mem_pathEdges h
  have hw_notin : w ∉ mid ++ [u] := (List.nodup_cons.mp hnd).1
  have hnd2 : (mid ++ [u]).Nodup := (List.nodup_cons.mp hnd).2
  have hu_notin : u ∉ mid := fun hh => (List.nodup_append.mp hnd2).2.2 u hh u (by simp) rfl
  have hw_mid : w ∉ mid := fun hh => hw_notin (by simp [hh])
  have hwu : w ≠ u := fun hh => hw_notin (by simp [hh])
  have hsplit : pathEdges (w :: (mid ++ [u])) =
      (w, mid.head hmid) :: (pathEdges mid ++ [(mid.getLast hmid, u)]) := by
    have h1 := pathEdges_append [w] (mid ++ [u]) (by simp) (by simp)
    have h2 := pathEdges_append mid [u] hmid (by simp)
    simp only [List.singleton_append, List.getLast_singleton, List.head_append_of_ne_nil hmid] at h1
    rw [h1, h2]
    simp [pathEdges]
  rw [hsplit] at h
  refine ⟨m1, m2, ?_⟩
  rcases List.mem_cons.mp h with rfl | h
  · have hm : mid.head hmid ∈ mid := List.head_mem hmid
    exact ⟨hwu, fun hh => hw_mid (hh ▸ hm), fun _ hh => hu_notin (hh ▸ hm)⟩
  · rcases List.mem_append.mp h with h | h
    · obtain ⟨a1, a2⟩ := mem_pathEdges h
      exact ⟨fun hh => hu_notin (hh ▸ a1), fun hh => hw_mid (hh ▸ a2), fun hh => absurd (hh ▸ a1) hw_mid⟩
    · simp only [List.mem_singleton] at h; subst h
      have hm : mid.getLast hmid ∈ mid := List.getLast_mem hmid
      exact ⟨fun hh => hu_notin (hh ▸ hm), fun hh => hwu hh.symm, fun hh => absurd (hh ▸ hm) hw_mid⟩

/-- **the remaining ring stays simple.**  Clipping a strictly counter-clockwise corner `(u, e, w)` whose closed triangle
contains no other vertex of the ring from a simple polygon leaves a simple polygon. -/
theorem simplePoly_clip (f : Nat → V2 K) (e w u : Nat) (mid : List Nat) (hmid : mid ≠ [])
    (h : SimplePoly f (e :: w :: (mid ++ [u]))) (hS : 0 < area2 (f u) (f e) (f w))
    (hout : ∀ j ∈ mid, OutsideTri (f u) (f e) (f w) (f j)) :
    SimplePoly f (w :: (mid ++ [u])) := by
  have hnd := h.nodup
  have hnd' : (w :: (mid ++ [u])).Nodup := (List.nodup_cons.mp hnd).2
  have he_notin : e ∉ w :: (mid ++ [u]) := (List.nodup_cons.mp hnd).1
  have hne : (w :: (mid ++ [u])) ≠ [] := by simp
  have hold := polyEdges_cons e (w :: (mid ++ [u])) hne
  have hnew := polyEdges_eq_path (w :: (mid ++ [u])) hne
  simp only [List.head_cons] at hold hnew
  have hlast : (w :: (mid ++ [u])).getLast hne = u := by simp
  rw [hlast] at hold hnew
  have hue_mem : (u, e) ∈ polyEdges (e :: w :: (mid ++ [u])) := by rw [hold]; simp
  have hew_mem : (e, w) ∈ polyEdges (e :: w :: (mid ++ [u])) := by rw [hold]; simp
  have hpath_mem : ∀ p ∈ pathEdges (w :: (mid ++ [u])), p ∈ polyEdges (e :: w :: (mid ++ [u])) := by
    intro p hp; rw [hold]; simp [hp]
  have hu_mem : u ∈ w :: (mid ++ [u]) := by simp
  have hw_mem : w ∈ w :: (mid ++ [u]) := by simp
  have hue : u ≠ e := fun hh => he_notin (hh ▸ hu_mem)
  have hwe : w ≠ e := fun hh => he_notin (hh ▸ hw_mem)
  have huw : u ≠ w := by
    intro hh
    have := (List.nodup_cons.mp hnd').1
    exact this (by rw [← hh]; simp)
  -- the new edge against an edge of the path
  have key : ∀ p ∈ pathEdges (w :: (mid ++ [u])), EdgesOK f p (u, w) := by
    intro p hp
    obtain ⟨m1, m2, n1, n2, n3⟩ := path_edge_cases hnd' hmid hp
    have p1e : p.1 ≠ e := fun hh => he_notin (hh ▸ m1)
    have p2e : p.2 ≠ e := fun hh => he_notin (hh ▸ m2)
    have hpu : p ≠ (u, e) := fun hh => p2e (by rw [hh])
    have hpw : p ≠ (e, w) := fun hh => p1e (by rw [hh])
    have ok1 := h.edges p (hpath_mem p hp) (u, e) hue_mem hpu
    have ok2 := h.edges p (hpath_mem p hp) (e, w) hew_mem hpw
    have mem_mid : ∀ j, j ∈ w :: (mid ++ [u]) → j ≠ w → j ≠ u → j ∈ mid := by
      intro j hj h1 h2
      simp only [List.mem_cons, List.mem_append, List.mem_singleton, List.not_mem_nil, or_false] at hj
      rcases hj with hj | hj | hj
      · exact absurd hj h1
      · exact hj
      · exact absurd hj h2
    by_cases c1 : p.1 = w
    · -- the edge leaving `w`
      have p2u : p.2 ≠ u := n3 c1
      have hp2 := hout p.2 (mem_mid p.2 m2 n2 p2u)
      have miss : ∀ x, OnSeg (f w) (f p.2) x → ¬ OnSeg (f u) (f e) x := by
        intro x hx1 hx2
        rw [← c1] at hx1
        obtain ⟨v, hv1, hv2, _⟩ := ok1 x hx1 hx2
        simp only at hv2
        rcases hv1 with rfl | rfl <;> rcases hv2 with hv | hv
        · exact n1 hv
        · exact p1e hv
        · exact p2u hv
        · exact p2e hv
      intro x hx1 hx2
      rw [c1] at hx1
      have := diag_adjacent_w (f u) (f e) (f w) (f p.2) hS hp2 miss x hx1 hx2
      exact ⟨w, Or.inl c1.symm, Or.inr rfl, this⟩
    · by_cases c2 : p.2 = u
      · -- the edge arriving at `u`
        have hp1 := hout p.1 (mem_mid p.1 m1 c1 n1)
        have miss : ∀ x, OnSeg (f p.1) (f u) x → ¬ OnSeg (f e) (f w) x := by
          intro x hx1 hx2
          rw [← c2] at hx1
          obtain ⟨v, hv1, hv2, _⟩ := ok2 x hx1 hx2
          simp only at hv2
          rcases hv1 with rfl | rfl <;> rcases hv2 with hv | hv
          · exact p1e hv
          · exact c1 hv
          · exact p2e hv
          · exact n2 hv
        intro x hx1 hx2
        rw [c2] at hx1
        have := diag_adjacent_u (f u) (f e) (f w) (f p.1) hS hp1 miss x hx1 hx2
        exact ⟨u, Or.inr c2.symm, Or.inl rfl, this⟩
      · -- an edge away from the corner
        have hp1 := hout p.1 (mem_mid p.1 m1 c1 n1)
        have hp2 := hout p.2 (mem_mid p.2 m2 n2 c2)
        have miss1 : ∀ x, OnSeg (f p.1) (f p.2) x → ¬ OnSeg (f u) (f e) x := by
          intro x hx1 hx2
          obtain ⟨v, hv1, hv2, _⟩ := ok1 x hx1 hx2
          simp only at hv2
          rcases hv1 with rfl | rfl <;> rcases hv2 with hv | hv
          · exact n1 hv
          · exact p1e hv
          · exact c2 hv
          · exact p2e hv
        have miss2 : ∀ x, OnSeg (f p.1) (f p.2) x → ¬ OnSeg (f e) (f w) x := by
          intro x hx1 hx2
          obtain ⟨v, hv1, hv2, _⟩ := ok2 x hx1 hx2
          simp only at hv2
          rcases hv1 with rfl | rfl <;> rcases hv2 with hv | hv
          · exact p1e hv
          · exact c1 hv
          · exact p2e hv
          · exact n2 hv
        intro x hx1 hx2
        exact absurd hx2 (diag_nonadjacent (f u) (f e) (f w) (f p.1) (f p.2) hS hp1 hp2 miss1 miss2 x hx1)
  refine ⟨hnd', fun i hi j hj => h.inj i (List.mem_cons_of_mem _ hi) j (List.mem_cons_of_mem _ hj), ?_⟩
  intro e1 h1 e2 h2 hne12
  rw [hnew, List.mem_append, List.mem_singleton] at h1 h2
  rcases h1 with h1 | rfl <;> rcases h2 with h2 | rfl
  · exact h.edges e1 (hpath_mem e1 h1) e2 (hpath_mem e2 h2) hne12
  · exact key e1 h1
  · exact (key e2 h2).symm
  · exact absurd rfl hne12

variable (sq : K → K)

/-- signed-area conservation along a clipping sequence (same statement as `clipSeq_area`) -/
private theorem clipSeq_area' (f : Nat → V2 K) {cyc : List Nat} {ts : List (Nat × Nat × Nat)} (h : ClipSeq cyc ts) :
    (ts.map fun t => area2 (f t.1) (f t.2.1) (f t.2.2)).sum = edgeSum f (polyEdges cyc) := by
  induction h with
  | @last cyc k i w u h =>
    rw [← edgeSum_rotate f cyc k, h, edgeSum_triangle]; simp
  | @step cyc k e w u mid ts hrot _ ih =>
    rw [← edgeSum_rotate f cyc k, hrot, edgeSum_clip f e (w :: (mid ++ [u])) (by simp), List.map_cons, List.sum_cons, ih]
    simp [add_comm]

private theorem clipSeq_ne_nil {cyc : List Nat} {ts : List (Nat × Nat × Nat)} (h : ClipSeq cyc ts) : ts ≠ [] := by
  cases h <;> simp

/-- **C16 (b), the remaining ring stays a simple counter-clockwise polygon.**  If the input polygon is simple and
`triangulate_ear_clipping` returns `Some(out)`, then for every `k < out.len()` the ring remaining after `k` clips
(`ringAfter n out k`) is a simple polygon, its signed area is positive, and it is triangulated by `out[k..]`
(`ClipSeq`): in particular `out[k]` is an ear of a *simple* polygon — a strictly convex corner whose closed triangle
contains no other vertex.  (That the triangles' interiors are pairwise disjoint needs in addition that a simple polygon
has winding number ≤ 1 everywhere — see `Theorems4.lean`.) -/
theorem ear_clipping_rings_simple (pts : Array (V2 K)) (out : Array (Nat × Nat × Nat)) :
    letI := fieldNum K sq
    triangulateEarClipping pts = some out →
    SimplePoly (pt pts) (List.range pts.size) →
    ∀ k, k < out.size →
      SimplePoly (pt pts) (ringAfter pts.size out.toList k) ∧
      0 < shoelace2 ((ringAfter pts.size out.toList k).map (pt pts)) ∧
      ClipSeq (ringAfter pts.size out.toList k) (out.toList.drop k) := by
  intro hsome hsimple k hk
  obtain ⟨ts, last, hout, hseq, hear, hlast⟩ := ear_clipping_ears_empty sq pts out hsome
  set f := @pt K (fieldNum K sq) pts with hf
  -- the inherited hypothesis: simple ring of valid indices, all triangles still to come are tested ears
  let H : List Nat → List (Nat × Nat × Nat) → Prop := fun l rem =>
    SimplePoly f l ∧ (∀ i ∈ l, i < pts.size) ∧ (∀ t ∈ rem.dropLast, EarQ sq pts t.1 t.2.1 t.2.2) ∧
    (∀ t ∈ rem, 0 < area2 (f t.1) (f t.2.1) (f t.2.2))
  have hH0 : H (List.range pts.size) (ts ++ [last]) := by
    refine ⟨hsimple, fun i hi => List.mem_range.mp hi, ?_, ?_⟩
    · intro t ht; rw [List.dropLast_concat] at ht; exact hear t ht
    · intro t ht
      rcases List.mem_append.mp ht with ht | ht
      · exact (hear t ht).1
      · simp only [List.mem_singleton] at ht; subst ht; exact hlast
  have hk' : k < (ts ++ [last]).length := by rw [← hout]; simpa using hk
  have hind := ClipSeq.ring_induction H
    (fun l l' rem hr hh => ⟨hh.1.isRotated hr, fun i hi => hh.2.1 i (hr.mem_iff.mpr hi), hh.2.2⟩)
    (by
      intro e w u mid rem hrest hnd hh
      obtain ⟨hs, hlt, hq, hpos⟩ := hh
      have hrem : rem ≠ [] := clipSeq_ne_nil hrest
      have hmid : mid ≠ [] := by
        have := hrest.length
        intro hm; subst hm
        simp only [List.nil_append, List.length_cons, List.length_nil] at this
        have : rem.length = 0 := by omega
        exact hrem (List.eq_nil_of_length_eq_zero this)
      have hdl : ((u, e, w) :: rem).dropLast = (u, e, w) :: rem.dropLast := by
        cases rem with
        | nil => exact absurd rfl hrem
        | cons a b => rfl
      have hq0 := hq (u, e, w) (by rw [hdl]; simp)
      have hnd' : (w :: (mid ++ [u])).Nodup := (List.nodup_cons.mp hnd).2
      have he_notin : e ∉ w :: (mid ++ [u]) := (List.nodup_cons.mp hnd).1
      refine ⟨simplePoly_clip f e w u mid hmid hs hq0.1 ?_, fun i hi => hlt i (List.mem_cons_of_mem _ hi),
        fun t ht => hq t (by rw [hdl]; exact List.mem_cons_of_mem _ ht),
        fun t ht => hpos t (List.mem_cons_of_mem _ ht)⟩
      intro j hj
      have hjm : j ∈ w :: (mid ++ [u]) := by simp [hj]
      refine hq0.2 j (hlt j (List.mem_cons_of_mem _ hjm)) ?_ ?_ ?_
      · intro (hju : j = u)
        have := (List.nodup_append.mp (List.nodup_cons.mp hnd').2).2.2
        exact this j hj u (by simp) hju
      · intro (hje : j = e); exact he_notin (hje ▸ hjm)
      · intro (hjw : j = w); exact (List.nodup_cons.mp hnd').1 (by rw [← hjw]; simp [hj]))
    hseq List.nodup_range hH0 k hk'
  obtain ⟨⟨hs, _, _, hpos⟩, hclip⟩ := hind
  rw [hout]
  refine ⟨hs, ?_, hclip⟩
  have harea := clipSeq_area' f hclip
  show 0 < shoelace2 ((ringOf (List.range pts.size) (ts ++ [last]) k).map f)
  rw [shoelace2, edgeSum_map, ← harea]
  apply List.sum_pos
  · intro x hx
    obtain ⟨t, ht, rfl⟩ := List.mem_map.mp hx
    exact hpos t ht
  · simpa using clipSeq_ne_nil hclip

/-- non-vacuity: the unit square is a simple polygon -/
example : SimplePoly (K := ℚ) (@pt ℚ (fieldNum ℚ id) #[⟨0,0⟩, ⟨1,0⟩, ⟨1,1⟩, ⟨0,1⟩]) (List.range 4) := by
  refine ⟨by decide, ?_, ?_⟩
  · intro i hi j hj
    simp only [List.mem_range] at hi hj
    interval_cases i <;> interval_cases j <;> simp [pt]
  · intro e1 h1 e2 h2 hne x hx1 hx2
    have hE : polyEdges (List.range 4) = [(0, 1), (1, 2), (2, 3), (3, 0)] := by decide
    rw [hE] at h1 h2
    obtain ⟨s, s0, s1, sx, sy⟩ := hx1
    obtain ⟨t, t0, t1, tx, ty⟩ := hx2
    simp only [List.mem_cons, List.not_mem_nil, or_false] at h1 h2
    rcases h1 with rfl | rfl | rfl | rfl <;> rcases h2 with rfl | rfl | rfl | rfl <;>
      first
      | exact absurd rfl hne
      | (simp [pt] at sx sy tx ty
         first
         | (exfalso; linarith)
         | (refine ⟨1, by simp, by simp, ?_⟩; cases x; simp [pt] at *; constructor <;> linarith)
         | (refine ⟨2, by simp, by simp, ?_⟩; cases x; simp [pt] at *; constructor <;> linarith)
         | (refine ⟨3, by simp, by simp, ?_⟩; cases x; simp [pt] at *; constructor <;> linarith)
         | (refine ⟨0, by simp, by simp, ?_⟩; cases x; simp [pt] at *; constructor <;> linarith))

end C16
