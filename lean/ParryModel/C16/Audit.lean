import ParryModel.C16.Theorems
#print axioms C16.clipSeq_area
#print axioms C16.triangulate_lt3
#print axioms C16.ear_clipping_sound
#print axioms C16.ear_clipping_rejects_cw
#print axioms C16.hertel_mehlhorn_sound
#print axioms C16.ear_clipping_count
#print axioms C16.inTri_false_iff
#print axioms C16.outsideTri_iff
#print axioms C16.ear_clipping_ears_empty
#print axioms C16.EdgesOK.symm
#print axioms C16.SimplePoly.isRotated
#print axioms C16.simplePoly_clip
#print axioms C16.ear_clipping_rings_simple
