import ParryModel.C16.Theorems
#print axioms C16.clipSeq_area
#print axioms C16.triangulate_lt3
#print axioms C16.ear_clipping_sound
#print axioms C16.ear_clipping_rejects_cw
#print axioms C16.hertel_mehlhorn_sound
