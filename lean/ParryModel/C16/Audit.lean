import ParryModel.C16.Theorems
#print axioms C16.triangulate_lt3
