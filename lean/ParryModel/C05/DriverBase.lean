import ParryModel.Proto
import ParryModel.C05.Model
/-!
C05 protocol handlers.  Function names are `<shape>_<op>`:
shapes `seg2 seg3 ball2 ball3 hs2 hs3 cub2 cub3 cap2 cap3 tri2 tri3 cyl cone`,
ops `proj dist cont feat maxd wproj wdist wcont` (+ `loc` for segments and triangles).

* `model`: the transliterated function at `Float`, printed like the harness.
* `oracle`: the implementation's output re-judged in exact `Rat` arithmetic against an *independent*
  closed-form description of the shape: exact membership `mem`, distance to the solid `dist` and distance to the
  boundary `bdist` (clamp formulas / coordinate-wise formulas / radial reductions; square roots by a 2⁻⁴⁰ rational
  approximation).  A projection is accepted iff (1) the inside flag is the exact membership (or the query point is
  within tolerance of the boundary), (2) the returned point is in the shape — on the boundary when `solid = false`
  or the point is outside —, (3) its distance to the query point is the true minimum (`≤ dist + tol`).
-/
namespace C05
open Model Proto

/-! ## exact helpers -/

def rsqrt (x : Rat) : Rat := match Rat.sqrtExact? x with
  | some r => r
  | none => Rat.sqrtApprox x
def rmax (a b : Rat) : Rat := if a < b then b else a
def rmin (a b : Rat) : Rat := if b < a then b else a
def tol : Rat := 1 / 1000000000
/-- diagnostic print only -/
def rf (x : Rat) : Float := Float.ofInt (x * 1000000000000).floor / 1000000000000.0

structure Spec (V : Type → Type) where
  /-- shape inside the property's domain (non-degenerate, positive extents) -/
  valid : Bool
  mem : V Rat → Bool
  dist : V Rat → Rat
  bdist : V Rat → Rat
  /-- input class label appended to failure verdicts (keys KNOWN_FINDINGS entries narrowly) -/
  cls : V Rat → String := fun _ => ""

/-- everything the generic handlers need to know about a dimension -/
structure DimOps (V I : Type → Type) where
  pv : P (V Float)
  pvo : P (V Float)
  piso : P (I Float)
  fv : V Float → String
  qv : V Float → V Rat
  qiso : I Float → I Rat
  invActQ : I Rat → V Rat → V Rat
  subQ : V Rat → V Rat → V Rat
  normSqQ : V Rat → Rat
  norm1Q : V Rat → Rat
  isoOk : I Rat → Bool
  posedProj : (V Float → Bool → Bool × V Float) → I Float → V Float → Bool → Bool × V Float
  posedDist : (V Float → Bool → Float) → I Float → V Float → Bool → Float
  posedCont : (V Float → Bool) → I Float → V Float → Bool
  maxDist : (V Float → Bool → Bool × V Float) → V Float → Bool → Float → Option (Bool × V Float)

def pp3 (p : PP3 Float) : Bool × V3 Float := (p.inside, p.pt)
def pp2 (p : PP2 Float) : Bool × V2 Float := (p.inside, p.pt)
def unpp3 (p : Bool × V3 Float) : PP3 Float := ⟨p.1, p.2⟩
def unpp2 (p : Bool × V2 Float) : PP2 Float := ⟨p.1, p.2⟩

def pvo3 : P (V3 Float) := do let x ← pfo; let y ← pfo; let z ← pfo; pure ⟨x, y, z⟩
def pvo2 : P (V2 Float) := do let x ← pfo; let y ← pfo; pure ⟨x, y⟩

def D3 : DimOps V3 Iso3 where
  pv := pv3
  pvo := pvo3
  piso := piso3
  fv := fv3
  qv := q3
  qiso := qiso3
  invActQ := fun m p => m.invAct p
  subQ := V3.sub
  normSqQ := V3.normSq
  norm1Q := fun v => rabs v.x + rabs v.y + rabs v.z
  isoOk := fun m => rabs (m.qi*m.qi + m.qj*m.qj + m.qk*m.qk + m.qw*m.qw - 1) ≤ 1/1000000000000
  posedProj := fun f m p s => pp3 (posedProject3 (fun x b => unpp3 (f x b)) m p s)
  posedDist := fun f m p s => posedDistance3 f m p s
  posedCont := fun f m p => posedContains3 f m p
  maxDist := fun f p s d => (defaultMaxDist3 (fun x b => unpp3 (f x b)) p s d).map pp3

def D2 : DimOps V2 Iso2 where
  pv := pv2
  pvo := pvo2
  piso := piso2
  fv := fv2
  qv := q2
  qiso := qiso2
  invActQ := fun m p => m.invAct p
  subQ := V2.sub
  normSqQ := V2.normSq
  norm1Q := fun v => rabs v.x + rabs v.y
  isoOk := fun m => rabs (m.re*m.re + m.im*m.im - 1) ≤ 1/1000000000000
  posedProj := fun f m p s => pp2 (posedProject2 (fun x b => unpp2 (f x b)) m p s)
  posedDist := fun f m p s => posedDistance2 f m p s
  posedCont := fun f m p => posedContains2 f m p
  maxDist := fun f p s d => (defaultMaxDist2 (fun x b => unpp2 (f x b)) p s d).map pp2

def ffeat : Feat → String
  | .vertex i => s!"V {i}"
  | .edge i => s!"E {i}"
  | .face i => s!"F {i}"
  | .unknown => "U"
def pfeat : P Feat := do
  let t ← tok
  if t = "U" then pure Feat.unknown else
  let i ← pnat
  if t = "V" then pure (Feat.vertex i) else if t = "E" then pure (Feat.edge i)
  else if t = "F" then pure (Feat.face i) else failure

/-- per-shape description: model functions at `Float` and the exact specification -/
structure ShapeH (V I : Type → Type) (σ : Type) where
  parse : P σ
  project : σ → V Float → Bool → Bool × V Float
  distance : σ → V Float → Bool → Float
  contains : σ → V Float → Bool
  feature : σ → V Float → (Bool × V Float) × Feat
  spec : σ → Spec V
  /-- does the reported feature contain the (exact) projection, within `t`? -/
  featOk : σ → Feat → V Rat → Rat → Bool

section generic
variable {V I : Type → Type} {σ : Type}

def ftol (D : DimOps V I) (p q : V Rat) : Rat := tol * (1 + D.norm1Q p + D.norm1Q q)

/-- the three clauses of the property on one projection (local frame, exact arithmetic) -/
def judgeProj (D : DimOps V I) (S : Spec V) (p : V Rat) (solid inside : Bool) (proj : V Rat) : String :=
  if !S.valid then "skip shape-outside-domain" else
  let t := ftol D p proj
  let m := S.mem p
  let c := S.cls p
  if inside != m && !(S.bdist p ≤ t) then s!"fail inside-flag{c} flag={inside} exact={m} bdist={rf (S.bdist p)}"
  else if !(S.dist proj ≤ t) then s!"fail projection-not-in-shape{c} dist={rf (S.dist proj)}"
  else if (!solid || !m) && !(S.bdist proj ≤ t) then s!"fail projection-not-on-boundary{c} bdist={rf (S.bdist proj)}"
  else
    let d := rsqrt (D.normSqQ (D.subQ p proj))
    let best := if solid then S.dist p else S.bdist p
    if d ≤ best + t then "pass" else s!"fail not-nearest{c} got={rf d} best={rf best}"

def judgeDist (D : DimOps V I) (S : Spec V) (p : V Rat) (solid : Bool) (d : Rat) : String :=
  if !S.valid then "skip shape-outside-domain" else
  let t := ftol D p p
  let m := S.mem p
  let expect := if solid then S.dist p else if m then -(S.bdist p) else S.bdist p
  if rabs (d - expect) ≤ t then "pass" else s!"fail distance got={rf d} expected={rf expect}"

def judgeCont (D : DimOps V I) (S : Spec V) (p : V Rat) (c : Bool) : String :=
  if !S.valid then "skip shape-outside-domain" else
  let m := S.mem p
  if c == m || S.bdist p ≤ ftol D p p then "pass" else s!"fail contains got={c} exact={m}"

def withOut {α} (p : P α) (out : List String) (k : α → String) : String :=
  match out with
  | "panic" :: _ => "fail panic"
  | _ => match run p out with
    | some a => k a
    | none => "fail unparsable-output"

def ppOut (D : DimOps V I) : P (Bool × V Float) := do let b ← pbool; let v ← D.pvo; pure (b, v)
def fpp (D : DimOps V I) (r : Bool × V Float) : String := s!"{fb r.1} {D.fv r.2}"
def vNan (D : DimOps V I) (v : V Float) : Bool := decide (((D.fv v).splitOn "nan").length > 1)

def mk (D : DimOps V I) (H : ShapeH V I σ) (op : String) : Option Handler :=
  match op with
  | "proj" => some {
      model := fun a => run (do let s ← H.parse; let p ← D.pv; let so ← pbool; pure (fpp D (H.project s p so))) a
      oracle := fun a o => match run (do let s ← H.parse; let p ← D.pv; let so ← pbool; pure (s, p, so)) a with
        | some (s, p, so) => withOut (ppOut D) o fun (ins, pr) =>
            if !(H.spec s).valid then "skip shape-outside-domain"
            else if vNan D pr then "fail nan-projection" else judgeProj D (H.spec s) (D.qv p) so ins (D.qv pr)
        | none => "skip bad-args" }
  | "dist" => some {
      model := fun a => run (do let s ← H.parse; let p ← D.pv; let so ← pbool; pure (ff (H.distance s p so))) a
      oracle := fun a o => match run (do let s ← H.parse; let p ← D.pv; let so ← pbool; pure (s, p, so)) a with
        | some (s, p, so) => withOut pfo o fun d =>
            if !(H.spec s).valid then "skip shape-outside-domain"
            else if d.isNaN then "fail nan-distance" else judgeDist D (H.spec s) (D.qv p) so (q d)
        | none => "skip bad-args" }
  | "cont" => some {
      model := fun a => run (do let s ← H.parse; let p ← D.pv; pure (fb (H.contains s p))) a
      oracle := fun a o => match run (do let s ← H.parse; let p ← D.pv; pure (s, p)) a with
        | some (s, p) => withOut pbool o fun c => judgeCont D (H.spec s) (D.qv p) c
        | none => "skip bad-args" }
  | "feat" => some {
      model := fun a => run (do let s ← H.parse; let p ← D.pv
                                let r := H.feature s p; pure s!"{fpp D r.1} {ffeat r.2}") a
      oracle := fun a o => match run (do let s ← H.parse; let p ← D.pv; pure (s, p)) a with
        | some (s, p) => withOut (do let r ← ppOut D; let f ← pfeat; pure (r, f)) o fun ((_, pr), f) =>
            if !(H.spec s).valid then "skip shape-outside-domain"
            else if vNan D pr then "fail nan-projection"
            else if f == Feat.unknown then "fail feature-unknown"
            else if H.featOk s f (D.qv pr) (ftol D (D.qv p) (D.qv pr)) then "pass"
            else s!"fail feature-does-not-contain-projection{(H.spec s).cls (D.qv p)} {ffeat f}"
        | none => "skip bad-args" }
  | "maxd" => some {
      model := fun a => run (do let s ← H.parse; let p ← D.pv; let so ← pbool; let d ← pf
                                pure (match D.maxDist (H.project s) p so d with
                                  | none => "none" | some r => "some " ++ fpp D r)) a
      oracle := fun a o => match run (do let s ← H.parse; let p ← D.pv; let so ← pbool; let d ← pf; pure (s, p, so, d)) a with
        | some (s, p, so, d) =>
          let S := H.spec s
          if !S.valid then "skip shape-outside-domain" else
          let P := D.qv p
          let best := if so then S.dist P else S.bdist P
          let t := ftol D P P
          match o with
          | ["none"] => if q d ≤ best + t then "pass" else s!"fail none-within-bound best={rf best}"
          | "some" :: rest => withOut (ppOut D) rest fun (ins, pr) =>
              if vNan D pr then "fail nan-projection"
              else if !(best ≤ q d + t) then s!"fail some-beyond-bound best={rf best}"
              else judgeProj D S P so ins (D.qv pr)
          | _ => "fail unparsable-output"
        | none => "skip bad-args" }
  | "wproj" => some {
      model := fun a => run (do let s ← H.parse; let m ← D.piso; let p ← D.pv; let so ← pbool
                                pure (fpp D (D.posedProj (H.project s) m p so))) a
      oracle := fun a o => match run (do let s ← H.parse; let m ← D.piso; let p ← D.pv; let so ← pbool; pure (s, m, p, so)) a with
        | some (s, m, p, so) => withOut (ppOut D) o fun (ins, pr) =>
            let M := D.qiso m
            if !D.isoOk M then "skip non-unit-rotation"
            else if !(H.spec s).valid then "skip shape-outside-domain"
            else if vNan D pr then "fail nan-projection"
            else judgeProj D (H.spec s) (D.invActQ M (D.qv p)) so ins (D.invActQ M (D.qv pr))
        | none => "skip bad-args" }
  | "wdist" => some {
      model := fun a => run (do let s ← H.parse; let m ← D.piso; let p ← D.pv; let so ← pbool
                                pure (ff (D.posedDist (H.distance s) m p so))) a
      oracle := fun a o => match run (do let s ← H.parse; let m ← D.piso; let p ← D.pv; let so ← pbool; pure (s, m, p, so)) a with
        | some (s, m, p, so) => withOut pfo o fun d =>
            let M := D.qiso m
            if !D.isoOk M then "skip non-unit-rotation"
            else if !(H.spec s).valid then "skip shape-outside-domain"
            else if d.isNaN then "fail nan-distance"
            else judgeDist D (H.spec s) (D.invActQ M (D.qv p)) so (q d)
        | none => "skip bad-args" }
  | "wcont" => some {
      model := fun a => run (do let s ← H.parse; let m ← D.piso; let p ← D.pv
                                pure (fb (D.posedCont (H.contains s) m p))) a
      oracle := fun a o => match run (do let s ← H.parse; let m ← D.piso; let p ← D.pv; pure (s, m, p)) a with
        | some (s, m, p) => withOut pbool o fun c =>
            let M := D.qiso m
            if !D.isoOk M then "skip non-unit-rotation"
            else judgeCont D (H.spec s) (D.invActQ M (D.qv p)) c
        | none => "skip bad-args" }
  | _ => none

end generic

/-! ## exact shape descriptions (independent of the model functions) -/

def segDist2_3 (a b p : V3 Rat) : Rat :=
  let ab := b.sub a
  let l := ab.normSq
  let t := if l = 0 then 0 else rmax 0 (rmin 1 ((p.sub a).dot ab / l))
  (p.sub (a.add (ab.smul t))).normSq
def segDist2_2 (a b p : V2 Rat) : Rat :=
  let ab := b.sub a
  let l := ab.normSq
  let t := if l = 0 then 0 else rmax 0 (rmin 1 ((p.sub a).dot ab / l))
  (p.sub (a.add (ab.smul t))).normSq

def near3 (a b : V3 Rat) (t : Rat) : Bool := rabs (a.x - b.x) ≤ t && rabs (a.y - b.y) ≤ t && rabs (a.z - b.z) ≤ t
def near2 (a b : V2 Rat) (t : Rat) : Bool := rabs (a.x - b.x) ≤ t && rabs (a.y - b.y) ≤ t

def extOk (x : Rat) : Bool := (1 : Rat) / 1000 ≤ x && x ≤ 1000

/-! segments -/
def segSpec3 (s : Segment3 Float) : Spec V3 :=
  let a := q3 s.a; let b := q3 s.b
  { valid := true
    mem := fun p => segDist2_3 a b p == 0
    dist := fun p => rsqrt (segDist2_3 a b p)
    bdist := fun p => rsqrt (segDist2_3 a b p) }
def segSpec2 (s : Segment2 Float) : Spec V2 :=
  let a := q2 s.a; let b := q2 s.b
  { valid := true
    mem := fun p => segDist2_2 a b p == 0
    dist := fun p => rsqrt (segDist2_2 a b p)
    bdist := fun p => rsqrt (segDist2_2 a b p) }

/-! balls -/
def ballSpec3 (s : Ball Float) : Spec V3 :=
  let r := q s.r
  { valid := extOk r
    mem := fun p => p.normSq ≤ r * r
    dist := fun p => rmax (rsqrt p.normSq - r) 0
    bdist := fun p => rabs (rsqrt p.normSq - r) }
def ballSpec2 (s : Ball Float) : Spec V2 :=
  let r := q s.r
  { valid := extOk r
    mem := fun p => p.normSq ≤ r * r
    dist := fun p => rmax (rsqrt p.normSq - r) 0
    bdist := fun p => rabs (rsqrt p.normSq - r) }

/-! half-spaces (unit normal up to rounding) -/
def hsSpec3 (s : HalfSpace3 Float) : Spec V3 :=
  let n := q3 s.n
  let len := rsqrt n.normSq
  { valid := rabs (n.normSq - 1) ≤ 1 / 1000000000000
    mem := fun p => n.dot p ≤ 0
    dist := fun p => rmax (n.dot p / len) 0
    bdist := fun p => rabs (n.dot p / len) }
def hsSpec2 (s : HalfSpace2 Float) : Spec V2 :=
  let n := q2 s.n
  let len := rsqrt n.normSq
  { valid := rabs (n.normSq - 1) ≤ 1 / 1000000000000
    mem := fun p => n.dot p ≤ 0
    dist := fun p => rmax (n.dot p / len) 0
    bdist := fun p => rabs (n.dot p / len) }

/-! cuboids -/
def cubSpec3 (s : Cuboid3 Float) : Spec V3 :=
  let h := q3 s.he
  let ex (p : V3 Rat) : V3 Rat := ⟨rabs p.x - h.x, rabs p.y - h.y, rabs p.z - h.z⟩
  let outd (p : V3 Rat) : Rat :=
    let e := ex p
    rsqrt (rmax e.x 0 * rmax e.x 0 + rmax e.y 0 * rmax e.y 0 + rmax e.z 0 * rmax e.z 0)
  let mem (p : V3 Rat) : Bool := let e := ex p; e.x ≤ 0 && e.y ≤ 0 && e.z ≤ 0
  { valid := extOk h.x && extOk h.y && extOk h.z
    mem := mem
    dist := outd
    bdist := fun p => if mem p then (let e := ex p; rmin (-e.x) (rmin (-e.y) (-e.z))) else outd p }
def cubSpec2 (s : Cuboid2 Float) : Spec V2 :=
  let h := q2 s.he
  let ex (p : V2 Rat) : V2 Rat := ⟨rabs p.x - h.x, rabs p.y - h.y⟩
  let outd (p : V2 Rat) : Rat :=
    let e := ex p
    rsqrt (rmax e.x 0 * rmax e.x 0 + rmax e.y 0 * rmax e.y 0)
  let mem (p : V2 Rat) : Bool := let e := ex p; e.x ≤ 0 && e.y ≤ 0
  { valid := extOk h.x && extOk h.y
    mem := mem
    dist := outd
    bdist := fun p => if mem p then (let e := ex p; rmin (-e.x) (-e.y)) else outd p }

/-! capsules -/
def capSpec3 (s : Capsule3 Float) : Spec V3 :=
  let a := q3 s.a; let b := q3 s.b; let r := q s.r
  { valid := extOk r
    mem := fun p => segDist2_3 a b p ≤ r * r
    dist := fun p => rmax (rsqrt (segDist2_3 a b p) - r) 0
    bdist := fun p => rabs (rsqrt (segDist2_3 a b p) - r)
    cls := fun p => if rsqrt (segDist2_3 a b p) ≤ (1 / 1000000000000) * (1 + rabs p.x + rabs p.y) then "@near-axis" else "" }
def capSpec2 (s : Capsule2 Float) : Spec V2 :=
  let a := q2 s.a; let b := q2 s.b; let r := q s.r
  { valid := extOk r
    mem := fun p => segDist2_2 a b p ≤ r * r
    dist := fun p => rmax (rsqrt (segDist2_2 a b p) - r) 0
    bdist := fun p => rabs (rsqrt (segDist2_2 a b p) - r)
    cls := fun p => if rsqrt (segDist2_2 a b p) ≤ (1 / 1000000000000) * (1 + rabs p.x + rabs p.y) then "@near-axis" else "" }

/-! cylinder: radial reduction `(ρ, y)` -/
def cylSpec (s : Cylinder Float) : Spec V3 :=
  let hh := q s.hh; let r := q s.r
  let mem (p : V3 Rat) : Bool := rabs p.y ≤ hh && p.x * p.x + p.z * p.z ≤ r * r
  let outd (p : V3 Rat) : Rat :=
    let dy := rmax (rabs p.y - hh) 0
    let dr := rmax (rsqrt (p.x * p.x + p.z * p.z) - r) 0
    rsqrt (dy * dy + dr * dr)
  { valid := extOk hh && extOk r
    mem := mem
    dist := outd
    bdist := fun p => if mem p then rmin (hh - rabs p.y) (r - rsqrt (p.x * p.x + p.z * p.z)) else outd p }

/-! cone: radial reduction; section = triangle apex `(0,hh)`, rim `(±r,-hh)` -/
def coneSpec (s : Cone Float) : Spec V3 :=
  let hh := q s.hh; let r := q s.r
  let mem (p : V3 Rat) : Bool :=
    -hh ≤ p.y && p.y ≤ hh && (p.x * p.x + p.z * p.z) * ((2 * hh) * (2 * hh)) ≤ (r * r) * ((hh - p.y) * (hh - p.y))
  let bd (p : V3 Rat) : Rat :=
    let P : V2 Rat := ⟨rsqrt (p.x * p.x + p.z * p.z), p.y⟩
    rmin (rsqrt (segDist2_2 ⟨0, hh⟩ ⟨r, -hh⟩ P)) (rsqrt (segDist2_2 ⟨-r, -hh⟩ ⟨r, -hh⟩ P))
  { valid := extOk hh && extOk r
    mem := mem
    dist := fun p => if mem p then 0 else bd p
    bdist := bd }

/-! triangles -/
def triSpec2 (s : Triangle2 Float) : Spec V2 :=
  let a := q2 s.a; let b := q2 s.b; let c := q2 s.c
  let n := (b.sub a).perp (c.sub a)
  let mem (p : V2 Rat) : Bool :=
    let ap := p.sub a
    let u := ap.perp (c.sub a) / n
    let v := (b.sub a).perp ap / n
    0 ≤ u && 0 ≤ v && u + v ≤ 1
  let bd (p : V2 Rat) : Rat := rsqrt (rmin (segDist2_2 a b p) (rmin (segDist2_2 b c p) (segDist2_2 a c p)))
  { valid := n != 0
    mem := mem
    dist := fun p => if mem p then 0 else bd p
    bdist := bd }
def triDist2_3 (a b c p : V3 Rat) : Rat :=
  let ab := b.sub a; let ac := c.sub a; let ap := p.sub a
  let n := ab.cross ac
  let nn := n.normSq
  let edges := rmin (segDist2_3 a b p) (rmin (segDist2_3 b c p) (segDist2_3 a c p))
  if nn = 0 then edges else
  let u := (ap.cross ac).dot n / nn
  let v := (ab.cross ap).dot n / nn
  if 0 ≤ u && 0 ≤ v && u + v ≤ 1 then (n.dot ap) * (n.dot ap) / nn else edges
def triSpec3 (s : Triangle3 Float) : Spec V3 :=
  let a := q3 s.a; let b := q3 s.b; let c := q3 s.c
  { valid := ((b.sub a).cross (c.sub a)).normSq != 0
    mem := fun p => triDist2_3 a b c p == 0
    dist := fun p => rsqrt (triDist2_3 a b c p)
    bdist := fun p => rsqrt (triDist2_3 a b c p) }

/-! ## feature containment -/

def cubFeatOk3 (s : Cuboid3 Float) (f : Feat) (p : V3 Rat) (t : Rat) : Bool :=
  let h := q3 s.he
  let at' (i : Nat) (neg : Bool) : Bool := rabs (p.get i - (if neg then -(h.get i) else h.get i)) ≤ t
  let inr (i : Nat) : Bool := rabs (p.get i) ≤ h.get i + t
  match f with
  | .face i => if i < 3 then at' i false && inr ((i+1)%3) && inr ((i+2)%3)
               else if i < 6 then at' (i-3) true && inr ((i-3+1)%3) && inr ((i-3+2)%3) else false
  | .vertex id => id < 8 && at' 0 (id % 2 == 1) && at' 1 ((id / 2) % 2 == 1) && at' 2 ((id / 4) % 2 == 1)
  | .edge e =>
    let ax := e % 4; let id := e / 4
    ax < 3 && id < 8 && inr ax &&
      (List.range 3).all fun i => i == ax || at' i ((id / (2 ^ i)) % 2 == 1)
  | .unknown => false
def cubFeatOk2 (s : Cuboid2 Float) (f : Feat) (p : V2 Rat) (t : Rat) : Bool :=
  let h := q2 s.he
  let at' (i : Nat) (neg : Bool) : Bool := rabs (p.get i - (if neg then -(h.get i) else h.get i)) ≤ t
  let inr (i : Nat) : Bool := rabs (p.get i) ≤ h.get i + t
  match f with
  | .face i => if i < 2 then at' i false && inr ((i+1)%2)
               else if i < 4 then at' (i-2) true && inr ((i-2+1)%2) else false
  | .vertex id => id < 4 && at' 0 (id % 2 == 1) && at' 1 ((id / 2) % 2 == 1)
  | _ => false

def segFeatOk3 (s : Segment3 Float) (f : Feat) (p : V3 Rat) (t : Rat) : Bool :=
  match f with
  | .vertex 0 => near3 p (q3 s.a) t
  | .vertex 1 => near3 p (q3 s.b) t
  | .edge 0 => rsqrt (segDist2_3 (q3 s.a) (q3 s.b) p) ≤ t
  | _ => false
def segFeatOk2 (s : Segment2 Float) (f : Feat) (p : V2 Rat) (t : Rat) : Bool :=
  match f with
  | .vertex 0 => near2 p (q2 s.a) t
  | .vertex 1 => near2 p (q2 s.b) t
  | .face 0 | .face 1 => rsqrt (segDist2_2 (q2 s.a) (q2 s.b) p) ≤ t
  | _ => false

def triEdge3 (s : Triangle3 Float) (i : Nat) : Option (V3 Rat × V3 Rat) :=
  match i with
  | 0 => some (q3 s.a, q3 s.b) | 1 => some (q3 s.b, q3 s.c) | 2 => some (q3 s.a, q3 s.c) | _ => none
def triEdge2 (s : Triangle2 Float) (i : Nat) : Option (V2 Rat × V2 Rat) :=
  match i with
  | 0 => some (q2 s.a, q2 s.b) | 1 => some (q2 s.b, q2 s.c) | 2 => some (q2 s.a, q2 s.c) | _ => none
def triVert3 (s : Triangle3 Float) (i : Nat) : Option (V3 Rat) :=
  match i with | 0 => some (q3 s.a) | 1 => some (q3 s.b) | 2 => some (q3 s.c) | _ => none
def triVert2 (s : Triangle2 Float) (i : Nat) : Option (V2 Rat) :=
  match i with | 0 => some (q2 s.a) | 1 => some (q2 s.b) | 2 => some (q2 s.c) | _ => none

def triFeatOk3 (s : Triangle3 Float) (f : Feat) (p : V3 Rat) (t : Rat) : Bool :=
  match f with
  | .vertex i => match triVert3 s i with | some v => near3 p v t | none => false
  | .edge i => match triEdge3 s i with | some (a, b) => rsqrt (segDist2_3 a b p) ≤ t | none => false
  | .face i => i < 2 && (triSpec3 s).dist p ≤ t
  | .unknown => false
/-- 2-D: `Face(i)`, `i < 3` is the i-th edge (the code never reports the interior: it is called with `solid = false`) -/
def triFeatOk2 (s : Triangle2 Float) (f : Feat) (p : V2 Rat) (t : Rat) : Bool :=
  match f with
  | .vertex i => match triVert2 s i with | some v => near2 p v t | none => false
  | .face i => match triEdge2 s i with | some (a, b) => rsqrt (segDist2_2 a b p) ≤ t | none => false
  | _ => false

/-! ## shape handlers -/

def pball : P (Ball Float) := do let r ← pf; pure ⟨r⟩
def pseg3 : P (Segment3 Float) := do let a ← pv3; let b ← pv3; pure ⟨a, b⟩
def pseg2 : P (Segment2 Float) := do let a ← pv2; let b ← pv2; pure ⟨a, b⟩
def ptri3 : P (Triangle3 Float) := do let a ← pv3; let b ← pv3; let c ← pv3; pure ⟨a, b, c⟩
def ptri2 : P (Triangle2 Float) := do let a ← pv2; let b ← pv2; let c ← pv2; pure ⟨a, b, c⟩
def pcap3 : P (Capsule3 Float) := do let a ← pv3; let b ← pv3; let r ← pf; pure ⟨a, b, r⟩
def pcap2 : P (Capsule2 Float) := do let a ← pv2; let b ← pv2; let r ← pf; pure ⟨a, b, r⟩

def onBoundary {V} (S : Spec V) : Feat → V Rat → Rat → Bool := fun f p t => f == Feat.face 0 && S.bdist p ≤ t

def Hseg3 : ShapeH V3 Iso3 (Segment3 Float) where
  parse := pseg3
  project := fun s p b => pp3 (s.project p b)
  distance := fun s p b => defaultDistance3 (s.project) p b
  contains := fun s p => defaultContains3 (s.project) p
  feature := fun s p => let r := s.projectFeature p; (pp3 r.1, r.2)
  spec := segSpec3
  featOk := segFeatOk3
def Hseg2 : ShapeH V2 Iso2 (Segment2 Float) where
  parse := pseg2
  project := fun s p b => pp2 (s.project p b)
  distance := fun s p b => defaultDistance2 (s.project) p b
  contains := fun s p => defaultContains2 (s.project) p
  feature := fun s p => let r := s.projectFeature p; (pp2 r.1, r.2)
  spec := segSpec2
  featOk := segFeatOk2
def Hball3 : ShapeH V3 Iso3 (Ball Float) where
  parse := pball
  project := fun s p b => pp3 (s.project3 p b)
  distance := fun s p b => s.distance3 p b
  contains := fun s p => s.contains3 p
  feature := fun s p => (pp3 (s.project3 p false), Feat.face 0)
  spec := ballSpec3
  featOk := fun s => onBoundary (ballSpec3 s)
def Hball2 : ShapeH V2 Iso2 (Ball Float) where
  parse := pball
  project := fun s p b => pp2 (s.project2 p b)
  distance := fun s p b => s.distance2 p b
  contains := fun s p => s.contains2 p
  feature := fun s p => (pp2 (s.project2 p false), Feat.face 0)
  spec := ballSpec2
  featOk := fun s => onBoundary (ballSpec2 s)
def Hhs3 : ShapeH V3 Iso3 (HalfSpace3 Float) where
  parse := do let n ← pv3; pure ⟨n⟩
  project := fun s p b => pp3 (s.project p b)
  distance := fun s p b => s.distance p b
  contains := fun s p => s.contains p
  feature := fun s p => (pp3 (s.project p false), Feat.face 0)
  spec := hsSpec3
  featOk := fun s => onBoundary (hsSpec3 s)
def Hhs2 : ShapeH V2 Iso2 (HalfSpace2 Float) where
  parse := do let n ← pv2; pure ⟨n⟩
  project := fun s p b => pp2 (s.project p b)
  distance := fun s p b => s.distance p b
  contains := fun s p => s.contains p
  feature := fun s p => (pp2 (s.project p false), Feat.face 0)
  spec := hsSpec2
  featOk := fun s => onBoundary (hsSpec2 s)
def Hcub3 : ShapeH V3 Iso3 (Cuboid3 Float) where
  parse := do let h ← pv3; pure ⟨h⟩
  project := fun s p b => pp3 (s.project p b)
  distance := fun s p b => s.distance p b
  contains := fun s p => s.contains p
  feature := fun s p => let r := s.projectFeature p; (pp3 r.1, r.2)
  spec := cubSpec3
  featOk := cubFeatOk3
def Hcub2 : ShapeH V2 Iso2 (Cuboid2 Float) where
  parse := do let h ← pv2; pure ⟨h⟩
  project := fun s p b => pp2 (s.project p b)
  distance := fun s p b => s.distance p b
  contains := fun s p => s.contains p
  feature := fun s p => let r := s.projectFeature p; (pp2 r.1, r.2)
  spec := cubSpec2
  featOk := cubFeatOk2
def Hcap3 : ShapeH V3 Iso3 (Capsule3 Float) where
  parse := pcap3
  project := fun s p b => pp3 (s.project p b)
  distance := fun s p b => defaultDistance3 (s.project) p b
  contains := fun s p => defaultContains3 (s.project) p
  feature := fun s p => (pp3 (s.project p false), Feat.face 0)
  spec := capSpec3
  featOk := fun s => onBoundary (capSpec3 s)
def Hcap2 : ShapeH V2 Iso2 (Capsule2 Float) where
  parse := pcap2
  project := fun s p b => pp2 (s.project p b)
  distance := fun s p b => defaultDistance2 (s.project) p b
  contains := fun s p => defaultContains2 (s.project) p
  feature := fun s p => (pp2 (s.project p false), Feat.face 0)
  spec := capSpec2
  featOk := fun s => onBoundary (capSpec2 s)
def Hcyl : ShapeH V3 Iso3 (Cylinder Float) where
  parse := do let hh ← pf; let r ← pf; pure ⟨hh, r⟩
  project := fun s p b => pp3 (s.project p b)
  distance := fun s p b => defaultDistance3 (s.project) p b
  contains := fun s p => defaultContains3 (s.project) p
  feature := fun s p => (pp3 (s.project p false), Feat.unknown)
  spec := cylSpec
  featOk := fun _ _ _ _ => false
def Hcone : ShapeH V3 Iso3 (Cone Float) where
  parse := do let hh ← pf; let r ← pf; pure ⟨hh, r⟩
  project := fun s p b => pp3 (s.project p b)
  distance := fun s p b => defaultDistance3 (s.project) p b
  contains := fun s p => defaultContains3 (s.project) p
  feature := fun s p => (pp3 (s.project p false), Feat.unknown)
  spec := coneSpec
  featOk := fun _ _ _ _ => false
def Htri3 : ShapeH V3 Iso3 (Triangle3 Float) where
  parse := ptri3
  project := fun s p b => pp3 (s.project p b)
  distance := fun s p b => defaultDistance3 (s.project) p b
  contains := fun s p => defaultContains3 (s.project) p
  feature := fun s p => let r := s.projectFeature p; (pp3 r.1, r.2)
  spec := triSpec3
  featOk := triFeatOk3
def Htri2 : ShapeH V2 Iso2 (Triangle2 Float) where
  parse := ptri2
  project := fun s p b => pp2 (s.project p b)
  distance := fun s p b => defaultDistance2 (s.project) p b
  contains := fun s p => defaultContains2 (s.project) p
  feature := fun s p => let r := s.projectFeature p; (pp2 r.1, r.2)
  spec := triSpec2
  featOk := triFeatOk2

/-! ## locations (`PointQueryWithLocation`) -/

def fsegLoc : SegLoc Float → String
  | .vertex i => s!"V {i}"
  | .edge b0 b1 => s!"E {ff b0} {ff b1}"
def ftriLoc : TriLoc Float → String
  | .vertex i => s!"V {i}"
  | .edge i b0 b1 => s!"E {i} {ff b0} {ff b1}"
  | .face sd b0 b1 b2 => s!"F {sd} {ff b0} {ff b1} {ff b2}"
  | .solid => "S"

inductive LocOut where
  | vertex (i : Nat) | edge (i : Nat) (b0 b1 : Float) | face (sd : Nat) (b0 b1 b2 : Float) | solid
def psegLocOut : P LocOut := do
  let t ← tok
  if t = "V" then do let i ← pnat; pure (LocOut.vertex i)
  else if t = "E" then do let b0 ← pfo; let b1 ← pfo; pure (LocOut.edge 0 b0 b1)
  else failure
def ptriLocOut : P LocOut := do
  let t ← tok
  if t = "V" then do let i ← pnat; pure (LocOut.vertex i)
  else if t = "E" then do let i ← pnat; let b0 ← pfo; let b1 ← pfo; pure (LocOut.edge i b0 b1)
  else if t = "F" then do let i ← pnat; let b0 ← pfo; let b1 ← pfo; let b2 ← pfo; pure (LocOut.face i b0 b1 b2)
  else if t = "S" then pure LocOut.solid
  else failure

def bOk (t : Rat) (bs : List Rat) : Bool := bs.all (fun b => -t ≤ b) && rabs (bs.foldl (· + ·) 0 - 1) ≤ t

/-- location tag reproduces the projection from the shape's vertices -/
def locOk3 (vert : Nat → Option (V3 Rat)) (edge : Nat → Option (V3 Rat × V3 Rat)) (S : Spec V3)
    (l : LocOut) (p pr : V3 Rat) (t : Rat) : Bool :=
  match l with
  | .vertex i => match vert i with | some v => near3 pr v t | none => false
  | .edge i b0 b1 => match edge i with
    | some (a, b) => bOk t [q b0, q b1] && near3 pr ((a.smul (q b0)).add (b.smul (q b1))) t
    | none => false
  | .face sd b0 b1 b2 => match vert 0, vert 1, vert 2 with
    | some a, some b, some c =>
      sd < 2 && bOk t [q b0, q b1, q b2] && near3 pr (((a.smul (q b0)).add (b.smul (q b1))).add (c.smul (q b2))) t
    | _, _, _ => false
  | .solid => near3 pr p t && S.dist p ≤ t
def locOk2 (vert : Nat → Option (V2 Rat)) (edge : Nat → Option (V2 Rat × V2 Rat)) (S : Spec V2)
    (l : LocOut) (p pr : V2 Rat) (t : Rat) : Bool :=
  match l with
  | .vertex i => match vert i with | some v => near2 pr v t | none => false
  | .edge i b0 b1 => match edge i with
    | some (a, b) => bOk t [q b0, q b1] && near2 pr ((a.smul (q b0)).add (b.smul (q b1))) t
    | none => false
  | .face sd b0 b1 b2 => match vert 0, vert 1, vert 2 with
    | some a, some b, some c =>
      sd < 2 && bOk t [q b0, q b1, q b2] && near2 pr (((a.smul (q b0)).add (b.smul (q b1))).add (c.smul (q b2))) t
    | _, _, _ => false
  | .solid => near2 pr p t && S.dist p ≤ t

def locHandler {V I : Type → Type} {σ : Type} (D : DimOps V I) (parse : P σ)
    (model : σ → V Float → Bool → (Bool × V Float) × String) (ploc : P LocOut)
    (spec : σ → Spec V) (ok : σ → LocOut → V Rat → V Rat → Rat → Bool) : Handler where
  model := fun a => run (do let s ← parse; let p ← D.pv; let so ← pbool
                            let r := model s p so; pure s!"{fpp D r.1} {r.2}") a
  oracle := fun a o => match run (do let s ← parse; let p ← D.pv; let so ← pbool; pure (s, p, so)) a with
    | some (s, p, so) => withOut (do let r ← ppOut D; let l ← ploc; pure (r, l)) o fun ((ins, pr), l) =>
        let S := spec s
        if !S.valid then "skip shape-outside-domain" else
        if vNan D pr then "fail nan-projection" else
        let P := D.qv p; let R := D.qv pr
        let j := judgeProj D S P so ins R
        if j != "pass" then j
        else if ok s l P R (ftol D P R) then "pass" else "fail location-does-not-reproduce-projection"
    | none => "skip bad-args"

def segVert3 (s : Segment3 Float) (i : Nat) : Option (V3 Rat) :=
  match i with | 0 => some (q3 s.a) | 1 => some (q3 s.b) | _ => none
def segVert2 (s : Segment2 Float) (i : Nat) : Option (V2 Rat) :=
  match i with | 0 => some (q2 s.a) | 1 => some (q2 s.b) | _ => none

/-! ## tetrahedron (`point_tetrahedron.rs`): location form, default distance / contains, feature -/

def ptet : P (Tetrahedron Float) := do let a ← pv3; let b ← pv3; let c ← pv3; let d ← pv3; pure ⟨a, b, c, d⟩

def ftetLoc : TetLoc Float → String
  | .vertex i => s!"V {i}"
  | .edge i b0 b1 => s!"E {i} {ff b0} {ff b1}"
  | .face i b0 b1 b2 => s!"F {i} {ff b0} {ff b1} {ff b2}"
  | .solid => "S"

/-- exact description: barycentric membership, distance = min over the four faces -/
def tetSpec (s : Tetrahedron Float) : Spec V3 :=
  let a := q3 s.a; let b := q3 s.b; let c := q3 s.c; let d := q3 s.d
  let ab := b.sub a; let ac := c.sub a; let ad := d.sub a
  let det := ab.dot (ac.cross ad)
  let mem (p : V3 Rat) : Bool :=
    let ap := p.sub a
    let u := ap.dot (ac.cross ad) / det
    let v := ab.dot (ap.cross ad) / det
    let w := ab.dot (ac.cross ap) / det
    0 ≤ u && 0 ≤ v && 0 ≤ w && u + v + w ≤ 1
  let bd (p : V3 Rat) : Rat :=
    rsqrt (rmin (rmin (triDist2_3 a b c p) (triDist2_3 a b d p)) (rmin (triDist2_3 a c d p) (triDist2_3 b c d p)))
  -- (fu5) the query point lies, within 1e-9 relative, ON a boundary between two Voronoi regions of the tetrahedron: a plane
  -- through a vertex orthogonal to an incident edge (vertex | edge), or a plane through an edge containing the normal of an
  -- incident face (edge | face).  There every region test of the cascade is decided by rounding noise.
  let nearPlane (o m p : V3 Rat) : Bool :=
    let v := p.sub o
    let x := v.dot m
    x * x ≤ (1 / 1000000000000000000) * v.normSq * m.normSq
  let tie (p : V3 Rat) : Bool :=
    let vs := [a, b, c, d]
    let es := [(a, b, c, d), (a, c, b, d), (a, d, b, c), (b, c, a, d), (b, d, a, c), (c, d, a, b)]
    vs.any (fun v => vs.any (fun w => (v.sub w).normSq != 0 && nearPlane v (w.sub v) p)) ||
    es.any (fun (u, v, o1, o2) =>
      let e := v.sub u
      nearPlane u (e.cross (e.cross (o1.sub u))) p || nearPlane u (e.cross (e.cross (o2.sub u))) p)
  { valid := det != 0
    mem := mem
    dist := fun p => if mem p then 0 else bd p
    bdist := bd
    cls := fun p => if mem p then "@interior" else if tie p then "@voronoi-tie" else "" }

def tetVert (s : Tetrahedron Float) (i : Nat) : Option (V3 Rat) :=
  match i with | 0 => some (q3 s.a) | 1 => some (q3 s.b) | 2 => some (q3 s.c) | 3 => some (q3 s.d) | _ => none
/-- edges `0:ab 1:ac 2:ad 3:bc 4:bd 5:cd` -/
def tetEdge (s : Tetrahedron Float) (i : Nat) : Option (V3 Rat × V3 Rat) :=
  match i with
  | 0 => some (q3 s.a, q3 s.b) | 1 => some (q3 s.a, q3 s.c) | 2 => some (q3 s.a, q3 s.d)
  | 3 => some (q3 s.b, q3 s.c) | 4 => some (q3 s.b, q3 s.d) | 5 => some (q3 s.c, q3 s.d) | _ => none
/-- faces `0:abc 1:abd 2:acd 3:bcd` -/
def tetFace (s : Tetrahedron Float) (i : Nat) : Option (V3 Rat × V3 Rat × V3 Rat) :=
  match i with
  | 0 => some (q3 s.a, q3 s.b, q3 s.c) | 1 => some (q3 s.a, q3 s.b, q3 s.d)
  | 2 => some (q3 s.a, q3 s.c, q3 s.d) | 3 => some (q3 s.b, q3 s.c, q3 s.d) | _ => none

def tetLocOk (s : Tetrahedron Float) (l : LocOut) (p pr : V3 Rat) (t : Rat) : Bool :=
  match l with
  | .vertex i => match tetVert s i with | some v => near3 pr v t | none => false
  | .edge i b0 b1 => match tetEdge s i with
    | some (a, b) => bOk t [q b0, q b1] && near3 pr ((a.smul (q b0)).add (b.smul (q b1))) t
    | none => false
  | .face i b0 b1 b2 => match tetFace s i with
    | some (a, b, c) => bOk t [q b0, q b1, q b2] && near3 pr (((a.smul (q b0)).add (b.smul (q b1))).add (c.smul (q b2))) t
    | none => false
  | .solid => near3 pr p t && (tetSpec s).dist p ≤ t

def tetFeatOk (s : Tetrahedron Float) (f : Feat) (p : V3 Rat) (t : Rat) : Bool :=
  match f with
  | .vertex i => match tetVert s i with | some v => near3 p v t | none => false
  | .edge i => match tetEdge s i with | some (a, b) => rsqrt (segDist2_3 a b p) ≤ t | none => false
  | .face i => match tetFace s i with | some (a, b, c) => rsqrt (triDist2_3 a b c p) ≤ t | none => false
  | .unknown => false

def tetPanicVerdict (S : Spec V3) (p : V3 Rat) (solid : Bool) : String :=
  if !S.valid then "skip shape-outside-domain"
  else if !solid && (S.mem p || S.bdist p ≤ ftol D3 p p) then "fail panic@interior-nonsolid" else s!"fail panic{S.cls p}"

/-- append the class of the query point to the kind of a failing verdict (`fail distance ...` -> `fail distance@voronoi-tie ...`) -/
def tetTag (S : Spec V3) (p : V3 Rat) (v : String) : String :=
  match v.splitOn " " with
  | "fail" :: k :: rest => if (k.splitOn "@").length > 1 then v else " ".intercalate ("fail" :: (k ++ S.cls p) :: rest)
  | _ => v

def tetHandler (op : String) : Option Handler :=
  match op with
  | "loc" => some {
      model := fun a => run (do let s ← ptet; let p ← pv3; let so ← pbool
                                pure (match s.projectLoc p so with
                                  | .panic => "panic"
                                  | .ok pp l => s!"{fb pp.inside} {fv3 pp.pt} {ftetLoc l}")) a
      oracle := fun a o => match run (do let s ← ptet; let p ← pv3; let so ← pbool; pure (s, p, so)) a with
        | some (s, p, so) =>
          let S := tetSpec s; let P := q3 p
          match o with
          | "panic" :: _ => tetPanicVerdict S P so
          | _ => match run (do let r ← ppOut D3; let l ← ptriLocOut; pure (r, l)) o with
            | some ((ins, pr), l) =>
              if !S.valid then "skip shape-outside-domain" else
              if vNan D3 pr then "fail nan-projection" else
              let R := q3 pr
              let j := judgeProj D3 S P so ins R
              if j != "pass" then j
              else if tetLocOk s l P R (ftol D3 P R) then "pass" else "fail location-does-not-reproduce-projection"
            | none => "fail unparsable-output"
        | none => "skip bad-args" }
  | "dist" => some {
      model := fun a => run (do let s ← ptet; let p ← pv3; let so ← pbool
                                pure (match s.projectLoc p so with
                                  | .panic => "panic"
                                  | .ok pp _ =>
                                    let dist := (pp.pt.sub p).norm
                                    ff (if so || !pp.inside then dist else -dist))) a
      oracle := fun a o => match run (do let s ← ptet; let p ← pv3; let so ← pbool; pure (s, p, so)) a with
        | some (s, p, so) =>
          let S := tetSpec s; let P := q3 p
          match o with
          | "panic" :: _ => tetPanicVerdict S P so
          | _ => withOut pfo o fun d => if !S.valid then "skip shape-outside-domain" else if d.isNaN then "fail nan-distance" else tetTag S P (judgeDist D3 S P so (q d))
        | none => "skip bad-args" }
  | "cont" => some {
      model := fun a => run (do let s ← ptet; let p ← pv3
                                pure (match s.projectLoc p true with
                                  | .panic => "panic"
                                  | .ok pp _ => fb pp.inside)) a
      oracle := fun a o => match run (do let s ← ptet; let p ← pv3; pure (s, p)) a with
        | some (s, p) =>
          match o with
          | "panic" :: _ => tetPanicVerdict (tetSpec s) (q3 p) true
          | _ => withOut pbool o fun c => tetTag (tetSpec s) (q3 p) (judgeCont D3 (tetSpec s) (q3 p) c)
        | none => "skip bad-args" }
  | "feat" => some {
      model := fun a => run (do let s ← ptet; let p ← pv3
                                pure (match s.projectLoc p false with
                                  | .panic => "panic"
                                  | .ok pp l =>
                                    let f := match l with
                                      | .vertex i => s!"V {i}" | .edge i _ _ => s!"E {i}" | .face i _ _ _ => s!"F {i}" | .solid => "panic"
                                    if f == "panic" then "panic" else s!"{fb pp.inside} {fv3 pp.pt} {f}")) a
      oracle := fun a o => match run (do let s ← ptet; let p ← pv3; pure (s, p)) a with
        | some (s, p) =>
          let S := tetSpec s; let P := q3 p
          match o with
          | "panic" :: _ => tetPanicVerdict S P false
          | _ => withOut (do let r ← ppOut D3; let f ← pfeat; pure (r, f)) o fun ((ins, pr), f) =>
              if !S.valid then "skip shape-outside-domain"
              else if vNan D3 pr then "fail nan-projection"
              else
                let R := q3 pr
                let j := judgeProj D3 S P false ins R
                if j != "pass" then j
                else if tetFeatOk s f R (ftol D3 P R) then "pass" else s!"fail feature-does-not-contain-projection {ffeat f}"
        | none => "skip bad-args" }
  | _ => none

def handlerBase (fn : String) : Option Handler :=
  match fn.splitOn "_" with
  | [shape, op] =>
    match shape, op with
    | "seg3", "loc" => some (locHandler D3 pseg3 (fun s p _ => let r := s.projectLoc p; (pp3 r.1, fsegLoc r.2)) psegLocOut segSpec3
        (fun s l p pr t => locOk3 (segVert3 s) (fun i => if i = 0 then some (q3 s.a, q3 s.b) else none) (segSpec3 s) l p pr t))
    | "seg2", "loc" => some (locHandler D2 pseg2 (fun s p _ => let r := s.projectLoc p; (pp2 r.1, fsegLoc r.2)) psegLocOut segSpec2
        (fun s l p pr t => locOk2 (segVert2 s) (fun i => if i = 0 then some (q2 s.a, q2 s.b) else none) (segSpec2 s) l p pr t))
    | "tri3", "loc" => some (locHandler D3 ptri3 (fun s p so => let r := s.projectLoc p so; (pp3 r.1, ftriLoc r.2)) ptriLocOut triSpec3
        (fun s l p pr t => locOk3 (triVert3 s) (triEdge3 s) (triSpec3 s) l p pr t))
    | "tri2", "loc" => some (locHandler D2 ptri2 (fun s p so => let r := s.projectLoc p so; (pp2 r.1, ftriLoc r.2)) ptriLocOut triSpec2
        (fun s l p pr t => locOk2 (triVert2 s) (triEdge2 s) (triSpec2 s) l p pr t))
    | "seg3", _ => mk D3 Hseg3 op
    | "seg2", _ => mk D2 Hseg2 op
    | "ball3", _ => mk D3 Hball3 op
    | "ball2", _ => mk D2 Hball2 op
    | "hs3", _ => mk D3 Hhs3 op
    | "hs2", _ => mk D2 Hhs2 op
    | "cub3", _ => mk D3 Hcub3 op
    | "cub2", _ => mk D2 Hcub2 op
    | "cap3", _ => mk D3 Hcap3 op
    | "cap2", _ => mk D2 Hcap2 op
    | "cyl", _ => mk D3 Hcyl op
    | "cone", _ => mk D3 Hcone op
    | "tri3", _ => mk D3 Htri3 op
    | "tri2", _ => mk D2 Htri2 op
    | "tet", _ => tetHandler op
    | _, _ => none
  | _ => none

end C05
