import ParryModel.Field
import ParryModel.C05.Model
import ParryModel.C05.Theorems5
import ParryModel.C05.Theorems13
set_option linter.style.haveILetI false
set_option linter.unusedSimpArgs false
set_option linter.unusedVariables false
set_option linter.unusedSectionVars false
/-!
# C05 property theorems, part 14 (fu5): tetrahedron — members, interior points, the inside flag

* `tet_member_fixed` — a member of the tetrahedron is never moved: whatever non-panicking answer the function gives for it, the
  returned point is the query point itself.
* `tet_interior_solid` — for a NON-DEGENERATE tetrahedron (`ab·(ac × ad) ≠ 0`) and a strictly interior point (all four
  barycentric weights positive) the function with `solid = true` returns exactly `(true, pt)` tagged `OnSolid`: no vertex, edge
  or face region claims an interior point (hence `contains_local_point = true`, `distance_to_local_point(.., true) = 0`).
* `tet_interior_unimplemented` — with `solid = false` the same point produces the documented `unimplemented!()` panic
  (KNOWN_FINDINGS: the non-solid projection of interior points is not implemented) — never a wrong answer.
* `tet_flag_true_is_solid` — the flag `true` is only ever given together with `OnSolid`, the query point itself, `solid = true`.
Still not proved: that a point OUTSIDE a non-degenerate tetrahedron is always claimed by some vertex / edge / face region
(exhaustiveness of the cascade; false when `try_normalize` refuses a face normal of norm ≤ 2^-52).
-/
namespace C05
open Model

variable {K : Type} [Field K] [LinearOrder K] [IsStrictOrderedRing K] (sq : K → K)

private theorem dist2K_self (p : V3 K) : dist2K p p = 0 := by
  simp only [dist2K]; ring

private theorem eq_of_dist2K_le_zero (p v : V3 K) (h : dist2K p v ≤ 0) : v = p := by
  simp only [dist2K] at h
  have hx : (p.x - v.x) * (p.x - v.x) = 0 :=
    le_antisymm (by nlinarith [mul_self_nonneg (p.y - v.y), mul_self_nonneg (p.z - v.z)]) (mul_self_nonneg _)
  have hy : (p.y - v.y) * (p.y - v.y) = 0 :=
    le_antisymm (by nlinarith [mul_self_nonneg (p.x - v.x), mul_self_nonneg (p.z - v.z)]) (mul_self_nonneg _)
  have hz : (p.z - v.z) * (p.z - v.z) = 0 :=
    le_antisymm (by nlinarith [mul_self_nonneg (p.x - v.x), mul_self_nonneg (p.y - v.y)]) (mul_self_nonneg _)
  have ex := mul_self_eq_zero.mp hx
  have ey := mul_self_eq_zero.mp hy
  have ez := mul_self_eq_zero.mp hz
  cases p; cases v
  simp only [V3.mk.injEq]
  simp only at ex ey ez
  exact ⟨by linarith, by linarith, by linarith⟩

/-- a member of the tetrahedron is returned unchanged by every non-panicking answer -/
theorem tet_member_fixed (hs : LawfulSqrt sq) (s : Tetrahedron K) (pt : V3 K) (solid : Bool) (pp : PP3 K) (l : TetLoc K)
    (hm : TetMem s pt)
    (h : letI := fieldNum K sq; s.projectLoc pt solid = TetRes.ok pp l) : pp.pt = pt := by
  letI := fieldNum K sq
  by_cases hl : l = TetLoc.solid
  · subst hl
    obtain ⟨_, e⟩ := tet_project_solid sq s pt solid pp h
    rw [e]
  · obtain ⟨_, _, hn⟩ := tet_project_nearest sq hs s pt solid pp l h hl
    have := hn pt hm
    rw [dist2K_self] at this
    exact eq_of_dist2K_le_zero pt pp.pt this

/-- in a non-degenerate tetrahedron a boundary point (some zero weight) has no representation with four positive weights -/
private theorem bdry_not_interior (s : Tetrahedron K) (q : V3 K)
    (hdet : letI := fieldNum K sq; (s.b.sub s.a).dot ((s.c.sub s.a).cross (s.d.sub s.a)) ≠ 0)
    (hb : TetBdry s q) (β γ δ : K) (hβ : 0 < β) (hγ : 0 < γ) (hδ : 0 < δ) (hsum : β + γ + δ < 1)
    (hx : q.x = s.a.x + β * (s.b.x - s.a.x) + γ * (s.c.x - s.a.x) + δ * (s.d.x - s.a.x))
    (hy : q.y = s.a.y + β * (s.b.y - s.a.y) + γ * (s.c.y - s.a.y) + δ * (s.d.y - s.a.y))
    (hz : q.z = s.a.z + β * (s.b.z - s.a.z) + γ * (s.c.z - s.a.z) + δ * (s.d.z - s.a.z)) : False := by
  letI := fieldNum K sq
  obtain ⟨t0, t1, t2, t3, h0, h1, h2, h3, ht, hzero, gx, gy, gz⟩ := hb
  simp only [V3.sub, V3.dot, V3.cross] at hdet
  have e0 : t0 = 1 - t1 - t2 - t3 := by linarith
  subst e0
  rw [hx] at gx; rw [hy] at gy; rw [hz] at gz
  -- (β - t1) ab + (γ - t2) ac + (δ - t3) ad = 0, componentwise
  have kx : (β - t1) * (s.b.x - s.a.x) + (γ - t2) * (s.c.x - s.a.x) + (δ - t3) * (s.d.x - s.a.x) = 0 := by linarith
  have ky : (β - t1) * (s.b.y - s.a.y) + (γ - t2) * (s.c.y - s.a.y) + (δ - t3) * (s.d.y - s.a.y) = 0 := by linarith
  have kz : (β - t1) * (s.b.z - s.a.z) + (γ - t2) * (s.c.z - s.a.z) + (δ - t3) * (s.d.z - s.a.z) = 0 := by linarith
  have c1 : (β - t1) * ((s.b.x - s.a.x) * ((s.c.y - s.a.y) * (s.d.z - s.a.z) - (s.c.z - s.a.z) * (s.d.y - s.a.y))
      + (s.b.y - s.a.y) * ((s.c.z - s.a.z) * (s.d.x - s.a.x) - (s.c.x - s.a.x) * (s.d.z - s.a.z))
      + (s.b.z - s.a.z) * ((s.c.x - s.a.x) * (s.d.y - s.a.y) - (s.c.y - s.a.y) * (s.d.x - s.a.x))) = 0 := by
    linear_combination ((s.c.y - s.a.y) * (s.d.z - s.a.z) - (s.c.z - s.a.z) * (s.d.y - s.a.y)) * kx
      + ((s.c.z - s.a.z) * (s.d.x - s.a.x) - (s.c.x - s.a.x) * (s.d.z - s.a.z)) * ky
      + ((s.c.x - s.a.x) * (s.d.y - s.a.y) - (s.c.y - s.a.y) * (s.d.x - s.a.x)) * kz
  have c2 : (γ - t2) * ((s.b.x - s.a.x) * ((s.c.y - s.a.y) * (s.d.z - s.a.z) - (s.c.z - s.a.z) * (s.d.y - s.a.y))
      + (s.b.y - s.a.y) * ((s.c.z - s.a.z) * (s.d.x - s.a.x) - (s.c.x - s.a.x) * (s.d.z - s.a.z))
      + (s.b.z - s.a.z) * ((s.c.x - s.a.x) * (s.d.y - s.a.y) - (s.c.y - s.a.y) * (s.d.x - s.a.x))) = 0 := by
    linear_combination ((s.d.y - s.a.y) * (s.b.z - s.a.z) - (s.d.z - s.a.z) * (s.b.y - s.a.y)) * kx
      + ((s.d.z - s.a.z) * (s.b.x - s.a.x) - (s.d.x - s.a.x) * (s.b.z - s.a.z)) * ky
      + ((s.d.x - s.a.x) * (s.b.y - s.a.y) - (s.d.y - s.a.y) * (s.b.x - s.a.x)) * kz
  have c3 : (δ - t3) * ((s.b.x - s.a.x) * ((s.c.y - s.a.y) * (s.d.z - s.a.z) - (s.c.z - s.a.z) * (s.d.y - s.a.y))
      + (s.b.y - s.a.y) * ((s.c.z - s.a.z) * (s.d.x - s.a.x) - (s.c.x - s.a.x) * (s.d.z - s.a.z))
      + (s.b.z - s.a.z) * ((s.c.x - s.a.x) * (s.d.y - s.a.y) - (s.c.y - s.a.y) * (s.d.x - s.a.x))) = 0 := by
    linear_combination ((s.b.y - s.a.y) * (s.c.z - s.a.z) - (s.b.z - s.a.z) * (s.c.y - s.a.y)) * kx
      + ((s.b.z - s.a.z) * (s.c.x - s.a.x) - (s.b.x - s.a.x) * (s.c.z - s.a.z)) * ky
      + ((s.b.x - s.a.x) * (s.c.y - s.a.y) - (s.b.y - s.a.y) * (s.c.x - s.a.x)) * kz
  have e1 : β = t1 := by
    rcases mul_eq_zero.mp c1 with e | e
    · linarith
    · exact absurd e hdet
  have e2 : γ = t2 := by
    rcases mul_eq_zero.mp c2 with e | e
    · linarith
    · exact absurd e hdet
  have e3 : δ = t3 := by
    rcases mul_eq_zero.mp c3 with e | e
    · linarith
    · exact absurd e hdet
  subst e1 e2 e3
  rcases hzero with e | e | e | e <;> linarith

/-- interior points of a non-degenerate tetrahedron: `solid = true` answers `(true, pt)`, `OnSolid` -/
theorem tet_interior_solid (hs : LawfulSqrt sq) (s : Tetrahedron K) (pt : V3 K)
    (hdet : letI := fieldNum K sq; (s.b.sub s.a).dot ((s.c.sub s.a).cross (s.d.sub s.a)) ≠ 0)
    (β γ δ : K) (hβ : 0 < β) (hγ : 0 < γ) (hδ : 0 < δ) (hsum : β + γ + δ < 1)
    (hx : pt.x = s.a.x + β * (s.b.x - s.a.x) + γ * (s.c.x - s.a.x) + δ * (s.d.x - s.a.x))
    (hy : pt.y = s.a.y + β * (s.b.y - s.a.y) + γ * (s.c.y - s.a.y) + δ * (s.d.y - s.a.y))
    (hz : pt.z = s.a.z + β * (s.b.z - s.a.z) + γ * (s.c.z - s.a.z) + δ * (s.d.z - s.a.z)) :
    letI := fieldNum K sq
    s.projectLoc pt true = TetRes.ok ⟨true, pt⟩ TetLoc.solid := by
  letI := fieldNum K sq
  have hm : TetMem s pt := ⟨β, γ, δ, hβ.le, hγ.le, hδ.le, hsum.le, hx, hy, hz⟩
  cases hres : s.projectLoc pt true with
  | panic => exact absurd hres (tet_project_no_assert sq hs s pt)
  | ok pp l =>
    by_cases hl : l = TetLoc.solid
    · subst hl
      obtain ⟨_, e⟩ := tet_project_solid sq s pt true pp hres
      rw [e]
    · exfalso
      obtain ⟨_, hb, _⟩ := tet_project_nearest sq hs s pt true pp l hres hl
      have hfix := tet_member_fixed sq hs s pt true pp l hm hres
      rw [hfix] at hb
      exact bdry_not_interior sq s pt hdet hb β γ δ hβ hγ hδ hsum hx hy hz

/-- interior points of a non-degenerate tetrahedron with `solid = false`: the documented `unimplemented!()` -/
theorem tet_interior_unimplemented (hs : LawfulSqrt sq) (s : Tetrahedron K) (pt : V3 K)
    (hdet : letI := fieldNum K sq; (s.b.sub s.a).dot ((s.c.sub s.a).cross (s.d.sub s.a)) ≠ 0)
    (β γ δ : K) (hβ : 0 < β) (hγ : 0 < γ) (hδ : 0 < δ) (hsum : β + γ + δ < 1)
    (hx : pt.x = s.a.x + β * (s.b.x - s.a.x) + γ * (s.c.x - s.a.x) + δ * (s.d.x - s.a.x))
    (hy : pt.y = s.a.y + β * (s.b.y - s.a.y) + γ * (s.c.y - s.a.y) + δ * (s.d.y - s.a.y))
    (hz : pt.z = s.a.z + β * (s.b.z - s.a.z) + γ * (s.c.z - s.a.z) + δ * (s.d.z - s.a.z)) :
    letI := fieldNum K sq
    s.projectLoc pt false = TetRes.panic := by
  letI := fieldNum K sq
  have hm : TetMem s pt := ⟨β, γ, δ, hβ.le, hγ.le, hδ.le, hsum.le, hx, hy, hz⟩
  cases hres : s.projectLoc pt false with
  | panic => rfl
  | ok pp l =>
    exfalso
    by_cases hl : l = TetLoc.solid
    · subst hl
      obtain ⟨e, _⟩ := tet_project_solid sq s pt false pp hres
      exact absurd e (by simp)
    · obtain ⟨_, hb, _⟩ := tet_project_nearest sq hs s pt false pp l hres hl
      have hfix := tet_member_fixed sq hs s pt false pp l hm hres
      rw [hfix] at hb
      exact bdry_not_interior sq s pt hdet hb β γ δ hβ hγ hδ hsum hx hy hz

/-- the flag `true` only ever comes with `OnSolid`, the query point itself, and `solid = true` -/
theorem tet_flag_true_is_solid (hs : LawfulSqrt sq) (s : Tetrahedron K) (pt : V3 K) (solid : Bool) (pp : PP3 K) (l : TetLoc K)
    (h : letI := fieldNum K sq; s.projectLoc pt solid = TetRes.ok pp l) (hin : pp.inside = true) :
    l = TetLoc.solid ∧ solid = true ∧ pp.pt = pt := by
  letI := fieldNum K sq
  by_cases hl : l = TetLoc.solid
  · subst hl
    obtain ⟨h1, e⟩ := tet_project_solid sq s pt solid pp h
    exact ⟨rfl, h1, by rw [e]⟩
  · obtain ⟨hf, _, _⟩ := tet_project_nearest sq hs s pt solid pp l h hl
    rw [hf] at hin
    exact absurd hin (by simp)

/-- non-vacuity of `tet_interior_solid`: the unit corner tetrahedron has non-zero determinant and `(1/4,1/4,1/4)` is interior -/
example : ∃ (s : Tetrahedron ℚ) (pt : V3 ℚ) (β γ δ : ℚ),
    (letI := fieldNum ℚ (fun x => x); (s.b.sub s.a).dot ((s.c.sub s.a).cross (s.d.sub s.a)) ≠ 0) ∧
    0 < β ∧ 0 < γ ∧ 0 < δ ∧ β + γ + δ < 1 ∧
    pt.x = s.a.x + β * (s.b.x - s.a.x) + γ * (s.c.x - s.a.x) + δ * (s.d.x - s.a.x) ∧
    pt.y = s.a.y + β * (s.b.y - s.a.y) + γ * (s.c.y - s.a.y) + δ * (s.d.y - s.a.y) ∧
    pt.z = s.a.z + β * (s.b.z - s.a.z) + γ * (s.c.z - s.a.z) + δ * (s.d.z - s.a.z) :=
  ⟨⟨⟨0, 0, 0⟩, ⟨1, 0, 0⟩, ⟨0, 1, 0⟩, ⟨0, 0, 1⟩⟩, ⟨1/4, 1/4, 1/4⟩, 1/4, 1/4, 1/4, by
    simp [V3.sub, V3.dot, V3.cross]; norm_num⟩

end C05
