import ParryModel.Field
import ParryModel.C05.Model
import ParryModel.C05.Theorems12
set_option linter.style.haveILetI false
set_option linter.unusedSimpArgs false
set_option linter.unusedVariables false
set_option linter.unusedSectionVars false
/-!
# C05 property theorems, part 18 (fu5): tetrahedron — the edge and face tests are EXACTLY the Voronoi regions (converses)

`tet_edge_sound` / `tet_face_sound` say what a firing test implies; here the converses:
* `tet_edge_complete` — if `pt = A + u·AB + w` with `0 ≤ u ≤ 1`, `AB ≠ 0`, `w ⟂ AB` and `w` non-acute to the two other edge
  vectors `w1`, `w2` of the incident faces (the normal cone of the edge), `check_edge` answers.
* `tet_face_complete` — if `pt = A + b1·AB + b2·AC + t·n` (`n = AB × AC`) with `b1, b2 > 0`, `b1 + b2 < 1` (foot of the
  perpendicular strictly inside the face), the query point strictly on the other side of the face plane than the opposite vertex,
  and `|n| > 2^-52` (the `try_normalize` threshold), `check_face` answers.
Together with the vertex tests (which are literally the normal-cone inequalities) every test of the cascade is exactly the
Voronoi region of its feature; what remains unproved for exhaustiveness is the purely geometric fact that these regions cover
the exterior of a non-degenerate tetrahedron.
-/
namespace C05
open Model

variable {K : Type} [Field K] [LinearOrder K] [IsStrictOrderedRing K] (sq : K → K)

theorem tet_edge_complete (i : Nat) (a ab w w1 w2 : V3 K) (u : K) (hu0 : 0 ≤ u) (hu1 : u ≤ 1)
    (hab : letI := fieldNum K sq; 0 < ab.dot ab)
    (hperp : letI := fieldNum K sq; w.dot ab = 0)
    (hw1 : letI := fieldNum K sq; w.dot w1 ≤ 0) (hw2 : letI := fieldNum K sq; w.dot w2 ≤ 0) :
    letI := fieldNum K sq
    let ap := (ab.smul u).add w
    (tetCheckEdge i a (ab.cross w1) (ab.cross w2) ap ab (ap.dot ab) (ap.dot ab - ab.dot ab)).2.2.isSome = true := by
  letI := fieldNum K sq
  intro ap
  have hapab : ap.dot ab = u * ab.dot ab := by
    simp only [ap, V3.add, V3.smul, V3.dot] at hperp ⊢
    linear_combination hperp
  have hd1 : (ap.cross ab).dot (ab.cross w1) = -(w.dot w1) * ab.dot ab := by
    simp only [ap, V3.add, V3.smul, V3.dot, V3.cross] at hperp ⊢
    linear_combination (ab.x * w1.x + ab.y * w1.y + ab.z * w1.z) * hperp
  have hd2 : (ap.cross ab).dot (ab.cross w2) = -(w.dot w2) * ab.dot ab := by
    simp only [ap, V3.add, V3.smul, V3.dot, V3.cross] at hperp ⊢
    linear_combination (ab.x * w2.x + ab.y * w2.y + ab.z * w2.z) * hperp
  simp only [tetCheckEdge]
  have hsub : ap.dot ab - (ap.dot ab - ab.dot ab) = ab.dot ab := by ring
  rw [hsub, hd1, hd2, hapab]
  have c1 : neq (ab.dot ab) 0 = false := by
    simp only [neq, Bool.and_eq_false_iff, decide_eq_false_iff_not, not_le]
    exact Or.inl hab
  have c2 : 0 ≤ -(w.dot w1) * ab.dot ab := mul_nonneg (by linarith) hab.le
  have c3 : 0 ≤ -(w.dot w2) * ab.dot ab := mul_nonneg (by linarith) hab.le
  have c4 : 0 ≤ u * ab.dot ab := mul_nonneg hu0 hab.le
  have c5 : u * ab.dot ab ≤ ab.dot ab := by nlinarith
  have c2' : w.dot w1 * ab.dot ab ≤ 0 := mul_nonpos_of_nonpos_of_nonneg hw1 hab.le
  have c3' : w.dot w2 * ab.dot ab ≤ 0 := mul_nonpos_of_nonpos_of_nonneg hw2 hab.le
  simp [c1, c2, c3, c4, c5, c2', c3']

theorem tet_face_complete (hs : LawfulSqrt sq) (i : Nat) (a ab ac ad : V3 K) (b1 b2 t : K)
    (h1 : 0 < b1) (h2 : 0 < b2) (h0 : b1 + b2 < 1)
    (hnrm : letI := fieldNum K sq; ¬ (ab.cross ac).norm ≤ eps)
    (hside : letI := fieldNum K sq
      (ab.cross ac).dot ad * (ab.cross ac).dot (((ab.smul b1).add (ac.smul b2)).add ((ab.cross ac).smul t)) < 0) :
    letI := fieldNum K sq
    let ap := ((ab.smul b1).add (ac.smul b2)).add ((ab.cross ac).smul t)
    (tetCheckFace i a (a.add ab) (a.add ac) ap (ap.sub ab) (ap.sub ac) ab ac ad
        ((ap.cross ab).dot (ab.cross ac)) (((ap.sub ab).cross (ac.sub ab)).dot (ab.cross ac))
        ((ap.cross ac).dot (ab.cross ac).neg)).isSome = true := by
  letI := fieldNum K sq
  intro ap
  have hNnn : 0 ≤ (ab.cross ac).dot (ab.cross ac) := by
    simp only [V3.dot]
    nlinarith [mul_self_nonneg (ab.cross ac).x, mul_self_nonneg (ab.cross ac).y, mul_self_nonneg (ab.cross ac).z]
  have hNpos : 0 < (ab.cross ac).dot (ab.cross ac) := by
    rcases lt_or_eq_of_le hNnn with hlt | heq
    · exact hlt
    · exfalso
      apply hnrm
      have hz : sq 0 = 0 := by
        have := hs.sq_mul 0 le_rfl
        exact mul_self_eq_zero.mp this
      have hepos : (0 : K) ≤ eps := by simp only [eps, fieldNum_lit]; norm_num
      simp only [V3.norm, V3.normSq, fieldNum_sqrt]
      rw [← heq, hz]
      exact hepos
  have e1 : (ap.cross ab).dot (ab.cross ac) = -b2 * (ab.cross ac).dot (ab.cross ac) := by
    simp only [ap, V3.add, V3.smul, V3.dot, V3.cross]; ring
  have e2 : ((ap.sub ab).cross (ac.sub ab)).dot (ab.cross ac) = (b1 + b2 - 1) * (ab.cross ac).dot (ab.cross ac) := by
    simp only [ap, V3.add, V3.sub, V3.smul, V3.dot, V3.cross]; ring
  have e3 : (ap.cross ac).dot (ab.cross ac).neg = -b1 * (ab.cross ac).dot (ab.cross ac) := by
    simp only [ap, V3.add, V3.smul, V3.dot, V3.cross, V3.neg]; ring
  have d1 : (ap.cross ab).dot (ab.cross ac) < 0 := by rw [e1]; exact mul_neg_of_neg_of_pos (by linarith) hNpos
  have d2 : ((ap.sub ab).cross (ac.sub ab)).dot (ab.cross ac) < 0 := by
    rw [e2]; exact mul_neg_of_neg_of_pos (by linarith) hNpos
  have d3 : (ap.cross ac).dot (ab.cross ac).neg < 0 := by rw [e3]; exact mul_neg_of_neg_of_pos (by linarith) hNpos
  simp only [tetCheckFace]
  have hc : (decide ((ap.cross ab).dot (ab.cross ac) < 0) && decide (((ap.sub ab).cross (ac.sub ab)).dot (ab.cross ac) < 0)
      && decide ((ap.cross ac).dot (ab.cross ac).neg < 0)) = true := by
    simp [d1, d2, d3]
  rw [if_pos hc, if_pos hside, if_neg hnrm]
  split_ifs <;> rfl

end C05
