import ParryModel.Field
import ParryModel.C05.Model
set_option linter.style.haveILetI false
set_option linter.unusedSimpArgs false
set_option linter.unusedVariables false
/-!
# C05 property theorems, part 5 (fu4): tetrahedron — vertex and edge Voronoi regions

First theorems about `Tetrahedron::project_local_point_and_get_location` (until now: correspondence + oracle only).

* `TetMem s q` — `q = a + β·ab + γ·ac + δ·ad`, `β, γ, δ ≥ 0`, `β + γ + δ ≤ 1` (membership by definition).
* `tet_vertex_a/b/c/d_returned` — under the cascade's guards the model returns that vertex (flag `false`, location `OnVertex(i)`).
* `tet_vertex_a/b/c/d_optimal` — whenever the vertex test of the code holds, no member of the tetrahedron is closer than the vertex.
* `tet_edge_sound` — `check_edge`: when it returns a point it is `a + u·ab` with `u ∈ [0,1]` (on the edge segment, barycentric
  tag `(1-u, u)`), `pt - proj ⟂ ab`, and `pt - proj` makes a non-acute angle with the two other edge vectors `w1`, `w2` of the faces
  whose normals are passed in (`nabc = ab × w1`, `nabd = ab × w2`) — by the Binet–Cauchy identity.
* `tet_edge_optimal` — hence no point `a + β·ab + γ·w1 + δ·w2`, `γ, δ ≥ 0` (every member of the tetrahedron, seen from that edge)
  is closer.
Not proved: the face regions, and that the cascade is exhaustive (the final `solid` branch is reached only for interior points).
-/
namespace C05
open Model

variable {K : Type} [Field K] [LinearOrder K] [IsStrictOrderedRing K] (sq : K → K)

/-- membership in the tetrahedron `abcd` by definition (convex combination, written from `a`) -/
def TetMem (s : Tetrahedron K) (q : V3 K) : Prop :=
  ∃ β γ δ : K, 0 ≤ β ∧ 0 ≤ γ ∧ 0 ≤ δ ∧ β + γ + δ ≤ 1 ∧
    q.x = s.a.x + β * (s.b.x - s.a.x) + γ * (s.c.x - s.a.x) + δ * (s.d.x - s.a.x) ∧
    q.y = s.a.y + β * (s.b.y - s.a.y) + γ * (s.c.y - s.a.y) + δ * (s.d.y - s.a.y) ∧
    q.z = s.a.z + β * (s.b.z - s.a.z) + γ * (s.c.z - s.a.z) + δ * (s.d.z - s.a.z)

/-- squared distance over the field -/
def dist2K (p q : V3 K) : K := (p.x - q.x) * (p.x - q.x) + (p.y - q.y) * (p.y - q.y) + (p.z - q.z) * (p.z - q.z)

/-- if `(p - v)·(q - v) ≤ 0` then `v` is at least as close to `p` as `q` -/
private theorem nearest_of_nonacute (p v q : V3 K)
    (h : (p.x - v.x) * (q.x - v.x) + (p.y - v.y) * (q.y - v.y) + (p.z - v.z) * (q.z - v.z) ≤ 0) :
    dist2K p v ≤ dist2K p q := by
  simp only [dist2K]
  nlinarith [sq_nonneg (q.x - v.x), sq_nonneg (q.y - v.y), sq_nonneg (q.z - v.z)]

/-! ### vertex regions -/

theorem tet_vertex_a_returned (s : Tetrahedron K) (pt : V3 K) (solid : Bool)
    (h : letI := fieldNum K sq
      (decide ((pt.sub s.a).dot (s.b.sub s.a) ≤ 0) && decide ((pt.sub s.a).dot (s.c.sub s.a) ≤ 0)
        && decide ((pt.sub s.a).dot (s.d.sub s.a) ≤ 0)) = true) :
    letI := fieldNum K sq
    s.projectLoc pt solid = TetRes.ok ⟨false, s.a⟩ (TetLoc.vertex 0) := by
  letI := fieldNum K sq
  simp only [Tetrahedron.projectLoc]
  rw [if_pos h]

theorem tet_vertex_a_optimal (s : Tetrahedron K) (pt q : V3 K) (hq : TetMem s q)
    (h : letI := fieldNum K sq
      (pt.sub s.a).dot (s.b.sub s.a) ≤ 0 ∧ (pt.sub s.a).dot (s.c.sub s.a) ≤ 0 ∧ (pt.sub s.a).dot (s.d.sub s.a) ≤ 0) :
    dist2K pt s.a ≤ dist2K pt q := by
  letI := fieldNum K sq
  obtain ⟨β, γ, δ, hβ, hγ, hδ, _, hx, hy, hz⟩ := hq
  obtain ⟨h1, h2, h3⟩ := h
  simp only [V3.sub, V3.dot] at h1 h2 h3
  apply nearest_of_nonacute
  rw [hx, hy, hz]
  nlinarith [mul_nonpos_of_nonneg_of_nonpos hβ h1, mul_nonpos_of_nonneg_of_nonpos hγ h2, mul_nonpos_of_nonneg_of_nonpos hδ h3]

theorem tet_vertex_b_optimal (s : Tetrahedron K) (pt q : V3 K) (hq : TetMem s q)
    (h : letI := fieldNum K sq
      (pt.sub s.b).dot (s.c.sub s.b) ≤ 0 ∧ (pt.sub s.b).dot (s.d.sub s.b) ≤ 0 ∧ 0 ≤ (pt.sub s.b).dot (s.b.sub s.a)) :
    dist2K pt s.b ≤ dist2K pt q := by
  letI := fieldNum K sq
  obtain ⟨β, γ, δ, hβ, hγ, hδ, hs, hx, hy, hz⟩ := hq
  obtain ⟨h1, h2, h3⟩ := h
  simp only [V3.sub, V3.dot] at h1 h2 h3
  apply nearest_of_nonacute
  rw [hx, hy, hz]
  have hr : 0 ≤ 1 - β - γ - δ := by linarith
  nlinarith [mul_nonpos_of_nonneg_of_nonpos hγ h1, mul_nonpos_of_nonneg_of_nonpos hδ h2, mul_nonneg hr h3]

theorem tet_vertex_c_optimal (s : Tetrahedron K) (pt q : V3 K) (hq : TetMem s q)
    (h : letI := fieldNum K sq
      (pt.sub s.c).dot (s.d.sub s.c) ≤ 0 ∧ 0 ≤ (pt.sub s.c).dot (s.c.sub s.b) ∧ 0 ≤ (pt.sub s.c).dot (s.c.sub s.a)) :
    dist2K pt s.c ≤ dist2K pt q := by
  letI := fieldNum K sq
  obtain ⟨β, γ, δ, hβ, hγ, hδ, hs, hx, hy, hz⟩ := hq
  obtain ⟨h1, h2, h3⟩ := h
  simp only [V3.sub, V3.dot] at h1 h2 h3
  apply nearest_of_nonacute
  rw [hx, hy, hz]
  have hr : 0 ≤ 1 - β - γ - δ := by linarith
  nlinarith [mul_nonpos_of_nonneg_of_nonpos hδ h1, mul_nonneg hβ h2, mul_nonneg hr h3]

theorem tet_vertex_d_optimal (s : Tetrahedron K) (pt q : V3 K) (hq : TetMem s q)
    (h : letI := fieldNum K sq
      0 ≤ (pt.sub s.d).dot (s.d.sub s.a) ∧ 0 ≤ (pt.sub s.d).dot (s.d.sub s.b) ∧ 0 ≤ (pt.sub s.d).dot (s.d.sub s.c)) :
    dist2K pt s.d ≤ dist2K pt q := by
  letI := fieldNum K sq
  obtain ⟨β, γ, δ, hβ, hγ, hδ, hs, hx, hy, hz⟩ := hq
  obtain ⟨h1, h2, h3⟩ := h
  simp only [V3.sub, V3.dot] at h1 h2 h3
  apply nearest_of_nonacute
  rw [hx, hy, hz]
  have hr : 0 ≤ 1 - β - γ - δ := by linarith
  nlinarith [mul_nonneg hr h1, mul_nonneg hβ h2, mul_nonneg hγ h3]

/-- the cascade: not the test of `a`, the test of `b` ⇒ `OnVertex(1)` -/
theorem tet_vertex_b_returned (s : Tetrahedron K) (pt : V3 K) (solid : Bool)
    (h0 : letI := fieldNum K sq
      ¬ ((decide ((pt.sub s.a).dot (s.b.sub s.a) ≤ 0) && decide ((pt.sub s.a).dot (s.c.sub s.a) ≤ 0)
        && decide ((pt.sub s.a).dot (s.d.sub s.a) ≤ 0)) = true))
    (h1 : letI := fieldNum K sq
      (decide ((pt.sub s.b).dot (s.c.sub s.b) ≤ 0) && decide ((pt.sub s.b).dot (s.d.sub s.b) ≤ 0)
        && decide (0 ≤ (pt.sub s.b).dot (s.b.sub s.a))) = true) :
    letI := fieldNum K sq
    s.projectLoc pt solid = TetRes.ok ⟨false, s.b⟩ (TetLoc.vertex 1) := by
  letI := fieldNum K sq
  simp only [Tetrahedron.projectLoc]
  rw [if_neg h0, if_pos h1]

/-! ### edge regions (`check_edge`) -/

/-- Binet–Cauchy: `(ap × ab) · (ab × w) = (ap·ab)(ab·w) − (ap·w)(ab·ab)` -/
private theorem binet (ap ab w : V3 K) :
    letI := fieldNum K sq
    (ap.cross ab).dot (ab.cross w) = ap.dot ab * ab.dot w - ap.dot w * ab.dot ab := by
  letI := fieldNum K sq
  simp only [V3.cross, V3.dot]
  ring

/-- `check_edge` soundness.  `bp_ab` is `(pt - b)·ab`, so `ap_ab - bp_ab = ab·ab`. -/
theorem tet_edge_sound (i : Nat) (a ap ab w1 w2 : V3 K) (r : PP3 K × TetLoc K)
    (h : letI := fieldNum K sq
      (tetCheckEdge i a (ab.cross w1) (ab.cross w2) ap ab (ap.dot ab) (ap.dot ab - ab.dot ab)).2.2 = some r) :
    letI := fieldNum K sq
    ∃ u : K, 0 ≤ u ∧ u ≤ 1 ∧ r.1.pt = a.add (ab.smul u) ∧ r.2 = TetLoc.edge i (1 - u) u ∧ r.1.inside = false ∧
      (ap.sub (ab.smul u)).dot ab = 0 ∧ (ap.sub (ab.smul u)).dot w1 ≤ 0 ∧ (ap.sub (ab.smul u)).dot w2 ≤ 0 := by
  letI := fieldNum K sq
  simp only [tetCheckEdge] at h
  split_ifs at h with hc
  · simp only [Option.some.injEq] at h
    simp only [Bool.and_eq_true, Bool.not_eq_true', decide_eq_true_eq] at hc
    obtain ⟨⟨⟨⟨hne, hd1⟩, hd2⟩, h0⟩, h1⟩ := hc
    have hsub : ap.dot ab - (ap.dot ab - ab.dot ab) = ab.dot ab := by ring
    rw [hsub] at hne h1 h
    have hpos : 0 < ab.dot ab := by
      have hnn : 0 ≤ ab.dot ab := by
        simp only [V3.dot]; nlinarith [sq_nonneg ab.x, sq_nonneg ab.y, sq_nonneg ab.z]
      have hne' : ab.dot ab ≠ 0 := by
        intro e
        simp [neq, e] at hne
      exact lt_of_le_of_ne hnn (Ne.symm hne')
    rw [binet] at hd1 hd2
    refine ⟨ap.dot ab / ab.dot ab, div_nonneg h0 hpos.le, (div_le_one hpos).mpr h1, ?_, ?_, ?_, ?_, ?_, ?_⟩
    · rw [← h]
    · rw [← h]
    · rw [← h]
    · have : ap.dot ab / ab.dot ab * ab.dot ab = ap.dot ab := div_mul_cancel₀ _ (ne_of_gt hpos)
      simp only [V3.sub, V3.smul, V3.dot] at this ⊢
      linear_combination -this
    · have hu : ap.dot ab / ab.dot ab * ab.dot ab = ap.dot ab := div_mul_cancel₀ _ (ne_of_gt hpos)
      have : (ap.sub (ab.smul (ap.dot ab / ab.dot ab))).dot w1 * ab.dot ab
          = -(ap.dot ab * ab.dot w1 - ap.dot w1 * ab.dot ab) := by
        simp only [V3.sub, V3.smul, V3.dot] at hu ⊢
        linear_combination (-(ab.x * w1.x + ab.y * w1.y + ab.z * w1.z)) * hu
      by_contra hcon
      push Not at hcon
      have := mul_pos hcon hpos
      linarith
    · have hu : ap.dot ab / ab.dot ab * ab.dot ab = ap.dot ab := div_mul_cancel₀ _ (ne_of_gt hpos)
      have : (ap.sub (ab.smul (ap.dot ab / ab.dot ab))).dot w2 * ab.dot ab
          = -(ap.dot ab * ab.dot w2 - ap.dot w2 * ab.dot ab) := by
        simp only [V3.sub, V3.smul, V3.dot] at hu ⊢
        linear_combination (-(ab.x * w2.x + ab.y * w2.y + ab.z * w2.z)) * hu
      by_contra hcon
      push Not at hcon
      have := mul_pos hcon hpos
      linarith

/-- consequence: no point `a + β·ab + γ·w1 + δ·w2` with `0 ≤ β ≤ 1`… in fact any `β`, and `γ, δ ≥ 0` is closer to `pt = a + ap`
than the point returned by `check_edge` -/
theorem tet_edge_optimal (i : Nat) (a ap ab w1 w2 : V3 K) (r : PP3 K × TetLoc K)
    (h : letI := fieldNum K sq
      (tetCheckEdge i a (ab.cross w1) (ab.cross w2) ap ab (ap.dot ab) (ap.dot ab - ab.dot ab)).2.2 = some r)
    (β γ δ : K) (hγ : 0 ≤ γ) (hδ : 0 ≤ δ) :
    letI := fieldNum K sq
    dist2K (a.add ap) r.1.pt ≤ dist2K (a.add ap) (((a.add (ab.smul β)).add (w1.smul γ)).add (w2.smul δ)) := by
  letI := fieldNum K sq
  obtain ⟨u, _, _, hpt, _, _, hperp, hw1, hw2⟩ := tet_edge_sound sq i a ap ab w1 w2 r h
  apply nearest_of_nonacute
  rw [hpt]
  simp only [V3.add, V3.sub, V3.smul, V3.dot] at hperp hw1 hw2 ⊢
  have e : (β - u) * ((ap.x - ab.x * u) * ab.x + (ap.y - ab.y * u) * ab.y + (ap.z - ab.z * u) * ab.z) = 0 := by
    rw [hperp]; ring
  have e1 := mul_nonpos_of_nonneg_of_nonpos hγ hw1
  have e2 := mul_nonpos_of_nonneg_of_nonpos hδ hw2
  linarith [e, e1, e2]

/-- non-vacuity: the edge test fires for the unit corner tetrahedron and a point beside the edge `ab` -/
example : ∃ (a ap ab w1 w2 : V3 ℚ) (r : PP3 ℚ × TetLoc ℚ),
    (tetCheckEdge 0 a (ab.cross w1) (ab.cross w2) ap ab (ap.dot ab) (ap.dot ab - ab.dot ab)).2.2 = some r :=
  ⟨⟨0, 0, 0⟩, ⟨1/2, -1, -1⟩, ⟨1, 0, 0⟩, ⟨0, 1, 0⟩, ⟨0, 0, 1⟩,
    (⟨false, (⟨0, 0, 0⟩ : V3 ℚ).add ((⟨1, 0, 0⟩ : V3 ℚ).smul (1 / 2))⟩, TetLoc.edge 0 (1 / 2) (1 / 2)), by
    simp [tetCheckEdge, V3.cross, V3.dot, neq] <;> norm_num⟩

end C05
