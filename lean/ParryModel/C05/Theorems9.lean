import ParryModel.Field
import ParryModel.C05.Mesh
import ParryModel.C05.Theorems2
import ParryModel.C05.Theorems5
set_option linter.style.haveILetI false
set_option linter.unusedSimpArgs false
set_option linter.unusedVariables false
set_option linter.unusedSectionVars false
/-!
# C05 property theorems, part 9 (fu4): small completions

* `hf_cell_triangles_ok` — every triangle of a height-field cell with `x0 ≠ x1`, `z0 ≠ z1` is non-degenerate (`Tri3Ok`: the `y`
  component of its normal is `±(x1-x0)(z1-z0)`), for both subdivisions and every removal status — this discharges the
  non-degeneracy hypothesis of `hf_project_nearest` / `hf_max_dist_nearest` for every height field with non-zero scale.
* `tet_vertex_c_returned`, `tet_vertex_d_returned` — the remaining two vertex branches of the tetrahedron cascade.
-/
namespace C05
open Model Model.PM

variable {K : Type} [Field K] [LinearOrder K] [IsStrictOrderedRing K] (sq : K → K)

private theorem triOk_of (a b c : V3 K)
    (h : (b.z - a.z) * (c.x - a.x) - (b.x - a.x) * (c.z - a.z) ≠ 0) : Tri3Ok (⟨a, b, c⟩ : Triangle3 K) := by
  simp only [Tri3Ok]
  intro hg
  apply h
  have e : ((b.x - a.x) * (b.x - a.x) + (b.y - a.y) * (b.y - a.y) + (b.z - a.z) * (b.z - a.z)) * ((c.x - a.x) * (c.x - a.x) + (c.y - a.y) * (c.y - a.y) + (c.z - a.z) * (c.z - a.z)) - ((b.x - a.x) * (c.x - a.x) + (b.y - a.y) * (c.y - a.y) + (b.z - a.z) * (c.z - a.z)) * ((b.x - a.x) * (c.x - a.x) + (b.y - a.y) * (c.y - a.y) + (b.z - a.z) * (c.z - a.z))
      = ((b.y - a.y) * (c.z - a.z) - (b.z - a.z) * (c.y - a.y)) * ((b.y - a.y) * (c.z - a.z) - (b.z - a.z) * (c.y - a.y))
        + ((b.z - a.z) * (c.x - a.x) - (b.x - a.x) * (c.z - a.z)) * ((b.z - a.z) * (c.x - a.x) - (b.x - a.x) * (c.z - a.z))
        + ((b.x - a.x) * (c.y - a.y) - (b.y - a.y) * (c.x - a.x)) * ((b.x - a.x) * (c.y - a.y) - (b.y - a.y) * (c.x - a.x)) := by ring
  rw [e] at hg
  have hy : ((b.z - a.z) * (c.x - a.x) - (b.x - a.x) * (c.z - a.z)) * ((b.z - a.z) * (c.x - a.x) - (b.x - a.x) * (c.z - a.z)) ≤ 0 := by
    nlinarith [mul_self_nonneg ((b.y - a.y) * (c.z - a.z) - (b.z - a.z) * (c.y - a.y)),
      mul_self_nonneg ((b.x - a.x) * (c.y - a.y) - (b.y - a.y) * (c.x - a.x))]
  exact mul_self_eq_zero.mp (le_antisymm hy (mul_self_nonneg _))

theorem hf_cell_triangles_ok (s : Nat) (x0 x1 z0 z1 y00 y10 y01 y11 : K) (hx : x0 ≠ x1) (hz : z0 ≠ z1) :
    ∀ t ∈ optList (cellTriangles s (⟨x0, y00, z0⟩ : V3 K) ⟨x0, y10, z1⟩ ⟨x1, y01, z0⟩ ⟨x1, y11, z1⟩), Tri3Ok t := by
  have hne : (z1 - z0) * (x1 - x0) ≠ 0 := mul_ne_zero (sub_ne_zero.mpr hz.symm) (sub_ne_zero.mpr hx.symm)
  have k1 : Tri3Ok (⟨⟨x0, y00, z0⟩, ⟨x0, y10, z1⟩, ⟨x1, y01, z0⟩⟩ : Triangle3 K) := by
    apply triOk_of; intro h; apply hne; simp only at h; linear_combination h
  have k2 : Tri3Ok (⟨⟨x0, y10, z1⟩, ⟨x1, y11, z1⟩, ⟨x1, y01, z0⟩⟩ : Triangle3 K) := by
    apply triOk_of; intro h; apply hne; simp only at h; linear_combination h
  have k3 : Tri3Ok (⟨⟨x0, y00, z0⟩, ⟨x0, y10, z1⟩, ⟨x1, y11, z1⟩⟩ : Triangle3 K) := by
    apply triOk_of; intro h; apply hne; simp only at h; linear_combination h
  have k4 : Tri3Ok (⟨⟨x0, y00, z0⟩, ⟨x1, y11, z1⟩, ⟨x1, y01, z0⟩⟩ : Triangle3 K) := by
    apply triOk_of; intro h; apply hne; simp only at h; linear_combination h
  intro t ht
  cases hl : leftRemoved s <;> cases hr : rightRemoved s <;> cases hzz : zigzag s <;>
    simp only [cellTriangles, optList, hl, hr, hzz, if_true, if_false, Bool.false_eq_true, List.mem_cons, List.mem_nil_iff,
      List.not_mem_nil, or_false] at ht
  all_goals first
    | (rcases ht with rfl | rfl <;> first | exact k1 | exact k2 | exact k3 | exact k4)
    | (subst ht; first | exact k1 | exact k2 | exact k3 | exact k4)
    | exact ht.elim
    | (simp at ht)

theorem tet_vertex_c_returned (s : Tetrahedron K) (pt : V3 K) (solid : Bool)
    (h0 : letI := fieldNum K sq
      ¬ ((decide ((pt.sub s.a).dot (s.b.sub s.a) ≤ 0) && decide ((pt.sub s.a).dot (s.c.sub s.a) ≤ 0)
        && decide ((pt.sub s.a).dot (s.d.sub s.a) ≤ 0)) = true))
    (h1 : letI := fieldNum K sq
      ¬ ((decide ((pt.sub s.b).dot (s.c.sub s.b) ≤ 0) && decide ((pt.sub s.b).dot (s.d.sub s.b) ≤ 0)
        && decide (0 ≤ (pt.sub s.b).dot (s.b.sub s.a))) = true))
    (h2 : letI := fieldNum K sq
      (decide ((pt.sub s.c).dot (s.d.sub s.c) ≤ 0) && decide (0 ≤ (pt.sub s.c).dot (s.c.sub s.b))
        && decide (0 ≤ (pt.sub s.c).dot (s.c.sub s.a))) = true) :
    letI := fieldNum K sq
    s.projectLoc pt solid = TetRes.ok ⟨false, s.c⟩ (TetLoc.vertex 2) := by
  letI := fieldNum K sq
  simp only [Tetrahedron.projectLoc]
  rw [if_neg h0, if_neg h1, if_pos h2]

theorem tet_vertex_d_returned (s : Tetrahedron K) (pt : V3 K) (solid : Bool)
    (h0 : letI := fieldNum K sq
      ¬ ((decide ((pt.sub s.a).dot (s.b.sub s.a) ≤ 0) && decide ((pt.sub s.a).dot (s.c.sub s.a) ≤ 0)
        && decide ((pt.sub s.a).dot (s.d.sub s.a) ≤ 0)) = true))
    (h1 : letI := fieldNum K sq
      ¬ ((decide ((pt.sub s.b).dot (s.c.sub s.b) ≤ 0) && decide ((pt.sub s.b).dot (s.d.sub s.b) ≤ 0)
        && decide (0 ≤ (pt.sub s.b).dot (s.b.sub s.a))) = true))
    (h2 : letI := fieldNum K sq
      ¬ ((decide ((pt.sub s.c).dot (s.d.sub s.c) ≤ 0) && decide (0 ≤ (pt.sub s.c).dot (s.c.sub s.b))
        && decide (0 ≤ (pt.sub s.c).dot (s.c.sub s.a))) = true))
    (h3 : letI := fieldNum K sq
      (decide (0 ≤ (pt.sub s.d).dot (s.d.sub s.a)) && decide (0 ≤ (pt.sub s.d).dot (s.d.sub s.b))
        && decide (0 ≤ (pt.sub s.d).dot (s.d.sub s.c))) = true) :
    letI := fieldNum K sq
    s.projectLoc pt solid = TetRes.ok ⟨false, s.d⟩ (TetLoc.vertex 3) := by
  letI := fieldNum K sq
  simp only [Tetrahedron.projectLoc]
  rw [if_neg h0, if_neg h1, if_neg h2, if_pos h3]

/-- non-vacuity of the vertex tests: the corner tetrahedron and a point beyond vertex `d = e3` -/
example : ∃ (s : Tetrahedron ℚ) (pt : V3 ℚ),
    0 ≤ (pt.z - s.d.z) * (s.d.z - s.a.z) + (pt.x - s.d.x) * (s.d.x - s.a.x) + (pt.y - s.d.y) * (s.d.y - s.a.y) :=
  ⟨⟨⟨0, 0, 0⟩, ⟨1, 0, 0⟩, ⟨0, 1, 0⟩, ⟨0, 0, 1⟩⟩, ⟨0, 0, 2⟩, by norm_num⟩

end C05
