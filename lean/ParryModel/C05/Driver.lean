import ParryModel.C05.DriverBase
import ParryModel.C05.DriverMesh
/-! C05 protocol dispatch: primitive shapes (`DriverBase`) + composite shapes `tm_*` / `hf_*` (`DriverMesh`). -/
namespace C05
def handler (fn : String) : Option Proto.Handler :=
  match meshHandler fn with
  | some h => some h
  | none => handlerBase fn
end C05
