import ParryModel.C05.DriverBase
import ParryModel.C05.DriverMesh
import ParryModel.C05.DriverTet
/-! C05 protocol dispatch: primitive shapes (`DriverBase`) + composite shapes `tm_*` / `hf_*` (`DriverMesh`) + the tetrahedron's default methods `tet_{proj,maxd,wproj,wdist,wcont}` (`DriverTet`). -/
namespace C05
def handler (fn : String) : Option Proto.Handler :=
  match meshHandler fn with
  | some h => some h
  | none =>
    match (match fn with
      | "tet_proj" => tetHandler2 "proj" | "tet_maxd" => tetHandler2 "maxd" | "tet_wproj" => tetHandler2 "wproj"
      | "tet_wdist" => tetHandler2 "wdist" | "tet_wcont" => tetHandler2 "wcont" | _ => none) with
    | some h => some h
    | none => handlerBase fn
end C05
